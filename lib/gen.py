"""History generators for the Bdd domain.  Every random choice comes from the one `random.Random` passed in, so a
history is reproduced exactly by its seed.  The generator tracks the truth table of every register it creates (it has
its own little semantics in lib/tt.py) so that it can stratify arguments by guard class and predict which registers a
collection keeps; a wrong prediction is harmless (both runners skip a line that names a dead register)."""

import random
from collections import Counter

from tt import Ctx

BINOPS = ["and", "or", "xor", "eq", "imply"]

DEFAULT_WEIGHTS = {
    "ite": 20, "bin": 12, "not": 2, "many": 3, "cubeclause": 4, "expr": 4, "node": 4, "var": 1, "const": 1,
    "subst": 4, "substm": 3, "cofcube": 3, "compose": 5, "constrain": 6, "restrict": 6,
    "lowhigh": 2, "topcof": 2,
    "itec": 4, "implies": 3, "size": 4, "desc": 1, "satcount": 3, "onesat": 2, "paths": 2, "bracket": 2, "dot": 1,
    "gc": 6, "dump": 0.4, "randfun": 5,
}


class BddGen:
    def __init__(self, rng, nvars, cfg, weights=None, malformed=0.02, maxvar_extra=0):
        self.rng = rng
        self.c = Ctx(nvars)
        self.n = nvars
        self.lines = ["cfg " + cfg, "nvars %d" % min(nvars, 6)]
        self.tt = []          # truth table of each register (None = unknown / skipped)
        self.live = []        # registers believed live
        self.weights = dict(DEFAULT_WEIGHTS if weights is None else weights)
        self.malformed = malformed
        self.maxvar_extra = maxvar_extra
        self.stats = Counter()
        self.classes = Counter()
        self.last_pair = None
        self.recent = []
        self.complex = []
        self.by_tt = {}
        self._live_cache = (-1, set())
        # preamble: constants and variables
        self.reg("const 1", self.c.one)
        self.reg("const 0", 0)
        for v in range(1, nvars + 1):
            self.reg("var %d" % v, self.c.var(v))

    def wide_preamble(self, extra):
        """variables beyond nvars (meaning unknown to the generator, live all the same), huge variable numbers, and a few
        cubes / clauses over them so that later operations work on diagrams with many levels"""
        r = self.rng
        hi = self.n + extra
        for v in list(range(self.n + 1, hi + 1)) + [65535 + r.randrange(3), 2147483600 + r.randrange(40), 2147483647]:
            k = self.reg("var %d" % v, None, False)
            self.live.append(k)
        for j in range(8):
            k = r.randrange(2, min(hi, 14) + 1) if j < 5 else r.randrange(max(2, hi - 8), hi + 1)      # the last ones are long
            vs = r.sample(range(1, hi + 1), k)
            lits = [v if r.random() < 0.6 else -v for v in vs]
            kind = r.choice(["cube", "clause"])
            kk = self.reg("%s %d %s" % (kind, k, " ".join(map(str, lits))), None, False)
            self.live.append(kk)
            self.complex.append(kk)
            if j >= 5:
                # queries on diagrams with many levels (deep recursions, long literal lists)
                a = self.a(kk, r.random() < 0.5)
                self.q("onesat %s" % a)
                self.q("onesat %s" % self.a(kk, True))
                self.q("itec %s %s 1" % (a, self.a(*self.pick())))
                self.q("itec %s %s %s" % (a, self.a(r.choice(self.live[-12:]), r.random() < 0.5), self.a(r.choice(self.live[-12:]), r.random() < 0.5)))
                self.q("implies %s %s" % (a, self.a(r.choice(self.live[-12:]), False)))
                self.q("size %s" % a)
                if kind == "cube" or k <= 12:
                    self.q("paths %s" % a)
        # literals near the limits of the i32 literal type, mixed with small ones, in every listing order
        for _ in range(4):
            big = r.choice([1 << 15, (1 << 16) + 1, 1 << 30, (1 << 30) + 7, (1 << 31) - 1, 2147483600 + r.randrange(40)])
            small = r.sample(range(1, hi + 1), r.randrange(1, 4))
            lits = [v if r.random() < 0.5 else -v for v in small + [big]]
            r.shuffle(lits)
            kk = self.reg("%s %d %s" % (r.choice(["cube", "clause"]), len(lits), " ".join(map(str, lits))), None, False)
            self.live.append(kk)
            self.q("onesat %s" % self.a(kk, False))
            self.q("satcount %s %d" % (self.a(kk, r.random() < 0.5), r.choice([64, 128, 130])))
        # cubes / clauses mixing small variable numbers with numbers >= 64 (bit-set or modulo tricks on variable numbers show
        # here), and the cofactor operations on exactly those large variables
        for _ in range(3):
            small = r.sample(range(1, min(hi, 12) + 1), r.randrange(1, 4))
            big = r.choice([64, 65, 70, 127, 128, 129, 200, 4096, 65535 + r.randrange(3), 70000, (1 << 30) + 7])
            lits = [v if r.random() < 0.6 else -v for v in small + [big]]
            r.shuffle(lits)
            kk = self.reg("%s %d %s" % (r.choice(["cube", "clause"]), len(lits), " ".join(map(str, lits))), None, False)
            self.live.append(kk)
            b = r.randrange(2)
            for line in ("substm %s 1 %d %d" % (self.a(kk, r.random() < 0.5), big, b),
                         "subst %s %d %d" % (self.a(kk, r.random() < 0.5), big, 1 - b),
                         "cofcube %s 1 %d" % (self.a(kk, r.random() < 0.5), big if b else -big),
                         "substm %s 2 %d %d %d %d" % (self.a(kk, False), small[0], r.randrange(2), big, b),
                         "compose %s %d %s" % (self.a(kk, False), big, self.a(*self.pick()))):
                k2 = self.reg(line, None, False)
                self.live.append(k2)
            self.q("size %s" % self.a(kk, False))
            self.q("dot 2 %s %s" % (self.a(kk, False), self.a(kk, True)))
        # long cubes: diagrams with 63 .. 300 levels (lengths around powers of two), as care sets of constrain / restrict, as
        # arguments of the cofactor operations, and queried
        K = r.choice([63, 64, 65, 127, 128, 129, 130, 255, 256, 257, 300, 300, 1000, 1025, 1400, 2049, 4100])
        lits = [v if r.random() < 0.7 else -v for v in range(1, K + 1)]
        kc = self.reg("cube %d %s" % (K, " ".join(map(str, lits))), None, False)
        self.live.append(kc)
        vk = self.reg("var %d" % K, None, False)
        vk1 = self.reg("var %d" % (K - 1), None, False)
        self.live += [vk, vk1]
        f2 = self.reg("xor %s %s" % (self.a(vk, False), self.a(*self.pick())), None, False)
        self.live.append(f2)
        for line in ("restrict %s %s" % (self.a(vk, False), self.a(kc, False)),
                     "constrain %s %s" % (self.a(vk, r.random() < 0.5), self.a(kc, False)),
                     "restrict %s %s" % (self.a(f2, r.random() < 0.5), self.a(kc, False)),
                     "constrain %s %s" % (self.a(f2, False), self.a(kc, False)),
                     "restrict %s %s" % (self.a(vk1, True), self.a(kc, False)),
                     "and %s %s" % (self.a(kc, False), self.a(vk, True)),
                     "ite %s %s %s" % (self.a(kc, False), self.a(vk, False), self.a(f2, False)),
                     "compose %s %d %s" % (self.a(kc, False), K, self.a(f2, False)),
                     "subst %s %d %d" % (self.a(kc, False), K, 1 if lits[-1] > 0 else 0)):
            k2 = self.reg(line, None, False)
            self.live.append(k2)
        self.q("onesat %s" % self.a(kc, False))
        self.q("paths %s" % self.a(kc, False))
        self.q("satcount %s %d" % (self.a(kc, r.random() < 0.5), K + r.choice([0, 1, 64])))
        self.q("size %s" % self.a(kc, True))
        self.q("implies %s %s" % (self.a(kc, False), self.a(vk, False)))
        self.q("itec %s %s 1" % (self.a(kc, False), self.a(vk1, lits[-2] < 0)))
        self.classes["cube:len=%d" % K] += 1
        # long folds: 2^16 (+-1) and more items drawn from a handful of registers
        if r.random() < 0.5:
            n = r.choice([65535, 65536, 65537, 70000])
            pool = [(r.randrange(2, self.n + 2), r.random() < 0.4) for _ in range(4)]     # variables: every step of the fold is cheap
            items = [pool[r.randrange(4)] for _ in range(n)]
            kind = r.choice(["andmany", "ormany"])
            vals = [self.val(*x) if x[0] < len(self.tt) else None for x in pool]
            tt = None
            if None not in vals:
                used = set(items)
                tt = self.c.one if kind == "andmany" else 0
                for x, vv in zip(pool, vals):
                    if x in used:
                        tt = (tt & vv) if kind == "andmany" else (tt | vv)
            self.reg("%s %d %s" % (kind, n, " ".join(self.a(*x) for x in items)), tt, tt is not None)
            self.classes["fold:len=%d" % n] += 1
        self.classes["family:wide"] += 1

    def huge_vars_epilogue(self):
        """appended AFTER the random part of a wide history, so that no later line (the malformed-argument stratum draws arbitrary
        register numbers) can hand these registers to one_sat / paths / cube, which go through i32 literals"""
        r = self.rng
        # variable numbers >= 2^31: they cannot be written as i32 literals (cube / clause / cofactor_cube, and one_sat / paths
        # print them as negative numbers: documented bound), so their registers are kept out of the pool the random operations
        # draw from and only the operations that take u32 variables are applied to them
        huge = [r.choice([2147483648, 2147483649, 3000000000, 4000000000, 4294967294, 4294967295]) for _ in range(2)]
        if huge[0] != huge[1]:
            hv = [self.reg("var %d" % v, None, False) for v in huge]
            sm = self.pick()
            g1 = self.reg("and %s %s" % (self.a(hv[0], r.random() < 0.5), self.a(hv[1], r.random() < 0.5)), None, False)
            g2 = self.reg("or %s %s" % (self.a(hv[0], False), self.a(*sm)), None, False)
            f1 = self.reg("xor %s %s" % (self.a(g2, False), self.a(hv[1], False)), None, False)
            for line in ("constrain %s %s" % (self.a(f1, False), self.a(g1, False)),
                         "restrict %s %s" % (self.a(f1, False), self.a(g1, False)),
                         "constrain %s %s" % (self.a(f1, True), self.a(hv[0], r.random() < 0.5)),
                         "constrain %s %s" % (self.a(*sm), self.a(g1, False)),
                         "restrict %s %s" % (self.a(g2, False), self.a(hv[1], True)),
                         "compose %s %d %s" % (self.a(f1, False), huge[0], self.a(*sm)),
                         "subst %s %d %d" % (self.a(f1, False), huge[1], r.randrange(2)),
                         "substm %s 2 %d 1 %d 0" % (self.a(f1, False), huge[0], huge[1]),
                         "ite %s %s %s" % (self.a(hv[0], False), self.a(f1, False), self.a(g1, True))):
                self.reg(line, None, False)
            self.q("size %s" % self.a(f1, False))
            self.q("itec %s %s 1" % (self.a(g1, False), self.a(hv[0], False)))
            self.q("implies %s %s" % (self.a(g1, False), self.a(hv[1], False)))
            self.q("dot 1 %s" % self.a(f1, False))
            self.q("bracket %s" % self.a(f1, True))
            self.classes["vars>=2^31"] += 1

    # ---- bookkeeping
    REPLAYABLE = ("ite", "and", "or", "xor", "eq", "imply", "constrain", "restrict", "compose", "subst", "substm", "cofcube", "andmany", "ormany", "expr")

    def reg(self, line, tt, ok=True):
        self.lines.append(line)
        if ok and line.split()[0] in self.REPLAYABLE and not getattr(self, "_replaying", False):
            self.recent.append((line, tt))
            if len(self.recent) > 60:
                self.recent.pop(0)
        k = len(self.tt)
        self.tt.append(tt if ok else None)
        if ok and tt is not None:
            self.live.append(k)
        self.stats[line.split()[0]] += 1
        return k

    def q(self, line):
        self.lines.append(line)
        self.stats[line.split()[0]] += 1

    def a(self, k, neg=False):
        return ("~%d" % k) if neg else str(k)

    def val(self, k, neg):
        t = self.tt[k]
        if t is None:
            return None
        return self.c.neg(t) if neg else t

    # ---- functions with rich diagrams: built bottom-up from a truth table with `node` (Shannon expansion, shared sub-functions)
    def build_function(self, t, v=1):
        """register holding a handle for truth table t (depends only on variables >= v); emits the node lines it needs"""
        c = self.c
        known = self.by_tt.get(t)
        if known is not None and known in self.live_set():
            return (known, False)
        known = self.by_tt.get(c.neg(t))
        if known is not None and known in self.live_set():
            return (known, True)
        if t == c.one:
            return (0, False)
        if t == 0:
            return (1, False)
        while not c.depends(t, v):
            v += 1
        lo = self.build_function(c.cof(t, v, False), v + 1)
        hi = self.build_function(c.cof(t, v, True), v + 1)
        k = self.reg("node %d %s %s" % (v, self.a(*lo), self.a(*hi)), t)
        self.by_tt[t] = k
        return (k, False)

    def live_set(self):
        if self._live_cache[0] != len(self.live):
            self._live_cache = (len(self.live), set(self.live))
        return self._live_cache[1]

    def op_randfun(self):
        r = self.rng
        x = r.random()
        if x < 0.5:
            t = r.getrandbits(self.c.rows)
        elif x < 0.75:                                   # unbalanced: few models / few counter-models
            t = 0
            for _ in range(r.randrange(1, max(2, self.c.rows // 4))):
                t |= 1 << r.randrange(self.c.rows)
            if r.random() < 0.5:
                t = self.c.neg(t)
        else:                                            # shares sub-functions: f = x1 ? g : h with g, h related
            g = r.getrandbits(self.c.rows)
            g = self.c.cof(g, 1, True)
            h = r.choice([self.c.neg(g), g ^ self.c.var(self.n), g & self.c.var(max(1, self.n - 1)), self.c.cof(r.getrandbits(self.c.rows), 1, False)])
            h = self.c.cof(h, 1, True)
            t = self.c.ite(self.c.var(1), g, h)
        k, n = self.build_function(t)
        self.classes["randfun"] += 1
        if k not in self.complex:
            self.complex.append(k)
        if len(self.complex) > 40:
            self.complex.pop(0)

    # ---- argument choice
    def pick(self):
        """(register, complemented) -- mostly live, sometimes deliberately dead / out of range"""
        r = self.rng
        if r.random() < self.malformed:
            self.classes["arg:malformed"] += 1
            return (r.randrange(len(self.tt) + 3), r.random() < 0.5)
        x = r.random()
        if x > 0.72 and self.complex:
            k = r.choice(self.complex)
            if k in self.live_set():
                return (k, r.random() < 0.5)
        if x < 0.08:
            return (r.choice([0, 1]), False)                       # a constant
        if x < 0.5 and len(self.live) > 12:
            return (self.live[r.randrange(len(self.live) - 12, len(self.live))], r.random() < 0.5)   # recent
        return (r.choice(self.live), r.random() < 0.5)

    def pick_nonconst(self):
        for _ in range(8):
            k, n = self.pick()
            if k < len(self.tt) and self.tt[k] not in (None, 0, self.c.one):
                return (k, n)
        return self.pick()

    def alias(self, k, neg):
        """another register denoting the same function (canonicity: must be the same handle)"""
        t = self.val(k, neg) if k < len(self.tt) else None
        if t is None:
            return (k, neg)
        cands = [j for j in self.live if self.tt[j] == t or self.tt[j] == self.c.neg(t)]
        j = self.rng.choice(cands) if cands else k
        return (j, self.tt[j] != t)

    # ---- operations
    def op_ite(self):
        r = self.rng
        f = self.pick_nonconst() if r.random() < 0.8 else self.pick()
        g = self.pick()
        h = self.pick()
        one, zero = (0, False), (1, False)
        nf = (f[0], not f[1])
        pats = [
            ("rand", (f, g, h)),
            ("F,1,~F", (f, one, nf)), ("F,F,1", (f, f, one)), ("F,~F,0", (f, nf, zero)), ("F,0,F", (f, zero, f)),
            ("F,G,G", (f, g, g)), ("F,1,0", (f, one, zero)), ("F,0,1", (f, zero, one)),
            ("F,F,H", (f, f, h)), ("F,G,F", (f, g, f)), ("F,~F,H", (f, nf, h)), ("F,G,~F", (f, g, nf)),
            ("F,1,H", (f, one, h)), ("F,G,0", (f, g, zero)), ("F,G,1", (f, g, one)), ("F,0,H", (f, zero, h)),
            ("F,G,~G", (f, g, (g[0], not g[1]))),
            ("1,G,H", (one, g, h)), ("0,G,H", (zero, g, h)),
        ]
        if r.random() < 0.45:
            name, (x, y, z) = pats[0]
        else:
            name, (x, y, z) = r.choice(pats[1:])
            if r.random() < 0.5:   # the same pattern through aliases of the arguments
                y = self.alias(*y) if y[0] < len(self.tt) else y
                z = self.alias(*z) if z[0] < len(self.tt) else z
        self.classes["ite:" + name] += 1
        tt = None
        vs = [self.val(k, n) if k < len(self.tt) else None for (k, n) in (x, y, z)]
        if None not in vs:
            tt = self.c.ite(*vs)
            tf, tg, th = (self.c.top(v) for v in vs)
            self.classes["ite-order:" + ("f<=" if tf and (not tg or tf <= tg) and (not th or tf <= th) else "f>")] += 1
        self.reg("ite %s %s %s" % (self.a(*x), self.a(*y), self.a(*z)), tt, tt is not None)

    def op_bin(self):
        op = self.rng.choice(BINOPS)
        f = self.pick()
        g = self.pick()
        x = self.rng.random()
        if x < 0.1:
            g = f
        elif x < 0.2:
            g = (f[0], not f[1])
        vs = [self.val(k, n) if k < len(self.tt) else None for (k, n) in (f, g)]
        tt = None
        if None not in vs:
            u, v = vs
            tt = {"and": u & v, "or": u | v, "xor": u ^ v, "eq": self.c.neg(u ^ v), "imply": self.c.neg(u) | v}[op]
        self.reg("%s %s %s" % (op, self.a(*f), self.a(*g)), tt, tt is not None)

    def op_not(self):
        f = self.pick()
        t = self.val(*f) if f[0] < len(self.tt) else None
        self.reg("not %s" % self.a(*f), None if t is None else self.c.neg(t), t is not None)

    def op_many(self):
        k = self.rng.choice([0, 1, 2, 3, 4, 5, 6, 7, 8, 11, 13, 15, 19])
        disj = self.rng.random() < 0.5
        args = [self.pick() for _ in range(k)]
        vs = [self.val(*x) if x[0] < len(self.tt) else None for x in args]
        tt = None
        if None not in vs:
            tt = 0 if disj else self.c.one
            for v in vs:
                tt = (tt | v) if disj else (tt & v)
        self.reg("%s %d %s" % ("ormany" if disj else "andmany", k, " ".join(self.a(*x) for x in args)), tt, tt is not None)

    def op_cubeclause(self):
        r = self.rng
        hi = self.n + self.maxvar_extra
        k = r.randrange(0, min(hi, 5) + 1)
        vs = r.sample(range(1, hi + 1), k)
        lits = [v if r.random() < 0.5 else -v for v in vs]
        bad = False
        if r.random() < self.malformed and lits:
            bad = True
            lits[r.randrange(len(lits))] = r.choice([0, lits[0], -lits[0]])
            if len(set(abs(l) for l in lits)) == len(lits) and 0 not in lits:
                bad = False
        cl = r.random() < 0.5
        tt = None
        if not bad and all(abs(l) <= self.n for l in lits):
            tt = 0 if cl else self.c.one
            for l in lits:
                x = self.c.var(abs(l)) if l > 0 else self.c.neg(self.c.var(abs(l)))
                tt = (tt | x) if cl else (tt & x)
        ok = (not bad)
        k2 = self.reg("%s %d %s" % ("clause" if cl else "cube", len(lits), " ".join(map(str, lits))), tt, ok and tt is not None)
        if ok and tt is None:
            pass  # variables beyond nvars: live but meaning unknown to the generator

    def gen_expr(self, depth):
        r = self.rng
        if depth <= 0 or r.random() < 0.3:
            k, n = self.pick()
            return ("t" + self.a(k, n), self.val(k, n) if k < len(self.tt) else None)
        x = r.random()
        if x < 0.15:
            s, t = self.gen_expr(depth - 1)
            return ("! " + s, None if t is None else self.c.neg(t))
        if x < 0.35:
            s, t = self.gen_expr(depth - 1)
            return ("- " + s, None if t is None else self.c.neg(t))
        op = r.choice("&|^")
        s1, t1 = self.gen_expr(depth - 1)
        s2, t2 = self.gen_expr(depth - 1)
        t = None
        if t1 is not None and t2 is not None:
            t = {"&": t1 & t2, "|": t1 | t2, "^": t1 ^ t2}[op]
        return ("%s %s %s" % (op, s1, s2), t)

    def op_expr(self):
        s, t = self.gen_expr(self.rng.randrange(0, 5))
        self.reg("expr " + s, t, t is not None)

    def op_node(self):
        r = self.rng
        # children must lie strictly below v
        v = r.randrange(0 if r.random() < self.malformed else 1, self.n + 1)
        lo = self.pick()
        hi = self.pick()
        if r.random() < 0.15:
            hi = lo
        vs = [self.val(*x) if x[0] < len(self.tt) else None for x in (lo, hi)]
        ok = v >= 1 and None not in vs and all(all(w > v for w in self.c.support(t)) for t in vs)
        tt = self.c.ite(self.c.var(v), vs[1], vs[0]) if ok else None
        self.classes["node:" + ("ok" if ok else "precondition-violated")] += 1
        self.reg("node %d %s %s" % (v, self.a(*lo), self.a(*hi)), tt, ok)

    def op_var(self):
        v = self.rng.randrange(0, self.n + 1 + self.maxvar_extra)
        self.reg("var %d" % v, self.c.var(v) if 1 <= v <= self.n else None, 1 <= v <= self.n)

    def op_const(self):
        b = self.rng.randrange(2)
        self.reg("const %d" % b, self.c.one if b else 0)

    def some_var(self):
        r = self.rng
        x = r.random()
        if x < self.malformed:
            return 0
        if x < 0.1:
            return self.n + 1      # outside every support
        return r.randrange(1, self.n + 1)

    def op_subst(self):
        f = self.pick_nonconst()
        v = self.some_var()
        b = self.rng.randrange(2)
        t = self.val(*f) if f[0] < len(self.tt) else None
        ok = t is not None and v >= 1
        tt = (self.c.cof(t, v, bool(b)) if v <= self.n else t) if ok else None
        self.reg("subst %s %d %d" % (self.a(*f), v, b), tt, ok)

    def op_substm(self):
        r = self.rng
        f = self.pick_nonconst()
        k = r.randrange(0, 4)
        vs = r.sample(range(1, self.n + 2), min(k, self.n + 1))
        if vs and r.random() < self.malformed:
            vs.append(vs[0])
        pairs = [(v, r.randrange(2)) for v in vs]
        t = self.val(*f) if f[0] < len(self.tt) else None
        ok = t is not None and len(set(vs)) == len(vs)
        tt = None
        if ok:
            tt = t
            for v, b in pairs:
                if v <= self.n:
                    tt = self.c.cof(tt, v, bool(b))
        self.reg(("substm %s %d %s" % (self.a(*f), len(pairs), " ".join("%d %d" % p for p in pairs))).rstrip(), tt, ok)

    def op_cofcube(self):
        r = self.rng
        f = self.pick_nonconst()
        k = r.randrange(0, 4)
        vs = sorted(r.sample(range(1, self.n + 2), min(k, self.n + 1)))
        if len(vs) >= 2 and r.random() < self.malformed:
            vs.reverse()
        lits = [v if r.random() < 0.5 else -v for v in vs]
        t = self.val(*f) if f[0] < len(self.tt) else None
        ok = t is not None and all(lits[i] != 0 and abs(lits[i]) < abs(lits[i + 1]) for i in range(len(lits) - 1))
        tt = None
        if ok:
            tt = t
            for l in lits:
                if abs(l) <= self.n:
                    tt = self.c.cof(tt, abs(l), l > 0)
        self.reg(("cofcube %s %d %s" % (self.a(*f), len(lits), " ".join(map(str, lits)))).rstrip(), tt, ok)

    def op_compose(self):
        f = self.pick_nonconst()
        g = self.pick()
        v = self.some_var()
        vs = [self.val(*x) if x[0] < len(self.tt) else None for x in (f, g)]
        ok = None not in vs
        tt = None
        if ok:
            tt = vs[0] if (v == 0 or v > self.n) else self.c.compose(vs[0], v, vs[1])
        self.reg("compose %s %d %s" % (self.a(*f), v, self.a(*g)), tt, ok)

    def cr_args(self):
        r = self.rng
        f = self.pick_nonconst() if r.random() < 0.85 else self.pick()
        g = self.pick_nonconst() if r.random() < 0.85 else self.pick()
        x = r.random()
        name = "rand"
        if x < 0.06:
            g, name = f, "g=f"
        elif x < 0.12:
            g, name = (f[0], not f[1]), "g=~f"
        elif x < 0.16:
            g, name = (0, False), "g=1"
        elif x < 0.20:
            g, name = (1, False), "g=0"
        elif x < 0.35 and self.last_pair is not None:
            f, g = self.last_pair
            name = "same-args-as-sibling"
        return f, g, name

    def op_cr(self, which):
        f, g, name = self.cr_args()
        self.classes[which + ":" + name] += 1
        self.last_pair = (f, g)
        vs = [self.val(*x) if x[0] < len(self.tt) else None for x in (f, g)]
        ok = None not in vs
        tt = None
        if ok and self.n <= 6:
            tt = self.c.constrain(*vs) if which == "constrain" else self.c.restrict(*vs)
        k = self.reg("%s %s %s" % (which, self.a(*f), self.a(*g)), tt, ok and tt is not None)
        if ok and tt is None:
            self.live.append(k)

    def op_lowhigh(self):
        f = self.pick_nonconst()
        which = self.rng.choice(["low", "high"])
        t = self.val(*f) if f[0] < len(self.tt) else None
        ok = t is not None and t not in (0, self.c.one)
        tt = self.c.cof(t, self.c.top(t), which == "high") if ok else None
        self.reg("%s %s" % (which, self.a(*f)), tt, ok)

    def op_topcof(self):
        f = self.pick()
        t = self.val(*f) if f[0] < len(self.tt) else None
        v = self.some_var()
        which = self.rng.randrange(2)
        ok = t is not None and v >= 1 and (self.c.top(t) == 0 or v <= self.c.top(t))
        tt = (self.c.cof(t, v, bool(which)) if v <= self.n else t) if ok else None
        self.reg("topcof%d %s %d" % (which, self.a(*f), v), tt, ok)

    def op_gc(self):
        r = self.rng
        x = r.random()
        if x < 0.08:
            roots = []
        elif x < 0.16:
            roots = [(k, False) for k in self.live] if len(self.live) < 40 else [self.pick() for _ in range(12)]
        else:
            roots = [self.pick() for _ in range(r.randrange(1, 7))]
            if r.random() < 0.3 and roots:
                roots.append(roots[0])                      # duplicate
            if r.random() < 0.2:
                roots.append((r.choice([0, 1]), False))     # a constant root
        self.classes["gc:roots=%s" % ("0" if not roots else "1-3" if len(roots) <= 3 else "4+")] += 1
        gline = "gc %d %s" % (len(roots), " ".join(self.a(*x) for x in roots))
        self.q(gline)
        if getattr(self, "gc_repeat", 0) and not getattr(self, "_gc_repeated", False) and len(self.lines) > 40:
            # the stratum 'the same collection 2^8 / 2^16 times' (a counter or epoch of a narrow integer type wraps around)
            self._gc_repeated = True
            self.classes["gc:repeated-%d" % self.gc_repeat] += 1
            self.lines += [gline] * (self.gc_repeat - 1)
            self.stats["gc"] += self.gc_repeat - 1
        self._live_cache = (-1, set())
        if any(k >= len(self.tt) for k, _ in roots):
            return                      # skipped by both runners
        known = [self.tt[k] for k, _ in roots]
        if any(k not in self.live for k, _ in roots):
            return                      # names a dead register: skipped
        if None in known:
            # a root of unknown meaning: be conservative, keep only the roots themselves
            keep = set(k for k, _ in roots)
            self.live = [k for k in self.live if k in keep or k in (0, 1)]
            return
        sub = set()
        for t in known:
            sub |= self.c.subfunctions(t)
        sub.add(0)
        self.live = [k for k in self.live if self.tt[k] is not None and self.c.norm(self.tt[k]) in sub]
        self.replay_after_gc()

    def line_regs(self, line):
        """register numbers a replayable line mentions"""
        t = line.split()
        op = t[0]
        if op in ("ite",):
            toks = t[1:4]
        elif op in ("and", "or", "xor", "eq", "imply", "constrain", "restrict"):
            toks = t[1:3]
        elif op == "compose":
            toks = [t[1], t[3]]
        elif op in ("subst", "substm", "cofcube"):
            toks = [t[1]]
        elif op in ("andmany", "ormany"):
            toks = t[2:2 + int(t[1])]
        elif op == "expr":
            toks = [x[1:] for x in t[1:] if x.startswith("t")]
        else:
            toks = []
        return [int(x.lstrip("~")) for x in toks]

    def replay_after_gc(self):
        """the stratum 'the same operation again after a collection' (a stale cache entry or a reused slot shows here)"""
        if not self.recent or self.rng.random() < 0.35:
            return
        live = set(self.live)
        cands = [(l, tt) for (l, tt) in self.recent if all(k in live for k in self.line_regs(l))]
        self.rng.shuffle(cands)
        self._replaying = True
        for (l, tt) in cands[: self.rng.randrange(1, 7)]:
            self.classes["replay-after-gc"] += 1
            self.reg(l, tt, tt is not None)
        self._replaying = False

    def op_query(self, kind):
        if kind == "itec":
            f, g, h = self.pick(), self.pick(), self.pick()
            x = self.rng.random()
            cached = [l for (l, _) in self.recent[-25:] if l.split()[0] in ("ite", "and", "or", "xor", "eq", "imply")]
            if x < 0.45 and cached:
                # the instance an earlier operation has just computed (and cached, possibly as a constant)
                t = self.rng.choice(cached).split()
                neg = lambda a: a[1:] if a.startswith("~") else "~" + a
                one, zero = "0", "1"
                trip = {"ite": lambda: (t[1], t[2], t[3]), "and": lambda: (t[1], t[2], zero), "or": lambda: (t[1], one, t[2]),
                        "xor": lambda: (t[1], neg(t[2]), t[2]), "eq": lambda: (t[1], t[2], neg(t[2])), "imply": lambda: (t[1], t[2], one)}[t[0]]()
                self.classes["itec:just-computed-instance"] += 1
                self.q("itec %s %s %s" % trip)
                if t[0] == "imply":
                    self.q("implies %s %s" % (t[1], t[2]))
                return
            if x < 0.6:
                h = (0, False)           # implication shape
            elif x < 0.7:
                h = (1, False)           # conjunction shape
            elif x < 0.8:
                g, h = (1, False), f     # ite(F,0,F)
            elif x < 0.9:
                h = (f[0], not f[1])
            self.q("itec %s %s %s" % (self.a(*f), self.a(*g), self.a(*h)))
        elif kind == "implies":
            f, g = self.pick(), self.pick()
            cached = [l for (l, _) in self.recent[-25:] if l.split()[0] in ("and", "or", "imply")]
            if self.rng.random() < 0.4 and cached:
                t = self.rng.choice(cached).split()
                # f&g => f ; f => f|g ; the cached implication itself
                k = len(self.tt) - 1
                self.classes["implies:related-to-cached"] += 1
                self.q("implies %s %s" % (t[1], t[2]))
                self.q("implies %s %s" % (t[2], t[1]))
                return
            self.q("implies %s %s" % (self.a(*f), self.a(*g)))
        elif kind == "size":
            f = self.pick()
            self.q("size %s" % self.a(*f))
            if self.rng.random() < 0.5:
                self.q("size %s" % self.a(f[0], not f[1]))
        elif kind == "desc":
            roots = [self.pick() for _ in range(self.rng.randrange(0, 4))]
            self.q("desc %d %s" % (len(roots), " ".join(self.a(*x) for x in roots)))
        elif kind == "satcount":
            f = self.pick()
            n = self.rng.choice([self.n, self.n, self.n + 1, self.n + 3, 63, 64, 65, 70, 127, 128, 129, 200, 1000, max(0, self.n - 1)])
            self.q("satcount %s %d" % (self.a(*f), n))
        elif kind == "onesat":
            self.q("onesat %s" % self.a(*self.pick()))
        elif kind == "paths":
            self.q("paths %s" % self.a(*self.pick()))
        elif kind == "bracket":
            self.q("bracket %s" % self.a(*self.pick()))
        elif kind == "dot":
            roots = [self.pick() for _ in range(self.rng.randrange(0, 4))]
            if roots and self.rng.random() < 0.3:
                roots.append(roots[0])
            self.q("dot %d %s" % (len(roots), " ".join(self.a(*x) for x in roots)))
        elif kind == "dump":
            self.q("dump")

    def step(self):
        kinds = list(self.weights.keys())
        kind = self.rng.choices(kinds, [self.weights[k] for k in kinds])[0]
        if kind == "ite":
            self.op_ite()
        elif kind == "bin":
            self.op_bin()
        elif kind == "not":
            self.op_not()
        elif kind == "many":
            self.op_many()
        elif kind == "cubeclause":
            self.op_cubeclause()
        elif kind == "expr":
            self.op_expr()
        elif kind == "node":
            self.op_node()
        elif kind == "var":
            self.op_var()
        elif kind == "const":
            self.op_const()
        elif kind == "subst":
            self.op_subst()
        elif kind == "substm":
            self.op_substm()
        elif kind == "cofcube":
            self.op_cofcube()
        elif kind == "compose":
            self.op_compose()
        elif kind in ("constrain", "restrict"):
            self.op_cr(kind)
            if self.rng.random() < 0.4:      # the sibling operation on the same arguments (shared cache, equal hashes)
                f, g = self.last_pair
                other = "restrict" if kind == "constrain" else "constrain"
                self.classes[other + ":same-args-as-sibling"] += 1
                vs = [self.val(*x) if x[0] < len(self.tt) else None for x in (f, g)]
                ok = None not in vs
                tt = (self.c.constrain(*vs) if other == "constrain" else self.c.restrict(*vs)) if (ok and self.n <= 6) else None
                k = self.reg("%s %s %s" % (other, self.a(*f), self.a(*g)), tt, ok and tt is not None)
                if ok and tt is None:
                    self.live.append(k)
        elif kind == "lowhigh":
            self.op_lowhigh()
        elif kind == "topcof":
            self.op_topcof()
        elif kind == "gc":
            self.op_gc()
        elif kind == "randfun":
            self.op_randfun()
        else:
            self.op_query(kind)

    def run(self, nops):
        for _ in range(nops):
            self.step()
        return self.lines


def weights_for(focus, base=None):
    """a weight table emphasising the operation kinds in `focus` (dict kind -> multiplier)"""
    w = dict(DEFAULT_WEIGHTS if base is None else base)
    for k, m in focus.items():
        w[k] = w.get(k, 1) * m
    return w


def random_cfg(rng, tiny=True):
    if tiny:
        sb = rng.choice([3, 4, 5, 6, 6, 7, 8, 9])
        return "%d %d %d" % (sb, rng.choice([0, 0, 1, 2, 3]), rng.choice([0, 0, 1, 2, 3]))
    sb = rng.choice([10, 12, 14, 16])
    if rng.random() < 0.5:
        return "default %d" % sb
    return "%d %d %d" % (sb, rng.choice([4, 8, 10]), rng.choice([2, 6, 10]))
