"""Build + run + compare machinery shared by all checks."""

import hashlib
import json
import os
import re
import shutil
import subprocess
import sys
import time
from concurrent.futures import ThreadPoolExecutor

ROOT = os.path.dirname(os.path.dirname(os.path.abspath(__file__)))
COQ = os.path.join(ROOT, "coq")
IMPL = os.path.join(ROOT, "harness", "impl")
MODEL = os.path.join(ROOT, "harness", "model")
WORK = os.path.join(ROOT, "work")
REPO = "/repo"
JOBS = 16

ENV = dict(os.environ, CARGO_NET_OFFLINE="true", CARGO_TARGET_DIR=os.path.join(IMPL, "target"))


def sh(cmd, cwd=None, timeout=3600, env=None):
    p = subprocess.run(cmd, cwd=cwd, shell=isinstance(cmd, str), stdout=subprocess.PIPE, stderr=subprocess.STDOUT,
                       timeout=timeout, env=env or ENV, text=True, errors="replace")
    return p.returncode, p.stdout


# ------------------------------------------------------------------------------------------------ builds
def build_impl(profiles=("release",)):
    """(re)build the runner against /repo's current working tree, hooks enabled. Returns (ok, log)."""
    lock = os.path.join(IMPL, "Cargo.lock")
    src_lock = os.path.join(REPO, "Cargo.lock")
    if os.path.exists(src_lock):
        shutil.copyfile(src_lock, lock)
    logs = []
    for prof in profiles:
        cmd = ["cargo", "build", "--offline"] + (["--release"] if prof == "release" else [])
        rc, out = sh(cmd, cwd=IMPL, timeout=1800)
        logs.append(out)
        if rc != 0:
            return False, "\n".join(logs)
    return True, "\n".join(logs)


def runner_path(profile="release"):
    return os.path.join(IMPL, "target", "release" if profile == "release" else "debug", "runner")


def build_coq(targets=None):
    """incremental full .vo build of the Coq development (never -vos). Returns (ok, log)."""
    if not os.path.exists(os.path.join(COQ, "Makefile")):
        rc, out = sh("coq_makefile -f _CoqProject -o Makefile", cwd=COQ)
        if rc != 0:
            return False, out
    cmd = ["make", "-j%d" % JOBS] + (targets or [])
    rc, out = sh(["timeout", "3000"] + cmd, cwd=COQ, timeout=3100)
    return rc == 0, out


def build_model():
    """extract the model (coq/Extract/ExtractRun.v -> model.ml) and compile the OCaml driver when stale."""
    ok, out = build_coq(["Extract/ExtractRun.vo"])
    if not ok:
        return False, out
    src_ml = os.path.join(COQ, "model.ml")
    src_mli = os.path.join(COQ, "model.mli")
    if not os.path.exists(src_ml):
        # the .vo was fresh but the extraction output is missing (fresh checkout): force re-extraction
        for ext in (".vo", ".vok", ".vos", ".glob"):
            try:
                os.remove(os.path.join(COQ, "Extract", "ExtractRun" + ext))
            except FileNotFoundError:
                pass
        ok, out = build_coq(["Extract/ExtractRun.vo"])
        if not ok or not os.path.exists(src_ml):
            return False, out
    drv = os.path.join(MODEL, "driver")
    stamp = os.path.join(MODEL, ".stamp")
    h = hashlib.sha256()
    for f in (src_ml, src_mli, os.path.join(MODEL, "driver.ml")):
        h.update(open(f, "rb").read())
    digest = h.hexdigest()
    if os.path.exists(drv) and os.path.exists(stamp) and open(stamp).read() == digest:
        return True, "model driver up to date"
    shutil.copyfile(src_ml, os.path.join(MODEL, "model.ml"))
    shutil.copyfile(src_mli, os.path.join(MODEL, "model.mli"))
    rc, out2 = sh("ocamlfind ocamlopt -O3 -w -a -o driver model.mli model.ml driver.ml", cwd=MODEL, timeout=900)
    if rc != 0:
        return False, out2
    open(stamp, "w").write(digest)
    return True, out2


# ------------------------------------------------------------------------------------------------ running
CONFIRMED_TIMEOUTS = [0]


def run_impl(hist_path, oracle=True, profile="release", timeout=30, retry=False):
    """run the crate on a history in a child process. Returns dict(lines, oracle, status).
    retry=True: a timeout is confirmed by a second run with ten times the limit (at least 40 s) before it counts, so that a
    loaded machine (many checks running side by side) cannot turn a slow run into a difference from the model."""
    cmd = [runner_path(profile)] + (["--oracle"] if oracle else []) + [hist_path]
    try:
        p = subprocess.run(cmd, stdout=subprocess.PIPE, stderr=subprocess.DEVNULL, timeout=timeout, text=True, errors="replace")
        status = "ok" if p.returncode == 0 else "crash(rc=%d)" % p.returncode
        out = p.stdout
    except subprocess.TimeoutExpired as e:
        if retry and CONFIRMED_TIMEOUTS[0] < 3:
            # (after three confirmed hangs the crate is taken to hang for real and later timeouts are not re-run)
            r = run_impl(hist_path, oracle=oracle, profile=profile, timeout=max(40, timeout * 10), retry=False)
            if r["status"] == "timeout":
                CONFIRMED_TIMEOUTS[0] += 1
            return r
        status = "timeout"
        out = e.stdout.decode("utf-8", "replace") if isinstance(e.stdout, bytes) else (e.stdout or "")
    lines, oracle_lines, info = [], [], []
    for l in out.splitlines():
        if l.startswith("ORACLE "):
            oracle_lines.append(l)
        elif l.startswith("INFO "):
            info.append(l)
        else:
            lines.append(l)
    if status != "ok":
        lines.append(status + "@%d" % len(lines))
    return {"lines": lines, "oracle": oracle_lines, "status": status, "info": info}


def run_model(hist_path, timeout=120, retry=False):
    cmd = [os.path.join(MODEL, "driver"), hist_path]
    if retry:
        r = run_model(hist_path, timeout=timeout)
        return r if r["status"] != "model-timeout" else run_model(hist_path, timeout=max(120, timeout * 10))
    try:
        p = subprocess.run(cmd, stdout=subprocess.PIPE, stderr=subprocess.PIPE, timeout=timeout, text=True, errors="replace")
        status = "ok" if p.returncode == 0 else "model-crash(rc=%d): %s" % (p.returncode, p.stderr[-300:])
        out = p.stdout
    except subprocess.TimeoutExpired as e:
        status = "model-timeout"
        out = e.stdout.decode("utf-8", "replace") if isinstance(e.stdout, bytes) else (e.stdout or "")
    lines = out.splitlines()
    if status != "ok":
        lines.append(status)
    return {"lines": lines, "status": status}


def pmap(fn, items, jobs=JOBS):
    with ThreadPoolExecutor(max_workers=jobs) as ex:
        return list(ex.map(fn, items))


def pmap_until(fn, items, is_failure, enough=8, chunk=48, jobs=JOBS):
    """like pmap, but in chunks, stopping once `enough` failing results have been seen: a badly broken crate (every history
    crashes or hangs until its timeout) must not make the check run for an hour.  Returns (results, items actually run)."""
    results = []
    done = 0
    items = list(items)
    with ThreadPoolExecutor(max_workers=jobs) as ex:
        while done < len(items):
            part = items[done:done + chunk]
            results += list(ex.map(fn, part))
            done += len(part)
            if sum(1 for r in results if is_failure(r)) >= enough:
                break
    return results, items[:done]


# ------------------------------------------------------------------------------------------------ comparing
HANDLE_RE = re.compile(r"(~?)@(\d+)")
QUERY_OPS = {"itec", "implies", "size", "desc", "satcount", "onesat", "paths", "bracket", "dot", "gc", "dump"}


class Namer:
    """canonical names for node indices: ordinal of first appearance (index 1 = the terminal keeps its name)"""

    def __init__(self):
        self.m = {1: 1}

    def name(self, idx):
        if idx not in self.m:
            self.m[idx] = len(self.m) + 1
        return self.m[idx]

    def known(self, idx):
        return idx in self.m


def canon_line(line, op, namer, alloc):
    """the observation carried by a trace line, with node indices replaced by canonical names.
    alloc=False drops the allocation counters (real_size, last_index)."""
    t = line.split(" ")
    if t[0] == "r" and len(t) == 5:
        core = "r %d %s" % (namer.name(int(t[1])), t[2])
        return core + (" %s %s" % (t[3], t[4]) if alloc else "")
    if t[0] == "gc" and len(t) >= 4:
        return "gc %s %s" % (t[3], t[4] if len(t) > 4 else "") + (" %s %s" % (t[1], t[2]) if alloc else "")
    if t[0] == "q":
        if op == "bracket":
            return "q " + HANDLE_RE.sub(lambda m: "%s@%d" % (m.group(1), namer.name(int(m.group(2)))), line[2:])
        if op == "desc":
            ids = [int(x) for x in t[1:] if x]
            known = sorted(namer.name(i) for i in ids if namer.known(i))
            return "q desc n=%d known=%s" % (len(ids), known)
        if op == "dot":
            return "q dot lines=%d" % (line.count(" ; ") + 1)
        return line
    if t[0] == "dump":
        # real_size and last_index are determined by which nodes exist; min_free and the cell numbers depend on the order
        # in which equal sets of nodes were allocated, which is not part of any property
        return "dump" if not alloc else " ".join(t[:3])
    return line


def compare_traces(hist_lines, a_lines, b_lines, alloc=False):
    """returns (exact_equal, canon_equal, first_diff) where first_diff = (trace line no, history line, a, b) or None"""
    ops = [l.split()[0] for l in hist_lines if l.strip() and not l.startswith("#") and l.split()[0] not in ("cfg", "nvars")]
    exact = a_lines == b_lines
    if exact:
        return True, True, None
    na, nb = Namer(), Namer()
    ra, rb = [], []            # node index held by each register (None = skipped / dead), per side
    n = max(len(a_lines), len(b_lines))
    for i in range(n):
        la = a_lines[i] if i < len(a_lines) else "<missing>"
        lb = b_lines[i] if i < len(b_lines) else "<missing>"
        op = ops[i] if i < len(ops) else "end"
        ca = canon_line(la, op, na, alloc)
        cb = canon_line(lb, op, nb, alloc)
        if ca != cb:
            return False, False, (i, op, la, lb)
        if op not in QUERY_OPS:
            for (l, regs) in ((la, ra), (lb, rb)):
                t = l.split(" ")
                regs.append(int(t[1]) if t[0] == "r" and len(t) == 5 else None)
        elif op == "gc" and la.startswith("gc "):
            # a collection frees node indices and later allocations reuse them: the names of dead nodes must not stick to the
            # reused indices.  Forget every name and re-name the nodes of the surviving registers in register order.
            for (l, regs, side) in ((la, ra, "a"), (lb, rb, "b")):
                t = l.split(" ")
                dead = [int(x) for x in t[4][2:].split(",") if x] if len(t) > 4 else []
                for k in dead:
                    if k < len(regs):
                        regs[k] = None
            na, nb = Namer(), Namer()
            for k in range(max(len(ra), len(rb))):
                if k < len(ra) and ra[k] is not None:
                    na.name(ra[k])
                if k < len(rb) and rb[k] is not None:
                    nb.name(rb[k])
    return False, True, None


def first_exact_diff(a_lines, b_lines):
    n = max(len(a_lines), len(b_lines))
    for i in range(n):
        la = a_lines[i] if i < len(a_lines) else "<missing>"
        lb = b_lines[i] if i < len(b_lines) else "<missing>"
        if la != lb:
            return (i, la, lb)
    return None


# ------------------------------------------------------------------------------------------------ shrinking
def shrink(hist_lines, still_fails, budget=300, max_seconds=45):
    """delta-debugging over history lines. Registers are positional, so a removed handle-producing line is replaced by
    a line that is skipped by both runners (keeps later register numbers valid)."""
    header = [l for l in hist_lines if l.split()[0] in ("cfg", "nvars")]
    body = [l for l in hist_lines if l.split()[0] not in ("cfg", "nvars")]
    QUERY = {"itec", "implies", "size", "desc", "satcount", "onesat", "paths", "bracket", "dot", "gc", "dump"}

    def neutral(line):
        op = line.split()[0]
        return None if op in QUERY else "var 0"      # `var 0` is skipped by both runners and still owns a register

    calls = [0]
    t_end = time.time() + max_seconds

    def test(b):
        calls[0] += 1
        if time.time() > t_end:
            calls[0] = budget + 1000         # out of time: stop shrinking, keep what we have
            return False
        return still_fails(header + [x for x in b if x is not None])

    # 1. truncate after the failure
    lo, hi = 0, len(body)
    while lo < hi and calls[0] < budget:
        mid = (lo + hi) // 2
        if test(body[:mid]):
            hi = mid
        else:
            lo = mid + 1
    body = body[:hi]
    # 2. neutralise chunks
    chunk = max(1, len(body) // 2)
    while chunk >= 1 and calls[0] < budget:
        i = 0
        changed = False
        while i < len(body) and calls[0] < budget:
            cand = list(body)
            for j in range(i, min(i + chunk, len(body))):
                if cand[j] is not None and cand[j] != "var 0":
                    cand[j] = neutral(cand[j])
            if cand != body and test(cand):
                body = cand
                changed = True
            i += chunk
        if chunk == 1 and not changed:
            break
        chunk = chunk // 2 if chunk > 1 else (1 if changed else 0)
    # drop trailing neutral lines
    res = [x for x in body if x is not None]
    while res and res[-1] == "var 0" and calls[0] < budget + 20:
        if test(res[:-1]):
            res = res[:-1]
        else:
            break
    return header + res


def write_hist(path, lines):
    os.makedirs(os.path.dirname(path), exist_ok=True)
    with open(path, "w") as f:
        f.write("\n".join(lines) + "\n")
    return path
