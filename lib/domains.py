"""Running a property's histories on the crate and on the model, deciding what is a violation."""

import glob
import json
import os
import random
import re
import time
from collections import Counter

import harness as H
import props as R

CORPUS = os.path.join(H.ROOT, "corpus")

BDD_PROPS = ["C%02d" % i for i in range(1, 17)]

SPECS = {}
for _p in BDD_PROPS:
    SPECS[_p] = {"domain": "bdd", "profiles": ("release",)}
SPECS["C17"] = {"domain": "table", "profiles": ("release",), "also_bdd": True}
SPECS["C18"] = {"domain": "cache", "profiles": ("release",)}
SPECS["C19"] = {"domain": "raw", "profiles": ("release", "debug")}
SPECS["C20"] = {"domain": "eda", "profiles": ("release", "debug")}


def corpus_histories(pid):
    """committed minimised failures and defect witnesses: they run first"""
    out = []
    for path in sorted(glob.glob(os.path.join(CORPUS, "bdd", "*.hist"))):
        lines = [l.rstrip("\n") for l in open(path) if l.strip()]
        props = [l for l in lines if l.startswith("# props:")]
        if props and pid not in props[0]:
            continue
        out.append(("corpus-" + os.path.basename(path)[:-5], [l for l in lines], {"kind": "corpus"}))
    return out


def oracle_tags(line):
    # "ORACLE C02 line=17 ..." -> "C02"
    t = line.split(" ", 2)
    return t[1] if len(t) > 1 else ""


def run_bdd_history(item, pid, wdir, with_model=True, profile="release"):
    name, lines, meta = item
    hp = H.write_hist(os.path.join(wdir, name + ".hist"), lines)
    impl = H.run_impl(hp, oracle=True, profile=profile, timeout=meta.get("timeout", 8), retry=True)
    res = {"name": name, "path": hp, "meta": meta, "impl_status": impl["status"], "nlines": len(impl["lines"])}
    res["oracle"] = [l for l in impl["oracle"] if oracle_tags(l) in R.TAGS[pid]]
    res["oracle_other"] = len(impl["oracle"]) - len(res["oracle"])
    res["info"] = impl["info"]
    res["panic_full"] = any(l == "panic full" for l in impl["lines"])
    if with_model:
        model = H.run_model(hp, timeout=meta.get("timeout", 600), retry=True)
        exact, canon, diff = H.compare_traces(lines, impl["lines"], model["lines"], alloc=(pid in R.ALLOC))
        res.update({"exact": exact, "canon": canon, "diff": diff, "model_status": model["status"]})
    else:
        res.update({"exact": None, "canon": None, "diff": None})
    if pid == "C07" and name.startswith("gen-"):
        # C07's own oracle: the same history with another operation-cache / size-cache size must give the same handles
        # (up to numbering of intermediate nodes) and the same query answers, on the crate itself
        v = cache_variant(lines)
        if v is not None:
            vp = H.write_hist(os.path.join(wdir, name + ".var.hist"), v)
            impl2 = H.run_impl(vp, oracle=False, profile=profile, timeout=meta.get("timeout", 8), retry=True)
            a, b = impl["lines"], impl2["lines"]
            if any(l.startswith("panic") for l in a + b):
                n = min(len(a), len(b)) - 1          # storage may fill earlier with a smaller cache: compare the common prefix
                a, b = a[:n], b[:n]
            _, canon2, d2 = H.compare_traces(lines, a, b, alloc=False)
            res["variants"] = 1
            if not canon2:
                res["oracle"].append("ORACLE C07 line=%d results depend on the cache size: `%s` with `%s`, `%s` with `%s` (history line kind %s)"
                                     % (d2[0] + 1, d2[2][:80], lines[0], d2[3][:80], v[0], d2[1]))
            os.remove(vp)
    # keep the disk small: passing histories are deleted
    if not res["oracle"] and res.get("canon") is not False and (with_model or impl["status"] == "ok"):
        try:
            os.remove(hp)
        except OSError:
            pass
        res["path"] = None
    return res


def cache_variant(lines):
    """the same history under a different cache size (None for `cfg default`)"""
    t = lines[0].split()
    if t[0] != "cfg" or t[1] == "default":
        return None
    cb = int(t[3])
    nb = {0: 3, 1: 0, 2: 0, 3: 1}.get(cb, 0)
    return ["cfg %s %s %d" % (t[1], t[2], nb)] + list(lines[1:])


def shrink_bdd(lines, pid, kind, wdir, tag, budget=150):
    """minimise a failing history; kind = 'oracle' (an ORACLE line of this property appears) or 'diff'"""
    counter = [0]

    def fails(cand):
        counter[0] += 1
        hp = H.write_hist(os.path.join(wdir, "shrink-%s-%d.hist" % (tag, counter[0] % 4)), cand)
        impl = H.run_impl(hp, oracle=True, timeout=2)
        if kind == "oracle":
            if any(oracle_tags(l) in R.TAGS[pid] for l in impl["oracle"]):
                return True
            if pid == "C07":
                v = cache_variant(cand)
                if v is not None:
                    vp = H.write_hist(os.path.join(wdir, "shrink-%s-v.hist" % tag), v)
                    impl2 = H.run_impl(vp, oracle=False, timeout=4)
                    a, b = impl["lines"], impl2["lines"]
                    if any(l.startswith("panic") for l in a + b):
                        n = min(len(a), len(b)) - 1
                        a, b = a[:n], b[:n]
                    return not H.compare_traces(cand, a, b, alloc=False)[1]
            return False
        model = H.run_model(hp, timeout=30)
        _, canon, _ = H.compare_traces(cand, impl["lines"], model["lines"], alloc=(pid in R.ALLOC))
        return not canon

    try:
        small = H.shrink(lines, fails, budget=budget, max_seconds=45 if budget > 50 else 12)
        if fails(small):
            return small
    except Exception:
        pass
    return lines


def run_property(pid, tier, seed, spec):
    if spec["domain"] != "bdd":
        import standalone
        cov = standalone.run_property(pid, tier, seed, spec)
        if spec.get("also_bdd"):
            # the same property on the manager's own node store (the crate's hash functions, collections through the
            # real collect_garbage): state dumps compared with the model, chain invariants checked on the crate
            cov2 = run_property(pid, tier, seed, {"domain": "bdd", "profiles": ("release",)})
            cov["failures"] += cov2["failures"]
            cov["diffs"] += cov2["diffs"]
            cov["bdd_level"] = {k: cov2[k] for k in ("histories", "evaluations", "exact_agreement", "canonical_agreement", "numbering_diverged", "oracle_evaluations", "ops_by_kind", "configs") if k in cov2}
            cov["evaluations"] += cov2["evaluations"]
            cov["histories"] += cov2["histories"]
            cov["traces_validated_against_impl"] += cov2["traces_validated_against_impl"]
        return cov
    wdir = os.path.join(H.WORK, pid)
    os.makedirs(wdir, exist_ok=True)
    os.makedirs(os.path.join(H.WORK, "replays"), exist_ok=True)
    items = corpus_histories(pid)
    items += list(R.structured(pid, tier, seed))
    items += list(R.bdd_histories(pid, tier, seed))
    t0 = time.time()
    results, items = H.pmap_until(lambda it: run_bdd_history(it, pid, wdir), items, lambda r: bool(r["oracle"]) or r["impl_status"] != "ok")
    cov = summarise(pid, items, results)
    failures, diffs = [], []
    fail_res = [r for r in results if r["oracle"]]
    diff_res = [r for r in results if r["canon"] is False and not r["oracle"]]
    # a correspondence difference with no oracle failure: widen the oracle search on the implementation alone
    if diff_res and not fail_res:
        extra = list(R.bdd_histories(pid, "thorough", seed + 7919))[:1500]
        extra += list(R.structured(pid, "quick", seed + 13))
        extra = [("wide-" + n, ls, m) for (n, ls, m) in extra]
        more, _ = H.pmap_until(lambda it: run_bdd_history(it, pid, wdir, with_model=False), extra, lambda r: bool(r["oracle"]), enough=3)
        fail_res = [r for r in more if r["oracle"]]
        cov["widened_search_histories"] = len(extra)
    for k, r in enumerate(sorted(fail_res, key=lambda r: r["nlines"])[:3]):
        lines = [l.rstrip("\n") for l in open(r["path"])]
        small = shrink_bdd(lines, pid, "oracle", wdir, "o%d" % k, budget=150 if k == 0 else 25)
        rp = H.write_hist(os.path.join(H.WORK, "replays", "%s-%d.hist" % (pid, k)), small)
        impl = H.run_impl(rp, oracle=True, timeout=60)
        msgs = [l for l in impl["oracle"] if oracle_tags(l) in R.TAGS[pid]] or r["oracle"]
        failures.append({"replay": rp, "what": msgs[0], "history": r["name"], "lines": len(small)})
    for k, r in enumerate(sorted(diff_res, key=lambda r: r["nlines"])[:3]):
        lines = [l.rstrip("\n") for l in open(r["path"])]
        small = shrink_bdd(lines, pid, "diff", wdir, "d%d" % k, budget=100 if k == 0 else 20)
        rp = H.write_hist(os.path.join(H.WORK, "replays", "%s-diff-%d.hist" % (pid, k)), small)
        d = r["diff"]
        diffs.append({"replay": rp, "history": r["name"],
                      "what": "crate and model disagree on history %s at trace line %d (%s): crate `%s` / model `%s`" % (r["name"], d[0], d[1], d[2][:120], d[3][:120])})
    # the manager's node store and operation cache compare nodes / keys by value: crafted full-hash collisions (unreachable by
    # random histories: they need handle numbers in the millions) are run on Table<Node> and Cache<OpKey, Ref> directly
    extra_kind = {"C01": "ntable", "C02": "kcache", "C07": "kcache"}.get(pid)
    if extra_kind:
        import standalone
        citems = standalone.collision_histories(extra_kind, seed)
        cres = H.pmap(lambda it: standalone.run_one(it, pid, wdir, ("release",)), citems)
        cov["crafted_collision_histories"] = len(citems)
        for k, r in enumerate([r for r in cres if r["oracle"]][:2]):
            rp = H.write_hist(os.path.join(H.WORK, "replays", "%s-collision-%d.hist" % (pid, k)), [l.rstrip("\n") for l in open(r["path"])])
            failures.append({"replay": rp, "what": r["oracle"][0], "history": r["name"], "lines": r["nlines"]})
        for k, r in enumerate([r for r in cres if not r["agree"] and not r["oracle"]][:2]):
            rp = H.write_hist(os.path.join(H.WORK, "replays", "%s-collision-diff-%d.hist" % (pid, k)), [l.rstrip("\n") for l in open(r["path"])])
            diffs.append({"replay": rp, "history": r["name"], "what": "crate and model disagree on crafted-collision history %s: %r" % (r["name"], r["diff"])})
    # histories at a scale the extracted model cannot follow (tens of thousands of nodes): the crate alone, all oracles on,
    # release and debug builds (overflow checks); an oracle failure of this property or a crash is a concrete failing input
    sitems = list(R.scale_histories(pid, tier, seed))
    # (largest first, both builds side by side)
    spairs = sorted([(it, prof) for it in sitems for prof in ("release", "debug")], key=lambda x: -len(x[0][1]))
    spairs = [((it[0] + "-" + prof, it[1], it[2]), prof) for (it, prof) in spairs]
    sres, _ = H.pmap_until(lambda x: dict(run_bdd_history(x[0], pid, wdir, with_model=False, profile=x[1]), profile=x[1]), spairs,
                           lambda r: bool(r["oracle"]) or r["impl_status"] != "ok", enough=2)
    cov["scale_histories"] = {"histories": len(sitems), "profiles": ["release", "debug"],
                              "lines": sum(len(ls) for (_, ls, _) in sitems), "failing": sum(1 for r in sres if r["oracle"] or r["impl_status"] != "ok")}
    for k, r in enumerate([r for r in sres if r["oracle"] or r["impl_status"] != "ok"][:2]):
        rp = H.write_hist(os.path.join(H.WORK, "replays", "%s-scale-%d.hist" % (pid, k)), [l.rstrip("\n") for l in open(r["path"])])
        what = (r["oracle"][0] if r["oracle"] else "ORACLE %s the crate ended with %s on a large history" % (pid, r["impl_status"])) + " [%s build]" % r["profile"]
        failures.append({"replay": rp, "what": what, "history": r["name"], "lines": r["nlines"]})
    cov["failures"] = failures
    cov["diffs"] = diffs
    cov["coq_cross_checked"] = coq_cross_check(pid, items, wdir, 12 if tier == "quick" else 60)
    if cov["coq_cross_checked"].get("mismatch"):
        diffs.append({"replay": cov["coq_cross_checked"]["mismatch"], "history": "coq-cross-check",
                      "what": "extracted OCaml model and in-kernel vm_compute evaluation disagree"})
    cov["run_s"] = round(time.time() - t0, 1)
    # clean scratch
    for f in glob.glob(os.path.join(wdir, "shrink-*.hist")):
        os.remove(f)
    return cov


def summarise(pid, items, results):
    ops = Counter()
    classes = Counter()
    cfgs = Counter()
    for (_, lines, meta) in items:
        for l in lines:
            t = l.split()
            if t and t[0] not in ("cfg", "nvars") and not t[0].startswith("#"):
                ops[t[0]] += 1
            elif t and t[0] == "cfg":
                cfgs[" ".join(t[1:])] += 1
        for k, v in meta.get("classes", {}).items():
            classes[k] += v
    cases = set()
    oracle_evals = 0
    trivial = 0
    for r in results:
        for l in r["info"]:
            if l.startswith("INFO cases"):
                if len(cases) < 3_000_000:
                    cases.update(l.split()[2:])
            elif l.startswith("INFO oracle_evals="):
                m = re.match(r"INFO oracle_evals=(\d+) trivial_cases=(\d+)", l)
                if m:
                    oracle_evals += int(m.group(1))
                    trivial += int(m.group(2))
    sample_items = [it for it in items if it[0].startswith("gen-")][:2] or items[:1]
    samples = [{"history": n, "meta": {k: v for k, v in m.items() if k in ("seed", "nvars", "cfg", "kind")}, "first_lines": ls[:40]} for (n, ls, m) in sample_items]
    exact = sum(1 for r in results if r["exact"])
    canon = sum(1 for r in results if r["canon"])
    return {
        "histories": len(items),
        "evaluations": sum(ops.values()),
        "distinct_nontrivial": len(cases),
        "rule": "one evaluation = one history line executed on the crate and on the extracted model; a case is the tuple (operation, "
                "truth tables of its handle arguments, literal arguments), hashed by the runner (at most 4000 per history kept); non-trivial = at least one "
                "handle argument is a non-constant function (or a constructor with at least one literal); trivial cases seen: %d" % trivial,
        "samples": samples,
        "traces_validated_against_impl": canon,
        "exact_agreement": exact,
        "canonical_agreement": canon,
        "numbering_diverged": sum(1 for r in results if r["canon"] and not r["exact"]),
        "ops_by_kind": dict(ops),
        "classes": dict(classes),
        "configs": dict(cfgs.most_common(40)),
        "oracle_evaluations": oracle_evals,
        "panics_full": sum(1 for r in results if r["panic_full"]),
        "impl_abnormal": Counter(r["impl_status"] for r in results if r["impl_status"] != "ok"),
        "suites": dict(Counter(n.split("-")[0] for (n, _, _) in items)),
        "profiles": ["release"],
    }


# ------------------------------------------------------------------------------------------------ in-kernel re-evaluation
def coq_cross_check(pid, items, wdir, k):
    """re-evaluate a few short histories inside Coq (vm_compute) and compare with the extracted model's trace"""
    import coqeval
    try:
        return coqeval.cross_check(items, wdir, k)
    except Exception as e:           # never let the auxiliary check mask the main result
        return {"checked": 0, "error": repr(e)[:300]}


def thorough_proof(pid, pr):
    """thorough tier: re-check the property's compiled theorems with the independent checker coqchk"""
    if not pr.get("ok"):
        return pr
    rc, out = H.sh(["timeout", "1500", "coqchk", "-silent", "-o", "-R", ".", "BddV", "BddV.Properties." + pid], cwd=H.COQ, timeout=1600)
    pr["coqchk"] = out[-1500:]
    clean = all(("* %s: <none>" % k) in out for k in ("Axioms", "Constants/Inductives relying on type-in-type",
                "Constants/Inductives relying on unsafe (co)fixpoints", "Inductives whose positivity is assumed"))
    if rc != 0 or not clean:
        pr["ok"] = False
        pr["problems"].append("coqchk failed or reported axioms / unsafe constructs")
        pr["discharged"] = 0
    pr["checker_cmd"] += " ; coqchk -silent -o -R coq BddV BddV.Properties.%s" % pid
    return pr


def replay(pid, path):
    spec = SPECS[pid]
    if spec["domain"] != "bdd":
        import standalone
        return standalone.replay(pid, path)
    lines = [l.rstrip("\n") for l in open(path) if l.strip()]
    if not any(l.startswith("cfg") for l in lines):
        print("replay file is a report, not a history:")
        print("\n".join(lines))
        return 1
    if len(lines) > 20000 and sum(1 for l in lines if l.startswith("var ")) > 4000:
        # a scale history (tens of thousands of nodes): crate only, release and debug builds (the model needs minutes for these)
        bad = []
        for prof in ("release", "debug"):
            impl = H.run_impl(path, oracle=True, profile=prof, timeout=300)
            for l in impl["oracle"]:
                print(l[:400] + " [%s build]" % prof)
            bad += [l for l in impl["oracle"] if oracle_tags(l) in R.TAGS[pid]]
            if impl["status"] != "ok":
                bad.append("crate ended with %s [%s build]" % (impl["status"], prof))
                print(bad[-1])
        if bad:
            print("VIOLATION property=%s replay=%s" % (pid, path))
            return 1
        print("scale history: no oracle failure of %s in either build" % pid)
        return 0
    impl = H.run_impl(path, oracle=True, timeout=120)
    model = H.run_model(path, timeout=600)
    exact, canon, diff = H.compare_traces(lines, impl["lines"], model["lines"], alloc=(pid in R.ALLOC))
    bad = [l for l in impl["oracle"] if oracle_tags(l) in R.TAGS[pid]]
    for l in impl["oracle"]:
        print(l[:600])
    print("crate vs model: exact=%s canonical=%s %s" % (exact, canon, "" if canon else "first difference: %r" % (diff,)))
    if bad:
        print("VIOLATION property=%s replay=%s" % (pid, path))
        return 1
    if not canon:
        print("VIOLATION property=%s replay=%s no-failing-input-found" % (pid, path))
        return 1
    return 0
