"""Source fingerprints: which modelled source files differ from the state of /repo the model was last validated against.
A difference is not an alarm; it makes the check spend a larger budget on the histories of the properties anchored in those
files (the model was written against the fingerprinted text, so that is where a divergence would come from)."""

import hashlib
import json
import os
import re

ROOT = os.path.dirname(os.path.dirname(os.path.abspath(__file__)))
BASE = os.path.join(ROOT, "baseline_fingerprint.json")
FILES = ["src/bdd.rs", "src/table.rs", "src/cache.rs", "src/raw.rs", "src/sat.rs", "src/paths.rs", "src/dot.rs", "src/eval.rs",
         "src/node.rs", "src/reference.rs", "src/utils.rs", "src/storage.rs", "examples/eda/src/ast.rs", "examples/eda/src/signal.rs"]


def normalise(text):
    # drop the test modules, line comments, logging calls and all whitespace: pure re-formatting does not count as a change
    text = text.split("#[cfg(test)]")[0]
    text = re.sub(r"//[^\n]*", "", text)
    text = re.sub(r"(?:log::)?(?:debug|info|warn|trace)!\s*\((?:[^()]|\([^()]*\))*\)\s*;", "", text)
    return re.sub(r"\s+", "", text)


def current(repo="/repo"):
    out = {}
    for f in FILES:
        p = os.path.join(repo, f)
        out[f] = hashlib.sha256(normalise(open(p).read()).encode()).hexdigest() if os.path.exists(p) else "missing"
    return out


def changed_files(repo="/repo"):
    if not os.path.exists(BASE):
        return []
    base = json.load(open(BASE))["files"]
    cur = current(repo)
    return sorted(f for f in FILES if base.get(f) != cur.get(f))


if __name__ == "__main__":
    import subprocess
    head = subprocess.run(["git", "-C", "/repo", "rev-parse", "HEAD"], stdout=subprocess.PIPE, text=True).stdout.strip()
    json.dump({"repo_commit": head, "files": current()}, open(BASE, "w"), indent=1)
    print("wrote", BASE)
