"""Proof stage: (re)build the property's theorem file, read back Print Assumptions, scan the development for
anything that would make a theorem hollow."""

import glob
import os
import re

from harness import COQ, WORK, sh, build_coq

WARN = "-deprecated-instance-without-locality,-deprecated-hint-without-locality,-notation-overridden"
FORBIDDEN = re.compile(r"\b(Admitted|admit|Axiom|Axioms|Parameter|Parameters|Conjecture|Conjectures)\b|Admit Obligations|Unset\s+Guard\s+Checking|"
                       r"Unset\s+Positivity\s+Checking|Unset\s+Universe\s+Checking|bypass_check|type-in-type|impredicative-set")
ALLOWED_AXIOMS = set()      # the development uses none


def strip_comments(src):
    out, depth, i = [], 0, 0
    while i < len(src):
        if src.startswith("(*", i):
            depth += 1
            i += 2
        elif src.startswith("*)", i) and depth > 0:
            depth -= 1
            i += 2
        else:
            if depth == 0:
                out.append(src[i])
            elif src[i] == "\n":
                out.append("\n")
            i += 1
    return "".join(out)


def scan_sources():
    """returns list of problems found in any .v file of the development"""
    problems = []
    for path in sorted(glob.glob(os.path.join(COQ, "**", "*.v"), recursive=True)):
        src = strip_comments(open(path).read())
        for ln, line in enumerate(src.splitlines(), 1):
            m = FORBIDDEN.search(line)
            if m:
                problems.append("%s:%d: forbidden `%s`" % (os.path.relpath(path, COQ), ln, m.group(0)))
        # Variable / Hypothesis / Context outside any Section declare axioms
        depth = 0
        for ln, line in enumerate(src.splitlines(), 1):
            s = line.strip()
            if re.match(r"(Section|Module)\s+\w+", s) and not re.match(r"Module\s+\w+\s*:=", s):
                depth += 1
            elif re.match(r"End\s+\w+\s*\.", s):
                depth = max(0, depth - 1)
            elif depth == 0 and re.match(r"(Variable|Variables|Hypothesis|Hypotheses|Context)\b", s):
                problems.append("%s:%d: `%s` outside a Section" % (os.path.relpath(path, COQ), ln, s.split()[0]))
    proj = open(os.path.join(COQ, "_CoqProject")).read()
    if "type-in-type" in proj or "impredicative-set" in proj:
        problems.append("_CoqProject passes a forbidden kernel flag")
    return problems


def proof_stage(pid):
    """returns dict(ok, obligations, discharged, theorems, problems, log, checker_cmd)"""
    res = {"ok": False, "obligations": 0, "discharged": 0, "theorems": [], "problems": [], "log": ""}
    vfile = os.path.join(COQ, "Properties", pid + ".v")
    res["checker_cmd"] = "make -C coq Properties/%s.vo && coqc -R coq BddV coq/Properties/%s.v (Print Assumptions read back); source scan" % (pid, pid)
    if not os.path.exists(vfile):
        res["problems"].append("no theorem file Properties/%s.v" % pid)
        return res
    src = strip_comments(open(vfile).read())
    theorems = re.findall(r"^\s*(?:Theorem|Corollary)\s+(\w+)", src, re.M)
    printed = re.findall(r"^\s*Print Assumptions\s+(\w+)\s*\.", src, re.M)
    res["theorems"] = theorems
    res["obligations"] = len(theorems)
    for t in theorems:
        if t not in printed:
            res["problems"].append("theorem %s has no Print Assumptions" % t)
    ok, log = build_coq(["Properties/%s.vo" % pid])
    res["log"] = log[-4000:]
    if not ok:
        res["problems"].append("the development does not build up to Properties/%s.vo" % pid)
        m = re.search(r'File "([^"]+)", line (\d+)', log)
        if m:
            res["problems"].append("first error: %s line %s" % (m.group(1), m.group(2)))
        return res
    tmp = os.path.join(WORK, "tmp")
    os.makedirs(tmp, exist_ok=True)
    rc, out = sh(["timeout", "600", "coqc", "-R", ".", "BddV", "-w", WARN, "-o", os.path.join(tmp, pid + ".vo"),
                  os.path.join("Properties", pid + ".v")], cwd=COQ, timeout=700)
    if rc != 0:
        res["problems"].append("coqc failed on Properties/%s.v: %s" % (pid, out[-500:]))
        return res
    closed = out.count("Closed under the global context")
    axioms = re.findall(r"^Axioms:\s*\n((?:.+\n?)+?)(?=\n\S|\Z)", out, re.M)
    bad_ax = []
    for block in axioms:
        for name in re.findall(r"^(\S+)\s*:", block, re.M):
            if name not in ALLOWED_AXIOMS:
                bad_ax.append(name)
    if "Section Variables:" in out:
        res["problems"].append("a Print Assumptions ran inside a Section (hypotheses not discharged)")
    if bad_ax:
        res["problems"].append("theorems depend on axioms: %s" % ", ".join(sorted(set(bad_ax))))
    res["assumptions"] = "Closed under the global context x%d of %d" % (closed, len(printed))
    res["problems"] += scan_sources()
    res["discharged"] = min(closed, len(theorems)) if not res["problems"] else 0
    if closed < len(printed):
        res["problems"].append("only %d of %d Print Assumptions are closed" % (closed, len(printed)))
        res["discharged"] = 0
    res["ok"] = not res["problems"] and res["obligations"] > 0 and res["discharged"] == res["obligations"]
    return res
