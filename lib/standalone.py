"""C17-C20: histories for the stand-alone structures (Table, Cache, RawTable, eda), run on the crate and on the model."""

import glob
import itertools
import os
import random
import time
from collections import Counter

import harness as H

CORPUS = os.path.join(H.ROOT, "corpus")
DOMAIN = {"C17": "table", "C18": "cache", "C19": "raw", "C20": "eda"}
BUDGET = {"quick": {"n": 500, "ops": 80}, "thorough": {"n": 6000, "ops": 300}}


# ------------------------------------------------------------------------------------------------ generators
def gen_table(rng, nops):
    bits = rng.choice([1, 2, 2, 3, 3, 4, 5])
    bb = rng.randrange(0, min(bits, 3) + 1)
    hk = rng.choice([0, 1, 2, 2, 3, 6])
    lines = ["table %d %d %d" % (bits, bb, hk)]
    universe = list(range(0, max(3, int((1 << bits) * rng.choice([0.6, 1.0, 1.5, 3])))))
    live = set()
    classes = Counter()
    for _ in range(nops):
        x = rng.random()
        if x < 0.72:
            v = rng.choice(universe)
            classes["put:" + ("existing" if v in live else "new")] += 1
            lines.append("put %d" % v)
            live.add(v)
        elif x < 0.97:
            y = rng.random()
            if y < 0.12:
                keep = []
            elif y < 0.24:
                keep = sorted(live)
            else:
                keep = [v for v in sorted(live) if rng.random() < rng.choice([0.2, 0.5, 0.8])]
            classes["sweep:" + ("none" if not keep else "all" if len(keep) == len(live) else "some")] += 1
            lines.append(("sweepv %d %s" % (len(keep), " ".join(map(str, keep)))).rstrip())
            live = set(keep)
        else:
            lines.append("dump")
    lines.append("dump")
    return lines, {"cfg": lines[0], "classes": dict(classes)}


def gen_cache(rng, nops):
    keyed = rng.random() < 0.4
    classes = Counter()
    if keyed:
        bits = rng.choice([0, 0, 1, 2])
        lines = ["kcache %d" % bits]
        refs = [2, 3, 4, 5, 6, 7, 8, 9]

        def key():
            k = rng.choice("ICR")
            a, b = rng.choice(refs), rng.choice(refs)
            if k == "I":
                return "I %d %d %d" % (a, b, rng.choice(refs))
            return "%s %d %d" % (k, a, b)
        last = None
        for _ in range(nops):
            x = rng.random()
            if x < 0.45:
                k = key()
                if last and rng.random() < 0.4 and last[0] in "CR":      # the sibling kind with the same arguments: equal hash
                    k = ("R" if last[0] == "C" else "C") + last[1:]
                    classes["ins:sibling-key"] += 1
                last = k
                lines.append("ins %s %d" % (k, rng.choice(refs)))
            elif x < 0.95:
                k = key()
                if last and rng.random() < 0.6:
                    k = last if rng.random() < 0.5 else (("R" if last[0] == "C" else "C") + last[1:] if last[0] in "CR" else last)
                lines.append("get %s" % k)
            else:
                lines.append("clear")
    else:
        bits = rng.choice([0, 1, 2, 3])
        hk = rng.choice([0, 1, 2, 3, 6])
        lines = ["cache %d %d" % (bits, hk)]
        uni = rng.choice([3, 6, 12, 40])
        for _ in range(nops):
            x = rng.random()
            if x < 0.45:
                lines.append("ins %d %d" % (rng.randrange(uni), rng.randrange(0, 100)))
            elif x < 0.95:
                lines.append("get %d" % rng.randrange(uni))
            else:
                lines.append("clear")
    lines.append("dump")
    if rng.random() < 0.15 and len(lines) > 6:
        # the stratum 'clear 2^8 / 2^16 times' (an epoch or generation counter of a narrow integer type wraps around), followed
        # by lookups of everything that was ever inserted
        n = rng.choice([255, 256, 257, 65535, 65536, 65537])
        classes["clear:repeated-%d" % n] += 1
        body = lines[1:]
        gets = [("get " + l.split(" ", 1)[1].rsplit(" ", 1)[0]) for l in body if l.startswith("ins ")]
        lines = lines + ["clear"] * n + gets[-12:]
    elif rng.random() < 0.08 and len(lines) > 6:
        # the stratum 'the same lookup 2^16 times' (statistics counters of a narrow integer type wrap around)
        gets = [("get " + l.split(" ", 1)[1].rsplit(" ", 1)[0]) for l in lines[1:] if l.startswith("ins ")]
        if gets:
            n = rng.choice([65535, 65536, 65537])
            classes["get:repeated-%d" % n] += 1
            lines = lines + [rng.choice(gets)] * n + gets[-4:]
    return lines, {"cfg": lines[0], "classes": dict(classes)}


def gen_raw(rng, nops):
    hk = rng.choice([0, 1, 1, 2, 3, 4, 5, 6])
    lines = ["raw %d" % hk]
    uni = rng.choice([4, 5, 6, 8, 8, 20])
    classes = Counter()
    present = set()
    if rng.random() < 0.3:
        lines.append("get %d" % rng.randrange(uni))      # lookup on a never-used table
    for _ in range(nops):
        x = rng.random()
        if x < 0.40:
            k = rng.randrange(uni)
            classes["ins:" + ("existing" if k in present else "new")] += 1
            lines.append("ins %d %d" % (k, rng.randrange(1000)))
            present.add(k)
        elif x < 0.62:
            k = rng.randrange(uni)
            classes["get:" + ("present" if k in present else "absent") + (":full" if len(present) in (1, 2, 4, 8, 16) else "")] += 1
            lines.append("get %d" % k)
        elif x < 0.84:
            k = rng.randrange(uni)
            lines.append("rem %d" % k)
            present.discard(k)
        elif x < 0.90:
            lines.append("iter")
        elif x < 0.95:
            lines.append("reserve %d" % rng.choice([0, 1, 2, 3, 5, 9] if rng.random() < 0.85 else [1 << 60, (1 << 60) + 5, 1 << 61]))
        else:
            lines.append("clear")
            present = set()
    lines.append("iter")
    return lines, {"cfg": lines[0], "classes": dict(classes)}


def rand_tree(rng, size, plain):
    if size <= 1:
        return ["t%d" % rng.randrange(-2, 4)]
    ops = ["!", "~", "&", "|"] + ([] if plain else ["^", "?"])
    op = rng.choice(ops)
    if op in "!~":
        return [op] + rand_tree(rng, size - 1, plain)
    if op == "?":
        a = rng.randrange(1, max(2, size - 2))
        b = rng.randrange(1, max(2, size - 1 - a))
        return [op] + rand_tree(rng, a, plain) + rand_tree(rng, b, plain) + rand_tree(rng, max(1, size - 1 - a - b), plain)
    a = rng.randrange(1, max(2, size - 1))
    return [op] + rand_tree(rng, a, plain) + rand_tree(rng, max(1, size - 1 - a), plain)


def gen_eda(rng, nops):
    lines = ["eda"]
    for _ in range(nops):
        x = rng.random()
        if x < 0.5:
            size = rng.choice([1, 2, 3, 4, 6, 9, 14])
            lines.append("arena " + " ".join(rand_tree(rng, size, rng.random() < 0.7)))
        elif x < 0.65:
            lines.append("neg " + " ".join(rand_tree(rng, rng.choice([1, 1, 2, 4, 7]), True)))
        elif x < 0.75:
            lines.append("fromvar %d" % rng.choice([0, 1, 2, rng.randrange(1 << 30), (1 << 30) - 3, (1 << 30) - 2]))
        elif x < 0.85:
            lines.append("frominput %d" % rng.choice([0, 1, rng.randrange(1 << 30), (1 << 30) - 2, (1 << 30) - 1]))
        elif x < 0.93:
            lines.append("info %d" % rng.choice([0, 1, 2, 3, rng.randrange(1 << 32), (1 << 31) - 1, 1 << 31, (1 << 31) + 1, (1 << 32) - 2, (1 << 32) - 1]))
        else:
            lines.append("not %d" % rng.choice([0, 1, 2, rng.randrange(1 << 32), (1 << 32) - 1]))
    return lines, {"cfg": "eda", "classes": {}}


def all_shapes(n, plain=True):
    """all expression trees with exactly n nodes over the operators, terms drawn from {2, 3}"""
    if n == 1:
        return [["t2"], ["t-1"]]
    out = []
    for sub in all_shapes(n - 1, plain):
        out.append(["!"] + sub)
        out.append(["~"] + sub)
    for a in range(1, n - 1):
        for l in all_shapes(a, plain):
            for r in all_shapes(n - 1 - a, plain):
                out.append(["&"] + l + r)
                out.append(["|"] + l + r)
    return out


GEN = {"C17": gen_table, "C18": gen_cache, "C19": gen_raw, "C20": gen_eda}


def histories(pid, tier, seed):
    b = BUDGET[tier]
    import props
    factor = props.escalation(pid)[0] if tier == "quick" else 1
    master = random.Random(seed * 7919 + int(pid[1:]))
    for i in range(b["n"] * factor):
        hseed = master.randrange(1 << 48)
        rng = random.Random(hseed)
        lines, meta = GEN[pid](rng, b["ops"] if i % 4 else b["ops"] * 3)
        meta["seed"] = hseed
        yield ("gen-%s-%d" % (pid, i), lines, meta)
    if pid == "C18":
        # caches of 2^17 / 2^18 slots with keys landing in the upper slots (identity hash), clears in between
        for bits in (17, 18):
            rng = random.Random(master.randrange(1 << 48))
            lines = ["cache %d 0" % bits]
            keys = [rng.randrange(8) + j * 65536 + rng.choice([0, 65535 - 7]) for j in range(0, 1 << (bits - 16)) for _ in range(3)] + [rng.randrange(1 << bits) for _ in range(10)]
            for rnd in range(3):
                for k in rng.sample(keys, len(keys)):
                    lines.append("ins %d %d" % (k, rng.randrange(100)))
                    if rng.random() < 0.5:
                        lines.append("get %d" % rng.choice(keys))
                for k in keys:
                    lines.append("get %d" % k)
                lines.append("clear")
                for k in keys:
                    lines.append("get %d" % k)
            yield ("bigcache-%d" % bits, lines, {"cfg": lines[0], "kind": "big-cache", "classes": {"cache:bits=%d" % bits: 1}})
        yield from collision_histories("kcache", seed)
    if pid == "C17":
        yield from collision_histories("ntable", seed)
    if pid == "C20":
        lines = ["eda"]
        for n in range(1, 5 if tier == "quick" else 6):
            for t in all_shapes(n):
                lines.append("arena " + " ".join(t))
                lines.append("neg " + " ".join(t))
        for v in [0, 1, 2, 3, (1 << 30) - 3, (1 << 30) - 2]:
            lines.append("fromvar %d" % v)
        for v in [0, 1, 2, (1 << 30) - 2, (1 << 30) - 1]:
            lines.append("frominput %d" % v)
        for r in list(range(0, 10)) + [(1 << 31) - 2, (1 << 31) - 1, 1 << 31, (1 << 31) + 1, (1 << 32) - 2, (1 << 32) - 1]:
            lines.append("info %d" % r)
            lines.append("not %d" % r)
        yield ("shapes", lines, {"cfg": "eda", "kind": "all-shapes", "classes": {}})
        # one tree with more than 2^16 nodes (index types narrower than usize in the arena show here); crate only: the arena
        # model walks lists and needs minutes at this size
        rng = random.Random(master.randrange(1 << 48))
        def balanced(depth):
            if depth == 0:
                return ["t%d" % rng.randrange(-1, 2)]     # values stay within i64 under * and + (products in {-1,0,1}, sums below 2^17)
            op = "&" if depth <= 8 else "|"            # products of -1/0/1 below, sums of at most 2^8 of them above: no i64 overflow
            return [op] + balanced(depth - 1) + balanced(depth - 1)
        big = ["!"] + balanced(16)                     # 2^17 nodes
        yield ("bigtree", ["eda", "arena " + " ".join(big), "neg " + " ".join(big)], {"cfg": "eda", "kind": "big-tree", "no_model": True, "timeout": 60, "classes": {"eda:nodes>2^16": 1}})
    if pid == "C19":
        # tables of several hundred entries: long probe runs (everything collides / identity hash), tombstones in the middle
        # of the runs, insertions of absent keys past them, growth while probing
        for (hk, uni) in ((1, 300), (0, 400), (2, 300), (6, 500)):
            rng = random.Random(master.randrange(1 << 48))
            lines = ["raw %d" % hk]
            present = []
            for k in range(uni // 2):
                lines.append("ins %d %d" % (k, k % 97)); present.append(k)
            for _ in range(uni):
                x = rng.random()
                if x < 0.35 and present:
                    k = present.pop(rng.randrange(len(present))); lines.append("rem %d" % k)
                elif x < 0.75:
                    k = rng.randrange(uni); lines.append("ins %d %d" % (k, rng.randrange(1000)))
                    if k not in present:
                        present.append(k)
                else:
                    lines.append("get %d" % rng.randrange(uni + 5))
            for k in range(0, uni, 7):
                lines.append("get %d" % k)
            lines.append("iter")
            yield ("bigraw-%d-%d" % (hk, uni), lines, {"cfg": lines[0], "kind": "big-raw", "timeout": 30, "classes": {"raw:universe=%d" % uni: 1}})
        # every fill level including exactly full tables, under every hash kind
        for hk in range(0, 7):
            lines = ["raw %d" % hk, "get 0"]
            for k in range(0, 18):
                lines += ["ins %d %d" % (k, k * 3), "get %d" % (k + 1), "get 0", "iter"]
            for k in range(0, 18, 2):
                lines += ["rem %d" % k, "get %d" % k, "get %d" % (k + 1)]
            lines += ["ins 1 5", "ins 1 6", "iter", "clear", "get 1", "iter"]
            yield ("fill-%d" % hk, lines, {"cfg": "raw %d" % hk, "kind": "fill-levels", "classes": {}})


# ------------------------------------------------------------------------------------------------ crafted hash collisions
def collision_histories(kind, seed, n=6):
    """histories built around crafted 64-bit collisions of the crate's pairing3 hash (lib/collide.py):
    kind 'kcache': Cache<OpKey, Ref> keys Ite(a1,b1,c1) / Ite(a2,b2,c2) with the same full hash;
    kind 'ntable': Table<Node> values with the same full hash."""
    import collide
    rng = random.Random(seed * 31 + 17)
    out = []
    for i in range(n):
        pairs = collide.collisions(rng, 6)
        if kind == "kcache":
            lines = ["kcache %d" % rng.choice([0, 1, 3, 6])]
            for (t1, t2) in pairs:
                lines += ["ins I %d %d %d %d" % (t1 + (rng.randrange(2, 99),)), "get I %d %d %d" % t2, "get I %d %d %d" % t1,
                          "ins I %d %d %d %d" % (t2 + (rng.randrange(2, 99),)), "get I %d %d %d" % t1, "get I %d %d %d" % t2]
                if rng.random() < 0.3:
                    lines.append("clear")
            lines.append("dump")
        else:
            lines = ["ntable %d %d" % (rng.choice([5, 6, 8]), rng.choice([0, 2, 4]))]
            for (t1, t2) in pairs:
                # node fields: variable = c, low = a, high = b
                lines += ["putn %d %d %d" % (t1[2], t1[0], t1[1]), "putn %d %d %d" % (t2[2], t2[0], t2[1]), "putn %d %d %d" % (t1[2], t1[0], t1[1])]
                lines.append("putn %d %d %d" % (rng.randrange(1, 9), rng.randrange(2, 40), rng.randrange(2, 40)))
        out.append(("collide-%s-%d" % (kind, i), lines, {"cfg": lines[0], "kind": "crafted-hash-collisions", "classes": {"crafted-collision-pairs": len(pairs)}}))
    return out


def corpus(pid):
    out = []
    for path in sorted(glob.glob(os.path.join(CORPUS, DOMAIN[pid], "*.hist"))):
        lines = [l.rstrip("\n") for l in open(path) if l.strip()]
        out.append(("corpus-" + os.path.basename(path)[:-5], lines, {"kind": "corpus", "classes": {}}))
    return out


# ------------------------------------------------------------------------------------------------ running
def run_one(item, pid, wdir, profiles):
    name, lines, meta = item
    hp = H.write_hist(os.path.join(wdir, name + ".hist"), lines)
    res = {"name": name, "path": hp, "meta": meta, "oracle": [], "diff": None, "status": {}}
    no_model = bool(meta.get("no_model"))
    model = {"lines": [], "status": "skipped"} if no_model else H.run_model(hp, timeout=120, retry=True)
    traces = {}
    for prof in profiles:
        impl = H.run_impl(hp, oracle=True, profile=prof, timeout=meta.get("timeout", 4), retry=True)
        traces[prof] = impl["lines"]
        res["status"][prof] = impl["status"]
        res["oracle"] += [l + " [%s build]" % prof for l in impl["oracle"] if l.split(" ", 2)[1] == pid]
        if impl["status"] != "ok":
            # a crash / hang of the crate through its safe API is itself a violation of C19 (and a finding for the others)
            last = [l for l in impl["lines"] if l.startswith("op ")]
            res["oracle"].append("ORACLE %s line=? the crate %s in the %s build after `%s`" % (pid, impl["status"], prof, last[-1] if last else "?"))
        a_lines, m_lines = impl["lines"], model["lines"]
        if lines[0].startswith("kcache"):
            # Cache<OpKey, Ref> uses the crate's own key hash: which slot a key lands in (hence faults, dumps) is layout, not
            # behaviour; compare the answers of the lookups only.  (The cache with harness-defined hashes is compared exactly.)
            # The cache is lossy by design, so with another key hash a lookup may miss where the model hits (or the reverse):
            # only two different VALUES for the same lookup are a disagreement (the oracle checks each value against the latest
            # insertion under that key on its own).
            strip = lambda ls: [" ".join(l.split()[:2]) if l.startswith("g ") else l for l in ls if not l.startswith("dump")]
            a_lines, m_lines = strip(a_lines), strip(m_lines)
            if len(a_lines) == len(m_lines):
                a_lines = [m if (a != m and a.startswith("g ") and m.startswith("g ") and "none" in (a[2:], m[2:])) else a for a, m in zip(a_lines, m_lines)]
        res["exact"] = res.get("exact", True) and (no_model or impl["lines"] == model["lines"])
        dom = lines[0].split()[0]
        if dom in ("table", "ntable"):
            # Table: what C17 / C06 fix are the returned indices, which cells are occupied with which values, and the counters
            # real_size / size; the position of a cell inside its chain, the bucket heads and min_free are layout (the chain
            # invariants are checked on the crate's own state by the runner's oracle).  Exact agreement is still reported.
            def tview(ls):
                out = []
                for l in ls:
                    t = l.split(" ")
                    if t[0] == "i" and len(t) == 5:
                        out.append(" ".join(t[:4]))
                    elif t[0] == "s" and len(t) == 4:
                        out.append(" ".join(t[:3]))
                    elif t[0] == "dump":
                        cells = [c for c in l.split(" ")[1][len("cells="):].split(",") if c] if len(t) > 1 else []
                        out.append("dump " + ",".join(sorted(":".join(c.split(":")[:2]) for c in cells)))
                    else:
                        out.append(l)
                return out
            a_lines, m_lines = tview(a_lines), tview(m_lines)
        if dom == "eda":
            # the arena's node layout (its Debug output) is not part of C20: compare what it prints, evaluates and converts back to
            ev = lambda ls: [" ;; ".join(x for x in l.split(" ;; ") if not x.startswith("a ")) if l.startswith("a ") else l for l in ls]
            a_lines, m_lines = ev(a_lines), ev(m_lines)
        if lines[0].startswith("raw"):
            # RawTable: what the property fixes is the map behaviour and the reported length; capacity, the free counter and the
            # status words are a growth / tombstone policy (exact agreement on them is reported in the evidence, not required)
            obs = lambda ls: [(l.split(" | ")[0] + " len=" + l.split(" | ")[1].split()[0]) if " | " in l else l for l in ls]
            a_lines, m_lines = obs(a_lines), obs(m_lines)
        if no_model:
            a_lines = m_lines = []
        if a_lines != m_lines and res["diff"] is None:
            d = H.first_exact_diff(a_lines, m_lines)
            res["diff"] = (prof,) + d
    res["nlines"] = len(model["lines"])
    res["agree"] = res["diff"] is None
    if not res["oracle"] and res["agree"]:
        os.remove(hp)
        res["path"] = None
    return res


def shrink_lines(lines, fails, budget=150, max_seconds=40):
    header, body = lines[:1], lines[1:]
    calls = [0]
    t_end = time.time() + max_seconds

    def test(b):
        calls[0] += 1
        if time.time() > t_end:
            calls[0] = budget + 1000
            return False
        return fails(header + b)
    # truncate
    lo, hi = 0, len(body)
    while lo < hi and calls[0] < budget:
        mid = (lo + hi) // 2
        if test(body[:mid]):
            hi = mid
        else:
            lo = mid + 1
    body = body[:hi]
    chunk = max(1, len(body) // 2)
    while chunk >= 1 and calls[0] < budget:
        i = 0
        while i < len(body) and calls[0] < budget:
            cand = body[:i] + body[i + chunk:]
            if cand != body and test(cand):
                body = cand
            else:
                i += chunk
        chunk //= 2
    return header + body


def run_property(pid, tier, seed, spec):
    wdir = os.path.join(H.WORK, pid)
    os.makedirs(wdir, exist_ok=True)
    os.makedirs(os.path.join(H.WORK, "replays"), exist_ok=True)
    profiles = spec.get("profiles", ("release",))
    items = corpus(pid) + list(histories(pid, tier, seed))
    t0 = time.time()
    results, items = H.pmap_until(lambda it: run_one(it, pid, wdir, profiles), items, lambda r: bool(r["oracle"]))
    failures, diffs = [], []
    fail_res = [r for r in results if r["oracle"]]
    diff_res = [r for r in results if not r["agree"] and not r["oracle"]]
    if diff_res and not fail_res:
        extra = [("wide-" + n, ls, m) for (n, ls, m) in list(histories(pid, "thorough", seed + 101))[:2000]]
        more, _ = H.pmap_until(lambda it: run_one(it, pid, wdir, profiles), extra, lambda r: bool(r["oracle"]), enough=3)
        fail_res = [r for r in more if r["oracle"]]
    for k, r in enumerate(sorted(fail_res, key=lambda r: r["nlines"])[:3]):
        lines = [l.rstrip("\n") for l in open(r["path"])]

        def fails(cand, k=k):
            hp = H.write_hist(os.path.join(wdir, "shrink-%d.hist" % k), cand)
            for prof in profiles:
                impl = H.run_impl(hp, oracle=True, profile=prof, timeout=3)
                if impl["status"] != "ok" or any(l.split(" ", 2)[1] == pid for l in impl["oracle"]):
                    return True
            return False
        small = shrink_lines(lines, fails)
        rp = H.write_hist(os.path.join(H.WORK, "replays", "%s-%d.hist" % (pid, k)), small)
        failures.append({"replay": rp, "what": r["oracle"][0], "history": r["name"], "lines": len(small)})
    for k, r in enumerate(sorted(diff_res, key=lambda r: r["nlines"])[:3]):
        lines = [l.rstrip("\n") for l in open(r["path"])]

        def differs(cand, k=k):
            hp = H.write_hist(os.path.join(wdir, "shrink-d%d.hist" % k), cand)
            model = H.run_model(hp)
            for prof in profiles:
                impl = H.run_impl(hp, oracle=False, profile=prof, timeout=10)
                if impl["lines"] != model["lines"]:
                    return True
            return False
        small = shrink_lines(lines, differs)
        rp = H.write_hist(os.path.join(H.WORK, "replays", "%s-diff-%d.hist" % (pid, k)), small)
        d = r["diff"]
        diffs.append({"replay": rp, "history": r["name"],
                      "what": "crate (%s build) and model disagree on history %s at trace line %d: crate `%s` / model `%s`" % (d[0], r["name"], d[1], d[2][:120], d[3][:120])})
    ops = Counter()
    classes = Counter()
    cfgs = Counter()
    distinct = set()
    for (_, lines, meta) in items:
        cfgs[lines[0]] += 1
        for l in lines[1:]:
            ops[l.split()[0]] += 1
            if len(distinct) < 2_000_000:
                distinct.add(lines[0] + "|" + l)
        for k, v in meta.get("classes", {}).items():
            classes[k] += v
    sample_items = [it for it in items if it[0].startswith("gen-")][:2]
    cov = {
        "histories": len(items),
        "evaluations": sum(ops.values()) * len(profiles),
        "distinct_nontrivial": len(distinct),
        "rule": "one evaluation = one history line executed on the crate (each build profile) and on the extracted model; distinct = distinct "
                "(configuration line, operation line) pairs; every line operates on the structure, so every one is counted as non-trivial",
        "samples": [{"history": n, "meta": {k: v for k, v in m.items() if k in ("seed", "cfg", "kind")}, "first_lines": ls[:30]} for (n, ls, m) in sample_items],
        "traces_validated_against_impl": sum(1 for r in results if r["agree"]),
        "exact_agreement": sum(1 for r in results if r.get("exact", r["agree"])),
        "canonical_agreement": sum(1 for r in results if r["agree"]),
        "ops_by_kind": dict(ops),
        "classes": dict(classes),
        "configs": dict(cfgs.most_common(40)),
        "profiles": list(profiles),
        "failures": failures,
        "diffs": diffs,
        "suites": dict(Counter(n.split("-")[0] for (n, _, _) in items)),
        "run_s": round(time.time() - t0, 1),
    }
    if pid in ("C17", "C18", "C19"):
        import coqeval
        try:
            cov["coq_cross_checked"] = coqeval.cross_check_standalone([it for it in items if it[0].startswith("gen-")], wdir, 12 if tier == "quick" else 60)
        except Exception as e:
            cov["coq_cross_checked"] = {"checked": 0, "error": repr(e)[:300]}
        if cov["coq_cross_checked"].get("mismatch"):
            diffs.append({"replay": cov["coq_cross_checked"]["mismatch"], "history": "coq-cross-check",
                          "what": "extracted OCaml model and in-kernel vm_compute evaluation disagree: " + cov["coq_cross_checked"].get("detail", "")})
    for f in glob.glob(os.path.join(wdir, "shrink-*.hist")):
        os.remove(f)
    return cov


def replay(pid, path):
    lines = [l.rstrip("\n") for l in open(path) if l.strip()]
    if lines and lines[0].split()[0] not in ("table", "ntable", "cache", "kcache", "raw", "eda"):
        print("replay file is a report, not a history:")
        print("\n".join(lines))
        return 1
    import domains
    profiles = domains.SPECS[pid].get("profiles", ("release",))
    model = H.run_model(path)
    bad = False
    for prof in profiles:
        impl = H.run_impl(path, oracle=True, profile=prof, timeout=20)
        for l in impl["oracle"]:
            print(l, "[%s]" % prof)
        if impl["status"] != "ok":
            print("crate %s [%s]" % (impl["status"], prof))
            bad = True
        if any(l.split(" ", 2)[1] == pid for l in impl["oracle"]):
            bad = True
        d = H.first_exact_diff(impl["lines"], model["lines"])
        print("crate (%s) vs model: %s" % (prof, "identical" if d is None else "first difference %r" % (d,)))
        if d is not None and not bad:
            print("VIOLATION property=%s replay=%s no-failing-input-found" % (pid, path))
            return 1
    if bad:
        print("VIOLATION property=%s replay=%s" % (pid, path))
        return 1
    return 0
