"""Crafted 64-bit collisions of the crate's three-argument hash pairing3(a, b, c) = szudzik(szudzik(a, b), c) with u64 wrap-around
(src/utils.rs), for u32 arguments.  Szudzik pairing is injective on naturals, so collisions exist only through the wrap-around of the
second squaring; they are far out of reach of random testing (arguments around 2^21 and more), and exactly what a comparison
'by hash instead of by value' would get wrong.  Derivation: with x = szudzik(a, b) >= c the hash is x*x + x + c mod 2^64; for
x1 = x2 + 2^k the difference of the two hashes is 2^k * (2*x2 + 2^k + 1) + (c1 - c2); choosing x2 with 2*x2 + 2^k + 1 = s mod 2^(64-k)
makes it 2^k * s + (c1 - c2), which vanishes for c2 = c1 + 2^k * s."""

import math

M = 1 << 64


def szudzik(a, b):
    if a < b:
        return ((b * b) % M + a) % M
    return ((((a * a) % M + a) % M) + b) % M


def pairing3(a, b, c):
    return szudzik(szudzik(a, b), c)


def unpair(z):
    s = math.isqrt(z)
    if z - s * s < s:
        return (z - s * s, s)
    return (s, z - s * s - s)


def collisions(rng, n):
    """n pairs ((a1,b1,c1),(a2,b2,c2)) of distinct u32 triples (every component >= 2) with equal pairing3"""
    out = []
    tries = 0
    while len(out) < n and tries < 10000:
        tries += 1
        k = rng.randrange(16, 30)
        s = 2 * rng.randrange(0, 1 << max(1, 30 - k)) + 1
        j = rng.randrange(0, 4)
        half = 1 << (63 - k)
        x2 = (((s - (1 << k) - 1) // 2) % half) + 0
        # other solutions differ by multiples of 2^(63-k); keep x small enough that both components stay below 2^32
        x2 = x2 % half
        if j and x2 + j * half < (1 << 63):
            x2 = x2 + 0   # (adding multiples of 2^(63-k) keeps the congruence only modulo 2^(64-k); stay with the base solution)
        x1 = x2 + (1 << k)
        c1 = rng.randrange(2, 1 << 20)
        c2 = c1 + (1 << k) * s
        if c2 >= (1 << 32) or x2 < c2 or x1 < c1:
            continue
        a1, b1 = unpair(x1)
        a2, b2 = unpair(x2)
        if max(a1, b1, a2, b2) >= (1 << 32) or min(a1, b1, a2, b2) < 2:
            continue
        t1, t2 = (a1, b1, c1), (a2, b2, c2)
        if t1 != t2 and pairing3(*t1) == pairing3(*t2) and szudzik(a1, b1) == x1 and szudzik(a2, b2) == x2:
            out.append((t1, t2))
    return out
