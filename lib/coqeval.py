"""In-kernel re-evaluation of a sample of histories: validates the OCaml extraction against Coq's own evaluator.
The history is printed as a Gallina `list hop`, `Eval vm_compute` computes CoqEval.eval_history, and the resulting
digest is compared with the digest computed from the extracted model's text trace."""

import os
import re

import harness as H


def rarg(tok):
    if tok.startswith("~"):
        return "(%s%%nat, true)" % tok[1:]
    return "(%s%%nat, false)" % tok


def lit(l):
    l = int(l)
    return "(%d, %s)" % (abs(l), "true" if l > 0 else "false")


def lst(xs):
    return "[" + "; ".join(xs) + "]"


def expr_term(t, pos):
    tok = t[pos[0]]
    pos[0] += 1
    if tok == "!":
        return "(XNot %s)" % expr_term(t, pos)
    if tok == "-":
        return "(XNeg %s)" % expr_term(t, pos)
    if tok in "&|^":
        a = expr_term(t, pos)
        b = expr_term(t, pos)
        return "(%s %s %s)" % ({"&": "XAnd", "|": "XOr", "^": "XXor"}[tok], a, b)
    return "(XTerm %s)" % rarg(tok[1:])


def hop(line):
    t = line.split()
    op = t[0]
    b = lambda x: "true" if x == "1" else "false"
    if op == "const":
        return "HConst %s" % b(t[1])
    if op == "var":
        return "HVar %s" % t[1]
    if op == "node":
        return "HNode %s %s %s" % (t[1], rarg(t[2]), rarg(t[3]))
    if op == "ite":
        return "HIte %s %s %s" % (rarg(t[1]), rarg(t[2]), rarg(t[3]))
    if op in ("and", "or", "xor", "eq", "imply"):
        return "HBin %s %s %s" % ({"and": "BAnd", "or": "BOr", "xor": "BXor", "eq": "BEq", "imply": "BImply"}[op], rarg(t[1]), rarg(t[2]))
    if op == "not":
        return "HNot %s" % rarg(t[1])
    if op in ("andmany", "ormany"):
        k = int(t[1])
        return "HMany %s %s" % ("true" if op == "ormany" else "false", lst([rarg(x) for x in t[2:2 + k]]))
    if op in ("cube", "clause"):
        k = int(t[1])
        return "HCube %s %s" % ("true" if op == "clause" else "false", lst([lit(x) for x in t[2:2 + k]]))
    if op == "expr":
        return "HExpr %s" % expr_term(t, [1])
    if op == "subst":
        return "HSubst %s %s %s" % (rarg(t[1]), t[2], b(t[3]))
    if op == "substm":
        k = int(t[2])
        return "HSubstM %s %s" % (rarg(t[1]), lst(["(%s, %s)" % (t[3 + 2 * i], b(t[4 + 2 * i])) for i in range(k)]))
    if op == "cofcube":
        k = int(t[2])
        return "HCofCube %s %s" % (rarg(t[1]), lst([lit(x) for x in t[3:3 + k]]))
    if op == "compose":
        return "HCompose %s %s %s" % (rarg(t[1]), t[2], rarg(t[3]))
    if op == "constrain":
        return "HConstrain %s %s" % (rarg(t[1]), rarg(t[2]))
    if op == "restrict":
        return "HRestrict %s %s" % (rarg(t[1]), rarg(t[2]))
    if op == "low":
        return "HLow %s" % rarg(t[1])
    if op == "high":
        return "HHigh %s" % rarg(t[1])
    if op in ("topcof0", "topcof1"):
        return "HTopCof %s %s %s" % ("true" if op == "topcof1" else "false", rarg(t[1]), t[2])
    if op == "itec":
        return "HItec %s %s %s" % (rarg(t[1]), rarg(t[2]), rarg(t[3]))
    if op == "implies":
        return "HImplies %s %s" % (rarg(t[1]), rarg(t[2]))
    if op == "size":
        return "HSize %s" % rarg(t[1])
    if op in ("desc", "dot", "gc"):
        k = int(t[1])
        return "%s %s" % ({"desc": "HDesc", "dot": "HDot", "gc": "HGc"}[op], lst([rarg(x) for x in t[2:2 + k]]))
    if op == "satcount":
        return "HSatCount %s %s" % (rarg(t[1]), t[2])
    if op == "onesat":
        return "HOneSat %s" % rarg(t[1])
    if op == "paths":
        return "HPaths %s" % rarg(t[1])
    if op == "bracket":
        return "HBracket %s" % rarg(t[1])
    raise ValueError(op)


def path_digest(txt):
    lits = [int(x) for x in txt.strip("[]").split(",") if x]
    return [len(lits), sum(abs(x) for x in lits), sum(1 for x in lits if x < 0)]


def trace_digest(hist_ops, trace):
    """the digest CoqEval.out_digest would produce, from the extracted model's text trace"""
    d = []
    nskip = 0
    for op, line in zip(hist_ops, trace):
        t = line.split(" ")
        if t[0] == "r":
            d += [1, int(t[1]), int(t[2]), int(t[3]), int(t[4])]
        elif t[0] == "skip":
            d += [2]
        elif t[0] == "gc":
            d += [11, int(t[1]), int(t[2]), int(t[3])]
        elif t[0] == "panic":
            d += [99]
            return d
        elif t[0] == "q":
            v = line[2:]
            if op == "itec":
                d += [3, {"none": 0, "true": 1, "false": 2}[v]]
            elif op == "implies":
                d += [4, int(v)]
            elif op in ("size", "satcount"):
                d += [5, int(v)]
            elif op == "desc":
                ids = [int(x) for x in v.split()]
                d += [6, len(ids), sum(ids)]
            elif op == "onesat":
                d += [7, 0] if v == "none" else [7, 1] + path_digest(v)
            elif op == "paths":
                ps = [] if v == "nopaths" else v.split(" ")
                d += [8, len(ps)]
                for p in ps:
                    d += path_digest(p)
            elif op == "bracket":
                full = len(re.findall(r"@\d+:\(", v))
                refs = len(re.findall(r"@\d+(?!\d|:)", v))
                s = sum(int(x) for x in re.findall(r"@(\d+)", v)) + sum(int(x) for x in re.findall(r"\(x(\d+),", v))
                d += [9, full, refs, s]
            elif op == "dot":
                lines = v.split(" ; ")
                nodes = sum(1 for l in lines if "[label=<x<SUB>" in l)
                roots = sum(1 for l in lines if l.startswith("r") and "[shape=rect" in l)
                d += [10, 3 * nodes + roots]
        elif t[0] == "end":
            d += [0]
    return d


def cross_check(items, wdir, k):
    # short, tiny-configuration histories without dumps
    cands = []
    for (name, lines, meta) in items:
        body = [l for l in lines if l.split()[0] not in ("cfg", "nvars") and not l.startswith("#")]
        cfg = [l for l in lines if l.startswith("cfg")][0].split()
        if cfg[1] == "default" or int(cfg[1]) > 10 or len(body) > 400 or any(l.startswith("dump") for l in body):
            continue
        cands.append((name, lines, body, cfg))
        if len(cands) >= k:
            break
    if not cands:
        return {"checked": 0}
    vpath = os.path.join(wdir, "cases.v")
    with open(vpath, "w") as f:
        f.write("From Coq Require Import NArith List.\nRequire Import BddV.BddBase BddV.Machine BddV.CoqEval.\nImport ListNotations.\nLocal Open Scope N_scope.\n")
        for i, (name, lines, body, cfg) in enumerate(cands):
            sb, bb, cb = int(cfg[1]), int(cfg[2]), int(cfg[3])
            f.write("Definition h%d : list hop := %s.\n" % (i, lst([hop(l) for l in body])))
            f.write("Eval vm_compute in (777%d, eval_history %d %d %d %d h%d).\n" % (i, (1 << bb) - 1, (1 << cb) - 1, (1 << cb) - 1, 1 << sb, i))
    rc, out = H.sh(["timeout", "600", "coqc", "-noglob", "-R", H.COQ, "BddV", "-o", os.path.join(wdir, "cases.vo"), vpath], cwd=wdir, timeout=700)
    if rc != 0:
        return {"checked": 0, "error": out[-400:]}
    flat = out.replace("\n", " ")
    res = {"checked": 0, "agree": 0}
    for i, (name, lines, body, cfg) in enumerate(cands):
        m = re.search(r"=\s*\(777%d,\s*\[(.*?)\]\)" % i, flat)
        if not m:
            continue
        coq = [int(x) for x in re.findall(r"\d+", m.group(1))]
        hp = H.write_hist(os.path.join(wdir, "cc-%d.hist" % i), lines)
        model = H.run_model(hp)
        ops = [l.split()[0] for l in body] + ["end"]
        dig = trace_digest(ops, model["lines"])
        res["checked"] += 1
        if coq == dig:
            res["agree"] += 1
            os.remove(hp)
        else:
            res["mismatch"] = hp
            res["detail"] = "coq=%s ocaml=%s" % (coq[:60], dig[:60])
    for ext in ("cases.vo", "cases.glob", ".cases.aux"):
        try:
            os.remove(os.path.join(wdir, ext))
        except OSError:
            pass
    return res


# ------------------------------------------------------------------------------------------------ stand-alone structures
def _standalone_case(lines):
    """(coq term, truncated history, digest function) for a table / cache / raw history, or None"""
    hdr = lines[0].split()
    body = [l for l in lines[1:] if l.strip() and not l.startswith("#")]
    if hdr[0] == "table":
        ops, keep = [], []
        for l in body:
            t = l.split()
            if t[0] == "put":
                ops.append("TbPut %s" % t[1])
            elif t[0] == "sweepv":
                ops.append("TbSweepV %s" % lst(t[2:2 + int(t[1])]))
            elif t[0] == "dump":
                continue
            else:
                break
            keep.append(l)
        term = "eval_table %s %s %s %s" % (hdr[1], hdr[2], hdr[3], lst(ops))

        def dig(trace):
            d = []
            for l in trace:
                t = l.split()
                if t[0] == "i":
                    d += [1] + [int(x) for x in t[1:5]]
                elif t[0] == "s":
                    d += [2] + [int(x) for x in t[1:4]]
                elif t[0] == "panic":
                    d += [98]
                    return d
                elif t[0] == "end":
                    d += [0]
            return d
        return term, [lines[0]] + keep, dig
    if hdr[0] == "cache":
        ops, keep = [], []
        for l in body:
            t = l.split()
            if t[0] == "ins":
                if int(t[2]) < 0:
                    break
                ops.append("CIns %s %s" % (t[1], t[2]))
            elif t[0] == "get":
                ops.append("CGet %s" % t[1])
            elif t[0] == "clear":
                ops.append("CClear")
            elif t[0] == "dump":
                continue
            else:
                break
            keep.append(l)
        term = "eval_cache %s %s %s" % (hdr[1], hdr[2], lst(ops))

        def dig(trace):
            d = []
            for l in trace:
                t = l.split()
                if t[0] == "i":
                    d += [1]
                elif t[0] == "g":
                    d += [2, 0 if t[1] == "none" else int(t[1]) + 1, int(t[2]), int(t[3]), int(t[4])]
                elif t[0] == "c":
                    d += [3]
                elif t[0] == "end":
                    d += [0]
            return d
        return term, [lines[0]] + keep, dig
    if hdr[0] == "raw":
        ops, keep = [], []
        for l in body:
            t = l.split()
            if t[0] == "ins":
                ops.append("RIns N N %s %s" % (t[1], t[2]))
            elif t[0] == "get":
                ops.append("RGet N N %s" % t[1])
            elif t[0] == "rem":
                ops.append("RRem N N %s" % t[1])
            elif t[0] == "clear":
                ops.append("RClear N N")
            else:
                break
            keep.append(l)
        term = "eval_raw %s %s" % (hdr[1], lst(ops))

        def dig(trace):
            d = []
            for l in trace:
                if l.startswith("op "):
                    continue
                if l == "end":
                    d += [0]
                    continue
                if l.startswith("panic"):
                    d += [99]
                    return d
                obs, st = l.split(" | ")
                o = obs.split()
                s3 = [int(x) for x in st.split()[:3]]
                if o[0] == "i":
                    d += [1, int(o[1])] + s3
                elif o[0] == "r":
                    d += [2, 0 if o[1] == "none" else int(o[1]) + 1] + s3
                elif o[0] == "g":
                    d += [3, 0 if o[1] == "none" else int(o[1]) + 1] + s3
                elif o[0] == "c":
                    d += [4] + s3
            return d
        return term, [lines[0]] + keep, dig
    return None


def cross_check_standalone(items, wdir, k):
    cands = []
    for (name, lines, meta) in items:
        if len(lines) > 400:
            continue
        c = _standalone_case(lines)
        if c is None or len(c[1]) < 6:
            continue
        cands.append((name,) + c)
        if len(cands) >= k:
            break
    if not cands:
        return {"checked": 0}
    vpath = os.path.join(wdir, "scases.v")
    with open(vpath, "w") as f:
        f.write("From Coq Require Import NArith List.\nRequire Import BddV.RawProto BddV.Standalone BddV.CoqEvalStandalone.\nImport ListNotations.\nLocal Open Scope N_scope.\n")
        for i, (name, term, hist, dig) in enumerate(cands):
            f.write("Eval vm_compute in (777%d, %s).\n" % (i, term))
    rc, out = H.sh(["timeout", "600", "coqc", "-noglob", "-R", H.COQ, "BddV", "-o", os.path.join(wdir, "scases.vo"), vpath], cwd=wdir, timeout=700)
    if rc != 0:
        return {"checked": 0, "error": out[-400:]}
    flat = out.replace("\n", " ")
    res = {"checked": 0, "agree": 0}
    for i, (name, term, hist, dig) in enumerate(cands):
        m = re.search(r"=\s*\(777%d,\s*\[(.*?)\]\)" % i, flat)
        if not m:
            continue
        coq = [int(x) for x in re.findall(r"\d+", m.group(1))]
        hp = H.write_hist(os.path.join(wdir, "scc-%d.hist" % i), hist)
        model = H.run_model(hp)
        d = dig(model["lines"])
        res["checked"] += 1
        if coq == d:
            res["agree"] += 1
            os.remove(hp)
        else:
            res["mismatch"] = hp
            res["detail"] = "coq=%s ocaml=%s" % (coq[:60], d[:60])
    for ext in ("scases.vo", "scases.glob", ".scases.aux"):
        try:
            os.remove(os.path.join(wdir, ext))
        except OSError:
            pass
    return res
