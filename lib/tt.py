"""Truth tables over n <= 6 variables as Python ints (bit a = value under assignment number a;
variable v (1-based) has the value of bit v-1 of a).  Used by the history generators to stratify arguments by
guard class and to know which registers a collection keeps."""


class Ctx:
    def __init__(self, n):
        assert 0 <= n <= 12
        self.n = n
        self.rows = 1 << n
        self.mask = (1 << self.rows) - 1
        self.one = self.mask
        self.vars = [None] + [self._var(v) for v in range(1, n + 1)]

    def _var(self, v):
        t = 0
        for a in range(self.rows):
            if (a >> (v - 1)) & 1:
                t |= 1 << a
        return t

    def var(self, v):
        return self.vars[v]

    def neg(self, f):
        return ~f & self.mask

    def ite(self, f, g, h):
        return ((f & g) | (~f & h)) & self.mask

    def cof(self, f, v, b):
        x = self.vars[v]
        sh = 1 << (v - 1)
        if b:
            hi = f & x
            return (hi | (hi >> sh)) & self.mask
        lo = f & ~x & self.mask
        return (lo | (lo << sh)) & self.mask

    def depends(self, f, v):
        return self.cof(f, v, False) != self.cof(f, v, True)

    def support(self, f):
        return [v for v in range(1, self.n + 1) if self.depends(f, v)]

    def top(self, f):
        s = self.support(f)
        return s[0] if s else 0

    def compose(self, f, v, g):
        return self.ite(g, self.cof(f, v, True), self.cof(f, v, False))

    def subfunctions(self, f):
        """all prefix cofactors of f, normalised modulo complement (= the nodes of the canonical diagram)"""
        norm = lambda t: min(t, self.neg(t))
        seen = {norm(f)}
        level = {f}
        for v in range(1, self.n + 1):
            nxt = set()
            for t in level:
                nxt.add(self.cof(t, v, False))
                nxt.add(self.cof(t, v, True))
            for t in nxt:
                seen.add(norm(t))
            level = nxt
        return seen

    def norm(self, t):
        return min(t, self.neg(t))

    # ---- generalised cofactor and Coudert-Madre restrict (same definitions as harness/impl/src/tt.rs)
    def closest(self, g, x):
        best = None
        for y in range(self.rows):
            if (g >> y) & 1:
                d = x ^ y
                w = 0
                for i in range(1, self.n + 1):
                    if (d >> (i - 1)) & 1:
                        w |= 1 << (self.n - i)
                if best is None or w < best[0]:
                    best = (w, y)
        return best[1]

    def constrain(self, f, g):
        if g == 0:
            return 0
        t = 0
        for x in range(self.rows):
            if (f >> self.closest(g, x)) & 1:
                t |= 1 << x
        return t

    def restrict(self, f, g):
        if g == 0:
            return 0
        return self._restrict(f, g, 1)

    def _restrict(self, f, g, v):
        if v > self.n or f == 0 or f == self.one:
            return f
        g0, g1 = self.cof(g, v, False), self.cof(g, v, True)
        f0, f1 = self.cof(f, v, False), self.cof(f, v, True)
        if g1 == 0:
            return self._restrict(f0, g0, v + 1)
        if g0 == 0:
            return self._restrict(f1, g1, v + 1)
        if f0 == f1:
            return self._restrict(f, g0 | g1, v + 1)
        return self.ite(self.var(v), self._restrict(f1, g1, v + 1), self._restrict(f0, g0, v + 1))
