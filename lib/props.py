"""Per-property configuration: which histories a check generates (quick / thorough), which oracle tags decide it,
what is compared with the model."""

import itertools
import random

import gen
from gen import BddGen, weights_for, random_cfg
from tt import Ctx

# histories per tier: (count, ops per history)
BUDGET = {
    "quick": {"n": 400, "ops": 100},
    "thorough": {"n": 4000, "ops": 160},
}


def _q(focus):
    return weights_for(focus)


FOCUS = {
    "C01": {},  # every construction route, uniformly
    "C02": {"ite": 5},
    "C03": {"bin": 4, "many": 5, "expr": 6, "not": 3},
    "C04": {"size": 5, "node": 3, "gc": 1.5, "dump": 8},
    "C05": {"gc": 5, "ite": 2, "dump": 4},
    "C06": {"gc": 6, "ite": 3, "dump": 4},
    "C07": {"gc": 2, "size": 4, "ite": 2, "constrain": 2, "restrict": 2, "dump": 6},
    "C08": {"subst": 6, "substm": 6, "cofcube": 6, "lowhigh": 6, "topcof": 6},
    "C09": {"compose": 10},
    "C10": {"constrain": 10, "cubeclause": 2},
    "C11": {"restrict": 10, "cubeclause": 2},
    "C12": {"itec": 10, "implies": 8, "ite": 2, "bin": 2},
    "C13": {"satcount": 12},
    "C14": {"onesat": 10, "paths": 10},
    "C15": {"node": 8, "cubeclause": 8, "var": 4, "const": 2},
    "C17": {"gc": 8, "dump": 12, "ite": 2, "node": 2, "cubeclause": 2},
    "C16": {"bracket": 8, "dot": 8, "size": 3, "desc": 4, "satcount": 2, "onesat": 2, "paths": 2, "itec": 2, "implies": 2},
}

# oracle tags that decide each property (a failure of an oracle carrying one of these tags is a violation of it)
TAGS = {p: {p} for p in FOCUS}

# properties whose correspondence also compares the allocation counters (real_size, high-water mark)
ALLOC = {"C06", "C17"}

TITLES = {
    "C01": "Canonical form: handle equality is exactly Boolean-function equality",
    "C02": "If-then-else computes (f AND g) OR (NOT f AND h) for every triple",
    "C03": "Connectives, n-ary folds and expression evaluation mean what they say",
    "C04": "Every diagram is a reduced, ordered, complement-edge BDD of minimal size",
    "C05": "Garbage collection never changes the meaning of anything reachable from roots",
    "C06": "Collection reclaims exactly the dead nodes and freed storage is reused",
    "C07": "Memoisation is invisible: results never depend on cache state or size",
    "C08": "Cofactor and substitution operations fix variables and nothing else",
    "C09": "Composition substitutes a function for a variable",
    "C10": "constrain is the generalized cofactor",
    "C11": "restrict simplifies f on a care set without adding variables",
    "C12": "Constant and implication tests decide correctly, always return, build nothing",
    "C13": "sat_count is the exact number of satisfying assignments",
    "C14": "one_sat and paths describe exactly the satisfying set",
    "C15": "Constructors build the function they name",
    "C16": "Exports are faithful and every query leaves the manager untouched",
    "C17": "The unique table is a sound hash-consing store under every put/collect history",
    "C18": "The operation cache never returns a value stored under a different key",
    "C19": "RawTable behaves as a hash map and stays memory-safe under every history",
    "C20": "eda: arena conversion preserves expressions; Signal encoding is lossless",
}


# source files each property is anchored in (properties.jsonl anchors + what the operation actually runs through)
ANCHORS = {
    "C01": ["src/bdd.rs", "src/table.rs", "src/node.rs", "src/reference.rs", "src/utils.rs"],
    "C02": ["src/bdd.rs", "src/cache.rs", "src/utils.rs", "src/table.rs"],
    "C03": ["src/bdd.rs", "src/eval.rs"],
    "C04": ["src/bdd.rs", "src/table.rs", "src/dot.rs"],
    "C05": ["src/bdd.rs", "src/table.rs", "src/cache.rs"],
    "C06": ["src/bdd.rs", "src/table.rs"],
    "C07": ["src/cache.rs", "src/bdd.rs", "src/utils.rs"],
    "C08": ["src/bdd.rs"], "C09": ["src/bdd.rs", "src/cache.rs"], "C10": ["src/bdd.rs"], "C11": ["src/bdd.rs", "src/utils.rs"], "C12": ["src/bdd.rs"],
    "C13": ["src/sat.rs"], "C14": ["src/sat.rs", "src/paths.rs"], "C15": ["src/bdd.rs"],
    "C16": ["src/dot.rs", "src/bdd.rs", "src/sat.rs", "src/paths.rs"],
    "C17": ["src/table.rs", "src/bdd.rs", "src/node.rs", "src/utils.rs"],
    "C18": ["src/cache.rs", "src/utils.rs"], "C19": ["src/raw.rs"],
    "C20": ["examples/eda/src/ast.rs", "examples/eda/src/signal.rs"],
}


def escalation(pid):
    """(factor, changed files): a larger budget when a source file the property is anchored in differs from the fingerprint"""
    import fingerprint
    ch = [f for f in fingerprint.changed_files() if f in ANCHORS.get(pid, [])]
    return (4 if ch else 1), ch


def bdd_histories(pid, tier, seed):
    """yields (name, lines, meta) for the generated stream of a Bdd-domain property"""
    b = BUDGET[tier]
    factor = escalation(pid)[0] if tier == "quick" else 1
    master = random.Random((seed * 1000003) ^ hash_pid(pid))
    for i in range(b["n"] * factor):
        hseed = master.randrange(1 << 48)
        rng = random.Random(hseed)
        nvars = rng.choice([3, 3, 4, 4, 5, 6]) if pid not in ("C13", "C14") else rng.choice([3, 4, 4, 5, 6])
        tiny = rng.random() < 0.8
        cfg = random_cfg(rng, tiny)
        family = "tiny" if tiny else "mid"
        extra = 1 if rng.random() < 0.2 else 0
        if i % 10 == 9:
            # "wide" family: many variables (beyond what the truth-table oracles can follow: the exact comparison with the
            # model is what checks these), large variable numbers, default-sized or large tables
            family = "wide"
            nvars = 6
            extra = rng.choice([4, 10, 25, 60])
            cfg = rng.choice(["default 12", "default 16", "default 17", "14 10 10", "16 16 12", "11 6 3"])
        if i % 10 == 4:
            # "deep" family: random functions over 8-10 variables (hundreds of nodes per diagram, handles in the hundreds and
            # thousands): the truth-table oracles are off (they follow 6 variables), pointwise oracles and the exact
            # comparison with the model take over
            family = "deep"
            nvars = rng.choice([8, 9, 10])
            cfg = rng.choice(["12 4 3", "13 6 6", "default 13", "14 8 2", "default 16"])
            extra = 0
        g = BddGen(rng, nvars, cfg, weights=_q(FOCUS[pid]), malformed=0.02 if i % 5 else 0.15, maxvar_extra=extra)
        if i % 20 == 13:
            # "long-gc" family: one collection of the history is repeated 2^8 or 2^16 times (+-1); small tables only (every
            # collection sweeps all buckets and clears the caches, in the crate and in the model)
            family = "tiny+longgc"
            cfg = "%d %d %d" % (rng.choice([4, 5, 6]), rng.choice([0, 1, 2]), rng.choice([0, 1, 2]))
            g = BddGen(rng, nvars, cfg, weights=_q(FOCUS[pid]), malformed=0.02, maxvar_extra=extra)
            g.gc_repeat = rng.choice([255, 256, 257, 65535, 65536, 65536, 65537])
        if family == "deep":
            for _ in range(4):
                g.op_randfun()
        if family == "wide":
            g.wide_preamble(extra)
        ops = b["ops"] if tiny else b["ops"] * 2
        lines = g.run(ops)
        if family == "wide":
            g.huge_vars_epilogue()
            lines = g.lines
        yield ("gen-%s-%d" % (pid, i), lines, {"seed": hseed, "nvars": nvars, "cfg": cfg, "family": family, "stats": dict(g.stats), "classes": dict(g.classes)})


SCALE_OPS = {
    "C01": ["and", "xor", "ite", "not"], "C02": ["ite", "ite", "ite"], "C03": ["and", "or", "xor", "eq", "imply", "andmany"],
    "C04": ["size", "and", "size"], "C05": ["gc", "and", "gc"], "C06": ["gc", "var", "gc"], "C07": ["ite", "gc", "ite", "size"],
    "C08": ["subst", "substm", "cofcube", "high", "low"], "C09": ["compose"], "C10": ["constrain"], "C11": ["restrict"],
    "C12": ["itec", "implies"], "C13": ["satcount"], "C14": ["onesat", "paths"], "C15": ["var", "node", "cube", "clause"],
    "C16": ["bracket", "dot", "size", "desc"], "C17": ["var", "gc", "var", "and"],
}


def scale_histories(pid, tier, seed):
    """Histories at a scale the extracted model cannot follow in reasonable time (its register file is a list): tens of
    thousands of nodes, handle numbers beyond 2^15 / 2^16, a hole followed by thousands of occupied cells.  They run on the
    crate only, with every oracle switched on, in the release AND the debug build (arithmetic overflow checks)."""
    rng = random.Random((seed * 7919) ^ hash_pid(pid) ^ 0x5CA1E)
    focus = SCALE_OPS.get(pid, ["and", "ite"])

    def ops_on(regs, lines, nreg, k):
        """k operations of the property's kinds on registers drawn from regs; returns the new register count"""
        for _ in range(k):
            op = rng.choice(focus + ["and", "ite"])
            a = lambda: ("~" if rng.random() < 0.4 else "") + str(rng.choice(regs))
            if op == "ite":
                lines.append("ite %s %s %s" % (a(), a(), a())); nreg += 1
            elif op in ("and", "or", "xor", "eq", "imply", "constrain", "restrict"):
                lines.append("%s %s %s" % (op, a(), a())); nreg += 1
            elif op == "not":
                lines.append("not %s" % a()); nreg += 1
            elif op == "andmany":
                lines.append("andmany 3 %s %s %s" % (a(), a(), a())); nreg += 1
            elif op in ("subst", "compose", "substm", "cofcube", "high", "low", "node", "cube", "clause", "var"):
                x = rng.choice(regs)
                v = max(1, x - 1)                      # register x holds variable x-1 in these histories
                if op == "subst":
                    lines.append("subst %s %d %d" % (a(), v, rng.randrange(2)))
                elif op == "compose":
                    lines.append("compose %s %d %s" % (a(), v, a()))
                elif op == "substm":
                    lines.append("substm %s 1 %d %d" % (a(), v, rng.randrange(2)))
                elif op == "cofcube":
                    lines.append("cofcube %s 1 %d" % (a(), v if rng.random() < 0.5 else -v))
                elif op in ("high", "low"):
                    lines.append("%s %s" % (op, a()))
                elif op == "node":
                    lines.append("node 1 %s %s" % (rng.choice(regs), rng.choice(regs)))
                elif op in ("cube", "clause"):
                    vs = sorted(rng.sample(range(1, 60000), 3))
                    lines.append("%s 3 %s" % (op, " ".join(str(w if rng.random() < 0.5 else -w) for w in vs)))
                else:
                    lines.append("var %d" % rng.randrange(70000, 90000))
                nreg += 1
            elif op in ("size", "onesat", "paths", "bracket"):
                lines.append("%s %s" % (op, a()))
            elif op == "itec":
                lines.append("itec %s %s %s" % (a(), a(), a()))
            elif op == "implies":
                lines.append("implies %s %s" % (a(), a()))
            elif op == "satcount":
                lines.append("satcount %s %d" % (a(), rng.choice([70000, 100000])))
            elif op in ("desc", "dot"):
                lines.append("%s 2 %s %s" % (op, a(), a()))
            elif op == "gc":
                rs = sorted(set(rng.sample(regs, min(len(regs), 4))))
                lines.append("gc %d %s" % (len(rs), " ".join(map(str, rs))))
                regs[:] = rs
            if lines[-1].split()[0] not in ("size", "onesat", "paths", "bracket", "itec", "implies", "satcount", "desc", "dot", "gc"):
                regs.append(nreg - 1)
        return nreg

    # (1) handle numbers beyond 2^15: N variables (one node each, register v+1 holds variable v), then operations whose
    #     arguments are the most recent ones (nodes with child references >= 2^16)
    for N in ([33000 + rng.randrange(50)] if tier == "quick" else [33000 + rng.randrange(50), 40000, 66000]):
        lines = ["cfg 18 12 10", "nvars 1", "const 1", "const 0"] + ["var %d" % v for v in range(1, N + 1)]
        regs = list(range(N - 30, N + 2))
        nreg = ops_on(regs, lines, N + 2, 40)
        yield ("scale-bigidx-%d" % N, lines, {"kind": "scale", "family": "scale", "classes": {"scale:handles>=2^15": 1}, "timeout": 60})
    # (2) a collection exactly when the high-water mark is 2^16 or a multiple of 64 just above it, the top cell alive
    for top in (65536, 65600):
        N = top - 1
        lines = ["cfg 18 12 10", "nvars 1", "const 1", "const 0"] + ["var %d" % v for v in range(1, N + 1)]
        lines.append("gc 3 %d %d %d" % (N + 1, N, 7))
        regs = [N + 1, N, 7]
        nreg = ops_on(regs, lines, N + 2, 25)
        yield ("scale-gc-at-%d" % top, lines, {"kind": "scale", "family": "scale", "classes": {"scale:gc-at-2^16": 1}, "timeout": 60})
    # (4) two nodes whose indices differ by exactly 2^15 / 2^16 used together in one call (a key that keeps 16 bits of an index, or
    #     shifts by 16 where 32 is needed, confuses them); truth tables over x1..x4 are known to the runner (nvars 4)
    for dist in (32768, 65536):
        lines = ["cfg 18 12 10", "nvars 4", "const 1", "const 0", "var 1", "var 2", "var 3", "var 4"]   # regs 2..5 = x1..x4, indices 2..5
        # A candidates: x2 (index 3), x3 (index 4); pad with fresh variables so that the next new node sits at index(A) + dist
        for (areg, aidx, mk) in ((3, 3, "and 3 5"), (4, 4, "or 4 5")):
            pass
        nreg = 6
        last = 5                                  # last_index after the preamble
        # B1 = x2 & x4 must land at 3 + dist: pad (3 + dist - 1 - last) nodes
        pad = 3 + dist - 1 - last
        lines += ["var %d" % (1000 + i) for i in range(pad)]
        nreg += pad
        lines.append("and 3 5"); b1 = nreg; nreg += 1          # index 3 + dist
        lines.append("or 4 5"); b2 = nreg; nreg += 1           # index 4 + dist (x3 | x4: one new node)
        lines.append("ite 2 %d 3" % b1); g1 = nreg; nreg += 1  # g1 = x1 ? (x2 & x4) : x2   (cofactors at distance dist)
        lines.append("ite 2 %d 4" % b2); g2 = nreg; nreg += 1
        lines.append("xor 2 4"); f1 = nreg; nreg += 1           # x1 xor x3
        lines.append("xor 2 3"); f2 = nreg; nreg += 1
        regs = [2, 3, 4, 5, b1, b2, g1, g2, f1, f2]
        for (f, v, g) in ((f1, 3, g1), (f2, 2, g1), (f1, 3, g2), (f2, 3, g2), (f1, 1, g1)):
            lines.append("compose %d %d %d" % (f, v, g)); nreg += 1
            lines.append("compose ~%d %d ~%d" % (f, v, g)); nreg += 1
        for a in (b1, 3, g1, f1):
            for b in (3, b1, b2, 4, g2):
                for op in ("constrain", "restrict", "and", "xor"):
                    lines.append("%s %d %d" % (op, a, b)); nreg += 1
        lines.append("ite %d %d %d" % (f1, b1, 3)); nreg += 1
        lines.append("ite %d %d %d" % (g1, 3, b1)); nreg += 1
        lines.append("itec %d %d %d" % (f1, b1, 3))
        lines.append("implies %d %d" % (b1, 3))
        lines.append("substm %d 2 2 1 4 0" % g1); nreg += 1
        lines.append("size %d" % g1)
        nreg = ops_on(regs, lines, nreg, 20)
        yield ("scale-distance-%d" % dist, lines, {"kind": "scale", "family": "scale", "classes": {"scale:index-distance-2^%d" % (15 if dist == 32768 else 16): 1}, "timeout": 60})
    # (5) one diagram with more than 2^17 nodes (OR of x_i & y_i under the order x1..xn, y1..yn), then the queries: they must
    #     neither create nor remove a node at any size
    if pid in ("C12", "C16", "C04", "C13", "C14", "C03", "C02"):
        n = 17 if tier == "quick" else 18
        lines = ["cfg 20 14 12", "nvars 1", "const 1", "const 0"] + ["var %d" % v for v in range(1, 2 * n + 1)]      # reg v+1 = variable v
        nreg = 2 * n + 2
        terms = []
        for i in range(1, n + 1):
            lines.append("and %d %d" % (i + 1, n + i + 1)); terms.append(nreg); nreg += 1
        acc = terms[0]
        for tm in terms[1:]:
            lines.append("or %d %d" % (acc, tm)); acc = nreg; nreg += 1
        big = acc
        lines += ["implies %d %d" % (big, terms[0]), "implies %d %d" % (terms[0], big), "implies ~%d %d" % (big, 2),
                  "itec %d %d %d" % (big, terms[1], 1), "itec %d 1 %d" % (2, big), "size %d" % big, "size ~%d" % big,
                  "satcount %d %d" % (big, 2 * n), "onesat %d" % big, "onesat ~%d" % big, "desc 1 %d" % big]
        lines.append("and %d %d" % (big, 2)); nreg += 1
        lines.append("implies %d %d" % (nreg - 1, big))
        yield ("scale-huge-diagram", lines, {"kind": "scale", "family": "scale", "classes": {"scale:diagram>=2^17": 1}, "timeout": 120})
    # (6) handle numbers beyond 2^20 (the size of the default table) in a 2^21-cell manager: back-to-back calls that differ in
    #     one sign or one argument only (a key that packs three handles into one machine word confuses them)
    if pid in ("C01", "C02", "C03", "C07", "C17"):
        N = (1 << 20) + 5 + rng.randrange(20)
        lines = ["cfg 21 14 12", "nvars 1", "const 1", "const 0"] + ["var %d" % v for v in range(1, N + 1)]
        top = N + 1                                   # register of the last variable (node index N + 1 > 2^20)
        nreg = N + 2
        for (a, b, c) in ((2, 3, top), (2, top, 3), (top, 2, 3), (top - 1, top, 4), (3, top - 2, top)):
            for (sa, sb, sc) in (("", "", ""), ("", "~", ""), ("", "", "~"), ("~", "", ""), ("", "~", "~")):
                lines.append("ite %s%d %s%d %s%d" % (sa, a, sb, b, sc, c)); nreg += 1
        for op in ("and", "xor", "or"):
            lines.append("%s %d %d" % (op, 2, top)); nreg += 1
            lines.append("%s %d ~%d" % (op, 2, top)); nreg += 1
            lines.append("%s ~%d %d" % (op, 2, top)); nreg += 1
        lines.append("gc 3 %d %d %d" % (top, 2, 3))
        lines.append("ite 2 3 %d" % top); nreg += 1
        lines.append("ite 2 ~3 %d" % top); nreg += 1
        yield ("scale-bigidx-2^20", lines, {"kind": "scale", "family": "scale", "classes": {"scale:handles>=2^20": 1}, "timeout": 240})
    # (3) one hole followed by thousands of occupied cells, then new nodes
    for M in (4500, 9000):
        hole = rng.randrange(3, 40)
        lines = ["cfg 15 8 8", "nvars 1", "const 1", "const 0"] + ["var %d" % v for v in range(1, M + 1)]
        roots = [k for k in range(2, M + 2) if k != hole]
        lines.append("gc %d %s" % (len(roots), " ".join(map(str, roots))))
        lines += ["var %d" % (M + 10), "var %d" % (M + 11), "var %d" % (M + 12)]
        regs = [M + 2, M + 3, M + 4, M + 1, M, 3 if hole != 3 else 4]
        nreg = ops_on(regs, lines, M + 5, 25)
        yield ("scale-hole-%d" % M, lines, {"kind": "scale", "family": "scale", "classes": {"scale:hole-then-run": 1}, "timeout": 60})


def hash_pid(pid):
    return sum(ord(c) * (i + 7) for i, c in enumerate(pid)) * 2654435761 % (1 << 32)


# ------------------------------------------------------------------------------------------------ structured streams
def all_functions_preamble(nvars=3, cfg="9 3 3"):
    """history prefix that builds every function over nvars variables bottom-up with `node`; returns (lines, reg_of_tt)"""
    c = Ctx(nvars)
    lines = ["cfg " + cfg, "nvars %d" % nvars, "const 1", "const 0"]
    reg = {c.one: 0, 0: 1}
    nreg = 2
    level = [c.one, 0]          # functions over variables > v
    for v in range(nvars, 0, -1):
        new = list(level)
        x = c.var(v)
        for lo in level:
            for hi in level:
                t = c.ite(x, hi, lo)
                if t not in reg:
                    lines.append("node %d %d %d" % (v, reg[lo], reg[hi]))
                    reg[t] = nreg
                    nreg += 1
                    new.append(t)
        level = new
    return lines, reg, nreg, c


def exhaustive_ite(seed, sample=None):
    """all (or a seeded sample of) ite triples over the 256 functions of 3 variables, in chunks"""
    lines0, reg, nreg, c = all_functions_preamble(3, "12 5 4")
    fs = sorted(reg.keys())
    rng = random.Random(seed)
    triples = itertools.product(fs, fs, fs)
    if sample is not None:
        triples = [(rng.choice(fs), rng.choice(fs), rng.choice(fs)) for _ in range(sample)]
    chunk = []
    k = 0
    for (f, g, h) in triples:
        chunk.append("ite %d %d %d" % (reg[f], reg[g], reg[h]))
        if len(chunk) == 4000:
            yield ("ite3-%d" % k, lines0 + chunk, {"kind": "all-3var-triples"})
            chunk = []
            k += 1
    if chunk:
        yield ("ite3-%d" % k, lines0 + chunk, {"kind": "all-3var-triples"})


def pairs3(pid, seed, sample=None):
    """binary operations over all pairs of 3-variable functions"""
    lines0, reg, nreg, c = all_functions_preamble(3, "12 5 4")
    fs = sorted(reg.keys())
    rng = random.Random(seed)
    pairs = list(itertools.product(fs, fs))
    if sample is not None:
        pairs = [(rng.choice(fs), rng.choice(fs)) for _ in range(sample)]
    ops = {"C03": ["and", "or", "xor", "eq", "imply"], "C10": ["constrain"], "C11": ["restrict"], "C12": ["implies"],
           "C09": ["compose"]}[pid]
    chunk, k = [], 0
    for (f, g) in pairs:
        for op in ops:
            if op == "compose":
                for v in (1, 2, 3):
                    chunk.append("compose %d %d %d" % (reg[f], v, reg[g]))
            else:
                chunk.append("%s %d %d" % (op, reg[f], reg[g]))
        if len(chunk) >= 4000:
            yield ("pairs3-%s-%d" % (pid, k), lines0 + chunk, {"kind": "all-3var-pairs"})
            chunk, k = [], k + 1
    if chunk:
        yield ("pairs3-%s-%d" % (pid, k), lines0 + chunk, {"kind": "all-3var-pairs"})


def unary3(pid):
    """per-function queries / unary operations over all 256 functions of 3 variables (and the 4-variable sample)"""
    lines0, reg, nreg, c = all_functions_preamble(3, "12 5 4")
    fs = sorted(reg.keys())
    chunk = []
    for f in fs:
        r = reg[f]
        for a in (str(r), "~%d" % r):
            if pid == "C13":
                for n in (3, 4, 7, 64, 70):
                    chunk.append("satcount %s %d" % (a, n))
            elif pid == "C14":
                chunk.append("onesat %s" % a)
                chunk.append("paths %s" % a)
            elif pid == "C16":
                chunk.append("bracket %s" % a)
                chunk.append("dot 2 %s %d" % (a, reg[fs[(fs.index(f) * 7 + 3) % len(fs)]]))
                chunk.append("size %s" % a)
            elif pid == "C04":
                chunk.append("size %s" % a)
            elif pid == "C08":
                for v in (1, 2, 3, 4):
                    for b in (0, 1):
                        chunk.append("subst %s %d %d" % (a, v, b))
                        chunk.append("substm %s 1 %d %d" % (a, v, b))
                        chunk.append("cofcube %s 1 %d" % (a, v if b else -v))
                chunk.append("low %s" % a)
                chunk.append("high %s" % a)
                chunk.append("topcof0 %s 1" % a)
                chunk.append("topcof1 %s 1" % a)
    yield ("unary3-%s" % pid, lines0 + chunk, {"kind": "all-3var-functions"})


def structured(pid, tier, seed):
    quick = tier == "quick"
    if pid == "C02":
        yield from exhaustive_ite(seed, sample=12000 if quick else None)
    elif pid in ("C03", "C10", "C11", "C09"):
        yield from pairs3(pid, seed, sample=(3000 if pid != "C09" else 2000) if quick else None)
    elif pid == "C12":
        yield from pairs3(pid, seed, sample=4000 if quick else None)
        # itec over triples
        lines0, reg, nreg, c = all_functions_preamble(3, "12 5 4")
        fs = sorted(reg.keys())
        rng = random.Random(seed + 5)
        n = 12000 if quick else 400000
        chunk, k = [], 0
        for _ in range(n):
            f, g, h = rng.choice(fs), rng.choice(fs), rng.choice(fs)
            x = rng.random()
            if x < 0.2:
                h = c.one
            elif x < 0.4:
                h = 0
            elif x < 0.5:
                g, h = 0, f
            elif x < 0.6:
                h = c.neg(g)
            chunk.append("itec %d %d %d" % (reg[f], reg[g], reg[h]))
            if rng.random() < 0.3:
                # cache the instance through the operation that computes it, then ask again
                if h == 0 and rng.random() < 0.7:
                    chunk.append("and %d %d" % (reg[f], reg[g]))
                elif h == c.one and rng.random() < 0.7:
                    chunk.append("imply %d %d" % (reg[f], reg[g]))
                else:
                    chunk.append("ite %d %d %d" % (reg[f], reg[g], reg[h]))
                chunk.append("itec %d %d %d" % (reg[f], reg[g], reg[h]))
                if h == c.one:
                    chunk.append("implies %d %d" % (reg[f], reg[g]))
            if len(chunk) >= 4000:
                yield ("itec3-%d" % k, lines0 + chunk, {"kind": "3var-itec"})
                chunk, k = [], k + 1
        if chunk:
            yield ("itec3-%d" % k, lines0 + chunk, {"kind": "3var-itec"})
    elif pid in ("C13", "C14", "C16", "C04", "C08"):
        yield from unary3(pid)
    elif pid == "C01":
        # every function by several routes; the impl-side oracle checks that equal meanings get equal handles
        lines0, reg, nreg, c = all_functions_preamble(3, "12 5 4")
        fs = sorted(reg.keys())
        rng = random.Random(seed + 11)
        chunk = []
        for f in fs[:: (4 if quick else 1)]:
            # route 2: Shannon expansion through ite on x1
            f0, f1 = c.cof(f, 1, False), c.cof(f, 1, True)
            chunk.append("ite 2 %d %d" % (reg[f1], reg[f0]) if False else "ite %d %d %d" % (reg[c.var(1)], reg[f1], reg[f0]))
            # route 3: sum of minterm cubes
            terms = []
            for a in range(8):
                if (f >> a) & 1:
                    lits = [(v if (a >> (v - 1)) & 1 else -v) for v in (1, 2, 3)]
                    rng.shuffle(lits)
                    chunk.append("cube 3 %s" % " ".join(map(str, lits)))
                    terms.append(nreg + len(chunk) - 1)
            chunk.append("ormany %d %s" % (len(terms), " ".join(map(str, terms))))
            # route 4: complement of the complement's construction
            chunk.append("not ~%d" % reg[f])
        yield ("routes3", lines0 + chunk, {"kind": "all-3var-functions-by-routes"})
    elif pid == "C15":
        # all literal sets over 3 variables in all listing orders
        lines = ["cfg 10 3 3", "nvars 4", "const 1", "const 0"]
        for k in range(0, 4):
            for vs in itertools.combinations(range(1, 5), k):
                for signs in itertools.product([1, -1], repeat=k):
                    lits = [v * s for v, s in zip(vs, signs)]
                    perms = list(itertools.permutations(lits))
                    for p in (perms if not quick else perms[:3]):
                        lines.append("cube %d %s" % (k, " ".join(map(str, p))))
                        lines.append("clause %d %s" % (k, " ".join(map(str, p))))
        yield ("literal-sets", [l.rstrip() for l in lines], {"kind": "all-literal-sets"})
