#!/usr/bin/env python3
"""tools/seedtest.py <seed-dir> [check ids...]
Confirms a seeded change (patch.diff + seed_demo.rs + meta.json) in a scratch worktree of /repo (the 70 tests pass with it, the
demonstration fails with it and passes without it), then applies it to /repo, runs the given checks (default: the property it
breaks), and undoes it.  Prints a JSON summary."""
import json, os, subprocess, sys, shutil, time

def sh(cmd, cwd=None, timeout=1800):
    env = dict(os.environ, CARGO_NET_OFFLINE="true")
    if cwd and cwd.startswith("/tmp/vt_work"):
        env["CARGO_TARGET_DIR"] = "/tmp/vt_target"       # scratch worktrees share one build directory (same path every time)
    p = subprocess.run(cmd, cwd=cwd, shell=True, stdout=subprocess.PIPE, stderr=subprocess.STDOUT, text=True, timeout=timeout, env=env)
    return p.returncode, p.stdout

def main():
    sd = os.path.abspath(sys.argv[1])
    meta = json.load(open(os.path.join(sd, "meta.json")))
    pid = meta["property"]
    checks = sys.argv[2:] or [pid]
    patch = os.path.join(sd, "patch.diff")
    demo = os.path.join(sd, "seed_demo.rs")
    demo_rel = meta.get("demo_path_in_repo", "tests/seed_demo.rs")
    res = {"property": pid, "seed": sd}
    confirm = os.environ.get("SEED_CONFIRM", "1") == "1"
    if confirm:
        wt = "/tmp/vt_work"
        sh("git -C /repo worktree remove --force %s" % wt)
        sh("git -C /repo worktree add -q --detach %s HEAD" % wt)
        try:
            shutil.copy("/repo/Cargo.lock", wt)
            os.makedirs(os.path.dirname(os.path.join(wt, demo_rel)), exist_ok=True)
            shutil.copy(demo, os.path.join(wt, demo_rel))
            pkg = "-p eda" if demo_rel.startswith("examples/eda") else "-p bdd-rs"
            rc, out = sh("cargo test --offline %s --test seed_demo 2>&1 | tail -5" % pkg, cwd=wt)
            res["demo_without_change"] = "pass" if "test result: ok" in out else "FAIL: " + out[-300:]
            rc, out = sh("git apply %s" % patch, cwd=wt)
            res["patch_applies"] = rc == 0
            rc, out = sh("cargo test --workspace --offline --lib 2>&1 | grep -E '^test result|FAILED|panicked' | head", cwd=wt)
            import re
            passed = sum(int(x) for x in re.findall(r"test result: ok\. (\d+) passed", out))
            res["suite_with_change"] = "%d passed; %s" % (passed, "no failures" if "FAILED" not in out else "FAILURES")
            rc, out = sh("timeout 120 cargo test --offline %s --test seed_demo 2>&1 | tail -8" % pkg, cwd=wt)
            res["demo_with_change"] = "fails" if ("test result: FAILED" in out or rc != 0 or "panicked" in out) and "test result: ok" not in out else "PASSES(!): " + out[-200:]
        finally:
            sh("git -C /repo worktree remove --force %s" % wt)
    if os.environ.get("SEED_NOCHECK") == "1":
        print(json.dumps(res, indent=1))
        return
    # run our checks against it
    rc, out = sh("git -C /repo status --short")
    assert out.strip() == "", "repo not clean: " + out
    rc, out = sh("git -C /repo apply %s" % patch)
    assert rc == 0, out
    # evidence/ must only ever hold runs against the unchanged tree: keep it aside while the patched tree is checked
    bak = "/tmp/vt_evidence_backup"
    shutil.rmtree(bak, ignore_errors=True)
    shutil.copytree("/verif/evidence", bak)
    try:
        res["checks"] = {}
        for c in checks:
            t0 = time.time()
            rc, out = sh("./check %s --tier quick" % c, cwd="/verif", timeout=3600)
            v = [l for l in out.splitlines() if l.startswith("VIOLATION")]
            first = [l for l in out.splitlines() if l.startswith("  ")][:1]
            res["checks"][c] = {"exit": rc, "violations": v[:3], "first": first, "s": round(time.time() - t0, 1)}
    finally:
        sh("git -C /repo checkout -- .")
        shutil.rmtree("/verif/evidence", ignore_errors=True)
        shutil.copytree(bak, "/verif/evidence")
        shutil.rmtree(bak, ignore_errors=True)
    print(json.dumps(res, indent=1))

main()
