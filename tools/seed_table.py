#!/usr/bin/env python3
"""prints the markdown table of seeded changes (DESIGN.md section 10) from seeded/*/meta.json"""
import glob, json, os
rows = []
for d in sorted(glob.glob("/verif/seeded/*/")):
    m = json.load(open(os.path.join(d, "meta.json")))
    name = os.path.basename(d.rstrip("/"))
    checks = m.get("checks_run_against_it", {})
    caught = "; ".join("%s: %s%s (%ss)" % (c, "caught" if v["exit"] == 1 else "MISSED", " [no-failing-input-found]" if v.get("first_violation") and "no-failing-input-found" in v["first_violation"] else "", v["seconds"]) for c, v in checks.items())
    msg = ""
    for c, v in checks.items():
        if v.get("first_message"):
            msg = v["first_message"].strip()[:140]
            break
    rows.append("| %s | %s | %s | %s | %s | `%s` |" % (name, m["property"], (m.get("summary") or "").replace("|", "/")[:260], (m.get("needs") or "").replace("|", "/")[:260], caught, msg.replace("|", "/").replace("`", "'")))
print("| seeded change | property | what it does | what it needs to manifest | checks run (quick tier) | first message |")
print("|---|---|---|---|---|---|")
print("\n".join(rows))
