#!/bin/bash
# tools/harmless_test.sh [checks...]: applies each behaviour-preserving change of /verif/harmless to /repo, runs the given checks
# (default: all 20) and reports any alarm. None of these changes breaks a property, so every alarm is a false one.
cd /verif
checks="${@:-C01 C02 C03 C04 C05 C06 C07 C08 C09 C10 C11 C12 C13 C14 C15 C16 C17 C18 C19 C20}"
for d in harmless/*.diff; do
  git -C /repo apply "$PWD/$d" || { echo "cannot apply $d"; continue; }
  for p in $checks; do
    out=$(./check $p --tier quick 2>&1)
    if echo "$out" | grep -q VIOLATION; then echo "ALARM $(basename $d) $p: $(echo "$out" | grep -E 'VIOLATION|^  ' | head -2 | tr '\n' ' ' | cut -c1-300)"; fi
  done
  git -C /repo checkout -- .
  echo "done $(basename $d)"
done
