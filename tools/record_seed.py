#!/usr/bin/env python3
"""tools/record_seed.py <tmp seed dir> <name>: copy a confirmed seeded change into /verif/seeded/<name>/ with the results of
tools/seedtest.py (result.json in the seed dir) merged into meta.json."""
import json, os, shutil, sys
src, name = sys.argv[1], sys.argv[2]
dst = os.path.join("/verif/seeded", name)
os.makedirs(dst, exist_ok=True)
shutil.copy(os.path.join(src, "patch.diff"), dst)
shutil.copy(os.path.join(src, "seed_demo.rs"), dst)
meta = json.load(open(os.path.join(src, "meta.json")))
res = json.load(open(os.path.join(src, "result.json")))
out = {
    "property": meta["property"],
    "summary": meta.get("summary"),
    "needs": meta.get("needs"),
    "demo_path_in_repo": meta.get("demo_path_in_repo", "tests/seed_demo.rs"),
    "origin": "written by an independent sub-agent that saw only the property text and its own worktree of /repo",
    "confirmed_in_scratch_worktree": {
        "demo_on_unchanged_source": res.get("demo_without_change"),
        "existing_suite_with_change": res.get("suite_with_change"),
        "demo_with_change": res.get("demo_with_change"),
        "how": "tools/seedtest.py: git worktree add /tmp/vt_*, copy demo, cargo test --test seed_demo, git apply patch.diff, cargo test --workspace --offline --lib, cargo test --test seed_demo, worktree removed",
    },
    "checks_run_against_it": {k: {"exit": v["exit"], "seconds": v["s"], "first_violation": (v["violations"] or [None])[0], "first_message": (v["first"] or [None])[0]} for k, v in res.get("checks", {}).items()},
}
json.dump(out, open(os.path.join(dst, "meta.json"), "w"), indent=1)
print("recorded", dst)
