#!/bin/bash
# MANIFEST.setup_cmd: build the framework from files on disk only (offline).
set -e
cd "$(dirname "$0")"
export CARGO_NET_OFFLINE=true
# 1. the Coq development: clean full .vo build (never -vos), 16 jobs
(cd coq && ./regen.sh && timeout 3000 make -j16 > ../work_setup_coq.log 2>&1) || { tail -30 work_setup_coq.log; exit 1; }
rm -f work_setup_coq.log
# 2. the extracted model + OCaml driver, and the runner crate against /repo's working tree
python3 - <<'PY'
import sys
sys.path.insert(0, "lib")
import harness as H
ok, log = H.build_model()
print("model:", ok)
if not ok:
    print(log[-3000:]); sys.exit(1)
ok, log = H.build_impl(("release", "debug"))
print("runner:", ok)
if not ok:
    print(log[-3000:]); sys.exit(1)
PY
