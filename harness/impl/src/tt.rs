//! Independent truth-table reference semantics (at most 6 variables, one u64 per function).
//! Assignment number `a` gives variable `v` (1-based) the value of bit `v-1` of `a`.
//! Nothing here looks at the crate: these are the executable forms of the property statements.

pub type TT = u64;

#[derive(Clone, Copy)]
pub struct Ctx {
    pub n: u32,
}

impl Ctx {
    pub fn new(n: u32) -> Self {
        assert!(n <= 6);
        Ctx { n }
    }
    pub fn rows(&self) -> u32 {
        1u32 << self.n
    }
    pub fn mask(&self) -> TT {
        if self.n == 6 {
            u64::MAX
        } else {
            (1u64 << (1u32 << self.n)) - 1
        }
    }
    pub fn one(&self) -> TT {
        self.mask()
    }
    pub fn not(&self, f: TT) -> TT {
        !f & self.mask()
    }
    pub fn var(&self, v: u32) -> TT {
        let mut t = 0u64;
        for a in 0..self.rows() {
            if (a >> (v - 1)) & 1 == 1 {
                t |= 1u64 << a;
            }
        }
        t
    }
    pub fn get(&self, f: TT, a: u32) -> bool {
        (f >> a) & 1 == 1
    }
    pub fn ite(&self, f: TT, g: TT, h: TT) -> TT {
        ((f & g) | (!f & h)) & self.mask()
    }
    /// f with variable v fixed to b
    pub fn cof(&self, f: TT, v: u32, b: bool) -> TT {
        let mut t = 0u64;
        let bit = 1u32 << (v - 1);
        for a in 0..self.rows() {
            let a2 = if b { a | bit } else { a & !bit };
            if self.get(f, a2) {
                t |= 1u64 << a;
            }
        }
        t
    }
    pub fn depends(&self, f: TT, v: u32) -> bool {
        self.cof(f, v, false) != self.cof(f, v, true)
    }
    pub fn support(&self, f: TT) -> Vec<u32> {
        (1..=self.n).filter(|&v| self.depends(f, v)).collect()
    }
    /// f with variable v replaced by the function g
    pub fn compose(&self, f: TT, v: u32, g: TT) -> TT {
        let mut t = 0u64;
        let bit = 1u32 << (v - 1);
        for a in 0..self.rows() {
            let a2 = if self.get(g, a) { a | bit } else { a & !bit };
            if self.get(f, a2) {
                t |= 1u64 << a;
            }
        }
        t
    }
    /// The point of g closest to x, differences in earlier variables weighing more (g must be satisfiable).
    pub fn closest(&self, g: TT, x: u32) -> u32 {
        let mut best: Option<(u32, u32)> = None;
        for y in 0..self.rows() {
            if self.get(g, y) {
                // weight of the difference: variable i (1-based) weighs 2^(n-i)
                let d = x ^ y;
                let mut w = 0u32;
                for i in 1..=self.n {
                    if (d >> (i - 1)) & 1 == 1 {
                        w |= 1 << (self.n - i);
                    }
                }
                if best.map_or(true, |(bw, _)| w < bw) {
                    best = Some((w, y));
                }
            }
        }
        best.unwrap().1
    }
    /// Generalised cofactor by its definition: x -> f(closest point of g to x); false when g = false.
    pub fn constrain(&self, f: TT, g: TT) -> TT {
        if g == 0 {
            return 0;
        }
        let mut t = 0u64;
        for x in 0..self.rows() {
            if self.get(f, self.closest(g, x)) {
                t |= 1u64 << x;
            }
        }
        t
    }
    /// Coudert-Madre restrict, shortcut-free, on truth tables.
    pub fn restrict(&self, f: TT, g: TT) -> TT {
        if g == 0 {
            return 0;
        }
        self.restrict_rec(f, g, 1)
    }
    fn restrict_rec(&self, f: TT, g: TT, v: u32) -> TT {
        if v > self.n {
            return f;
        }
        if f == 0 || f == self.one() {
            return f;
        }
        let (g0, g1) = (self.cof(g, v, false), self.cof(g, v, true));
        let (f0, f1) = (self.cof(f, v, false), self.cof(f, v, true));
        if g1 == 0 {
            return self.restrict_rec(f0, g0, v + 1);
        }
        if g0 == 0 {
            return self.restrict_rec(f1, g1, v + 1);
        }
        if f0 == f1 {
            return self.restrict_rec(f, g0 | g1, v + 1);
        }
        let x = self.var(v);
        let r0 = self.restrict_rec(f0, g0, v + 1);
        let r1 = self.restrict_rec(f1, g1, v + 1);
        self.ite(x, r1, r0)
    }
    pub fn lit(&self, l: i32) -> TT {
        let x = self.var(l.unsigned_abs());
        if l > 0 {
            x
        } else {
            self.not(x)
        }
    }
    pub fn cube(&self, lits: &[i32]) -> TT {
        lits.iter().fold(self.one(), |acc, &l| acc & self.lit(l))
    }
    pub fn clause(&self, lits: &[i32]) -> TT {
        lits.iter().fold(0, |acc, &l| acc | self.lit(l))
    }
    /// Number of distinct sub-functions (cofactors by assignments to a prefix of the variable order),
    /// modulo complement, constants counted once: the node count of the canonical diagram, terminal included.
    pub fn canonical_size(&self, f: TT) -> u64 {
        use std::collections::HashSet;
        let norm = |t: TT| -> TT { std::cmp::min(t, self.not(t)) };
        let mut seen: HashSet<TT> = HashSet::new();
        let mut level: Vec<TT> = vec![f];
        seen.insert(norm(f));
        for v in 1..=self.n {
            let mut next: Vec<TT> = Vec::new();
            for &t in &level {
                for b in [false, true] {
                    let c = self.cof(t, v, b);
                    if !next.contains(&c) {
                        next.push(c);
                    }
                    seen.insert(norm(c));
                }
            }
            level = next;
        }
        seen.len() as u64
    }
}
