//! Correspondence runner: executes a history file on the real crate (built from /repo's working tree with the
//! `verif-hooks` feature) and prints one observation line per history line.
//!
//! usage: runner [--oracle] [--nvars N] <history-file>
//! The first non-comment line selects the domain: `cfg` (Bdd manager), `table`, `cache`, `raw`, `eda`.

mod bddrun;
mod export;
mod standalone;
mod tt;

use std::io::{BufWriter, Write};

/// Flushes after every line: if the crate aborts (stack overflow on a cyclic diagram) the trace so far survives.
struct LineFlush<W: Write>(W);
impl<W: Write> Write for LineFlush<W> {
    fn write(&mut self, buf: &[u8]) -> std::io::Result<usize> {
        let n = self.0.write(buf)?;
        if buf.contains(&b'\n') {
            self.0.flush()?;
        }
        Ok(n)
    }
    fn flush(&mut self) -> std::io::Result<()> {
        self.0.flush()
    }
}

fn main() {
    let mut oracle = false;
    let mut nvars = 4u32;
    let mut file = None;
    let mut args = std::env::args().skip(1);
    while let Some(a) = args.next() {
        match a.as_str() {
            "--oracle" => oracle = true,
            "--nvars" => nvars = args.next().unwrap().parse().unwrap(),
            _ => file = Some(a),
        }
    }
    let text = std::fs::read_to_string(file.expect("history file")).unwrap();
    let lines: Vec<String> = text.lines().map(|l| l.to_string()).collect();
    // the history may carry its own nvars line
    for l in &lines {
        let t: Vec<&str> = l.split_whitespace().collect();
        if t.len() == 2 && t[0] == "nvars" {
            nvars = t[1].parse().unwrap();
        }
    }
    std::panic::set_hook(Box::new(|_| {}));
    let stdout = std::io::stdout();
    let mut out = LineFlush(BufWriter::new(stdout.lock()));
    let domain = lines
        .iter()
        .map(|l| l.split_whitespace().next().unwrap_or("").to_string())
        .find(|t| !t.is_empty() && !t.starts_with('#') && t != "nvars")
        .unwrap_or_default();
    match domain.as_str() {
        "cfg" => bddrun::run_bdd(&lines, &bddrun::Opts { oracle, nvars }, &mut out),
        "table" => standalone::run_table(&lines, oracle, &mut out),
        "ntable" => standalone::run_ntable(&lines, oracle, &mut out),
        "cache" | "kcache" => standalone::run_cache(&lines, oracle, &mut out),
        "raw" => standalone::run_raw(&lines, oracle, &mut out),
        "eda" => standalone::run_eda(&lines, oracle, &mut out),
        other => panic!("unknown domain {}", other),
    }
    out.flush().unwrap();
}
