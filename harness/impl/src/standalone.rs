//! Stand-alone structures driven directly: Table<Item>, Cache<K,V>, RawTable<(u64,u64)>, eda arena / Signal.
//! Each prints the observations the model driver prints, plus ORACLE lines from independent reference structures.

use std::cell::Cell;
use std::collections::{BTreeMap, HashMap, HashSet};
use std::fmt::Write as _;
use std::io::Write;
use std::panic::{catch_unwind, AssertUnwindSafe};

use bdd_rs::cache::Cache;
use bdd_rs::raw::RawTable;
use bdd_rs::reference::Ref;
use bdd_rs::table::Table;
use bdd_rs::utils::{MyHash, OpKey};

thread_local! {
    static HASH_KIND: Cell<u64> = Cell::new(0);
}

/// The adversarial hash functions shared with the model (coq/Standalone.v `hkind`).
pub fn hkind(k: u64, v: u64) -> u64 {
    match k {
        0 => v,
        1 => 0,
        2 => v % 2,
        3 => v.wrapping_mul(v).wrapping_add(7),
        4 => v.wrapping_add(1u64 << 63),
        5 => u64::MAX - v,
        _ => {
            // Szudzik pairing of (v, v/3) with wrap-around, written out here: the harness's hash functions must not change
            // when the crate's own pairing function does
            let (a, b) = (v, v / 3);
            if a < b {
                b.wrapping_mul(b).wrapping_add(a)
            } else {
                a.wrapping_mul(a).wrapping_add(a).wrapping_add(b)
            }
        }
    }
}

#[derive(Clone, Copy, PartialEq, Eq, Default, Debug)]
struct Item(u64);
impl MyHash for Item {
    fn hash(&self) -> u64 {
        hkind(HASH_KIND.with(|h| h.get()), self.0)
    }
}

fn panic_msg(e: Box<dyn std::any::Any + Send>) -> String {
    if let Some(s) = e.downcast_ref::<&str>() {
        s.to_string()
    } else if let Some(s) = e.downcast_ref::<String>() {
        s.clone()
    } else {
        "?".to_string()
    }
}

// ------------------------------------------------------------------------------------------------ Table
fn table_check<W: Write>(t: &Table<Item>, out: &mut W, ln: usize, refmap: &HashMap<u64, usize>) {
    let cap = t.capacity();
    let nb = t.num_buckets();
    let mut fail = |msg: String| writeln!(out, "ORACLE C17 line={} {}", ln, msg).unwrap();
    let occ: Vec<usize> = (1..cap).filter(|&i| t.is_occupied(i)).collect();
    if occ.len() != t.real_size() {
        fail(format!("real_size {} but {} occupied cells", t.real_size(), occ.len()));
    }
    if let Some(&mx) = occ.last() {
        if mx > t.size() {
            fail(format!("occupied cell {} above last_index {}", mx, t.size()));
        }
    }
    for i in 1..t.min_free().min(cap) {
        if !t.is_occupied(i) {
            fail(format!("free cell {} below min_free {}", i, t.min_free()));
            break;
        }
    }
    let mut vals: HashMap<u64, usize> = HashMap::new();
    for &i in &occ {
        if let Some(j) = vals.insert(t.value(i).0, i) {
            fail(format!("cells {} and {} hold the same value", j, i));
        }
    }
    // the reference map (value -> index handed out) must be exactly the live cells
    for (v, i) in refmap {
        if vals.get(v) != Some(i) {
            fail(format!("value {} was handed index {} but the table holds it at {:?}", v, i, vals.get(v)));
        }
    }
    if vals.len() != refmap.len() {
        fail(format!("{} live values, reference has {}", vals.len(), refmap.len()));
    }
    let mask = (nb - 1) as u64;
    let mut seen: HashMap<usize, usize> = HashMap::new();
    for b in 0..nb {
        let mut idx = t.bucket(b);
        let mut steps = 0;
        while idx != 0 {
            steps += 1;
            if steps > cap {
                fail(format!("bucket {} chain is cyclic", b));
                break;
            }
            if idx >= cap || !t.is_occupied(idx) {
                fail(format!("bucket {} chain contains freed or invalid cell {}", b, idx));
                break;
            }
            let h = (t.value(idx).hash() & mask) as usize;
            if h != b {
                fail(format!("cell {} with bucket {} sits in chain {}", idx, h, b));
            }
            if let Some(b0) = seen.insert(idx, b) {
                fail(format!("cell {} is in chains {} and {}", idx, b0, b));
                break;
            }
            idx = t.next(idx);
        }
    }
    for &i in &occ {
        if !seen.contains_key(&i) {
            fail(format!("live cell {} is in no chain", i));
        }
    }
}

/// The sweep of Bdd::collect_garbage, written against the public Table API for an arbitrary survivor set.
fn table_sweep(t: &mut Table<Item>, alive: &HashSet<usize>) {
    let n = t.num_buckets();
    for i in 0..n {
        let mut index = t.bucket(i);
        if index != 0 {
            while index != 0 && !alive.contains(&index) {
                let next = t.next(index);
                t.drop(index);
                index = next;
            }
            t.set_bucket(i, index);
            let mut prev = index;
            while prev != 0 {
                let mut cur = t.next(prev);
                while cur != 0 {
                    if !alive.contains(&cur) {
                        let next = t.next(cur);
                        t.drop(cur);
                        cur = next;
                    } else {
                        break;
                    }
                }
                let next_prev = t.next(prev);
                if next_prev != cur {
                    t.set_next(prev, cur);
                }
                prev = cur;
            }
        }
    }
}

pub fn run_table<W: Write>(lines: &[String], oracle: bool, out: &mut W) {
    let hdr: Vec<&str> = lines.iter().map(|l| l.split_whitespace().collect::<Vec<_>>()).find(|t| !t.is_empty() && t[0] == "table").unwrap();
    let bits: usize = hdr[1].parse().unwrap();
    let bb: usize = hdr[2].parse().unwrap();
    HASH_KIND.with(|h| h.set(hdr[3].parse().unwrap()));
    let mut t: Table<Item> = Table::with_buckets(bits, bb);
    let mut refmap: HashMap<u64, usize> = HashMap::new();
    let mut peak = 0usize;
    for (ln, line) in lines.iter().enumerate() {
        let tk: Vec<&str> = line.split_whitespace().collect();
        if tk.is_empty() || tk[0].starts_with('#') || tk[0] == "table" {
            continue;
        }
        match tk[0] {
            "put" => {
                let v: u64 = tk[1].parse().unwrap();
                let before_occ: HashSet<usize> = (1..t.capacity()).filter(|&i| t.is_occupied(i)).collect();
                let r = catch_unwind(AssertUnwindSafe(|| t.put(Item(v))));
                match r {
                    Ok(i) => {
                        writeln!(out, "i {} {} {} {}", i, t.real_size(), t.size(), t.min_free()).unwrap();
                        if oracle {
                            if i == 0 {
                                writeln!(out, "ORACLE C17 line={} put returned index 0", ln + 1).unwrap();
                            }
                            match refmap.get(&v) {
                                Some(&j) if j != i => writeln!(out, "ORACLE C17 line={} value {} lives at {} but put returned {}", ln + 1, v, j, i).unwrap(),
                                Some(_) => {}
                                None => {
                                    if before_occ.contains(&i) {
                                        writeln!(out, "ORACLE C17 line={} put handed out live cell {} for new value {}", ln + 1, i, v).unwrap();
                                    }
                                    refmap.insert(v, i);
                                }
                            }
                        }
                    }
                    Err(e) => {
                        let m = panic_msg(e);
                        if m.contains("Storage is full") {
                            writeln!(out, "panic full").unwrap();
                            if oracle && t.real_size() + 1 < t.capacity() {
                                writeln!(out, "ORACLE C06 line={} 'Storage is full' with {} of {} cells in use", ln + 1, t.real_size(), t.capacity() - 1).unwrap();
                                writeln!(out, "ORACLE C17 line={} 'Storage is full' with {} of {} cells in use", ln + 1, t.real_size(), t.capacity() - 1).unwrap();
                            }
                        } else {
                            writeln!(out, "panic other {}", m).unwrap();
                            if oracle {
                                writeln!(out, "ORACLE C17 line={} put panicked: {}", ln + 1, m).unwrap();
                            }
                        }
                        break;
                    }
                }
            }
            "sweep" | "sweepv" => {
                let k: usize = tk[1].parse().unwrap();
                let alive: HashSet<usize> = if tk[0] == "sweep" {
                    tk[2..2 + k].iter().map(|s| s.parse().unwrap()).collect()
                } else {
                    // survivors named by value: the cells currently holding these values
                    let vals: HashSet<u64> = tk[2..2 + k].iter().map(|s| s.parse().unwrap()).collect();
                    (1..t.capacity()).filter(|&i| t.is_occupied(i) && vals.contains(&t.value(i).0)).collect()
                };
                table_sweep(&mut t, &alive);
                refmap.retain(|_, i| alive.contains(i));
                writeln!(out, "s {} {} {}", t.real_size(), t.size(), t.min_free()).unwrap();
            }
            "dump" => {
                let mut s = String::from("dump cells=");
                let mut first = true;
                for i in 1..t.capacity() {
                    if t.is_occupied(i) {
                        if !first {
                            s.push(',');
                        }
                        first = false;
                        write!(s, "{}:{}:{}", i, t.value(i).0, t.next(i)).unwrap();
                    }
                }
                s.push_str(" buckets=");
                first = true;
                for b in 0..t.num_buckets() {
                    if t.bucket(b) != 0 {
                        if !first {
                            s.push(',');
                        }
                        first = false;
                        write!(s, "{}:{}", b, t.bucket(b)).unwrap();
                    }
                }
                writeln!(out, "{}", s).unwrap();
            }
            other => panic!("bad table line {}", other),
        }
        if oracle {
            table_check(&t, out, ln + 1, &refmap);
            peak = peak.max(t.real_size());
            if t.size() != peak {
                writeln!(out, "ORACLE C06 line={} high-water mark {} differs from the peak count {}", ln + 1, t.size(), peak).unwrap();
                peak = t.size();
            }
        }
    }
    writeln!(out, "end").unwrap();
}

// ------------------------------------------------------------------------------------------------ Table<Node>
pub fn run_ntable<W: Write>(lines: &[String], oracle: bool, out: &mut W) {
    use bdd_rs::node::Node;
    let hdr: Vec<&str> = lines.iter().map(|l| l.split_whitespace().collect::<Vec<_>>()).find(|t| !t.is_empty() && t[0] == "ntable").unwrap();
    let bits: usize = hdr[1].parse().unwrap();
    let bb: usize = hdr[2].parse().unwrap();
    let mut t: Table<Node> = Table::with_buckets(bits, bb);
    let mut refmap: HashMap<(u32, u32, u32), usize> = HashMap::new();
    for (ln, line) in lines.iter().enumerate() {
        let tk: Vec<&str> = line.split_whitespace().collect();
        if tk.is_empty() || tk[0].starts_with('#') || tk[0] == "ntable" {
            continue;
        }
        match tk[0] {
            "putn" => {
                let v: u32 = tk[1].parse().unwrap();
                let lo: u32 = tk[2].parse().unwrap();
                let hi: u32 = tk[3].parse().unwrap();
                let nd = Node { variable: v, low: raw_ref(lo), high: raw_ref(hi) };
                let r = catch_unwind(AssertUnwindSafe(|| t.put(nd)));
                match r {
                    Ok(i) => {
                        writeln!(out, "i {} {} {} {}", i, t.real_size(), t.size(), t.min_free()).unwrap();
                        if oracle {
                            let key = (v, lo, hi);
                            let clash = refmap.iter().find(|(k, &j)| j == i && **k != key).map(|(k, _)| *k);
                            if let Some(k) = clash {
                                for tag in ["C17", "C01"] {
                                    writeln!(out, "ORACLE {} line={} two different nodes (x{}, {}, {}) and (x{}, {}, {}) received the same index {}", tag, ln + 1, k.0, k.1, k.2, v, lo, hi, i).unwrap();
                                }
                            }
                            match refmap.get(&key) {
                                Some(&j) if j != i => {
                                    for tag in ["C17", "C01"] {
                                        writeln!(out, "ORACLE {} line={} node (x{}, {}, {}) lives at {} but put returned {}", tag, ln + 1, v, lo, hi, j, i).unwrap();
                                    }
                                }
                                Some(_) => {}
                                None => {
                                    refmap.insert(key, i);
                                }
                            }
                            if i == 0 {
                                writeln!(out, "ORACLE C17 line={} put returned index 0", ln + 1).unwrap();
                            }
                        }
                    }
                    Err(e) => {
                        let m = panic_msg(e);
                        if m.contains("Storage is full") {
                            writeln!(out, "panic full").unwrap();
                        } else {
                            writeln!(out, "panic other {}", m).unwrap();
                        }
                        break;
                    }
                }
            }
            other => panic!("bad ntable line {}", other),
        }
    }
    writeln!(out, "end").unwrap();
}

// ------------------------------------------------------------------------------------------------ Cache
#[derive(Clone, Copy, PartialEq, Eq, Debug)]
struct NKey(u64);
impl MyHash for NKey {
    fn hash(&self) -> u64 {
        hkind(HASH_KIND.with(|h| h.get()), self.0)
    }
}

fn raw_ref(x: u32) -> Ref {
    Ref::new(x >> 1, x & 1 == 1)
}
fn ref_raw(r: Ref) -> u32 {
    (r.index() << 1) | (r.is_negated() as u32)
}

pub fn run_cache<W: Write>(lines: &[String], oracle: bool, out: &mut W) {
    let hdr: Vec<&str> = lines.iter().map(|l| l.split_whitespace().collect::<Vec<_>>()).find(|t| !t.is_empty() && (t[0] == "cache" || t[0] == "kcache")).unwrap();
    let keyed = hdr[0] == "kcache";
    let bits: usize = hdr[1].parse().unwrap();
    if !keyed {
        HASH_KIND.with(|h| h.set(hdr[2].parse().unwrap()));
    }
    let mut nc: Cache<NKey, i64> = Cache::new(if keyed { 0 } else { bits });
    let mut kc: Cache<OpKey, Ref> = Cache::new(if keyed { bits } else { 0 });
    let mut latest: HashMap<String, String> = HashMap::new();
    let mut ever: HashMap<String, HashSet<String>> = HashMap::new();
    let mut ngets = 0usize;
    let parse_key = |tk: &[&str], pos: &mut usize| -> (OpKey, String) {
        let kind = tk[*pos];
        let a = raw_ref(tk[*pos + 1].parse().unwrap());
        let b = raw_ref(tk[*pos + 2].parse().unwrap());
        match kind {
            "I" => {
                let c = raw_ref(tk[*pos + 3].parse().unwrap());
                let s = format!("I {} {} {}", tk[*pos + 1], tk[*pos + 2], tk[*pos + 3]);
                *pos += 4;
                (OpKey::Ite(a, b, c), s)
            }
            "C" => {
                let s = format!("C {} {}", tk[*pos + 1], tk[*pos + 2]);
                *pos += 3;
                (OpKey::Constrain(a, b), s)
            }
            _ => {
                let s = format!("R {} {}", tk[*pos + 1], tk[*pos + 2]);
                *pos += 3;
                (OpKey::Restrict(a, b), s)
            }
        }
    };
    for (ln, line) in lines.iter().enumerate() {
        let tk: Vec<&str> = line.split_whitespace().collect();
        if tk.is_empty() || tk[0].starts_with('#') || tk[0] == "cache" || tk[0] == "kcache" {
            continue;
        }
        match tk[0] {
            "ins" => {
                if keyed {
                    let mut pos = 1;
                    let (k, ks) = parse_key(&tk, &mut pos);
                    let v = raw_ref(tk[pos].parse().unwrap());
                    kc.insert(k, v);
                    latest.insert(ks.clone(), tk[pos].to_string());
                    ever.entry(ks).or_default().insert(tk[pos].to_string());
                } else {
                    let k: u64 = tk[1].parse().unwrap();
                    let v: i64 = tk[2].parse().unwrap();
                    nc.insert(NKey(k), v);
                    latest.insert(tk[1].to_string(), tk[2].to_string());
                    ever.entry(tk[1].to_string()).or_default().insert(tk[2].to_string());
                }
                writeln!(out, "i").unwrap();
            }
            "get" => {
                ngets += 1;
                let (ks, got, h, f, m) = if keyed {
                    let mut pos = 1;
                    let (k, ks) = parse_key(&tk, &mut pos);
                    let g = kc.get(&k).map(|r| ref_raw(*r).to_string());
                    (ks, g, kc.hits(), kc.faults(), kc.misses())
                } else {
                    let k: u64 = tk[1].parse().unwrap();
                    let g = nc.get(&NKey(k)).map(|v| v.to_string());
                    (tk[1].to_string(), g, nc.hits(), nc.faults(), nc.misses())
                };
                writeln!(out, "g {} {} {} {}", got.clone().unwrap_or_else(|| "none".to_string()), h, f, m).unwrap();
                if oracle {
                    if let Some(v) = &got {
                        match latest.get(&ks) {
                            Some(l) if l == v => {}
                            other => {
                                writeln!(out, "ORACLE C18 line={} get {} returned {}, the value most recently inserted under that key since the last clear is {:?}", ln + 1, ks, v, other).unwrap();
                                if keyed {
                                    // the manager's own operation cache type: a wrong hit here is a wrong apply_ite / constrain / restrict result
                                    for tag in ["C02", "C07"] {
                                        writeln!(out, "ORACLE {} line={} Cache<OpKey, Ref>: get {} returned {}, the value most recently inserted under that key since the last clear is {:?}", tag, ln + 1, ks, v, other).unwrap();
                                    }
                                }
                            }
                        }
                    }
                    if h + m != ngets {
                        writeln!(out, "ORACLE C18 line={} hits {} + misses {} != lookups {}", ln + 1, h, m, ngets).unwrap();
                    }
                    if f > m {
                        writeln!(out, "ORACLE C18 line={} faults {} > misses {}", ln + 1, f, m).unwrap();
                    }
                }
            }
            "clear" => {
                if keyed {
                    kc.clear();
                } else {
                    nc.clear();
                }
                latest.clear();
                writeln!(out, "c").unwrap();
            }
            "dump" => {
                let mut s = String::from("dump ");
                let mut first = true;
                if keyed {
                    for (slot, k, v) in kc.entries() {
                        if !first {
                            s.push(',');
                        }
                        first = false;
                        match k {
                            OpKey::Ite(a, b, c) => write!(s, "{}:I:{}:{}:{}:{}", slot, ref_raw(*a), ref_raw(*b), ref_raw(*c), ref_raw(*v)).unwrap(),
                            OpKey::Constrain(a, b) => write!(s, "{}:C:{}:{}:{}", slot, ref_raw(*a), ref_raw(*b), ref_raw(*v)).unwrap(),
                            OpKey::Restrict(a, b) => write!(s, "{}:R:{}:{}:{}", slot, ref_raw(*a), ref_raw(*b), ref_raw(*v)).unwrap(),
                        }
                    }
                } else {
                    for (slot, k, v) in nc.entries() {
                        if !first {
                            s.push(',');
                        }
                        first = false;
                        write!(s, "{}:{}:{}", slot, k.0, v).unwrap();
                    }
                }
                writeln!(out, "{}", s).unwrap();
            }
            other => panic!("bad cache line {}", other),
        }
    }
    let _ = ever;
    writeln!(out, "end").unwrap();
}

// ------------------------------------------------------------------------------------------------ RawTable
fn raw_state(t: &RawTable<(u64, u64)>) -> String {
    let (len, free, st) = t.verif_state();
    let mut s = format!("{} {} {} [", len, free, st.len());
    for (i, x) in st.iter().enumerate() {
        if i > 0 {
            s.push(',');
        }
        if *x == u64::MAX {
            s.push('F');
        } else if *x == u64::MAX - 1 {
            s.push('D');
        } else {
            write!(s, "{:x}", x).unwrap();
        }
    }
    s.push(']');
    s
}

pub fn run_raw<W: Write>(lines: &[String], oracle: bool, out: &mut W) {
    let hdr: Vec<&str> = lines.iter().map(|l| l.split_whitespace().collect::<Vec<_>>()).find(|t| !t.is_empty() && t[0] == "raw").unwrap();
    let hk: u64 = hdr[1].parse().unwrap();
    let mut t: RawTable<(u64, u64)> = RawTable::new();
    let mut reference: BTreeMap<u64, u64> = BTreeMap::new();
    for (ln, line) in lines.iter().enumerate() {
        let tk: Vec<&str> = line.split_whitespace().collect();
        if tk.is_empty() || tk[0].starts_with('#') || tk[0] == "raw" {
            continue;
        }
        // announce the operation first: if the call never returns (release-mode hang) the trace shows where
        writeln!(out, "op {}", line.trim()).unwrap();
        let res = catch_unwind(AssertUnwindSafe(|| -> String {
            match tk[0] {
                "ins" => {
                    let k: u64 = tk[1].parse().unwrap();
                    let v: u64 = tk[2].parse().unwrap();
                    let r = t.insert(hkind(hk, k), |e| e.0 == k, (k, v));
                    format!("i {}", if r.is_ok() { 1 } else { 0 })
                }
                "get" => {
                    let k: u64 = tk[1].parse().unwrap();
                    match t.get(hkind(hk, k), |e| e.0 == k) {
                        Some(e) => format!("g {}", e.1),
                        None => "g none".to_string(),
                    }
                }
                "rem" => {
                    let k: u64 = tk[1].parse().unwrap();
                    match t.remove(hkind(hk, k), |e| e.0 == k) {
                        Some(e) => format!("r {}", e.1),
                        None => "r none".to_string(),
                    }
                }
                "clear" => {
                    t.clear();
                    "c".to_string()
                }
                "reserve" => {
                    let n: usize = tk[1].parse().unwrap();
                    if n >= (1usize << 59) {
                        // a request no allocator can satisfy: the call must fail cleanly (capacity overflow) and leave the table
                        // usable -- an unwinding safe call must not corrupt it
                        let r = catch_unwind(AssertUnwindSafe(|| t.reserve(n)));
                        if r.is_err() { "v refused".to_string() } else { "v".to_string() }
                    } else {
                        t.reserve(n);
                        "v".to_string()
                    }
                }
                "iter" => {
                    let it = t.iter();
                    let n = it.len();
                    let mut items: Vec<(u64, u64)> = it.copied().collect();
                    items.sort();
                    format!("t {} {}", n, items.iter().map(|(k, v)| format!("{}:{}", k, v)).collect::<Vec<_>>().join(","))
                }
                other => panic!("bad raw line {}", other),
            }
        }));
        match res {
            Ok(s) => {
                writeln!(out, "{} | {}", s, raw_state(&t)).unwrap();
                if oracle {
                    let mut fail = |m: String| writeln!(out, "ORACLE C19 line={} {}", ln + 1, m).unwrap();
                    match tk[0] {
                        "ins" => {
                            let k: u64 = tk[1].parse().unwrap();
                            let existed = reference.insert(k, tk[2].parse().unwrap()).is_some();
                            if s != format!("i {}", existed as u8) {
                                fail(format!("insert of {} key {} reported {}", if existed { "present" } else { "absent" }, k, s));
                            }
                        }
                        "get" => {
                            let k: u64 = tk[1].parse().unwrap();
                            let want = reference.get(&k).map(|v| format!("g {}", v)).unwrap_or_else(|| "g none".to_string());
                            if s != want {
                                fail(format!("get {} answered `{}`, a map answers `{}`", k, s, want));
                            }
                        }
                        "rem" => {
                            let k: u64 = tk[1].parse().unwrap();
                            let want = reference.remove(&k).map(|v| format!("r {}", v)).unwrap_or_else(|| "r none".to_string());
                            if s != want {
                                fail(format!("remove {} answered `{}`, a map answers `{}`", k, s, want));
                            }
                        }
                        "clear" => reference.clear(),
                        "iter" => {
                            let want = format!("t {} {}", reference.len(), reference.iter().map(|(k, v)| format!("{}:{}", k, v)).collect::<Vec<_>>().join(","));
                            if s != want {
                                fail(format!("iteration gave `{}`, a map gives `{}`", s, want));
                            }
                        }
                        _ => {}
                    }
                    let (len, free, st) = t.verif_state();
                    let occ = st.iter().filter(|&&x| x <= (u64::MAX >> 1)).count();
                    let nfree = st.iter().filter(|&&x| x == u64::MAX).count();
                    if len != reference.len() {
                        fail(format!("len {} but {} distinct keys are present", len, reference.len()));
                    }
                    if len != occ {
                        fail(format!("len {} but {} occupied slots", len, occ));
                    }
                    if free > nfree {
                        fail(format!("free counter {} exceeds the {} FREE slots", free, nfree));
                    }
                    if len > 0 && nfree == 0 {
                        fail("no FREE slot left: a lookup of an absent key cannot terminate".to_string());
                    }
                    if !(st.is_empty() || st.len().is_power_of_two()) {
                        fail(format!("capacity {} is not a power of two", st.len()));
                    }
                }
            }
            Err(e) => {
                let m = panic_msg(e);
                writeln!(out, "panic other {}", m.replace('\n', " ")).unwrap();
                if oracle {
                    writeln!(out, "ORACLE C19 line={} `{}` panicked: {}", ln + 1, line.trim(), m.replace('\n', " ")).unwrap();
                }
                break;
            }
        }
    }
    writeln!(out, "end").unwrap();
}

// ------------------------------------------------------------------------------------------------ eda
use eda::ast::{Arena, ExprBoxed};
use eda::signal::Signal;

fn parse_boxed(tk: &[&str], pos: &mut usize) -> ExprBoxed<i64> {
    let t = tk[*pos];
    *pos += 1;
    match t {
        "!" => ExprBoxed::Not(Box::new(parse_boxed(tk, pos))),
        "~" => ExprBoxed::not(parse_boxed(tk, pos)),
        "&" => {
            let a = parse_boxed(tk, pos);
            let b = parse_boxed(tk, pos);
            ExprBoxed::and(a, b)
        }
        "|" => {
            let a = parse_boxed(tk, pos);
            let b = parse_boxed(tk, pos);
            ExprBoxed::or(a, b)
        }
        "^" => {
            let a = parse_boxed(tk, pos);
            let b = parse_boxed(tk, pos);
            ExprBoxed::xor(a, b)
        }
        "?" => {
            let a = parse_boxed(tk, pos);
            let b = parse_boxed(tk, pos);
            let c = parse_boxed(tk, pos);
            ExprBoxed::ite(a, b, c)
        }
        _ => ExprBoxed::term(t[1..].parse().unwrap()),
    }
}

/// value by direct recursion over NOT/AND/OR (None if the tree uses XOR / ITE)
fn direct_value(e: &ExprBoxed<i64>) -> Option<i64> {
    match e {
        ExprBoxed::Term(t) => Some(*t),
        ExprBoxed::Not(a) => direct_value(a).map(|x| -x),
        ExprBoxed::And(a, b) => Some(direct_value(a)? * direct_value(b)?),
        ExprBoxed::Or(a, b) => Some(direct_value(a)? + direct_value(b)?),
        _ => None,
    }
}

/// Boolean reading of a tree, independent of the crate: every distinct term is an atom, the connectives are the Boolean
/// ones.  The value is returned as the 64-bit vector of results under 64 assignments (all of them when there are at most
/// 6 atoms, 64 fixed pseudo-random ones otherwise).
fn atoms_of(e: &ExprBoxed<i64>, acc: &mut Vec<i64>) {
    match e {
        ExprBoxed::Term(t) => {
            if !acc.contains(t) {
                acc.push(*t)
            }
        }
        ExprBoxed::Not(a) => atoms_of(a, acc),
        ExprBoxed::And(a, b) | ExprBoxed::Or(a, b) | ExprBoxed::Xor(a, b) => {
            atoms_of(a, acc);
            atoms_of(b, acc)
        }
        ExprBoxed::Ite(a, b, c) => {
            atoms_of(a, acc);
            atoms_of(b, acc);
            atoms_of(c, acc)
        }
    }
}

fn atom_bits(pos: usize, natoms: usize) -> u64 {
    if natoms <= 6 {
        let mut v = 0u64;
        for j in 0..64u64 {
            if (j >> pos) & 1 == 1 {
                v |= 1 << j
            }
        }
        v
    } else {
        let mut x = 0x9E37_79B9_7F4A_7C15u64.wrapping_mul(pos as u64 + 1) ^ 0xD1B5_4A32_D192_ED03;
        x ^= x >> 29;
        x = x.wrapping_mul(0xBF58_476D_1CE4_E5B9);
        x ^= x >> 32;
        x
    }
}

fn bool_reading(e: &ExprBoxed<i64>, atoms: &[i64]) -> u64 {
    match e {
        ExprBoxed::Term(t) => atom_bits(atoms.iter().position(|x| x == t).unwrap_or(63), atoms.len()),
        ExprBoxed::Not(a) => !bool_reading(a, atoms),
        ExprBoxed::And(a, b) => bool_reading(a, atoms) & bool_reading(b, atoms),
        ExprBoxed::Or(a, b) => bool_reading(a, atoms) | bool_reading(b, atoms),
        ExprBoxed::Xor(a, b) => bool_reading(a, atoms) ^ bool_reading(b, atoms),
        ExprBoxed::Ite(a, b, c) => {
            let x = bool_reading(a, atoms);
            (x & bool_reading(b, atoms)) | (!x & bool_reading(c, atoms))
        }
    }
}

fn sig_of_raw(r: u32) -> Signal {
    let s = Signal::from_index(r >> 1);
    if r & 1 == 1 {
        !s
    } else {
        s
    }
}

pub fn run_eda<W: Write>(lines: &[String], oracle: bool, out: &mut W) {
    for (ln, line) in lines.iter().enumerate() {
        let tk: Vec<&str> = line.split_whitespace().collect();
        if tk.is_empty() || tk[0].starts_with('#') || tk[0] == "eda" {
            continue;
        }
        let mut fail_lines: Vec<String> = Vec::new();
        let res = catch_unwind(AssertUnwindSafe(|| -> String {
            match tk[0] {
                "arena" => {
                    let mut pos = 1;
                    let e = parse_boxed(&tk, &mut pos);
                    let arena = Arena::from_boxed(&e);
                    let dbg = format!("{:?}", arena);
                    let direct = direct_value(&e);
                    let ev = if direct.is_some() { Some(arena.eval()) } else { None };
                    let back = arena.to_boxed();
                    format!(
                        "a {} ;; s {} ;; b {} ;; e {} ;; tb {}",
                        dbg,
                        arena.to_string(),
                        e.to_string(),
                        ev.map(|x| x.to_string()).unwrap_or_else(|| "skip".to_string()),
                        back.to_string()
                    )
                }
                "neg" => {
                    // value(not e) = - value(e), for every e, bare terms included
                    let mut pos = 1;
                    let e = parse_boxed(&tk, &mut pos);
                    let v = direct_value(&e);
                    let n = ExprBoxed::not(e);
                    let nv = direct_value(&n);
                    let av = if nv.is_some() { Some(Arena::from_boxed(&n).eval()) } else { None };
                    format!("n {} ;; {:?} {:?} {:?}", n.to_string(), v, nv, av)
                }
                "fromvar" => format!("u {}", Signal::from_var(tk[1].parse().unwrap()).raw()),
                "frominput" => format!("u {}", Signal::from_input(tk[1].parse().unwrap()).raw()),
                "not" => format!("u {}", (!sig_of_raw(tk[1].parse().unwrap())).raw()),
                "info" => {
                    let s = sig_of_raw(tk[1].parse().unwrap());
                    let mut r = format!("f {} {} {} {} {}", s.index(), s.is_const() as u8, s.is_input() as u8, s.is_var() as u8, s.is_negated() as u8);
                    if s.is_var() {
                        write!(r, " var={}", s.var()).unwrap();
                    }
                    if s.is_input() {
                        write!(r, " input={}", s.input()).unwrap();
                    }
                    r
                }
                other => panic!("bad eda line {}", other),
            }
        }));
        match res {
            Ok(s) => {
                writeln!(out, "{}", s).unwrap();
                if oracle {
                    match tk[0] {
                        "arena" => {
                            // a ... | s <arena string> | b <boxed string> | e <eval> | tb <to_boxed string>
                            let parts: Vec<&str> = s.split(" ;; ").collect();
                            let astr = &parts[1][2..];
                            let bstr = &parts[2][2..];
                            if astr != bstr {
                                fail_lines.push(format!("arena prints `{}`, the boxed tree prints `{}`", astr, bstr));
                            }
                            let mut pos = 1;
                            let e = parse_boxed(&tk, &mut pos);
                            {
                                // converting back preserves the Boolean reading, for every tree (Xor and Ite included)
                                let back = Arena::from_boxed(&e).to_boxed();
                                let mut atoms = Vec::new();
                                atoms_of(&e, &mut atoms);
                                atoms_of(&back, &mut atoms);
                                let (v0, v1) = (bool_reading(&e, &atoms), bool_reading(&back, &atoms));
                                if v0 != v1 {
                                    fail_lines.push(format!(
                                        "to_boxed gives `{}`, whose Boolean reading {:x} differs from that of the original `{}` ({:x})",
                                        back.to_string(), v1, e.to_string(), v0
                                    ));
                                }
                            }
                            if let Some(d) = direct_value(&e) {
                                if parts[3] != format!("e {}", d) {
                                    fail_lines.push(format!("arena evaluates to `{}`, direct recursion gives {}", &parts[3][2..], d));
                                }
                                let back = Arena::from_boxed(&e).to_boxed();
                                if direct_value(&back) != Some(d) {
                                    fail_lines.push(format!("to_boxed gives `{}` with value {:?}, the original has value {}", back.to_string(), direct_value(&back), d));
                                }
                            }
                        }
                        "neg" => {
                            let mut pos = 1;
                            let e = parse_boxed(&tk, &mut pos);
                            {
                                let n = ExprBoxed::not(e.clone());
                                let mut atoms = Vec::new();
                                atoms_of(&e, &mut atoms);
                                atoms_of(&n, &mut atoms);
                                if bool_reading(&n, &atoms) != !bool_reading(&e, &atoms) {
                                    fail_lines.push(format!("not(e) = `{}` is not the negation of `{}` (Boolean reading)", n.to_string(), e.to_string()));
                                }
                            }
                            if let Some(v) = direct_value(&e) {
                                let n = ExprBoxed::not(e);
                                if direct_value(&n) != Some(-v) {
                                    fail_lines.push(format!("not(e) = `{}` has value {:?}, expected {}", n.to_string(), direct_value(&n), -v));
                                }
                            }
                        }
                        "fromvar" => {
                            let v: u32 = tk[1].parse().unwrap();
                            if v <= (1 << 30) - 2 {
                                let sg = Signal::from_var(v);
                                if !(sg.is_var() && !sg.is_input() && !sg.is_const() && sg.var() == v) {
                                    fail_lines.push(format!("from_var({}) does not round-trip", v));
                                }
                            }
                        }
                        "frominput" => {
                            let i: u32 = tk[1].parse().unwrap();
                            if i <= (1 << 30) - 1 {
                                let sg = Signal::from_input(i);
                                if !(sg.is_input() && !sg.is_var() && !sg.is_const() && sg.input() == i) {
                                    fail_lines.push(format!("from_input({}) does not round-trip", i));
                                }
                            }
                        }
                        "not" => {
                            let r: u32 = tk[1].parse().unwrap();
                            let sg = sig_of_raw(r);
                            let n = !sg;
                            if n.raw() != r ^ 1 || (!n).raw() != r || n.index() != sg.index() || n.is_negated() == sg.is_negated() {
                                fail_lines.push(format!("complement of {} is {}", r, n.raw()));
                            }
                        }
                        "info" => {
                            let sg = sig_of_raw(tk[1].parse().unwrap());
                            let classes = sg.is_const() as u8 + sg.is_input() as u8 + sg.is_var() as u8;
                            if classes != 1 {
                                fail_lines.push(format!("signal {} falls into {} classes", sg.raw(), classes));
                            }
                        }
                        _ => {}
                    }
                }
            }
            Err(e) => {
                let m = panic_msg(e);
                writeln!(out, "panic other {}", m.replace('\n', " ")).unwrap();
                if oracle {
                    fail_lines.push(format!("`{}` panicked: {}", line.trim(), m.replace('\n', " ")));
                }
            }
        }
        for f in fail_lines {
            writeln!(out, "ORACLE C20 line={} {}", ln + 1, f).unwrap();
        }
    }
    writeln!(out, "end").unwrap();
}
