//! Runs a Bdd-domain history on the real crate; prints one observation line per history line and,
//! when oracles are enabled, `ORACLE <property> line=<n> <what>` lines for every property statement
//! that the implementation's own observations contradict.

use std::collections::{HashMap, HashSet};
use std::fmt::Write as _;
use std::io::Write;
use std::panic::{catch_unwind, AssertUnwindSafe};

use bdd_rs::bdd::Bdd;
use bdd_rs::eval::Expr;
use bdd_rs::node::Node;
use bdd_rs::reference::Ref;
use bdd_rs::utils::{MyHash, OpKey};

use crate::tt::{Ctx, TT};

pub struct Opts {
    pub oracle: bool,
    pub nvars: u32,
}

struct Run<'a, W: Write> {
    bdd: Bdd,
    regs: Vec<Option<Ref>>,
    tts: Vec<Option<TT>>, // recorded meaning of each register when it was produced
    ctx: Ctx,
    oracle: bool,
    out: &'a mut W,
    lineno: usize,
    peak_real: usize,
    oracle_evals: u64,
    storage_bits: usize,
    cases: HashSet<u64>,
    trivial_cases: u64,
    gcs_done: u32,
    in_constructor: bool,
}

fn parse_arg(tok: &str) -> Option<(usize, bool)> {
    if let Some(rest) = tok.strip_prefix('~') {
        rest.parse().ok().map(|k| (k, true))
    } else {
        tok.parse().ok().map(|k| (k, false))
    }
}

fn show_ref(r: Ref) -> String {
    format!("{} {}", r.index(), r.is_negated() as u8)
}

enum Step {
    Reg(Option<Ref>),  // handle-producing line: Some = result, None = skipped
    Query(Option<String>), // query line: Some = value, None = skipped
    Gc(Option<HashSet<u32>>),
    Dump,
}

impl<'a, W: Write> Run<'a, W> {
    fn fetch(&self, tok: &str) -> Option<Ref> {
        let (k, n) = parse_arg(tok)?;
        match self.regs.get(k) {
            Some(Some(r)) => Some(if n { -*r } else { *r }),
            _ => None,
        }
    }
    fn fetch_tt(&self, tok: &str) -> Option<TT> {
        let (k, n) = parse_arg(tok)?;
        match self.tts.get(k) {
            Some(Some(t)) => Some(if n { self.ctx.not(*t) } else { *t }),
            _ => None,
        }
    }
    fn fetch_all(&self, toks: &[&str]) -> Option<Vec<Ref>> {
        toks.iter().map(|t| self.fetch(t)).collect()
    }

    fn oracle_fail(&mut self, prop: &str, msg: &str) {
        writeln!(self.out, "ORACLE {} line={} {}", prop, self.lineno, msg).unwrap();
        // a malformed or non-canonical diagram returned by a constructor also contradicts C15 ("all of them return canonical handles")
        if self.in_constructor && (prop == "C04" || prop == "C01") {
            writeln!(self.out, "ORACLE C15 line={} {}", self.lineno, msg).unwrap();
        }
    }

    /// Meaning of a handle, read through the public node accessors only. None if a variable exceeds nvars
    /// or the structure is not a finite DAG of plausible depth.
    fn tt_of(&self, r: Ref) -> Option<TT> {
        let mut memo: HashMap<u32, Option<TT>> = HashMap::new();
        let t = self.tt_idx(r.index(), &mut memo, 0)?;
        Some(if r.is_negated() { self.ctx.not(t) } else { t })
    }
    fn tt_idx(&self, i: u32, memo: &mut HashMap<u32, Option<TT>>, depth: u32) -> Option<TT> {
        if i == 1 {
            return Some(self.ctx.one());
        }
        if i == 0 || depth > 64 || (i as usize) >= self.bdd.storage().capacity() {
            return None;
        }
        if let Some(t) = memo.get(&i) {
            return *t;
        }
        let v = self.bdd.variable(i);
        if v == 0 || v > self.ctx.n {
            memo.insert(i, None);
            return None;
        }
        let lo = self.bdd.low(i);
        let hi = self.bdd.high(i);
        let res = (|| {
            let tl = self.tt_idx(lo.index(), memo, depth + 1)?;
            let th = self.tt_idx(hi.index(), memo, depth + 1)?;
            let tl = if lo.is_negated() { self.ctx.not(tl) } else { tl };
            let th = if hi.is_negated() { self.ctx.not(th) } else { th };
            Some(self.ctx.ite(self.ctx.var(v), th, tl))
        })();
        memo.insert(i, res);
        res
    }

    /// Structural well-formedness (C04) of everything reachable from r, read through the accessors.
    fn check_structure(&mut self, r: Ref) {
        let mut seen: HashSet<u32> = HashSet::new();
        let mut stack = vec![r.index()];
        let cap = self.bdd.storage().capacity();
        while let Some(i) = stack.pop() {
            if i == 1 || !seen.insert(i) {
                continue;
            }
            if i == 0 || (i as usize) >= cap {
                self.oracle_fail("C04", &format!("reachable index {} out of range", i));
                return;
            }
            if seen.len() > 100_000 {
                return;
            }
            if !self.bdd.storage().is_occupied(i as usize) {
                self.oracle_fail("C04", &format!("reachable node @{} is not stored", i));
                return;
            }
            let v = self.bdd.variable(i);
            let lo = self.bdd.low(i);
            let hi = self.bdd.high(i);
            if v == 0 {
                self.oracle_fail("C04", &format!("second terminal @{}", i));
            }
            if hi.is_negated() {
                self.oracle_fail("C04", &format!("node @{} has a complemented then-edge", i));
            }
            if lo == hi {
                self.oracle_fail("C04", &format!("node @{} has equal children", i));
            }
            for c in [lo, hi] {
                let ci = c.index();
                if ci == 0 {
                    self.oracle_fail("C04", &format!("node @{} has child index 0", i));
                    continue;
                }
                if ci != 1 && (ci as usize) < cap {
                    let cv = self.bdd.variable(ci);
                    if cv <= v {
                        self.oracle_fail("C04", &format!("node @{} (x{}) is not above its child @{} (x{})", i, v, ci, cv));
                    }
                }
                stack.push(ci);
            }
        }
    }

    /// Whole-table invariants (C04 uniqueness, C06 counters, C17 chains, C07 cache entries).
    fn check_state(&mut self) {
        let (cap, nb, real, last, minf) = {
            let s = self.bdd.storage();
            (s.capacity(), s.num_buckets(), s.real_size(), s.size(), s.min_free())
        };
        if cap > (1 << 16) {
            return;
        }
        // occupied cells
        let mut occ: Vec<usize> = Vec::new();
        for i in 1..cap {
            if self.bdd.storage().is_occupied(i) {
                occ.push(i);
            }
        }
        if occ.len() != real {
            self.oracle_fail("C17", &format!("real_size {} but {} occupied cells", real, occ.len()));
            self.oracle_fail("C06", &format!("real_size {} but {} occupied cells", real, occ.len()));
        }
        if let Some(&mx) = occ.last() {
            if mx > last {
                self.oracle_fail("C17", &format!("occupied cell {} above last_index {}", mx, last));
            }
        }
        for i in 1..minf.min(cap) {
            if !self.bdd.storage().is_occupied(i) {
                self.oracle_fail("C17", &format!("free cell {} below min_free {}", i, minf));
                break;
            }
        }
        if !occ.contains(&1) {
            self.oracle_fail("C17", "terminal cell 1 is not occupied");
        }
        // uniqueness of stored triples
        let mut triples: HashMap<(u32, Ref, Ref), usize> = HashMap::new();
        for &i in &occ {
            if i == 1 {
                continue;
            }
            let n: Node = self.bdd.node(i as u32);
            if let Some(j) = triples.insert((n.variable, n.low, n.high), i) {
                self.oracle_fail("C04", &format!("cells {} and {} hold the same node", j, i));
                self.oracle_fail("C17", &format!("cells {} and {} hold the same value", j, i));
                self.oracle_fail("C01", &format!("cells {} and {} hold the same node", j, i));
            }
        }
        // chains
        let mask = (nb - 1) as u64;
        let mut in_chain: HashMap<usize, usize> = HashMap::new();
        for b in 0..nb {
            let mut idx = self.bdd.storage().bucket(b);
            let mut steps = 0usize;
            while idx != 0 {
                steps += 1;
                if steps > cap {
                    self.oracle_fail("C17", &format!("bucket {} chain is cyclic", b));
                    break;
                }
                if idx >= cap {
                    self.oracle_fail("C17", &format!("bucket {} chain leaves the table at {}", b, idx));
                    break;
                }
                if !self.bdd.storage().is_occupied(idx) {
                    self.oracle_fail("C17", &format!("bucket {} chain contains freed cell {}", b, idx));
                    break;
                }
                if idx == 1 {
                    self.oracle_fail("C17", &format!("bucket {} chain contains the terminal", b));
                    break;
                }
                let n: Node = self.bdd.node(idx as u32);
                let h = (MyHash::hash(&n) & mask) as usize;
                if h != b {
                    self.oracle_fail("C17", &format!("cell {} with bucket {} sits in chain {}", idx, h, b));
                }
                if let Some(b0) = in_chain.insert(idx, b) {
                    self.oracle_fail("C17", &format!("cell {} is in chains {} and {}", idx, b0, b));
                    break;
                }
                idx = self.bdd.storage().next(idx);
            }
        }
        for &i in &occ {
            if i != 1 && !in_chain.contains_key(&i) {
                self.oracle_fail("C17", &format!("live cell {} is in no chain", i));
            }
        }
        // children of stored nodes are stored (no dangling edge into a freed cell)
        for &i in &occ {
            if i == 1 {
                continue;
            }
            let n: Node = self.bdd.node(i as u32);
            for c in [n.low, n.high] {
                let ci = c.index() as usize;
                if ci == 0 || ci >= cap || !self.bdd.storage().is_occupied(ci) {
                    self.oracle_fail("C05", &format!("stored node {} points to freed or invalid cell {}", i, ci));
                }
            }
        }
        // cache entries are true facts about live nodes
        let entries: Vec<(usize, OpKey, Ref)> =
            self.bdd.cache().entries().map(|(s, k, v)| (s, k.clone(), *v)).collect();
        for (slot, k, v) in entries {
            let refs: Vec<Ref> = match &k {
                OpKey::Ite(f, g, h) => vec![*f, *g, *h, v],
                OpKey::Constrain(f, g) | OpKey::Restrict(f, g) => vec![*f, *g, v],
            };
            let mut live = true;
            for r in &refs {
                let i = r.index() as usize;
                if i == 0 || i >= cap || !self.bdd.storage().is_occupied(i) {
                    live = false;
                }
            }
            if !live {
                self.oracle_fail("C07", &format!("cache slot {} {:?} -> {} mentions a freed cell", slot, k, v));
                continue;
            }
            let ts: Vec<Option<TT>> = refs.iter().map(|r| self.tt_of(*r)).collect();
            if ts.iter().any(|t| t.is_none()) {
                continue;
            }
            let ts: Vec<TT> = ts.into_iter().map(|t| t.unwrap()).collect();
            let want = match &k {
                OpKey::Ite(..) => self.ctx.ite(ts[0], ts[1], ts[2]),
                OpKey::Constrain(..) => self.ctx.constrain(ts[0], ts[1]),
                OpKey::Restrict(..) => self.ctx.restrict(ts[0], ts[1]),
            };
            let got = *ts.last().unwrap();
            if want != got {
                self.oracle_fail("C07", &format!("cache slot {} {:?} -> {} is false: {:x} vs {:x}", slot, k, v, got, want));
            }
        }
        let sentries: Vec<(usize, Ref, u64)> = self.bdd.size_cache().entries().map(|(s, k, v)| (s, *k, *v)).collect();
        for (slot, k, v) in sentries {
            let i = k.index() as usize;
            if i == 0 || i >= cap || !self.bdd.storage().is_occupied(i) {
                self.oracle_fail("C07", &format!("size-cache slot {} {} mentions a freed cell", slot, k));
                continue;
            }
            let n = self.count_reachable(k);
            if n != v {
                self.oracle_fail("C07", &format!("size-cache slot {} {} -> {} but {} nodes are reachable", slot, k, v, n));
            }
        }
    }

    fn count_reachable(&self, r: Ref) -> u64 {
        let mut seen: HashSet<u32> = HashSet::new();
        seen.insert(1);
        let mut stack = vec![r.index()];
        let cap = self.bdd.storage().capacity();
        while let Some(i) = stack.pop() {
            if i == 0 || (i as usize) >= cap || !seen.insert(i) {
                continue;
            }
            stack.push(self.bdd.low(i).index());
            stack.push(self.bdd.high(i).index());
        }
        seen.len() as u64
    }

    /// Reference model count (independent of src/sat.rs): number of assignments to variables 1..=n satisfying the handle, by a
    /// post-order walk over the stored nodes with exact arithmetic; None if a variable above n (or a malformed node) occurs.
    fn ref_satcount(&self, r: Ref, n: u32) -> Option<num_bigint::BigUint> {
        use num_bigint::BigUint;
        let cap = self.bdd.storage().capacity();
        let total: BigUint = BigUint::from(1u32) << (n as usize);
        let mut memo: HashMap<u32, BigUint> = HashMap::new(); // count of the REGULAR handle of a node, over all n variables
        memo.insert(1, total.clone());
        let mut stack: Vec<(u32, bool)> = vec![(r.index(), false)];
        let mut guard = 0usize;
        while let Some((i, expanded)) = stack.pop() {
            guard += 1;
            if guard > 4_000_000 || i == 0 || (i as usize) >= cap {
                return None;
            }
            if memo.contains_key(&i) {
                continue;
            }
            let (lo, hi) = (self.bdd.low(i), self.bdd.high(i));
            if self.bdd.variable(i) == 0 || self.bdd.variable(i) > n {
                return None;
            }
            if !expanded {
                stack.push((i, true));
                stack.push((lo.index(), false));
                stack.push((hi.index(), false));
                continue;
            }
            let get = |x: Ref, memo: &HashMap<u32, BigUint>| -> Option<BigUint> {
                let c = memo.get(&x.index())?.clone();
                Some(if x.is_negated() { &total - c } else { c })
            };
            let c = (get(lo, &memo)? + get(hi, &memo)?) >> 1usize;
            memo.insert(i, c);
        }
        let c = memo.get(&r.index())?.clone();
        Some(if r.is_negated() { &total - c } else { c })
    }

    /// The DOT text against the stored nodes themselves (any number of variables): every declared node carries the variable
    /// and the two edges the store holds for it, the declared nodes are exactly the reachable ones, every root edge names its
    /// handle.  (target 0 = the constant false = complemented terminal.)
    fn dot_structure_check(&self, text: &str, roots: &[Ref]) -> Result<(), String> {
        let g = crate::export::dot_parse(text)?;
        let norm = |tgt: u32, neg: bool| -> (u32, bool) { if tgt == 0 { (1, !neg) } else { (tgt, neg) } };
        let mut rd = g.root_decl.clone();
        rd.sort();
        if rd != (0..roots.len()).collect::<Vec<_>>() {
            return Err(format!("root declarations {:?}, expected 0..{}", rd, roots.len()));
        }
        for (i, r) in roots.iter().enumerate() {
            let e = g.roots.get(&i).filter(|l| l.len() == 1).ok_or_else(|| format!("root {} does not have exactly one edge", i))?[0];
            if norm(e.0, e.1) != (r.index(), r.is_negated()) {
                return Err(format!("root {} is drawn to {}{} but the handle is {}", i, if e.1 { "~" } else { "" }, e.0, r));
            }
        }
        let reach: HashSet<u32> = self.bdd.descendants(roots.iter().copied());
        let mut d2 = g.declared.clone();
        d2.sort();
        let mut r2: Vec<u32> = reach.iter().copied().filter(|&i| i != 1).collect();
        r2.sort();
        if d2 != r2 {
            let extra: Vec<&u32> = d2.iter().filter(|x| !r2.contains(x)).take(5).collect();
            let missing: Vec<&u32> = r2.iter().filter(|x| !d2.contains(x)).take(5).collect();
            return Err(format!("declared nodes differ from the reachable ones (declared but unreachable {:?}, reachable but undeclared {:?})", extra, missing));
        }
        for &id in &g.declared {
            let v = *g.var.get(&id).unwrap();
            if v != self.bdd.variable(id) {
                return Err(format!("node {} is labelled x{} but its variable is x{}", id, v, self.bdd.variable(id)));
            }
            let h = g.high.get(&id).filter(|l| l.len() == 1).ok_or_else(|| format!("node {} does not have exactly one then-edge", id))?[0];
            let hi = self.bdd.high(id);
            if (h, false) != (hi.index(), hi.is_negated()) {
                return Err(format!("node {}: then-edge drawn to {} but the stored edge is {}", id, h, hi));
            }
            let (l, ln) = g.low.get(&id).filter(|l| l.len() == 1).ok_or_else(|| format!("node {} does not have exactly one else-edge", id))?[0];
            let lo = self.bdd.low(id);
            if norm(l, ln) != (lo.index(), lo.is_negated()) {
                return Err(format!("node {}: else-edge drawn to {}{} but the stored edge is {}", id, if ln { "~" } else { "" }, l, lo));
            }
        }
        Ok(())
    }

    fn fingerprint(&self) -> (usize, usize, usize, u64) {
        let s = self.bdd.storage();
        let cap = s.capacity();
        let mut h: u64 = 1469598103934665603;
        if cap <= (1 << 16) {
            for i in 1..cap {
                if s.is_occupied(i) {
                    let n = s.node(i);
                    for w in [i as u64, n.variable as u64, MyHash::hash(&n.low), MyHash::hash(&n.high), s.next(i) as u64] {
                        h = (h ^ w).wrapping_mul(1099511628211);
                    }
                }
            }
            for b in 0..s.num_buckets() {
                h = (h ^ s.bucket(b) as u64).wrapping_mul(1099511628211);
            }
        }
        (s.real_size(), s.size(), s.min_free(), h)
    }

    fn dump(&mut self) {
        let mut line = String::from("dump");
        {
            let s = self.bdd.storage();
            let cap = s.capacity();
            write!(line, " real={} last={} minfree={} cells=", s.real_size(), s.size(), s.min_free()).unwrap();
            let mut first = true;
            for i in 1..cap {
                if s.is_occupied(i) {
                    let n = s.node(i);
                    if !first {
                        line.push(',');
                    }
                    first = false;
                    write!(line, "{}:{}:{}:{}:{}", i, n.variable, MyHash::hash(&n.low), MyHash::hash(&n.high), s.next(i)).unwrap();
                }
            }
            line.push_str(" buckets=");
            let mut first = true;
            for b in 0..s.num_buckets() {
                if s.bucket(b) != 0 {
                    if !first {
                        line.push(',');
                    }
                    first = false;
                    write!(line, "{}:{}", b, s.bucket(b)).unwrap();
                }
            }
        }
        line.push_str(" cache=");
        let mut first = true;
        for (slot, k, v) in self.bdd.cache().entries() {
            if !first {
                line.push(',');
            }
            first = false;
            match k {
                OpKey::Ite(f, g, h) => write!(line, "{}:I:{}:{}:{}:{}", slot, MyHash::hash(f), MyHash::hash(g), MyHash::hash(h), MyHash::hash(v)).unwrap(),
                OpKey::Constrain(f, g) => write!(line, "{}:C:{}:{}:{}", slot, MyHash::hash(f), MyHash::hash(g), MyHash::hash(v)).unwrap(),
                OpKey::Restrict(f, g) => write!(line, "{}:R:{}:{}:{}", slot, MyHash::hash(f), MyHash::hash(g), MyHash::hash(v)).unwrap(),
            }
        }
        line.push_str(" szcache=");
        let mut first = true;
        for (slot, k, v) in self.bdd.size_cache().entries() {
            if !first {
                line.push(',');
            }
            first = false;
            write!(line, "{}:{}:{}", slot, MyHash::hash(k), v).unwrap();
        }
        writeln!(self.out, "{}", line).unwrap();
    }

    fn parse_expr(&self, toks: &[&str], pos: &mut usize) -> Option<(Expr, Option<TT>)> {
        let t = *toks.get(*pos)?;
        *pos += 1;
        match t {
            "!" => {
                let (a, ta) = self.parse_expr(toks, pos)?;
                Some((Expr::Not(Box::new(a)), ta.map(|x| self.ctx.not(x))))
            }
            "-" => {
                let (a, ta) = self.parse_expr(toks, pos)?;
                Some((-a, ta.map(|x| self.ctx.not(x))))
            }
            "&" | "|" | "^" => {
                let (a, ta) = self.parse_expr(toks, pos)?;
                let (b, tb) = self.parse_expr(toks, pos)?;
                let tt = match (ta, tb) {
                    (Some(x), Some(y)) => Some(match t {
                        "&" => x & y,
                        "|" => x | y,
                        _ => x ^ y,
                    }),
                    _ => None,
                };
                Some((
                    match t {
                        "&" => a * b,
                        "|" => a + b,
                        _ => a ^ b,
                    },
                    tt,
                ))
            }
            _ => {
                let tok = t.strip_prefix('t')?;
                let r = self.fetch(tok)?;
                Some((Expr::term(r), self.fetch_tt(tok)))
            }
        }
    }

    /// Identity of the case a line exercises: the operation, the meanings of its handle arguments, its other tokens.
    /// Used only to count distinct non-trivial cases for the evidence.
    fn note_case(&mut self, t: &[&str]) {
        let pos: Vec<usize> = match t[0] {
            "node" => vec![2, 3],
            "ite" | "itec" => vec![1, 2, 3],
            "and" | "or" | "xor" | "eq" | "imply" | "constrain" | "restrict" | "implies" => vec![1, 2],
            "compose" => vec![1, 3],
            "not" | "subst" | "substm" | "cofcube" | "low" | "high" | "topcof0" | "topcof1" | "size" | "satcount" | "onesat" | "paths" | "bracket" => vec![1],
            "andmany" | "ormany" | "desc" | "dot" | "gc" => {
                let k: usize = t[1].parse().unwrap_or(0);
                (2..2 + k).collect()
            }
            _ => vec![],
        };
        let mut h: u64 = 1469598103934665603;
        let mut mix = |w: u64| {
            h = (h ^ w).wrapping_mul(1099511628211);
        };
        let mut nontrivial = false;
        for (i, tok) in t.iter().enumerate() {
            let is_expr_term = t[0] == "expr" && tok.starts_with('t') && tok.len() > 1;
            if pos.contains(&i) || is_expr_term {
                let tk = if is_expr_term { &tok[1..] } else { tok };
                match self.fetch_tt(tk) {
                    Some(x) => {
                        if x != 0 && x != self.ctx.one() {
                            nontrivial = true;
                        }
                        mix(0x9e3779b97f4a7c15);
                        mix(x);
                    }
                    None => mix(0xdead),
                }
            } else {
                for b in tok.bytes() {
                    mix(b as u64);
                }
                mix(0xff);
            }
        }
        if matches!(t[0], "var" | "cube" | "clause") && t.len() > 2 {
            nontrivial = true;
        }
        if nontrivial {
            if self.cases.len() < 4000 {
                self.cases.insert(h);
            }
        } else {
            self.trivial_cases += 1;
        }
    }

    // ---------------------------------------------------------------- pointwise oracles (any number of variables)
    /// value of variable v under the assignment named by `seed` (seed 0 = all false, seed 1 = all true, else hashed)
    fn pval(seed: u64, v: u32, over: &[(u32, bool)]) -> bool {
        for &(w, b) in over {
            if w == v {
                return b;
            }
        }
        match seed {
            0 => false,
            1 => true,
            _ => {
                let mut x = seed ^ ((v as u64).wrapping_mul(0x9E37_79B9_7F4A_7C15));
                x ^= x >> 29;
                x = x.wrapping_mul(0xBF58_476D_1CE4_E5B9);
                x ^= x >> 32;
                x & 1 == 1
            }
        }
    }
    /// evaluates a handle by walking the stored nodes; None if the walk leaves the table or does not end
    /// If the handle denotes a satisfiable conjunction of literals (every node on its single path has one child equal to the
    /// constant false), the literals; None otherwise.
    fn as_cube(&self, g: Ref) -> Option<Vec<(u32, bool)>> {
        let cap = self.bdd.storage().capacity();
        let mut lits = Vec::new();
        let mut cur = g;
        for _ in 0..200_000 {
            if cur == self.bdd.one {
                return Some(lits);
            }
            if cur == self.bdd.zero {
                return None;
            }
            let i = cur.index();
            if i == 0 || (i as usize) >= cap {
                return None;
            }
            let v = self.bdd.variable(i);
            let (lo, hi) = (self.bdd.low_node(cur), self.bdd.high_node(cur));
            if lo == self.bdd.zero {
                lits.push((v, true));
                cur = hi;
            } else if hi == self.bdd.zero {
                lits.push((v, false));
                cur = lo;
            } else {
                return None;
            }
        }
        None
    }

    fn eval_at(&self, r: Ref, seed: u64, over: &[(u32, bool)]) -> Option<bool> {
        let cap = self.bdd.storage().capacity();
        let mut cur = r;
        let mut neg = false;
        for _ in 0..100_000 {
            if cur.is_negated() {
                neg = !neg;
            }
            let i = cur.index();
            if i == 1 {
                return Some(!neg);
            }
            if i == 0 || (i as usize) >= cap {
                return None;
            }
            let v = self.bdd.variable(i);
            cur = if Self::pval(seed, v, over) { self.bdd.high(i) } else { self.bdd.low(i) };
        }
        None
    }
    fn arg_at(&self, tok: &str, seed: u64, over: &[(u32, bool)]) -> Option<bool> {
        let r = self.fetch(tok)?;
        self.eval_at(r, seed, over)
    }
    fn expr_at(&self, toks: &[&str], pos: &mut usize, seed: u64) -> Option<bool> {
        let t = *toks.get(*pos)?;
        *pos += 1;
        match t {
            "!" | "-" => self.expr_at(toks, pos, seed).map(|x| !x),
            "&" | "|" | "^" => {
                let a = self.expr_at(toks, pos, seed)?;
                let b = self.expr_at(toks, pos, seed)?;
                Some(match t {
                    "&" => a & b,
                    "|" => a | b,
                    _ => a ^ b,
                })
            }
            _ => self.arg_at(t.strip_prefix('t')?, seed, &[]),
        }
    }
    /// the value the result of a handle-producing line must have under assignment `seed`, from its arguments' current values
    fn expected_at(&self, t: &[&str], seed: u64) -> Option<(bool, &'static str)> {
        let a = |i: usize| self.arg_at(t[i], seed, &[]);
        let pu = |s: &str| -> u32 { s.parse().unwrap() };
        Some(match t[0] {
            "const" => (t[1] == "1", "C15"),
            "var" => (Self::pval(seed, pu(t[1]), &[]), "C15"),
            "node" => (if Self::pval(seed, pu(t[1]), &[]) { a(3)? } else { a(2)? }, "C15"),
            "ite" => (if a(1)? { a(2)? } else { a(3)? }, "C02"),
            "and" => (a(1)? & a(2)?, "C03"),
            "or" => (a(1)? | a(2)?, "C03"),
            "xor" => (a(1)? ^ a(2)?, "C03"),
            "eq" => (!(a(1)? ^ a(2)?), "C03"),
            "imply" => (!a(1)? | a(2)?, "C03"),
            "not" => (!a(1)?, "C03"),
            "andmany" | "ormany" => {
                let k: usize = t[1].parse().unwrap();
                let mut acc = t[0] == "andmany";
                for i in 0..k {
                    let x = a(2 + i)?;
                    acc = if t[0] == "andmany" { acc & x } else { acc | x };
                }
                (acc, "C03")
            }
            "cube" | "clause" => {
                let k: usize = t[1].parse().unwrap();
                let mut acc = t[0] == "cube";
                for i in 0..k {
                    let l: i32 = t[2 + i].parse().unwrap();
                    let x = Self::pval(seed, l.unsigned_abs(), &[]) == (l > 0);
                    acc = if t[0] == "cube" { acc & x } else { acc | x };
                }
                (acc, "C15")
            }
            "expr" => {
                let mut pos = 1;
                (self.expr_at(t, &mut pos, seed)?, "C03")
            }
            "subst" => (self.arg_at(t[1], seed, &[(pu(t[2]), t[3] == "1")])?, "C08"),
            "substm" => {
                let k: usize = t[2].parse().unwrap();
                let over: Vec<(u32, bool)> = (0..k).map(|i| (pu(t[3 + 2 * i]), t[4 + 2 * i] == "1")).collect();
                (self.arg_at(t[1], seed, &over)?, "C08")
            }
            "cofcube" => {
                let k: usize = t[2].parse().unwrap();
                let over: Vec<(u32, bool)> = (0..k).map(|i| { let l: i32 = t[3 + i].parse().unwrap(); (l.unsigned_abs(), l > 0) }).collect();
                (self.arg_at(t[1], seed, &over)?, "C08")
            }
            "compose" => {
                let g = a(3)?;
                (self.arg_at(t[1], seed, &[(pu(t[2]), g)])?, "C09")
            }
            "low" | "high" => {
                let f = self.fetch(t[1])?;
                let v = self.bdd.variable(f.index());
                (self.arg_at(t[1], seed, &[(v, t[0] == "high")])?, "C08")
            }
            "topcof0" | "topcof1" => (self.arg_at(t[1], seed, &[(pu(t[2]), t[0] == "topcof1")])?, "C08"),
            _ => return None,
        })
    }
    const POINTS: [u64; 14] = [0, 1, 2, 3, 5, 7, 11, 13, 0xA5A5, 0x5A5A, 0xFFFF_0000, 0x1234_5678_9ABC, 0xDEAD_BEEF, 0x0F0F_F0F0_1111];

    /// pointwise checks of a handle-producing line (used when the truth-table oracles cannot follow: more than `nvars` variables)
    fn point_check_reg(&mut self, t: &[&str], r: Ref) {
        for &seed in Self::POINTS.iter() {
            let got = match self.eval_at(r, seed, &[]) {
                Some(x) => x,
                None => {
                    self.oracle_fail("C04", &format!("{} returned {} which does not evaluate (dangling or cyclic diagram)", t.join(" "), r));
                    return;
                }
            };
            if let Some((want, prop)) = self.expected_at(t, seed) {
                if want != got {
                    self.oracle_fail(prop, &format!("{} returned {}: value {} under assignment #{:x}, expected {}", t.join(" "), r, got, seed, want));
                    if self.gcs_done > 0 {
                        self.oracle_fail("C05", &format!("after {} collection(s): {} returned {}: value {} under assignment #{:x}, expected {}", self.gcs_done, t.join(" "), r, got, seed, want));
                    }
                    return;
                }
            }
            // constrain / restrict agree with f wherever g holds
            if t[0] == "constrain" || t[0] == "restrict" {
                if let (Some(f), Some(g)) = (self.arg_at(t[1], seed, &[]), self.arg_at(t[2], seed, &[])) {
                    if g && f != got {
                        self.oracle_fail(if t[0] == "constrain" { "C10" } else { "C11" }, &format!("{} returned {}: differs from f at assignment #{:x} where g holds", t.join(" "), r, seed));
                        return;
                    }
                }
                // ... and when g is a cube (a conjunction of literals) the result is the plain cofactor of f, everywhere
                if let (Some(fr), Some(gr)) = (self.fetch(t[1]), self.fetch(t[2])) {
                    if let Some(cube) = self.as_cube(gr) {
                        if self.eval_at(fr, seed, &cube) != Some(got) {
                            self.oracle_fail(if t[0] == "constrain" { "C10" } else { "C11" },
                                &format!("{} returned {}: g is a cube of {} literals, but at assignment #{:x} the result differs from the cofactor of f", t.join(" "), r, cube.len(), seed));
                            return;
                        }
                    }
                }
            }
        }
    }

    /// pointwise checks of query answers, for any number of variables
    fn point_check_query(&mut self, t: &[&str], val: &str) {
        let parse_path = |p: &str| -> Vec<i32> { p.trim_matches(|ch| ch == '[' || ch == ']').split(',').filter(|s| !s.is_empty()).map(|s| s.parse().unwrap()).collect() };
        match t[0] {
            "onesat" => {
                let Some(f) = self.fetch(t[1]) else { return };
                if val == "none" {
                    if f != self.bdd.zero {
                        self.oracle_fail("C14", &format!("{} = none but the handle {} is not the constant false", t.join(" "), f));
                    }
                    return;
                }
                let lits = parse_path(val);
                if !lits.windows(2).all(|w| w[0].unsigned_abs() < w[1].unsigned_abs()) || lits.iter().any(|&l| l == 0) {
                    self.oracle_fail("C14", &format!("{} = {} is not strictly increasing", t.join(" "), val));
                    return;
                }
                let over: Vec<(u32, bool)> = lits.iter().map(|&l| (l.unsigned_abs(), l > 0)).collect();
                for &seed in Self::POINTS.iter() {
                    if self.eval_at(f, seed, &over) != Some(true) {
                        self.oracle_fail("C14", &format!("{} = {}: the completion #{:x} does not satisfy the function", t.join(" "), val, seed));
                        return;
                    }
                }
            }
            "paths" => {
                let Some(f) = self.fetch(t[1]) else { return };
                if val == "nopaths" {
                    if f != self.bdd.zero {
                        self.oracle_fail("C14", &format!("{} yields no path but the handle {} is not the constant false", t.join(" "), f));
                    }
                    return;
                }
                let paths: Vec<Vec<i32>> = val.split(' ').take(3000).map(parse_path).collect();
                for p in &paths {
                    if !p.windows(2).all(|w| w[0].unsigned_abs() < w[1].unsigned_abs()) || p.iter().any(|&l| l == 0) {
                        self.oracle_fail("C14", &format!("{}: path {:?} is not an increasing cube", t.join(" "), p));
                        return;
                    }
                    let over: Vec<(u32, bool)> = p.iter().map(|&l| (l.unsigned_abs(), l > 0)).collect();
                    for &seed in [0u64, 1, 0xA5A5].iter() {
                        if self.eval_at(f, seed, &over) != Some(true) {
                            self.oracle_fail("C14", &format!("{}: a completion of path {:?} does not satisfy the function", t.join(" "), p));
                            return;
                        }
                    }
                }
                // every sampled assignment satisfying f is covered by exactly one path
                if paths.len() < 3000 {
                    for &seed in Self::POINTS.iter() {
                        let fv = self.eval_at(f, seed, &[]);
                        let n = paths.iter().filter(|p| p.iter().all(|&l| Self::pval(seed, l.unsigned_abs(), &[]) == (l > 0))).count();
                        if fv == Some(true) && n != 1 || fv == Some(false) && n != 0 {
                            self.oracle_fail("C14", &format!("{}: assignment #{:x} (f = {:?}) is covered by {} paths", t.join(" "), seed, fv, n));
                            return;
                        }
                    }
                }
            }
            "itec" => {
                let want = match val {
                    "true" => true,
                    "false" => false,
                    _ => return,
                };
                for &seed in Self::POINTS.iter() {
                    if let (Some(f), Some(g), Some(h)) = (self.arg_at(t[1], seed, &[]), self.arg_at(t[2], seed, &[]), self.arg_at(t[3], seed, &[])) {
                        if (if f { g } else { h }) != want {
                            self.oracle_fail("C12", &format!("{} answered {} but ITE is {} under assignment #{:x}", t.join(" "), val, !want, seed));
                            return;
                        }
                    }
                }
            }
            "implies" => {
                if val != "1" {
                    return;
                }
                for &seed in Self::POINTS.iter() {
                    if let (Some(f), Some(g)) = (self.arg_at(t[1], seed, &[]), self.arg_at(t[2], seed, &[])) {
                        if f && !g {
                            self.oracle_fail("C12", &format!("{} answered true but f holds and g does not under assignment #{:x}", t.join(" "), seed));
                            return;
                        }
                    }
                }
            }
            "size" => {
                if let Some(fr) = self.fetch(t[1]) {
                    let recount = self.count_reachable(fr);
                    if val != recount.to_string() {
                        self.oracle_fail("C04", &format!("size({}) = {}, but {} nodes are reachable", fr, val, recount));
                        self.oracle_fail("C07", &format!("size({}) = {}, but {} nodes are reachable", fr, val, recount));
                    }
                }
            }
            _ => {}
        }
    }

    /// Is every variable of r's diagram strictly greater than v (or r terminal)?
    fn below(&self, v: u32, r: Ref) -> bool {
        r.index() == 1 || v < self.bdd.variable(r.index())
    }

    fn exec(&self, t: &[&str]) -> Step {
        let bdd = &self.bdd;
        let p_u32 = |s: &str| -> u32 { s.parse().unwrap() };
        let p_i32 = |s: &str| -> i32 { s.parse().unwrap() };
        match t[0] {
            "const" => Step::Reg(Some(if t[1] == "1" { bdd.one } else { bdd.zero })),
            "var" => {
                let v = p_u32(t[1]);
                Step::Reg(if v > 0 { Some(bdd.mk_var(v)) } else { None })
            }
            "node" => {
                let v = p_u32(t[1]);
                Step::Reg(match (self.fetch(t[2]), self.fetch(t[3])) {
                    (Some(lo), Some(hi)) if v > 0 && self.below(v, lo) && self.below(v, hi) => Some(bdd.mk_node(v, lo, hi)),
                    _ => None,
                })
            }
            "ite" => Step::Reg(match (self.fetch(t[1]), self.fetch(t[2]), self.fetch(t[3])) {
                (Some(f), Some(g), Some(h)) => Some(bdd.apply_ite(f, g, h)),
                _ => None,
            }),
            "and" | "or" | "xor" | "eq" | "imply" => Step::Reg(match (self.fetch(t[1]), self.fetch(t[2])) {
                (Some(f), Some(g)) => Some(match t[0] {
                    "and" => bdd.apply_and(f, g),
                    "or" => bdd.apply_or(f, g),
                    "xor" => bdd.apply_xor(f, g),
                    "eq" => bdd.apply_eq(f, g),
                    _ => bdd.apply_imply(f, g),
                }),
                _ => None,
            }),
            "not" => Step::Reg(self.fetch(t[1]).map(|f| bdd.apply_not(f))),
            "andmany" | "ormany" => {
                let k: usize = t[1].parse().unwrap();
                Step::Reg(self.fetch_all(&t[2..2 + k]).map(|l| if t[0] == "andmany" { bdd.apply_and_many(l) } else { bdd.apply_or_many(l) }))
            }
            "cube" | "clause" => {
                let k: usize = t[1].parse().unwrap();
                let lits: Vec<i32> = t[2..2 + k].iter().map(|s| p_i32(s)).collect();
                let mut vars: Vec<u32> = lits.iter().map(|l| l.unsigned_abs()).collect();
                vars.sort();
                let distinct = vars.windows(2).all(|w| w[0] != w[1]);
                if lits.iter().all(|&l| l != 0) && distinct {
                    Step::Reg(Some(if t[0] == "cube" { bdd.cube(lits) } else { bdd.clause(lits) }))
                } else {
                    Step::Reg(None)
                }
            }
            "expr" => {
                let mut pos = 1;
                match self.parse_expr(t, &mut pos) {
                    Some((e, _)) => Step::Reg(Some(bdd.eval(e))),
                    None => Step::Reg(None),
                }
            }
            "subst" => {
                let v = p_u32(t[2]);
                Step::Reg(match self.fetch(t[1]) {
                    Some(f) if v > 0 => Some(bdd.substitute(f, v, t[3] == "1")),
                    _ => None,
                })
            }
            "substm" => {
                let k: usize = t[2].parse().unwrap();
                let mut m: HashMap<u32, bool> = HashMap::new();
                let mut distinct = true;
                for i in 0..k {
                    if m.insert(p_u32(t[3 + 2 * i]), t[4 + 2 * i] == "1").is_some() {
                        distinct = false;
                    }
                }
                Step::Reg(match self.fetch(t[1]) {
                    Some(f) if distinct => Some(bdd.substitute_multi(f, &m)),
                    _ => None,
                })
            }
            "cofcube" => {
                let k: usize = t[2].parse().unwrap();
                let lits: Vec<i32> = t[3..3 + k].iter().map(|s| p_i32(s)).collect();
                let asc = lits.iter().all(|&l| l != 0) && lits.windows(2).all(|w| w[0].unsigned_abs() < w[1].unsigned_abs());
                Step::Reg(match self.fetch(t[1]) {
                    Some(f) if asc => Some(bdd.cofactor_cube(f, &lits)),
                    _ => None,
                })
            }
            "compose" => Step::Reg(match (self.fetch(t[1]), self.fetch(t[3])) {
                (Some(f), Some(g)) => Some(bdd.compose(f, p_u32(t[2]), g)),
                _ => None,
            }),
            "constrain" => Step::Reg(match (self.fetch(t[1]), self.fetch(t[2])) {
                (Some(f), Some(g)) => Some(bdd.constrain(f, g)),
                _ => None,
            }),
            "restrict" => Step::Reg(match (self.fetch(t[1]), self.fetch(t[2])) {
                (Some(f), Some(g)) => Some(bdd.restrict(f, g)),
                _ => None,
            }),
            "low" | "high" => Step::Reg(match self.fetch(t[1]) {
                Some(f) if f.index() != 1 => Some(if t[0] == "low" { bdd.low_node(f) } else { bdd.high_node(f) }),
                _ => None,
            }),
            "topcof0" | "topcof1" => {
                let v = p_u32(t[2]);
                Step::Reg(match self.fetch(t[1]) {
                    Some(f) if v > 0 && (f.index() == 1 || v <= bdd.variable(f.index())) => {
                        let (c0, c1) = bdd.top_cofactors(f, v);
                        Some(if t[0] == "topcof0" { c0 } else { c1 })
                    }
                    _ => None,
                })
            }
            "itec" => Step::Query(match (self.fetch(t[1]), self.fetch(t[2]), self.fetch(t[3])) {
                (Some(f), Some(g), Some(h)) => Some(match bdd.ite_constant(f, g, h) {
                    None => "none".to_string(),
                    Some(true) => "true".to_string(),
                    Some(false) => "false".to_string(),
                }),
                _ => None,
            }),
            "implies" => Step::Query(match (self.fetch(t[1]), self.fetch(t[2])) {
                (Some(f), Some(g)) => Some(format!("{}", bdd.is_implies(f, g) as u8)),
                _ => None,
            }),
            "size" => Step::Query(self.fetch(t[1]).map(|f| format!("{}", bdd.size(f)))),
            "desc" => {
                let k: usize = t[1].parse().unwrap();
                Step::Query(self.fetch_all(&t[2..2 + k]).map(|l| {
                    let mut d: Vec<u32> = bdd.descendants(l).into_iter().collect();
                    d.sort();
                    d.iter().map(|x| x.to_string()).collect::<Vec<_>>().join(" ")
                }))
            }
            "satcount" => {
                let n: usize = t[2].parse().unwrap();
                Step::Query(self.fetch(t[1]).map(|f| format!("{}", bdd.sat_count(f, n))))
            }
            "onesat" => Step::Query(self.fetch(t[1]).map(|f| match bdd.one_sat(f) {
                None => "none".to_string(),
                Some(p) => format!("[{}]", p.iter().map(|x| x.to_string()).collect::<Vec<_>>().join(",")),
            })),
            "paths" => Step::Query(self.fetch(t[1]).map(|f| {
                let mut s = String::new();
                let mut count = 0usize;
                for p in bdd.paths(f) {
                    count += 1;
                    if count > 100_000 {
                        break;
                    }
                    if !s.is_empty() {
                        s.push(' ');
                    }
                    write!(s, "[{}]", p.iter().map(|x| x.to_string()).collect::<Vec<_>>().join(",")).unwrap();
                }
                if s.is_empty() {
                    s.push_str("nopaths");
                }
                s
            })),
            "bracket" => Step::Query(self.fetch(t[1]).map(|f| bdd.to_bracket_string(f))),
            "dot" => {
                let k: usize = t[1].parse().unwrap();
                Step::Query(self.fetch_all(&t[2..2 + k]).map(|l| {
                    let text = bdd.to_dot(&l).unwrap();
                    let mut lines: Vec<&str> = text.lines().collect();
                    lines.sort();
                    lines.join(" ; ")
                }))
            }
            "gc" => {
                let k: usize = t[1].parse().unwrap();
                match self.fetch_all(&t[2..2 + k]) {
                    Some(roots) => {
                        let alive = bdd.descendants(roots.iter().copied());
                        bdd.collect_garbage(&roots);
                        Step::Gc(Some(alive))
                    }
                    None => Step::Gc(None),
                }
            }
            "dump" => Step::Dump,
            other => panic!("bad history line: {}", other),
        }
    }

    /// The expected meaning of the result of a handle-producing line, from the recorded meanings of its arguments.
    fn expected(&self, t: &[&str]) -> Option<(TT, &'static str)> {
        let c = &self.ctx;
        let a = |i: usize| self.fetch_tt(t[i]);
        let p_u32 = |s: &str| -> u32 { s.parse().unwrap() };
        Some(match t[0] {
            "const" => (if t[1] == "1" { c.one() } else { 0 }, "C15"),
            "var" => {
                let v = p_u32(t[1]);
                if v > c.n {
                    return None;
                }
                (c.var(v), "C15")
            }
            "node" => {
                let v = p_u32(t[1]);
                if v > c.n {
                    return None;
                }
                (c.ite(c.var(v), a(3)?, a(2)?), "C15")
            }
            "ite" => (c.ite(a(1)?, a(2)?, a(3)?), "C02"),
            "and" => (a(1)? & a(2)?, "C03"),
            "or" => (a(1)? | a(2)?, "C03"),
            "xor" => (a(1)? ^ a(2)?, "C03"),
            "eq" => (c.not(a(1)? ^ a(2)?), "C03"),
            "imply" => (c.not(a(1)?) | a(2)?, "C03"),
            "not" => (c.not(a(1)?), "C03"),
            "andmany" | "ormany" => {
                let k: usize = t[1].parse().unwrap();
                let mut acc = if t[0] == "andmany" { c.one() } else { 0 };
                for i in 0..k {
                    let x = a(2 + i)?;
                    acc = if t[0] == "andmany" { acc & x } else { acc | x };
                }
                (acc, "C03")
            }
            "cube" | "clause" => {
                let k: usize = t[1].parse().unwrap();
                let lits: Vec<i32> = t[2..2 + k].iter().map(|s| s.parse().unwrap()).collect();
                if lits.iter().any(|l| l.unsigned_abs() > c.n) {
                    return None;
                }
                (if t[0] == "cube" { c.cube(&lits) } else { c.clause(&lits) }, "C15")
            }
            "expr" => {
                let mut pos = 1;
                let (_, tt) = self.parse_expr(t, &mut pos)?;
                (tt?, "C03")
            }
            "subst" => {
                let v = p_u32(t[2]);
                let f = a(1)?;
                (if v > c.n { f } else { c.cof(f, v, t[3] == "1") }, "C08")
            }
            "substm" => {
                let k: usize = t[2].parse().unwrap();
                let mut f = a(1)?;
                for i in 0..k {
                    let v = p_u32(t[3 + 2 * i]);
                    if v >= 1 && v <= c.n {
                        f = c.cof(f, v, t[4 + 2 * i] == "1");
                    }
                }
                (f, "C08")
            }
            "cofcube" => {
                let k: usize = t[2].parse().unwrap();
                let mut f = a(1)?;
                for i in 0..k {
                    let l: i32 = t[3 + i].parse().unwrap();
                    let v = l.unsigned_abs();
                    if v <= c.n {
                        f = c.cof(f, v, l > 0);
                    }
                }
                (f, "C08")
            }
            "compose" => {
                let v = p_u32(t[2]);
                let f = a(1)?;
                let g = a(3)?;
                (if v == 0 || v > c.n { f } else { c.compose(f, v, g) }, "C09")
            }
            "constrain" => (c.constrain(a(1)?, a(2)?), "C10"),
            "restrict" => (c.restrict(a(1)?, a(2)?), "C11"),
            _ => return None,
        })
    }

    fn after_reg(&mut self, t: &[&str], r: Ref) {
        // meaning of the result, read from the store
        let got = self.tt_of(r);
        self.tts.push(got);
        if !self.oracle {
            return;
        }
        self.oracle_evals += 1;
        self.in_constructor = matches!(t[0], "const" | "var" | "node" | "cube" | "clause");
        self.after_reg_checks(t, r, got);
        self.in_constructor = false;
    }

    fn after_reg_checks(&mut self, t: &[&str], r: Ref, got: Option<TT>) {
        self.check_structure(r);
        let Some(got) = got else {
            self.point_check_reg(t, r);
            return;
        };
        if let Some((want, prop)) = self.expected(t) {
            if want != got {
                self.oracle_fail(prop, &format!("{} returned {} meaning {:x}, expected {:x}", t.join(" "), r, got, want));
                if self.gcs_done > 0 {
                    // C05: all later operations on surviving handles remain correct after a collection
                    self.oracle_fail("C05", &format!("after {} collection(s): {} returned {} meaning {:x}, expected {:x}", self.gcs_done, t.join(" "), r, got, want));
                }
            }
        }
        // accessors (C08): low/high/topcof are the cofactors w.r.t. the top variable / the given variable
        match t[0] {
            "low" | "high" => {
                if let (Some(f), Some(fr)) = (self.fetch_tt(t[1]), self.fetch(t[1])) {
                    let v = self.bdd.variable(fr.index());
                    if v >= 1 && v <= self.ctx.n {
                        let want = self.ctx.cof(f, v, t[0] == "high");
                        if want != got {
                            self.oracle_fail("C08", &format!("{} of {} is {:x}, cofactor is {:x}", t[0], fr, got, want));
                        }
                    }
                }
            }
            "topcof0" | "topcof1" => {
                if let Some(f) = self.fetch_tt(t[1]) {
                    let v: u32 = t[2].parse().unwrap();
                    if v >= 1 && v <= self.ctx.n {
                        let want = self.ctx.cof(f, v, t[0] == "topcof1");
                        if want != got {
                            self.oracle_fail("C08", &format!("{} is {:x}, cofactor is {:x}", t.join(" "), got, want));
                        }
                    }
                }
            }
            "subst" | "substm" | "cofcube" => {
                // the result no longer depends on the fixed variables
                let vars: Vec<u32> = match t[0] {
                    "subst" => vec![t[2].parse().unwrap()],
                    "substm" => {
                        let k: usize = t[2].parse().unwrap();
                        (0..k).map(|i| t[3 + 2 * i].parse().unwrap()).collect()
                    }
                    _ => {
                        let k: usize = t[2].parse().unwrap();
                        (0..k).map(|i| t[3 + i].parse::<i32>().unwrap().unsigned_abs()).collect()
                    }
                };
                for v in vars {
                    if v >= 1 && v <= self.ctx.n && self.ctx.depends(got, v) {
                        self.oracle_fail("C08", &format!("{} still depends on x{}", t.join(" "), v));
                    }
                }
            }
            "restrict" => {
                if let (Some(f), Some(g)) = (self.fetch_tt(t[1]), self.fetch_tt(t[2])) {
                    if g != 0 {
                        if (got ^ f) & g != 0 {
                            self.oracle_fail("C11", &format!("{} differs from f on the care set", t.join(" ")));
                        }
                        for v in self.ctx.support(got) {
                            if !self.ctx.depends(f, v) {
                                self.oracle_fail("C11", &format!("{} depends on x{} which f does not", t.join(" "), v));
                            }
                        }
                    }
                }
            }
            "constrain" => {
                if let (Some(f), Some(g)) = (self.fetch_tt(t[1]), self.fetch_tt(t[2])) {
                    if g != 0 && (got ^ f) & g != 0 {
                        self.oracle_fail("C10", &format!("{} differs from f where g holds", t.join(" ")));
                    }
                }
            }
            _ => {}
        }
        // canonicity (C01): equal meaning <=> equal handle, among all live registers
        let k = self.regs.len() - 1;
        for j in 0..k {
            if let (Some(rj), Some(tj)) = (self.regs[j], self.tts[j]) {
                if (tj == got) != (rj == r) {
                    if tj == got {
                        self.oracle_fail("C01", &format!("registers {} ({}) and {} ({}) denote the same function {:x}", j, rj, k, r, got));
                    } else if self.tt_of(rj) == Some(tj) {
                        self.oracle_fail("C01", &format!("handle {} denotes both {:x} (register {}) and {:x} (register {})", r, tj, j, got, k));
                    }
                    break;
                }
                if tj == self.ctx.not(got) && rj != -r {
                    self.oracle_fail("C01", &format!("registers {} ({}) and {} ({}) are complements but the handles are not", j, rj, k, r));
                    break;
                }
            }
        }
    }

    /// Every live register still means what it meant when it was produced (C05, C06: nothing stored was overwritten).
    fn recheck_registers(&mut self, prop: &str) {
        for j in 0..self.regs.len() {
            if let (Some(rj), Some(tj)) = (self.regs[j], self.tts[j]) {
                let now = self.tt_of(rj);
                if now != Some(tj) {
                    self.oracle_fail(prop, &format!("register {} ({}) meant {:x}, now means {:?}", j, rj, tj, now.map(|x| format!("{:x}", x))));
                    return;
                }
            }
        }
    }

    fn query_oracle(&mut self, t: &[&str], val: &str) {
        let c = self.ctx;
        match t[0] {
            "itec" => {
                if let (Some(f), Some(g), Some(h)) = (self.fetch_tt(t[1]), self.fetch_tt(t[2]), self.fetch_tt(t[3])) {
                    let v = c.ite(f, g, h);
                    let want = if v == 0 {
                        "false"
                    } else if v == c.one() {
                        "true"
                    } else {
                        "none"
                    };
                    if want != val {
                        self.oracle_fail("C12", &format!("{} answered {}, the function {:x} says {}", t.join(" "), val, v, want));
                    }
                }
            }
            "implies" => {
                if let (Some(f), Some(g)) = (self.fetch_tt(t[1]), self.fetch_tt(t[2])) {
                    let want = if f & !g == 0 { "1" } else { "0" };
                    if want != val {
                        self.oracle_fail("C12", &format!("{} answered {}, expected {}", t.join(" "), val, want));
                    }
                }
            }
            "size" => {
                if let (Some(f), Some(fr)) = (self.fetch_tt(t[1]), self.fetch(t[1])) {
                    let want = c.canonical_size(f);
                    if val != want.to_string() {
                        self.oracle_fail("C04", &format!("size({}) = {}, the function {:x} has {} sub-functions", fr, val, f, want));
                    }
                    let recount = self.count_reachable(fr);
                    if val != recount.to_string() {
                        self.oracle_fail("C04", &format!("size({}) = {}, but {} nodes are reachable", fr, val, recount));
                        self.oracle_fail("C07", &format!("size({}) = {}, but {} nodes are reachable", fr, val, recount));
                    }
                }
            }
            "satcount" => {
                if let Some(fr) = self.fetch(t[1]) {
                    let n: u32 = t[2].parse().unwrap();
                    if n <= 100_000 {
                        if let Some(want) = self.ref_satcount(fr, n) {
                            if want.to_string() != val {
                                self.oracle_fail("C13", &format!("{} = {}, a recount over the stored nodes gives {}", t.join(" "), val, want));
                            }
                        }
                    }
                }
                if let (Some(f), Some(_)) = (self.fetch_tt(t[1]), self.fetch(t[1])) {
                    let n: u32 = t[2].parse().unwrap();
                    let sup = c.support(f);
                    if sup.iter().all(|&v| v <= n) {
                        let pc = f.count_ones() as u64; // over c.n variables
                        let want: num_bigint::BigUint = if n >= c.n {
                            num_bigint::BigUint::from(pc) << ((n - c.n) as usize)
                        } else {
                            num_bigint::BigUint::from(pc >> (c.n - n))
                        };
                        if want.to_string() != val {
                            self.oracle_fail("C13", &format!("{} = {}, the function {:x} has {} models", t.join(" "), val, f, want));
                        }
                    }
                }
            }
            "onesat" => {
                if let Some(f) = self.fetch_tt(t[1]) {
                    if val == "none" {
                        if f != 0 {
                            self.oracle_fail("C14", &format!("{} = none but the function {:x} is satisfiable", t.join(" "), f));
                        }
                    } else {
                        let lits: Vec<i32> = val.trim_matches(|ch| ch == '[' || ch == ']').split(',').filter(|s| !s.is_empty()).map(|s| s.parse().unwrap()).collect();
                        let incr = lits.windows(2).all(|w| w[0].unsigned_abs() < w[1].unsigned_abs());
                        if !incr || lits.iter().any(|&l| l == 0) {
                            self.oracle_fail("C14", &format!("{} = {} is not strictly increasing", t.join(" "), val));
                        } else if lits.iter().all(|l| l.unsigned_abs() <= c.n) {
                            let cube = c.cube(&lits);
                            if f == 0 || cube & !f != 0 {
                                self.oracle_fail("C14", &format!("{} = {}: not every completion satisfies {:x}", t.join(" "), val, f));
                            }
                        }
                    }
                }
            }
            "paths" => {
                if let Some(f) = self.fetch_tt(t[1]) {
                    let mut union: TT = 0;
                    let mut ok = true;
                    let mut total: u64 = 0;
                    if val != "nopaths" {
                        for p in val.split(' ') {
                            let lits: Vec<i32> = p.trim_matches(|ch| ch == '[' || ch == ']').split(',').filter(|s| !s.is_empty()).map(|s| s.parse().unwrap()).collect();
                            let incr = lits.windows(2).all(|w| w[0].unsigned_abs() < w[1].unsigned_abs());
                            if !incr || lits.iter().any(|&l| l == 0 || l.unsigned_abs() > c.n) {
                                self.oracle_fail("C14", &format!("{}: path {} is not an increasing cube", t.join(" "), p));
                                ok = false;
                                break;
                            }
                            let cube = c.cube(&lits);
                            if cube & union != 0 {
                                self.oracle_fail("C14", &format!("{}: path {} overlaps an earlier path", t.join(" "), p));
                                ok = false;
                                break;
                            }
                            union |= cube;
                            total += 1u64 << (c.n as usize - lits.len());
                        }
                    }
                    if ok && union != f {
                        self.oracle_fail("C14", &format!("{}: the paths cover {:x}, the function is {:x}", t.join(" "), union, f));
                    }
                    if ok && total != f.count_ones() as u64 {
                        self.oracle_fail("C14", &format!("{}: path weights sum to {}, the function has {} models", t.join(" "), total, f.count_ones()));
                    }
                }
            }
            "bracket" => {
                if let Some(f) = self.fetch_tt(t[1]) {
                    match crate::export::bracket_meaning(&c, val) {
                        Some(m) if m == f => {}
                        Some(m) => self.oracle_fail("C16", &format!("{}: the string reads as {:x}, the handle means {:x}", t.join(" "), m, f)),
                        None => self.oracle_fail("C16", &format!("{}: the string does not parse: {}", t.join(" "), val)),
                    }
                }
            }
            "dot" => {
                let k: usize = t[1].parse().unwrap();
                if let Some(roots) = self.fetch_all(&t[2..2 + k]) {
                    if let Err(e) = self.dot_structure_check(val, &roots) {
                        self.oracle_fail("C16", &format!("dot {}: the text does not describe the stored diagram: {}", k, e));
                    }
                }
                let want: Option<Vec<TT>> = (0..k).map(|i| self.fetch_tt(t[2 + i])).collect();
                if let (Some(want), Some(roots)) = (want, self.fetch_all(&t[2..2 + k])) {
                    let reach: HashSet<u32> = self.bdd.descendants(roots.iter().copied());
                    match crate::export::dot_meaning(&c, val, k) {
                        Ok((got, declared)) => {
                            if got != want {
                                self.oracle_fail("C16", &format!("{}: DOT roots read as {:x?}, the handles mean {:x?}", t.join(" "), got, want));
                            }
                            let mut d2 = declared.clone();
                            d2.sort();
                            let mut r2: Vec<u32> = reach.iter().copied().filter(|&i| i != 1).collect();
                            r2.sort();
                            if d2 != r2 {
                                self.oracle_fail("C16", &format!("{}: DOT declares nodes {:?}, reachable are {:?}", t.join(" "), d2, r2));
                            }
                        }
                        Err(e) => self.oracle_fail("C16", &format!("{}: DOT text is not faithful: {}", t.join(" "), e)),
                    }
                }
            }
            "desc" => {}
            _ => {}
        }
    }

    fn run(&mut self, lines: &[String]) {
        for (ln, line) in lines.iter().enumerate() {
            self.lineno = ln + 1;
            let t: Vec<&str> = line.split_whitespace().collect();
            if t.is_empty() || t[0].starts_with('#') || t[0] == "cfg" || t[0] == "nvars" {
                continue;
            }
            let is_query = matches!(t[0], "itec" | "implies" | "size" | "desc" | "satcount" | "onesat" | "paths" | "bracket" | "dot");
            let before = if self.oracle && (is_query || t[0] == "dump") { Some(self.fingerprint()) } else { None };
            if self.oracle {
                self.note_case(&t);
            }
            let step = catch_unwind(AssertUnwindSafe(|| self.exec(&t)));
            let step = match step {
                Ok(s) => s,
                Err(e) => {
                    let msg = if let Some(s) = e.downcast_ref::<&str>() {
                        s.to_string()
                    } else if let Some(s) = e.downcast_ref::<String>() {
                        s.clone()
                    } else {
                        "?".to_string()
                    };
                    if msg.contains("Storage is full") {
                        writeln!(self.out, "panic full").unwrap();
                        if self.oracle {
                            // C06: the stop is legitimate only when every cell is in use
                            let (real, cap) = { let s = self.bdd.storage(); (s.real_size(), s.capacity()) };
                            if real + 1 < cap {
                                self.oracle_fail("C06", &format!("'Storage is full' with {} of {} cells in use", real, cap - 1));
                            }
                            self.recheck_registers("C06");
                        }
                    } else {
                        writeln!(self.out, "panic other {}", msg.replace('\n', " ")).unwrap();
                        if self.oracle {
                            let props: &[&str] = match t[0] {
                                "itec" | "implies" => &["C12"],
                                "ite" => &["C02"],
                                "gc" => &["C05", "C06"],
                                "and" | "or" | "xor" | "eq" | "imply" | "not" | "andmany" | "ormany" | "expr" => &["C03", "C02"],
                                "subst" | "substm" | "cofcube" | "low" | "high" | "topcof0" | "topcof1" => &["C08"],
                                "compose" => &["C09"],
                                "constrain" => &["C10"],
                                "restrict" => &["C11"],
                                "satcount" => &["C13"],
                                "onesat" | "paths" => &["C14"],
                                "const" | "var" | "node" | "cube" | "clause" => &["C15", "C17"],
                                "size" => &["C04", "C16"],
                                "desc" | "bracket" | "dot" | "dump" => &["C16"],
                                _ => &["C02"],
                            };
                            let mut shown: Vec<&str> = t.iter().take(12).copied().collect();
                            if t.len() > 12 {
                                shown.push("...");
                            }
                            for prop in props {
                                self.oracle_fail(prop, &format!("{} panicked: {}", shown.join(" "), msg.replace('\n', " ")));
                            }
                        }
                    }
                    break;
                }
            };
            match step {
                Step::Reg(Some(r)) => {
                    self.regs.push(Some(r));
                    let (rs, last) = { let s = self.bdd.storage(); (s.real_size(), s.size()) };
                    writeln!(self.out, "r {} {} {}", show_ref(r), rs, last).unwrap();
                    self.after_reg(&t, r);
                }
                Step::Reg(None) => {
                    self.regs.push(None);
                    self.tts.push(None);
                    writeln!(self.out, "skip").unwrap();
                }
                Step::Query(Some(v)) => {
                    writeln!(self.out, "q {}", v).unwrap();
                    if self.oracle {
                        self.oracle_evals += 1;
                        self.query_oracle(&t, &v);
                        if t.len() > 1 && self.fetch_tt(t[1]).is_none() {
                            self.point_check_query(&t, &v);
                        }
                        let after = self.fingerprint();
                        if Some(after) != before {
                            self.oracle_fail("C16", &format!("query {} changed the node store: {:?} -> {:?}", t.join(" "), before.unwrap(), after));
                            if matches!(t[0], "itec" | "implies") {
                                self.oracle_fail("C12", &format!("query {} changed the node store", t.join(" ")));
                            }
                            if t[0] == "satcount" {
                                self.oracle_fail("C13", &format!("query {} changed the node store", t.join(" ")));
                            }
                        }
                    }
                }
                Step::Query(None) => {
                    writeln!(self.out, "skip").unwrap();
                }
                Step::Gc(Some(alive)) => {
                    self.gcs_done += 1;
                    let mut dead = 0usize;
                    let mut newly: Vec<String> = Vec::new();
                    for j in 0..self.regs.len() {
                        match self.regs[j] {
                            Some(r) if alive.contains(&r.index()) => {}
                            Some(_) => {
                                self.regs[j] = None;
                                dead += 1;
                                newly.push(j.to_string());
                            }
                            None => dead += 1,
                        }
                    }
                    let (rs, last) = { let s = self.bdd.storage(); (s.real_size(), s.size()) };
                    writeln!(self.out, "gc {} {} {} d={}", rs, last, dead, newly.join(",")).unwrap();
                    if self.oracle {
                        self.oracle_evals += 1;
                        if rs != alive.len() {
                            self.oracle_fail("C06", &format!("after collection {} nodes are stored, {} are reachable from the roots", rs, alive.len()));
                        }
                        self.recheck_registers("C05");
                        if self.bdd.cache().entries().next().is_some() || self.bdd.size_cache().entries().next().is_some() {
                            self.oracle_fail("C07", "a cache entry survived the collection");
                        }
                        self.check_state();
                    }
                }
                Step::Gc(None) => {
                    writeln!(self.out, "skip").unwrap();
                }
                Step::Dump => {
                    self.dump();
                    if self.oracle {
                        self.check_state();
                    }
                }
            }
            if self.oracle {
                // C06: the high-water mark of used slots equals the peak number of simultaneously stored nodes
                let (rs, last) = { let s = self.bdd.storage(); (s.real_size(), s.size()) };
                self.peak_real = self.peak_real.max(rs);
                if last != self.peak_real {
                    self.oracle_fail("C06", &format!("high-water mark {} differs from the peak node count {}", last, self.peak_real));
                    self.peak_real = last; // report once per divergence
                }
            }
        }
        if self.oracle {
            self.lineno = lines.len() + 1;
            self.recheck_registers("C05");
            self.check_state();
        }
        let _ = self.storage_bits;
        writeln!(self.out, "end").unwrap();
        if self.oracle {
            writeln!(self.out, "INFO oracle_evals={} trivial_cases={}", self.oracle_evals, self.trivial_cases).unwrap();
            let mut cs: Vec<u64> = self.cases.iter().copied().collect();
            cs.sort();
            let txt: Vec<String> = cs.iter().map(|x| format!("{:x}", x)).collect();
            writeln!(self.out, "INFO cases {}", txt.join(" ")).unwrap();
        }
    }
}

pub fn run_bdd<W: Write>(lines: &[String], opts: &Opts, out: &mut W) {
    // configuration line: "cfg S B C" or "cfg default S"
    let cfg: Vec<&str> = lines
        .iter()
        .map(|l| l.split_whitespace().collect::<Vec<_>>())
        .find(|t| !t.is_empty() && t[0] == "cfg")
        .expect("history has no cfg line");
    let (bdd, bits) = if cfg[1] == "default" {
        let s: usize = cfg[2].parse().unwrap();
        (Bdd::new(s), s)
    } else {
        let s: usize = cfg[1].parse().unwrap();
        (Bdd::with_config(s, cfg[2].parse().unwrap(), cfg[3].parse().unwrap()), s)
    };
    let mut run = Run {
        bdd,
        regs: Vec::new(),
        tts: Vec::new(),
        ctx: Ctx::new(opts.nvars),
        oracle: opts.oracle,
        out,
        lineno: 0,
        peak_real: 1,
        oracle_evals: 0,
        storage_bits: bits,
        cases: HashSet::new(),
        trivial_cases: 0,
        gcs_done: 0,
        in_constructor: false,
    };
    run.run(lines);
}
