//! Independent readers for the two text exports: they rebuild Boolean functions from the text alone.

use std::collections::HashMap;

use crate::tt::{Ctx, TT};

struct P<'a> {
    s: &'a [char],
    i: usize,
}

impl<'a> P<'a> {
    fn peek(&self) -> Option<char> {
        self.s.get(self.i).copied()
    }
    fn eat(&mut self, c: char) -> bool {
        if self.peek() == Some(c) {
            self.i += 1;
            true
        } else {
            false
        }
    }
    fn ws(&mut self) {
        while self.peek() == Some(' ') {
            self.i += 1;
        }
    }
    fn num(&mut self) -> Option<u32> {
        let st = self.i;
        while self.peek().map_or(false, |c| c.is_ascii_digit()) {
            self.i += 1;
        }
        if st == self.i {
            return None;
        }
        self.s[st..self.i].iter().collect::<String>().parse().ok()
    }
}

fn bracket_node(c: &Ctx, p: &mut P, env: &mut HashMap<u32, TT>) -> Option<TT> {
    p.ws();
    if p.eat('⊤') {
        return Some(c.one());
    }
    if p.eat('⊥') {
        return Some(0);
    }
    let neg = p.eat('~');
    if !p.eat('@') {
        return None;
    }
    let idx = p.num()?;
    let m = if p.eat(':') {
        if !p.eat('(') || !p.eat('x') {
            return None;
        }
        let v = p.num()?;
        if v == 0 || v > c.n {
            return None;
        }
        if !p.eat(',') {
            return None;
        }
        // a node may not refer to itself: it is defined only after its children were read
        let hi = bracket_node(c, p, env)?;
        p.ws();
        if !p.eat(',') {
            return None;
        }
        let lo = bracket_node(c, p, env)?;
        p.ws();
        if !p.eat(')') {
            return None;
        }
        let m = c.ite(c.var(v), hi, lo);
        if env.insert(idx, m).is_some() {
            return None; // defined twice
        }
        m
    } else {
        *env.get(&idx)?
    };
    Some(if neg { c.not(m) } else { m })
}

/// Meaning of a bracket string `@4:(x1, @3:(x2, ⊤, ⊥), ~@3)`: first occurrence of a node is written in full
/// (describing the regular node), later occurrences as references; `~` complements the edge.
pub fn bracket_meaning(c: &Ctx, s: &str) -> Option<TT> {
    let chars: Vec<char> = s.chars().collect();
    let mut p = P { s: &chars, i: 0 };
    let mut env = HashMap::new();
    let m = bracket_node(c, &mut p, &mut env)?;
    p.ws();
    if p.i != chars.len() {
        return None;
    }
    Some(m)
}

/// Reads the DOT text (as the sorted lines joined by " ; ") back into functions. Returns the meaning of each
/// root r0..r{k-1} and the list of declared decision nodes (with multiplicity).
/// The DOT text as parsed records: node labels, then / else edges (else edges with their complement mark; target 0 = the
/// constant false), root declarations and root edges.
pub struct DotGraph {
    pub var: HashMap<u32, u32>,
    pub declared: Vec<u32>,
    pub high: HashMap<u32, Vec<u32>>,
    pub low: HashMap<u32, Vec<(u32, bool)>>,
    pub roots: HashMap<usize, Vec<(u32, bool)>>,
    pub root_decl: Vec<usize>,
}

pub fn dot_parse(text: &str) -> Result<DotGraph, String> {
    let mut var: HashMap<u32, u32> = HashMap::new();
    let mut declared: Vec<u32> = Vec::new();
    let mut high: HashMap<u32, Vec<u32>> = HashMap::new();
    let mut low: HashMap<u32, Vec<(u32, bool)>> = HashMap::new(); // (target, complemented); target 0 = false
    let mut roots: HashMap<usize, Vec<(u32, bool)>> = HashMap::new();
    let mut root_decl: Vec<usize> = Vec::new();
    for line in text.split(" ; ") {
        let line = line.trim();
        if line.is_empty() || line == "graph {" || line == "}" || line.starts_with("node [") || line.starts_with("{ rank=") {
            continue;
        }
        if line == "0 [shape=square, label=\"0\"];" || line == "1 [shape=square, label=\"1\"];" {
            continue;
        }
        if let Some(rest) = line.strip_prefix('r') {
            // root declaration or root edge
            if let Some((a, b)) = rest.split_once(" -- ") {
                let i: usize = a.parse().map_err(|_| format!("bad root edge: {}", line))?;
                let (tgt, attr) = match b.split_once(' ') {
                    Some((t, a)) => (t.to_string(), a.to_string()),
                    None => (b.trim_end_matches(';').to_string(), String::new()),
                };
                let tgt: u32 = tgt.trim_end_matches(';').parse().map_err(|_| format!("bad root edge: {}", line))?;
                let neg = if attr.is_empty() {
                    false
                } else if attr == "[dir=forward, arrowhead=odot];" {
                    true
                } else {
                    return Err(format!("unknown root edge style: {}", line));
                };
                roots.entry(i).or_default().push((tgt, neg));
            } else if let Some((a, _)) = rest.split_once(" [shape=rect") {
                root_decl.push(a.parse().map_err(|_| format!("bad root decl: {}", line))?);
            } else {
                return Err(format!("unknown line: {}", line));
            }
            continue;
        }
        if let Some((a, b)) = line.split_once(" -- ") {
            let id: u32 = a.parse().map_err(|_| format!("bad edge: {}", line))?;
            let (tgt, attr) = match b.split_once(' ') {
                Some((t, a)) => (t, a),
                None => (b.trim_end_matches(';'), ""),
            };
            let tgt: u32 = tgt.trim_end_matches(';').parse().map_err(|_| format!("bad edge: {}", line))?;
            match attr {
                "" => high.entry(id).or_default().push(tgt),
                "[style=dashed];" => low.entry(id).or_default().push((tgt, false)),
                "[style=dotted, dir=forward, arrowhead=odot];" => low.entry(id).or_default().push((tgt, true)),
                _ => return Err(format!("unknown edge style: {}", line)),
            }
            continue;
        }
        if let Some((a, b)) = line.split_once(" [label=<x<SUB>") {
            let id: u32 = a.parse().map_err(|_| format!("bad node: {}", line))?;
            let v: u32 = b.strip_suffix("</SUB>>];").ok_or_else(|| format!("bad node: {}", line))?.parse().map_err(|_| format!("bad node: {}", line))?;
            declared.push(id);
            if var.insert(id, v).is_some() {
                return Err(format!("node {} declared twice", id));
            }
            continue;
        }
        return Err(format!("unknown line: {}", line));
    }
    Ok(DotGraph { var, declared, high, low, roots, root_decl })
}

pub fn dot_meaning(c: &Ctx, text: &str, k: usize) -> Result<(Vec<TT>, Vec<u32>), String> {
    let DotGraph { var, declared, high, low, roots, mut root_decl } = dot_parse(text)?;
    fn eval(c: &Ctx, id: u32, var: &HashMap<u32, u32>, high: &HashMap<u32, Vec<u32>>, low: &HashMap<u32, Vec<(u32, bool)>>, memo: &mut HashMap<u32, TT>, depth: u32) -> Result<TT, String> {
        if id == 1 {
            return Ok(c.one());
        }
        if id == 0 {
            return Ok(0);
        }
        if let Some(&m) = memo.get(&id) {
            return Ok(m);
        }
        if depth > 64 {
            return Err("cycle".to_string());
        }
        let v = *var.get(&id).ok_or_else(|| format!("node {} is used but not declared", id))?;
        if v == 0 || v > c.n {
            return Err(format!("node {} has variable {}", id, v));
        }
        let h = high.get(&id).filter(|l| l.len() == 1).ok_or_else(|| format!("node {} does not have exactly one then-edge", id))?[0];
        let (l, ln) = low.get(&id).filter(|l| l.len() == 1).ok_or_else(|| format!("node {} does not have exactly one else-edge", id))?[0];
        if h == 0 {
            return Err(format!("node {} has a then-edge to 0", id));
        }
        let th = eval(c, h, var, high, low, memo, depth + 1)?;
        let tl = eval(c, l, var, high, low, memo, depth + 1)?;
        let tl = if ln { c.not(tl) } else { tl };
        let m = c.ite(c.var(v), th, tl);
        memo.insert(id, m);
        Ok(m)
    }
    let mut memo = HashMap::new();
    let mut res = Vec::new();
    root_decl.sort();
    if root_decl != (0..k).collect::<Vec<_>>() {
        return Err(format!("root declarations {:?}, expected 0..{}", root_decl, k));
    }
    for i in 0..k {
        let e = roots.get(&i).filter(|l| l.len() == 1).ok_or_else(|| format!("root {} does not have exactly one edge", i))?[0];
        let m = eval(c, e.0, &var, &high, &low, &mut memo, 0)?;
        res.push(if e.1 { c.not(m) } else { m });
    }
    // every declared node must be well-formed even if no root reaches it
    for &id in &declared {
        eval(c, id, &var, &high, &low, &mut memo, 0)?;
    }
    Ok((res, declared))
}
