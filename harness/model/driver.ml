(* Model-side runner: reads the same history file as harness/impl's runner and prints the same observation
   lines, by driving the OCaml extraction (model.ml) of the Coq register machine (coq/Machine.v). *)
open Model

let rec pos_of_int n = if n = 1 then XH else if n land 1 = 0 then XO (pos_of_int (n lsr 1)) else XI (pos_of_int (n lsr 1))
let n_of_int n = if n = 0 then N0 else Npos (pos_of_int n)
let rec int_of_pos = function XH -> 1 | XO p -> 2 * int_of_pos p | XI p -> 2 * int_of_pos p + 1
let int_of_n = function N0 -> 0 | Npos p -> int_of_pos p

(* decimal rendering of an arbitrary-size N: digits in base 10^9, least significant first *)
let n_to_string (x : n) : string =
  match x with
  | N0 -> "0"
  | Npos p ->
    let rec bits p acc = match p with XH -> true :: acc | XO q -> bits q (false :: acc) | XI q -> bits q (true :: acc) in
    let bs = bits p [] in (* most significant first *)
    let base = 1_000_000_000 in
    let digits = Stdlib.ref [0] in
    List.iter (fun b ->
      let carry = Stdlib.ref (if b then 1 else 0) in
      let nd = List.map (fun d -> let v = d * 2 + !carry in carry := v / base; v mod base) !digits in
      digits := if !carry > 0 then nd @ [!carry] else nd) bs;
    let rev = List.rev !digits in
    (match rev with
     | [] -> "0"
     | hd :: tl -> String.concat "" (string_of_int hd :: List.map (Printf.sprintf "%09d") tl))

(* unary numbers are built once and shared *)
let nat_tbl : nat array Stdlib.ref = Stdlib.ref [| O |]
let nat_of_int k =
  let len = Array.length !nat_tbl in
  if k >= len then begin
    let nl = max (k + 1) (2 * len) in
    let a = Array.make nl O in
    Array.blit !nat_tbl 0 a 0 len;
    for i = len to nl - 1 do a.(i) <- S a.(i - 1) done;
    nat_tbl := a
  end;
  !nat_tbl.(k)
let rec int_of_nat = function O -> 0 | S n -> 1 + int_of_nat n

let big_fuel = let rec go n acc = if n = 0 then acc else go (n - 1) (S acc) in go 2_000_000 O

exception Bad_arg

let parse_arg (tok : string) : rarg =
  try
    if String.length tok > 0 && tok.[0] = '~' then (nat_of_int (int_of_string (String.sub tok 1 (String.length tok - 1))), true)
    else (nat_of_int (int_of_string tok), false)
  with _ -> raise Bad_arg

let lit_of_int (l : int) : lit = (n_of_int (abs l), l > 0)

let show_ref (r : ref) = Printf.sprintf "%s@%d" (if r.neg then "~" else "") (int_of_n r.idx)
let raw (r : ref) = 2 * int_of_n r.idx + (if r.neg then 1 else 0)

let rec show_btok = function
  | BTop -> "\xe2\x8a\xa4"
  | BBot -> "\xe2\x8a\xa5"
  | BRef r -> show_ref r
  | BNode (r, v, hi, lo) -> Printf.sprintf "%s:(x%d, %s, %s)" (show_ref r) (int_of_n v) (show_btok hi) (show_btok lo)

let show_path (p : path) = "[" ^ String.concat "," (List.map (fun (v, b) -> string_of_int (if b then int_of_n v else - (int_of_n v))) p) ^ "]"

let dot_lines (recs : drec list) : string list =
  let levels = List.sort_uniq compare (List.filter_map (function DNode (_, v) -> Some (int_of_n v) | _ -> None) recs) in
  let fixed = [ "graph {"; "node [shape=circle, fixedsize=true];"; "{ rank=sink"; "0 [shape=square, label=\"0\"];";
                "1 [shape=square, label=\"1\"];"; "}"; "{ rank=source"; "}"; "}" ] in
  let lv = List.concat_map (fun _ -> [ "{ rank=same"; "}" ]) levels in
  let body = List.concat_map (function
    | DNode (id, v) -> [ Printf.sprintf "%d [label=<x<SUB>%d</SUB>>];" (int_of_n id) (int_of_n v) ]
    | DHigh (id, t) -> [ Printf.sprintf "%d -- %d;" (int_of_n id) (int_of_n t) ]
    | DLow (id, t, st) ->
      (match st with
       | LDashedZero -> [ Printf.sprintf "%d -- 0 [style=dashed];" (int_of_n id) ]
       | LDotted -> [ Printf.sprintf "%d -- %d [style=dotted, dir=forward, arrowhead=odot];" (int_of_n id) (int_of_n t) ]
       | LDashed -> [ Printf.sprintf "%d -- %d [style=dashed];" (int_of_n id) (int_of_n t) ])
    | DRoot (k, r) ->
      let k = int_of_nat k in
      [ Printf.sprintf "r%d [shape=rect, label=\"%s\"];" k (show_ref r);
        (if r.neg then (if int_of_n r.idx = 1 then Printf.sprintf "r%d -- 0;" k
                        else Printf.sprintf "r%d -- %d [dir=forward, arrowhead=odot];" k (int_of_n r.idx))
         else Printf.sprintf "r%d -- %d;" k (int_of_n r.idx)) ]) recs in
  List.sort compare (fixed @ lv @ body)

let rec parse_expr (t : string array) (pos : int Stdlib.ref) : xexpr =
  if !pos >= Array.length t then raise Bad_arg;
  let tok = t.(!pos) in
  incr pos;
  match tok with
  | "!" -> let a = parse_expr t pos in XNot a
  | "-" -> let a = parse_expr t pos in XNeg a
  | "&" -> let a = parse_expr t pos in let b = parse_expr t pos in XAnd (a, b)
  | "|" -> let a = parse_expr t pos in let b = parse_expr t pos in XOr (a, b)
  | "^" -> let a = parse_expr t pos in let b = parse_expr t pos in XXor (a, b)
  | _ ->
    if String.length tok > 1 && tok.[0] = 't' then XTerm (parse_arg (String.sub tok 1 (String.length tok - 1)))
    else raise Bad_arg

let dump (m : mstate) =
  let s = m.core in
  let tb = s.tbl in
  let b = Buffer.create 1024 in
  Buffer.add_string b (Printf.sprintf "dump real=%d last=%d minfree=%d cells=" (int_of_n tb.real_size) (int_of_n tb.last_index) (int_of_n tb.min_free));
  let first = Stdlib.ref true in
  for i = 1 to int_of_n tb.last_index do
    let e = tget tb.data (n_of_int i) in
    if e.occ then begin
      if not !first then Buffer.add_char b ',';
      first := false;
      let nd = e.value in
      Buffer.add_string b (Printf.sprintf "%d:%d:%d:%d:%d" i (int_of_n nd.var) (raw nd.lo) (raw nd.hi) (int_of_n e.next))
    end
  done;
  Buffer.add_string b " buckets=";
  first := true;
  for i = 0 to int_of_n tb.nb - 1 do
    let h = int_of_n (tget tb.buckets (n_of_int i)) in
    if h <> 0 then begin
      if not !first then Buffer.add_char b ',';
      first := false;
      Buffer.add_string b (Printf.sprintf "%d:%d" i h)
    end
  done;
  Buffer.add_string b " cache=";
  first := true;
  for i = 0 to int_of_n s.opc.cmask do
    match tget s.opc.cdata (n_of_int i) with
    | Some (k, v) ->
      if not !first then Buffer.add_char b ',';
      first := false;
      (match k with
       | KIte (f, g, h) -> Buffer.add_string b (Printf.sprintf "%d:I:%d:%d:%d:%d" i (raw f) (raw g) (raw h) (raw v))
       | KConstrain (f, g) -> Buffer.add_string b (Printf.sprintf "%d:C:%d:%d:%d" i (raw f) (raw g) (raw v))
       | KRestrict (f, g) -> Buffer.add_string b (Printf.sprintf "%d:R:%d:%d:%d" i (raw f) (raw g) (raw v)))
    | None -> ()
  done;
  Buffer.add_string b " szcache=";
  first := true;
  for i = 0 to int_of_n m.szc.smask do
    match tget m.szc.sdata (n_of_int i) with
    | Some (r, n) ->
      if not !first then Buffer.add_char b ',';
      first := false;
      Buffer.add_string b (Printf.sprintf "%d:%d:%s" i (raw r) (n_to_string n))
    | None -> ()
  done;
  print_endline (Buffer.contents b)

let ref_line = function
  | "itec" | "implies" | "size" | "desc" | "satcount" | "onesat" | "paths" | "bracket" | "dot" | "gc" | "dump" -> false
  | _ -> true

let run_bdd (lines : string list) =
  let toks l = Array.of_list (List.filter (fun s -> s <> "") (String.split_on_char ' ' (String.trim l))) in
  let cfg = List.find (fun l -> let t = toks l in Array.length t > 0 && t.(0) = "cfg") lines in
  let c = toks cfg in
  let (sb, bb, cb) =
    if c.(1) = "default" then let s = int_of_string c.(2) in (s, min s 16, min s 16)
    else (int_of_string c.(1), int_of_string c.(2), int_of_string c.(3)) in
  let mr = Stdlib.ref (init_cfg (n_of_int ((1 lsl bb) - 1)) (n_of_int ((1 lsl cb) - 1)) (n_of_int ((1 lsl cb) - 1)) (n_of_int (1 lsl sb))) in
  let evals = Stdlib.ref 0 in
  (try
    List.iter (fun line ->
      let t = toks line in
      if Array.length t > 0 && t.(0) <> "cfg" && t.(0) <> "nvars" && t.(0).[0] <> '#' then begin
        let p i = int_of_string t.(i) in
        let a i = parse_arg t.(i) in
        let args from k = List.init k (fun i -> a (from + i)) in
        let is_reg = ref_line t.(0) in
        if t.(0) = "dump" then dump (fst !mr) else
        let op = (try Some (match t.(0) with
          | "const" -> HConst (t.(1) = "1")
          | "var" -> HVar (n_of_int (p 1))
          | "node" -> HNode (n_of_int (p 1), a 2, a 3)
          | "ite" -> HIte (a 1, a 2, a 3)
          | "and" -> HBin (BAnd, a 1, a 2) | "or" -> HBin (BOr, a 1, a 2) | "xor" -> HBin (BXor, a 1, a 2)
          | "eq" -> HBin (BEq, a 1, a 2) | "imply" -> HBin (BImply, a 1, a 2)
          | "not" -> HNot (a 1)
          | "andmany" -> HMany (false, args 2 (p 1))
          | "ormany" -> HMany (true, args 2 (p 1))
          | "cube" -> HCube (false, List.init (p 1) (fun i -> lit_of_int (p (2 + i))))
          | "clause" -> HCube (true, List.init (p 1) (fun i -> lit_of_int (p (2 + i))))
          | "expr" -> let pos = Stdlib.ref 1 in HExpr (parse_expr t pos)
          | "subst" -> HSubst (a 1, n_of_int (p 2), t.(3) = "1")
          | "substm" -> HSubstM (a 1, List.init (p 2) (fun i -> (n_of_int (p (3 + 2 * i)), t.(4 + 2 * i) = "1")))
          | "cofcube" -> HCofCube (a 1, List.init (p 2) (fun i -> lit_of_int (p (3 + i))))
          | "compose" -> HCompose (a 1, n_of_int (p 2), a 3)
          | "constrain" -> HConstrain (a 1, a 2)
          | "restrict" -> HRestrict (a 1, a 2)
          | "low" -> HLow (a 1) | "high" -> HHigh (a 1)
          | "topcof0" -> HTopCof (false, a 1, n_of_int (p 2))
          | "topcof1" -> HTopCof (true, a 1, n_of_int (p 2))
          | "itec" -> HItec (a 1, a 2, a 3)
          | "implies" -> HImplies (a 1, a 2)
          | "size" -> HSize (a 1)
          | "desc" -> HDesc (args 2 (p 1))
          | "satcount" -> HSatCount (a 1, n_of_int (p 2))
          | "onesat" -> HOneSat (a 1)
          | "paths" -> HPaths (a 1)
          | "bracket" -> HBracket (a 1)
          | "dot" -> HDot (args 2 (p 1))
          | "gc" -> HGc (args 2 (p 1))
          | other -> failwith ("bad history line: " ^ other))
          with Bad_arg -> None) in
        let op = match op with
          | Some o -> o
          | None -> (* unparsable register argument: same as a dead register *)
            if is_reg then HNot (nat_of_int 1_000_000, false) else HSize (nat_of_int 1_000_000, false) in
        incr evals;
        match step_cfg big_fuel !mr op with
        | None -> print_endline "panic full"; raise Exit
        | Some ((m', rs'), o) ->
          mr := (m', rs');
          let tb = m'.core.tbl in
          (match o with
           | OReg r -> Printf.printf "r %d %d %d %d\n" (int_of_n r.idx) (if r.neg then 1 else 0) (int_of_n tb.real_size) (int_of_n tb.last_index)
           | OSkip -> print_endline "skip"
           | OOptBool None -> print_endline "q none"
           | OOptBool (Some true) -> print_endline "q true"
           | OOptBool (Some false) -> print_endline "q false"
           | OBool b -> print_endline (if b then "q 1" else "q 0")
           | ONum n -> print_endline ("q " ^ n_to_string n)
           | OList l -> print_endline ("q " ^ String.concat " " (List.map string_of_int (List.sort compare (List.map int_of_n l))))
           | OPath None -> print_endline "q none"
           | OPath (Some p) -> print_endline ("q " ^ show_path p)
           | OPaths [] -> print_endline "q nopaths"
           | OPaths l -> print_endline ("q " ^ String.concat " " (List.map show_path l))
           | OBracket tk -> print_endline ("q " ^ show_btok tk)
           | ODot recs -> print_endline ("q " ^ String.concat " ; " (dot_lines recs))
           | OGc ->
             let dead = List.fold_left (fun acc o -> match o with None -> acc + 1 | Some _ -> acc) 0 rs' in
             Printf.printf "gc %d %d %d\n" (int_of_n tb.real_size) (int_of_n tb.last_index) dead)
      end) lines
  with Exit -> ());
  ignore !evals; print_endline "end"

let () =
  let file = Sys.argv.(1) in
  let ic = open_in file in
  let lines = Stdlib.ref [] in
  (try while true do lines := input_line ic :: !lines done with End_of_file -> ());
  close_in ic;
  let lines = List.rev !lines in
  let first = List.find_opt (fun l -> let l = String.trim l in l <> "" && l.[0] <> '#' && not (String.length l >= 5 && String.sub l 0 5 = "nvars")) lines in
  match first with
  | Some l when String.length l >= 3 && String.sub l 0 3 = "cfg" -> run_bdd lines
  | _ -> failwith "unknown domain"
