(* Model-side runner: reads the same history file as harness/impl's runner and prints the same observation
   lines, by driving the OCaml extraction (model.ml) of the Coq register machine (coq/Machine.v). *)
open Model

let rec pos_of_int n = if n = 1 then XH else if n land 1 = 0 then XO (pos_of_int (n lsr 1)) else XI (pos_of_int (n lsr 1))
let n_of_int n = if n = 0 then N0 else Npos (pos_of_int n)
let rec int_of_pos = function XH -> 1 | XO p -> 2 * int_of_pos p | XI p -> 2 * int_of_pos p + 1
let int_of_n = function N0 -> 0 | Npos p -> int_of_pos p

(* decimal rendering of an arbitrary-size N: digits in base 10^9, least significant first *)
let n_to_string (x : n) : string =
  match x with
  | N0 -> "0"
  | Npos p ->
    let rec bits p acc = match p with XH -> true :: acc | XO q -> bits q (false :: acc) | XI q -> bits q (true :: acc) in
    let bs = bits p [] in (* most significant first *)
    let base = 1_000_000_000 in
    let digits = Stdlib.ref [0] in
    List.iter (fun b ->
      let carry = Stdlib.ref (if b then 1 else 0) in
      let nd = List.map (fun d -> let v = d * 2 + !carry in carry := v / base; v mod base) !digits in
      digits := if !carry > 0 then nd @ [!carry] else nd) bs;
    let rev = List.rev !digits in
    (match rev with
     | [] -> "0"
     | hd :: tl -> String.concat "" (string_of_int hd :: List.map (Printf.sprintf "%09d") tl))

(* unary numbers are built once and shared *)
let nat_tbl : nat array Stdlib.ref = Stdlib.ref [| O |]
let nat_of_int k =
  let len = Array.length !nat_tbl in
  if k >= len then begin
    let nl = max (k + 1) (2 * len) in
    let a = Array.make nl O in
    Array.blit !nat_tbl 0 a 0 len;
    for i = len to nl - 1 do a.(i) <- S a.(i - 1) done;
    nat_tbl := a
  end;
  !nat_tbl.(k)
let rec int_of_nat = function O -> 0 | S n -> 1 + int_of_nat n

let big_fuel = let rec go n acc = if n = 0 then acc else go (n - 1) (S acc) in go 2_000_000 O

exception Bad_arg

let parse_arg (tok : string) : rarg =
  try
    if String.length tok > 0 && tok.[0] = '~' then (nat_of_int (int_of_string (String.sub tok 1 (String.length tok - 1))), true)
    else (nat_of_int (int_of_string tok), false)
  with _ -> raise Bad_arg

let lit_of_int (l : int) : lit = (n_of_int (abs l), l > 0)

let show_ref (r : ref) = Printf.sprintf "%s@%d" (if r.neg then "~" else "") (int_of_n r.idx)
let raw (r : ref) = 2 * int_of_n r.idx + (if r.neg then 1 else 0)

(* the bracket text is the token sequence BddBracketText.flatten (proved uniquely readable), one string per token *)
let show_ttok = function
  | TTop -> "\xe2\x8a\xa4"
  | TBot -> "\xe2\x8a\xa5"
  | TRef r -> show_ref r
  | TOpen (r, v) -> Printf.sprintf "%s:(x%d, " (show_ref r) (int_of_n v)
  | TComma -> ", "
  | TClose -> ")"
let show_btok (t : btok) = String.concat "" (List.map show_ttok (flatten t))

let show_path (p : path) = "[" ^ String.concat "," (List.map (fun (v, b) -> string_of_int (if b then int_of_n v else - (int_of_n v))) p) ^ "]"

let dot_lines (recs : drec list) : string list =
  let levels = List.sort_uniq compare (List.filter_map (function DNode (_, v) -> Some (int_of_n v) | _ -> None) recs) in
  let fixed = [ "graph {"; "node [shape=circle, fixedsize=true];"; "{ rank=sink"; "0 [shape=square, label=\"0\"];";
                "1 [shape=square, label=\"1\"];"; "}"; "{ rank=source"; "}"; "}" ] in
  let lv = List.concat_map (fun _ -> [ "{ rank=same"; "}" ]) levels in
  let body = List.concat_map (function
    | DNode (id, v) -> [ Printf.sprintf "%d [label=<x<SUB>%d</SUB>>];" (int_of_n id) (int_of_n v) ]
    | DHigh (id, t) -> [ Printf.sprintf "%d -- %d;" (int_of_n id) (int_of_n t) ]
    | DLow (id, t, st) ->
      (match st with
       | LDashedZero -> [ Printf.sprintf "%d -- 0 [style=dashed];" (int_of_n id) ]
       | LDotted -> [ Printf.sprintf "%d -- %d [style=dotted, dir=forward, arrowhead=odot];" (int_of_n id) (int_of_n t) ]
       | LDashed -> [ Printf.sprintf "%d -- %d [style=dashed];" (int_of_n id) (int_of_n t) ])
    | DRoot (k, r) ->
      let k = int_of_nat k in
      [ Printf.sprintf "r%d [shape=rect, label=\"%s\"];" k (show_ref r);
        (if r.neg then (if int_of_n r.idx = 1 then Printf.sprintf "r%d -- 0;" k
                        else Printf.sprintf "r%d -- %d [dir=forward, arrowhead=odot];" k (int_of_n r.idx))
         else Printf.sprintf "r%d -- %d;" k (int_of_n r.idx)) ]) recs in
  List.sort compare (fixed @ lv @ body)

let rec parse_expr (t : string array) (pos : int Stdlib.ref) : xexpr =
  if !pos >= Array.length t then raise Bad_arg;
  let tok = t.(!pos) in
  incr pos;
  match tok with
  | "!" -> let a = parse_expr t pos in XNot a
  | "-" -> let a = parse_expr t pos in XNeg a
  | "&" -> let a = parse_expr t pos in let b = parse_expr t pos in XAnd (a, b)
  | "|" -> let a = parse_expr t pos in let b = parse_expr t pos in XOr (a, b)
  | "^" -> let a = parse_expr t pos in let b = parse_expr t pos in XXor (a, b)
  | _ ->
    if String.length tok > 1 && tok.[0] = 't' then XTerm (parse_arg (String.sub tok 1 (String.length tok - 1)))
    else raise Bad_arg

let dump (m : mstate) =
  let s = m.core in
  let tb = s.tbl in
  let b = Buffer.create 1024 in
  Buffer.add_string b (Printf.sprintf "dump real=%d last=%d minfree=%d cells=" (int_of_n tb.real_size) (int_of_n tb.last_index) (int_of_n tb.min_free));
  let first = Stdlib.ref true in
  for i = 1 to int_of_n tb.last_index do
    let e = tget tb.data (n_of_int i) in
    if e.occ then begin
      if not !first then Buffer.add_char b ',';
      first := false;
      let nd = e.value in
      Buffer.add_string b (Printf.sprintf "%d:%d:%d:%d:%d" i (int_of_n nd.var) (raw nd.lo) (raw nd.hi) (int_of_n e.next))
    end
  done;
  Buffer.add_string b " buckets=";
  first := true;
  for i = 0 to int_of_n tb.nb - 1 do
    let h = int_of_n (tget tb.buckets (n_of_int i)) in
    if h <> 0 then begin
      if not !first then Buffer.add_char b ',';
      first := false;
      Buffer.add_string b (Printf.sprintf "%d:%d" i h)
    end
  done;
  Buffer.add_string b " cache=";
  first := true;
  for i = 0 to int_of_n s.opc.cmask do
    match tget s.opc.cdata (n_of_int i) with
    | Some (k, v) ->
      if not !first then Buffer.add_char b ',';
      first := false;
      (match k with
       | KIte (f, g, h) -> Buffer.add_string b (Printf.sprintf "%d:I:%d:%d:%d:%d" i (raw f) (raw g) (raw h) (raw v))
       | KConstrain (f, g) -> Buffer.add_string b (Printf.sprintf "%d:C:%d:%d:%d" i (raw f) (raw g) (raw v))
       | KRestrict (f, g) -> Buffer.add_string b (Printf.sprintf "%d:R:%d:%d:%d" i (raw f) (raw g) (raw v)))
    | None -> ()
  done;
  Buffer.add_string b " szcache=";
  first := true;
  for i = 0 to int_of_n m.szc.smask do
    match tget m.szc.sdata (n_of_int i) with
    | Some (r, n) ->
      if not !first then Buffer.add_char b ',';
      first := false;
      Buffer.add_string b (Printf.sprintf "%d:%d:%s" i (raw r) (n_to_string n))
    | None -> ()
  done;
  print_endline (Buffer.contents b)

let ref_line = function
  | "itec" | "implies" | "size" | "desc" | "satcount" | "onesat" | "paths" | "bracket" | "dot" | "gc" | "dump" -> false
  | _ -> true

let run_bdd (lines : string list) =
  let toks l = Array.of_list (List.filter (fun s -> s <> "") (String.split_on_char ' ' (String.trim l))) in
  let cfg = List.find (fun l -> let t = toks l in Array.length t > 0 && t.(0) = "cfg") lines in
  let c = toks cfg in
  let (sb, bb, cb) =
    if c.(1) = "default" then let s = int_of_string c.(2) in (s, min s 16, min s 16)
    else (int_of_string c.(1), int_of_string c.(2), int_of_string c.(3)) in
  let mr = Stdlib.ref (init_cfg (n_of_int ((1 lsl bb) - 1)) (n_of_int ((1 lsl cb) - 1)) (n_of_int ((1 lsl cb) - 1)) (n_of_int (1 lsl sb))) in
  let evals = Stdlib.ref 0 in
  (try
    List.iter (fun line ->
      let t = toks line in
      if Array.length t > 0 && t.(0) <> "cfg" && t.(0) <> "nvars" && t.(0).[0] <> '#' then begin
        let p i = int_of_string t.(i) in
        let a i = parse_arg t.(i) in
        let args from k = List.init k (fun i -> a (from + i)) in
        let is_reg = ref_line t.(0) in
        if t.(0) = "dump" then dump (fst !mr) else
        let op = (try Some (match t.(0) with
          | "const" -> HConst (t.(1) = "1")
          | "var" -> HVar (n_of_int (p 1))
          | "node" -> HNode (n_of_int (p 1), a 2, a 3)
          | "ite" -> HIte (a 1, a 2, a 3)
          | "and" -> HBin (BAnd, a 1, a 2) | "or" -> HBin (BOr, a 1, a 2) | "xor" -> HBin (BXor, a 1, a 2)
          | "eq" -> HBin (BEq, a 1, a 2) | "imply" -> HBin (BImply, a 1, a 2)
          | "not" -> HNot (a 1)
          | "andmany" -> HMany (false, args 2 (p 1))
          | "ormany" -> HMany (true, args 2 (p 1))
          | "cube" -> HCube (false, List.init (p 1) (fun i -> lit_of_int (p (2 + i))))
          | "clause" -> HCube (true, List.init (p 1) (fun i -> lit_of_int (p (2 + i))))
          | "expr" -> let pos = Stdlib.ref 1 in HExpr (parse_expr t pos)
          | "subst" -> HSubst (a 1, n_of_int (p 2), t.(3) = "1")
          | "substm" -> HSubstM (a 1, List.init (p 2) (fun i -> (n_of_int (p (3 + 2 * i)), t.(4 + 2 * i) = "1")))
          | "cofcube" -> HCofCube (a 1, List.init (p 2) (fun i -> lit_of_int (p (3 + i))))
          | "compose" -> HCompose (a 1, n_of_int (p 2), a 3)
          | "constrain" -> HConstrain (a 1, a 2)
          | "restrict" -> HRestrict (a 1, a 2)
          | "low" -> HLow (a 1) | "high" -> HHigh (a 1)
          | "topcof0" -> HTopCof (false, a 1, n_of_int (p 2))
          | "topcof1" -> HTopCof (true, a 1, n_of_int (p 2))
          | "itec" -> HItec (a 1, a 2, a 3)
          | "implies" -> HImplies (a 1, a 2)
          | "size" -> HSize (a 1)
          | "desc" -> HDesc (args 2 (p 1))
          | "satcount" -> HSatCount (a 1, n_of_int (p 2))
          | "onesat" -> HOneSat (a 1)
          | "paths" -> HPaths (a 1)
          | "bracket" -> HBracket (a 1)
          | "dot" -> HDot (args 2 (p 1))
          | "gc" -> HGc (args 2 (p 1))
          | other -> failwith ("bad history line: " ^ other))
          with Bad_arg -> None) in
        let op = match op with
          | Some o -> o
          | None -> (* unparsable register argument: same as a dead register *)
            if is_reg then HNot (nat_of_int 1_000_000, false) else HSize (nat_of_int 1_000_000, false) in
        incr evals;
        let old_rs = snd !mr in
        match step_cfg big_fuel !mr op with
        | None -> print_endline "panic full"; raise Exit
        | Some ((m', rs'), o) ->
          mr := (m', rs');
          let tb = m'.core.tbl in
          (match o with
           | OReg r -> Printf.printf "r %d %d %d %d\n" (int_of_n r.idx) (if r.neg then 1 else 0) (int_of_n tb.real_size) (int_of_n tb.last_index)
           | OSkip -> print_endline "skip"
           | OOptBool None -> print_endline "q none"
           | OOptBool (Some true) -> print_endline "q true"
           | OOptBool (Some false) -> print_endline "q false"
           | OBool b -> print_endline (if b then "q 1" else "q 0")
           | ONum n -> print_endline ("q " ^ n_to_string n)
           | OList l -> print_endline ("q " ^ String.concat " " (List.map string_of_int (List.sort compare (List.map int_of_n l))))
           | OPath None -> print_endline "q none"
           | OPath (Some p) -> print_endline ("q " ^ show_path p)
           | OPaths [] -> print_endline "q nopaths"
           | OPaths l -> print_endline ("q " ^ String.concat " " (List.map show_path l))
           | OBracket tk -> print_endline ("q " ^ show_btok tk)
           | ODot recs -> print_endline ("q " ^ String.concat " ; " (dot_lines recs))
           | OGc ->
             let dead = List.fold_left (fun acc o -> match o with None -> acc + 1 | Some _ -> acc) 0 rs' in
             let newly = List.filter_map (fun x -> x)
                 (List.mapi (fun j (a, b) -> match a, b with Some _, None -> Some (string_of_int j) | _ -> None) (List.combine old_rs rs')) in
             Printf.printf "gc %d %d %d d=%s\n" (int_of_n tb.real_size) (int_of_n tb.last_index) dead (String.concat "," newly))
      end) lines
  with Exit -> ());
  ignore !evals; print_endline "end"


(* ------------------------------------------------------------------ stand-alone structures *)
let toks l = Array.of_list (List.filter (fun s -> s <> "") (String.split_on_char ' ' (String.trim l)))
let is_body hd t = Array.length t > 0 && t.(0).[0] <> '#' && not (List.mem t.(0) hd)

let run_table (lines : string list) =
  let hdr = toks (List.find (fun l -> let t = toks l in Array.length t > 0 && t.(0) = "table") lines) in
  let bits = int_of_string hdr.(1) and bb = int_of_string hdr.(2) and hk = n_of_int (int_of_string hdr.(3)) in
  let t = Stdlib.ref (tbl_new (n_of_int bits) (n_of_int bb)) in
  let fuel = nat_of_int ((1 lsl bits) + 2) in
  let st () = Printf.sprintf "%d %d %d" (int_of_n !t.real_size) (int_of_n !t.last_index) (int_of_n !t.min_free) in
  (try
    List.iter (fun line ->
      let tk = toks line in
      if is_body ["table"] tk then
        match tk.(0) with
        | "put" ->
          (match tbl_put hk fuel !t (n_of_int (int_of_string tk.(1))) with
           | Ok (t', i) -> t := t'; Printf.printf "i %d %s\n" (int_of_n i) (st ())
           | Full -> print_endline "panic full"; raise Exit
           | Fuel -> print_endline "panic fuel"; raise Exit)
        | "sweep" | "sweepv" ->
          let k = int_of_string tk.(1) in
          let args = List.init k (fun i -> int_of_string tk.(2 + i)) in
          let alive =
            if tk.(0) = "sweep" then List.map n_of_int args
            else begin
              let acc = Stdlib.ref [] in
              for i = 1 to int_of_n !t.last_index do
                let e = tget !t.data (n_of_int i) in
                if e.occ && List.mem (int_of_n e.value) args then acc := n_of_int i :: !acc
              done;
              !acc
            end in
          (match tbl_sweep fuel !t alive with
           | Ok t' -> t := t'; Printf.printf "s %s\n" (st ())
           | _ -> print_endline "panic fuel"; raise Exit)
        | "dump" ->
          let b = Buffer.create 256 in
          Buffer.add_string b "dump cells=";
          let first = Stdlib.ref true in
          for i = 1 to int_of_n !t.last_index do
            let e = tget !t.data (n_of_int i) in
            if e.occ then begin
              if not !first then Buffer.add_char b ',';
              first := false;
              Buffer.add_string b (Printf.sprintf "%d:%d:%d" i (int_of_n e.value) (int_of_n e.next))
            end
          done;
          Buffer.add_string b " buckets=";
          first := true;
          for i = 0 to int_of_n !t.nb - 1 do
            let h = int_of_n (tget !t.buckets (n_of_int i)) in
            if h <> 0 then begin
              if not !first then Buffer.add_char b ',';
              first := false;
              Buffer.add_string b (Printf.sprintf "%d:%d" i h)
            end
          done;
          print_endline (Buffer.contents b)
        | o -> failwith ("bad table line " ^ o)) lines
  with Exit -> ());
  print_endline "end"

let ref_of_raw x = { idx = n_of_int (x lsr 1); neg = (x land 1 = 1) }

let run_cache (lines : string list) =
  let hdr = toks (List.find (fun l -> let t = toks l in Array.length t > 0 && (t.(0) = "cache" || t.(0) = "kcache")) lines) in
  let keyed = hdr.(0) = "kcache" in
  let bits = int_of_string hdr.(1) in
  let hk = if keyed then N0 else n_of_int (int_of_string hdr.(2)) in
  let nc = Stdlib.ref (ncache_new (n_of_int ((1 lsl bits) - 1))) in
  let kc = Stdlib.ref (kcache_new (n_of_int ((1 lsl bits) - 1))) in
  let parse_key tk pos =
    let a = ref_of_raw (int_of_string tk.(!pos + 1)) and b = ref_of_raw (int_of_string tk.(!pos + 2)) in
    match tk.(!pos) with
    | "I" -> let c = ref_of_raw (int_of_string tk.(!pos + 3)) in pos := !pos + 4; KIte (a, b, c)
    | "C" -> pos := !pos + 3; KConstrain (a, b)
    | _ -> pos := !pos + 3; KRestrict (a, b) in
  List.iter (fun line ->
    let tk = toks line in
    if is_body ["cache"; "kcache"] tk then
      match tk.(0) with
      | "ins" ->
        if keyed then begin
          let pos = Stdlib.ref 1 in
          let k = parse_key tk pos in
          kc := kcache_insert !kc k (ref_of_raw (int_of_string tk.(!pos)))
        end else nc := ncache_insert hk !nc (n_of_int (int_of_string tk.(1))) (n_of_int (int_of_string tk.(2)));
        print_endline "i"
      | "get" ->
        if keyed then begin
          let pos = Stdlib.ref 1 in
          let k = parse_key tk pos in
          let (c', o) = kcache_get !kc k in
          kc := c';
          Printf.printf "g %s %d %d %d\n" (match o with Some r -> string_of_int (raw r) | None -> "none") (int_of_n c'.hits) (int_of_n c'.faults) (int_of_n c'.misses)
        end else begin
          let (c', o) = ncache_get hk !nc (n_of_int (int_of_string tk.(1))) in
          nc := c';
          Printf.printf "g %s %d %d %d\n" (match o with Some v -> string_of_int (int_of_n v) | None -> "none") (int_of_n c'.hits) (int_of_n c'.faults) (int_of_n c'.misses)
        end
      | "clear" -> (if keyed then kc := kcache_clear !kc else nc := ncache_clear !nc); print_endline "c"
      | "dump" ->
        let b = Buffer.create 256 in
        Buffer.add_string b "dump ";
        let first = Stdlib.ref true in
        for i = 0 to (1 lsl bits) - 1 do
          if keyed then
            (match tget !kc.ldata (n_of_int i) with
             | Some (k, v) ->
               if not !first then Buffer.add_char b ',';
               first := false;
               (match k with
                | KIte (f, g, h) -> Buffer.add_string b (Printf.sprintf "%d:I:%d:%d:%d:%d" i (raw f) (raw g) (raw h) (raw v))
                | KConstrain (f, g) -> Buffer.add_string b (Printf.sprintf "%d:C:%d:%d:%d" i (raw f) (raw g) (raw v))
                | KRestrict (f, g) -> Buffer.add_string b (Printf.sprintf "%d:R:%d:%d:%d" i (raw f) (raw g) (raw v)))
             | None -> ())
          else
            (match tget !nc.ldata (n_of_int i) with
             | Some (k, v) ->
               if not !first then Buffer.add_char b ',';
               first := false;
               Buffer.add_string b (Printf.sprintf "%d:%d:%d" i (int_of_n k) (int_of_n v))
             | None -> ())
        done;
        print_endline (Buffer.contents b)
      | o -> failwith ("bad cache line " ^ o)) lines;
  print_endline "end"

let run_ntable (lines : string list) =
  let hdr = toks (List.find (fun l -> let t = toks l in Array.length t > 0 && t.(0) = "ntable") lines) in
  let bits = int_of_string hdr.(1) and bb = int_of_string hdr.(2) in
  let t = Stdlib.ref (ntbl_new (n_of_int bits) (n_of_int bb)) in
  let fuel = nat_of_int ((1 lsl bits) + 2) in
  (try
    List.iter (fun line ->
      let tk = toks line in
      if is_body ["ntable"] tk then
        match tk.(0) with
        | "putn" ->
          let nd = { var = n_of_int (int_of_string tk.(1)); lo = ref_of_raw (int_of_string tk.(2)); hi = ref_of_raw (int_of_string tk.(3)) } in
          (match ntbl_put fuel !t nd with
           | Ok (t', i) -> t := t'; Printf.printf "i %d %d %d %d\n" (int_of_n i) (int_of_n !t.real_size) (int_of_n !t.last_index) (int_of_n !t.min_free)
           | Full -> print_endline "panic full"; raise Exit
           | Fuel -> print_endline "panic fuel"; raise Exit)
        | o -> failwith ("bad ntable line " ^ o)) lines
  with Exit -> ());
  print_endline "end"

(* u64 status words are printed in hex; N -> hex string *)
let n_to_hex (x : n) : string =
  match x with
  | N0 -> "0"
  | Npos p ->
    let rec bits p acc = match p with XH -> 1 :: acc | XO q -> bits q (0 :: acc) | XI q -> bits q (1 :: acc) in
    let bs = bits p [] in
    let len = List.length bs in
    let pad = (4 - len mod 4) mod 4 in
    let bs = List.init pad (fun _ -> 0) @ bs in
    let rec go l acc = match l with
      | a :: b :: c :: d :: r -> go r (acc ^ Printf.sprintf "%x" (8 * a + 4 * b + 2 * c + d))
      | _ -> acc in
    go bs ""

let run_raw (lines : string list) =
  let hdr = toks (List.find (fun l -> let t = toks l in Array.length t > 0 && t.(0) = "raw") lines) in
  let hk = n_of_int (int_of_string hdr.(1)) in
  let t = Stdlib.ref raw_new in
  let state () =
    let cap = int_of_n !t.rcap in
    let b = Buffer.create 128 in
    Buffer.add_string b (Printf.sprintf "%d %d %d [" (int_of_n !t.rlen) (int_of_n !t.rfree) cap);
    for i = 0 to cap - 1 do
      if i > 0 then Buffer.add_char b ',';
      let st = (tget !t.slots (n_of_int i)).status in
      let h = n_to_hex st in
      Buffer.add_string b (if h = "ffffffffffffffff" then "F" else if h = "fffffffffffffffe" then "D" else h)
    done;
    Buffer.add_char b ']';
    Buffer.contents b in
  let bad = function Uninit -> "model:uninit" | Hang -> "model:hang" | AssertFailed -> "model:assert" | ROk _ -> "" in
  (try
    List.iter (fun line ->
      let tk = toks line in
      if is_body ["raw"] tk then begin
        print_endline ("op " ^ String.trim line);
        let nn i = n_of_int (int_of_string tk.(i)) in
        let step o show =
          match raw_step hk !t o with
          | ROk (t', obs) -> t := t'; Printf.printf "%s | %s\n" (show obs) (state ())
          | x -> print_endline ("panic " ^ bad x); raise Exit in
        let opt = function Some v -> string_of_int (int_of_n v) | None -> "none" in
        match tk.(0) with
        | "ins" -> step (RIns (nn 1, nn 2)) (function OIns b -> if b then "i 1" else "i 0" | _ -> "?")
        | "get" -> step (RGet (nn 1)) (function OGet o -> "g " ^ opt o | _ -> "?")
        | "rem" -> step (RRem (nn 1)) (function ORem o -> "r " ^ opt o | _ -> "?")
        | "clear" -> step RClear (fun _ -> "c")
        | "reserve" when (String.length tk.(1) >= 18) ->
          (* a request of 2^59 slots or more cannot be allocated: the crate's call fails with "capacity overflow" and must
             leave the table as it was (the model has no allocator: the refusal is the driver's) *)
          Printf.printf "v refused | %s\n" (state ())
        | "reserve" ->
          (match raw_reserve !t (nn 1) with
           | ROk t' -> t := t'; Printf.printf "v | %s\n" (state ())
           | x -> print_endline ("panic " ^ bad x); raise Exit)
        | "iter" ->
          let items = List.sort compare (List.map (fun (k, v) -> (int_of_n k, int_of_n v)) (raw_iter !t)) in
          Printf.printf "t %d %s | %s\n" (int_of_n !t.rlen) (String.concat "," (List.map (fun (k, v) -> Printf.sprintf "%d:%d" k v) items)) (state ())
        | o -> failwith ("bad raw line " ^ o)
      end) lines
  with Exit -> ());
  print_endline "end"

(* ---- eda *)
let z_of_int i = if i = 0 then Z0 else if i > 0 then Zpos (pos_of_int i) else Zneg (pos_of_int (- i))
let int_of_z = function Z0 -> 0 | Zpos p -> int_of_pos p | Zneg p -> - (int_of_pos p)

let rec parse_boxed (tk : string array) (pos : int Stdlib.ref) : z bx =
  let t = tk.(!pos) in
  incr pos;
  match t with
  | "!" -> BxNot (parse_boxed tk pos)
  | "~" -> bnot (parse_boxed tk pos)
  | "&" -> let a = parse_boxed tk pos in let b = parse_boxed tk pos in BxAnd (a, b)
  | "|" -> let a = parse_boxed tk pos in let b = parse_boxed tk pos in BxOr (a, b)
  | "^" -> let a = parse_boxed tk pos in let b = parse_boxed tk pos in BxXor (a, b)
  | "?" -> let a = parse_boxed tk pos in let b = parse_boxed tk pos in let c = parse_boxed tk pos in BxIte (a, b, c)
  | _ -> BxTerm (z_of_int (int_of_string (String.sub t 1 (String.length t - 1))))

let rec boxed_string = function
  | BxTerm t -> string_of_int (int_of_z t)
  | BxNot a -> "~" ^ boxed_string a
  | BxAnd (a, b) -> Printf.sprintf "(%s & %s)" (boxed_string a) (boxed_string b)
  | BxOr (a, b) -> Printf.sprintf "(%s | %s)" (boxed_string a) (boxed_string b)
  | BxXor (a, b) -> Printf.sprintf "(%s ^ %s)" (boxed_string a) (boxed_string b)
  | BxIte (a, b, c) -> Printf.sprintf "(%s ? %s : %s)" (boxed_string a) (boxed_string b) (boxed_string c)

let rec plain_nots = function          (* does the tree use only Term / Not / And / Or ? *)
  | BxTerm _ -> true | BxNot a -> plain_nots a | BxAnd (a, b) | BxOr (a, b) -> plain_nots a && plain_nots b | _ -> false

let arena_debug (a : (z kind * nat list) list) : string =
  let idx n = Printf.sprintf "Idx(%d)" (int_of_nat n) in
  let node (k, js) = match k, js with
    | NTerm t, _ -> Printf.sprintf "Term(%d)" (int_of_z t)
    | NNot, [a] -> Printf.sprintf "Not(%s)" (idx a)
    | NAnd, [a; b] -> Printf.sprintf "And(%s, %s)" (idx a) (idx b)
    | NOr, [a; b] -> Printf.sprintf "Or(%s, %s)" (idx a) (idx b)
    | NXor, [a; b] -> Printf.sprintf "Xor(%s, %s)" (idx a) (idx b)
    | NIte, [a; b; c] -> Printf.sprintf "Ite(%s, %s, %s)" (idx a) (idx b) (idx c)
    | _ -> "?" in
  "Arena { exprs: [" ^ String.concat ", " (List.map node a) ^ "] }"

let arena_string (a : (z kind * nat list) list) : string =
  let arr = Array.of_list a in
  let rec go i =
    let (k, js) = arr.(i) in
    let c n = go (int_of_nat n) in
    match k, js with
    | NTerm t, _ -> string_of_int (int_of_z t)
    | NNot, [a] -> "~" ^ c a
    | NAnd, [a; b] -> Printf.sprintf "(%s & %s)" (c a) (c b)
    | NOr, [a; b] -> Printf.sprintf "(%s | %s)" (c a) (c b)
    | NXor, [a; b] -> Printf.sprintf "(%s ^ %s)" (c a) (c b)
    | NIte, [a; b; c'] -> Printf.sprintf "(%s ? %s : %s)" (c a) (c b) (c c')
    | _ -> "?" in
  go 0

let rec direct_value = function
  | BxTerm t -> Some (int_of_z t)
  | BxNot a -> (match direct_value a with Some x -> Some (- x) | None -> None)
  | BxAnd (a, b) -> (match direct_value a, direct_value b with Some x, Some y -> Some (x * y) | _ -> None)
  | BxOr (a, b) -> (match direct_value a, direct_value b with Some x, Some y -> Some (x + y) | _ -> None)
  | _ -> None

let show_opt = function Some x -> Printf.sprintf "Some(%d)" x | None -> "None"

let run_eda (lines : string list) =
  List.iter (fun line ->
    let tk = toks line in
    if is_body ["eda"] tk then begin
      let nn i = n_of_int (int_of_string tk.(i)) in
      match tk.(0) with
      | "arena" ->
        let pos = Stdlib.ref 1 in
        let e = parse_boxed tk pos in
        let a = eda_arena e in
        let ev = if plain_nots e then (match eda_eval e with Some z -> string_of_int (int_of_z z) | None -> "model:none") else "skip" in
        let tb = match eda_to_boxed e with Some b -> boxed_string b | None -> "model:none" in
        Printf.printf "a %s ;; s %s ;; b %s ;; e %s ;; tb %s\n" (arena_debug a) (arena_string a) (boxed_string e) ev tb
      | "neg" ->
        let pos = Stdlib.ref 1 in
        let e = parse_boxed tk pos in
        let n = bnot e in
        let av = if plain_nots n then (match eda_eval n with Some z -> Some (int_of_z z) | None -> None) else None in
        Printf.printf "n %s ;; %s %s %s\n" (boxed_string n) (show_opt (direct_value e)) (show_opt (direct_value n)) (show_opt av)
      | "fromvar" -> Printf.printf "u %d\n" (int_of_n (from_var (nn 1)))
      | "frominput" -> Printf.printf "u %d\n" (int_of_n (from_input (nn 1)))
      | "not" -> Printf.printf "u %d\n" (int_of_n (snot (nn 1)))
      | "info" ->
        let s = nn 1 in
        let b x = if x then 1 else 0 in
        let r = Printf.sprintf "f %d %d %d %d %d" (int_of_n (sig_index s)) (b (is_const s)) (b (is_input s)) (b (is_var s)) (b (is_negated s)) in
        let r = if is_var s then r ^ Printf.sprintf " var=%d" (int_of_n (sig_var s)) else r in
        let r = if is_input s then r ^ Printf.sprintf " input=%d" (int_of_n (sig_input s)) else r in
        print_endline r
      | o -> failwith ("bad eda line " ^ o)
    end) lines;
  print_endline "end"

let () =
  let file = Sys.argv.(1) in
  let ic = open_in file in
  let lines = Stdlib.ref [] in
  (try while true do lines := input_line ic :: !lines done with End_of_file -> ());
  close_in ic;
  let lines = List.rev !lines in
  let first = List.find_opt (fun l -> let l = String.trim l in l <> "" && l.[0] <> '#' && not (String.length l >= 5 && String.sub l 0 5 = "nvars")) lines in
  match first with
  | Some l ->
    (match (toks l).(0) with
     | "cfg" -> run_bdd lines
     | "table" -> run_table lines
     | "ntable" -> run_ntable lines
     | "cache" | "kcache" -> run_cache lines
     | "raw" -> run_raw lines
     | "eda" -> run_eda lines
     | _ -> failwith "unknown domain")
  | None -> failwith "empty history"
