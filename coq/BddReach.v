From Coq Require Import Arith NArith Bool Lia List.
Require Import Canon SemTk BddBase BddIte.
Import ListNotations.
Local Open Scope N_scope.

Section Reach.
  Context {SO : StoreOps} {OK : StoreOK}.

  Definition memN (i : N) (l : list N) : bool := existsb (N.eqb i) l.
  Lemma memN_spec i l : memN i l = true <-> In i l.
  Proof.
    unfold memN. rewrite existsb_exists. split.
    - intros (x & Hx & E). apply N.eqb_eq in E. now subst.
    - intro H. exists i. split; [exact H|apply N.eqb_refl].
  Qed.

  (* src/bdd.rs descendants(): visited = {1}; FIFO queue of indices *)
  Fixpoint bfs (fuel : nat) (s : st) (visited queue : list N) : option (list N) :=
    match fuel with O => None | S fuel =>
      match queue with
      | [] => Some visited
      | i :: q =>
        if memN i visited then bfs fuel s visited q
        else match cell s i with
             | Some n => bfs fuel s (i :: visited) (q ++ [idx (lo n); idx (hi n)])
             | None => None        (* the code would read a free cell / panic on index 0 *)
             end
      end
    end.
  Definition descendants (fuel : nat) (s : st) (roots : list ref) : option (list N) :=
    bfs fuel s [1] (map idx roots).

  (* child relation and reachability on indices *)
  Definition child (s : st) (i j : N) : Prop := exists n, cell s i = Some n /\ (j = idx (lo n) \/ j = idx (hi n)).
  Inductive Reach (s : st) : N -> N -> Prop :=
  | ReachRefl i : Reach s i i
  | ReachStep i j k : child s i j -> Reach s j k -> Reach s i k.

  Definition okidx (s : st) (i : N) := i = 1 \/ exists n, cell s i = Some n.
  (* every child of a stored node is the terminal or a stored node (part of NodeInv; follows from V) *)
  Definition closed (s : st) := forall i j, child s i j -> okidx s j.

  Record BInv (s : st) (roots visited queue : list N) : Prop := {
    b_one : In 1 visited;
    b_nodup : NoDup visited;
    b_ok : forall i, In i visited \/ In i queue -> okidx s i;
    b_sound : forall i, In i visited \/ In i queue -> i = 1 \/ exists r, In r roots /\ Reach s r i;
    b_roots : forall r, In r roots -> In r visited \/ In r queue;
    b_closed : forall i j, In i visited -> child s i j -> In j visited \/ In j queue }.

  Lemma bfs_ok : forall fuel s roots visited queue res, Inv s -> closed s ->
    BInv s roots visited queue -> bfs fuel s visited queue = Some res ->
    NoDup res /\ forall i, In i res <-> (i = 1 \/ exists r, In r roots /\ Reach s r i).
  Proof.
    induction fuel as [|fuel IH]; intros s roots visited queue res HT Hcl I H; [discriminate|].
    cbn [bfs] in H. destruct queue as [|i q].
    - injection H as <-. destruct I. split; [assumption|]. intro i. split.
      + intro Hi. apply b_sound0. now left.
      + intros [->|(r & Hr & Hreach)]; [assumption|].
        assert (Hrv : In r visited) by (destruct (b_roots0 r Hr) as [?|[]]; assumption).
        clear Hr. induction Hreach as [i|i j k Hc _ IHr]; [assumption|].
        apply IHr. destruct (b_closed0 i j Hrv Hc) as [?|[]]. assumption.
    - destruct (memN i visited) eqn:Hm.
      + apply memN_spec in Hm. apply (IH s roots visited q res HT Hcl); [|exact H]. destruct I. constructor; auto.
        * intros j [Hj|Hj]; apply b_ok0; auto. right; right; assumption.
        * intros j [Hj|Hj]; apply b_sound0; auto. right; right; assumption.
        * intros r Hr. destruct (b_roots0 r Hr) as [?|[<-|?]]; auto.
        * intros a b Ha Hc. destruct (b_closed0 a b Ha Hc) as [?|[<-|?]]; auto.
      + assert (Hni : ~ In i visited) by (rewrite <- memN_spec; congruence).
        destruct (cell s i) as [n|] eqn:Hc; [|discriminate].
        apply (IH s roots (i :: visited) (q ++ [idx (lo n); idx (hi n)]) res HT Hcl); [|exact H]. destruct I. constructor.
        * right; assumption.
        * constructor; assumption.
        * intros j [[<-|Hj]|Hj].
          -- right; eauto.
          -- apply b_ok0; auto.
          -- apply in_app_or in Hj. destruct Hj as [Hj|[<-|[<-|[]]]].
             ++ apply b_ok0. right; right; assumption.
             ++ apply (Hcl i). exists n; auto.
             ++ apply (Hcl i). exists n; auto.
        * assert (Hi : i = 1 \/ exists r, In r roots /\ Reach s r i) by (apply b_sound0; right; left; reflexivity).
          assert (Hi1 : i <> 1) by (intros ->; contradiction).
          destruct Hi as [?|(r & Hr & Hri)]; [contradiction|].
          assert (Hch : forall j, child s i j -> exists r, In r roots /\ Reach s r j).
          { intros j Hj. exists r. split; [assumption|]. clear Hr. induction Hri as [a|a b c Hab _ IHr]; [econstructor; [exact Hj|constructor]|].
            econstructor; [exact Hab|]. apply IHr; auto. }
          intros j [[<-|Hj]|Hj].
          -- right; eauto.
          -- apply b_sound0; auto.
          -- apply in_app_or in Hj. destruct Hj as [Hj|[<-|[<-|[]]]].
             ++ apply b_sound0. right; right; assumption.
             ++ right. apply Hch. exists n; auto.
             ++ right. apply Hch. exists n; auto.
        * intros r Hr. destruct (b_roots0 r Hr) as [?|[<-|?]].
          -- left; right; assumption.
          -- left; left; reflexivity.
          -- right. apply in_or_app; left; assumption.
        * intros a b [<-|Ha] Hcab.
          -- destruct Hcab as (n' & Hn' & Hb). rewrite Hc in Hn'. injection Hn' as <-.
             right. apply in_or_app. right. destruct Hb as [->| ->]; [left|right; left]; reflexivity.
          -- destruct (b_closed0 a b Ha Hcab) as [?|[<-|?]].
             ++ left; right; assumption.
             ++ left; left; reflexivity.
             ++ right. apply in_or_app; left; assumption.
  Qed.

  Theorem descendants_ok fuel s roots res : Inv s -> closed s -> (forall r, In r roots -> okidx s (idx r)) ->
    descendants fuel s roots = Some res ->
    NoDup res /\ forall i, In i res <-> (i = 1 \/ exists r, In r roots /\ Reach s (idx r) i).
  Proof.
    intros HT Hcl Hroots H. unfold descendants in H.
    destruct (bfs_ok fuel s (map idx roots) [1] (map idx roots) res HT Hcl) as [Hnd Hres]; auto.
    - constructor.
      + left; reflexivity.
      + constructor; [intros []|constructor].
      + intros i [[<-|[]]|Hi]; [left; reflexivity|]. apply in_map_iff in Hi. destruct Hi as (r & <- & Hr). auto.
      + intros i [[<-|[]]|Hi]; [left; reflexivity|]. right. exists i. split; [assumption|constructor].
      + intros r Hr. right; assumption.
      + intros i j [<-|[]] (n & Hn & _). destruct (cell1 _ (proj1 HT)) as [E _]. congruence.
    - split; [assumption|]. intro i. rewrite Hres. split; intros [->|(r & Hr & Hreach)]; auto.
      + apply in_map_iff in Hr. destruct Hr as (r0 & <- & Hr0). right; eauto.
      + right. exists (idx r). split; [apply in_map; assumption|assumption].
  Qed.

  (* the node invariant gives closure under children *)
  Lemma closed_of_inv s : Inv s -> closed s.
  Proof.
    intros [HT HN] i j (n & Hc & Hj). destruct (HN i n Hc) as (t & (HR & _)). cbn in HR.
    destruct t as [|v ln tl th].
    - apply Rep_leaf_inv in HR. subst i. destruct (cell1 _ HT) as [E _]. congruence.
    - apply Rep_nd_inv in HR. destruct HR as (_ & l & h & Hc' & _ & _ & Rl & Rh). rewrite Hc in Hc'. injection Hc' as ->. cbn in Hj.
      assert (Hok : forall k tk, Rep s k tk -> okidx s k).
      { intros k tk Hk. destruct tk; [left; now apply Rep_leaf_inv in Hk|right]. apply Rep_nd_inv in Hk. destruct Hk as (_ & ? & ? & ? & _). eauto. }
      destruct Hj as [->| ->]; eauto.
  Qed.

  (* garbage collection at the level of the node store: restricting to a child-closed set of cells
     keeps every tree of a surviving handle *)
  Lemma Rep_restrict s s' (alive : N -> Prop) :
    (forall i n, cell s i = Some n -> alive i -> cell s' i = Some n) ->
    (forall i j, alive i -> child s i j -> j = 1 \/ alive j) ->
    forall i t, Rep s i t -> i = 1 \/ alive i -> Rep s' i t.
  Proof.
    intros Hkeep Hcl i t HR. induction HR as [|i v l h tl th Hi Hc Hn Hl IHl Hh IHh]; intro Ha; [constructor|].
    destruct Ha as [?|Ha]; [contradiction|].
    econstructor; eauto.
    - apply IHl. apply (Hcl i); auto. exists (Node v l h). auto.
    - apply IHh. apply (Hcl i); auto. exists (Node v l h). auto.
  Qed.
  Lemma V_restrict s s' (alive : N -> Prop) r t :
    (forall i n, cell s i = Some n -> alive i -> cell s' i = Some n) ->
    (forall i j, alive i -> child s i j -> j = 1 \/ alive j) ->
    V s r t -> idx r = 1 \/ alive (idx r) -> V s' r t.
  Proof. intros Hk Hc (HR & ?) Ha. split; [eapply Rep_restrict; eauto|assumption]. Qed.

  (* the set computed by descendants is closed under children *)
  Lemma reach_closed s roots i j : Inv s ->
    (i = 1 \/ exists r, In r roots /\ Reach s (idx r) i) -> child s i j ->
    (j = 1 \/ exists r, In r roots /\ Reach s (idx r) j).
  Proof.
    intros [HT _] [->|(r & Hr & Hri)] Hc.
    - destruct Hc as (n & Hn & _). destruct (cell1 _ HT) as [E _]. congruence.
    - right. exists r. split; [assumption|]. clear Hr. induction Hri as [a|a b c Hab _ IHr]; [econstructor; [exact Hc|constructor]|].
      econstructor; [exact Hab|]. apply IHr; auto.
  Qed.

  (* ---------- size (C04): the number of reachable nodes is a function of the handle's index and is stable ---------- *)
  Lemma reach_okidx s a b : closed s -> Reach s a b -> okidx s a -> okidx s b.
  Proof. intros Hcl Hab. induction Hab as [i|i j k Hc _ IH]; [auto|]. intro Hi. apply IH. eapply Hcl; eauto. Qed.

  Lemma reach_ext s s' a b : Inv s' -> sext s s' -> closed s -> okidx s a -> (Reach s a b <-> Reach s' a b).
  Proof.
    intros [HT' _] E Hcl Ha. split.
    - intro H. induction H as [i|i j k Hc _ IH]; [constructor|].
      destruct Hc as (n & Hn & Hj). econstructor; [exists n; split; [apply E; exact Hn|exact Hj]|].
      apply IH. eapply Hcl. exists n; eauto.
    - intro H. induction H as [i|i j k Hc _ IH]; [constructor|].
      destruct Hc as (n & Hn & Hj). destruct Ha as [->|(n0 & Hn0)].
      + exfalso. destruct (cell1 _ HT') as [E1 _]. congruence.
      + pose proof (E _ _ Hn0) as E0. rewrite Hn in E0. injection E0 as ->.
        econstructor; [exists n0; split; [exact Hn0|exact Hj]|]. apply IH. eapply Hcl. exists n0; eauto.
  Qed.

  Lemma NoDup_same_length (l1 l2 : list N) : NoDup l1 -> NoDup l2 -> (forall x, In x l1 <-> In x l2) -> length l1 = length l2.
  Proof.
    intros H1 H2 H. apply Nat.le_antisymm; apply NoDup_incl_length; auto; intros x Hx; apply H; exact Hx.
  Qed.

  (* size f = |descendants [f]|: the same for f and -f, and unchanged by any later operation that only extends the store *)
  Theorem size_stable fuel fuel' s s' f t l l' : Inv s -> Inv s' -> sext s s' -> V s f t ->
    descendants fuel s [f] = Some l -> descendants fuel' s' [rneg f] = Some l' -> length l = length l'.
  Proof.
    intros HI HI' E HV H1 H2.
    assert (Hok : okidx s (idx f)).
    { destruct HV as (HR & _). destruct t; [left; now apply Rep_leaf_inv in HR|right]. apply Rep_nd_inv in HR. destruct HR as (_ & ? & ? & ? & _). eauto. }
    assert (Hok' : okidx s' (idx f)) by (destruct Hok as [?|(n & Hn)]; [left; assumption|right; exists n; apply E; exact Hn]).
    destruct (descendants_ok fuel s [f] l HI (closed_of_inv _ HI)) as [Hnd Hl]; auto; [intros r [<-|[]]; exact Hok|].
    destruct (descendants_ok fuel' s' [rneg f] l' HI' (closed_of_inv _ HI')) as [Hnd' Hl']; auto; [intros r [<-|[]]; exact Hok'|].
    apply NoDup_same_length; auto. intro x. rewrite Hl, Hl'. split; intros [->|(r & [<-|[]] & Hr)]; auto; right.
    - exists (rneg f). split; [left; reflexivity|]. cbn [rneg idx]. apply (reach_ext s s' _ _ HI' E (closed_of_inv _ HI) Hok). exact Hr.
    - exists f. split; [left; reflexivity|]. cbn [rneg idx] in Hr. apply (reach_ext s s' _ _ HI' E (closed_of_inv _ HI) Hok). exact Hr.
  Qed.
  Print Assumptions size_stable.
End Reach.