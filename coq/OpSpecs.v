From Coq Require Import Arith NArith Bool Lia List.
Require Import Canon SemTk CountTk TableProto BddBase BddIte BddCR BddSat BddCof BddCof2 BddCtor BddEval BddPaths BddPathsCount BddReach BddExport BddDot Glue Machine Reachable.
Import ListNotations.
Local Open Scope N_scope.

(* Step-level specifications: what one line of a history does to a reachable manager state, stated with the vocabulary
   of Reachable.v (reachable / liveh / denotes).  Each is a composition of reachable_good with the per-operation
   theorem of the Bdd*.v files.  The property files quote these. *)
Section Specs.
  Variable nhash : node -> N.
  Variable khash : key -> N.
  Variable bmask cmask0 smask0 capacity : N.
  Hypothesis cap_ok : 2 <= capacity.
  Context {MS : Memo ref ref} {MC : Memo (ref * ref) ref} {MQ : Memo (nat * ref) ref} {MN : Memo ref N}.
  Local Instance sops : StoreOps := concrete_ops nhash khash.
  Local Instance sok : StoreOK := concrete_ok nhash khash.
  Notation reachable := (@reachable nhash khash bmask cmask0 smask0 capacity MS MC MQ MN).
  Notation mstep := (@mstep nhash khash MS MC MQ MN).
  Notation denotes := (denotes nhash khash).
  Notation Good := (Good nhash khash).

  (* everything that was live stays live and keeps its meaning *)
  Definition frame (mr mr' : mstate * regs) : Prop :=
    forall a r0, liveh mr a r0 -> liveh mr' a r0 /\ forall F0, denotes mr r0 F0 -> denotes mr' r0 F0.
  (* the line produced register number k = the number of handle-producing lines so far *)
  Definition newreg (mr mr' : mstate * regs) (r : ref) : Prop :=
    snd mr' = snd mr ++ [Some r].

  Lemma good_of mr : reachable mr -> Good mr.
  Proof. apply reachable_good. exact cap_ok. Qed.

  Lemma fetch_app rs x a r0 : fetch rs a = Some r0 -> fetch (rs ++ [x]) a = Some r0.
  Proof.
    unfold fetch. destruct (nth_error rs (fst a)) as [[r1|]|] eqn:E; try discriminate. intro H.
    rewrite nth_error_app1; [now rewrite E|]. apply nth_error_Some. congruence.
  Qed.
  Lemma frame_push (m : mstate) rs s' x : sext (core m) s' -> frame (m, rs) ({| core := s'; szc := szc m |}, rs ++ [x]).
  Proof.
    intros E a r0 HL. split; [apply fetch_app; exact HL|]. intros F0 (t & Vt & St). exists t. split; [eapply V_ext; eauto|exact St].
  Qed.
  Lemma denotes_live_fun mr r F t : V (store mr) r t -> denotes mr r F -> forall e, rsem r t e = F e.
  Proof. intros Vt (t' & Vt' & St') e. rewrite (V_fun _ _ _ _ Vt Vt'). apply St'. Qed.

  (* ---------------- a generic wrapper for handle-producing operations on the node store ---------------- *)
  Lemma push_spec (m : mstate) rs (res : option (state * ref)) mr' x (P : state -> ref -> Prop) :
    (forall s' r, res = Some (s', r) -> sext (core m) s' /\ P s' r) ->
    match res with Some (s', r) => Some ({| core := s'; szc := szc m |}, rs ++ [Some r], OReg r) | None => None end = Some (mr', x) ->
    exists r, x = OReg r /\ newreg (m, rs) mr' r /\ frame (m, rs) mr' /\ P (store mr') r.
  Proof.
    intros Hres H. destruct res as [[s' r]|]; [|discriminate]. injection H as <- <-. destruct (Hres _ _ eq_refl) as [E HP].
    exists r. splits; auto; [reflexivity|apply frame_push; exact E].
  Qed.

  (* ---------------- C02: if-then-else ---------------- *)
  Theorem ite_step_spec mr f g h rf rg rh F G H fuel mr' x :
    reachable mr -> liveh mr f rf -> liveh mr g rg -> liveh mr h rh ->
    denotes mr rf F -> denotes mr rg G -> denotes mr rh H ->
    mstep fuel mr (HIte f g h) = Some (mr', x) ->
    exists r, x = OReg r /\ newreg mr mr' r /\ frame mr mr' /\
      denotes mr' r (fun e => if F e then G e else H e).
  Proof.
    intros HR Lf Lg Lh (tf & Vf & Sf) (tg & Vg & Sg) (th & Vh & Sh) Hs. destruct mr as [m rs].
    destruct (good_of _ HR) as (HI & HC & _). unfold liveh in *; cbn [fst snd store] in *.
    unfold Reachable.mstep, step in Hs. rewrite Lf, Lg, Lh in Hs.
    apply (push_spec m rs _ mr' x (fun s' r => exists t, @V sops s' r t /\ forall e, rsem r t e = (if F e then G e else H e))) in Hs; [exact Hs|]. intros s' r E.
    destruct (ite_ok _ _ _ _ _ _ _ _ _ _ HI HC E Vf Vg Vh) as (_ & _ & Ex & tr & Vr & Sr & _).
    split; [exact Ex|]. exists tr. split; [exact Vr|]. intro e. now rewrite Sr, Sf, Sg, Sh.
  Qed.

  (* a handle-producing line whose arguments are all live and whose precondition holds is not skipped; what it returns: *)
  Ltac open_step HR Hs m rs HI HC :=
    destruct (good_of _ HR) as (HI & HC & _); unfold liveh, store in *; cbn [fst snd] in *;
    unfold Reachable.mstep, step in Hs.

  (* ---------------- C15: constructors ---------------- *)
  Theorem const_step_spec mr b fuel mr' x : reachable mr -> mstep fuel mr (HConst b) = Some (mr', x) ->
    exists r, x = OReg r /\ newreg mr mr' r /\ frame mr mr' /\ denotes mr' r (fun _ => b) /\ r = (if b then one else zero).
  Proof.
    intros HR Hs. destruct mr as [m rs]. unfold Reachable.mstep, step in Hs. injection Hs as <- <-.
    exists (if b then one else zero). splits; auto; [reflexivity|apply frame_push; apply sext_refl|].
    exists Leaf. cbn [store fst core]. destruct b; split; [apply V_one|reflexivity|apply V_zero|reflexivity].
  Qed.

  Theorem var_step_spec mr v fuel mr' x : reachable mr -> 0 < v -> mstep fuel mr (HVar v) = Some (mr', x) ->
    exists r, x = OReg r /\ newreg mr mr' r /\ frame mr mr' /\ denotes mr' r (fun e => e v).
  Proof.
    intros HR Hv Hs. destruct mr as [m rs]. open_step HR Hs m rs HI HC.
    destruct (N.ltb_spec 0 v) as [_|]; [|lia].
    apply (push_spec m rs _ mr' x (fun s' r => exists t, @V sops s' r t /\ forall e, rsem r t e = e v)) in Hs; [exact Hs|]. intros s' r E.
    unfold mk_var in E.
    destruct (mk_node_ok _ _ _ _ _ _ _ _ HI E Hv (@V_zero sops (core m)) (@V_one sops (core m)) I I) as (_ & Ex & _ & tr & Vr & Sr & _).
    split; [exact Ex|]. exists tr. split; [exact Vr|]. intro e. rewrite Sr. now destruct (e v).
  Qed.

  (* mk_node(v, lo, hi) with v below the top variables of both children *)
  Theorem node_step_spec mr v lo hi rl rh L Hf fuel mr' x :
    reachable mr -> liveh mr lo rl -> liveh mr hi rh -> denotes mr rl L -> denotes mr rh Hf ->
    0 < v -> below nhash khash (store mr) v rl = true -> below nhash khash (store mr) v rh = true ->
    mstep fuel mr (HNode v lo hi) = Some (mr', x) ->
    exists r, x = OReg r /\ newreg mr mr' r /\ frame mr mr' /\
      denotes mr' r (fun e => if e v then Hf e else L e) /\ (rl = rh -> r = rl).
  Proof.
    intros HR Ll Lh (tl & Vl & Sl) (th & Vh & Sh) Hv Bl Bh Hs. destruct mr as [m rs]. open_step HR Hs m rs HI HC.
    rewrite Ll, Lh in Hs. destruct (N.ltb_spec 0 v) as [_|]; [|lia]. rewrite Bl, Bh in Hs. cbn [andb] in Hs.
    apply (push_spec m rs _ mr' x (fun s' r => (exists t, @V sops s' r t /\ forall e, rsem r t e = if e v then Hf e else L e) /\ (rl = rh -> r = rl))) in Hs.
    { destruct Hs as (r & ? & ? & ? & ? & ?). exists r. splits; auto. }
    intros s' r E.
    destruct (mk_node_ok _ _ _ _ _ _ _ _ HI E Hv Vl Vh (below_above _ _ _ _ _ _ HI Vl Bl) (below_above _ _ _ _ _ _ HI Vh Bh)) as (_ & Ex & _ & tr & Vr & Sr & _).
    split; [exact Ex|]. split.
    - exists tr. split; [exact Vr|]. intro e. rewrite Sr, Sl, Sh. reflexivity.
    - intros ->. unfold mk_node in E. destruct (neg rh) eqn:Nh.
      + destruct (ref_eqb_spec (rneg rh) (rneg rh)) as [_|Hne]; [|contradiction]. injection E as _ <-. apply rneg_invol.
      + destruct (ref_eqb_spec rh rh) as [_|Hne]; [|contradiction]. injection E as _ <-. reflexivity.
  Qed.

  (* cube / clause over distinct positive variables, in any listing order *)
  Theorem cube_step_spec mr cl l fuel mr' x :
    reachable mr -> distinct_pos l = true -> mstep fuel mr (HCube cl l) = Some (mr', x) ->
    exists r, x = OReg r /\ newreg mr mr' r /\ frame mr mr' /\ denotes mr' r (lits_sem cl l).
  Proof.
    intros HR D Hs. destruct mr as [m rs]. open_step HR Hs m rs HI HC. rewrite D in Hs.
    apply (push_spec m rs _ mr' x (fun s' r => exists t, @V sops s' r t /\ forall e, rsem r t e = lits_sem cl l e)) in Hs; [exact Hs|]. intros s' r E.
    apply andb_prop in D as [D1 D2].
    destruct (@cube_clause_ok sops sok cl (core m) l s' r HI HC (nodupb_ok _ D2)) as (_ & _ & Ex & tr & Vr & Sr); eauto.
    intros y Hy. rewrite forallb_forall in D1. apply N.ltb_lt. apply D1. exact Hy.
  Qed.

  (* ---------------- C03: connectives, folds, expressions ---------------- *)
  Definition bin_sem (o : binop) (a b : bool) : bool :=
    match o with BAnd => a && b | BOr => a || b | BXor => xorb a b | BEq => Bool.eqb a b | BImply => implb a b end.

  Theorem bin_step_spec mr o f g rf rg F G fuel mr' x :
    reachable mr -> liveh mr f rf -> liveh mr g rg -> denotes mr rf F -> denotes mr rg G ->
    mstep fuel mr (HBin o f g) = Some (mr', x) ->
    exists r, x = OReg r /\ newreg mr mr' r /\ frame mr mr' /\ denotes mr' r (fun e => bin_sem o (F e) (G e)).
  Proof.
    intros HR Lf Lg (tf & Vf & Sf) (tg & Vg & Sg) Hs. destruct mr as [m rs]. open_step HR Hs m rs HI HC.
    rewrite Lf, Lg in Hs.
    apply (push_spec m rs _ mr' x (fun s' r => exists t, @V sops s' r t /\ forall e, rsem r t e = bin_sem o (F e) (G e))) in Hs; [exact Hs|]. intros s' r E.
    destruct o; cbn [apply_bin bin_sem] in *.
    - destruct (and_ok _ _ _ _ _ _ _ _ HI HC Vf Vg E) as (_ & _ & Ex & tr & Vr & Sr). split; [exact Ex|]. exists tr. split; auto. intro e. now rewrite Sr, Sf, Sg.
    - destruct (or_ok _ _ _ _ _ _ _ _ HI HC Vf Vg E) as (_ & _ & Ex & tr & Vr & Sr). split; [exact Ex|]. exists tr. split; auto. intro e. now rewrite Sr, Sf, Sg.
    - destruct (xor_ok _ _ _ _ _ _ _ _ HI HC Vf Vg E) as (_ & _ & Ex & tr & Vr & Sr). split; [exact Ex|]. exists tr. split; auto. intro e. now rewrite Sr, Sf, Sg.
    - destruct (eq_ok _ _ _ _ _ _ _ _ HI HC Vf Vg E) as (_ & _ & Ex & tr & Vr & Sr). split; [exact Ex|]. exists tr. split; auto. intro e. rewrite Sr, Sf, Sg. now destruct (F e), (G e).
    - destruct (imply_ok _ _ _ _ _ _ _ _ HI HC Vf Vg E) as (_ & _ & Ex & tr & Vr & Sr). split; [exact Ex|]. exists tr. split; auto. intro e. rewrite Sr, Sf, Sg. now destruct (F e), (G e).
  Qed.

  Theorem not_step_spec mr f rf F fuel mr' x :
    reachable mr -> liveh mr f rf -> denotes mr rf F -> mstep fuel mr (HNot f) = Some (mr', x) ->
    x = OReg (rneg rf) /\ newreg mr mr' (rneg rf) /\ frame mr mr' /\ denotes mr' (rneg rf) (fun e => negb (F e)) /\ store mr' = store mr.
  Proof.
    intros HR Lf HF Hs. destruct mr as [m rs]. open_step HR Hs m rs HI HC. rewrite Lf in Hs. injection Hs as <- <-.
    splits; auto; [reflexivity|apply frame_push; apply sext_refl|]. exact (denotes_neg _ _ _ _ _ HF).
  Qed.

End Specs.
