From Coq Require Import Arith NArith Bool Lia List.
Require Import Canon SemTk CountTk TableProto BddBase BddIte BddCR BddSat BddCof BddCof2 BddCtor BddEval BddPaths BddPathsCount BddReach BddExport BddDot BddTerm BddTerm2 Glue Machine Reachable.
Import ListNotations.
Local Open Scope N_scope.

(* Step-level specifications: what one line of a history does to a reachable manager state, stated with the vocabulary
   of Reachable.v (reachable / liveh / denotes).  Each is a composition of reachable_good with the per-operation
   theorem of the Bdd*.v files.  The property files quote these. *)
Section Specs.
  Variable nhash : node -> N.
  Variable khash : key -> N.
  Variable bmask cmask0 smask0 capacity : N.
  Hypothesis cap_ok : 2 <= capacity.
  Context {MS : Memo ref ref} {MC : Memo (ref * ref) ref} {MQ : Memo (nat * ref) ref} {MN : Memo ref N}.
  Local Instance sops : StoreOps := concrete_ops nhash khash.
  Local Instance sok : StoreOK := concrete_ok nhash khash.
  Notation reachable := (@reachable nhash khash bmask cmask0 smask0 capacity MS MC MQ MN).
  Notation mstep := (@mstep nhash khash MS MC MQ MN).
  Notation denotes := (denotes nhash khash).
  Notation Good := (Good nhash khash).

  (* everything that was live stays live and keeps its meaning *)
  Definition frame (mr mr' : mstate * regs) : Prop :=
    forall a r0, liveh mr a r0 -> liveh mr' a r0 /\ forall F0, denotes mr r0 F0 -> denotes mr' r0 F0.
  (* the line produced register number k = the number of handle-producing lines so far *)
  Definition newreg (mr mr' : mstate * regs) (r : ref) : Prop :=
    snd mr' = snd mr ++ [Some r].

  Lemma good_of mr : reachable mr -> Good mr.
  Proof. apply reachable_good. exact cap_ok. Qed.

  Lemma fetch_app rs x a r0 : fetch rs a = Some r0 -> fetch (rs ++ [x]) a = Some r0.
  Proof.
    unfold fetch. destruct (nth_error rs (fst a)) as [[r1|]|] eqn:E; try discriminate. intro H.
    rewrite nth_error_app1; [now rewrite E|]. apply nth_error_Some. congruence.
  Qed.
  Lemma frame_push (m : mstate) rs s' x : sext (core m) s' -> frame (m, rs) ({| core := s'; szc := szc m |}, rs ++ [x]).
  Proof.
    intros E a r0 HL. split; [apply fetch_app; exact HL|]. intros F0 (t & Vt & St). exists t. split; [eapply V_ext; eauto|exact St].
  Qed.
  Lemma denotes_live_fun mr r F t : V (store mr) r t -> denotes mr r F -> forall e, rsem r t e = F e.
  Proof. intros Vt (t' & Vt' & St') e. rewrite (V_fun _ _ _ _ Vt Vt'). apply St'. Qed.

  (* ---------------- a generic wrapper for handle-producing operations on the node store ---------------- *)
  Lemma push_spec (m : mstate) rs (res : option (state * ref)) mr' x (P : state -> ref -> Prop) :
    (forall s' r, res = Some (s', r) -> sext (core m) s' /\ P s' r) ->
    match res with Some (s', r) => Some ({| core := s'; szc := szc m |}, rs ++ [Some r], OReg r) | None => None end = Some (mr', x) ->
    exists r, x = OReg r /\ newreg (m, rs) mr' r /\ frame (m, rs) mr' /\ P (store mr') r.
  Proof.
    intros Hres H. destruct res as [[s' r]|]; [|discriminate]. injection H as <- <-. destruct (Hres _ _ eq_refl) as [E HP].
    exists r. splits; auto; [reflexivity|apply frame_push; exact E].
  Qed.

  (* ---------------- C02: if-then-else ---------------- *)
  Theorem ite_step_spec mr f g h rf rg rh F G H fuel mr' x :
    reachable mr -> liveh mr f rf -> liveh mr g rg -> liveh mr h rh ->
    denotes mr rf F -> denotes mr rg G -> denotes mr rh H ->
    mstep fuel mr (HIte f g h) = Some (mr', x) ->
    exists r, x = OReg r /\ newreg mr mr' r /\ frame mr mr' /\
      denotes mr' r (fun e => if F e then G e else H e).
  Proof.
    intros HR Lf Lg Lh (tf & Vf & Sf) (tg & Vg & Sg) (th & Vh & Sh) Hs. destruct mr as [m rs].
    destruct (good_of _ HR) as (HI & HC & _). unfold liveh in *; cbn [fst snd store] in *.
    unfold Reachable.mstep, step in Hs. rewrite Lf, Lg, Lh in Hs.
    apply (push_spec m rs _ mr' x (fun s' r => exists t, @V sops s' r t /\ forall e, rsem r t e = (if F e then G e else H e))) in Hs; [exact Hs|]. intros s' r E.
    destruct (ite_ok _ _ _ _ _ _ _ _ _ _ HI HC E Vf Vg Vh) as (_ & _ & Ex & tr & Vr & Sr & _).
    split; [exact Ex|]. exists tr. split; [exact Vr|]. intro e. now rewrite Sr, Sf, Sg, Sh.
  Qed.

  (* C02, termination on the concrete machine: with fuel 3 * (number of variable levels + 1) + 3 the ITE line yields no
     result only when the node table filled up on the way (the crate's "Storage is full" panic): there is an extension
     of the store, itself satisfying the invariants, in which every cell 1 .. capacity-1 is occupied. *)
  Theorem ite_step_terminates mr f g h rf rg rh tf tg th L fuel :
    reachable mr -> liveh mr f rf -> liveh mr g rg -> liveh mr h rh ->
    @V sops (store mr) rf tf -> @V sops (store mr) rg tg -> @V sops (store mr) rh th ->
    allle L tf -> allle L tg -> allle L th ->
    (3 * N.to_nat (L + 1) + 3 <= fuel)%nat ->
    mstep fuel mr (HIte f g h) = None ->
    exists s', @sext sops (store mr) s' /\ @Inv sops s' /\ storage_full node (tbl s').
  Proof.
    intros HR Lf Lg Lh Vf Vg Vh Af Ag Ah Hfuel Hs. destruct mr as [m rs].
    destruct (good_of _ HR) as (HI & HC & _). unfold liveh in *; cbn [fst snd store] in *.
    unfold Reachable.mstep, step in Hs. rewrite Lf, Lg, Lh in Hs.
    match type of Hs with match ?X with _ => _ end = _ => destruct X as [[s1 r1]|] eqn:E; [discriminate|] end. clear Hs.
    destruct (@ite_terminates sops sok L (N.to_nat (L + 1)) fuel Hfuel (core m) rf rg rh tf tg th HI HC Vf Vg Vh Af Ag Ah (mu_le L tf tg th) E)
      as (s' & nd & Ex & HI' & Hp).
    exists s'. splits; auto. destruct HI' as [HT _]. exact (cput_none_storage_full nhash s' nd HT Hp).
  Qed.

  (* the same without mentioning trees: for live handles there is a fuel bound (3 * (largest variable + 2) + 3) from which
     on the only way to get no result is a full table *)
  Theorem ite_step_fuel_bound mr f g h rf rg rh :
    reachable mr -> liveh mr f rf -> liveh mr g rg -> liveh mr h rh ->
    exists bound, forall fuel, (bound <= fuel)%nat -> mstep fuel mr (HIte f g h) = None ->
      exists s', @sext sops (store mr) s' /\ @Inv sops s' /\ storage_full node (tbl s').
  Proof.
    intros HR Lf Lg Lh.
    destruct (live_denotes nhash khash bmask cmask0 smask0 capacity cap_ok mr f rf HR Lf) as (F & tf & Vf & _).
    destruct (live_denotes nhash khash bmask cmask0 smask0 capacity cap_ok mr g rg HR Lg) as (G & tg & Vg & _).
    destruct (live_denotes nhash khash bmask cmask0 smask0 capacity cap_ok mr h rh HR Lh) as (H & th & Vh & _).
    set (L := N.max (maxvar tf) (N.max (maxvar tg) (maxvar th))).
    exists (3 * N.to_nat (L + 1) + 3)%nat. intros fuel Hfuel Hs.
    apply (ite_step_terminates mr f g h rf rg rh tf tg th L fuel HR Lf Lg Lh Vf Vg Vh); auto.
    - eapply allle_mono; [|apply allle_maxvar]. unfold L; lia.
    - eapply allle_mono; [|apply allle_maxvar]. unfold L; lia.
    - eapply allle_mono; [|apply allle_maxvar]. unfold L; lia.
  Qed.

  (* the binary connectives are single ITE calls: same bound *)
  Theorem bin_step_fuel_bound mr op f g rf rg :
    reachable mr -> liveh mr f rf -> liveh mr g rg ->
    exists bound, forall fuel, (bound <= fuel)%nat -> mstep fuel mr (HBin op f g) = None ->
      exists s', @sext sops (store mr) s' /\ @Inv sops s' /\ storage_full node (tbl s').
  Proof.
    intros HR Lf Lg.
    destruct (live_denotes nhash khash bmask cmask0 smask0 capacity cap_ok mr f rf HR Lf) as (F & tf & Vf & _).
    destruct (live_denotes nhash khash bmask cmask0 smask0 capacity cap_ok mr g rg HR Lg) as (G & tg & Vg & _).
    set (L := N.max (maxvar tf) (maxvar tg)).
    exists (3 * N.to_nat (L + 1) + 3)%nat. intros fuel Hfuel Hs.
    destruct mr as [m rs]. destruct (good_of _ HR) as (HI & HC & _). unfold liveh in *; cbn [fst snd store] in *.
    assert (Af : allle L tf) by (eapply allle_mono; [|apply allle_maxvar]; unfold L; lia).
    assert (Ag : allle L tg) by (eapply allle_mono; [|apply allle_maxvar]; unfold L; lia).
    unfold Reachable.mstep, step in Hs. rewrite Lf, Lg in Hs.
    match type of Hs with match ?X with _ => _ end = _ => destruct X as [[s1 r1]|] eqn:E; [discriminate|] end. clear Hs.
    assert (Hst : @Stops sops (core m)).
    { pose proof (@ite_terminates sops sok L (N.to_nat (L + 1)) fuel Hfuel (core m)) as T. unfold Term in T.
      destruct op; cbn [apply_bin] in E; unfold apply_and, apply_or, apply_xor, apply_eq, apply_imply in E.
      - exact (T rf rg zero tf tg Leaf HI HC Vf Vg (V_zero _) Af Ag I (mu_le L tf tg Leaf) E).
      - exact (T rf one rg tf Leaf tg HI HC Vf (V_one _) Vg Af I Ag (mu_le L tf Leaf tg) E).
      - exact (T rf (rneg rg) rg tf tg tg HI HC Vf (V_neg _ _ _ Vg) Vg Af Ag Ag (mu_le L tf tg tg) E).
      - exact (T rf rg (rneg rg) tf tg tg HI HC Vf Vg (V_neg _ _ _ Vg) Af Ag Ag (mu_le L tf tg tg) E).
      - exact (T rf rg one tf tg Leaf HI HC Vf Vg (V_one _) Af Ag I (mu_le L tf tg Leaf) E). }
    destruct Hst as (s' & nd & Ex & HI' & Hp).
    exists s'. splits; auto. destruct HI' as [HT _]. exact (cput_none_storage_full nhash s' nd HT Hp).
  Qed.

  (* constrain / restrict: the same -- with fuel above three times the number of variable levels, no result only if the
     table filled up *)
  Theorem constrain_step_fuel_bound mr f g rf rg :
    reachable mr -> liveh mr f rf -> liveh mr g rg ->
    exists bound, forall fuel, (bound <= fuel)%nat -> mstep fuel mr (HConstrain f g) = None ->
      exists s', @sext sops (store mr) s' /\ @Inv sops s' /\ storage_full node (tbl s').
  Proof.
    intros HR Lf Lg.
    destruct (live_denotes nhash khash bmask cmask0 smask0 capacity cap_ok mr f rf HR Lf) as (F & tf & Vf & _).
    destruct (live_denotes nhash khash bmask cmask0 smask0 capacity cap_ok mr g rg HR Lg) as (G & tg & Vg & _).
    set (L := N.max (maxvar tf) (maxvar tg)).
    exists (N.to_nat (L + 1) + 1)%nat. intros fuel Hfuel Hs.
    destruct mr as [m rs]. destruct (good_of _ HR) as (HI & HC & _). unfold liveh in *; cbn [fst snd store] in *.
    assert (Af : allle L tf) by (eapply allle_mono; [|apply allle_maxvar]; unfold L; lia).
    assert (Ag : allle L tg) by (eapply allle_mono; [|apply allle_maxvar]; unfold L; lia).
    unfold Reachable.mstep, step in Hs. rewrite Lf, Lg in Hs.
    match type of Hs with match ?X with _ => _ end = _ => destruct X as [[s1 r1]|] eqn:E; [discriminate|] end. clear Hs.
    destruct (@constrain_terminates sops sok L (N.to_nat (L + 1)) fuel Hfuel (core m) rf rg tf tg HI HC Vf Vg Af Ag (mu2_le L tf tg) E)
      as (s' & nd & Ex & HI' & Hp).
    exists s'. splits; auto. destruct HI' as [HT _]. exact (cput_none_storage_full nhash s' nd HT Hp).
  Qed.
  Theorem restrict_step_fuel_bound mr f g rf rg :
    reachable mr -> liveh mr f rf -> liveh mr g rg ->
    exists bound, forall fuel, (bound <= fuel)%nat -> mstep fuel mr (HRestrict f g) = None ->
      exists s', @sext sops (store mr) s' /\ @Inv sops s' /\ storage_full node (tbl s').
  Proof.
    intros HR Lf Lg.
    destruct (live_denotes nhash khash bmask cmask0 smask0 capacity cap_ok mr f rf HR Lf) as (F & tf & Vf & _).
    destruct (live_denotes nhash khash bmask cmask0 smask0 capacity cap_ok mr g rg HR Lg) as (G & tg & Vg & _).
    set (L := N.max (maxvar tf) (maxvar tg)).
    exists (3 * N.to_nat (L + 1) + 4)%nat. intros fuel Hfuel Hs.
    destruct mr as [m rs]. destruct (good_of _ HR) as (HI & HC & _). unfold liveh in *; cbn [fst snd store] in *.
    assert (Af : allle L tf) by (eapply allle_mono; [|apply allle_maxvar]; unfold L; lia).
    assert (Ag : allle L tg) by (eapply allle_mono; [|apply allle_maxvar]; unfold L; lia).
    unfold Reachable.mstep, step in Hs. rewrite Lf, Lg in Hs.
    match type of Hs with match ?X with _ => _ end = _ => destruct X as [[s1 r1]|] eqn:E; [discriminate|] end. clear Hs.
    destruct (@restrict_terminates sops sok L (N.to_nat (L + 1)) fuel Hfuel (core m) rf rg tf tg HI HC Vf Vg Af Ag (mu2_le L tf tg) E)
      as (s' & nd & Ex & HI' & Hp).
    exists s'. splits; auto. destruct HI' as [HT _]. exact (cput_none_storage_full nhash s' nd HT Hp).
  Qed.

  (* substitute and compose *)
  Theorem subst_step_fuel_bound mr f rf v b :
    reachable mr -> liveh mr f rf ->
    exists bound, forall fuel, (bound <= fuel)%nat -> mstep fuel mr (HSubst f v b) = None ->
      exists s', @sext sops (store mr) s' /\ @Inv sops s' /\ storage_full node (tbl s').
  Proof.
    intros HR Lf.
    destruct (live_denotes nhash khash bmask cmask0 smask0 capacity cap_ok mr f rf HR Lf) as (F & tf & Vf & _).
    exists (height tf + 1)%nat. intros fuel Hfuel Hs.
    destruct mr as [m rs]. destruct (good_of _ HR) as (HI & HC & _). unfold liveh in *; cbn [fst snd store] in *.
    unfold Reachable.mstep, step in Hs. rewrite Lf in Hs. destruct (0 <? v); [|discriminate].
    unfold drop2 in Hs.
    match type of Hs with match (match ?X with _ => _ end) with _ => _ end = _ => destruct X as [[[s1 m1] r1]|] eqn:E; [discriminate|] end. clear Hs.
    destruct (@subst_terminates sops sok MS v b tf fuel (core m) mempty rf Hfuel HI (fun k r Hk => ltac:(rewrite mget_empty in Hk; discriminate)) Vf E)
      as (s' & nd & Ex & HI' & Hp).
    exists s'. splits; auto. destruct HI' as [HT _]. exact (cput_none_storage_full nhash s' nd HT Hp).
  Qed.
  Theorem compose_step_fuel_bound mr f g rf rg v :
    reachable mr -> liveh mr f rf -> liveh mr g rg ->
    exists bound, forall fuel, (bound <= fuel)%nat -> mstep fuel mr (HCompose f v g) = None ->
      exists s', @sext sops (store mr) s' /\ @Inv sops s' /\ storage_full node (tbl s').
  Proof.
    intros HR Lf Lg.
    destruct (live_denotes nhash khash bmask cmask0 smask0 capacity cap_ok mr f rf HR Lf) as (F & tf & Vf & _).
    destruct (live_denotes nhash khash bmask cmask0 smask0 capacity cap_ok mr g rg HR Lg) as (G & tg & Vg & _).
    set (L := N.max (maxvar tf) (maxvar tg)).
    exists (3 * N.to_nat (L + 1) + 4)%nat. intros fuel Hfuel Hs.
    destruct mr as [m rs]. destruct (good_of _ HR) as (HI & HC & _). unfold liveh in *; cbn [fst snd store] in *.
    assert (Af : allle L tf) by (eapply allle_mono; [|apply allle_maxvar]; unfold L; lia).
    assert (Ag : allle L tg) by (eapply allle_mono; [|apply allle_maxvar]; unfold L; lia).
    unfold Reachable.mstep, step in Hs. rewrite Lf, Lg in Hs. unfold drop2 in Hs.
    match type of Hs with match (match ?X with _ => _ end) with _ => _ end = _ => destruct X as [[[s1 m1] r1]|] eqn:E; [discriminate|] end. clear Hs.
    destruct (@compose_terminates sops sok MC v L (N.to_nat (L + 1)) fuel Hfuel (core m) mempty rf rg tf tg HI HC
                (fun k r Hk => ltac:(rewrite mget_empty in Hk; discriminate)) Vf Vg Af Ag (mu2_le L tf tg) E)
      as (s' & nd & Ex & HI' & Hp).
    exists s'. splits; auto. destruct HI' as [HT _]. exact (cput_none_storage_full nhash s' nd HT Hp).
  Qed.

  Theorem substm_step_fuel_bound mr f rf vals :
    reachable mr -> liveh mr f rf ->
    exists bound, forall fuel, (bound <= fuel)%nat -> mstep fuel mr (HSubstM f vals) = None ->
      exists s', @sext sops (store mr) s' /\ @Inv sops s' /\ storage_full node (tbl s').
  Proof.
    intros HR Lf.
    destruct (live_denotes nhash khash bmask cmask0 smask0 capacity cap_ok mr f rf HR Lf) as (F & tf & Vf & _).
    exists (height tf + 1)%nat. intros fuel Hfuel Hs.
    destruct mr as [m rs]. destruct (good_of _ HR) as (HI & HC & _). unfold liveh in *; cbn [fst snd store] in *.
    unfold Reachable.mstep, step in Hs. rewrite Lf in Hs. destruct (nodupb (map fst vals)); [|discriminate].
    unfold drop2 in Hs.
    match type of Hs with match (match ?X with _ => _ end) with _ => _ end = _ => destruct X as [[[s1 m1] r1]|] eqn:E; [discriminate|] end. clear Hs.
    destruct (@smulti_terminates sops sok MS vals tf fuel (core m) mempty rf Hfuel HI (fun k r Hk => ltac:(rewrite mget_empty in Hk; discriminate)) Vf E)
      as (s' & nd & Ex & HI' & Hp).
    exists s'. splits; auto. destruct HI' as [HT _]. exact (cput_none_storage_full nhash s' nd HT Hp).
  Qed.
  Theorem cofcube_step_fuel_bound mr f rf cube :
    reachable mr -> liveh mr f rf ->
    exists bound, forall fuel, (bound <= fuel)%nat -> mstep fuel mr (HCofCube f cube) = None ->
      exists s', @sext sops (store mr) s' /\ @Inv sops s' /\ storage_full node (tbl s').
  Proof.
    intros HR Lf.
    destruct (live_denotes nhash khash bmask cmask0 smask0 capacity cap_ok mr f rf HR Lf) as (F & tf & Vf & _).
    exists (height tf + length cube + 1)%nat. intros fuel Hfuel Hs.
    destruct mr as [m rs]. destruct (good_of _ HR) as (HI & HC & _). unfold liveh in *; cbn [fst snd store] in *.
    unfold Reachable.mstep, step in Hs. rewrite Lf in Hs. destruct (asc_cubeb 0 cube) eqn:Hd; [|discriminate].
    unfold drop2 in Hs.
    match type of Hs with match (match ?X with _ => _ end) with _ => _ end = _ => destruct X as [[[s1 m1] r1]|] eqn:E; [discriminate|] end. clear Hs.
    destruct (@ccube_terminates sops sok MQ cube (height tf + length cube) fuel Hfuel (core m) mempty rf cube tf 0%N (le_n _) HI
                (fun k r Hk => ltac:(rewrite mget_empty in Hk; discriminate)) Vf (ex_intro _ [] eq_refl) (asc_cubeb_ok _ _ Hd) E)
      as (s' & nd & Ex & HI' & Hp).
    exists s'. splits; auto. destruct HI' as [HT _]. exact (cput_none_storage_full nhash s' nd HT Hp).
  Qed.

  (* n-ary folds and expression trees *)
  Lemma trees_level (tts : list tree) : exists L, Forall (allle L) tts.
  Proof.
    induction tts as [|t tts (L & HL)]; [exists 0%N; constructor|]. exists (N.max L (maxvar t)). constructor.
    - eapply allle_mono; [|apply allle_maxvar]. lia.
    - eapply Forall_impl; [|exact HL]. intros a Ha. eapply allle_mono; [|exact Ha]. lia.
  Qed.
  Theorem many_step_fuel_bound mr disj l rl :
    reachable mr -> fetch_all (snd mr) l = Some rl ->
    exists bound, forall fuel, (bound <= fuel)%nat -> mstep fuel mr (HMany disj l) = None ->
      exists s', @sext sops (store mr) s' /\ @Inv sops s' /\ storage_full node (tbl s').
  Proof.
    intros HR Fl. destruct mr as [m rs]. destruct (good_of _ HR) as (HI & HC & _ & Hg). cbn [fst snd store] in *.
    destruct (fetch_all_F2 nhash khash _ _ Hg _ _ Fl) as (tts & Hf). destruct (trees_level tts) as (L & HL).
    exists (3 * N.to_nat (L + 1) + 3)%nat. intros fuel Hfuel Hs.
    unfold Reachable.mstep, step in Hs. rewrite Fl in Hs.
    match type of Hs with match ?X with _ => _ end = _ => destruct X as [[s1 r1]|] eqn:E; [discriminate|] end. clear Hs.
    assert (Hst : @Stops sops (core m)).
    { destruct disj.
      - exact (@many_terminates sops sok true L fuel Hfuel rl tts (core m) zero Leaf HI HC (V_zero _) I Hf HL E).
      - exact (@many_terminates sops sok false L fuel Hfuel rl tts (core m) one Leaf HI HC (V_one _) I Hf HL E). }
    destruct Hst as (s' & nd & Ex & HI' & Hp).
    exists s'. splits; auto. destruct HI' as [HT _]. exact (cput_none_storage_full nhash s' nd HT Hp).
  Qed.
  Lemma terms_lev_mono (s : state) L L' x : (L <= L')%N -> @terms_lev sops s L x -> @terms_lev sops s L' x.
  Proof.
    intro H. induction x; cbn; [intros (t & Vt & Lt); exists t; split; [exact Vt|eapply allle_mono; eauto]|auto|intuition|intuition|intuition].
  Qed.
  Lemma eterms_level (s : state) x : eterms_ok nhash khash s x -> exists L, @terms_lev sops s L x.
  Proof.
    induction x as [t|a IHa|a IHa b IHb|a IHa b IHb|a IHa b IHb]; cbn.
    - intros (tr & Vt). exists (maxvar tr), tr. split; [exact Vt|apply allle_maxvar].
    - exact IHa.
    - intros [Ha Hb]. destruct (IHa Ha) as (La & Ta). destruct (IHb Hb) as (Lb & Tb). exists (N.max La Lb).
      split; eapply terms_lev_mono; eauto; lia.
    - intros [Ha Hb]. destruct (IHa Ha) as (La & Ta). destruct (IHb Hb) as (Lb & Tb). exists (N.max La Lb).
      split; eapply terms_lev_mono; eauto; lia.
    - intros [Ha Hb]. destruct (IHa Ha) as (La & Ta). destruct (IHb Hb) as (Lb & Tb). exists (N.max La Lb).
      split; eapply terms_lev_mono; eauto; lia.
  Qed.
  Theorem expr_step_fuel_bound mr xe ex :
    reachable mr -> xlate (snd mr) xe = Some ex ->
    exists bound, forall fuel, (bound <= fuel)%nat -> mstep fuel mr (HExpr xe) = None ->
      exists s', @sext sops (store mr) s' /\ @Inv sops s' /\ storage_full node (tbl s').
  Proof.
    intros HR Hx. destruct mr as [m rs]. destruct (good_of _ HR) as (HI & HC & _ & Hg). cbn [fst snd store] in *.
    destruct (eterms_level (core m) ex (xlate_terms nhash khash _ _ Hg _ _ Hx)) as (L & HT).
    exists (3 * N.to_nat (L + 1) + 3)%nat. intros fuel Hfuel Hs.
    unfold Reachable.mstep, step in Hs. rewrite Hx in Hs.
    pose proof (@eval_terminates sops sok L fuel Hfuel ex (core m) HI HC HT) as Hev.
    assert (E : @eval sops fuel (core m) ex = None).
    { match type of Hs with match ?X with _ => _ end = _ => destruct X as [[s1 r1]|] eqn:E0; [discriminate|exact E0] end. }
    clear Hs. rewrite E in Hev.
    destruct Hev as (s' & nd & Ex & HI' & Hp).
    exists s'. splits; auto. destruct HI' as [HT' _]. exact (cput_none_storage_full nhash s' nd HT' Hp).
  Qed.

  (* a handle-producing line whose arguments are all live and whose precondition holds is not skipped; what it returns: *)
  Ltac open_step HR Hs m rs HI HC :=
    destruct (good_of _ HR) as (HI & HC & _); unfold liveh, store in *; cbn [fst snd] in *;
    unfold Reachable.mstep, step in Hs.

  (* ---------------- C15: constructors ---------------- *)
  Theorem const_step_spec mr b fuel mr' x : reachable mr -> mstep fuel mr (HConst b) = Some (mr', x) ->
    exists r, x = OReg r /\ newreg mr mr' r /\ frame mr mr' /\ denotes mr' r (fun _ => b) /\ r = (if b then one else zero).
  Proof.
    intros HR Hs. destruct mr as [m rs]. unfold Reachable.mstep, step in Hs. injection Hs as <- <-.
    exists (if b then one else zero). splits; auto; [reflexivity|apply frame_push; apply sext_refl|].
    exists Leaf. cbn [store fst core]. destruct b; split; [apply V_one|reflexivity|apply V_zero|reflexivity].
  Qed.

  Theorem var_step_spec mr v fuel mr' x : reachable mr -> 0 < v -> mstep fuel mr (HVar v) = Some (mr', x) ->
    exists r, x = OReg r /\ newreg mr mr' r /\ frame mr mr' /\ denotes mr' r (fun e => e v).
  Proof.
    intros HR Hv Hs. destruct mr as [m rs]. open_step HR Hs m rs HI HC.
    destruct (N.ltb_spec 0 v) as [_|]; [|lia].
    apply (push_spec m rs _ mr' x (fun s' r => exists t, @V sops s' r t /\ forall e, rsem r t e = e v)) in Hs; [exact Hs|]. intros s' r E.
    unfold mk_var in E.
    destruct (mk_node_ok _ _ _ _ _ _ _ _ HI E Hv (@V_zero sops (core m)) (@V_one sops (core m)) I I) as (_ & Ex & _ & tr & Vr & Sr & _).
    split; [exact Ex|]. exists tr. split; [exact Vr|]. intro e. rewrite Sr. now destruct (e v).
  Qed.

  (* mk_node(v, lo, hi) with v below the top variables of both children *)
  Theorem node_step_spec mr v lo hi rl rh L Hf fuel mr' x :
    reachable mr -> liveh mr lo rl -> liveh mr hi rh -> denotes mr rl L -> denotes mr rh Hf ->
    0 < v -> below nhash khash (store mr) v rl = true -> below nhash khash (store mr) v rh = true ->
    mstep fuel mr (HNode v lo hi) = Some (mr', x) ->
    exists r, x = OReg r /\ newreg mr mr' r /\ frame mr mr' /\
      denotes mr' r (fun e => if e v then Hf e else L e) /\ (rl = rh -> r = rl).
  Proof.
    intros HR Ll Lh (tl & Vl & Sl) (th & Vh & Sh) Hv Bl Bh Hs. destruct mr as [m rs]. open_step HR Hs m rs HI HC.
    rewrite Ll, Lh in Hs. destruct (N.ltb_spec 0 v) as [_|]; [|lia]. rewrite Bl, Bh in Hs. cbn [andb] in Hs.
    apply (push_spec m rs _ mr' x (fun s' r => (exists t, @V sops s' r t /\ forall e, rsem r t e = if e v then Hf e else L e) /\ (rl = rh -> r = rl))) in Hs.
    { destruct Hs as (r & ? & ? & ? & ? & ?). exists r. splits; auto. }
    intros s' r E.
    destruct (mk_node_ok _ _ _ _ _ _ _ _ HI E Hv Vl Vh (below_above _ _ _ _ _ _ HI Vl Bl) (below_above _ _ _ _ _ _ HI Vh Bh)) as (_ & Ex & _ & tr & Vr & Sr & _).
    split; [exact Ex|]. split.
    - exists tr. split; [exact Vr|]. intro e. rewrite Sr, Sl, Sh. reflexivity.
    - intros ->. unfold mk_node in E. destruct (neg rh) eqn:Nh.
      + destruct (ref_eqb_spec (rneg rh) (rneg rh)) as [_|Hne]; [|contradiction]. injection E as _ <-. apply rneg_invol.
      + destruct (ref_eqb_spec rh rh) as [_|Hne]; [|contradiction]. injection E as _ <-. reflexivity.
  Qed.

  (* cube / clause over distinct positive variables, in any listing order *)
  Theorem cube_step_spec mr cl l fuel mr' x :
    reachable mr -> distinct_pos l = true -> mstep fuel mr (HCube cl l) = Some (mr', x) ->
    exists r, x = OReg r /\ newreg mr mr' r /\ frame mr mr' /\ denotes mr' r (lits_sem cl l).
  Proof.
    intros HR D Hs. destruct mr as [m rs]. open_step HR Hs m rs HI HC. rewrite D in Hs.
    apply (push_spec m rs _ mr' x (fun s' r => exists t, @V sops s' r t /\ forall e, rsem r t e = lits_sem cl l e)) in Hs; [exact Hs|]. intros s' r E.
    apply andb_prop in D as [D1 D2].
    destruct (@cube_clause_ok sops sok cl (core m) l s' r HI HC (nodupb_ok _ D2)) as (_ & _ & Ex & tr & Vr & Sr); eauto.
    intros y Hy. rewrite forallb_forall in D1. apply N.ltb_lt. apply D1. exact Hy.
  Qed.

  (* ---------------- C03: connectives, folds, expressions ---------------- *)
  Definition bin_sem (o : binop) (a b : bool) : bool :=
    match o with BAnd => a && b | BOr => a || b | BXor => xorb a b | BEq => Bool.eqb a b | BImply => implb a b end.

  Theorem bin_step_spec mr o f g rf rg F G fuel mr' x :
    reachable mr -> liveh mr f rf -> liveh mr g rg -> denotes mr rf F -> denotes mr rg G ->
    mstep fuel mr (HBin o f g) = Some (mr', x) ->
    exists r, x = OReg r /\ newreg mr mr' r /\ frame mr mr' /\ denotes mr' r (fun e => bin_sem o (F e) (G e)).
  Proof.
    intros HR Lf Lg (tf & Vf & Sf) (tg & Vg & Sg) Hs. destruct mr as [m rs]. open_step HR Hs m rs HI HC.
    rewrite Lf, Lg in Hs.
    apply (push_spec m rs _ mr' x (fun s' r => exists t, @V sops s' r t /\ forall e, rsem r t e = bin_sem o (F e) (G e))) in Hs; [exact Hs|]. intros s' r E.
    destruct o; cbn [apply_bin bin_sem] in *.
    - destruct (and_ok _ _ _ _ _ _ _ _ HI HC Vf Vg E) as (_ & _ & Ex & tr & Vr & Sr). split; [exact Ex|]. exists tr. split; auto. intro e. now rewrite Sr, Sf, Sg.
    - destruct (or_ok _ _ _ _ _ _ _ _ HI HC Vf Vg E) as (_ & _ & Ex & tr & Vr & Sr). split; [exact Ex|]. exists tr. split; auto. intro e. now rewrite Sr, Sf, Sg.
    - destruct (xor_ok _ _ _ _ _ _ _ _ HI HC Vf Vg E) as (_ & _ & Ex & tr & Vr & Sr). split; [exact Ex|]. exists tr. split; auto. intro e. now rewrite Sr, Sf, Sg.
    - destruct (eq_ok _ _ _ _ _ _ _ _ HI HC Vf Vg E) as (_ & _ & Ex & tr & Vr & Sr). split; [exact Ex|]. exists tr. split; auto. intro e. rewrite Sr, Sf, Sg. now destruct (F e), (G e).
    - destruct (imply_ok _ _ _ _ _ _ _ _ HI HC Vf Vg E) as (_ & _ & Ex & tr & Vr & Sr). split; [exact Ex|]. exists tr. split; auto. intro e. rewrite Sr, Sf, Sg. now destruct (F e), (G e).
  Qed.

  Theorem not_step_spec mr f rf F fuel mr' x :
    reachable mr -> liveh mr f rf -> denotes mr rf F -> mstep fuel mr (HNot f) = Some (mr', x) ->
    x = OReg (rneg rf) /\ newreg mr mr' (rneg rf) /\ frame mr mr' /\ denotes mr' (rneg rf) (fun e => negb (F e)) /\ store mr' = store mr.
  Proof.
    intros HR Lf HF Hs. destruct mr as [m rs]. open_step HR Hs m rs HI HC. rewrite Lf in Hs. injection Hs as <- <-.
    splits; auto; [reflexivity|apply frame_push; apply sext_refl|]. exact (denotes_neg _ _ _ _ _ HF).
  Qed.


  Lemma existsb_map' {A B} (f : B -> bool) (g : A -> B) l : existsb f (map g l) = existsb (fun x => f (g x)) l.
  Proof. induction l as [|a l IH]; cbn; [reflexivity|now rewrite IH]. Qed.
  Lemma forallb_map' {A B} (f : B -> bool) (g : A -> B) l : forallb f (map g l) = forallb (fun x => f (g x)) l.
  Proof. induction l as [|a l IH]; cbn; [reflexivity|now rewrite IH]. Qed.

  (* n-ary folds: conjunction / disjunction of all items, true / false for the empty list *)
  Theorem many_step_spec mr disj l rl (Fs : list bfun) fuel mr' x :
    reachable mr -> fetch_all (snd mr) l = Some rl -> Forall2 (fun r F => denotes mr r F) rl Fs ->
    mstep fuel mr (HMany disj l) = Some (mr', x) ->
    exists r, x = OReg r /\ newreg mr mr' r /\ frame mr mr' /\
      denotes mr' r (fun e => if disj then existsb (fun F => F e) Fs else forallb (fun F => F e) Fs).
  Proof.
    intros HR Fl HF Hs. destruct mr as [m rs]. open_step HR Hs m rs HI HC. rewrite Fl in Hs.
    assert (Htts : exists tts, Forall2 (fun x t => @V sops (core m) x t) rl tts /\
                     forall e, map (fun xt => rsem (fst xt) (snd xt) e) (combine rl tts) = map (fun F => F e) Fs).
    { clear -HF. induction HF as [|r F rl Fs (t & Vt & St) _ (tts & H1 & H2)]; [exists []; split; [constructor|reflexivity]|].
      exists (t :: tts). split; [constructor; auto|]. intro e. cbn. now rewrite St, H2. }
    destruct Htts as (tts & Htts & Hmap).
    apply (push_spec m rs _ mr' x (fun s' r => exists t, @V sops s' r t /\ forall e, rsem r t e = if disj then existsb (fun F => F e) Fs else forallb (fun F => F e) Fs)) in Hs; [exact Hs|].
    intros s' r E. destruct disj.
    - destruct (@or_many_ok sops sok fuel rl tts (core m) zero Leaf s' r HI HC (@V_zero sops (core m)) Htts E) as (_ & _ & Ex & tr & Vr & Sr).
      split; [exact Ex|]. exists tr. split; [exact Vr|]. intro e. rewrite Sr. cbn [rsem zero neg tsem xorb orb].
      rewrite <- (existsb_map' (fun b : bool => b) (fun xt => rsem (fst xt) (snd xt) e)), Hmap, existsb_map'. reflexivity.
    - destruct (@and_many_ok sops sok fuel rl tts (core m) one Leaf s' r HI HC (@V_one sops (core m)) Htts E) as (_ & _ & Ex & tr & Vr & Sr).
      split; [exact Ex|]. exists tr. split; [exact Vr|]. intro e. rewrite Sr. cbn [rsem one neg tsem xorb andb].
      rewrite <- (forallb_map' (fun b : bool => b) (fun xt => rsem (fst xt) (snd xt) e)), Hmap, forallb_map'. reflexivity.
  Qed.

  (* expressions: the meaning of an expression tree over register arguments *)
  Fixpoint xsem (A : rarg -> bfun) (x : xexpr) (e : env) : bool :=
    match x with
    | XTerm a => A a e
    | XNot a | XNeg a => negb (xsem A a e)
    | XAnd a b => xsem A a e && xsem A b e
    | XOr a b => xsem A a e || xsem A b e
    | XXor a b => xorb (xsem A a e) (xsem A b e)
    end.
  Lemma eval_enot fuel s ex : @eval sops fuel s (enot ex) = match @eval sops fuel s ex with Some (s1, r) => Some (s1, rneg r) | None => None end.
  Proof.
    destruct ex as [t|i|a b|a b|a b]; cbn [enot eval]; try reflexivity.
    destruct (eval fuel s i) as [[s1 r]|]; [|reflexivity]. now rewrite rneg_invol.
  Qed.
  Lemma eval_xsem fuel (A : rarg -> bfun) rs : forall x ex s s' r, Inv s -> CInv s ->
    (forall a r0, fetch rs a = Some r0 -> exists t, @V sops s r0 t /\ forall e, rsem r0 t e = A a e) ->
    xlate rs x = Some ex -> @eval sops fuel s ex = Some (s', r) ->
    Inv s' /\ CInv s' /\ sext s s' /\ exists tr, @V sops s' r tr /\ forall e, rsem r tr e = xsem A x e.
  Proof.
    assert (Hext : forall s s', sext s s' ->
      (forall a r0, fetch rs a = Some r0 -> exists t, @V sops s r0 t /\ forall e, rsem r0 t e = A a e) ->
      (forall a r0, fetch rs a = Some r0 -> exists t, @V sops s' r0 t /\ forall e, rsem r0 t e = A a e)).
    { intros s s' E H a r0 Fa. destruct (H a r0 Fa) as (t & Vt & St). exists t. split; [eapply V_ext; eauto|exact St]. }
    induction x as [a|a IH|a IH|a IHa b IHb|a IHa b IHb|a IHa b IHb]; intros ex s s' r HI HC HA Hx He; cbn [xlate] in Hx.
    - destruct (fetch rs a) as [r0|] eqn:Fa; [|discriminate]. injection Hx as <-. cbn [eval] in He. injection He as <- <-.
      destruct (HA _ _ Fa) as (t & Vt & St). splits; auto using sext_refl. exists t. auto.
    - destruct (xlate rs a) as [ea|] eqn:Xa; [|discriminate]. injection Hx as <-. cbn [eval] in He.
      destruct (eval fuel s ea) as [[s1 r1]|] eqn:Ea; [|discriminate]. injection He as <- <-.
      destruct (IH _ _ _ _ HI HC HA eq_refl Ea) as (? & ? & ? & tr & Vr & Sr). splits; auto. exists tr. split; [now apply V_neg|].
      intro e. cbn [xsem]. rewrite <- Sr. apply rsem_neg.
    - destruct (xlate rs a) as [ea|] eqn:Xa; [|discriminate]. injection Hx as <-. rewrite eval_enot in He.
      destruct (eval fuel s ea) as [[s1 r1]|] eqn:Ea; [|discriminate]. injection He as <- <-.
      destruct (IH _ _ _ _ HI HC HA eq_refl Ea) as (? & ? & ? & tr & Vr & Sr). splits; auto. exists tr. split; [now apply V_neg|].
      intro e. cbn [xsem]. rewrite <- Sr. apply rsem_neg.
    - destruct (xlate rs a) as [ea|] eqn:Xa; [|discriminate]. destruct (xlate rs b) as [eb|] eqn:Xb; [|discriminate]. injection Hx as <-. cbn [eval] in He.
      destruct (eval fuel s ea) as [[s1 ra]|] eqn:Ea; [|discriminate]. destruct (eval fuel s1 eb) as [[s2 rb]|] eqn:Eb; [|discriminate].
      destruct (IHa _ _ _ _ HI HC HA eq_refl Ea) as (HI1 & HC1 & E1 & ta & Va & Sa).
      destruct (IHb _ _ _ _ HI1 HC1 (Hext _ _ E1 HA) eq_refl Eb) as (HI2 & HC2 & E2 & tb & Vb & Sb).
      destruct (and_ok _ _ _ _ _ _ _ _ HI2 HC2 (V_ext _ _ _ _ E2 Va) Vb He) as (HI3 & HC3 & E3 & tr & Vr & Sr).
      splits; eauto using sext_trans. exists tr. split; auto. intro e. cbn [xsem]. now rewrite Sr, Sa, Sb.
    - destruct (xlate rs a) as [ea|] eqn:Xa; [|discriminate]. destruct (xlate rs b) as [eb|] eqn:Xb; [|discriminate]. injection Hx as <-. cbn [eval] in He.
      destruct (eval fuel s ea) as [[s1 ra]|] eqn:Ea; [|discriminate]. destruct (eval fuel s1 eb) as [[s2 rb]|] eqn:Eb; [|discriminate].
      destruct (IHa _ _ _ _ HI HC HA eq_refl Ea) as (HI1 & HC1 & E1 & ta & Va & Sa).
      destruct (IHb _ _ _ _ HI1 HC1 (Hext _ _ E1 HA) eq_refl Eb) as (HI2 & HC2 & E2 & tb & Vb & Sb).
      destruct (or_ok _ _ _ _ _ _ _ _ HI2 HC2 (V_ext _ _ _ _ E2 Va) Vb He) as (HI3 & HC3 & E3 & tr & Vr & Sr).
      splits; eauto using sext_trans. exists tr. split; auto. intro e. cbn [xsem]. now rewrite Sr, Sa, Sb.
    - destruct (xlate rs a) as [ea|] eqn:Xa; [|discriminate]. destruct (xlate rs b) as [eb|] eqn:Xb; [|discriminate]. injection Hx as <-. cbn [eval] in He.
      destruct (eval fuel s ea) as [[s1 ra]|] eqn:Ea; [|discriminate]. destruct (eval fuel s1 eb) as [[s2 rb]|] eqn:Eb; [|discriminate].
      destruct (IHa _ _ _ _ HI HC HA eq_refl Ea) as (HI1 & HC1 & E1 & ta & Va & Sa).
      destruct (IHb _ _ _ _ HI1 HC1 (Hext _ _ E1 HA) eq_refl Eb) as (HI2 & HC2 & E2 & tb & Vb & Sb).
      destruct (xor_ok _ _ _ _ _ _ _ _ HI2 HC2 (V_ext _ _ _ _ E2 Va) Vb He) as (HI3 & HC3 & E3 & tr & Vr & Sr).
      splits; eauto using sext_trans. exists tr. split; auto. intro e. cbn [xsem]. now rewrite Sr, Sa, Sb.
  Qed.

  (* evaluating an expression tree whose terms are live handles: A gives the meaning of each register argument *)
  Theorem expr_step_spec mr xe ex (A : rarg -> bfun) fuel mr' x :
    reachable mr -> xlate (snd mr) xe = Some ex ->
    (forall a r0, liveh mr a r0 -> denotes mr r0 (A a)) ->
    mstep fuel mr (HExpr xe) = Some (mr', x) ->
    exists r, x = OReg r /\ newreg mr mr' r /\ frame mr mr' /\ denotes mr' r (xsem A xe).
  Proof.
    intros HR Hx HA Hs. destruct mr as [m rs]. open_step HR Hs m rs HI HC. rewrite Hx in Hs.
    apply (push_spec m rs _ mr' x (fun s' r => exists t, @V sops s' r t /\ forall e, rsem r t e = xsem A xe e)) in Hs; [exact Hs|].
    intros s' r E. destruct (eval_xsem fuel A rs xe ex (core m) s' r HI HC HA Hx E) as (_ & _ & Ex & tr & Vr & Sr). eauto.
  Qed.


  (* ---------------- C08: cofactors and substitution ---------------- *)
  Theorem subst_step_spec mr f rf F v b fuel mr' x :
    reachable mr -> liveh mr f rf -> denotes mr rf F -> 0 < v ->
    mstep fuel mr (HSubst f v b) = Some (mr', x) ->
    exists r, x = OReg r /\ newreg mr mr' r /\ frame mr mr' /\ denotes mr' r (fun e => F (upd e v b)).
  Proof.
    intros HR Lf (tf & Vf & Sf) Hv Hs. destruct mr as [m rs]. open_step HR Hs m rs HI HC. rewrite Lf in Hs.
    destruct (N.ltb_spec 0 v) as [_|]; [|lia].
    apply (push_spec m rs _ mr' x (fun s' r => exists t, @V sops s' r t /\ forall e, rsem r t e = F (upd e v b))) in Hs; [exact Hs|].
    intros s' r E. unfold drop2 in E. match type of E with match ?X with _ => _ end = _ => destruct X as [[[s1 m1] r1]|] eqn:E1; [|discriminate] end. injection E as <- <-.
    destruct (substitute_ok _ _ _ _ _ _ _ _ _ HI Vf E1) as (_ & Ex & tr & Vr & Sr & _). split; [exact Ex|]. exists tr. split; auto. intro e. now rewrite Sr, Sf.
  Qed.

  Theorem substm_step_spec mr f rf F vals fuel mr' x :
    reachable mr -> liveh mr f rf -> denotes mr rf F -> nodupb (map fst vals) = true ->
    mstep fuel mr (HSubstM f vals) = Some (mr', x) ->
    exists r, x = OReg r /\ newreg mr mr' r /\ frame mr mr' /\ denotes mr' r (fun e => F (override e vals)).
  Proof.
    intros HR Lf (tf & Vf & Sf) Hd Hs. destruct mr as [m rs]. open_step HR Hs m rs HI HC. rewrite Lf, Hd in Hs.
    apply (push_spec m rs _ mr' x (fun s' r => exists t, @V sops s' r t /\ forall e, rsem r t e = F (override e vals))) in Hs; [exact Hs|].
    intros s' r E. unfold drop2 in E. match type of E with match ?X with _ => _ end = _ => destruct X as [[[s1 m1] r1]|] eqn:E1; [|discriminate] end. injection E as <- <-.
    destruct (smulti_ok vals _ _ _ _ _ _ _ _ HI (fun k r Hk => ltac:(rewrite mget_empty in Hk; discriminate)) Vf E1) as (_ & Ex & _ & _ & tr & Vr & Sr & _).
    split; [exact Ex|]. exists tr. split; auto. intro e. now rewrite Sr, Sf.
  Qed.

  Theorem cofcube_step_spec mr f rf F cube fuel mr' x :
    reachable mr -> liveh mr f rf -> denotes mr rf F -> asc_cubeb 0 cube = true ->
    mstep fuel mr (HCofCube f cube) = Some (mr', x) ->
    exists r, x = OReg r /\ newreg mr mr' r /\ frame mr mr' /\ denotes mr' r (fun e => F (override e cube)).
  Proof.
    intros HR Lf (tf & Vf & Sf) Hd Hs. destruct mr as [m rs]. open_step HR Hs m rs HI HC. rewrite Lf, Hd in Hs.
    apply (push_spec m rs _ mr' x (fun s' r => exists t, @V sops s' r t /\ forall e, rsem r t e = F (override e cube))) in Hs; [exact Hs|].
    intros s' r E. unfold drop2 in E. match type of E with match ?X with _ => _ end = _ => destruct X as [[[s1 m1] r1]|] eqn:E1; [|discriminate] end. injection E as <- <-.
    destruct (ccube_ok cube _ _ _ _ _ _ _ _ _ 0 HI (fun k r Hk => ltac:(rewrite mget_empty in Hk; discriminate)) Vf
                (ex_intro _ [] eq_refl) (asc_cubeb_ok _ _ Hd) E1) as (_ & Ex & _ & _ & tr & Vr & Sr & _).
    split; [exact Ex|]. exists tr. split; auto. intro e. now rewrite Sr, Sf.
  Qed.

  (* the accessors: cofactors with respect to the top variable, complement bit included *)
  Theorem lowhigh_step_spec mr (hi : bool) f rf F fuel mr' x :
    reachable mr -> liveh mr f rf -> denotes mr rf F -> idx rf <> 1 ->
    mstep fuel mr (if hi then HHigh f else HLow f) = Some (mr', x) ->
    exists r, x = OReg r /\ newreg mr mr' r /\ frame mr mr' /\ store mr' = store mr /\
      let v := @top sops (store mr) rf in 0 < v /\ denotes mr' r (fun e => F (upd e v hi)).
  Proof.
    intros HR Lf (tf & Vf & Sf) Hn Hs. destruct mr as [m rs]. open_step HR Hs m rs HI HC.
    destruct (top_cases _ _ _ HI Vf) as [(-> & _ & Hi)|(v0 & ln & tl & th & -> & Ht & _)]; [contradiction|].
    destruct (lh_ok _ _ _ _ _ _ HI Vf) as (Vl & Vh & Al & Ah & Hv & Htop & Ssh).
    assert (Hcof : forall b e, rsem rf (Nd v0 ln tl th) (upd e v0 b) = if b then rsem (high_node (core m) rf) th e else rsem (low_node (core m) rf) tl e).
    { intros b e. rewrite Ssh, upd_eq. destruct b; [apply (rsem_indep _ _ v0 v0 Ah); lia|apply (rsem_indep _ _ v0 v0 Al); lia]. }
    destruct hi; cbn [step] in Hs; unfold step in Hs; rewrite Lf in Hs; destruct (N.eqb_spec (idx rf) 1) as [|_]; try contradiction; injection Hs as <- <-.
    - exists (@high_node sops (core m) rf). split; [reflexivity|]. split; [reflexivity|]. split; [apply frame_push; apply sext_refl|]. split; [reflexivity|].
      cbn zeta. assert (Ht2 : @top sops (core m) rf = v0) by exact Htop. rewrite !Ht2. split; [exact Hv|]. exists th. split; [exact Vh|]. intro e. rewrite <- Sf. now rewrite (Hcof true).
    - exists (@low_node sops (core m) rf). split; [reflexivity|]. split; [reflexivity|]. split; [apply frame_push; apply sext_refl|]. split; [reflexivity|].
      cbn zeta. assert (Ht2 : @top sops (core m) rf = v0) by exact Htop. rewrite !Ht2. split; [exact Hv|]. exists tl. split; [exact Vl|]. intro e. rewrite <- Sf. now rewrite (Hcof false).
  Qed.

  (* top_cofactors(f, v) for v not below f's top variable: the two cofactors of f with respect to v *)
  Theorem topcof_step_spec mr (hi : bool) f rf F v fuel mr' x :
    reachable mr -> liveh mr f rf -> denotes mr rf F -> 0 < v -> (idx rf = 1 \/ v <= @top sops (store mr) rf) ->
    mstep fuel mr (HTopCof hi f v) = Some (mr', x) ->
    exists r, x = OReg r /\ newreg mr mr' r /\ frame mr mr' /\ store mr' = store mr /\ denotes mr' r (fun e => F (upd e v hi)).
  Proof.
    intros HR Lf (tf & Vf & Sf) Hv Hle Hs. destruct mr as [m rs]. open_step HR Hs m rs HI HC. rewrite Lf in Hs.
    destruct (N.ltb_spec 0 v) as [_|]; [|lia].
    assert (Hc : ((idx rf =? 1) || (v <=? @top sops (core m) rf)) = true).
    { destruct Hle as [E|E]; [rewrite (proj2 (N.eqb_eq _ _) E); reflexivity|rewrite (proj2 (N.leb_le _ _) E); apply orb_true_r]. }
    change (@top (ops nhash khash) (core m) rf) with (@top sops (core m) rf) in Hs. rewrite Hc in Hs. cbn [andb] in Hs. injection Hs as <- <-.
    destruct (@top_cofactors sops (core m) rf v) as [r0 r1] eqn:Tc.
    assert (Hm : tf = Leaf \/ v <= @top sops (core m) rf).
    { destruct Hle as [E|E]; [left; eapply V_term; eauto|right; exact E]. }
    destruct (tc_ok _ _ _ _ HI Vf Hm _ _ Tc) as (t0 & t1 & V0 & V1 & A0 & A1 & Sh & _).
    assert (Hcof : forall b e, rsem rf tf (upd e v b) = if b then rsem r1 t1 e else rsem r0 t0 e).
    { intros b e. rewrite Sh, upd_eq. destruct b; [apply (rsem_indep _ _ v v A1); lia|apply (rsem_indep _ _ v v A0); lia]. }
    change (@top_cofactors (ops nhash khash) (core m) rf v) with (@top_cofactors sops (core m) rf v). rewrite Tc. cbn [fst snd].
    exists (if hi then r1 else r0). split; [reflexivity|]. split; [reflexivity|]. split; [apply frame_push; apply sext_refl|]. split; [reflexivity|].
    destruct hi; [exists t1|exists t0]; (split; [assumption|]); intro e; rewrite <- Sf; [now rewrite (Hcof true)|now rewrite (Hcof false)].
  Qed.

  (* ---------------- C09: compose ---------------- *)
  Theorem compose_step_spec mr f g rf rg F G v fuel mr' x :
    reachable mr -> liveh mr f rf -> liveh mr g rg -> denotes mr rf F -> denotes mr rg G ->
    mstep fuel mr (HCompose f v g) = Some (mr', x) ->
    exists r, x = OReg r /\ newreg mr mr' r /\ frame mr mr' /\ denotes mr' r (fun e => F (upd e v (G e))).
  Proof.
    intros HR Lf Lg (tf & Vf & Sf) (tg & Vg & Sg) Hs. destruct mr as [m rs]. open_step HR Hs m rs HI HC. rewrite Lf, Lg in Hs.
    apply (push_spec m rs _ mr' x (fun s' r => exists t, @V sops s' r t /\ forall e, rsem r t e = F (upd e v (G e)))) in Hs; [exact Hs|].
    intros s' r E. unfold drop2 in E. match type of E with match ?X with _ => _ end = _ => destruct X as [[[s1 m1] r1]|] eqn:E1; [|discriminate] end. injection E as <- <-.
    destruct (compose_ok v _ _ _ _ _ _ _ _ _ _ HI HC (fun k r Hk => ltac:(rewrite mget_empty in Hk; discriminate)) Vf Vg E1) as (_ & _ & Ex & _ & tr & Vr & Sr & _).
    split; [exact Ex|]. exists tr. split; auto. intro e. now rewrite Sr, Sf, Sg.
  Qed.

  (* ---------------- C10 / C11: constrain and restrict against their executable specifications ---------------- *)
  (* r denotes F through a diagram all of whose variables are listed in vs *)
  Definition denotes_in (mr : mstate * regs) (vs : list N) (r : ref) (F : bfun) : Prop :=
    exists t, @V sops (store mr) r t /\ tvars_in vs t /\ forall e, rsem r t e = F e.
  Definition upto (n : nat) : list N := map N.of_nat (List.seq 1 n).
  Lemma upto_in n w : In w (upto n) <-> 1 <= w <= N.of_nat n.
  Proof.
    unfold upto. rewrite in_map_iff. split.
    - intros (k & <- & Hk). apply in_seq in Hk. lia.
    - intros Hw. exists (N.to_nat w). split; [lia|]. apply in_seq. lia.
  Qed.
  Lemma upto_asc n : asc 0 (upto n).
  Proof.
    unfold upto. assert (H : forall k lb, lb < N.of_nat k -> asc lb (map N.of_nat (List.seq k n))).
    { induction n as [|n IH]; intros k lb Hlb; cbn; [exact I|]. split; [exact Hlb|]. apply IH. lia. }
    apply H. lia.
  Qed.
  Lemma cover_tree t : above 0 t -> ordered t -> exists n, tvars_in (upto n) t.
  Proof.
    induction t as [|v ln l IHl h IHh]; intros Ha Ho; [exists O; exact I|].
    cbn in Ha, Ho. destruct Ho as (Al & Ah & Ol & Oh).
    destruct Ha as (Hv0 & Hl0 & Hh0).
    destruct (IHl Hl0 Ol) as (n1 & H1). destruct (IHh Hh0 Oh) as (n2 & H2).
    exists (Nat.max (N.to_nat v) (Nat.max n1 n2)). cbn [tvars_in]. splits.
    - apply upto_in. lia.
    - eapply tvars_in_sub; [exact H1|]. intros w Hw. apply upto_in in Hw. apply upto_in. lia.
    - eapply tvars_in_sub; [exact H2|]. intros w Hw. apply upto_in in Hw. apply upto_in. lia.
  Qed.
  (* non-vacuity of the covering hypothesis: every denotation is a denotation within 1..n for some n *)
  Lemma denotes_cover mr r F : denotes mr r F -> exists n, denotes_in mr (upto n) r F.
  Proof. intros (t & Vt & St). destruct (cover_tree t) as (n & Hn); [apply Vt|apply Vt|]. exists n, t. auto. Qed.
  Lemma denotes_in_sub mr vs vs' r F : denotes_in mr vs r F -> (forall w, In w vs -> In w vs') -> denotes_in mr vs' r F.
  Proof. intros (t & Vt & Tt & St) Hs. exists t. splits; auto. eapply tvars_in_sub; eauto. Qed.

  (* the meaning of a valid handle, as a function: rsem r t for its (unique) tree t *)
  Theorem constrain_step_spec mr f g rf rg F G vs fuel mr' x :
    reachable mr -> liveh mr f rf -> liveh mr g rg -> denotes_in mr vs rf F -> denotes_in mr vs rg G -> asc 0 vs ->
    mstep fuel mr (HConstrain f g) = Some (mr', x) ->
    exists r, x = OReg r /\ newreg mr mr' r /\ frame mr mr' /\
      exists tf tg tr, @V sops (store mr) rf tf /\ @V sops (store mr) rg tg /\ @V sops (store mr') r tr /\
        (forall e, rsem r tr e = constrain_spec vs (rsem rf tf) (rsem rg tg) e).
  Proof.
    intros HR Lf Lg (tf & Vf & Tf & Sf) (tg & Vg & Tg & Sg) Hasc Hs. destruct mr as [m rs]. open_step HR Hs m rs HI HC. rewrite Lf, Lg in Hs.
    apply (push_spec m rs _ mr' x (fun s' r => exists tf tg tr, @V sops (core m) rf tf /\ @V sops (core m) rg tg /\ @V sops s' r tr /\
        (forall e, rsem r tr e = constrain_spec vs (rsem rf tf) (rsem rg tg) e))) in Hs; [exact Hs|].
    intros s' r E. destruct (constrain_ok _ _ _ _ _ _ _ _ HI HC E Vf Vg) as (_ & _ & Ex & tr & Vr & _ & Sr).
    split; [exact Ex|]. exists tf, tg, tr. splits; auto.
  Qed.

  Theorem restrict_step_spec mr f g rf rg F G vs fuel mr' x :
    reachable mr -> liveh mr f rf -> liveh mr g rg -> denotes_in mr vs rf F -> denotes_in mr vs rg G -> asc 0 vs ->
    mstep fuel mr (HRestrict f g) = Some (mr', x) ->
    exists r, x = OReg r /\ newreg mr mr' r /\ frame mr mr' /\
      exists tf tg tr, @V sops (store mr) rf tf /\ @V sops (store mr) rg tg /\ @V sops (store mr') r tr /\
        (forall e, rsem r tr e = restrict_spec vs (rsem rf tf) (rsem rg tg) e) /\
        (forall ws, tvars_in ws tf -> tvars_in ws tr).
  Proof.
    intros HR Lf Lg (tf & Vf & Tf & Sf) (tg & Vg & Tg & Sg) Hasc Hs. destruct mr as [m rs]. open_step HR Hs m rs HI HC. rewrite Lf, Lg in Hs.
    apply (push_spec m rs _ mr' x (fun s' r => exists tf tg tr, @V sops (core m) rf tf /\ @V sops (core m) rg tg /\ @V sops s' r tr /\
        (forall e, rsem r tr e = restrict_spec vs (rsem rf tf) (rsem rg tg) e) /\ (forall ws, tvars_in ws tf -> tvars_in ws tr))) in Hs; [exact Hs|].
    intros s' r E. destruct (restrict_ok _ _ _ _ _ _ _ _ HI HC E Vf Vg) as (_ & _ & Ex & tr & Vr & _ & Wr & Sr).
    split; [exact Ex|]. exists tf, tg, tr. splits; auto.
  Qed.


  (* destruct the innermost option-valued scrutinee of hypothesis H (found by shape, not by name: the implicit store
     instance in the unfolded step is convertible but not syntactically equal to the one of this section) *)
  Tactic Notation "destr" hyp(H) "as" simple_intropattern(pat) "eqn" ident(E) :=
    match type of H with
    | match (match ?X with _ => _ end) with _ => _ end = _ => destruct X as pat eqn:E; [|discriminate H]
    | match ?X with _ => _ end = _ => destruct X as pat eqn:E; [|discriminate H]
    end.

  (* ---------------- queries: they return the right value and change nothing (C12, C13, C14, C16) ---------------- *)
  Definition is_query (o : hop) : bool :=
    match o with
    | HItec _ _ _ | HImplies _ _ | HDesc _ | HSatCount _ _ | HOneSat _ | HPaths _ | HBracket _ | HDot _ => true
    | _ => false
    end.
  (* every query other than `size` leaves the whole manager state (store, both caches, registers) untouched *)
  Theorem query_pure mr o fuel mr' x : is_query o = true -> mstep fuel mr o = Some (mr', x) -> mr' = mr.
  Proof.
    intros Hq Hs. destruct mr as [m rs]. unfold Reachable.mstep, step in Hs.
    destruct o; try discriminate Hq;
      repeat match type of Hs with
             | match ?X with _ => _ end = Some _ => destruct X; try discriminate
             end; try (injection Hs as <- <-; reflexivity).
  Qed.
  (* `size` may only add an entry to the size cache: the node store and the registers are untouched *)
  (* ---------------- every query returns (C16 / C13 / C14): they allocate nothing, so nothing can stop them ---------------- *)
  Theorem satcount_step_returns mr f rf n : reachable mr -> liveh mr f rf ->
    exists bound, forall fuel, (bound <= fuel)%nat -> exists c, mstep fuel mr (HSatCount f n) = Some (mr, ONum c).
  Proof.
    intros HR Lf. destruct (live_denotes nhash khash bmask cmask0 smask0 capacity cap_ok mr f rf HR Lf) as (F & tf & Vf & _).
    exists (height tf + 1)%nat. intros fuel Hfuel. destruct mr as [m rs]. destruct (good_of _ HR) as (HI & _).
    unfold liveh in *; cbn [fst snd store] in *.
    pose proof (@satc_returns sops sok MN (2 ^ n) tf fuel (core m) mempty rf Hfuel HI Vf) as Hne.
    destruct (@satc sops MN fuel (core m) mempty rf (2 ^ n)) as [[m1 c]|] eqn:E; [|contradiction]. exists c.
    unfold Reachable.mstep, step. rewrite Lf. unfold sat_count.
    match goal with |- context[match ?X with Some _ => _ | None => _ end] => replace X with (Some (m1, c)) by (symmetry; exact E) end. reflexivity.
  Qed.
  Theorem onesat_step_returns mr f rf : reachable mr -> liveh mr f rf ->
    exists bound, forall fuel, (bound <= fuel)%nat -> exists p, mstep fuel mr (HOneSat f) = Some (mr, OPath p).
  Proof.
    intros HR Lf. destruct (live_denotes nhash khash bmask cmask0 smask0 capacity cap_ok mr f rf HR Lf) as (F & tf & Vf & _).
    exists (height tf + 1)%nat. intros fuel Hfuel. destruct mr as [m rs]. destruct (good_of _ HR) as (HI & _).
    unfold liveh in *; cbn [fst snd store] in *.
    pose proof (@one_sat_returns sops sok tf fuel (core m) rf [] Hfuel HI Vf) as Hne.
    destruct (@one_sat sops fuel (core m) rf []) as [p|] eqn:E; [|contradiction]. exists p.
    unfold Reachable.mstep, step. rewrite Lf.
    match goal with |- context[match ?X with Some _ => _ | None => _ end] => replace X with (Some p) by (symmetry; exact E) end. reflexivity.
  Qed.
  Theorem paths_step_returns mr f rf : reachable mr -> liveh mr f rf ->
    exists bound, forall fuel, (bound <= fuel)%nat -> exists ps, mstep fuel mr (HPaths f) = Some (mr, OPaths ps).
  Proof.
    intros HR Lf. destruct (live_denotes nhash khash bmask cmask0 smask0 capacity cap_ok mr f rf HR Lf) as (F & tf & Vf & _).
    exists (W [tf] + 1)%nat. intros fuel Hfuel. destruct mr as [m rs]. destruct (good_of _ HR) as (HI & _).
    unfold liveh in *; cbn [fst snd store] in *.
    assert (HS : @SOK sops (core m) [(rf, [])] [tf]) by (constructor; [exact Vf|constructor]).
    pose proof (@pall_returns sops sok fuel fuel (core m) [(rf, [])] [tf] HI HS Hfuel Hfuel) as Hne.
    destruct (@pall sops fuel fuel (core m) [(rf, [])]) as [ps|] eqn:E; [|contradiction]. exists ps.
    unfold Reachable.mstep, step. rewrite Lf.
    match goal with |- context[match ?X with Some _ => _ | None => _ end] => replace X with (Some ps) by (symmetry; exact E) end. reflexivity.
  Qed.
  Theorem bracket_step_returns mr f rf : reachable mr -> liveh mr f rf ->
    exists bound, forall fuel, (bound <= fuel)%nat -> exists t, mstep fuel mr (HBracket f) = Some (mr, OBracket t).
  Proof.
    intros HR Lf. destruct (live_denotes nhash khash bmask cmask0 smask0 capacity cap_ok mr f rf HR Lf) as (F & tf & Vf & _).
    exists (height tf + 1)%nat. intros fuel Hfuel. destruct mr as [m rs]. destruct (good_of _ HR) as (HI & _).
    unfold liveh in *; cbn [fst snd store] in *.
    pose proof (@to_bracket_returns sops sok tf fuel (core m) rf [] Hfuel HI Vf) as Hne.
    destruct (@to_bracket sops fuel (core m) rf []) as [[t vis]|] eqn:E; [|contradiction]. exists t.
    unfold Reachable.mstep, step. rewrite Lf.
    match goal with |- context[match ?X with Some _ => _ | None => _ end] => replace X with (Some (t, vis)) by (symmetry; exact E) end. reflexivity.
  Qed.
  (* descendants: fuel three times the table capacity plus the number of roots *)
  Lemma cells_below_cap (s : state) : cTInv nhash s -> forall i n, ccell s i = Some n -> In i (nrange (N.to_nat (cap (tbl s))) 0%N).
  Proof.
    intros (HA & _) i n Hc. apply ccell_some in Hc. destruct Hc as (Ho & _ & _). apply nrange_in.
    destruct (N.le_gt_cases i (last_index (tbl s))) as [Hle|Hgt]; [pose proof (a_cap _ _ HA); lia|]. exfalso. exact (a_above _ _ HA i Hgt Ho).
  Qed.
  Theorem desc_step_returns mr l rl : reachable mr -> fetch_all (snd mr) l = Some rl ->
    exists bound, forall fuel, (bound <= fuel)%nat -> exists vis, mstep fuel mr (HDesc l) = Some (mr, OList vis).
  Proof.
    intros HR Fl. destruct mr as [m rs]. destruct (good_of _ HR) as (HI & _ & _ & Hg). cbn [fst snd] in *.
    set (univ := nrange (N.to_nat (cap (tbl (core m)))) 0%N).
    exists (3 * length univ + length rl + 1)%nat. intros fuel Hfuel.
    assert (Hne : @bfs sops fuel (core m) [1%N] (map idx rl) <> None).
    { apply (@bfs_returns sops univ); [apply closed_of_inv; exact HI|left; reflexivity|exact (cells_below_cap (core m) (proj1 HI))| |].
      - intros i Hi. apply in_map_iff in Hi. destruct Hi as (r & <- & Hr).
        destruct (fetch_all_good nhash khash _ _ Hg _ _ Fl r Hr) as (t & Vt). eapply (okidx_of_V nhash khash); eauto.
      - rewrite map_length. pose proof (unv_le univ [1%N]). lia. }
    destruct (@bfs sops fuel (core m) [1%N] (map idx rl)) as [vis|] eqn:E; [|contradiction]. exists vis.
    unfold Reachable.mstep, step. rewrite Fl. unfold descendants.
    match goal with |- context[match ?X with Some _ => _ | None => _ end] => replace X with (Some vis) by (symmetry; exact E) end. reflexivity.
  Qed.

  Theorem size_step_returns mr f rf : reachable mr -> liveh mr f rf ->
    exists bound, forall fuel, (bound <= fuel)%nat -> mstep fuel mr (HSize f) <> None.
  Proof.
    intros HR Lf. destruct mr as [m rs]. destruct (good_of _ HR) as (HI & _ & _ & Hg). unfold liveh in *; cbn [fst snd] in *.
    set (univ := nrange (N.to_nat (cap (tbl (core m)))) 0%N).
    exists (3 * length univ + 1 + 1)%nat. intros fuel Hfuel.
    assert (Hne : @bfs sops fuel (core m) [1%N] (map idx [rf]) <> None).
    { apply (@bfs_returns sops univ); [apply closed_of_inv; exact HI|left; reflexivity|exact (cells_below_cap (core m) (proj1 HI))| |].
      - intros i [<-|[]]. destruct (fetch_good nhash khash _ _ _ _ Hg Lf) as (t & Vt). eapply (okidx_of_V nhash khash); eauto.
      - cbn [map length]. pose proof (unv_le univ [1%N]). lia. }
    unfold Reachable.mstep, step. rewrite Lf. unfold size_op. destruct (sc_get (szc m) rf); [discriminate|]. unfold descendants.
    destruct (@bfs sops fuel (core m) [1%N] (map idx [rf])) as [vis|] eqn:E; [|contradiction].
    match goal with |- context[match ?X with Some _ => _ | None => _ end] => replace X with (Some vis) by (symmetry; exact E) end. discriminate.
  Qed.

  (* collect_garbage always completes (fuel three times the table capacity plus the number of roots) *)
  Theorem gc_step_returns mr roots rl : reachable mr -> fetch_all (snd mr) roots = Some rl ->
    exists bound, forall fuel, (bound <= fuel)%nat -> mstep fuel mr (HGc roots) <> None.
  Proof.
    intros HR Fl. destruct mr as [m rs]. destruct (good_of _ HR) as (HI & _ & _ & Hg). cbn [fst snd] in *.
    set (univ := nrange (N.to_nat (cap (tbl (core m)))) 0%N).
    exists (3 * length univ + length rl + 1)%nat. intros fuel Hfuel.
    assert (Hlen : length univ = N.to_nat (cap (tbl (core m)))).
    { unfold univ. generalize (N.to_nat (cap (tbl (core m)))) 0%N. induction n as [|n IHn]; intro s0; cbn [nrange length]; [reflexivity|now rewrite IHn]. }
    assert (Hne : @bfs sops fuel (core m) [1%N] (map idx rl) <> None).
    { apply (@bfs_returns sops univ); [apply closed_of_inv; exact HI|left; reflexivity|exact (cells_below_cap (core m) (proj1 HI))| |].
      - intros i Hi. apply in_map_iff in Hi. destruct Hi as (r & <- & Hr).
        destruct (fetch_all_good nhash khash _ _ Hg _ _ Fl r Hr) as (t & Vt). eapply (okidx_of_V nhash khash); eauto.
      - rewrite map_length. pose proof (unv_le univ [1%N]). lia. }
    destruct (@bfs sops fuel (core m) [1%N] (map idx rl)) as [vis|] eqn:E; [|contradiction].
    assert (Ed : @descendants sops fuel (core m) rl = Some vis) by exact E.
    destruct (gc_total nhash khash fuel (core m) rl vis HI ltac:(lia) Ed) as (s' & Eg).
    unfold Reachable.mstep, step. rewrite Fl.
    match goal with |- context[match ?X with Some _ => _ | None => _ end] => replace X with (Some vis) by (symmetry; exact Ed) end.
    rewrite Eg. discriminate.
  Qed.

  Theorem dot_step_returns mr l rl : reachable mr -> fetch_all (snd mr) l = Some rl ->
    exists bound, forall fuel, (bound <= fuel)%nat -> exists recs, mstep fuel mr (HDot l) = Some (mr, ODot recs).
  Proof.
    intros HR Fl. destruct mr as [m rs]. destruct (good_of _ HR) as (HI & _ & _ & Hg). cbn [fst snd] in *.
    set (univ := nrange (N.to_nat (cap (tbl (core m)))) 0%N).
    exists (3 * length univ + length rl + 1)%nat. intros fuel Hfuel.
    assert (Hroots : forall r, In r rl -> @okidx sops (core m) (idx r)).
    { intros r Hr. destruct (fetch_all_good nhash khash _ _ Hg _ _ Fl r Hr) as (t & Vt). eapply (okidx_of_V nhash khash); eauto. }
    assert (Hne : @bfs sops fuel (core m) [1%N] (map idx rl) <> None).
    { apply (@bfs_returns sops univ); [apply closed_of_inv; exact HI|left; reflexivity|exact (cells_below_cap (core m) (proj1 HI))| |].
      - intros i Hi. apply in_map_iff in Hi. destruct Hi as (r & <- & Hr). auto.
      - rewrite map_length. pose proof (unv_le univ [1%N]). lia. }
    destruct (@bfs sops fuel (core m) [1%N] (map idx rl)) as [vis|] eqn:E; [|contradiction].
    assert (Ed : @descendants sops fuel (core m) rl = Some vis) by exact E.
    destruct (@dot_total sops sok fuel (core m) rl vis HI Hroots Ed) as (recs & Er). exists recs.
    unfold Reachable.mstep, step. rewrite Fl.
    match goal with |- context[match ?X with Some _ => _ | None => _ end] => replace X with (Some recs) by (symmetry; exact Er) end. reflexivity.
  Qed.

  Theorem size_pure mr f fuel mr' x : mstep fuel mr (HSize f) = Some (mr', x) -> store mr' = store mr /\ snd mr' = snd mr.
  Proof.
    intros Hs. destruct mr as [m rs]. unfold Reachable.mstep, step in Hs. destruct (fetch rs f) as [a|]; [|injection Hs as <- <-; auto].
    destruct (size_op nhash khash fuel m a) as [[m' n]|] eqn:Sz; [|discriminate]. injection Hs as <- <-.
    unfold size_op in Sz. destruct (sc_get (szc m) a); [injection Sz as <- <-; auto|].
    match type of Sz with match ?X with _ => _ end = _ => destruct X; [|discriminate] end. injection Sz as <- <-. auto.
  Qed.

  Theorem itec_step_spec mr f g h rf rg rh F G H fuel mr' x :
    reachable mr -> liveh mr f rf -> liveh mr g rg -> liveh mr h rh ->
    denotes mr rf F -> denotes mr rg G -> denotes mr rh H ->
    mstep fuel mr (HItec f g h) = Some (mr', x) ->
    mr' = mr /\ exists o, x = OOptBool o /\ is_const (fun e => if F e then G e else H e) o.
  Proof.
    intros HR Lf Lg Lh (tf & Vf & Sf) (tg & Vg & Sg) (th & Vh & Sh) Hs. split; [eapply query_pure; eauto; reflexivity|].
    destruct mr as [m rs]. open_step HR Hs m rs HI HC. rewrite Lf, Lg, Lh in Hs.
    destr Hs as [o|] eqn E. injection Hs as <- <-. exists o. split; [reflexivity|].
    eapply is_const_congr; [|exact (itec_ok _ _ _ _ _ _ _ _ _ HI HC E Vf Vg Vh)]. intro e. cbn. now rewrite Sf, Sg, Sh.
  Qed.

  (* C12, "both return": ite_constant and is_implies allocate nothing, so with fuel above the number of variable levels
     they always yield a result, in every reachable state, whatever the operation cache holds *)
  Theorem itec_step_returns mr f g h rf rg rh :
    reachable mr -> liveh mr f rf -> liveh mr g rg -> liveh mr h rh ->
    exists bound, forall fuel, (bound <= fuel)%nat -> exists o, mstep fuel mr (HItec f g h) = Some (mr, OOptBool o).
  Proof.
    intros HR Lf Lg Lh.
    destruct (live_denotes nhash khash bmask cmask0 smask0 capacity cap_ok mr f rf HR Lf) as (F & tf & Vf & _).
    destruct (live_denotes nhash khash bmask cmask0 smask0 capacity cap_ok mr g rg HR Lg) as (G & tg & Vg & _).
    destruct (live_denotes nhash khash bmask cmask0 smask0 capacity cap_ok mr h rh HR Lh) as (H & th & Vh & _).
    set (L := N.max (maxvar tf) (N.max (maxvar tg) (maxvar th))).
    exists (N.to_nat (L + 1) + 1)%nat. intros fuel Hfuel.
    destruct mr as [m rs]. destruct (good_of _ HR) as (HI & HC & _). unfold liveh in *; cbn [fst snd store] in *.
    assert (Af : allle L tf) by (eapply allle_mono; [|apply allle_maxvar]; unfold L; lia).
    assert (Ag : allle L tg) by (eapply allle_mono; [|apply allle_maxvar]; unfold L; lia).
    assert (Ah : allle L th) by (eapply allle_mono; [|apply allle_maxvar]; unfold L; lia).
    pose proof (@itec_terminates sops sok L (N.to_nat (L + 1)) fuel Hfuel (core m) rf rg rh tf tg th HI Vf Vg Vh Af Ag Ah (mu_le L tf tg th)) as Hne.
    destruct (@itec sops fuel (core m) rf rg rh) as [o|] eqn:E; [|contradiction]. exists o.
    unfold Reachable.mstep, step. rewrite Lf, Lg, Lh.
    match goal with |- context[match ?X with Some _ => _ | None => _ end] => replace X with (Some o) by (symmetry; exact E) end. reflexivity.
  Qed.
  Theorem implies_step_returns mr f g rf rg :
    reachable mr -> liveh mr f rf -> liveh mr g rg ->
    exists bound, forall fuel, (bound <= fuel)%nat -> exists b, mstep fuel mr (HImplies f g) = Some (mr, OBool b).
  Proof.
    intros HR Lf Lg.
    destruct (live_denotes nhash khash bmask cmask0 smask0 capacity cap_ok mr f rf HR Lf) as (F & tf & Vf & _).
    destruct (live_denotes nhash khash bmask cmask0 smask0 capacity cap_ok mr g rg HR Lg) as (G & tg & Vg & _).
    set (L := N.max (maxvar tf) (maxvar tg)).
    exists (N.to_nat (L + 1) + 1)%nat. intros fuel Hfuel.
    destruct mr as [m rs]. destruct (good_of _ HR) as (HI & HC & _). unfold liveh in *; cbn [fst snd store] in *.
    assert (Af : allle L tf) by (eapply allle_mono; [|apply allle_maxvar]; unfold L; lia).
    assert (Ag : allle L tg) by (eapply allle_mono; [|apply allle_maxvar]; unfold L; lia).
    pose proof (@itec_terminates sops sok L (N.to_nat (L + 1)) fuel Hfuel (core m) rf rg one tf tg Leaf HI Vf Vg (V_one _) Af Ag I (mu_le L tf tg Leaf)) as Hne.
    destruct (@itec sops fuel (core m) rf rg one) as [o|] eqn:E; [|contradiction]. exists (obool_eqb o (Some true)).
    unfold Reachable.mstep, step. rewrite Lf, Lg. unfold is_implies.
    match goal with |- context[match ?X with Some _ => _ | None => _ end] => replace X with (Some o) by (symmetry; exact E) end. reflexivity.
  Qed.

  Theorem implies_step_spec mr f g rf rg F G fuel mr' x :
    reachable mr -> liveh mr f rf -> liveh mr g rg -> denotes mr rf F -> denotes mr rg G ->
    mstep fuel mr (HImplies f g) = Some (mr', x) ->
    mr' = mr /\ exists b, x = OBool b /\ (b = true <-> forall e, F e = true -> G e = true).
  Proof.
    intros HR Lf Lg (tf & Vf & Sf) (tg & Vg & Sg) Hs. split; [eapply query_pure; eauto; reflexivity|].
    destruct mr as [m rs]. open_step HR Hs m rs HI HC. rewrite Lf, Lg in Hs.
    destr Hs as [b|] eqn E. injection Hs as <- <-. exists b. split; [reflexivity|].
    rewrite (is_implies_ok _ _ _ _ _ _ _ HI HC Vf Vg E). split; intros H0 e; [rewrite <- Sf, <- Sg|rewrite Sf, Sg]; apply H0.
  Qed.

  Lemma count_congr vs F G : (forall e, F e = G e) -> count vs F = count vs G.
  Proof. intro E. unfold count, CountTk.cnt. now rewrite (filter_ext F G E). Qed.

  Theorem satcount_step_spec mr f rf F n fuel mr' x :
    reachable mr -> liveh mr f rf -> denotes_in mr (upto n) rf F ->
    mstep fuel mr (HSatCount f (N.of_nat n)) = Some (mr', x) ->
    mr' = mr /\ x = ONum (count (upto n) F).
  Proof.
    intros HR Lf (tf & Vf & Tf & Sf) Hs. split; [eapply query_pure; eauto; reflexivity|].
    destruct mr as [m rs]. open_step HR Hs m rs HI HC. rewrite Lf in Hs.
    destr Hs as [c|] eqn E. injection Hs as <- <-.
    rewrite (sat_count_ok _ _ _ _ _ _ HI Vf Tf E). f_equal. apply count_congr. exact Sf.
  Qed.

  Lemma tone_in_tpaths : forall t n pre p, tone n t pre = Some p -> In p (tpaths n t pre).
  Proof.
    induction t as [|v ln l IHl h IHh]; intros n pre p H; cbn [tone tpaths] in *.
    - destruct n; [discriminate|]. injection H as <-. left. reflexivity.
    - apply in_or_app. destruct (tone n h (pre ++ [(v, true)])) as [q|] eqn:E.
      + injection H as <-. right. apply IHh. exact E.
      + left. apply IHl. exact H.
  Qed.

  Theorem onesat_step_spec mr f rf F fuel mr' x :
    reachable mr -> liveh mr f rf -> denotes mr rf F -> mstep fuel mr (HOneSat f) = Some (mr', x) ->
    mr' = mr /\ exists o, x = OPath o /\
      match o with
      | None => rf = zero /\ forall e, F e = false
      | Some p => incr 0 p /\ forall e, sat e p = true -> F e = true
      end.
  Proof.
    intros HR Lf (tf & Vf & Sf) Hs. split; [eapply query_pure; eauto; reflexivity|].
    destruct mr as [m rs]. open_step HR Hs m rs HI HC. rewrite Lf in Hs.
    destr Hs as [o|] eqn E. injection Hs as <- <-. exists o. split; [reflexivity|].
    pose proof (one_sat_ok _ _ _ _ _ HI Vf E) as Hok. pose proof (one_sat_tone _ _ _ _ _ _ HI Vf E) as Ht. destruct o as [p|].
    - split; [|intros e He; rewrite <- Sf; apply Hok; exact He].
      (* the literal list is one of the diagram's root-to-true paths, all of which are increasing *)
      symmetry in Ht. apply tone_in_tpaths in Ht.
      eapply (tpaths_incr tf (neg rf) [] 0 p); try apply Vf; cbn; auto. intros y [].
    - subst rf. split; [reflexivity|]. intro e. rewrite <- Sf. pose proof (V_term _ zero _ eq_refl Vf) as ->. reflexivity.
  Qed.

  Theorem paths_step_spec mr f rf F fuel mr' x :
    reachable mr -> liveh mr f rf -> denotes mr rf F -> mstep fuel mr (HPaths f) = Some (mr', x) ->
    mr' = mr /\ exists ps, x = OPaths ps /\
      (forall p, In p ps -> incr 0 p) /\
      (forall e, length (filter (sat e) ps) = if F e then 1%nat else 0%nat) /\
      (forall vs e0, NoDup vs -> (forall p, In p ps -> NoDup (map fst p) /\ forall y, In y p -> In (fst y) vs) ->
         CountTk.cnt vs F e0 = sumn (map (fun p => Nat.pow 2 (length vs - length p)) ps)).
  Proof.
    intros HR Lf (tf & Vf & Sf) Hs. split; [eapply query_pure; eauto; reflexivity|].
    destruct mr as [m rs]. open_step HR Hs m rs HI HC. rewrite Lf in Hs.
    destr Hs as [ps|] eqn E. injection Hs as <- <-. exists ps. split; [reflexivity|].
    assert (Hps : ps = tpaths (neg rf) tf []).
    { assert (Hok : @stack_ok sops (core m) [(rf, [])] [tf]) by (constructor; [exact Vf|constructor]).
      rewrite (pall_ok _ _ _ _ [tf] _ HI Hok E). cbn [stack_paths fst]. apply app_nil_r. }
    subst ps. splits.
    - intros p Hp. eapply (tpaths_incr tf (neg rf) [] 0 p); try apply Vf; cbn; auto. intros y [].
    - intro e. rewrite (paths_exactly_once _ _ _ e Vf). now rewrite Sf.
    - intros vs e0 Hnd Hp. rewrite <- (paths_sum _ _ _ vs e0 Vf Hnd Hp). unfold CountTk.cnt. rewrite (filter_ext (rsem rf tf) F Sf). reflexivity.
  Qed.

  (* size(f): the number of nodes reachable from f (terminal included), whatever the size cache holds *)
  Theorem size_step_spec mr f rf F fuel mr' x :
    reachable mr -> liveh mr f rf -> denotes mr rf F -> mstep fuel mr (HSize f) = Some (mr', x) ->
    store mr' = store mr /\ snd mr' = snd mr /\
    exists l, NoDup l /\ (forall j, In j l <-> j = 1 \/ Reach (store mr) (idx rf) j) /\ x = ONum (N.of_nat (length l)).
  Proof.
    intros HR Lf (tf & Vf & Sf) Hs. destruct (size_pure _ _ _ _ _ Hs) as [E1 E2]. splits; auto.
    destruct mr as [m rs]. destruct (good_of _ HR) as (HI & HC & HS & _). unfold liveh, store in *; cbn [fst snd] in *.
    unfold Reachable.mstep, step in Hs. rewrite Lf in Hs.
    destruct (size_op nhash khash fuel m rf) as [[m' n]|] eqn:Sz; [|discriminate]. injection Hs as <- <-.
    destruct (size_op_good nhash khash _ _ _ _ _ _ HI HS Vf Sz) as (_ & _ & l & Hnd & Hl & ->). exists l. auto.
  Qed.

  (* bracket export: reading the token tree back yields the handle's function *)
  Theorem bracket_step_spec mr f rf F fuel mr' x :
    reachable mr -> liveh mr f rf -> denotes mr rf F -> mstep fuel mr (HBracket f) = Some (mr', x) ->
    mr' = mr /\ exists tok, x = OBracket tok /\ exists F' d, interp tok [] = Some (F', d) /\ forall e, F' e = F e.
  Proof.
    intros HR Lf (tf & Vf & Sf) Hs. split; [eapply query_pure; eauto; reflexivity|].
    destruct mr as [m rs]. open_step HR Hs m rs HI HC. rewrite Lf in Hs.
    destr Hs as [[tok vis]|] eqn E. injection Hs as <- <-. exists tok. split; [reflexivity|].
    destruct (bracket_faithful _ _ _ _ _ _ HI Vf E) as (F' & d & Hi & HF). exists F', d. split; [exact Hi|]. intro e. now rewrite HF, Sf.
  Qed.

  (* DOT export, at record level: one root record per root; the cell a reader reconstructs from the records unfolds every
     root to the same tree as the store does *)
  Theorem dot_step_spec mr l rl fuel mr' x :
    reachable mr -> fetch_all (snd mr) l = Some rl -> mstep fuel mr (HDot l) = Some (mr', x) ->
    mr' = mr /\ exists recs, x = ODot recs /\
      (forall k r, nth_error rl k = Some r -> In (DRoot k r) recs) /\
      (forall r t, In r rl -> @V sops (store mr) r t -> RepF (read_cell recs) (idx r) t).
  Proof.
    intros HR Fl Hs. split; [eapply query_pure; eauto; reflexivity|].
    destruct mr as [m rs]. destruct (good_of _ HR) as (HI & HC & _ & Hg). unfold liveh, store in *; cbn [fst snd] in *.
    unfold Reachable.mstep, step in Hs. rewrite Fl in Hs.
    destr Hs as [recs|] eqn E. injection Hs as <- <-. exists recs. split; [reflexivity|].
    assert (Hroots : forall r, In r rl -> okidx (core m) (idx r)).
    { intros r Hr. destruct (fetch_all_good nhash khash _ _ Hg _ _ Fl r Hr) as (t & Vt). eapply (okidx_of_V nhash khash); eauto. }
    destruct (dot_faithful _ _ _ _ HI Hroots E) as [H1 H2]. split; [exact H1|]. intros r t Hr Vt. apply H2; [exact Hr|apply Vt].
  Qed.

  (* ---------------- C05 / C06 / C07: collect_garbage ---------------- *)
  Theorem gc_step_spec mr roots rl fuel mr' x :
    reachable mr -> fetch_all (snd mr) roots = Some rl -> mstep fuel mr (HGc roots) = Some (mr', x) ->
    exists vis, @descendants sops fuel (store mr) rl = Some vis /\
      (* a register survives iff its node was marked; survivors keep their handle and their tree *)
      (forall a r, liveh mr' a r -> liveh mr a r /\ (idx r = 1 \/ In (idx r) vis)) /\
      (forall a r, liveh mr a r -> In (idx r) vis -> liveh mr' a r) /\
      (forall r t, @V sops (store mr) r t -> idx r = 1 \/ In (idx r) vis -> @V sops (store mr') r t) /\
      (* exactly the marked nodes remain; nothing new appears; both caches are empty *)
      real_size (tbl (store mr')) = N.of_nat (length vis) /\
      (forall i n, ccell (store mr') i = Some n -> ccell (store mr) i = Some n) /\
      (forall k, cache_get khash (opc (store mr')) k = None) /\
      (forall r, sc_get (szc (fst mr')) r = None).
  Proof.
    intros HR Fl Hs. destruct mr as [m rs]. destruct (good_of _ HR) as (HI & HC & _ & Hg). unfold liveh, store in *; cbn [fst snd] in *.
    unfold Reachable.mstep, step in Hs. rewrite Fl in Hs.
    destr Hs as [vis|] eqn Hd. destr Hs as [s1|] eqn Hgc. injection Hs as <- <-. cbn [fst snd core szc].
    pose proof (fetch_all_good nhash khash _ _ Hg _ _ Fl) as Hroots.
    destruct (gc_ok nhash khash fuel (core m) rl s1 HI Hroots Hgc) as (_ & _ & Hce & _ & Hsub & Hsurv & Hcnt).
    exists vis. split; [exact Hd|]. splits; auto.
    - intros a r Hl. unfold fetch in *. rewrite nth_error_map in Hl.
      destruct (nth_error rs (fst a)) as [[r0|]|] eqn:En; cbn in Hl; try discriminate.
      destruct (memN (idx r0) vis) eqn:Hm; [|discriminate]. injection Hl as <-. split; [reflexivity|].
      right. apply memN_spec in Hm. destruct (snd a); exact Hm.
    - intros a r Hl Hin. unfold fetch in *. rewrite nth_error_map.
      destruct (nth_error rs (fst a)) as [[r0|]|] eqn:En; cbn; try discriminate. injection Hl as <-.
      assert (Hm : memN (idx r0) vis = true) by (apply memN_spec; destruct (snd a); exact Hin). now rewrite Hm.
    - intros r t Vt Hin. eapply (Hsurv vis Hd); eauto. destruct Hin as [?|Hin]; [auto|right; now apply memN_spec].
    - intro r. apply sc_get_clear.
  Qed.

  (* ================= progress: the only way ANY operation fails to produce its result is a full node table ================= *)
  Definition StorageFull (mr : mstate * regs) : Prop :=
    exists s', @sext sops (store mr) s' /\ @Inv sops s' /\ storage_full node (tbl s').
  Lemma stops_full (s : state) : @Stops sops s -> exists s', @sext sops s s' /\ @Inv sops s' /\ storage_full node (tbl s').
  Proof.
    intros (s' & nd & Ex & HI' & Hp). exists s'. splits; auto. destruct HI' as [HT _]. exact (cput_none_storage_full nhash s' nd HT Hp).
  Qed.
  (* for every reachable state and EVERY operation line there is a fuel bound from which on the step yields no result only if
     the node table filled up on the way (the crate's "Storage is full" panic): no operation of the model loops, gets stuck
     on a malformed argument (those lines are skipped) or fails for any other reason *)
  Theorem mstep_progress mr o : reachable mr ->
    exists bound, forall fuel, (bound <= fuel)%nat -> mstep fuel mr o = None -> StorageFull mr.
  Proof.
    intro HR. unfold StorageFull.
    assert (Triv : forall P : Prop, (forall fuel, mstep fuel mr o <> None) -> exists bound : nat, forall fuel, (bound <= fuel)%nat -> mstep fuel mr o = None -> P).
    { intros P H. exists O. intros fuel _ Hs. exfalso. exact (H fuel Hs). }
    assert (Ret : forall (P : Prop) (Q : nat -> Prop), (exists bound, forall fuel, (bound <= fuel)%nat -> Q fuel) -> (forall fuel, Q fuel -> mstep fuel mr o <> None) ->
               exists bound : nat, forall fuel, (bound <= fuel)%nat -> mstep fuel mr o = None -> P).
    { intros P Q (b & Hb) HQ. exists b. intros fuel Hf Hs. exfalso. exact (HQ fuel (Hb fuel Hf) Hs). }
    destruct mr as [m rs]. pose proof (good_of _ HR) as (HI & HC & _ & Hg). cbn [store fst snd] in *.
    destruct o as [b|v|v lo hi|f g h|op f g|f|disj l|cl l|xe|f v b|f vals|f cube|f v g|f g|f g|f|f|hi f v|f g h|f g|f|l|f n|f|f|f|l|roots].
    - (* const *) apply Triv. intros fuel. unfold Reachable.mstep, step. discriminate.
    - (* var *) exists O. intros fuel _ Hs. unfold Reachable.mstep, step in Hs. destruct (0 <? v)%N; [|discriminate].
      unfold mk_var in Hs. match type of Hs with match ?X with _ => _ end = _ => destruct X as [[s1 r1]|] eqn:E; [discriminate|] end.
      apply stops_full. exact (@mk_node_total sops (core m) v zero one HI E).
    - (* node *) exists O. intros fuel _ Hs. unfold Reachable.mstep, step in Hs.
      destruct (fetch rs lo) as [a|]; [|discriminate]. destruct (fetch rs hi) as [b|]; [|discriminate].
      destruct ((0 <? v)%N && below nhash khash (core m) v a && below nhash khash (core m) v b); [|discriminate].
      match type of Hs with match ?X with _ => _ end = _ => destruct X as [[s1 r1]|] eqn:E; [discriminate|] end.
      apply stops_full. exact (@mk_node_total sops (core m) v a b HI E).
    - (* ite *) destruct (fetch rs f) as [rf|] eqn:Lf; [destruct (fetch rs g) as [rg|] eqn:Lg; [destruct (fetch rs h) as [rh|] eqn:Lh|]|].
      + exact (ite_step_fuel_bound (m, rs) f g h rf rg rh HR Lf Lg Lh).
      + apply Triv. intro fuel. unfold Reachable.mstep, step. rewrite Lf, Lg, Lh. discriminate.
      + apply Triv. intro fuel. unfold Reachable.mstep, step. rewrite Lf, Lg. discriminate.
      + apply Triv. intro fuel. unfold Reachable.mstep, step. rewrite Lf. discriminate.
    - (* bin *) destruct (fetch rs f) as [rf|] eqn:Lf; [destruct (fetch rs g) as [rg|] eqn:Lg|].
      + exact (bin_step_fuel_bound (m, rs) op f g rf rg HR Lf Lg).
      + apply Triv. intro fuel. unfold Reachable.mstep, step. rewrite Lf, Lg. discriminate.
      + apply Triv. intro fuel. unfold Reachable.mstep, step. rewrite Lf. discriminate.
    - (* not *) apply Triv. intro fuel. unfold Reachable.mstep, step. destruct (fetch rs f); discriminate.
    - (* many *) destruct (fetch_all rs l) as [rl|] eqn:Fl.
      + exact (many_step_fuel_bound (m, rs) disj l rl HR Fl).
      + apply Triv. intro fuel. unfold Reachable.mstep, step. rewrite Fl. discriminate.
    - (* cube / clause *) exists O. intros fuel _ Hs. unfold Reachable.mstep, step in Hs.
      destruct (distinct_pos l) eqn:D; [|discriminate]. apply andb_prop in D as [D1 D2].
      match type of Hs with match ?X with _ => _ end = _ => destruct X as [[s1 r1]|] eqn:E; [discriminate|] end.
      apply stops_full. apply (@build_stops sops sok cl (sort_lits l) 0%N (core m) HI HC); [|exact E].
      apply sort_asc; [exact (nodupb_ok _ D2)|]. intros y Hy. rewrite forallb_forall in D1. apply N.ltb_lt. apply D1. exact Hy.
    - (* expr *) destruct (xlate rs xe) as [ex|] eqn:X.
      + exact (expr_step_fuel_bound (m, rs) xe ex HR X).
      + apply Triv. intro fuel. unfold Reachable.mstep, step. rewrite X. discriminate.
    - (* subst *) destruct (fetch rs f) as [rf|] eqn:Lf.
      + exact (subst_step_fuel_bound (m, rs) f rf v b HR Lf).
      + apply Triv. intro fuel. unfold Reachable.mstep, step. rewrite Lf. discriminate.
    - destruct (fetch rs f) as [rf|] eqn:Lf.
      + exact (substm_step_fuel_bound (m, rs) f rf vals HR Lf).
      + apply Triv. intro fuel. unfold Reachable.mstep, step. rewrite Lf. discriminate.
    - destruct (fetch rs f) as [rf|] eqn:Lf.
      + exact (cofcube_step_fuel_bound (m, rs) f rf cube HR Lf).
      + apply Triv. intro fuel. unfold Reachable.mstep, step. rewrite Lf. discriminate.
    - (* compose *) destruct (fetch rs f) as [rf|] eqn:Lf; [destruct (fetch rs g) as [rg|] eqn:Lg|].
      + exact (compose_step_fuel_bound (m, rs) f g rf rg v HR Lf Lg).
      + apply Triv. intro fuel. unfold Reachable.mstep, step. rewrite Lf, Lg. discriminate.
      + apply Triv. intro fuel. unfold Reachable.mstep, step. rewrite Lf. discriminate.
    - (* constrain *) destruct (fetch rs f) as [rf|] eqn:Lf; [destruct (fetch rs g) as [rg|] eqn:Lg|].
      + exact (constrain_step_fuel_bound (m, rs) f g rf rg HR Lf Lg).
      + apply Triv. intro fuel. unfold Reachable.mstep, step. rewrite Lf, Lg. discriminate.
      + apply Triv. intro fuel. unfold Reachable.mstep, step. rewrite Lf. discriminate.
    - (* restrict *) destruct (fetch rs f) as [rf|] eqn:Lf; [destruct (fetch rs g) as [rg|] eqn:Lg|].
      + exact (restrict_step_fuel_bound (m, rs) f g rf rg HR Lf Lg).
      + apply Triv. intro fuel. unfold Reachable.mstep, step. rewrite Lf, Lg. discriminate.
      + apply Triv. intro fuel. unfold Reachable.mstep, step. rewrite Lf. discriminate.
    - (* low *) apply Triv. intro fuel. unfold Reachable.mstep, step. destruct (fetch rs f) as [a|]; [destruct (idx a =? 1)%N|]; discriminate.
    - (* high *) apply Triv. intro fuel. unfold Reachable.mstep, step. destruct (fetch rs f) as [a|]; [destruct (idx a =? 1)%N|]; discriminate.
    - (* top_cofactors *) apply Triv. intro fuel. unfold Reachable.mstep, step. destruct (fetch rs f) as [a|]; [|discriminate].
      match goal with |- (if ?c then _ else _) <> None => destruct c; discriminate end.
    - (* ite_constant *) destruct (fetch rs f) as [rf|] eqn:Lf; [destruct (fetch rs g) as [rg|] eqn:Lg; [destruct (fetch rs h) as [rh|] eqn:Lh|]|].
      + apply (Ret _ _ (itec_step_returns (m, rs) f g h rf rg rh HR Lf Lg Lh)). intros fuel (x & Hx). rewrite Hx. discriminate.
      + apply Triv. intro fuel. unfold Reachable.mstep, step. rewrite Lf, Lg, Lh. discriminate.
      + apply Triv. intro fuel. unfold Reachable.mstep, step. rewrite Lf, Lg. discriminate.
      + apply Triv. intro fuel. unfold Reachable.mstep, step. rewrite Lf. discriminate.
    - (* is_implies *) destruct (fetch rs f) as [rf|] eqn:Lf; [destruct (fetch rs g) as [rg|] eqn:Lg|].
      + apply (Ret _ _ (implies_step_returns (m, rs) f g rf rg HR Lf Lg)). intros fuel (x & Hx). rewrite Hx. discriminate.
      + apply Triv. intro fuel. unfold Reachable.mstep, step. rewrite Lf, Lg. discriminate.
      + apply Triv. intro fuel. unfold Reachable.mstep, step. rewrite Lf. discriminate.
    - (* size *) destruct (fetch rs f) as [rf|] eqn:Lf.
      + apply (Ret _ _ (size_step_returns (m, rs) f rf HR Lf)). auto.
      + apply Triv. intro fuel. unfold Reachable.mstep, step. rewrite Lf. discriminate.
    - (* descendants *) destruct (fetch_all rs l) as [rl|] eqn:Fl.
      + apply (Ret _ _ (desc_step_returns (m, rs) l rl HR Fl)). intros fuel (x & Hx). rewrite Hx. discriminate.
      + apply Triv. intro fuel. unfold Reachable.mstep, step. rewrite Fl. discriminate.
    - (* sat_count *) destruct (fetch rs f) as [rf|] eqn:Lf.
      + apply (Ret _ _ (satcount_step_returns (m, rs) f rf n HR Lf)). intros fuel (x & Hx). rewrite Hx. discriminate.
      + apply Triv. intro fuel. unfold Reachable.mstep, step. rewrite Lf. discriminate.
    - (* one_sat *) destruct (fetch rs f) as [rf|] eqn:Lf.
      + apply (Ret _ _ (onesat_step_returns (m, rs) f rf HR Lf)). intros fuel (x & Hx). rewrite Hx. discriminate.
      + apply Triv. intro fuel. unfold Reachable.mstep, step. rewrite Lf. discriminate.
    - (* paths *) destruct (fetch rs f) as [rf|] eqn:Lf.
      + apply (Ret _ _ (paths_step_returns (m, rs) f rf HR Lf)). intros fuel (x & Hx). rewrite Hx. discriminate.
      + apply Triv. intro fuel. unfold Reachable.mstep, step. rewrite Lf. discriminate.
    - (* bracket *) destruct (fetch rs f) as [rf|] eqn:Lf.
      + apply (Ret _ _ (bracket_step_returns (m, rs) f rf HR Lf)). intros fuel (x & Hx). rewrite Hx. discriminate.
      + apply Triv. intro fuel. unfold Reachable.mstep, step. rewrite Lf. discriminate.
    - (* dot *) destruct (fetch_all rs l) as [rl|] eqn:Fl.
      + apply (Ret _ _ (dot_step_returns (m, rs) l rl HR Fl)). intros fuel (x & Hx). rewrite Hx. discriminate.
      + apply Triv. intro fuel. unfold Reachable.mstep, step. rewrite Fl. discriminate.
    - (* gc *) destruct (fetch_all rs roots) as [rl|] eqn:Fl.
      + apply (Ret _ _ (gc_step_returns (m, rs) roots rl HR Fl)). auto.
      + apply Triv. intro fuel. unfold Reachable.mstep, step. rewrite Fl. discriminate.
  Qed.

End Specs.
