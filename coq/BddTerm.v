From Coq Require Import NArith Bool Lia List.
Require Import Canon SemTk BddBase BddIte.
Import ListNotations.
Local Open Scope N_scope.

Section Term.
  Context {SO : StoreOps} {OK : StoreOK}.

  (* what one call of apply_ite does before any recursion: return, rewrite (standard triple), swap, or expand *)
  Inductive action := ARet (r : ref) | AStd (f g h : ref) | ASwap (f g h : ref) | AExpand.
  Definition ite_action (s : st) (f g h : ref) : action :=
    if is_one f then ARet g else
    if is_zero f then ARet h else
    if ref_eqb g h then ARet g else
    if is_one g && is_zero h then ARet f else
    if is_zero g && is_one h then ARet (rneg f) else
    if is_one g && ref_eqb h (rneg f) then ARet one else
    if ref_eqb g f && is_one h then ARet one else
    if ref_eqb g (rneg f) && is_zero h then ARet zero else
    if is_zero g && ref_eqb h f then ARet zero else
    if ref_eqb g f then AStd f one h else
    if ref_eqb h f then AStd f g zero else
    if ref_eqb g (rneg f) then AStd f zero h else
    if ref_eqb h (rneg f) then AStd f g one else
    let i := top s f in let j := top s g in let k := top s h in
    if is_one g && (k <? i) then ASwap h one f else
    if is_zero h && (j <? i) then ASwap g f zero else
    if is_one h && (j <? i) then ASwap (rneg g) (rneg f) one else
    if is_zero g && (k <? i) then ASwap (rneg h) zero (rneg f) else
    if ref_eqb g (rneg h) && (j <? i) then ASwap g f (rneg f) else
    AExpand.


  (* after an equivalent-pair swap the callee never rewrites again: it returns or expands *)
  (* the terminal's "variable" is 0, every other node's is positive; that is all the rules need *)
  Lemma swap_stable s f g h f' g' h' : top s one = 0 -> top s zero = 0 -> idx f <> 1 ->
    (idx g <> 1 -> 0 < top s g) -> (idx h <> 1 -> 0 < top s h) -> 0 < top s f ->
    ite_action s f g h = ASwap f' g' h' ->
    match ite_action s f' g' h' with ARet _ | AExpand => True | _ => False end.
  Proof.
    intros T1 T0 Hf Hg Hh Hf0 H.
    pose proof (rneg_invol f) as Rf; pose proof (rneg_invol g) as Rg; pose proof (rneg_invol h) as Rh.
    assert (Nf : rneg f <> f) by (destruct f as [? []]; unfold rneg; cbn; congruence).
    assert (Ng : rneg g <> g) by (destruct g as [? []]; unfold rneg; cbn; congruence).
    assert (Nh : rneg h <> h) by (destruct h as [? []]; unfold rneg; cbn; congruence).
    assert (Z1 : rneg one = zero) by reflexivity. assert (Z0 : rneg zero = one) by reflexivity.
    assert (I1 : idx one = 1) by reflexivity. assert (I0 : idx zero = 1) by reflexivity.
    unfold ite_action in H.
    repeat match type of H with (if ?c then _ else _) = _ => destruct c eqn:? end; try discriminate;
      injection H as <- <- <-; unfold ite_action;
      repeat match goal with
      | H : _ && _ = true |- _ => apply andb_prop in H; destruct H
      | H : _ && _ = false |- _ => apply andb_false_iff in H
      | H : is_one ?x = true |- _ => apply is_one_true in H; subst x
      | H : is_zero ?x = true |- _ => apply is_zero_true in H; subst x
      | H : ref_eqb ?x ?y = true |- _ => apply ref_eqb_true in H
      | H : (_ <? _) = true |- _ => apply N.ltb_lt in H
      end.
    all: repeat match goal with |- context[if ?c then _ else _] => destruct c eqn:? end; try exact I.
    all: exfalso.
    all: repeat match goal with
      | H : _ && _ = true |- _ => apply andb_prop in H; destruct H
      | H : is_one ?x = true |- _ => apply is_one_true in H
      | H : is_zero ?x = true |- _ => apply is_zero_true in H
      | H : ref_eqb ?x ?y = true |- _ => apply ref_eqb_true in H
      | H : (_ <? _) = true |- _ => apply N.ltb_lt in H
      | H : (_ <? _) = false |- _ => apply N.ltb_ge in H
      | H : is_one ?x = false |- _ => assert (x <> one) by (intro; subst; discriminate); clear H
      | H : is_zero ?x = false |- _ => assert (x <> zero) by (intro; subst; discriminate); clear H
      | H : ref_eqb ?x ?y = false |- _ => assert (x <> y) by (destruct (ref_eqb_spec x y); congruence); clear H
      end.
    all: try congruence; try lia.
    all: change (is_one one) with true in *; change (is_zero one) with false in *;
         change (is_one zero) with false in *; change (is_zero zero) with true in *;
         rewrite ?andb_true_r, ?andb_false_r, ?andb_true_l, ?andb_false_l in *.
    all: repeat match goal with
      | H : false = false \/ _ |- _ => clear H
      | H : _ \/ false = false |- _ => clear H
      | H : ?a = false \/ true = false |- _ => assert (a = false) by (destruct H as [H|H]; [exact H|discriminate H]); clear H
      | H : true = false \/ ?a = false |- _ => assert (a = false) by (destruct H as [H|H]; [discriminate H|exact H]); clear H
      | H : is_one ?x = false |- _ => assert (x <> one) by (intro; subst; discriminate); clear H
      | H : is_zero ?x = false |- _ => assert (x <> zero) by (intro; subst; discriminate); clear H
      | H : ref_eqb ?x ?y = false |- _ => assert (x <> y) by (destruct (ref_eqb_spec x y); congruence); clear H
      | H : (_ <? _) = false |- _ => apply N.ltb_ge in H
      end.
    all: try congruence; try lia.
    all: unfold top in *; cbn [rneg idx] in *; try lia.
  Qed.

  (* one call = its action, then (for rewrites) the callee, or the expansion code *)
  Definition expand_code (fuel : nat) (s : st) (f g h : ref) : option (st * ref) :=
    let i := top s f in let j := top s g in let k := top s h in
    let '(f1, g1, h1) := if neg f then (rneg f, h, g) else (f, g, h) in
    let '(g2, h2, n) := if neg g1 then (rneg g1, rneg h1, true) else (g1, h1, false) in
    match cget s (KIte f1 g2 h2) with
    | Some r => Some (s, if n then rneg r else r)
    | None =>
      let m := i in let m := if j =? 0 then m else N.min m j in let m := if k =? 0 then m else N.min m k in
      let '(f0, f1') := top_cofactors s f1 m in
      let '(g0, g1') := top_cofactors s g2 m in
      let '(h0, h1') := top_cofactors s h2 m in
      match ite fuel s f0 g0 h0 with None => None | Some (s1, e) =>
      match ite fuel s1 f1' g1' h1' with None => None | Some (s2, t) =>
      match mk_node s2 m e t with None => None | Some (s3, r) =>
        Some (cput s3 (KIte f1 g2 h2) r, if n then rneg r else r)
      end end end
    end.
  Lemma ite_step fuel s f g h :
    ite (S fuel) s f g h =
    match ite_action s f g h with
    | ARet r => Some (s, r)
    | AStd f' g' h' | ASwap f' g' h' => ite fuel s f' g' h'
    | AExpand => expand_code fuel s f g h
    end.
  Proof.
    cbn [ite]. unfold ite_action, expand_code.
    repeat match goal with |- context[if ?c then _ else _] =>
      match c with
      | is_one _ => destruct c eqn:?
      | is_zero _ => destruct c eqn:?
      | ref_eqb _ _ => destruct c eqn:?
      | _ && _ => destruct c eqn:?
      end end; try reflexivity.
  Qed.

  (* ---------- the fuel bound: 3 * (sum of heights) + 3 ---------- *)
  Fixpoint height (t : tree) : nat := match t with Leaf => O | Nd _ _ l h => S (Nat.max (height l) (height h)) end.
  Definition S3 (a b c : tree) : nat := (height a + height b + height c)%nat.
  (* `Stops s`: some `put` fails (the crate's "Storage is full") at an invariant-respecting extension of s.  The theorems
     below say that with enough fuel `ite` returns None ONLY IF a `put` failed on the way. *)
  Definition Stops (s : st) : Prop := exists s' nd, sext s s' /\ Inv s' /\ put s' nd = None.
  Lemma Stops_back s s1 : sext s s1 -> Stops s1 -> Stops s.
  Proof. intros E (s' & nd & E' & HI & Hp). exists s', nd. splits; auto. eapply sext_trans; eauto. Qed.
  Ltac disc := let X := fresh "X" in intro X; discriminate X.
  Lemma mk_node_total s v l h : Inv s -> mk_node s v l h = None -> Stops s.
  Proof.
    intro HI. unfold mk_node. destruct (if neg h then _ else _) as [[l' h'] n]. destruct (ref_eqb l' h'); [disc|].
    destruct (put s (Node v l' h')) as [[s1 i]|] eqn:E; [disc|]. intros _. exists s, (Node v l' h'). splits; auto using sext_refl.
  Qed.

  Lemma tc_height s r m t r0 r1 t0 t1 : Inv s -> V s r t -> (t = Leaf \/ m <= top s r) ->
    top_cofactors s r m = (r0, r1) -> V s r0 t0 -> V s r1 t1 ->
    (height t0 <= height t /\ height t1 <= height t)%nat /\
    (idx r <> 1 -> m = top s r -> (height t0 < height t /\ height t1 < height t)%nat).
  Proof.
    intros HI HV Hm Htc V0 V1.
    destruct (tc_ok s r m t HI HV Hm r0 r1 Htc) as (t0' & t1' & V0' & V1' & _ & _ & _ & _ & _ & _ & Lf & Lt).
    pose proof (V_fun _ _ _ _ V0 V0') as ->. pose proof (V_fun _ _ _ _ V1 V1') as ->.
    destruct (top_cases _ _ _ HI HV) as [(-> & Ht & Hi)|(v & ln & tl & th & -> & Ht & Hv & Hi)].
    - destruct (Lf (or_introl eq_refl)) as (_ & _ & -> & ->). split; [lia|]. intros; contradiction.
    - destruct (N.lt_ge_cases m v) as [Hlt|Hge].
      + destruct Lf as (_ & _ & -> & ->); [right; lia|]. split; [lia|]. intros _ E. lia.
      + assert (m = v) by (destruct Hm as [?|Hm]; [discriminate|lia]). subst m.
        destruct (Lt v ln tl th eq_refl eq_refl) as [-> ->]. cbn [height]. split; [lia|]. intros; lia.
  Qed.

  Lemma height_pos s r t : Inv s -> V s r t -> idx r <> 1 -> (1 <= height t)%nat.
  Proof. intros HI HV Hi. destruct t; [destruct (top_leaf _ _ HI HV); contradiction|cbn; lia]. Qed.
  Lemma top_one s : Inv s -> top s one = 0 /\ top s zero = 0.
  Proof. intro HI. split; [exact (proj1 (top_leaf _ _ HI (V_one s)))|exact (proj1 (top_leaf _ _ HI (V_zero s)))]. Qed.
  Lemma nonterm_of (f : ref) : is_one f = false -> is_zero f = false -> idx f <> 1.
  Proof. intros A B. rewrite <- N.eqb_neq, <- term_idx, A, B. reflexivity. Qed.

  (* standard triples strictly decrease the measure; the callee's arguments are valid *)
  Lemma std_decr s f g h tf tg th f' g' h' : Inv s -> V s f tf -> V s g tg -> V s h th ->
    ite_action s f g h = AStd f' g' h' ->
    exists tf' tg' th', V s f' tf' /\ V s g' tg' /\ V s h' th' /\ (S3 tf' tg' th' < S3 tf tg th)%nat.
  Proof.
    intros HI Vf Vg Vh H. unfold ite_action in H.
    destruct (is_one f) eqn:C1; [discriminate|]. destruct (is_zero f) eqn:C2; [discriminate|].
    pose proof (height_pos _ _ _ HI Vf (nonterm_of _ C1 C2)) as Hp.
    repeat match type of H with (if ?c then _ else _) = _ => destruct c eqn:? end; try discriminate; injection H as <- <- <-;
      repeat match goal with H : ref_eqb ?x ?y = true |- _ => apply ref_eqb_true in H end; subst.
    - exists tf, Leaf, th. splits; auto using V_one. pose proof (V_fun _ _ _ _ Vf Vg); subst. unfold S3; cbn [height]; lia.
    - exists tf, tg, Leaf. splits; auto using V_zero. pose proof (V_fun _ _ _ _ Vf Vh); subst. unfold S3; cbn [height]; lia.
    - exists tf, Leaf, th. splits; auto using V_zero. pose proof (V_fun _ _ _ _ Vf (V_neg' _ _ _ Vg)); subst. unfold S3; cbn [height]; lia.
    - exists tf, tg, Leaf. splits; auto using V_one. pose proof (V_fun _ _ _ _ Vf (V_neg' _ _ _ Vh)); subst. unfold S3; cbn [height]; lia.
  Qed.
  (* NOTE (finding while proving): the sum of heights is NOT preserved by the swap ite(F,G,~G) => ite(G,F,~F)
     (hf + 2hg becomes hg + 2hf), so it cannot be the termination measure.  The measure that works is the level:
     L + 1 - (smallest top variable among the non-terminal arguments); rewrites never decrease that variable, swaps keep it,
     expansion strictly increases it (all cofactors are `above m`), and at most two rewrites (standard triple, then swap;
     `swap_stable` above) precede an expansion or a return: fuel 3 * (L + 1 - m) + 3 suffices. *)

  (* ---------- the level measure ---------- *)
  Fixpoint allle (L : N) (t : tree) : Prop := match t with Leaf => True | Nd v _ l h => v <= L /\ allle L l /\ allle L h end.
  Definition lev (L : N) (t : tree) : N := match t with Leaf => L + 1 | Nd v _ _ _ => v end.
  Definition mu (L : N) (a b c : tree) : nat := N.to_nat (L + 1 - N.min (lev L a) (N.min (lev L b) (lev L c))).

  (* after a standard-triple rewrite the callee never applies a standard-triple rewrite again *)
  Lemma std_stable s f g h f' g' h' : top s one = 0 -> top s zero = 0 -> idx f <> 1 ->
    ite_action s f g h = AStd f' g' h' ->
    match ite_action s f' g' h' with AStd _ _ _ => False | _ => True end.
  Proof.
    intros T1 T0 Hf H.
    pose proof (rneg_invol f) as Rf; pose proof (rneg_invol g) as Rg; pose proof (rneg_invol h) as Rh.
    assert (Nf : rneg f <> f) by (destruct f as [? []]; unfold rneg; cbn; congruence).
    assert (Z1 : rneg one = zero) by reflexivity. assert (Z0 : rneg zero = one) by reflexivity.
    assert (I1 : idx one = 1) by reflexivity. assert (I0 : idx zero = 1) by reflexivity.
    unfold ite_action in H.
    repeat match type of H with (if ?c then _ else _) = _ => destruct c eqn:? end; try discriminate;
      injection H as <- <- <-; unfold ite_action;
      repeat match goal with
      | H : _ && _ = true |- _ => apply andb_prop in H; destruct H
      | H : _ && _ = false |- _ => apply andb_false_iff in H
      | H : is_one ?x = true |- _ => apply is_one_true in H; subst x
      | H : is_zero ?x = true |- _ => apply is_zero_true in H; subst x
      | H : ref_eqb ?x ?y = true |- _ => apply ref_eqb_true in H
      | H : (_ <? _) = true |- _ => apply N.ltb_lt in H
      end.
    all: repeat match goal with |- context[if ?c then _ else _] => destruct c eqn:? end; try exact I.
    all: exfalso.
    all: repeat match goal with
      | H : _ && _ = true |- _ => apply andb_prop in H; destruct H
      | H : is_one ?x = true |- _ => apply is_one_true in H
      | H : is_zero ?x = true |- _ => apply is_zero_true in H
      | H : ref_eqb ?x ?y = true |- _ => apply ref_eqb_true in H
      | H : is_one ?x = false |- _ => assert (x <> one) by (intro; subst; discriminate); clear H
      | H : is_zero ?x = false |- _ => assert (x <> zero) by (intro; subst; discriminate); clear H
      | H : ref_eqb ?x ?y = false |- _ => assert (x <> y) by (destruct (ref_eqb_spec x y); congruence); clear H
      end.
    all: try congruence.
    all: change (is_one one) with true in *; change (is_zero one) with false in *;
         change (is_one zero) with false in *; change (is_zero zero) with true in *;
         rewrite ?andb_true_r, ?andb_false_r, ?andb_true_l, ?andb_false_l in *.
    all: repeat match goal with
      | H : false = false \/ _ |- _ => clear H
      | H : _ \/ false = false |- _ => clear H
      | H : ?a = false \/ true = false |- _ => assert (a = false) by (destruct H as [H|H]; [exact H|discriminate H]); clear H
      | H : true = false \/ ?a = false |- _ => assert (a = false) by (destruct H as [H|H]; [discriminate H|exact H]); clear H
      | H : is_one ?x = false |- _ => assert (x <> one) by (intro; subst; discriminate); clear H
      | H : is_zero ?x = false |- _ => assert (x <> zero) by (intro; subst; discriminate); clear H
      | H : ref_eqb ?x ?y = false |- _ => assert (x <> y) by (destruct (ref_eqb_spec x y); congruence); clear H
      end.
    all: try congruence.
  Qed.

  (* shape of the cofactors: the diagram itself, or the two children of a node labelled m *)
  Lemma tc_shape s r m t r0 r1 : Inv s -> V s r t -> (t = Leaf \/ m <= top s r) -> top_cofactors s r m = (r0, r1) ->
    exists t0 t1, V s r0 t0 /\ V s r1 t1 /\ above m t0 /\ above m t1 /\
      ((t0 = t /\ t1 = t) \/ exists ln, t = Nd m ln t0 t1).
  Proof.
    intros HI HV Hm Htc.
    destruct (tc_ok s r m t HI HV Hm r0 r1 Htc) as (t0 & t1 & V0 & V1 & A0 & A1 & _ & _ & _ & _ & Lf & Lt).
    exists t0, t1. splits; auto.
    destruct (top_cases _ _ _ HI HV) as [(-> & _)|(v & ln & tl & th & -> & Ht & Hv & _)].
    - left. destruct (Lf (or_introl eq_refl)) as (_ & _ & -> & ->). auto.
    - destruct (N.lt_ge_cases m v) as [Hlt|Hge].
      + left. destruct Lf as (_ & _ & -> & ->); [right; lia|auto].
      + assert (m = v) by (destruct Hm as [?|Hm]; [discriminate|lia]). subst m.
        destruct (Lt v ln tl th eq_refl eq_refl) as [-> ->]. right. eauto.
  Qed.
  Lemma lev_child L m t t0 t1 : allle L t -> m <= L -> above m t0 -> above m t1 ->
    ((t0 = t /\ t1 = t) \/ exists ln, t = Nd m ln t0 t1) ->
    allle L t0 /\ allle L t1 /\ m + 1 <= lev L t0 /\ m + 1 <= lev L t1.
  Proof.
    intros HL Hm A0 A1 Hs.
    assert (Hlev : forall x, above m x -> m + 1 <= lev L x) by (intros x Ax; destruct x; cbn in *; [lia|destruct Ax; lia]).
    destruct Hs as [[-> ->]|(ln & ->)].
    - splits; auto.
    - destruct HL as (_ & H0 & H1). splits; auto.
  Qed.

  (* the variable chosen by the code is the smallest level among the three diagrams *)
  Lemma mtop_is_minlev L s f g h tf tg th : Inv s -> V s f tf -> V s g tg -> V s h th -> idx f <> 1 ->
    allle L tf -> allle L tg -> allle L th ->
    mtop (top s f) (top s g) (top s h) = N.min (lev L tf) (N.min (lev L tg) (lev L th)) /\
    mtop (top s f) (top s g) (top s h) <= L.
  Proof.
    intros HI Vf Vg Vh Hf Lf Lg Lh.
    destruct (top_cases _ _ _ HI Vf) as [(_ & _ & E)|(vi & ? & ? & ? & -> & -> & Hvi & _)]; [contradiction|].
    destruct Lf as (Hfi & _). cbn [lev].
    assert (Hg : (top s g = 0 /\ lev L tg = L + 1) \/ (0 < top s g /\ lev L tg = top s g /\ top s g <= L)).
    { destruct (top_cases _ _ _ HI Vg) as [(-> & -> & _)|(v0 & ? & ? & ? & -> & -> & Hp & _)]; [left; auto|right]. destruct Lg as (? & _). cbn; auto. }
    assert (Hh : (top s h = 0 /\ lev L th = L + 1) \/ (0 < top s h /\ lev L th = top s h /\ top s h <= L)).
    { destruct (top_cases _ _ _ HI Vh) as [(-> & -> & _)|(v0 & ? & ? & ? & -> & -> & Hp & _)]; [left; auto|right]. destruct Lh as (? & _). cbn; auto. }
    unfold mtop. destruct Hg as [[-> ->]|(? & -> & ?)], Hh as [[-> ->]|(? & -> & ?)]; cbn [N.eqb];
      repeat match goal with |- context[?a =? 0] => destruct (N.eqb_spec a 0) end; lia.
  Qed.

  Lemma mtop_comm i j k : mtop i j k = mtop i k j.
  Proof. unfold mtop. destruct (N.eqb_spec j 0), (N.eqb_spec k 0); lia. Qed.

  Definition Term (L : N) (k : nat) (bound : nat) : Prop :=
    forall s a b c ta tb tc, Inv s -> CInv s -> V s a ta -> V s b tb -> V s c tc ->
      allle L ta -> allle L tb -> allle L tc -> (mu L ta tb tc <= bound)%nat -> ite k s a b c = None -> Stops s.

  (* expansion terminates if calls at strictly smaller measure do *)
  Lemma expand_term L k s f g h tf tg th n : Inv s -> CInv s -> V s f tf -> V s g tg -> V s h th ->
    allle L tf -> allle L tg -> allle L th -> idx f <> 1 -> (mu L tf tg th <= S n)%nat -> Term L k n ->
    expand_code k s f g h = None -> Stops s.
  Proof.
    intros HI HC Vf Vg Vh Lf Lg Lh Hf Hmu HT.
    (* the core, for any normalised triple carrying the same trees up to order *)
    assert (Core : forall f1 g2 h2 (nn : bool) t2 t3, V s f1 tf -> V s g2 t2 -> V s h2 t3 -> allle L t2 -> allle L t3 ->
        idx f1 <> 1 -> mtop (top s f1) (top s g2) (top s h2) = mtop (top s f) (top s g) (top s h) ->
        mu L tf t2 t3 = mu L tf tg th ->
        match cget s (KIte f1 g2 h2) with
        | Some r => Some (s, if nn then rneg r else r)
        | None =>
          let m := mtop (top s f) (top s g) (top s h) in
          let '(f0, f1') := top_cofactors s f1 m in
          let '(g0, g1') := top_cofactors s g2 m in
          let '(h0, h1') := top_cofactors s h2 m in
          match ite k s f0 g0 h0 with None => None | Some (s1, e) =>
          match ite k s1 f1' g1' h1' with None => None | Some (s2, t) =>
          match mk_node s2 m e t with None => None | Some (s3, r) =>
            Some (cput s3 (KIte f1 g2 h2) r, if nn then rneg r else r) end end end
        end = None -> Stops s).
    { intros f1 g2 h2 nn t2 t3 V1 V2 V3 L2 L3 Hf1 Em Emu.
      destruct (cget s (KIte f1 g2 h2)); [disc|].
      destruct (mtop_is_minlev L s f1 g2 h2 tf t2 t3 HI V1 V2 V3 Hf1 Lf L2 L3) as [Emin HmL]. rewrite Em in Emin, HmL.
      destruct (mtop_ok s f1 g2 h2 tf t2 t3 HI V1 V2 V3 Hf1) as (Hm0 & Hm1 & Hm2 & Hm3). rewrite Em in *.
      set (m := mtop (top s f) (top s g) (top s h)) in *. cbv zeta.
      destruct (top_cofactors s f1 m) as [f0 f1'] eqn:T1. destruct (top_cofactors s g2 m) as [g0 g1'] eqn:T2. destruct (top_cofactors s h2 m) as [h0 h1'] eqn:T3.
      destruct (tc_shape s f1 m tf f0 f1' HI V1 Hm1 T1) as (a0 & a1 & Va0 & Va1 & Aa0 & Aa1 & Sa).
      destruct (tc_shape s g2 m t2 g0 g1' HI V2 Hm2 T2) as (b0 & b1 & Vb0 & Vb1 & Ab0 & Ab1 & Sb).
      destruct (tc_shape s h2 m t3 h0 h1' HI V3 Hm3 T3) as (c0 & c1 & Vc0 & Vc1 & Ac0 & Ac1 & Sc).
      destruct (lev_child L m tf a0 a1 Lf HmL Aa0 Aa1 Sa) as (La0 & La1 & Ea0 & Ea1).
      destruct (lev_child L m t2 b0 b1 L2 HmL Ab0 Ab1 Sb) as (Lb0 & Lb1 & Eb0 & Eb1).
      destruct (lev_child L m t3 c0 c1 L3 HmL Ac0 Ac1 Sc) as (Lc0 & Lc1 & Ec0 & Ec1).
      assert (Hmu0 : (mu L a0 b0 c0 <= n)%nat) by (unfold mu in *; rewrite <- Emu in Hmu; rewrite <- Emin in Hmu; lia).
      assert (Hmu1 : (mu L a1 b1 c1 <= n)%nat) by (unfold mu in *; rewrite <- Emu in Hmu; rewrite <- Emin in Hmu; lia).
      destruct (ite k s f0 g0 h0) as [[s1 e]|] eqn:I1; [|intros _; eapply (HT s f0 g0 h0 a0 b0 c0); eauto].
      destruct (ite_ok _ _ _ _ _ _ _ _ _ _ HI HC I1 Va0 Vb0 Vc0) as (HI1 & HC1 & E1 & _).
      destruct (ite k s1 f1' g1' h1') as [[s2 t]|] eqn:I2;
        [|intros _; apply (Stops_back s s1 E1); eapply (HT s1 f1' g1' h1' a1 b1 c1); eauto using V_ext].
      destruct (ite_ok _ _ _ _ _ _ _ _ _ _ HI1 HC1 I2 (V_ext _ _ _ _ E1 Va1) (V_ext _ _ _ _ E1 Vb1) (V_ext _ _ _ _ E1 Vc1)) as (HI2 & _ & E2 & _).
      destruct (mk_node s2 m e t) as [[s3 r]|] eqn:Mk; [disc|]. intros _.
      apply (Stops_back s s2 (sext_trans _ _ _ E1 E2)). eapply mk_node_total; eauto. }
    unfold expand_code.
    change (if top s h =? 0 then if top s g =? 0 then top s f else N.min (top s f) (top s g)
            else N.min (if top s g =? 0 then top s f else N.min (top s f) (top s g)) (top s h))
      with (mtop (top s f) (top s g) (top s h)).
    assert (Tn : forall x, top s (rneg x) = top s x) by reflexivity.
    assert (In : forall x, idx (rneg x) = idx x) by reflexivity.
    assert (Msw : mu L tf th tg = mu L tf tg th) by (unfold mu; f_equal; lia).
    destruct (neg f) eqn:Nf; [destruct (neg h) eqn:Nh|destruct (neg g) eqn:Ng].
    - apply (Core (rneg f) (rneg h) (rneg g) true th tg); auto using V_neg. rewrite !Tn. apply mtop_comm.
    - apply (Core (rneg f) h g false th tg); auto using V_neg. rewrite !Tn. apply mtop_comm.
    - apply (Core f (rneg g) (rneg h) true tg th); auto using V_neg.
    - apply (Core f g h false tg th); auto.
  Qed.

  (* validity and measure of the callee for the two kinds of rewrite *)
  Lemma rewrite_args L s f g h tf tg th f' g' h' : Inv s -> V s f tf -> V s g tg -> V s h th ->
    allle L tf -> allle L tg -> allle L th ->
    (ite_action s f g h = AStd f' g' h' \/ ite_action s f g h = ASwap f' g' h') ->
    exists tf' tg' th', V s f' tf' /\ V s g' tg' /\ V s h' th' /\ allle L tf' /\ allle L tg' /\ allle L th' /\
      (mu L tf' tg' th' <= mu L tf tg th)%nat.
  Proof.
    intros HI Vf Vg Vh Lf Lg Lh H. unfold ite_action in H.
    destruct (is_one f) eqn:C1; [destruct H; discriminate|]. destruct (is_zero f) eqn:C2; [destruct H; discriminate|].
    pose proof (nonterm_of _ C1 C2) as Hfn.
    assert (Hleaf : forall x, lev L tf <= L + 1 /\ lev L x <= L + 1 -> True) by auto.
    assert (HlevL : forall x, allle L x -> lev L x <= L + 1) by (intros x Hx; destruct x; cbn in *; lia).
    pose proof (HlevL _ Lf). pose proof (HlevL _ Lg). pose proof (HlevL _ Lh).
    repeat match type of H with (if ?c then _ else _) = _ \/ (if ?c then _ else _) = _ => destruct c eqn:? end;
      destruct H as [H|H]; try discriminate; injection H as <- <- <-;
      repeat match goal with
      | H : _ && _ = true |- _ => apply andb_prop in H; destruct H
      | H : is_one ?x = true |- _ => apply is_one_true in H; subst x
      | H : is_zero ?x = true |- _ => apply is_zero_true in H; subst x
      | H : ref_eqb ?x ?y = true |- _ => apply ref_eqb_true in H; subst
      end; unify_trees.
    all: do 3 eexists; splits; try solve [eauto using V_neg, V_one, V_zero]; try exact I;
         try (unfold mu; cbn [lev]; lia).
  Qed.
  Lemma expand_nonterm s f g h : ite_action s f g h = AExpand -> idx f <> 1.
  Proof.
    unfold ite_action. destruct (is_one f) eqn:C1; [discriminate|]. destruct (is_zero f) eqn:C2; [discriminate|].
    intros _. exact (nonterm_of _ C1 C2).
  Qed.

  Lemma swap_pre s r t : Inv s -> V s r t -> (idx r <> 1 -> 0 < top s r).
  Proof. intros HI HV Hi. destruct (top_cases _ _ _ HI HV) as [(_ & _ & E)|(v & ? & ? & ? & _ & -> & Hv & _)]; [contradiction|exact Hv]. Qed.

  (* a call whose action is a return or an expansion *)
  Lemma stable_call L n k s f g h tf tg th : Inv s -> CInv s -> V s f tf -> V s g tg -> V s h th ->
    allle L tf -> allle L tg -> allle L th -> (mu L tf tg th <= S n)%nat -> Term L k n ->
    match ite_action s f g h with ARet _ | AExpand => True | _ => False end ->
    ite (S k) s f g h = None -> Stops s.
  Proof.
    intros HI HC Vf Vg Vh Lf Lg Lh Hmu HT Hact. rewrite ite_step.
    destruct (ite_action s f g h) eqn:A; try contradiction; [disc|].
    exact (expand_term L k s f g h tf tg th n HI HC Vf Vg Vh Lf Lg Lh (expand_nonterm s f g h A) Hmu HT).
  Qed.

  (* C02, termination: fuel 3 * (L + 1 - smallest top variable) + 3 is always enough (storage permitting) *)
  Theorem ite_terminates L : forall n k, (3 * n + 3 <= k)%nat -> Term L k n.
  Proof.
    induction n as [|n IH]; intros k Hk s f g h tf tg th HI HC Vf Vg Vh Lf Lg Lh Hmu.
    - (* all three diagrams are terminals *)
      destruct k as [|k]; [lia|]. cbn [ite].
      assert (tf = Leaf).
      { destruct tf as [|v ? ? ?]; [reflexivity|exfalso]. destruct Lf as (Hv & _). unfold mu in Hmu. cbn [lev] in Hmu. lia. }
      subst tf. destruct (top_leaf _ _ HI Vf) as [_ Ei].
      assert (Ht : is_one f || is_zero f = true) by (rewrite term_idx; now apply N.eqb_eq).
      destruct (is_one f); [disc|]. destruct (is_zero f); [disc|discriminate Ht].
    - destruct k as [|[|[|k]]]; try lia.
      assert (T0 : Term L k n) by (apply IH; lia). assert (T1 : Term L (S k) n) by (apply IH; lia). assert (T2 : Term L (S (S k)) n) by (apply IH; lia).
      destruct (top_one s HI) as [To Tz].
      rewrite ite_step. destruct (ite_action s f g h) as [r|f1 g1 h1|f1 g1 h1|] eqn:A.
      + disc.
      + (* standard triple, then possibly one swap *)
        assert (Hfn : idx f <> 1).
        { unfold ite_action in A. destruct (is_one f) eqn:C1; [discriminate|]. destruct (is_zero f) eqn:C2; [discriminate|]. exact (nonterm_of _ C1 C2). }
        destruct (rewrite_args L s f g h tf tg th f1 g1 h1 HI Vf Vg Vh Lf Lg Lh (or_introl A)) as (t1 & t2 & t3 & V1 & V2 & V3 & L1 & L2 & L3 & Hm1).
        pose proof (std_stable s f g h f1 g1 h1 To Tz Hfn A) as Hst.
        rewrite ite_step. destruct (ite_action s f1 g1 h1) as [r|f2 g2 h2|f2 g2 h2|] eqn:A1; try contradiction.
        * disc.
        * assert (Hf1n : idx f1 <> 1).
          { unfold ite_action in A1. destruct (is_one f1) eqn:C1; [discriminate|]. destruct (is_zero f1) eqn:C2; [discriminate|]. exact (nonterm_of _ C1 C2). }
          destruct (rewrite_args L s f1 g1 h1 t1 t2 t3 f2 g2 h2 HI V1 V2 V3 L1 L2 L3 (or_intror A1)) as (u1 & u2 & u3 & U1 & U2 & U3 & M1 & M2 & M3 & Hm2).
          apply (stable_call L n k s f2 g2 h2 u1 u2 u3 HI HC U1 U2 U3 M1 M2 M3); [lia|exact T0|].
          exact (swap_stable s f1 g1 h1 f2 g2 h2 To Tz Hf1n (swap_pre s g1 t2 HI V2) (swap_pre s h1 t3 HI V3) (swap_pre s f1 t1 HI V1 Hf1n) A1).
        * apply (expand_term L (S k) s f1 g1 h1 t1 t2 t3 n HI HC V1 V2 V3 L1 L2 L3 (expand_nonterm s f1 g1 h1 A1)); [lia|exact T1].
      + (* swap: the callee returns or expands *)
        assert (Hfn : idx f <> 1).
        { unfold ite_action in A. destruct (is_one f) eqn:C1; [discriminate|]. destruct (is_zero f) eqn:C2; [discriminate|]. exact (nonterm_of _ C1 C2). }
        destruct (rewrite_args L s f g h tf tg th f1 g1 h1 HI Vf Vg Vh Lf Lg Lh (or_intror A)) as (t1 & t2 & t3 & V1 & V2 & V3 & L1 & L2 & L3 & Hm1).
        apply (stable_call L n (S k) s f1 g1 h1 t1 t2 t3 HI HC V1 V2 V3 L1 L2 L3); [lia|exact T1|].
        exact (swap_stable s f g h f1 g1 h1 To Tz Hfn (swap_pre s g tg HI Vg) (swap_pre s h th HI Vh) (swap_pre s f tf HI Vf Hfn) A).
      + exact (expand_term L (S (S k)) s f g h tf tg th n HI HC Vf Vg Vh Lf Lg Lh (expand_nonterm s f g h A) Hmu T2).
  Qed.
  Print Assumptions ite_terminates.

  (* ---------- above the bound the fuel is immaterial: one unit less gives the same result ---------- *)
  (* (with `ite_S`, FuelMono.v: beyond the bound a result -- and hence also a failure -- does not depend on the fuel at all,
     so a None there is never an out-of-fuel artefact; unlike `Stops`, this is informative for a finite table too) *)
  Definition Down (L : N) (k : nat) (bound : nat) : Prop :=
    forall s a b c ta tb tc r, Inv s -> CInv s -> V s a ta -> V s b tb -> V s c tc ->
      allle L ta -> allle L tb -> allle L tc -> (mu L ta tb tc <= bound)%nat ->
      ite (S k) s a b c = Some r -> ite k s a b c = Some r.

  Lemma expand_down L k s f g h tf tg th n r : Inv s -> CInv s -> V s f tf -> V s g tg -> V s h th ->
    allle L tf -> allle L tg -> allle L th -> idx f <> 1 -> (mu L tf tg th <= S n)%nat -> Down L k n ->
    expand_code (S k) s f g h = Some r -> expand_code k s f g h = Some r.
  Proof.
    intros HI HC Vf Vg Vh Lf Lg Lh Hf Hmu HD.
    assert (Core : forall f1 g2 h2 (nn : bool) t2 t3, V s f1 tf -> V s g2 t2 -> V s h2 t3 -> allle L t2 -> allle L t3 ->
        idx f1 <> 1 -> mtop (top s f1) (top s g2) (top s h2) = mtop (top s f) (top s g) (top s h) ->
        mu L tf t2 t3 = mu L tf tg th ->
        match cget s (KIte f1 g2 h2) with
        | Some r0 => Some (s, if nn then rneg r0 else r0)
        | None =>
          let m := mtop (top s f) (top s g) (top s h) in
          let '(f0, f1') := top_cofactors s f1 m in
          let '(g0, g1') := top_cofactors s g2 m in
          let '(h0, h1') := top_cofactors s h2 m in
          match ite (S k) s f0 g0 h0 with None => None | Some (s1, e) =>
          match ite (S k) s1 f1' g1' h1' with None => None | Some (s2, t) =>
          match mk_node s2 m e t with None => None | Some (s3, r0) =>
            Some (cput s3 (KIte f1 g2 h2) r0, if nn then rneg r0 else r0) end end end
        end = Some r ->
        match cget s (KIte f1 g2 h2) with
        | Some r0 => Some (s, if nn then rneg r0 else r0)
        | None =>
          let m := mtop (top s f) (top s g) (top s h) in
          let '(f0, f1') := top_cofactors s f1 m in
          let '(g0, g1') := top_cofactors s g2 m in
          let '(h0, h1') := top_cofactors s h2 m in
          match ite k s f0 g0 h0 with None => None | Some (s1, e) =>
          match ite k s1 f1' g1' h1' with None => None | Some (s2, t) =>
          match mk_node s2 m e t with None => None | Some (s3, r0) =>
            Some (cput s3 (KIte f1 g2 h2) r0, if nn then rneg r0 else r0) end end end
        end = Some r).
    { intros f1 g2 h2 nn t2 t3 V1 V2 V3 L2 L3 Hf1 Em Emu.
      destruct (cget s (KIte f1 g2 h2)); [auto|].
      destruct (mtop_is_minlev L s f1 g2 h2 tf t2 t3 HI V1 V2 V3 Hf1 Lf L2 L3) as [Emin HmL]. rewrite Em in Emin, HmL.
      destruct (mtop_ok s f1 g2 h2 tf t2 t3 HI V1 V2 V3 Hf1) as (Hm0 & Hm1 & Hm2 & Hm3). rewrite Em in *.
      set (m := mtop (top s f) (top s g) (top s h)) in *. cbv zeta.
      destruct (top_cofactors s f1 m) as [f0 f1'] eqn:T1. destruct (top_cofactors s g2 m) as [g0 g1'] eqn:T2. destruct (top_cofactors s h2 m) as [h0 h1'] eqn:T3.
      destruct (tc_shape s f1 m tf f0 f1' HI V1 Hm1 T1) as (a0 & a1 & Va0 & Va1 & Aa0 & Aa1 & Sa).
      destruct (tc_shape s g2 m t2 g0 g1' HI V2 Hm2 T2) as (b0 & b1 & Vb0 & Vb1 & Ab0 & Ab1 & Sb).
      destruct (tc_shape s h2 m t3 h0 h1' HI V3 Hm3 T3) as (c0 & c1 & Vc0 & Vc1 & Ac0 & Ac1 & Sc).
      destruct (lev_child L m tf a0 a1 Lf HmL Aa0 Aa1 Sa) as (La0 & La1 & Ea0 & Ea1).
      destruct (lev_child L m t2 b0 b1 L2 HmL Ab0 Ab1 Sb) as (Lb0 & Lb1 & Eb0 & Eb1).
      destruct (lev_child L m t3 c0 c1 L3 HmL Ac0 Ac1 Sc) as (Lc0 & Lc1 & Ec0 & Ec1).
      assert (Hmu0 : (mu L a0 b0 c0 <= n)%nat) by (unfold mu in *; rewrite <- Emu in Hmu; rewrite <- Emin in Hmu; lia).
      assert (Hmu1 : (mu L a1 b1 c1 <= n)%nat) by (unfold mu in *; rewrite <- Emu in Hmu; rewrite <- Emin in Hmu; lia).
      destruct (ite (S k) s f0 g0 h0) as [[s1 e]|] eqn:I1; [|discriminate].
      rewrite (HD s f0 g0 h0 a0 b0 c0 (s1, e) HI HC Va0 Vb0 Vc0 La0 Lb0 Lc0 Hmu0 I1).
      destruct (ite_ok _ _ _ _ _ _ _ _ _ _ HI HC I1 Va0 Vb0 Vc0) as (HI1 & HC1 & E1 & _).
      destruct (ite (S k) s1 f1' g1' h1') as [[s2 t]|] eqn:I2; [|discriminate].
      rewrite (HD s1 f1' g1' h1' a1 b1 c1 (s2, t) HI1 HC1 (V_ext _ _ _ _ E1 Va1) (V_ext _ _ _ _ E1 Vb1) (V_ext _ _ _ _ E1 Vc1) La1 Lb1 Lc1 Hmu1 I2).
      auto. }
    unfold expand_code.
    change (if top s h =? 0 then if top s g =? 0 then top s f else N.min (top s f) (top s g)
            else N.min (if top s g =? 0 then top s f else N.min (top s f) (top s g)) (top s h))
      with (mtop (top s f) (top s g) (top s h)).
    assert (Tn : forall x, top s (rneg x) = top s x) by reflexivity.
    assert (In : forall x, idx (rneg x) = idx x) by reflexivity.
    assert (Msw : mu L tf th tg = mu L tf tg th) by (unfold mu; f_equal; lia).
    destruct (neg f) eqn:Nf; [destruct (neg h) eqn:Nh|destruct (neg g) eqn:Ng].
    - apply (Core (rneg f) (rneg h) (rneg g) true th tg); auto using V_neg. rewrite !Tn. apply mtop_comm.
    - apply (Core (rneg f) h g false th tg); auto using V_neg. rewrite !Tn. apply mtop_comm.
    - apply (Core f (rneg g) (rneg h) true tg th); auto using V_neg.
    - apply (Core f g h false tg th); auto.
  Qed.

  Lemma stable_call_down L n k s f g h tf tg th r : Inv s -> CInv s -> V s f tf -> V s g tg -> V s h th ->
    allle L tf -> allle L tg -> allle L th -> (mu L tf tg th <= S n)%nat -> Down L k n ->
    match ite_action s f g h with ARet _ | AExpand => True | _ => False end ->
    ite (S (S k)) s f g h = Some r -> ite (S k) s f g h = Some r.
  Proof.
    intros HI HC Vf Vg Vh Lf Lg Lh Hmu HD Hact. rewrite !ite_step.
    destruct (ite_action s f g h) eqn:A; try contradiction; [auto|].
    exact (expand_down L k s f g h tf tg th n r HI HC Vf Vg Vh Lf Lg Lh (expand_nonterm s f g h A) Hmu HD).
  Qed.

  Theorem ite_down L : forall n k, (3 * n + 3 <= k)%nat -> Down L k n.
  Proof.
    induction n as [|n IH]; intros k Hk s f g h tf tg th r HI HC Vf Vg Vh Lf Lg Lh Hmu.
    - destruct k as [|k]; [lia|]. cbn [ite].
      assert (tf = Leaf).
      { destruct tf as [|v ? ? ?]; [reflexivity|exfalso]. destruct Lf as (Hv & _). unfold mu in Hmu. cbn [lev] in Hmu. lia. }
      subst tf. destruct (top_leaf _ _ HI Vf) as [_ Ei].
      assert (Ht : is_one f || is_zero f = true) by (rewrite term_idx; now apply N.eqb_eq).
      destruct (is_one f); [auto|]. destruct (is_zero f); [auto|discriminate Ht].
    - destruct k as [|[|[|k]]]; try lia.
      assert (T0 : Down L k n) by (apply IH; lia). assert (T1 : Down L (S k) n) by (apply IH; lia). assert (T2 : Down L (S (S k)) n) by (apply IH; lia).
      destruct (top_one s HI) as [To Tz].
      rewrite (ite_step (S (S (S k)))), (ite_step (S (S k))). destruct (ite_action s f g h) as [r0|f1 g1 h1|f1 g1 h1|] eqn:A.
      + auto.
      + assert (Hfn : idx f <> 1).
        { unfold ite_action in A. destruct (is_one f) eqn:C1; [discriminate|]. destruct (is_zero f) eqn:C2; [discriminate|]. exact (nonterm_of _ C1 C2). }
        destruct (rewrite_args L s f g h tf tg th f1 g1 h1 HI Vf Vg Vh Lf Lg Lh (or_introl A)) as (t1 & t2 & t3 & V1 & V2 & V3 & L1 & L2 & L3 & Hm1).
        pose proof (std_stable s f g h f1 g1 h1 To Tz Hfn A) as Hst.
        rewrite (ite_step (S (S k))), (ite_step (S k)). destruct (ite_action s f1 g1 h1) as [r0|f2 g2 h2|f2 g2 h2|] eqn:A1; try contradiction.
        * auto.
        * assert (Hf1n : idx f1 <> 1).
          { unfold ite_action in A1. destruct (is_one f1) eqn:C1; [discriminate|]. destruct (is_zero f1) eqn:C2; [discriminate|]. exact (nonterm_of _ C1 C2). }
          destruct (rewrite_args L s f1 g1 h1 t1 t2 t3 f2 g2 h2 HI V1 V2 V3 L1 L2 L3 (or_intror A1)) as (u1 & u2 & u3 & U1 & U2 & U3 & M1 & M2 & M3 & Hm2).
          apply (stable_call_down L n k s f2 g2 h2 u1 u2 u3 r HI HC U1 U2 U3 M1 M2 M3); [lia|exact T0|].
          exact (swap_stable s f1 g1 h1 f2 g2 h2 To Tz Hf1n (swap_pre s g1 t2 HI V2) (swap_pre s h1 t3 HI V3) (swap_pre s f1 t1 HI V1 Hf1n) A1).
        * apply (expand_down L (S k) s f1 g1 h1 t1 t2 t3 n r HI HC V1 V2 V3 L1 L2 L3 (expand_nonterm s f1 g1 h1 A1)); [lia|exact T1].
      + assert (Hfn : idx f <> 1).
        { unfold ite_action in A. destruct (is_one f) eqn:C1; [discriminate|]. destruct (is_zero f) eqn:C2; [discriminate|]. exact (nonterm_of _ C1 C2). }
        destruct (rewrite_args L s f g h tf tg th f1 g1 h1 HI Vf Vg Vh Lf Lg Lh (or_intror A)) as (t1 & t2 & t3 & V1 & V2 & V3 & L1 & L2 & L3 & Hm1).
        apply (stable_call_down L n (S k) s f1 g1 h1 t1 t2 t3 r HI HC V1 V2 V3 L1 L2 L3); [lia|exact T1|].
        exact (swap_stable s f g h f1 g1 h1 To Tz Hfn (swap_pre s g tg HI Vg) (swap_pre s h th HI Vh) (swap_pre s f tf HI Vf Hfn) A).
      + exact (expand_down L (S (S k)) s f g h tf tg th n r HI HC Vf Vg Vh Lf Lg Lh (expand_nonterm s f g h A) Hmu T2).
  Qed.
  Print Assumptions ite_down.

  (* the special case of a store that never fills: plain termination *)
  Corollary ite_terminates_total L n k : (forall s nd, put s nd <> None) -> (3 * n + 3 <= k)%nat ->
    forall s a b c ta tb tc, Inv s -> CInv s -> V s a ta -> V s b tb -> V s c tc ->
      allle L ta -> allle L tb -> allle L tc -> (mu L ta tb tc <= n)%nat -> ite k s a b c <> None.
  Proof.
    intros Hp Hk s a b c ta tb tc HI HC Va Vb Vc La Lb Lc Hmu Hn.
    destruct (ite_terminates L n k Hk s a b c ta tb tc HI HC Va Vb Vc La Lb Lc Hmu Hn) as (s' & nd & _ & _ & Hf).
    exact (Hp s' nd Hf).
  Qed.
  (* the measure never exceeds the number of variable levels *)
  Lemma mu_le L a b c : (mu L a b c <= N.to_nat (L + 1))%nat.
  Proof. unfold mu. lia. Qed.
  (* every tree has a level bound *)
  Fixpoint maxvar (t : tree) : N := match t with Leaf => 0 | Nd v _ l h => N.max v (N.max (maxvar l) (maxvar h)) end.
  Lemma allle_mono L L' t : L <= L' -> allle L t -> allle L' t.
  Proof. intro H. induction t as [|v ln l IHl h IHh]; cbn; [auto|]. intros (A & B & C). splits; auto; lia. Qed.
  Lemma allle_maxvar t : allle (maxvar t) t.
  Proof.
    induction t as [|v ln l IHl h IHh]; cbn [allle maxvar]; [exact I|]. splits; [lia| |].
    - eapply allle_mono; [|exact IHl]. lia.
    - eapply allle_mono; [|exact IHh]. lia.
  Qed.

  (* ---------- C12: ite_constant always returns (it allocates nothing, so nothing can stop it) ---------- *)
  Theorem itec_terminates L : forall n k, (n + 1 <= k)%nat ->
    forall s f g h tf tg th, Inv s -> V s f tf -> V s g tg -> V s h th -> allle L tf -> allle L tg -> allle L th ->
    (mu L tf tg th <= n)%nat -> itec k s f g h <> None.
  Proof.
    induction n as [|n IH]; intros k Hk s f g h tf tg th HI Vf Vg Vh Lf Lg Lh Hmu; (destruct k as [|k]; [lia|]); cbn [itec].
    all: destruct (is_one f) eqn:C1; [discriminate|]; destruct (is_zero f) eqn:C2; [discriminate|].
    all: repeat match goal with |- (if ?c then _ else _) <> None => destruct c; [discriminate|] end.
    all: destruct (cget s (KIte f g h)); [discriminate|].
    all: pose proof (nonterm_of _ C1 C2) as Hfn.
    all: change (if top s h =? 0 then if top s g =? 0 then top s f else N.min (top s f) (top s g)
            else N.min (if top s g =? 0 then top s f else N.min (top s f) (top s g)) (top s h))
      with (mtop (top s f) (top s g) (top s h)).
    all: destruct (mtop_is_minlev L s f g h tf tg th HI Vf Vg Vh Hfn Lf Lg Lh) as [Emin HmL].
    - exfalso. unfold mu in Hmu. rewrite <- Emin in Hmu. lia.
    - destruct (mtop_ok s f g h tf tg th HI Vf Vg Vh Hfn) as (Hm0 & Hm1 & Hm2 & Hm3).
      set (m := mtop (top s f) (top s g) (top s h)) in *.
      destruct (top_cofactors s f m) as [f0 f1] eqn:T1. destruct (top_cofactors s g m) as [g0 g1] eqn:T2. destruct (top_cofactors s h m) as [h0 h1] eqn:T3.
      destruct (tc_shape s f m tf f0 f1 HI Vf Hm1 T1) as (a0 & a1 & Va0 & Va1 & Aa0 & Aa1 & Sa).
      destruct (tc_shape s g m tg g0 g1 HI Vg Hm2 T2) as (b0 & b1 & Vb0 & Vb1 & Ab0 & Ab1 & Sb).
      destruct (tc_shape s h m th h0 h1 HI Vh Hm3 T3) as (c0 & c1 & Vc0 & Vc1 & Ac0 & Ac1 & Sc).
      destruct (lev_child L m tf a0 a1 Lf HmL Aa0 Aa1 Sa) as (La0 & La1 & Ea0 & Ea1).
      destruct (lev_child L m tg b0 b1 Lg HmL Ab0 Ab1 Sb) as (Lb0 & Lb1 & Eb0 & Eb1).
      destruct (lev_child L m th c0 c1 Lh HmL Ac0 Ac1 Sc) as (Lc0 & Lc1 & Ec0 & Ec1).
      assert (Hmu0 : (mu L a0 b0 c0 <= n)%nat) by (unfold mu in *; rewrite <- Emin in Hmu; lia).
      assert (Hmu1 : (mu L a1 b1 c1 <= n)%nat) by (unfold mu in *; rewrite <- Emin in Hmu; lia).
      pose proof (IH k ltac:(lia) s f1 g1 h1 a1 b1 c1 HI Va1 Vb1 Vc1 La1 Lb1 Lc1 Hmu1) as H1.
      pose proof (IH k ltac:(lia) s f0 g0 h0 a0 b0 c0 HI Va0 Vb0 Vc0 La0 Lb0 Lc0 Hmu0) as H0.
      destruct (itec k s f1 g1 h1) as [[t|]|]; [|discriminate|contradiction].
      destruct (itec k s f0 g0 h0) as [e|]; [|contradiction]. destruct (obool_eqb e (Some t)); discriminate.
  Qed.
  Print Assumptions itec_terminates.
End Term.
