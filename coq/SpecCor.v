(* Corollaries of the executable specifications of constrain and restrict that the properties C10 / C11 name explicitly. *)
From Coq Require Import Arith NArith Bool Lia List.
Require Import Canon SemTk BddBase BddCof2.
Import ListNotations.
Local Open Scope N_scope.

Lemma unsat_const_true vs e : unsat vs (fun _ => true) e = false.
Proof. apply unsat_false; [intros a b _; reflexivity|]. exists e. split; reflexivity. Qed.

(* constrain(f,1) = f ; constrain(f,f) = 1 ; constrain(f, NOT f) = 0 (for f not false / not true on the cube of x) *)
Theorem constrain_true vs (F : bfun) x : ext F -> NoDup vs -> constrain_spec vs F (fun _ => true) x = F x.
Proof.
  intros HF Hnd. unfold constrain_spec. rewrite unsat_const_true. apply HF. apply proj_fix; [intros a b _; reflexivity|reflexivity].
Qed.
Theorem constrain_self vs (F : bfun) x : ext F -> NoDup vs -> unsat vs F x = false -> constrain_spec vs F F x = true.
Proof. intros HF Hnd Hu. unfold constrain_spec. rewrite Hu. apply proj_in; assumption. Qed.
Theorem constrain_neg_self vs (F : bfun) x : ext F -> NoDup vs -> unsat vs (fun a => negb (F a)) x = false ->
  constrain_spec vs F (fun a => negb (F a)) x = false.
Proof.
  intros HF Hnd Hu. unfold constrain_spec. rewrite Hu.
  assert (HG : ext (fun a => negb (F a))) by (intros a b E; f_equal; apply HF; exact E).
  pose proof (proj_in vs _ x HG Hnd Hu) as H. cbn in H. now destruct (F (proj vs (fun a => negb (F a)) x)).
Qed.

(* a cube: the conjunction of literals over distinct variables *)
Definition cubef (lits : list (N * bool)) : bfun := fun e => forallb (fun l => Bool.eqb (e (fst l)) (snd l)) lits.
Lemma cubef_ext lits : ext (cubef lits).
Proof. intros a b E. unfold cubef. induction lits as [|l r IH]; cbn [forallb]; [reflexivity|]. now rewrite (E (fst l)), IH. Qed.
Lemma vget_in lits v b : vget lits v = Some b -> In (v, b) lits.
Proof.
  induction lits as [|[j c] r IH]; cbn [vget]; [discriminate|]. destruct (N.eqb_spec v j) as [->|Hne].
  - intro H. injection H as ->. left. reflexivity.
  - intro H. right. auto.
Qed.
Lemma vget_nodup lits v b : NoDup (map fst lits) -> In (v, b) lits -> vget lits v = Some b.
Proof.
  induction lits as [|[j c] r IH]; intros Hnd Hin; [destruct Hin|]. cbn [vget]. cbn [map fst] in Hnd. inversion Hnd as [|? ? Hn Hnd']; subst.
  destruct Hin as [E|Hin].
  - injection E as -> ->. now rewrite N.eqb_refl.
  - destruct (N.eqb_spec v j) as [->|Hne]; [|auto]. exfalso. apply Hn. apply in_map_iff. exists (j, b). split; [reflexivity|exact Hin].
Qed.
Lemma vget_none lits v : ~ In v (map fst lits) -> vget lits v = None.
Proof.
  induction lits as [|[j c] r IH]; intro H; [reflexivity|]. cbn [vget]. cbn [map fst In] in H.
  destruct (N.eqb_spec v j) as [->|Hne]; [exfalso; apply H; left; reflexivity|]. apply IH. intro Hin. apply H. right. exact Hin.
Qed.
Lemma cubef_override lits x : NoDup (map fst lits) -> cubef lits (override x lits) = true.
Proof.
  intro Hnd. unfold cubef. apply forallb_forall. intros [v b] Hin. cbn [fst snd]. unfold override.
  rewrite (vget_nodup lits v b Hnd Hin). apply eqb_reflx.
Qed.
Lemma cubef_vget lits e v b : cubef lits e = true -> vget lits v = Some b -> e v = b.
Proof.
  intros Hc Hv. unfold cubef in Hc. rewrite forallb_forall in Hc. specialize (Hc (v, b) (vget_in _ _ _ Hv)). cbn in Hc. now apply eqb_prop in Hc.
Qed.

(* constrain by a cube is the plain cofactor *)
Theorem constrain_cube vs (F : bfun) lits x : ext F -> NoDup vs -> NoDup (map fst lits) -> (forall v, In v (map fst lits) -> In v vs) ->
  constrain_spec vs F (cubef lits) x = F (override x lits).
Proof.
  intros HF Hnd Hnl Hsub.
  assert (Hout : forall w, ~ In w vs -> override x lits w = x w).
  { intros w Hw. unfold override. rewrite vget_none; [reflexivity|]. intro Hin. apply Hw. apply Hsub. exact Hin. }
  assert (Hu : unsat vs (cubef lits) x = false).
  { apply unsat_false; [apply cubef_ext|]. exists (override x lits). split; [exact Hout|apply cubef_override; exact Hnl]. }
  unfold constrain_spec. rewrite Hu. apply HF. intro w.
  pose proof (proj_in vs _ x (cubef_ext lits) Hnd Hu) as Hin.
  destruct (in_dec N.eq_dec w vs) as [Hw|Hw]; [|rewrite proj_out by assumption; symmetry; apply Hout; assumption].
  destruct (proj_closest vs (cubef lits) x (cubef_ext lits) Hnd Hu (override x lits) (cubef_override lits x Hnl) Hout) as [Hall|(pre & v & post & _ & _ & Hne & Hxv)].
  - apply Hall. exact Hw.
  - exfalso. apply Hne. unfold override at 1. destruct (vget lits v) as [b|] eqn:Hv.
    + exact (cubef_vget lits _ v b Hin Hv).
    + exact Hxv.
Qed.

(* ---------------- restrict ---------------- *)
Theorem restrict_true vs (F : bfun) e : ext F -> restrict_spec vs F (fun _ => true) e = F e.
Proof.
  intro HF. unfold restrict_spec. rewrite unsat_const_true. apply rspec_care; [exact HF|intros a b _; reflexivity|reflexivity].
Qed.
Theorem restrict_zero_when_g_implies_not_f vs (F G : bfun) e : ext F -> ext G -> NoDup vs ->
  (forall a, (forall w, ~ In w vs -> a w = e w) -> G a = true -> F a = false) -> unsat vs G e = false ->
  restrict_spec vs F G e = false.
Proof.
  intros HF HG Hnd Himp Hu. unfold restrict_spec. rewrite Hu.
  assert (HN : ext (fun a => negb (F a))) by (intros a b E; f_equal; apply HF; exact E).
  assert (H : rspec vs (fun a => negb (F a)) G e = true).
  { apply rspec_imp; auto. intros a Ha Hg. rewrite (Himp a Ha Hg). reflexivity. }
  rewrite rspec_neg in H. now destruct (rspec vs F G e).
Qed.

Lemma forallb_forall_eq {A} (p q : A -> bool) l : (forall x, In x l -> p x = q x) -> forallb p l = forallb q l.
Proof. induction l as [|a l IH]; intro H; cbn [forallb]; [reflexivity|]. rewrite (H a) by (left; reflexivity). f_equal. apply IH. intros; apply H; right; assumption. Qed.

(* restrict by a cube is the plain cofactor as well *)
Definition remv (v : N) (lits : list (N * bool)) : list (N * bool) := filter (fun l => negb (fst l =? v)) lits.
Lemma vget_remv_other v lits w : w <> v -> vget (remv v lits) w = vget lits w.
Proof.
  intro Hw. induction lits as [|[j c] r IH]; [reflexivity|]. cbn [remv filter fst]. destruct (N.eqb_spec j v) as [->|Hj]; cbn [negb vget].
  - fold (remv v r). rewrite IH. destruct (N.eqb_spec w v); [contradiction|reflexivity].
  - fold (remv v r). now rewrite IH.
Qed.
Lemma vget_remv_same v lits : vget (remv v lits) v = None.
Proof.
  induction lits as [|[j c] r IH]; [reflexivity|]. cbn [remv filter fst]. destruct (N.eqb_spec j v) as [->|Hj]; cbn [negb vget]; fold (remv v r); [exact IH|].
  destruct (N.eqb_spec v j); [congruence|exact IH].
Qed.
Lemma remv_fst_in v lits w : In w (map fst (remv v lits)) -> In w (map fst lits) /\ w <> v.
Proof.
  intro H. apply in_map_iff in H. destruct H as ([j c] & <- & Hin). apply filter_In in Hin. destruct Hin as [Hin Hne]. cbn [fst] in *.
  split; [apply in_map_iff; exists (j, c); auto|]. destruct (N.eqb_spec j v); [discriminate|assumption].
Qed.
Lemma remv_nodup v lits : NoDup (map fst lits) -> NoDup (map fst (remv v lits)).
Proof.
  induction lits as [|[j c] r IH]; intro H; [constructor|]. cbn [map fst] in H. inversion H as [|? ? Hn Hnd]; subst.
  cbn [remv filter fst]. destruct (N.eqb_spec j v); cbn [negb]; fold (remv v r); [auto|]. cbn [map fst]. constructor; [|auto].
  intro Hin. apply remv_fst_in in Hin. tauto.
Qed.
Lemma cube_hit lits v b a : NoDup (map fst lits) -> vget lits v = Some b -> cubef lits (upd a v b) = cubef (remv v lits) a.
Proof.
  unfold cubef. induction lits as [|[j c] r IH]; intros Hnd Hv; [reflexivity|]. cbn [map fst] in Hnd. inversion Hnd as [|? ? Hn Hnd']; subst.
  cbn [vget] in Hv. cbn [forallb remv filter fst snd]. destruct (N.eqb_spec v j) as [->|Hne].
  - injection Hv as ->. rewrite N.eqb_refl. cbn [negb]. rewrite upd_eq, eqb_reflx. cbn [andb]. fold (remv j r).
    (* the remaining literals do not mention j *)
    assert (Hr : remv j r = r).
    { clear -Hn. induction r as [|[i d] r IH]; [reflexivity|]. cbn [remv filter fst]. cbn [map fst In] in Hn.
      destruct (N.eqb_spec i j) as [->|]; [exfalso; apply Hn; left; reflexivity|]. cbn [negb]. fold (remv j r). f_equal. apply IH. tauto. }
    rewrite Hr. apply forallb_forall_eq. intros [i d] Hin. cbn [fst snd]. rewrite upd_neq; [reflexivity|].
    intros ->. apply Hn. apply in_map_iff. exists (j, d). auto.
  - destruct (N.eqb_spec j v); [congruence|]. cbn [negb forallb fst snd]. fold (remv v r). rewrite upd_neq by congruence. f_equal. apply IH; assumption.
Qed.
Lemma cube_miss lits v b a : vget lits v = Some b -> cubef lits (upd a v (negb b)) = false.
Proof.
  intro Hv. unfold cubef. destruct (forallb _ lits) eqn:E; [|reflexivity]. exfalso.
  rewrite forallb_forall in E. specialize (E (v, b) (vget_in _ _ _ Hv)). cbn in E. rewrite upd_eq in E. now destruct b.
Qed.
Lemma vget_none_notin lits v : vget lits v = None -> forall j d, In (j, d) lits -> j <> v.
Proof.
  induction lits as [|[i e] r IH]; intros Hv j d Hin; [destruct Hin|]. cbn [vget] in Hv. destruct (N.eqb_spec v i) as [->|Hne]; [discriminate|].
  destruct Hin as [E|Hin]; [injection E as -> _; congruence|eauto].
Qed.
Lemma cube_none lits v c a : vget lits v = None -> cubef lits (upd a v c) = cubef lits a.
Proof.
  intro Hv. unfold cubef. apply forallb_forall_eq. intros [j d] Hin. cbn [fst snd]. rewrite upd_neq; [reflexivity|].
  exact (vget_none_notin lits v Hv j d Hin).
Qed.
Lemma override_remv e lits v b : vget lits v = Some b -> eqe (upd (override e (remv v lits)) v b) (override e lits).
Proof.
  intros Hv w. unfold upd, override. destruct (N.eqb_spec w v) as [->|Hne]; [now rewrite Hv|]. now rewrite vget_remv_other.
Qed.

Theorem rspec_cube : forall vs (F G : bfun) lits e, ext F -> ext G -> (forall a, G a = cubef lits a) -> NoDup vs -> NoDup (map fst lits) ->
  (forall v, In v (map fst lits) -> In v vs) -> rspec vs F G e = F (override e lits).
Proof.
  induction vs as [|v vs IH]; intros F G lits e HF HG HGc Hnd Hnl Hsub; cbn [rspec].
  - apply HF. intro w. unfold override. rewrite vget_none; [reflexivity|]. intro Hin. exact (Hsub w Hin).
  - inversion Hnd as [|? ? Hv Hnd']; subst.
    assert (HGx : forall c, ext (cof G v c)) by (intro c; apply ext_cof; exact HG).
    assert (HFx : forall c, ext (cof F v c)) by (intro c; apply ext_cof; exact HF).
    destruct (vget lits v) as [b|] eqn:Hget.
    + (* v is fixed by the cube *)
      set (lits' := remv v lits).
      assert (Hsub' : forall w, In w (map fst lits') -> In w vs).
      { intros w Hw. apply remv_fst_in in Hw. destruct Hw as [Hw Hne]. destruct (Hsub w Hw) as [E|]; [congruence|assumption]. }
      assert (Hhit : forall a, cof G v b a = cubef lits' a) by (intro a; unfold cof; rewrite HGc; apply cube_hit; assumption).
      assert (Hmiss : forall a, cof G v (negb b) a = false) by (intro a; unfold cof; rewrite HGc; apply cube_miss; assumption).
      assert (Um : unsat vs (cof G v (negb b)) e = true).
      { apply unsat_true; [apply HGx|]. intros a _. apply Hmiss. }
      assert (Uh : unsat vs (cof G v b) e = false).
      { apply unsat_false; [apply HGx|]. exists (override e lits'). split.
        - intros w Hw. unfold override. rewrite vget_none; [reflexivity|]. intro Hin. apply Hw. apply Hsub'. exact Hin.
        - rewrite Hhit. apply cubef_override. apply remv_nodup. exact Hnl. }
      assert (Res : rspec vs (cof F v b) (cof G v b) e = F (override e lits)).
      { rewrite (IH (cof F v b) (cof G v b) lits' e (HFx b) (HGx b) Hhit Hnd' (remv_nodup v lits Hnl) Hsub').
        unfold cof. apply HF. apply override_remv. exact Hget. }
      destruct b; cbn [negb] in *.
      * rewrite Uh, Um. exact Res.
      * rewrite Um. exact Res.
    + (* v is free in the cube *)
      assert (Hfree : forall c a, cof G v c a = cubef lits a) by (intros c a; unfold cof; rewrite HGc; apply cube_none; assumption).
      assert (Hsub' : forall w, In w (map fst lits) -> In w vs).
      { intros w Hw. destruct (Hsub w Hw) as [E|]; [subst w|assumption]. exfalso.
        apply in_map_iff in Hw. destruct Hw as ([j c] & Ej & Hin). cbn in Ej. subst j. rewrite (vget_nodup lits v c Hnl Hin) in Hget. discriminate. }
      assert (Hout : forall w, ~ In w vs -> override e lits w = e w).
      { intros w Hw. unfold override. rewrite vget_none; [reflexivity|]. intro Hin. apply Hw. apply Hsub'. exact Hin. }
      assert (Us : forall c, unsat vs (cof G v c) e = false).
      { intro c. apply unsat_false; [apply HGx|]. exists (override e lits). split; [exact Hout|]. rewrite Hfree. apply cubef_override. exact Hnl. }
      rewrite !Us.
      assert (Hself : forall c, override e lits v = c -> F (upd (override e lits) v c) = F (override e lits)).
      { intros c Hc. apply HF. intro w. unfold upd. destruct (N.eqb_spec w v) as [->|]; [now rewrite Hc|reflexivity]. }
      assert (Hev : override e lits v = e v) by (unfold override; now rewrite Hget).
      destruct (differ vs (cof F v false) (cof F v true) e) eqn:D.
      * destruct (e v) eqn:Ev.
        -- rewrite (IH (cof F v true) (cof G v true) lits e (HFx true) (HGx true) (Hfree true) Hnd' Hnl Hsub'). unfold cof. apply Hself. congruence.
        -- rewrite (IH (cof F v false) (cof G v false) lits e (HFx false) (HGx false) (Hfree false) Hnd' Hnl Hsub'). unfold cof. apply Hself. congruence.
      * rewrite (IH (cof F v false) (bor (cof G v false) (cof G v true)) lits e (HFx false) (ext_bor _ _ (HGx false) (HGx true))); auto.
        2:{ intro a. unfold bor. rewrite !Hfree. apply orb_diag. }
        rewrite differ_false in D by auto. specialize (D (override e lits) Hout). unfold cof in *.
        destruct (override e lits v) eqn:Ov; [rewrite D|]; apply Hself; reflexivity.
Qed.
Theorem restrict_cube vs (F : bfun) lits e : ext F -> NoDup vs -> NoDup (map fst lits) -> (forall v, In v (map fst lits) -> In v vs) ->
  restrict_spec vs F (cubef lits) e = F (override e lits).
Proof.
  intros HF Hnd Hnl Hsub. unfold restrict_spec.
  assert (Hu : unsat vs (cubef lits) e = false).
  { apply unsat_false; [apply cubef_ext|]. exists (override e lits). split; [|apply cubef_override; exact Hnl].
    intros w Hw. unfold override. rewrite vget_none; [reflexivity|]. intro Hin. apply Hw. apply Hsub. exact Hin. }
  rewrite Hu. apply rspec_cube; auto using cubef_ext.
Qed.
Print Assumptions restrict_cube.
Print Assumptions constrain_cube.

(* ---------------- restrict depends only on the variables f depends on ---------------- *)
(* G is supported in vs: its value is determined by the listed variables (the care set's diagram mentions only listed ones) *)
Definition supp_in (vs : list N) (G : bfun) : Prop := forall a b, (forall w, In w vs -> a w = b w) -> G a = G b.
Lemma supp_in_ext vs G : supp_in vs G -> ext G.
Proof. intros H a b E. apply H. intros w _. apply E. Qed.
Lemma supp_in_cof v vs G c : supp_in (v :: vs) G -> supp_in vs (cof G v c).
Proof.
  intros H a b E. unfold cof. apply H. intros w [<-|Hw]; [now rewrite !upd_eq|].
  unfold upd. destruct (N.eqb w v); [reflexivity|apply E; exact Hw].
Qed.
Lemma supp_in_bor vs G0 G1 : supp_in vs G0 -> supp_in vs G1 -> supp_in vs (bor G0 G1).
Proof. intros H0 H1 a b E. unfold bor. now rewrite (H0 a b E), (H1 a b E). Qed.
Lemma unsat_supp vs G e e' : supp_in vs G -> unsat vs G e = unsat vs G e'.
Proof.
  intro HS. pose proof (supp_in_ext vs G HS) as HG.
  assert (Dir : forall x y, unsat vs G x = true -> unsat vs G y = true).
  { intros x y Hx. rewrite unsat_true in * by exact HG. intros a Ha.
    rewrite <- (Hx (fun w => if in_dec N.eq_dec w vs then a w else x w)).
    - apply HS. intros w Hw. destruct (in_dec N.eq_dec w vs); [reflexivity|contradiction].
    - intros w Hw. destruct (in_dec N.eq_dec w vs); [contradiction|reflexivity]. }
  destruct (unsat vs G e) eqn:U, (unsat vs G e') eqn:U'; try reflexivity.
  - rewrite (Dir e e' U) in U'. discriminate.
  - rewrite (Dir e' e U') in U. discriminate.
Qed.
Lemma differ_upd_indep vs F1 F2 e w b : ext F1 -> ext F2 -> indep F1 w -> indep F2 w ->
  differ vs F1 F2 (upd e w b) = differ vs F1 F2 e.
Proof.
  intros H1 H2 I1 I2.
  assert (Dir : forall x y, (forall u, u <> w -> x u = y u) -> differ vs F1 F2 x = false -> differ vs F1 F2 y = false).
  { intros x y Hxy Hx. rewrite differ_false in * by assumption. intros a Ha.
    specialize (Hx (upd a w (if in_dec N.eq_dec w vs then a w else x w))).
    rewrite I1, I2 in Hx. apply Hx. intros u Hu. destruct (N.eq_dec u w) as [->|Hne].
    - rewrite upd_eq. destruct (in_dec N.eq_dec w vs); [contradiction|reflexivity].
    - rewrite upd_neq by assumption. rewrite Ha by assumption. symmetry. apply Hxy. exact Hne. }
  assert (Hsym : forall u, u <> w -> upd e w b u = e u) by (intros u Hu; apply upd_neq; exact Hu).
  destruct (differ vs F1 F2 (upd e w b)) eqn:D, (differ vs F1 F2 e) eqn:D'; try reflexivity.
  - rewrite (Dir e (upd e w b) (fun u Hu => eq_sym (Hsym u Hu)) D') in D. discriminate.
  - rewrite (Dir (upd e w b) e Hsym D) in D'. discriminate.
Qed.
Lemma indep_cof F v c w : indep F w -> ext F -> indep (cof F v c) w.
Proof.
  intros HI HF e b. unfold cof. destruct (N.eq_dec w v) as [->|Hne].
  - apply HF. intro u. unfold upd. destruct (N.eqb u v); reflexivity.
  - rewrite <- (HI (upd e v c) b). apply HF. intro u. unfold upd.
    destruct (N.eqb_spec u v) as [Euv|Nuv]; destruct (N.eqb_spec u w) as [Euw|Nuw]; try reflexivity. exfalso. apply Hne. congruence.
Qed.
Lemma differ_same vs (F1 F2 : bfun) e : (forall a, F1 a = F2 a) -> differ vs F1 F2 e = false.
Proof.
  intro H. unfold differ. destruct (existsb _ _) eqn:X; [|reflexivity]. apply existsb_exists in X. destruct X as (a & _ & Hx).
  rewrite H, xorb_nilpotent in Hx. discriminate.
Qed.

Theorem rspec_indep : forall vs (F G : bfun) w e b, ext F -> supp_in vs G -> NoDup vs -> indep F w ->
  rspec vs F G (upd e w b) = rspec vs F G e.
Proof.
  induction vs as [|v vs IH]; intros F G w e b HF HS Hnd HI; cbn [rspec]; [apply HI|].
  inversion Hnd as [|? ? Hv Hnd']; subst.
  assert (HSc : forall c, supp_in vs (cof G v c)) by (intro c; apply supp_in_cof; exact HS).
  assert (HFc : forall c, ext (cof F v c)) by (intro c; apply ext_cof; exact HF).
  assert (HIc : forall c, indep (cof F v c) w) by (intro c; apply indep_cof; assumption).
  rewrite (unsat_supp vs (cof G v true) (upd e w b) e (HSc true)), (unsat_supp vs (cof G v false) (upd e w b) e (HSc false)).
  rewrite (differ_upd_indep vs (cof F v false) (cof F v true) e w b (HFc false) (HFc true) (HIc false) (HIc true)).
  destruct (unsat vs (cof G v true) e); [apply IH; auto|].
  destruct (unsat vs (cof G v false) e); [apply IH; auto|].
  destruct (differ vs (cof F v false) (cof F v true) e) eqn:D.
  - destruct (N.eq_dec w v) as [->|Hne].
    + (* f does not depend on v: its two cofactors coincide, so this branch is not taken *)
      exfalso. rewrite differ_same in D; [discriminate|]. intro a. unfold cof. now rewrite !HI.
    + rewrite upd_neq by congruence. destruct (e v); apply IH; auto.
  - apply IH; auto. apply supp_in_bor; auto.
Qed.
Theorem restrict_support vs (F G : bfun) w : ext F -> supp_in vs G -> NoDup vs -> indep F w -> indep (restrict_spec vs F G) w.
Proof.
  intros HF HS Hnd HI e b. unfold restrict_spec. rewrite (unsat_supp vs G (upd e w b) e HS).
  destruct (unsat vs G e); [reflexivity|]. apply rspec_indep; assumption.
Qed.
Print Assumptions restrict_support.
