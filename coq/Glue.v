From Coq Require Import NArith Bool Lia List FinFun.
Require Import Canon SemTk TableProto BddBase BddIte BddReach.
Import ListNotations.
Local Open Scope N_scope.

(* The concrete manager state (unique table + direct-mapped operation cache) is an instance of the
   abstract store interface, for ANY node hash, key hash, bucket mask, cache mask and capacity. *)
Section Glue.
  Variable nhash : node -> N.
  Variable khash : key -> N.

  Definition node_eqb (a b : node) : bool :=
    N.eqb (var a) (var b) && ref_eqb (lo a) (lo b) && ref_eqb (hi a) (hi b).
  Lemma node_eqb_spec a b : reflect (a = b) (node_eqb a b).
  Proof.
    unfold node_eqb. destruct a as [v l h], b as [v' l' h']; cbn.
    destruct (N.eqb_spec v v'), (ref_eqb_spec l l'), (ref_eqb_spec h h'); cbn; constructor; congruence.
  Qed.
  Definition key_eqb (a b : key) : bool :=
    match a, b with
    | KIte f g h, KIte f' g' h' => ref_eqb f f' && ref_eqb g g' && ref_eqb h h'
    | KConstrain f g, KConstrain f' g' => ref_eqb f f' && ref_eqb g g'
    | KRestrict f g, KRestrict f' g' => ref_eqb f f' && ref_eqb g g'
    | _, _ => false
    end.
  Lemma key_eqb_spec a b : reflect (a = b) (key_eqb a b).
  Proof.
    destruct a, b; cbn; try (constructor; discriminate);
    repeat match goal with |- context[ref_eqb ?x ?y] => destruct (ref_eqb_spec x y) end; cbn; constructor; congruence.
  Qed.

  Definition pin (i : N) : bool := N.eqb i 1.        (* the terminal is allocated directly *)

  (* src/cache.rs: one optional entry per slot, slot = hash & mask *)
  Record cache := { cdata : tmap (option (key * ref)); cmask : N }.
  Definition cslot (c : cache) (k : key) := N.land (khash k) (cmask c).
  Definition cache_get (c : cache) (k : key) : option ref :=
    match tget (cdata c) (cslot c k) with
    | Some (k', v) => if key_eqb k' k then Some v else None
    | None => None
    end.
  Definition cache_put (c : cache) (k : key) (v : ref) : cache :=
    {| cdata := tset (cdata c) (cslot c k) (Some (k, v)); cmask := cmask c |}.

  (* sfuel: a unary bound for the chain walk, built once at creation (N.to_nat of the capacity per put would cost
     O(capacity) each time when the model is executed) *)
  Record state := { tbl : table node; opc : cache; sfuel : nat; peak : N }.
  (* peak: a ghost register, written by every successful put and read by nothing: the largest number of simultaneously
     stored nodes seen so far (C06: the invariant below ties the table's high-water mark to it) *)

  Definition ccell (s : state) (i : N) : option node :=
    if occ (tget (data (tbl s)) i) && (1 <? i) then Some (value (tget (data (tbl s)) i)) else None.
  Definition cput_node (s : state) (n : node) : option (state * N) :=
    match TableProto.put node node_eqb nhash (sfuel s) (tbl s) n with
    | Ok (t', i) => Some ({| tbl := t'; opc := opc s; sfuel := sfuel s; peak := N.max (peak s) (real_size t') |}, i)
    | _ => None
    end.
  Definition cTInv (s : state) : Prop :=
    AInv (tbl s) /\ TableProto.CInv node nhash pin (tbl s) /\ occupied (tbl s) 1 /\ (N.to_nat (cap (tbl s)) <= sfuel s)%nat /\
    Peak node (tbl s) (peak s).

  Instance concrete_ops : StoreOps := {|
    st := state; cell := ccell; put := cput_node;
    cget := fun s k => cache_get (opc s) k;
    cput := fun s k r => {| tbl := tbl s; opc := cache_put (opc s) k r; sfuel := sfuel s; peak := peak s |};
    TInv := cTInv |}.

  Lemma ccell_some s i n : ccell s i = Some n <-> occupied (tbl s) i /\ 1 < i /\ val (tbl s) i = n.
  Proof.
    unfold ccell, occupied, val. destruct (occ (tget (data (tbl s)) i)) eqn:O, (N.ltb_spec 1 i); cbn; split.
    - intro E; injection E as <-; auto.
    - intros (_ & _ & <-). reflexivity.
    - discriminate.
    - intros (_ & ? & _). lia.
    - discriminate.
    - intros (? & _). discriminate.
    - discriminate.
    - intros (? & _). discriminate.
  Qed.
  Lemma chained_iff s i : cTInv s -> (chained node pin (tbl s) i <-> occupied (tbl s) i /\ 1 < i).
  Proof.
    intros (HA & _ & _ & _). unfold chained, pin. split.
    - intros (Ho & H0 & Hp). apply N.eqb_neq in Hp. split; [assumption|lia].
    - intros (Ho & Hi). splits; auto; [lia|apply N.eqb_neq; lia].
  Qed.

  (* with the invariant, the only way `put` fails is the crate's "Storage is full" stop, never the fuel *)
  Lemma cput_none_full s n : cTInv s -> cput_node s n = None ->
    TableProto.put node node_eqb nhash (sfuel s) (tbl s) n = Full.
  Proof.
    intros (HA & HC & _ & HF & _) H. unfold cput_node in H.
    pose proof (put_no_fuel node node_eqb nhash pin (sfuel s) (tbl s) n HA HC HF) as Hnf.
    destruct (TableProto.put node node_eqb nhash (sfuel s) (tbl s) n) as [[t' i]| |]; [discriminate|reflexivity|contradiction].
  Qed.

  (* ... and then the table really is full: every cell 1 .. cap-1 is occupied and the high-water mark is at the end *)
  Lemma cput_none_storage_full s n : cTInv s -> cput_node s n = None -> storage_full node (tbl s).
  Proof.
    intros HT H. pose proof (cput_none_full s n HT H) as Hf. destruct HT as (HA & _).
    exact (put_full_storage node node_eqb nhash _ _ _ HA Hf).
  Qed.

  Instance concrete_ok : @StoreOK concrete_ops.
  Proof.
    constructor.
    - (* cell1 *) intros s _. unfold cell; cbn. unfold ccell. split; rewrite andb_false_r; reflexivity.
    - (* put_spec *)
      intros s n s' i HT Hp. cbn in Hp. unfold cput_node in Hp.
      destruct (TableProto.put node node_eqb nhash _ (tbl s) n) as [[t' j]| |] eqn:E; try discriminate.
      injection Hp as <- <-. destruct HT as (HA & HC & H1 & HF & HP).
      destruct (put_ok node node_eqb node_eqb_spec nhash pin _ _ _ _ _ HA HC E) as (HA' & HC' & Hv & Hch & Hnb & Hcap & Hcase).
      assert (Hj1 : 1 < j).
      { destruct Hch as (Ho & H0 & Hp). unfold pin in Hp. apply N.eqb_neq in Hp. lia. }
      assert (Hframe : forall k, k <> j -> ccell {| tbl := t'; opc := opc s; sfuel := sfuel s; peak := N.max (peak s) (real_size t') |} k = ccell s k).
      { intros k Hk. destruct Hcase as [[-> _]|(_ & _ & Hfr & _)]; [reflexivity|].
        destruct (Hfr k Hk) as [Ho Hv']. unfold ccell; cbn. unfold occupied, val in Ho, Hv'.
        rewrite Hv'. destruct (occ (tget (data t') k)) eqn:O1, (occ (tget (data (tbl s)) k)) eqn:O2; auto;
          [destruct Ho as [Ho _]; specialize (Ho eq_refl); discriminate|destruct Ho as [_ Ho]; specialize (Ho eq_refl); discriminate]. }
      assert (Hcellj : ccell {| tbl := t'; opc := opc s; sfuel := sfuel s; peak := N.max (peak s) (real_size t') |} j = Some n).
      { apply ccell_some; cbn. destruct Hch as (Ho & _). auto. }
      splits; auto.
      + (* TInv *) split; [exact HA'|]. split; [exact HC'|]. split; [|split; [cbn [tbl sfuel]; rewrite Hcap; exact HF|cbn [tbl peak]; exact (put_peak node node_eqb node_eqb_spec nhash pin _ _ _ _ _ _ HA HC E HP)]].
        destruct Hcase as [[-> _]|(_ & _ & Hfr & _)]; [exact H1|]. apply (Hfr 1); [lia|exact H1].
      + (* sext *) intros k nk Hk. change (ccell s k = Some nk) in Hk. change (ccell {| tbl := t'; opc := opc s; sfuel := sfuel s; peak := N.max (peak s) (real_size t') |} k = Some nk). destruct (N.eq_dec k j) as [->|Hne]; [|now rewrite Hframe].
        rewrite Hcellj. destruct Hcase as [[-> _]|(Hfree & _)].
        * rewrite <- Hk. symmetry. exact Hcellj.
        * apply ccell_some in Hk. destruct Hk as (Ho & _). contradiction.
      + lia.
    - (* uniq *)
      intros s i j n HT Hi Hj. cbn in Hi, Hj. apply ccell_some in Hi, Hj.
      destruct Hi as (Oi & Li & Vi), Hj as (Oj & Lj & Vj). destruct HT as (HA & HC & H1 & HF & HP).
      assert (HTs : cTInv s) by (unfold cTInv; auto).
      apply (c_uniq _ _ _ _ HC i j).
      + apply (chained_iff s _ HTs). split; assumption.
      + apply (chained_iff s _ HTs). split; assumption.
      + congruence.
    - (* cput_spec *)
      intros s k r HT. cbn. splits; auto.
      intros k' r'. unfold cache_get, cache_put; cbn. unfold cslot; cbn.
      destruct (N.eq_dec (N.land (khash k') (cmask (opc s))) (N.land (khash k) (cmask (opc s)))) as [E|E].
      + rewrite E, tget_set_same. destruct (key_eqb_spec k k') as [->|Hne]; [|discriminate].
        intro H. injection H as <-. right. auto.
      + rewrite tget_set_other by assumption. auto.
  Qed.

  (* ================= collect_garbage on the concrete manager ================= *)
  Definition bucket_list (t : table node) : list N := nrange (N.to_nat (nb t)) 0.
  Definition cache_clear (c : cache) : cache := {| cdata := tconst None; cmask := cmask c |}.
  Definition gc (fuel : nat) (s : state) (roots : list ref) : option state :=
    match @descendants concrete_ops fuel s roots with
    | None => None
    | Some vis =>
      match sweep_all node (fun i => memN i vis) fuel (tbl s) (bucket_list (tbl s)) with
      | Ok t' => Some {| tbl := t'; opc := cache_clear (opc s); sfuel := sfuel s; peak := peak s |}
      | _ => None
      end
    end.

  (* collect_garbage always completes: given fuel >= capacity for the sweep, it fails only if the marking traversal does *)
  Lemma gc_total fuel s roots vis : @Inv concrete_ops s -> (N.to_nat (cap (tbl s)) <= fuel)%nat ->
    @descendants concrete_ops fuel s roots = Some vis -> exists s', gc fuel s roots = Some s'.
  Proof.
    intros [(HA & HC & _) _] Hf Hd. unfold gc. rewrite Hd.
    destruct (sweep_total node nhash pin fuel (tbl s) (fun i => memN i vis) HA HC Hf) as (t' & E).
    unfold bucket_list. unfold bucket_range in E. rewrite E. eauto.
  Qed.

  (* the ghost register: a successful put records the running maximum of the live count; gc and cache writes keep it *)
  Lemma peak_put s n s' i : cput_node s n = Some (s', i) -> peak s' = N.max (peak s) (real_size (tbl s')).
  Proof.
    unfold cput_node. destruct (TableProto.put node node_eqb nhash (sfuel s) (tbl s) n) as [[t' j]| |]; try discriminate.
    intro H. injection H as <- <-. reflexivity.
  Qed.
  Lemma peak_gc fuel s roots s' : gc fuel s roots = Some s' -> peak s' = peak s.
  Proof.
    unfold gc. destruct (@descendants concrete_ops fuel s roots); [|discriminate].
    destruct (sweep_all _ _ _ _ _); try discriminate. intro H. injection H as <-. reflexivity.
  Qed.
  (* C06: in every state satisfying the manager invariant the high-water mark is that maximum *)
  Lemma high_water_is_peak s : cTInv s -> last_index (tbl s) = peak s /\ real_size (tbl s) <= peak s.
  Proof. intros (_ & _ & _ & _ & HP). exact HP. Qed.
  (* a put succeeds whenever one cell is still free *)
  Lemma cput_succeeds_when_room s n : cTInv s -> real_size (tbl s) + 1 < cap (tbl s) -> cput_node s n <> None.
  Proof.
    intros HT Hroom Hn. destruct (cput_none_storage_full s n HT Hn) as (H1 & H2 & _). lia.
  Qed.

  Lemma bucket_list_ok t : NoDup (bucket_list t) /\ (forall b, In b (bucket_list t) <-> b < nb t).
  Proof. unfold bucket_list. split; [apply nrange_nodup|]. intro b. rewrite nrange_in. lia. Qed.

  Theorem gc_ok fuel s roots s' : @Inv concrete_ops s -> (forall r, In r roots -> exists t, @V concrete_ops s r t) ->
    gc fuel s roots = Some s' ->
    @Inv concrete_ops s' /\ @CInv concrete_ops s' /\
    (forall k, cache_get (opc s') k = None) /\
    (forall r t, In r roots -> @V concrete_ops s r t -> @V concrete_ops s' r t) /\
    (forall i n, ccell s' i = Some n -> ccell s i = Some n) /\
    (forall vis, @descendants concrete_ops fuel s roots = Some vis ->
       forall r t, @V concrete_ops s r t -> idx r = 1 \/ memN (idx r) vis = true -> @V concrete_ops s' r t) /\
    (forall vis, @descendants concrete_ops fuel s roots = Some vis -> real_size (tbl s') = N.of_nat (length vis)).
  Proof.
    intros HI Hroots H. unfold gc in H.
    destruct (@descendants concrete_ops fuel s roots) as [vis|] eqn:Hd; [|discriminate].
    destruct (sweep_all _ _ _ _ _) as [t'| |] eqn:Hs; try discriminate. injection H as <-.
    pose proof HI as [(HA & HC & H1 & HF & HP) HN].
    assert (Hcl : @closed concrete_ops s) by (apply closed_of_inv; exact HI).
    assert (Hrok : forall r, In r roots -> @okidx concrete_ops s (idx r)).
    { intros r Hr. destruct (Hroots r Hr) as (t & (HR & _)). destruct t; [left; now apply Rep_leaf_inv in HR|right].
      apply Rep_nd_inv in HR. destruct HR as (_ & ? & ? & ? & _). eauto. }
    destruct (descendants_ok fuel s roots vis HI Hcl Hrok Hd) as [Hnd Hvis].
    set (alive := fun i => memN i vis) in *.
    destruct (bucket_list_ok (tbl s)) as [Hbnd Hbl].
    assert (HG : G node nhash pin alive (tbl s) t' (rev (bucket_list (tbl s)) ++ [])).
    { eapply sweep_all_G; eauto using G_init. - now rewrite app_nil_r. - intros b Hb; now apply Hbl. }
    destruct (G_final node nhash pin alive (tbl s) t' _ HA HC HG) as (HA' & HC' & Hv' & Ho' & Hnb' & Hcap').
    { intros b Hb. rewrite app_nil_r, <- in_rev. now apply Hbl. }
    set (s' := {| tbl := t'; opc := cache_clear (opc s); sfuel := sfuel s; peak := peak s |}).
    assert (Halive : forall i, alive i = true <-> (i = 1 \/ exists r, In r roots /\ @Reach concrete_ops s (idx r) i)).
    { intro i. unfold alive. rewrite memN_spec. apply Hvis. }
    assert (HTs : cTInv s) by (unfold cTInv; auto).
    assert (Hcell' : forall i n, ccell s' i = Some n <-> ccell s i = Some n /\ alive i = true).
    { intros i n. rewrite !ccell_some. cbn [tbl s']. rewrite Ho', Hv'. split.
      - intros ((Ho & Ha) & Hi & Hv). splits; auto. apply Ha. apply (chained_iff s i HTs). auto.
      - intros ((Ho & Hi & Hv) & Ha). splits; auto. }
    assert (Hclosed : forall i j, alive i = true -> @child concrete_ops s i j -> j = 1 \/ alive j = true).
    { intros i j Ha Hc. apply Halive in Ha. destruct (reach_closed s roots i j HI Ha Hc) as [->|Hr]; [left; reflexivity|right].
      apply Halive. right. exact Hr. }
    assert (HVr : forall r t, @V concrete_ops s r t -> idx r = 1 \/ alive (idx r) = true -> @V concrete_ops s' r t).
    { intros r t HV Ha. eapply (V_restrict s s' (fun i => alive i = true)); eauto.
      intros i n Hc Hai. apply Hcell'. auto. }
    assert (HT' : cTInv s').
    { unfold cTInv; cbn [tbl s' sfuel peak]. splits; auto; [|rewrite Hcap'; exact HF|exact (proj1 (G_peak node nhash pin alive (tbl s) t' _ (peak s) HG HA HP))]. apply Ho'. split; [exact H1|]. intros (_ & _ & Hp). discriminate. }
    assert (HI' : @Inv concrete_ops s').
    { split; [exact HT'|]. intros i n Hc. apply Hcell' in Hc. destruct Hc as [Hc Ha].
      destruct (HN i n Hc) as (t & Ht). exists t. apply HVr; auto. }
    assert (Hnone : forall k, cache_get (opc s') k = None).
    { intro k. unfold cache_get, s', cache_clear; cbn [opc cdata]. now rewrite tget_const. }
    splits; auto.
    - intros k r Hk. change (cache_get (opc s') k = Some r) in Hk. rewrite Hnone in Hk. discriminate.
    - intros r t Hr HV. apply HVr; auto. right. apply Halive. right. exists r. split; [exact Hr|constructor].
    - intros i n Hc. apply Hcell' in Hc. tauto.
    - intros vis' Hd' r t HV Ha. injection Hd' as <-. apply HVr; auto.
    - (* C06: exactly the reachable cells remain *)
      intros vis' Hd'. injection Hd' as <-. cbn [tbl s'].
      rewrite (a_count _ _ HA'). apply cnt_eq_length; [exact Hnd|]. intro j.
      assert (Hvis1 : In 1 vis) by (apply Hvis; left; reflexivity).
      split.
      + intro Hin. assert (Ha : alive j = true) by (unfold alive; now apply memN_spec).
        assert (Hoj : occupied (tbl s) j /\ 1 <= j).
        { apply Hvis in Hin. destruct Hin as [->|(r & Hr & Hreach)]; [split; [exact H1|lia]|].
          assert (Hok : @okidx concrete_ops s j).
          { assert (Hgen : forall a b, @Reach concrete_ops s a b -> @okidx concrete_ops s a -> @okidx concrete_ops s b).
            { intros a b Hab. induction Hab as [i|i j0 k Hc _ IHr]; [auto|]. intro Hi. apply IHr. eapply Hcl; eauto. }
            eapply Hgen; [exact Hreach|apply Hrok; exact Hr]. }
          destruct Hok as [->|(n & Hn)]; [split; [exact H1|lia]|]. apply ccell_some in Hn. destruct Hn as (? & ? & _). split; [assumption|lia]. }
        destruct Hoj as [Hoj Hj1]. assert (Hot : occupied t' j) by (apply Ho'; split; [exact Hoj|intros _; exact Ha]).
        split; [|exact Hot]. split; [exact Hj1|].
        destruct (N.le_gt_cases j (last_index t')) as [Hle|Hgt]; [lia|]. exfalso. eapply (a_above _ _ HA'); eauto.
      + intros [[Hj1 _] Hot]. apply Ho' in Hot. destruct Hot as [Hoj Hal].
        destruct (N.eq_dec j 1) as [->|Hne]; [exact Hvis1|].
        apply memN_spec. apply Hal. unfold chained, pin. splits; auto; [lia|apply N.eqb_neq; exact Hne].
  Qed.
  Print Assumptions gc_ok.
End Glue.
