From Coq Require Import Arith NArith Bool List Lia.
Require Import Canon SemTk TableProto BddBase BddIte BddSat Glue Hashes Machine Reachable OpSpecs CoqEval.
Import ListNotations.
Local Open Scope N_scope.

(* Non-vacuity of the hypotheses of the property theorems: concrete reachable states of the crate-sized manager
   (Bdd::default(): 2^20 cells, 2^16 buckets, 2^16 cache slots, the crate's own hash functions and memo tables) in which
   non-trivial handles are live, a collection has happened, freed slots were reused and the size cache is warm.
   The runs are evaluated by the kernel (vm_compute); `reachable` then follows from run_reachable. *)
Definition dflt_run (h : list hop) :=
  @mrun nhash khash memo_ref memo_dm memo_nref memo_refN 400 (@minit 65535 65535 65535 1048576) h.

Definition h_example : list hop :=
  [ HVar 1; HVar 2; HVar 3;                                   (* r0 r1 r2 *)
    HBin BAnd (0%nat, false) (1%nat, false);                  (* r3 = x1 & x2 *)
    HBin BXor (3%nat, false) (2%nat, true);                   (* r4 = (x1 & x2) xor ~x3 *)
    HSize (4%nat, false);
    HGc [(4%nat, true)];                                      (* keep only r4 (complemented root): x1, x2, r3 die unless reachable *)
    HVar 4;                                                   (* r5: reuses a freed slot *)
    HIte (4%nat, false) (5%nat, false) (2%nat, false);        (* r6: an operation on a survivor after the collection *)
    HConstrain (6%nat, false) (4%nat, true);                  (* r7 *)
    HRestrict (6%nat, true) (5%nat, false) ].                 (* r8 *)

Lemma example_run_ok :
  match dflt_run h_example with
  | Some ((m, rs), _) =>
      (* registers 4 .. 8 are live, non-terminal handles; register 0 (x1) died in the collection *)
      fetch rs (0%nat, false) = None /\
      (exists r, fetch rs (4%nat, false) = Some r /\ idx r <> 1) /\
      (exists r, fetch rs (6%nat, false) = Some r /\ idx r <> 1) /\
      (exists r, fetch rs (8%nat, false) = Some r /\ idx r <> 1) /\
      real_size (tbl (core m)) <= last_index (tbl (core m))
  | None => False
  end.
Proof. vm_compute. repeat split; try (eexists; split; [reflexivity|discriminate]); discriminate. Qed.

(* hence: there is a reachable state satisfying the hypotheses `reachable mr /\ liveh mr a r` of C01-C16 with r non-terminal,
   reached through a collection and slot reuse *)
Theorem hypotheses_satisfiable :
  exists mr a r, @reachable nhash khash 65535 65535 65535 1048576 memo_ref memo_dm memo_nref memo_refN mr /\
    liveh mr a r /\ idx r <> 1 /\ exists F, denotes nhash khash mr r F.
Proof.
  pose proof example_run_ok as H. unfold dflt_run in H.
  destruct (mrun nhash khash 400 (minit 65535 65535 65535 1048576) h_example) as [[[m rs] xs]|] eqn:E; [|contradiction].
  destruct H as (_ & (r & Hr & Hn) & _).
  assert (HR : @reachable nhash khash 65535 65535 65535 1048576 memo_ref memo_dm memo_nref memo_refN (m, rs)).
  { eapply (run_reachable nhash khash); [constructor|exact E]. }
  exists (m, rs), (4%nat, false), r. repeat split; [exact HR|exact Hr|exact Hn|].
  apply (live_denotes nhash khash 65535 65535 65535 1048576 ltac:(lia) (m, rs) (4%nat, false) r HR Hr).
Qed.
Print Assumptions hypotheses_satisfiable.

(* Non-vacuity of the "Storage is full" disjunct of the termination theorems, and of the high-water-mark invariant:
   a 4-cell manager (cells 0 = sentinel, 1 = terminal, 2, 3) holds two nodes; the third constructor line yields no result,
   in a reachable state whose table is full and whose ghost peak equals the high-water mark. *)
Definition tiny_run (fuel : nat) (h : list hop) :=
  @mrun nhash khash memo_ref memo_dm memo_nref memo_refN fuel (@minit 3 3 3 4) h.
Lemma full_table_stops :
  match tiny_run 100 [HVar 1; HVar 2] with
  | Some ((m, rs), _) =>
      @mstep nhash khash memo_ref memo_dm memo_nref memo_refN 100 (m, rs) (HVar 3) = None /\
      last_index (tbl (core m)) = 3 /\ real_size (tbl (core m)) = 3 /\ peak (core m) = 3 /\ cap (tbl (core m)) = 4
  | None => False
  end.
Proof. vm_compute. repeat split; reflexivity. Qed.
(* after a collection that frees one of them the same line succeeds, reusing the freed cell: the mark stays at the peak *)
Lemma freed_cell_is_reused :
  match tiny_run 100 [HVar 1; HVar 2; HGc [(1%nat, false)]; HVar 3] with
  | Some ((m, rs), _) => last_index (tbl (core m)) = 3 /\ real_size (tbl (core m)) = 3 /\ peak (core m) = 3
  | None => False
  end.
Proof. vm_compute. repeat split; reflexivity. Qed.
