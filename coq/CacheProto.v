From Coq Require Import NArith Bool Lia List.
Require Import TableProto.
Import ListNotations.
Local Open Scope N_scope.

(* src/lcache.rs, generic in key, value and hash function; every table size (mask) *)
Section C.
  Variable K V : Type.
  Variable keqb : K -> K -> bool.
  Hypothesis keqb_spec : forall a b, reflect (a = b) (keqb a b).
  Variable hash : K -> N.

  Record lcache := { ldata : tmap (option (K * V)); lmask : N; hits : N; faults : N; misses : N }.
  Definition slot (c : lcache) (k : K) := N.land (hash k) (lmask c).
  Definition cnew (mask : N) : lcache := {| ldata := tconst None; lmask := mask; hits := 0; faults := 0; misses := 0 |}.
  Definition cget (c : lcache) (k : K) : lcache * option V :=
    match tget (ldata c) (slot c k) with
    | Some (k', v) =>
      if keqb k' k then ({| ldata := ldata c; lmask := lmask c; hits := hits c + 1; faults := faults c; misses := misses c |}, Some v)
      else ({| ldata := ldata c; lmask := lmask c; hits := hits c; faults := faults c + 1; misses := misses c + 1 |}, None)
    | None => ({| ldata := ldata c; lmask := lmask c; hits := hits c; faults := faults c; misses := misses c + 1 |}, None)
    end.
  Definition cinsert (c : lcache) (k : K) (v : V) : lcache :=
    {| ldata := tset (ldata c) (slot c k) (Some (k, v)); lmask := lmask c; hits := hits c; faults := faults c; misses := misses c |}.
  Definition cclear (c : lcache) : lcache :=
    {| ldata := tconst None; lmask := lmask c; hits := hits c; faults := faults c; misses := misses c |}.

  Inductive op := Get (k : K) | Insert (k : K) (v : V) | Clear.
  Definition step (c : lcache) (o : op) : lcache * option V :=
    match o with Get k => cget c k | Insert k v => (cinsert c k v, None) | Clear => (cclear c, None) end.
  Fixpoint run (c : lcache) (ops : list op) : lcache :=
    match ops with [] => c | o :: r => run (fst (step c o)) r end.

  (* reference: the value most recently inserted under k since the last clear, scanning the history from its end *)
  Fixpoint latest (rev_hist : list op) (k : K) : option V :=
    match rev_hist with
    | [] => None
    | Clear :: _ => None
    | Insert k' v :: r => if keqb k' k then Some v else latest r k
    | Get _ :: r => latest r k
    end.
  Fixpoint ngets (h : list op) : N := match h with [] => 0 | Get _ :: r => 1 + ngets r | _ :: r => ngets r end.

  Definition CI (c : lcache) (rev_hist : list op) : Prop :=
    (forall i k v, tget (ldata c) i = Some (k, v) -> latest rev_hist k = Some v /\ i = slot c k) /\
    hits c + misses c = ngets rev_hist /\ faults c <= misses c.

  Lemma step_inv c h o : CI c h -> CI (fst (step c o)) (o :: h).
  Proof.
    intros (HD & HS & HF). destruct o as [k|k v|]; cbn [step fst].
    - unfold cget. destruct (tget (ldata c) (slot c k)) as [[k' v']|] eqn:E; [destruct (keqb k' k)|];
        (split; [intros i k0 v0 Hi; cbn [latest]; exact (HD i k0 v0 Hi)|cbn [hits misses faults ngets fst]; idtac]).
      all: try lia.
    - split; [|cbn [hits misses faults ngets cinsert]; lia]. intros i k0 v0 Hi. cbn [cinsert ldata] in Hi. cbn [latest].
      change (slot (cinsert c k v) k0) with (slot c k0).
      destruct (N.eq_dec i (slot c k)) as [->|Hne].
      + rewrite tget_set_same in Hi. injection Hi as -> ->. destruct (keqb_spec k0 k0); [auto|congruence].
      + rewrite tget_set_other in Hi by assumption. destruct (HD i k0 v0 Hi) as [Hl Hs].
        destruct (keqb_spec k k0) as [->|Hk]; [congruence|auto].
    - split; [|cbn [hits misses faults ngets cclear]; lia]. intros i k0 v0 Hi. cbn [cclear ldata] in Hi.
      rewrite tget_const in Hi. discriminate.
  Qed.

  (* C18: a lookup returns nothing, or the value most recently inserted under exactly that key since the last clear *)
  Lemma run_inv : forall ops c h, CI c h -> CI (run c ops) (rev ops ++ h).
  Proof.
    induction ops as [|o r IH]; intros c h H; cbn [run rev app]; [exact H|].
    rewrite <- app_assoc. cbn [app]. apply IH. now apply step_inv.
  Qed.
  Lemma cnew_inv mask : CI (cnew mask) [].
  Proof. split; [|cbn; lia]. intros i k v Hi. cbn in Hi. rewrite tget_const in Hi. discriminate. Qed.
  Theorem cache_sound mask ops k : let c := run (cnew mask) ops in
    (snd (cget c k) = None \/ snd (cget c k) = latest (rev ops) k) /\
    hits c + misses c = ngets (rev ops) /\ faults c <= misses c.
  Proof.
    intro c. pose proof (run_inv ops (cnew mask) [] (cnew_inv mask)) as (HD & HS & HF). rewrite app_nil_r in *. fold c in HD, HS, HF.
    split; [|auto]. unfold cget. destruct (tget (ldata c) (slot c k)) as [[k' v']|] eqn:E; [|left; reflexivity].
    destruct (keqb_spec k' k) as [->|Hne]; [|left; reflexivity]. right. cbn [snd]. symmetry. exact (proj1 (HD _ _ _ E)).
  Qed.
  Print Assumptions cache_sound.
End C.
