From Coq Require Import Arith NArith Bool Lia List.
Require Import Canon SemTk BddBase BddIte BddSat BddCof BddReach.
Import ListNotations.
Local Open Scope N_scope.

Section Minimal.
  Context {SO : StoreOps} {OK : StoreOK}.

  (* (1) distinct stored nodes denote functions that differ even up to complement *)
  Theorem nodes_distinct s i j ti tj : Inv s -> V s (R i false) ti -> V s (R j false) tj -> i <> j ->
    ~ (forall e, tsem ti e = tsem tj e) /\ ~ (forall e, tsem ti e = negb (tsem tj e)).
  Proof.
    intros HI Vi Vj Hne. split; intro H.
    - assert (E : R i false = R j false).
      { eapply (canon_store s (R i false) (R j false) ti tj); eauto. intro e. unfold rsem; cbn. now rewrite H. }
      congruence.
    - assert (E : R i false = R j true).
      { eapply (canon_store s (R i false) (R j true) ti tj); eauto. intro e. unfold rsem; cbn. rewrite H. now destruct (tsem tj e). }
      congruence.
  Qed.

  (* partial assignments to a prefix of the variable order *)
  Fixpoint cofs (F : bfun) (sigma : list (N * bool)) : bfun :=
    match sigma with [] => F | (v, b) :: r => cofs (cof F v b) r end.

  (* (2) every node reachable from f denotes, up to complement, a cofactor of f *)
  Theorem reachable_is_cofactor s f t : Inv s -> V s f t -> forall j, Reach s (idx f) j ->
    exists tj sigma b, V s (R j false) tj /\ forall e, tsem tj e = xorb b (cofs (rsem f t) sigma e).
  Proof.
    intros HI HV j HR. remember (idx f) as i eqn:Ei. revert f t HV Ei.
    induction HR as [i|i j k Hc _ IH]; intros f t HV Ei; subst i.
    - exists t, [], (neg f). split; [exact HV|]. intro e. cbn [cofs]. unfold rsem. destruct (neg f), (tsem t e); reflexivity.
    - destruct Hc as (n & Hn & Hj).
      destruct t as [|v ln tl th].
      { destruct HV as (HRp & _). apply Rep_leaf_inv in HRp. destruct HI as [HT _]. destruct (cell1 _ HT) as [E1 _]. rewrite HRp in Hn. congruence. }
      destruct (V_children _ _ _ _ _ _ HV) as (l & h & Hc' & -> & Hreg & Vl & Vh & Al & Ah & Hv0).
      rewrite Hn in Hc'. injection Hc' as ->. cbn [lo hi] in Hj.
      assert (Hsh : forall e, rsem f (Nd v (neg l) tl th) e = xorb (neg f) (if e v then tsem th e else xorb (neg l) (tsem tl e))) by reflexivity.
      destruct Hj as [->| ->].
      + destruct (IH l tl Vl eq_refl) as (tk & sigma & b & Vk & Sk).
        exists tk, ((v, false) :: sigma), (xorb b (neg f)). split; [exact Vk|]. intro e. rewrite Sk. cbn [cofs].
        assert (E : forall a, cof (rsem f (Nd v (neg l) tl th)) v false a = xorb (neg f) (rsem l tl a)).
        { intro a. unfold cof. rewrite Hsh, upd_eq. rewrite tsem_indep by assumption. unfold rsem. now destruct (neg f), (neg l), (tsem tl a). }
        clear -E. revert e. generalize (cof (rsem f (Nd v (neg l) tl th)) v false) (rsem l tl) E. generalize (neg f).
        intros c G1 G2 E'. clear E. rename E' into E. induction sigma as [|[w bw] r IHs] in G1, G2, E |- *; intro e; cbn [cofs].
        * rewrite E. now destruct b, c, (G2 e).
        * apply IHs. intro a. unfold cof. apply E.
      + destruct (IH h th Vh eq_refl) as (tk & sigma & b & Vk & Sk).
        exists tk, ((v, true) :: sigma), (xorb b (neg f)). split; [exact Vk|]. intro e. rewrite Sk. cbn [cofs].
        assert (E : forall a, cof (rsem f (Nd v (neg l) tl th)) v true a = xorb (neg f) (rsem h th a)).
        { intro a. unfold cof. rewrite Hsh, upd_eq. rewrite tsem_indep by assumption. unfold rsem. rewrite Hreg. now destruct (neg f), (tsem th a). }
        clear -E. revert e. generalize (cof (rsem f (Nd v (neg l) tl th)) v true) (rsem h th) E. generalize (neg f).
        intros c G1 G2 E'. clear E. rename E' into E. induction sigma as [|[w bw] r IHs] in G1, G2, E |- *; intro e; cbn [cofs].
        * rewrite E. now destruct b, c, (G2 e).
        * apply IHs. intro a. unfold cof. apply E.
  Qed.

  (* (3) conversely, every cofactor of f with respect to an assignment of the first k variables is denoted,
         with its sign, by a node reachable from f (or by the terminal) *)
  Fixpoint prefix_assign (k : nat) (bs : list bool) : list (N * bool) :=   (* variables k+1, k+2, ... *)
    match bs with [] => [] | b :: r => (N.of_nat (S k), b) :: prefix_assign (S k) r end.

  Lemma cofs_congr (F G : bfun) sigma : (forall e, F e = G e) -> forall e, cofs F sigma e = cofs G sigma e.
  Proof.
    revert F G. induction sigma as [|[v b] r IH]; intros F G E e; cbn [cofs]; [apply E|]. apply IH. intro a. unfold cof. apply E.
  Qed.

  Theorem cofactor_is_reachable s : Inv s -> forall bs k f t, V s f t -> above (N.of_nat k) t ->
    exists r tr, V s r tr /\ (idx r = 1 \/ Reach s (idx f) (idx r)) /\ above (N.of_nat (k + length bs)) tr /\
      forall e, rsem r tr e = cofs (rsem f t) (prefix_assign k bs) e.
  Proof.
    intro HI. induction bs as [|b bs IH]; intros k f t HV Ab.
    - exists f, t. rewrite Nat.add_0_r. splits; auto. right; constructor.
    - cbn [prefix_assign length cofs]. set (v := N.of_nat (S k)).
      (* one step: the cofactor with respect to v := b is f itself or one of its children *)
      assert (Hstep : exists r1 t1, V s r1 t1 /\ (idx r1 = 1 \/ Reach s (idx f) (idx r1)) /\ above v t1 /\
                        forall e, rsem r1 t1 e = cof (rsem f t) v b e).
      { destruct t as [|vt ln tl th].
        - exists f, Leaf. splits; auto; try (right; constructor); try (cbn; now auto).
        - destruct Ab as (Hk & _). destruct (N.eq_dec vt v) as [->|Hne].
          + destruct (lh_ok _ _ _ _ _ _ HI HV) as (Vl & Vh & Al & Ah & _ & _ & Sf).
            assert (Hch : forall c, c = low_node s f \/ c = high_node s f -> idx c = 1 \/ Reach s (idx f) (idx c)).
            { intros c Hc. right. econstructor; [|constructor].
              destruct HV as (HR & _). apply Rep_nd_inv in HR. destruct HR as (_ & l & h & Hcell & _).
              exists (Node v l h). split; [exact Hcell|]. unfold low_node, high_node in Hc. rewrite Hcell in Hc. cbn [lo hi].
              destruct Hc as [->| ->]; destruct (neg f); cbn [rneg idx]; auto. }
            destruct b.
            * exists (high_node s f), th. splits; auto. intro e. unfold cof. rewrite Sf, upd_eq. symmetry. eapply rsem_indep; eauto; lia.
            * exists (low_node s f), tl. splits; auto. intro e. unfold cof. rewrite Sf, upd_eq. symmetry. eapply rsem_indep; eauto; lia.
          + (* v is below f's top variable: f does not depend on it *)
            assert (Hlt : v < vt) by (unfold v in *; lia).
            exists f, (Nd vt ln tl th). splits; auto; [right; constructor|apply ordered_root_above; [apply HV|exact Hlt]|].
            intro e. unfold cof. symmetry. apply rsem_indep with (v := v); [apply ordered_root_above; [apply HV|exact Hlt]|lia]. }
      destruct Hstep as (r1 & t1 & V1 & Hr1 & A1 & S1).
      destruct (IH (S k) r1 t1 V1 A1) as (r2 & t2 & V2 & Hr2 & A2 & S2).
      exists r2, t2. splits; auto.
      + destruct Hr2 as [?|Hr2]; [left; assumption|]. destruct Hr1 as [E1|Hr1].
        * (* from the terminal nothing else is reachable *)
          left. rewrite E1 in Hr2. inversion Hr2 as [|? ? ? Hc]; subst; [reflexivity|].
          destruct Hc as (n & Hn & _). destruct HI as [HT _]. destruct (cell1 _ HT) as [Ec _]. congruence.
        * right. clear -Hr1 Hr2. induction Hr1; [assumption|]. econstructor; eauto.
      + replace (k + S (length bs))%nat with (S k + length bs)%nat by lia. exact A2.
      + intro e. rewrite S2. apply cofs_congr. exact S1.
  Qed.
  Print Assumptions cofactor_is_reachable.
End Minimal.
