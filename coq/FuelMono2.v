(* Fuel monotonicity of the register machine, and progress of whole runs. *)
From Coq Require Import Arith NArith Bool Lia List.
Require Import Canon SemTk CountTk TableProto BddBase BddIte BddCR BddSat BddCof BddCof2 BddCtor BddEval BddPaths BddPathsCount BddReach BddExport BddDot BddTerm BddTerm2 Glue Machine Reachable OpSpecs FuelMono.
Import ListNotations.

(* ---------------- the sweep of the generic table ---------------- *)
Section TMono.
  Variable V : Type.
  Variable alive : N -> bool.
  Ltac walkr lift H :=
    repeat match type of H with
    | Ok _ = Ok _ => fail 1
    | Full = Ok _ => discriminate H
    | Fuel = Ok _ => discriminate H
    | context[if ?c then _ else _] => let E := fresh "C" in destruct c eqn:E
    | context[match ?X with _ => _ end] => let E := fresh "M" in destruct X eqn:E; try (lift E; rewrite E)
    | _ => lift H; exact H
    end; try exact H; try discriminate H.
  Lemma skip_dead_S : forall k t i x, skip_dead V alive k t i = Ok x -> skip_dead V alive (S k) t i = Ok x.
  Proof.
    induction k as [|k IH]; intros t i x H; [discriminate|].
    remember (S k) as k' eqn:Ek. rewrite Ek in H. cbn [skip_dead] in H |- *. subst k'.
    walkr ltac:(fun E => apply IH in E) H.
  Qed.
  Lemma relink_S : forall k t p x, relink V alive k t p = Ok x -> relink V alive (S k) t p = Ok x.
  Proof.
    induction k as [|k IH]; intros t p x H; [discriminate|].
    remember (S k) as k' eqn:Ek. rewrite Ek in H. cbn [relink] in H |- *. subst k'.
    walkr ltac:(fun E => first [apply IH in E | apply skip_dead_S in E]) H.
  Qed.
  Lemma sweep_bucket_S k t b x : sweep_bucket V alive k t b = Ok x -> sweep_bucket V alive (S k) t b = Ok x.
  Proof.
    unfold sweep_bucket. intro H.
    walkr ltac:(fun E => first [apply relink_S in E | apply skip_dead_S in E]) H.
  Qed.
  Lemma sweep_all_S k : forall bs t x, sweep_all V alive k t bs = Ok x -> sweep_all V alive (S k) t bs = Ok x.
  Proof.
    induction bs as [|b r IH]; intros t x H; cbn [sweep_all] in H |- *; [exact H|].
    destruct (sweep_bucket V alive k t b) as [t1| |] eqn:E; try discriminate. rewrite (sweep_bucket_S _ _ _ _ E). apply IH. exact H.
  Qed.
End TMono.

Section MMono.
  Variable nhash : node -> N.
  Variable khash : key -> N.
  Variable bmask cmask0 smask0 capacity : N.
  Hypothesis cap_ok : (2 <= capacity)%N.
  Context {MS : Memo ref ref} {MC : Memo (ref * ref) ref} {MQ : Memo (nat * ref) ref} {MN : Memo ref N}.
  Notation mops := (concrete_ops nhash khash).
  Notation mok := (concrete_ok nhash khash).
  Notation mstep := (@Reachable.mstep nhash khash MS MC MQ MN).
  Notation mrun := (@Reachable.mrun nhash khash MS MC MQ MN).
  Notation reachable := (@Reachable.reachable nhash khash bmask cmask0 smask0 capacity MS MC MQ MN).

  Lemma gc_S k s roots x : gc nhash khash k s roots = Some x -> gc nhash khash (S k) s roots = Some x.
  Proof.
    unfold gc. intro H.
    match type of H with match ?X with _ => _ end = _ => destruct X as [vis|] eqn:E; [|discriminate] end.
    apply (@descendants_S mops) in E. rewrite E.
    match type of H with match ?X with _ => _ end = _ => destruct X as [t'| |] eqn:E2; try discriminate end.
    rewrite (sweep_all_S node _ _ _ _ _ E2). exact H.
  Qed.

  (* one step: the result obtained with some fuel is the result with one more unit *)
  Lemma step_S k mr o x : mstep k mr o = Some x -> mstep (S k) mr o = Some x.
  Proof.
    destruct mr as [m rs]. unfold Reachable.mstep, step. intro H.
    destruct o; try exact H;
    repeat match type of H with
    | Some _ = Some _ => fail 1
    | context[match fetch ?rs ?a with _ => _ end] => destruct (fetch rs a) eqn:?
    | context[match fetch_all ?rs ?a with _ => _ end] => destruct (fetch_all rs a) eqn:?
    | context[match xlate ?rs ?a with _ => _ end] => destruct (xlate rs a) eqn:?
    | context[if ?c then _ else _] => destruct c eqn:?
    end; try exact H.
    all: unfold drop2, apply_bin, size_op, apply_and, apply_or, apply_xor, apply_eq, apply_imply in *.
    all: repeat match type of H with
    | Some _ = Some _ => fail 1
    | None = Some _ => discriminate H
    | context[match ?o with BAnd => _ | _ => _ end] => destruct o
    | context[match (match ?Y with _ => _ end) with _ => _ end] =>
        let E := fresh "M" in destruct Y eqn:E; try (first [ apply (@ite_S (Machine.ops nhash khash)) in E | apply (@constrain_S (Machine.ops nhash khash)) in E | apply (@restrict_S (Machine.ops nhash khash)) in E | apply (@itec_S (Machine.ops nhash khash)) in E
                   | apply (@subst_S (Machine.ops nhash khash)) in E | apply (@compose_S (Machine.ops nhash khash)) in E | apply (@smulti_S (Machine.ops nhash khash)) in E | apply (@ccube_S (Machine.ops nhash khash)) in E
                   | apply (@sat_count_S (Machine.ops nhash khash)) in E | apply (@one_sat_S (Machine.ops nhash khash)) in E | apply (@pall_S (Machine.ops nhash khash)) in E | apply (@descendants_S (Machine.ops nhash khash)) in E
                   | apply (@to_bracket_S (Machine.ops nhash khash)) in E | apply (@to_dot_S (Machine.ops nhash khash)) in E | apply (@eval_S (Machine.ops nhash khash)) in E | apply (@and_many_S (Machine.ops nhash khash)) in E
                   | apply (@or_many_S (Machine.ops nhash khash)) in E | apply (@is_implies_S (Machine.ops nhash khash)) in E | apply gc_S in E ]; rewrite E)
    | context[match ?X with _ => _ end] =>
        let E := fresh "M" in destruct X eqn:E; try (first [ apply (@ite_S (Machine.ops nhash khash)) in E | apply (@constrain_S (Machine.ops nhash khash)) in E | apply (@restrict_S (Machine.ops nhash khash)) in E | apply (@itec_S (Machine.ops nhash khash)) in E
                   | apply (@subst_S (Machine.ops nhash khash)) in E | apply (@compose_S (Machine.ops nhash khash)) in E | apply (@smulti_S (Machine.ops nhash khash)) in E | apply (@ccube_S (Machine.ops nhash khash)) in E
                   | apply (@sat_count_S (Machine.ops nhash khash)) in E | apply (@one_sat_S (Machine.ops nhash khash)) in E | apply (@pall_S (Machine.ops nhash khash)) in E | apply (@descendants_S (Machine.ops nhash khash)) in E
                   | apply (@to_bracket_S (Machine.ops nhash khash)) in E | apply (@to_dot_S (Machine.ops nhash khash)) in E | apply (@eval_S (Machine.ops nhash khash)) in E | apply (@and_many_S (Machine.ops nhash khash)) in E
                   | apply (@or_many_S (Machine.ops nhash khash)) in E | apply (@is_implies_S (Machine.ops nhash khash)) in E | apply gc_S in E ]; rewrite E)
    | context[if ?c then _ else _] => destruct c eqn:?
    end; try exact H; try discriminate H.
  Qed.

  Lemma step_mono k k' mr o x : (k <= k')%nat -> mstep k mr o = Some x -> mstep k' mr o = Some x.
  Proof. intros Hle H. induction Hle as [|k' _ IH]; [exact H|apply step_S; exact IH]. Qed.
  (* whole runs: more fuel never changes a result *)
  Lemma run_mono k k' : (k <= k')%nat -> forall h mr x, mrun k mr h = Some x -> mrun k' mr h = Some x.
  Proof.
    intro Hle. unfold Reachable.mrun. induction h as [|o h IH]; intros mr x H; cbn [run] in H |- *; [exact H|].
    destruct (step nhash khash k mr o) as [[mr1 y]|] eqn:E; [|discriminate].
    pose proof (step_mono k k' mr o _ Hle E) as E'. unfold Reachable.mstep in E'. rewrite E'.
    destruct (run nhash khash k mr1 h) as [[mr2 ys]|] eqn:E2; [|discriminate]. rewrite (IH _ _ E2). exact H.
  Qed.


  (* C02 on the machine: for every reachable state and live handles there is a bound above which the ITE line gives the same
     outcome -- the same new state and handle, or no result -- whatever the fuel *)
  Theorem ite_step_fuel_irrelevant mr f g h rf rg rh :
    reachable mr -> liveh mr f rf -> liveh mr g rg -> liveh mr h rh ->
    exists bound, forall fuel fuel', (bound <= fuel)%nat -> (bound <= fuel')%nat ->
      mstep fuel mr (HIte f g h) = mstep fuel' mr (HIte f g h).
  Proof.
    intros HR Lf Lg Lh.
    destruct (live_denotes nhash khash bmask cmask0 smask0 capacity cap_ok mr f rf HR Lf) as (F & tf & Vf & _).
    destruct (live_denotes nhash khash bmask cmask0 smask0 capacity cap_ok mr g rg HR Lg) as (G & tg & Vg & _).
    destruct (live_denotes nhash khash bmask cmask0 smask0 capacity cap_ok mr h rh HR Lh) as (H & th & Vh & _).
    set (L := N.max (maxvar tf) (N.max (maxvar tg) (maxvar th))).
    exists (3 * N.to_nat (L + 1) + 3)%nat. intros fuel fuel' Hf Hf'.
    destruct mr as [m rs]. destruct (reachable_good nhash khash _ _ _ _ cap_ok _ HR) as (HI & HC & _).
    unfold liveh in *; cbn [fst snd store] in *.
    assert (Af : allle L tf) by (eapply allle_mono; [|apply allle_maxvar]; unfold L; lia).
    assert (Ag : allle L tg) by (eapply allle_mono; [|apply allle_maxvar]; unfold L; lia).
    assert (Ah : allle L th) by (eapply allle_mono; [|apply allle_maxvar]; unfold L; lia).
    unfold Reachable.mstep, step. rewrite Lf, Lg, Lh.
    rewrite (@ite_fuel_irrelevant (Machine.ops nhash khash) (Machine.ok nhash khash) L (N.to_nat (L + 1)) fuel fuel' (core m) rf rg rh tf tg th Hf Hf' HI HC Vf Vg Vh Af Ag Ah (mu_le L tf tg th)).
    reflexivity.
  Qed.

  (* ---------------- above a (state- and operation-dependent) bound the fuel is immaterial for EVERY operation ---------------- *)
  Notation xops := (Machine.ops nhash khash).
  Notation xok := (Machine.ok nhash khash).
  Definition StepDown (mr : mstate * regs) (o : hop) : Prop :=
    exists bound, forall k, (bound <= k)%nat -> forall x, mstep (S k) mr o = Some x -> mstep k mr o = Some x.
  Lemma down_of_returns mr o : (exists bound, forall fuel, (bound <= fuel)%nat -> mstep fuel mr o <> None) -> StepDown mr o.
  Proof.
    intros (b & Hb). exists b. intros k Hk x H. destruct (mstep k mr o) as [y|] eqn:E; [|exfalso; exact (Hb k Hk E)].
    pose proof (step_S k mr o y E) as E2. rewrite H in E2. symmetry. exact E2.
  Qed.
  Lemma down_trivial mr o : (forall k, mstep (S k) mr o = mstep k mr o) -> StepDown mr o.
  Proof. intro H. exists O. intros k _ x Hx. rewrite <- H. exact Hx. Qed.

  Ltac levels L tf tg := 
    assert (Af : allle L tf) by (eapply allle_mono; [|apply allle_maxvar]; unfold L; lia);
    assert (Ag : allle L tg) by (eapply allle_mono; [|apply allle_maxvar]; unfold L; lia).

  Theorem mstep_down mr o : reachable mr -> StepDown mr o.
  Proof.
    intro HR. destruct mr as [m rs]. pose proof (reachable_good nhash khash _ _ _ _ cap_ok _ HR) as (HI & HC & _ & Hg). cbn [fst snd] in *.
    assert (LV : forall a r0, fetch rs a = Some r0 -> exists t, @V xops (core m) r0 t).
    { intros a r0 Ha. exact (fetch_good nhash khash _ _ _ _ Hg Ha). }
    destruct o as [b|v|v lo hi|f g h|op f g|f|disj l|cl l|xe|f v b|f vals|f cube|f v g|f g|f g|f|f|hi f v|f g h|f g|f|l|f n|f|f|f|l|roots].
    - apply down_trivial. reflexivity.
    - apply down_trivial. reflexivity.
    - apply down_trivial. reflexivity.
    - (* ite *) destruct (fetch rs f) as [rf|] eqn:Lf; [destruct (fetch rs g) as [rg|] eqn:Lg; [destruct (fetch rs h) as [rh|] eqn:Lh|]|];
        try (apply down_trivial; intro k; unfold Reachable.mstep, step; rewrite ?Lf, ?Lg, ?Lh; reflexivity).
      destruct (LV _ _ Lf) as (tf & Vf). destruct (LV _ _ Lg) as (tg & Vg). destruct (LV _ _ Lh) as (th & Vh).
      set (L := N.max (maxvar tf) (N.max (maxvar tg) (maxvar th))).
      assert (Af : allle L tf) by (eapply allle_mono; [|apply allle_maxvar]; unfold L; lia).
      assert (Ag : allle L tg) by (eapply allle_mono; [|apply allle_maxvar]; unfold L; lia).
      assert (Ah : allle L th) by (eapply allle_mono; [|apply allle_maxvar]; unfold L; lia).
      exists (3 * N.to_nat (L + 1) + 3)%nat. intros k Hk x H. unfold Reachable.mstep, step in H |- *. rewrite Lf, Lg, Lh in H |- *.
      match type of H with match ?X with _ => _ end = _ => destruct X as [[s1 r1]|] eqn:E; [|discriminate H] end.
      rewrite (@ite_down xops xok L (N.to_nat (L + 1)) k Hk (core m) rf rg rh tf tg th (s1, r1) HI HC Vf Vg Vh Af Ag Ah (mu_le L tf tg th) E). exact H.
    - (* bin *) destruct (fetch rs f) as [rf|] eqn:Lf; [destruct (fetch rs g) as [rg|] eqn:Lg|];
        try (apply down_trivial; intro k; unfold Reachable.mstep, step; rewrite ?Lf, ?Lg; reflexivity).
      destruct (LV _ _ Lf) as (tf & Vf). destruct (LV _ _ Lg) as (tg & Vg).
      set (L := N.max (maxvar tf) (maxvar tg)). levels L tf tg.
      exists (3 * N.to_nat (L + 1) + 3)%nat. intros k Hk x H. unfold Reachable.mstep, step in H |- *. rewrite Lf, Lg in H |- *.
      pose proof (@ite_down xops xok L (N.to_nat (L + 1)) k Hk (core m)) as D. unfold Down in D.
      match type of H with match ?X with _ => _ end = _ => destruct X as [[s1 r1]|] eqn:E; [|discriminate H] end.
      destruct op; cbn [apply_bin] in E |- *; unfold apply_and, apply_or, apply_xor, apply_eq, apply_imply in *.
      + rewrite (D rf rg zero tf tg Leaf (s1, r1) HI HC Vf Vg (V_zero _) ltac:(assumption) ltac:(assumption) I (mu_le L tf tg Leaf) E). exact H.
      + rewrite (D rf one rg tf Leaf tg (s1, r1) HI HC Vf (V_one _) Vg ltac:(assumption) I ltac:(assumption) (mu_le L tf Leaf tg) E). exact H.
      + rewrite (D rf (rneg rg) rg tf tg tg (s1, r1) HI HC Vf (V_neg _ _ _ Vg) Vg ltac:(assumption) ltac:(assumption) ltac:(assumption) (mu_le L tf tg tg) E). exact H.
      + rewrite (D rf rg (rneg rg) tf tg tg (s1, r1) HI HC Vf Vg (V_neg _ _ _ Vg) ltac:(assumption) ltac:(assumption) ltac:(assumption) (mu_le L tf tg tg) E). exact H.
      + rewrite (D rf rg one tf tg Leaf (s1, r1) HI HC Vf Vg (V_one _) ltac:(assumption) ltac:(assumption) I (mu_le L tf tg Leaf) E). exact H.
    - apply down_trivial. reflexivity.
    - (* many *) destruct (fetch_all rs l) as [rl|] eqn:Fl; [|apply down_trivial; intro k; unfold Reachable.mstep, step; rewrite Fl; reflexivity].
      destruct (fetch_all_F2 nhash khash _ _ Hg _ _ Fl) as (tts & Hf). destruct (trees_level capacity cap_ok tts) as (L & HL).
      exists (3 * N.to_nat (L + 1) + 3)%nat. intros k Hk x H. unfold Reachable.mstep, step in H |- *. rewrite Fl in H |- *.
      match type of H with match ?X with _ => _ end = _ => destruct X as [[s1 r1]|] eqn:E; [|discriminate H] end.
      destruct disj.
      + rewrite (@many_down xops xok true L k Hk rl tts (core m) zero Leaf (s1, r1) HI HC (V_zero _) I Hf HL E). exact H.
      + rewrite (@many_down xops xok false L k Hk rl tts (core m) one Leaf (s1, r1) HI HC (V_one _) I Hf HL E). exact H.
    - apply down_trivial. reflexivity.
    - (* expr *) destruct (xlate rs xe) as [ex|] eqn:X; [|apply down_trivial; intro k; unfold Reachable.mstep, step; rewrite X; reflexivity].
      destruct (eterms_level nhash khash capacity cap_ok (core m) ex (xlate_terms nhash khash _ _ Hg _ _ X)) as (L & HT).
      exists (3 * N.to_nat (L + 1) + 3)%nat. intros k Hk x H. unfold Reachable.mstep, step in H |- *. rewrite X in H |- *.
      match type of H with match ?X with _ => _ end = _ => destruct X as [[s1 r1]|] eqn:E; [|discriminate H] end.
      rewrite (@eval_down xops xok L k Hk ex (core m) (s1, r1) HI HC HT E). exact H.
    - (* subst *) destruct (fetch rs f) as [rf|] eqn:Lf; [|apply down_trivial; intro k; unfold Reachable.mstep, step; rewrite Lf; reflexivity].
      destruct (LV _ _ Lf) as (tf & Vf).
      exists (height tf + 1)%nat. intros k Hk x H. unfold Reachable.mstep, step in H |- *. rewrite Lf in H |- *.
      destruct (0 <? v)%N; [|exact H]. unfold drop2 in *.
      match type of H with match (match ?X with _ => _ end) with _ => _ end = _ => destruct X as [[[s1 m1] r1]|] eqn:E; [|discriminate H] end.
      rewrite (@subst_down xops xok MS v b tf k (core m) mempty rf _ Hk HI (fun k0 r0 Hk0 => ltac:(rewrite mget_empty in Hk0; discriminate)) Vf E). exact H.
    - (* substm *) destruct (fetch rs f) as [rf|] eqn:Lf; [|apply down_trivial; intro k; unfold Reachable.mstep, step; rewrite Lf; reflexivity].
      destruct (LV _ _ Lf) as (tf & Vf).
      exists (height tf + 1)%nat. intros k Hk x H. unfold Reachable.mstep, step in H |- *. rewrite Lf in H |- *.
      destruct (nodupb (map fst vals)); [|exact H]. unfold drop2 in *.
      match type of H with match (match ?X with _ => _ end) with _ => _ end = _ => destruct X as [[[s1 m1] r1]|] eqn:E; [|discriminate H] end.
      rewrite (@smulti_down xops xok MS vals tf k (core m) mempty rf _ Hk HI (fun k0 r0 Hk0 => ltac:(rewrite mget_empty in Hk0; discriminate)) Vf E). exact H.
    - (* cofcube *) destruct (fetch rs f) as [rf|] eqn:Lf; [|apply down_trivial; intro k; unfold Reachable.mstep, step; rewrite Lf; reflexivity].
      destruct (LV _ _ Lf) as (tf & Vf).
      exists (height tf + length cube + 1)%nat. intros k Hk x H. unfold Reachable.mstep, step in H |- *. rewrite Lf in H |- *.
      destruct (asc_cubeb 0 cube) eqn:Hd; [|exact H]. unfold drop2 in *.
      match type of H with match (match ?X with _ => _ end) with _ => _ end = _ => destruct X as [[[s1 m1] r1]|] eqn:E; [|discriminate H] end.
      rewrite (@ccube_down xops xok MQ cube (height tf + length cube) k Hk (core m) mempty rf cube tf 0%N _ (le_n _) HI
                (fun k0 r0 Hk0 => ltac:(rewrite mget_empty in Hk0; discriminate)) Vf (ex_intro _ [] eq_refl) (asc_cubeb_ok _ _ Hd) E). exact H.
    - (* compose *) destruct (fetch rs f) as [rf|] eqn:Lf; [destruct (fetch rs g) as [rg|] eqn:Lg|];
        try (apply down_trivial; intro k; unfold Reachable.mstep, step; rewrite ?Lf, ?Lg; reflexivity).
      destruct (LV _ _ Lf) as (tf & Vf). destruct (LV _ _ Lg) as (tg & Vg).
      set (L := N.max (maxvar tf) (maxvar tg)). levels L tf tg.
      exists (3 * N.to_nat (L + 1) + 4)%nat. intros k Hk x H. unfold Reachable.mstep, step in H |- *. rewrite Lf, Lg in H |- *. unfold drop2 in *.
      match type of H with match (match ?X with _ => _ end) with _ => _ end = _ => destruct X as [[[s1 m1] r1]|] eqn:E; [|discriminate H] end.
      rewrite (@compose_down xops xok MC v L (N.to_nat (L + 1)) k Hk (core m) mempty rf rg tf tg _ HI HC
                (fun k0 r0 Hk0 => ltac:(rewrite mget_empty in Hk0; discriminate)) Vf Vg ltac:(assumption) ltac:(assumption) (mu2_le L tf tg) E). exact H.
    - (* constrain *) destruct (fetch rs f) as [rf|] eqn:Lf; [destruct (fetch rs g) as [rg|] eqn:Lg|];
        try (apply down_trivial; intro k; unfold Reachable.mstep, step; rewrite ?Lf, ?Lg; reflexivity).
      destruct (LV _ _ Lf) as (tf & Vf). destruct (LV _ _ Lg) as (tg & Vg).
      set (L := N.max (maxvar tf) (maxvar tg)). levels L tf tg.
      exists (N.to_nat (L + 1) + 1)%nat. intros k Hk x H. unfold Reachable.mstep, step in H |- *. rewrite Lf, Lg in H |- *.
      match type of H with match ?X with _ => _ end = _ => destruct X as [[s1 r1]|] eqn:E; [|discriminate H] end.
      rewrite (@constrain_down xops xok L (N.to_nat (L + 1)) k Hk (core m) rf rg tf tg (s1, r1) HI HC Vf Vg ltac:(assumption) ltac:(assumption) (mu2_le L tf tg) E). exact H.
    - (* restrict *) destruct (fetch rs f) as [rf|] eqn:Lf; [destruct (fetch rs g) as [rg|] eqn:Lg|];
        try (apply down_trivial; intro k; unfold Reachable.mstep, step; rewrite ?Lf, ?Lg; reflexivity).
      destruct (LV _ _ Lf) as (tf & Vf). destruct (LV _ _ Lg) as (tg & Vg).
      set (L := N.max (maxvar tf) (maxvar tg)). levels L tf tg.
      exists (3 * N.to_nat (L + 1) + 4)%nat. intros k Hk x H. unfold Reachable.mstep, step in H |- *. rewrite Lf, Lg in H |- *.
      match type of H with match ?X with _ => _ end = _ => destruct X as [[s1 r1]|] eqn:E; [|discriminate H] end.
      rewrite (@restrict_down xops xok L (N.to_nat (L + 1)) k Hk (core m) rf rg tf tg (s1, r1) HI HC Vf Vg ltac:(assumption) ltac:(assumption) (mu2_le L tf tg) E). exact H.
    - apply down_trivial. reflexivity.
    - apply down_trivial. reflexivity.
    - apply down_trivial. reflexivity.
    - (* the queries and the collection always return *)
      destruct (fetch rs f) as [rf|] eqn:Lf; [destruct (fetch rs g) as [rg|] eqn:Lg; [destruct (fetch rs h) as [rh|] eqn:Lh|]|];
        try (apply down_trivial; intro k; unfold Reachable.mstep, step; rewrite ?Lf, ?Lg, ?Lh; reflexivity).
      apply down_of_returns. destruct (itec_step_returns nhash khash bmask cmask0 smask0 capacity cap_ok (m, rs) f g h rf rg rh HR Lf Lg Lh) as (b0 & Hb).
      exists b0. intros fuel Hf. destruct (Hb fuel Hf) as (y & ->). discriminate.
    - destruct (fetch rs f) as [rf|] eqn:Lf; [destruct (fetch rs g) as [rg|] eqn:Lg|];
        try (apply down_trivial; intro k; unfold Reachable.mstep, step; rewrite ?Lf, ?Lg; reflexivity).
      apply down_of_returns. destruct (implies_step_returns nhash khash bmask cmask0 smask0 capacity cap_ok (m, rs) f g rf rg HR Lf Lg) as (b0 & Hb).
      exists b0. intros fuel Hf. destruct (Hb fuel Hf) as (y & ->). discriminate.
    - destruct (fetch rs f) as [rf|] eqn:Lf; [|apply down_trivial; intro k; unfold Reachable.mstep, step; rewrite Lf; reflexivity].
      apply down_of_returns. exact (size_step_returns nhash khash bmask cmask0 smask0 capacity cap_ok (m, rs) f rf HR Lf).
    - destruct (fetch_all rs l) as [rl|] eqn:Fl; [|apply down_trivial; intro k; unfold Reachable.mstep, step; rewrite Fl; reflexivity].
      apply down_of_returns. destruct (desc_step_returns nhash khash bmask cmask0 smask0 capacity cap_ok (m, rs) l rl HR Fl) as (b0 & Hb).
      exists b0. intros fuel Hf. destruct (Hb fuel Hf) as (y & ->). discriminate.
    - destruct (fetch rs f) as [rf|] eqn:Lf; [|apply down_trivial; intro k; unfold Reachable.mstep, step; rewrite Lf; reflexivity].
      apply down_of_returns. destruct (satcount_step_returns nhash khash bmask cmask0 smask0 capacity cap_ok (m, rs) f rf n HR Lf) as (b0 & Hb).
      exists b0. intros fuel Hf. destruct (Hb fuel Hf) as (y & ->). discriminate.
    - destruct (fetch rs f) as [rf|] eqn:Lf; [|apply down_trivial; intro k; unfold Reachable.mstep, step; rewrite Lf; reflexivity].
      apply down_of_returns. destruct (onesat_step_returns nhash khash bmask cmask0 smask0 capacity cap_ok (m, rs) f rf HR Lf) as (b0 & Hb).
      exists b0. intros fuel Hf. destruct (Hb fuel Hf) as (y & ->). discriminate.
    - destruct (fetch rs f) as [rf|] eqn:Lf; [|apply down_trivial; intro k; unfold Reachable.mstep, step; rewrite Lf; reflexivity].
      apply down_of_returns. destruct (paths_step_returns nhash khash bmask cmask0 smask0 capacity cap_ok (m, rs) f rf HR Lf) as (b0 & Hb).
      exists b0. intros fuel Hf. destruct (Hb fuel Hf) as (y & ->). discriminate.
    - destruct (fetch rs f) as [rf|] eqn:Lf; [|apply down_trivial; intro k; unfold Reachable.mstep, step; rewrite Lf; reflexivity].
      apply down_of_returns. destruct (bracket_step_returns nhash khash bmask cmask0 smask0 capacity cap_ok (m, rs) f rf HR Lf) as (b0 & Hb).
      exists b0. intros fuel Hf. destruct (Hb fuel Hf) as (y & ->). discriminate.
    - destruct (fetch_all rs l) as [rl|] eqn:Fl; [|apply down_trivial; intro k; unfold Reachable.mstep, step; rewrite Fl; reflexivity].
      apply down_of_returns. destruct (dot_step_returns nhash khash bmask cmask0 smask0 capacity cap_ok (m, rs) l rl HR Fl) as (b0 & Hb).
      exists b0. intros fuel Hf. destruct (Hb fuel Hf) as (y & ->). discriminate.
    - destruct (fetch_all rs roots) as [rl|] eqn:Fl; [|apply down_trivial; intro k; unfold Reachable.mstep, step; rewrite Fl; reflexivity].
      apply down_of_returns. exact (gc_step_returns nhash khash bmask cmask0 smask0 capacity cap_ok (m, rs) roots rl HR Fl).
  Qed.

  (* the fuel is not an observable: for every reachable state and every operation line there is a bound above which the
     outcome of the step -- the new state, registers and output, or no result -- is the same for every amount of fuel *)
  Theorem mstep_fuel_irrelevant mr o : reachable mr ->
    exists bound, forall k k', (bound <= k)%nat -> (bound <= k')%nat -> mstep k mr o = mstep k' mr o.
  Proof.
    intro HR. destruct (mstep_down mr o HR) as (b & Hb). exists b.
    assert (Step : forall j, (b <= j)%nat -> mstep (S j) mr o = mstep j mr o).
    { intros j Hj. destruct (mstep j mr o) as [r|] eqn:E; [exact (step_S _ _ _ _ E)|].
      destruct (mstep (S j) mr o) as [r|] eqn:E'; [|reflexivity]. rewrite (Hb j Hj r E') in E. discriminate. }
    assert (Up : forall j d, (b <= j)%nat -> mstep (d + j) mr o = mstep j mr o).
    { intros j d Hj. induction d as [|d IHd]; [reflexivity|]. cbn [Nat.add]. rewrite Step by lia. exact IHd. }
    intros k k' Hk Hk'. destruct (Nat.le_ge_cases k k') as [Hle|Hle].
    - replace k' with ((k' - k) + k)%nat by lia. symmetry. apply Up. exact Hk.
    - replace k with ((k - k') + k')%nat by lia. apply Up. exact Hk'.
  Qed.
  (* ... and for every history: the model defines one fuel-independent (partial) function from histories to traces *)
  Theorem mrun_fuel_irrelevant : forall h mr, reachable mr ->
    exists bound, forall k k', (bound <= k)%nat -> (bound <= k')%nat -> mrun k mr h = mrun k' mr h.
  Proof.
    induction h as [|o h IH]; intros mr HR.
    - exists O. intros; reflexivity.
    - destruct (mstep_fuel_irrelevant mr o HR) as (b1 & Hb1).
      destruct (mstep b1 mr o) as [[mr' x]|] eqn:E1.
      + assert (HR' : reachable mr') by (econstructor; eauto).
        destruct (IH mr' HR') as (b2 & Hb2). exists (Nat.max b1 b2). intros k k' Hk Hk'.
        unfold Reachable.mrun. cbn [run].
        pose proof (Hb1 k b1 ltac:(lia) (le_n _)) as Ek. pose proof (Hb1 k' b1 ltac:(lia) (le_n _)) as Ek'.
        rewrite E1 in Ek, Ek'. unfold Reachable.mstep in Ek, Ek'. rewrite Ek, Ek'.
        pose proof (Hb2 k k' ltac:(lia) ltac:(lia)) as Er. unfold Reachable.mrun in Er. rewrite Er. reflexivity.
      + exists b1. intros k k' Hk Hk'. unfold Reachable.mrun. cbn [run].
        pose proof (Hb1 k b1 Hk (le_n _)) as Ek. pose proof (Hb1 k' b1 Hk' (le_n _)) as Ek'.
        rewrite E1 in Ek, Ek'. unfold Reachable.mstep in Ek, Ek'. rewrite Ek, Ek'. reflexivity.
  Qed.
End MMono.
