From Coq Require Import Arith NArith Bool Lia List.
Require Import Canon SemTk TableProto BddBase BddIte Glue.
Import ListNotations.
Local Open Scope N_scope.

(* The pinned commit's apply_ite: identical to the model's `ite` except for the shortcut ite(F,0,F) => F *)
Section P.
  Context {SO : StoreOps}.
  Fixpoint ite_pinned (fuel : nat) (s : st) (f g h : ref) : option (st * ref) :=
    match fuel with O => None | S fuel =>
    if is_one f then Some (s, g) else
    if is_zero f then Some (s, h) else
    if ref_eqb g h then Some (s, g) else
    if is_one g && is_zero h then Some (s, f) else
    if is_zero g && is_one h then Some (s, rneg f) else
    if is_one g && ref_eqb h (rneg f) then Some (s, one) else
    if ref_eqb g f && is_one h then Some (s, one) else
    if ref_eqb g (rneg f) && is_zero h then Some (s, zero) else
    if is_zero g && ref_eqb h f then Some (s, f) (* <- pinned: "ite(F,0,F) => F" *) else
    ite fuel s f g h
    end.
End P.

(* faithful run on the concrete manager: x1 := var 1; r := ite_pinned(x1, 0, x1) *)
Definition pinned_run : option (N * bool) :=
  match run nhash khash 100 (init 65535 65535 1048576, []) [HVar 1] with
  | Some (s, [Some x1]) =>
    match @ite_pinned (concrete_ops nhash khash) 100 s x1 zero x1 with Some (_, r) => Some (idx r, neg r) | None => None end
  | _ => None
  end.

(* the result is the handle of x1 itself ... *)
Example pinned_returns_f : pinned_run = Some (2, false).
Proof. vm_compute. reflexivity. Qed.

(* ... whereas (F and 0) or (not F and F) is the constant false: the property fails for f = x1, g = 0, h = x1 *)
Theorem ite_F0F_refuted : exists (F : bfun) (e : env), (if F e then false else F e) <> F e.
Proof. exists (fun e => e 1), (fun _ => true). cbn. discriminate. Qed.

(* the same witness on ite_constant's rule table: the value is the constant false, the pinned code answers None *)
Theorem itec_F0F_refuted : exists F : bfun, (forall e, (if F e then false else F e) = false) /\ ~ (forall e, F e = false).
Proof. exists (fun e => e 1). split; [intro e; now destruct (e 1)|]. intro H. specialize (H (fun _ => true)). discriminate. Qed.
Print Assumptions pinned_returns_f.
