From Coq Require Import Arith NArith Bool Lia List.
Require Import Canon SemTk TableProto BddBase BddIte BddEval Glue Hashes Machine CoqEval.
Import ListNotations.
Local Open Scope N_scope.

(* Faithful models of the PINNED commit's (8fe5657) apply_ite and ite_constant, which differ from the repaired code
   modelled in BddBase.v in exactly the places marked below, with witnesses that the pinned code violates C02 / C12.
   The witnesses were replayed on the real crate (corpus/bdd/defect-*.hist) and the crate was repaired by the `fix:`
   commits 8410430 and e99e98a; these files stay as the record of what the theorems excluded. *)
Section P.
  Context {SO : StoreOps}.
  (* pinned apply_ite: identical to the model's `ite` except for the shortcut ite(F,0,F) => F *)
  Definition ite_pinned (fuel : nat) (s : st) (f g h : ref) : option (st * ref) :=
    if is_one f then Some (s, g) else
    if is_zero f then Some (s, h) else
    if ref_eqb g h then Some (s, g) else
    if is_one g && is_zero h then Some (s, f) else
    if is_zero g && is_one h then Some (s, rneg f) else
    if is_one g && ref_eqb h (rneg f) then Some (s, one) else
    if ref_eqb g f && is_one h then Some (s, one) else
    if ref_eqb g (rneg f) && is_zero h then Some (s, zero) else
    if is_zero g && ref_eqb h f then Some (s, f) (* <- pinned: "ite(F,0,F) => F" *) else
    ite fuel s f g h.

  (* pinned ite_constant; None = out of fuel, Some (inl o) = returned o, Some (inr tt) = assertion failure (panic) *)
  Fixpoint itec_pinned (fuel : nat) (s : st) (f g h : ref) : option (option bool + unit) :=
    match fuel with O => None | S fuel =>
    if is_one f then Some (inl (maybe_constant g)) else
    if is_zero f then Some (inl (maybe_constant h)) else
    if ref_eqb g h then Some (inl (maybe_constant g)) else
    if is_one g && is_zero h then Some (inl None) else
    if is_zero g && is_one h then Some (inl None) else
    if is_one g && ref_eqb h (rneg f) then Some (inl (Some true)) else
    if ref_eqb g f && is_one h then Some (inl (Some true)) else
    if ref_eqb g (rneg f) && is_zero h then Some (inl (Some false)) else
    if is_zero g && ref_eqb h f then Some (inl None) (* <- pinned: answers None for the constant 0 *) else
    match cget s (KIte f g h) with
    | Some res => if is_term res then Some (inr tt) (* <- pinned: assert!(!is_terminal(res)) *) else Some (inl None)
    | None =>
      let i := top s f in let j := top s g in let k := top s h in
      let m := i in let m := if j =? 0 then m else N.min m j in let m := if k =? 0 then m else N.min m k in
      let '(f0, f1) := top_cofactors s f m in
      let '(g0, g1) := top_cofactors s g m in
      let '(h0, h1) := top_cofactors s h m in
      match itec_pinned fuel s f1 g1 h1 with
      | None => None
      | Some (inr tt) => Some (inr tt)
      | Some (inl None) => Some (inl None)
      | Some (inl (Some t)) =>
        match itec_pinned fuel s f0 g0 h0 with
        | None => None
        | Some (inr tt) => Some (inr tt)
        | Some (inl e) => if obool_eqb e (Some true) (* <- pinned: `e != Some(true)` *) then Some (inl (Some t)) else Some (inl None)
        end
      end
    end
    end.
End P.

Definition cfg_ops := concrete_ops nhash khash.
Definition run_default (h : list hop) := @run nhash khash memo_ref memo_dm memo_nref memo_refN 200 (init 65535 65535 65535 1048576, []) h.

(* ---- C02: apply_ite(x1, 0, x1) returns x1 at the pinned commit, the function is the constant 0 ---- *)
Definition pinned_ite_run : option (N * bool) :=
  match run_default [HVar 1] with
  | Some ((m, [Some x1]), _) =>
    match @ite_pinned cfg_ops 100 (core m) x1 zero x1 with Some (_, r) => Some (idx r, neg r) | None => None end
  | _ => None
  end.
Example pinned_ite_returns_f : pinned_ite_run = Some (2, false).      (* the handle of x1 itself *)
Proof. vm_compute. reflexivity. Qed.
Theorem ite_F0F_refuted : exists (F : bfun) (e : env), (if F e then false else F e) <> F e.
Proof. exists (fun e => e 1), (fun _ => true). cbn. discriminate. Qed.
(* the repaired model on the same input returns zero *)
Example repaired_ite_returns_zero :
  match run_default [HVar 1; HConst false; HIte (0%nat, false) (1%nat, false) (0%nat, false)] with
  | Some ((_, [_; _; Some r]), _) => r = zero | _ => False end.
Proof. vm_compute. reflexivity. Qed.

(* ---- C12 (a): ite_constant(x1, 0, x1) answers None at the pinned commit; ITE(x1,0,x1) is the constant false ---- *)
Definition pinned_itec_a : option (option bool + unit) :=
  match run_default [HVar 1] with
  | Some ((m, [Some x1]), _) => @itec_pinned cfg_ops 100 (core m) x1 zero x1
  | _ => None
  end.
Example itec_F0F_refuted : pinned_itec_a = Some (inl None).
Proof. vm_compute. reflexivity. Qed.

(* ---- C12 (b): after apply_imply(x1 & x2, x1) cached the constant-one result, is_implies(x1 & x2, x1) panics ---- *)
Definition pinned_itec_b : option (option bool + unit) :=
  match run_default [HVar 1; HVar 2; HBin BAnd (0%nat, false) (1%nat, false); HBin BImply (2%nat, false) (0%nat, false)] with
  | Some ((m, [Some x1; _; Some f; _]), _) => @itec_pinned cfg_ops 100 (core m) f x1 one
  | _ => None
  end.
Example itec_cached_terminal_panics : pinned_itec_b = Some (inr tt).
Proof. vm_compute. reflexivity. Qed.

(* ---- C12 (c): ite_constant(x1 | x2, ~x1 & x2, ~x1) answers Some(false) for a function that is not constant ---- *)
Definition pinned_itec_c : option (option bool + unit) :=
  match run_default [HVar 1; HVar 2; HBin BOr (0%nat, false) (1%nat, false); HBin BAnd (0%nat, true) (1%nat, false)] with
  | Some ((m, [Some x1; _; Some f; Some g]), _) => @itec_pinned cfg_ops 100 (core m) f g (rneg x1)
  | _ => None
  end.
Example itec_wrong_false : pinned_itec_c = Some (inl (Some false)).
Proof. vm_compute. reflexivity. Qed.
(* ITE(x1|x2, ~x1&x2, ~x1) is not constant: it is true at x1=0,x2=0 ... wait: f=0 there, so h = ~x1 = 1; and false at x1=1 *)
Theorem itec_c_not_constant :
  let F := fun e : env => if (e 1 || e 2) then (negb (e 1) && e 2) else negb (e 1) in
  F (fun _ => false) = true /\ F (fun _ => true) = false.
Proof. cbn. split; reflexivity. Qed.
(* the repaired model answers correctly on all three *)
Example repaired_itec_ok :
  match run_default [HVar 1; HVar 2; HConst false; HBin BOr (0%nat, false) (1%nat, false); HBin BAnd (0%nat, true) (1%nat, false);
                     HBin BAnd (0%nat, false) (1%nat, false); HBin BImply (5%nat, false) (0%nat, false);
                     HItec (0%nat, false) (2%nat, false) (0%nat, false);
                     HImplies (5%nat, false) (0%nat, false);
                     HItec (3%nat, false) (4%nat, false) (0%nat, true)] with
  | Some (_, outs) => skipn 7 outs = [OOptBool (Some false); OBool true; OOptBool None]
  | None => False
  end.
Proof. vm_compute. reflexivity. Qed.
Print Assumptions itec_cached_terminal_panics.
