From Coq Require Import NArith Bool Lia List.
Require Import TableProto RawProto.
Import ListNotations.
Local Open Scope N_scope.

(* src/raw.rs AS PINNED (before the repair): find_or_free reserves one slot only, find asserts free != 0 before
   testing len, insert on an existing key goes through insert_in_slot.  Keys = payloads = N, hash = identity. *)
Arguments rcap {K P}. Arguments rlen {K P}. Arguments rfree {K P}. Arguments slots {K P}.
Arguments status {K P}. Arguments sval {K P}. Arguments set_slot {K P}.
Arguments ROk {A}. Arguments Uninit {A}. Arguments Hang {A}. Arguments AssertFailed {A}.
Definition K := N. Definition P := N.
Definition hash (k : K) : N := k.
Notation rawN := (raw K P).

Definition find_or_free_pinned (t : rawN) (k : K) : out (rawN * (N + N)) :=
  obind (reserve K P t 1) (fun t1 =>
  obind (probe_free K P N.eqb hash (N.to_nat (rcap t1)) t1 k (N.land (hash k) (rcap t1 - 1)) None) (fun r => ROk (t1, r))).
(* debug build: the assertion in insert_in_slot; release build: it is compiled out *)
Definition insert_in_slot_rel (t : rawN) (k : K) (p : P) (i : N) : rawN :=
  let s := tget (slots t) i in
  set_slot t i {| status := st_of K hash k; sval := Some (k, p) |} (rlen t + 1)
             (if status s =? DEAD then rfree t else rfree t - 1).
Definition insert_pinned (debug : bool) (t : rawN) (k : K) (p : P) : out rawN :=
  obind (find_or_free_pinned t k) (fun x =>
    match x with
    | (t1, inl i) | (t1, inr i) =>
      if debug then insert_in_slot K P hash t1 k p i else ROk (insert_in_slot_rel t1 k p i)
    end).
Definition find_pinned (debug : bool) (t : rawN) (k : K) : out (option N) :=
  if debug && (rfree t =? 0) then AssertFailed          (* debug_assert_ne!(self.free, 0) comes first *)
  else if rlen t =? 0 then ROk None
  else probe K P N.eqb (N.to_nat (rcap t)) t k (N.land (hash k) M63) (N.land (hash k) (rcap t - 1)).

Definition after (debug : bool) (l : list (K * P)) : out rawN :=
  fold_left (fun acc kp => obind acc (fun t => insert_pinned debug t (fst kp) (snd kp))) l (ROk (new_raw K P)).

(* C19 refuted at the pinned commit: one insertion fills the only slot, and a lookup of an absent key
   then finds no FREE slot to stop at: the release build probes forever, the debug build asserts. *)
Example find_hangs_refuted :
  match after false [(1, 10)] with
  | ROk t => rfree t = 0 /\ find_pinned false t 2 = Hang /\ find_pinned true t 2 = AssertFailed
  | _ => False
  end.
Proof. vm_compute. repeat split. Qed.
(* even a table that was never used trips the debug assertion *)
Example find_fresh_asserts : find_pinned true (new_raw K P) 1 = AssertFailed.
Proof. reflexivity. Qed.
(* inserting an existing key counts it twice: len = 2 with one occupied slot (release), assertion (debug) *)
Example insert_existing_refuted :
  match after false [(7, 1); (7, 2)] with
  | ROk t => rlen t = 2 /\ length (occ_vals K P t (N.to_nat (rcap t))) = 1%nat
  | _ => False
  end /\ after true [(7, 1); (7, 2)] = AssertFailed.
Proof. vm_compute. repeat split. Qed.
(* the repaired operations on the same inputs *)
Example repaired_ok :
  match insert K P N.eqb hash (new_raw K P) 1 10 with
  | ROk (t, _) => find K P N.eqb hash t 2 = ROk None /\
                 match insert K P N.eqb hash t 1 11 with ROk (t', inl _) => rlen t' = 1 | _ => False end
  | _ => False end.
Proof. vm_compute. split; reflexivity. Qed.
