From Coq Require Import Arith NArith ZArith Bool Lia List.
Require Import Canon SemTk TableProto CacheProto RawProto EdaProto SignalProto BddBase Hashes Standalone.
Import ListNotations.
Local Open Scope N_scope.

(* Facts about the executable instances of Standalone.v that the property files C17-C20 quote. *)

(* ---- the table created by Table::new / with_buckets satisfies the invariants (non-vacuity of C17's hypotheses) ---- *)
Definition nopin : N -> bool := fun _ => false.
Lemma tbl_new_inv (hash : N -> N) bits bb : 1 <= 2 ^ bits -> AInv (tbl_new bits bb) /\ TableProto.CInv N hash nopin (tbl_new bits bb).
Proof.
  intro Hcap.
  assert (Hd : forall i, tget (data (tbl_new bits bb)) i = if i =? 0 then {| value := 0; next := 0; occ := true |} else {| value := 0; next := 0; occ := false |}).
  { intro i. unfold tbl_new; cbn [data]. destruct (N.eqb_spec i 0) as [->|H0]; [now rewrite tget_set_same|].
    rewrite tget_set_other by assumption. apply tget_const. }
  assert (Hocc : forall i, occupied (tbl_new bits bb) i <-> i = 0).
  { intro i. unfold occupied. rewrite Hd. destruct (N.eqb_spec i 0); cbn; intuition congruence. }
  split.
  - apply Build_AInv; cbn [tbl_new nb cap min_free last_index real_size]; try lia.
    + intros i Hi Ho. apply Hocc in Ho. lia.
    + apply Hocc. reflexivity.
    + reflexivity.
  - constructor.
    + intros b Hb. exists []. cbn [tbl_new buckets]. rewrite tget_const. split; [apply ChNil|]. split; [constructor|]. intros i [].
    + intros i (Ho & H0 & _). apply Hocc in Ho. contradiction.
    + intros i j (Ho & H0 & _). apply Hocc in Ho. contradiction.
    + intros i Hp. discriminate.
Qed.

(* ---- eda: value by direct recursion over NOT / AND / OR, and the algebras of Standalone.v ---- *)
Fixpoint dvalue (e : ebx) : option Z :=
  match e with
  | BxTerm _ t => Some t
  | BxNot _ a => match dvalue a with Some x => Some (- x)%Z | None => None end
  | BxAnd _ a b => match dvalue a, dvalue b with Some x, Some y => Some (x * y)%Z | _, _ => None end
  | BxOr _ a b => match dvalue a, dvalue b with Some x, Some y => Some (x + y)%Z | _, _ => None end
  | _ => None
  end.
Lemma fold_eval_value e : foldB Z (option Z) alg_eval e = dvalue e.
Proof.
  induction e as [t|a IHa|a IHa b IHb|a IHa b IHb|a IHa b IHb|a IHa b IHb c IHc]; cbn [foldB dvalue alg_eval map bkind bkids];
    rewrite ?IHa, ?IHb; try reflexivity; try (destruct (dvalue a); reflexivity); try (destruct (dvalue a), (dvalue b); reflexivity).
  all: destruct (dvalue a); try reflexivity; destruct (dvalue b); try reflexivity; destruct (dvalue c); reflexivity.
Qed.
(* negating ANY expression negates its value -- a bare term included (the repaired ExprBoxed::not) *)
Lemma bnot_value e : dvalue (bnot Z e) = match dvalue e with Some x => Some (- x)%Z | None => None end.
Proof.
  destruct e as [t|a|a b|a b|a b|a b c]; cbn [bnot dvalue]; try reflexivity.
  destruct (dvalue a) as [x|]; [|reflexivity]. now rewrite Z.opp_involutive.
Qed.
Lemma fold_boxed_value e : dvalue (foldB Z ebx alg_boxed e) = dvalue e.
Proof.
  induction e as [t|a IHa|a IHa b IHb|a IHa b IHb|a IHa b IHb|a IHa b IHb c IHc]; cbn [foldB alg_boxed map bkind bkids];
    rewrite ?bnot_value; cbn [dvalue]; rewrite ?IHa, ?IHb; reflexivity.
Qed.
