(* Termination of constrain and restrict: with fuel above three times the number of variable levels they yield no result
   only if the node table filled up on the way. *)
From Coq Require Import NArith Bool Lia List.
Require Import Canon SemTk BddBase BddIte BddCR BddSat BddCof BddCof2 BddCtor BddPaths BddReach BddExport BddEval BddTerm.
Import ListNotations.
Local Open Scope N_scope.

Section Term2.
  Context {SO : StoreOps} {OK : StoreOK}.

  Definition mu2 (L : N) (a b : tree) : nat := N.to_nat (L + 1 - N.min (lev L a) (lev L b)).
  Lemma mu2_le L a b : (mu2 L a b <= N.to_nat (L + 1))%nat.
  Proof. unfold mu2. lia. Qed.
  Lemma mu2_mu L a b : allle L a -> allle L b -> mu L a b Leaf = mu2 L a b.
  Proof.
    intros A B. unfold mu, mu2. cbn [lev].
    assert (lev L b <= L + 1) by (destruct b; cbn in *; lia). f_equal. lia.
  Qed.
  Ltac disc := let X := fresh "X" in intro X; discriminate X.

  (* the splitting variable of constrain / restrict is the smaller of the two levels *)
  Lemma min_top_is_minlev L s f g tf tg : Inv s -> V s f tf -> V s g tg -> idx f <> 1 -> idx g <> 1 ->
    allle L tf -> allle L tg ->
    let v := N.min (top s f) (top s g) in
    v = N.min (lev L tf) (lev L tg) /\ v <= L /\ 0 < v /\ v <= top s f /\ v <= top s g.
  Proof.
    intros HI Vf Vg Hf Hg Lf Lg v.
    destruct (top_cases _ _ _ HI Vf) as [(_ & _ & E)|(vi & ? & ? & ? & -> & Ei & Hvi & _)]; [contradiction|].
    destruct (top_cases _ _ _ HI Vg) as [(_ & _ & E)|(vj & ? & ? & ? & -> & Ej & Hvj & _)]; [contradiction|].
    destruct Lf as (Hfi & _). destruct Lg as (Hgj & _). cbn [lev]. unfold v. rewrite Ei, Ej. lia.
  Qed.

  Theorem constrain_terminates L : forall n k, (n + 1 <= k)%nat ->
    forall s f g tf tg, Inv s -> CInv s -> V s f tf -> V s g tg -> allle L tf -> allle L tg ->
    (mu2 L tf tg <= n)%nat -> constrain k s f g = None -> Stops s.
  Proof.
    induction n as [|n IH]; intros k Hk s f g tf tg HI HC Vf Vg Lf Lg Hmu; (destruct k as [|k]; [lia|]); cbn [constrain].
    all: destruct (is_zero g) eqn:G0; [disc|]; destruct (is_one g) eqn:G1; [disc|].
    all: destruct (is_term f) eqn:F0; [disc|].
    all: destruct (ref_eqb f g); [disc|]; destruct (ref_eqb f (rneg g)); [disc|].
    all: destruct (cget s (KConstrain f g)); [disc|].
    all: assert (Hfn : idx f <> 1) by (unfold is_term in F0; rewrite term_idx in F0; now apply N.eqb_neq).
    all: assert (Hgn : idx g <> 1) by (apply nonterm_of; assumption).
    all: destruct (min_top_is_minlev L s f g tf tg HI Vf Vg Hfn Hgn Lf Lg) as (Emin & HvL & Hv0 & Hvf & Hvg).
    - exfalso. unfold mu2 in Hmu. rewrite <- Emin in Hmu. lia.
    - set (v := N.min (top s f) (top s g)) in *.
      destruct (top_cofactors s f v) as [f0 f1] eqn:T1. destruct (top_cofactors s g v) as [g0 g1] eqn:T2.
      destruct (tc_shape s f v tf f0 f1 HI Vf (or_intror Hvf) T1) as (a0 & a1 & Va0 & Va1 & Aa0 & Aa1 & Sa).
      destruct (tc_shape s g v tg g0 g1 HI Vg (or_intror Hvg) T2) as (b0 & b1 & Vb0 & Vb1 & Ab0 & Ab1 & Sb).
      destruct (lev_child L v tf a0 a1 Lf HvL Aa0 Aa1 Sa) as (La0 & La1 & Ea0 & Ea1).
      destruct (lev_child L v tg b0 b1 Lg HvL Ab0 Ab1 Sb) as (Lb0 & Lb1 & Eb0 & Eb1).
      assert (M00 : (mu2 L a0 b0 <= n)%nat) by (unfold mu2 in *; rewrite <- Emin in Hmu; lia).
      assert (M11 : (mu2 L a1 b1 <= n)%nat) by (unfold mu2 in *; rewrite <- Emin in Hmu; lia).
      assert (Hk' : (n + 1 <= k)%nat) by lia.
      destruct (is_zero g1); [exact (IH k Hk' s f0 g0 a0 b0 HI HC Va0 Vb0 La0 Lb0 M00)|].
      destruct (is_zero g0); [exact (IH k Hk' s f1 g1 a1 b1 HI HC Va1 Vb1 La1 Lb1 M11)|].
      destruct (ref_eqb_spec f0 f1) as [Eq|Ne].
      + (* f does not depend on v *)
        destruct (tc_ok s f v tf HI Vf (or_intror Hvf) f0 f1 T1) as (x0 & x1 & _ & _ & _ & _ & _ & _ & _ & Hsame & _ & _).
        destruct (Hsame Eq) as (_ & _ & _ & Hab).
        assert (Hlf : v + 1 <= lev L tf) by (destruct tf; cbn in *; [lia|destruct Hab; lia]).
        assert (M0 : (mu2 L tf b0 <= n)%nat) by (unfold mu2 in *; rewrite <- Emin in Hmu; lia).
        assert (M1 : (mu2 L tf b1 <= n)%nat) by (unfold mu2 in *; rewrite <- Emin in Hmu; lia).
        destruct (constrain k s f g0) as [[s1 lo]|] eqn:C0; [|intros _; exact (IH k Hk' s f g0 tf b0 HI HC Vf Vb0 Lf Lb0 M0 C0)].
        destruct (constrain_ok _ _ _ _ _ _ _ _ HI HC C0 Vf Vb0) as (HI1 & HC1 & E1 & _).
        destruct (constrain k s1 f g1) as [[s2 hi]|] eqn:C1; [|intros _; apply (Stops_back s s1 E1); exact (IH k Hk' s1 f g1 tf b1 HI1 HC1 (V_ext _ _ _ _ E1 Vf) (V_ext _ _ _ _ E1 Vb1) Lf Lb1 M1 C1)].
        destruct (constrain_ok _ _ _ _ _ _ _ _ HI1 HC1 C1 (V_ext _ _ _ _ E1 Vf) (V_ext _ _ _ _ E1 Vb1)) as (HI2 & _ & E2 & _).
        intro Mk. apply (Stops_back s s2 (sext_trans _ _ _ E1 E2)). eapply mk_node_total; eauto.
      + destruct (constrain k s f0 g0) as [[s1 lo]|] eqn:C0; [|intros _; exact (IH k Hk' s f0 g0 a0 b0 HI HC Va0 Vb0 La0 Lb0 M00 C0)].
        destruct (constrain_ok _ _ _ _ _ _ _ _ HI HC C0 Va0 Vb0) as (HI1 & HC1 & E1 & _).
        destruct (constrain k s1 f1 g1) as [[s2 hi]|] eqn:C1; [|intros _; apply (Stops_back s s1 E1); exact (IH k Hk' s1 f1 g1 a1 b1 HI1 HC1 (V_ext _ _ _ _ E1 Va1) (V_ext _ _ _ _ E1 Vb1) La1 Lb1 M11 C1)].
        destruct (constrain_ok _ _ _ _ _ _ _ _ HI1 HC1 C1 (V_ext _ _ _ _ E1 Va1) (V_ext _ _ _ _ E1 Vb1)) as (HI2 & _ & E2 & _).
        destruct (mk_node s2 v lo hi) as [[s3 r]|] eqn:Mk; [disc|]. intros _.
        apply (Stops_back s s2 (sext_trans _ _ _ E1 E2)). eapply mk_node_total; eauto.
  Qed.
  Print Assumptions constrain_terminates.

  (* above the bound one unit of fuel less gives the same result (with FuelMono: the fuel is immaterial there) *)
  Theorem constrain_down L : forall n k, (n + 1 <= k)%nat ->
    forall s f g tf tg r, Inv s -> CInv s -> V s f tf -> V s g tg -> allle L tf -> allle L tg ->
    (mu2 L tf tg <= n)%nat -> constrain (S k) s f g = Some r -> constrain k s f g = Some r.
  Proof.
    induction n as [|n IH]; intros k Hk s f g tf tg r HI HC Vf Vg Lf Lg Hmu H; (destruct k as [|k]; [lia|]).
    all: remember (S k) as k1 eqn:Ek1; cbn [constrain] in H; rewrite Ek1; cbn [constrain].
    all: destruct (is_zero g) eqn:G0; [exact H|]; destruct (is_one g) eqn:G1; [exact H|].
    all: destruct (is_term f) eqn:F0; [exact H|].
    all: destruct (ref_eqb f g); [exact H|]; destruct (ref_eqb f (rneg g)); [exact H|].
    all: destruct (cget s (KConstrain f g)); [exact H|].
    all: assert (Hfn : idx f <> 1) by (unfold is_term in F0; rewrite term_idx in F0; now apply N.eqb_neq).
    all: assert (Hgn : idx g <> 1) by (apply nonterm_of; assumption).
    all: destruct (min_top_is_minlev L s f g tf tg HI Vf Vg Hfn Hgn Lf Lg) as (Emin & HvL & Hv0 & Hvf & Hvg).
    - exfalso. unfold mu2 in Hmu. rewrite <- Emin in Hmu. lia.
    - set (v := N.min (top s f) (top s g)) in *.
      destruct (top_cofactors s f v) as [f0 f1] eqn:T1. destruct (top_cofactors s g v) as [g0 g1] eqn:T2.
      destruct (tc_shape s f v tf f0 f1 HI Vf (or_intror Hvf) T1) as (a0 & a1 & Va0 & Va1 & Aa0 & Aa1 & Sa).
      destruct (tc_shape s g v tg g0 g1 HI Vg (or_intror Hvg) T2) as (b0 & b1 & Vb0 & Vb1 & Ab0 & Ab1 & Sb).
      destruct (lev_child L v tf a0 a1 Lf HvL Aa0 Aa1 Sa) as (La0 & La1 & Ea0 & Ea1).
      destruct (lev_child L v tg b0 b1 Lg HvL Ab0 Ab1 Sb) as (Lb0 & Lb1 & Eb0 & Eb1).
      assert (M00 : (mu2 L a0 b0 <= n)%nat) by (unfold mu2 in *; rewrite <- Emin in Hmu; lia).
      assert (M11 : (mu2 L a1 b1 <= n)%nat) by (unfold mu2 in *; rewrite <- Emin in Hmu; lia).
      assert (Hk' : (n + 1 <= k)%nat) by lia.
      destruct (is_zero g1); [rewrite Ek1 in H; exact (IH k Hk' s f0 g0 a0 b0 r HI HC Va0 Vb0 La0 Lb0 M00 H)|].
      destruct (is_zero g0); [rewrite Ek1 in H; exact (IH k Hk' s f1 g1 a1 b1 r HI HC Va1 Vb1 La1 Lb1 M11 H)|].
      destruct (ref_eqb_spec f0 f1) as [Eq|Ne].
      + destruct (tc_ok s f v tf HI Vf (or_intror Hvf) f0 f1 T1) as (x0 & x1 & _ & _ & _ & _ & _ & _ & _ & Hsame & _ & _).
        destruct (Hsame Eq) as (_ & _ & _ & Hab).
        assert (Hlf : v + 1 <= lev L tf) by (destruct tf; cbn in *; [lia|destruct Hab; lia]).
        assert (M0 : (mu2 L tf b0 <= n)%nat) by (unfold mu2 in *; rewrite <- Emin in Hmu; lia).
        assert (M1 : (mu2 L tf b1 <= n)%nat) by (unfold mu2 in *; rewrite <- Emin in Hmu; lia).
        destruct (constrain k1 s f g0) as [[s1 lo]|] eqn:C0; [|discriminate H]. rewrite Ek1 in C0.
        rewrite (IH k Hk' s f g0 tf b0 (s1, lo) HI HC Vf Vb0 Lf Lb0 M0 C0).
        destruct (constrain_ok _ _ _ _ _ _ _ _ HI HC C0 Vf Vb0) as (HI1 & HC1 & E1 & _).
        destruct (constrain k1 s1 f g1) as [[s2 hi]|] eqn:C1; [|discriminate H]. rewrite Ek1 in C1.
        rewrite (IH k Hk' s1 f g1 tf b1 (s2, hi) HI1 HC1 (V_ext _ _ _ _ E1 Vf) (V_ext _ _ _ _ E1 Vb1) Lf Lb1 M1 C1). exact H.
      + destruct (constrain k1 s f0 g0) as [[s1 lo]|] eqn:C0; [|discriminate H]. rewrite Ek1 in C0.
        rewrite (IH k Hk' s f0 g0 a0 b0 (s1, lo) HI HC Va0 Vb0 La0 Lb0 M00 C0).
        destruct (constrain_ok _ _ _ _ _ _ _ _ HI HC C0 Va0 Vb0) as (HI1 & HC1 & E1 & _).
        destruct (constrain k1 s1 f1 g1) as [[s2 hi]|] eqn:C1; [|discriminate H]. rewrite Ek1 in C1.
        rewrite (IH k Hk' s1 f1 g1 a1 b1 (s2, hi) HI1 HC1 (V_ext _ _ _ _ E1 Va1) (V_ext _ _ _ _ E1 Vb1) La1 Lb1 M11 C1). exact H.
  Qed.

  (* level bounds through the variable-set interface of the ITE postcondition *)
  Definition upto (L : N) : list N := map N.of_nat (List.seq 0%nat (S (N.to_nat L))).
  Lemma in_upto L w : In w (upto L) <-> w <= L.
  Proof.
    unfold upto. rewrite in_map_iff. split.
    - intros (x & <- & Hx). apply in_seq in Hx. lia.
    - intro H. exists (N.to_nat w). split; [lia|]. apply in_seq. lia.
  Qed.
  Lemma allle_to_tvars L t : allle L t -> tvars_in (upto L) t.
  Proof. induction t as [|v ln l IHl h IHh]; cbn; [auto|]. intros (A & B & C). splits; auto. now apply in_upto. Qed.
  Lemma tvars_to_allle L t : tvars_in (upto L) t -> allle L t.
  Proof. induction t as [|v ln l IHl h IHh]; cbn; [auto|]. intros (A & B & C). splits; auto. now apply in_upto. Qed.
  Lemma above_lev L v t : above v t -> v + 1 <= L + 1 -> v + 1 <= lev L t.
  Proof. destruct t; cbn; [auto|]. intros (A & _) _. lia. Qed.

  Theorem restrict_terminates L : forall n k, (3 * n + 4 <= k)%nat ->
    forall s f g tf tg, Inv s -> CInv s -> V s f tf -> V s g tg -> allle L tf -> allle L tg ->
    (mu2 L tf tg <= n)%nat -> restrict k s f g = None -> Stops s.
  Proof.
    induction n as [|n IH]; intros k Hk s f g tf tg HI HC Vf Vg Lf Lg Hmu; (destruct k as [|k]; [lia|]); cbn [restrict].
    all: destruct (is_zero g) eqn:G0; [disc|]; destruct (is_one g) eqn:G1; [disc|]; cbn [orb].
    all: destruct (is_term f) eqn:F0; [disc|].
    all: destruct (ref_eqb f g); [disc|]; destruct (ref_eqb f (rneg g)); [disc|].
    all: destruct (cget s (KRestrict f g)); [disc|].
    all: assert (Hfn : idx f <> 1) by (unfold is_term in F0; rewrite term_idx in F0; now apply N.eqb_neq).
    all: assert (Hgn : idx g <> 1) by (apply nonterm_of; assumption).
    all: destruct (min_top_is_minlev L s f g tf tg HI Vf Vg Hfn Hgn Lf Lg) as (Emin & HvL & Hv0 & Hvf & Hvg).
    - exfalso. unfold mu2 in Hmu. rewrite <- Emin in Hmu. lia.
    - set (v := N.min (top s f) (top s g)) in *.
      destruct (top_cofactors s f v) as [f0 f1] eqn:T1. destruct (top_cofactors s g v) as [g0 g1] eqn:T2.
      destruct (tc_shape s f v tf f0 f1 HI Vf (or_intror Hvf) T1) as (a0 & a1 & Va0 & Va1 & Aa0 & Aa1 & Sa).
      destruct (tc_shape s g v tg g0 g1 HI Vg (or_intror Hvg) T2) as (b0 & b1 & Vb0 & Vb1 & Ab0 & Ab1 & Sb).
      destruct (lev_child L v tf a0 a1 Lf HvL Aa0 Aa1 Sa) as (La0 & La1 & Ea0 & Ea1).
      destruct (lev_child L v tg b0 b1 Lg HvL Ab0 Ab1 Sb) as (Lb0 & Lb1 & Eb0 & Eb1).
      assert (M00 : (mu2 L a0 b0 <= n)%nat) by (unfold mu2 in *; rewrite <- Emin in Hmu; lia).
      assert (M11 : (mu2 L a1 b1 <= n)%nat) by (unfold mu2 in *; rewrite <- Emin in Hmu; lia).
      assert (Hk' : (3 * n + 4 <= k)%nat) by lia.
      destruct (is_zero g1); [exact (IH k Hk' s f0 g0 a0 b0 HI HC Va0 Vb0 La0 Lb0 M00)|].
      destruct (is_zero g0); [exact (IH k Hk' s f1 g1 a1 b1 HI HC Va1 Vb1 La1 Lb1 M11)|].
      destruct (N.eqb_spec v (top s f)) as [Ev|Nv].
      + destruct (restrict k s f0 g0) as [[s1 lo]|] eqn:C0; [|intros _; exact (IH k Hk' s f0 g0 a0 b0 HI HC Va0 Vb0 La0 Lb0 M00 C0)].
        destruct (restrict_ok _ _ _ _ _ _ _ _ HI HC C0 Va0 Vb0) as (HI1 & HC1 & E1 & _).
        destruct (restrict k s1 f1 g1) as [[s2 hi]|] eqn:C1; [|intros _; apply (Stops_back s s1 E1); exact (IH k Hk' s1 f1 g1 a1 b1 HI1 HC1 (V_ext _ _ _ _ E1 Va1) (V_ext _ _ _ _ E1 Vb1) La1 Lb1 M11 C1)].
        destruct (restrict_ok _ _ _ _ _ _ _ _ HI1 HC1 C1 (V_ext _ _ _ _ E1 Va1) (V_ext _ _ _ _ E1 Vb1)) as (HI2 & _ & E2 & _).
        destruct (mk_node s2 v lo hi) as [[s3 r]|] eqn:Mk; [disc|]. intros _.
        apply (Stops_back s s2 (sext_trans _ _ _ E1 E2)). eapply mk_node_total; eauto.
      + (* g's top variable is above f's: quantify it away with one disjunction *)
        assert (Hlt : v < top s f) by lia.
        assert (Hab : above v tf).
        { destruct (tc_ok s f v tf HI Vf (or_intror Hvf) f0 f1 T1) as (z0 & z1 & _ & _ & Az0 & _ & _ & _ & _ & _ & Hleaf & _).
          destruct (Hleaf (or_intror Hlt)) as (_ & _ & E0 & _). subst z0. exact Az0. }
        assert (Hlf : v + 1 <= lev L tf) by (apply above_lev; [exact Hab|lia]).
        assert (Mi : (mu L b1 Leaf b0 <= n)%nat).
        { unfold mu. cbn [lev]. unfold mu2 in Hmu. rewrite <- Emin in Hmu. lia. }
        destruct (ite k s g1 one g0) as [[s1 gg]|] eqn:I1;
          [|intros _; exact (ite_terminates L n k ltac:(lia) s g1 one g0 b1 Leaf b0 HI HC Vb1 (V_one s) Vb0 Lb1 I Lb0 Mi I1)].
        destruct (ite_ok _ _ _ _ _ _ _ _ _ _ HI HC I1 Vb1 (V_one s) Vb0) as (HI1 & HC1 & E1 & tgg & Vgg & _ & Habove & Hvars).
        assert (Agg : above v tgg) by (apply Habove; cbn; auto).
        assert (Lgg : allle L tgg) by (apply tvars_to_allle; apply Hvars; [apply allle_to_tvars; exact Lb1|exact I|apply allle_to_tvars; exact Lb0]).
        assert (Mr : (mu2 L tf tgg <= n)%nat).
        { pose proof (above_lev L v tgg Agg ltac:(lia)). unfold mu2 in *. rewrite <- Emin in Hmu. lia. }
        destruct (restrict k s1 f gg) as [[s2 r]|] eqn:C1; [disc|]. intros _.
        apply (Stops_back s s1 E1). exact (IH k Hk' s1 f gg tf tgg HI1 HC1 (V_ext _ _ _ _ E1 Vf) Vgg Lf Lgg Mr C1).
  Qed.
  Print Assumptions restrict_terminates.

  Theorem restrict_down L : forall n k, (3 * n + 4 <= k)%nat ->
    forall s f g tf tg r, Inv s -> CInv s -> V s f tf -> V s g tg -> allle L tf -> allle L tg ->
    (mu2 L tf tg <= n)%nat -> restrict (S k) s f g = Some r -> restrict k s f g = Some r.
  Proof.
    induction n as [|n IH]; intros k Hk s f g tf tg r HI HC Vf Vg Lf Lg Hmu H; (destruct k as [|k]; [lia|]).
    all: remember (S k) as k1 eqn:Ek1; cbn [restrict] in H; rewrite Ek1; cbn [restrict].
    all: destruct (is_zero g) eqn:G0; [exact H|]; destruct (is_one g) eqn:G1; [exact H|]; cbn [orb] in *.
    all: destruct (is_term f) eqn:F0; [exact H|].
    all: destruct (ref_eqb f g); [exact H|]; destruct (ref_eqb f (rneg g)); [exact H|].
    all: destruct (cget s (KRestrict f g)); [exact H|].
    all: assert (Hfn : idx f <> 1) by (unfold is_term in F0; rewrite term_idx in F0; now apply N.eqb_neq).
    all: assert (Hgn : idx g <> 1) by (apply nonterm_of; assumption).
    all: destruct (min_top_is_minlev L s f g tf tg HI Vf Vg Hfn Hgn Lf Lg) as (Emin & HvL & Hv0 & Hvf & Hvg).
    - exfalso. unfold mu2 in Hmu. rewrite <- Emin in Hmu. lia.
    - set (v := N.min (top s f) (top s g)) in *.
      destruct (top_cofactors s f v) as [f0 f1] eqn:T1. destruct (top_cofactors s g v) as [g0 g1] eqn:T2.
      destruct (tc_shape s f v tf f0 f1 HI Vf (or_intror Hvf) T1) as (a0 & a1 & Va0 & Va1 & Aa0 & Aa1 & Sa).
      destruct (tc_shape s g v tg g0 g1 HI Vg (or_intror Hvg) T2) as (b0 & b1 & Vb0 & Vb1 & Ab0 & Ab1 & Sb).
      destruct (lev_child L v tf a0 a1 Lf HvL Aa0 Aa1 Sa) as (La0 & La1 & Ea0 & Ea1).
      destruct (lev_child L v tg b0 b1 Lg HvL Ab0 Ab1 Sb) as (Lb0 & Lb1 & Eb0 & Eb1).
      assert (M00 : (mu2 L a0 b0 <= n)%nat) by (unfold mu2 in *; rewrite <- Emin in Hmu; lia).
      assert (M11 : (mu2 L a1 b1 <= n)%nat) by (unfold mu2 in *; rewrite <- Emin in Hmu; lia).
      assert (Hk' : (3 * n + 4 <= k)%nat) by lia.
      destruct (is_zero g1); [rewrite Ek1 in H; exact (IH k Hk' s f0 g0 a0 b0 r HI HC Va0 Vb0 La0 Lb0 M00 H)|].
      destruct (is_zero g0); [rewrite Ek1 in H; exact (IH k Hk' s f1 g1 a1 b1 r HI HC Va1 Vb1 La1 Lb1 M11 H)|].
      destruct (N.eqb_spec v (top s f)) as [Ev|Nv].
      + destruct (restrict k1 s f0 g0) as [[s1 lo]|] eqn:C0; [|discriminate H]. rewrite Ek1 in C0.
        rewrite (IH k Hk' s f0 g0 a0 b0 (s1, lo) HI HC Va0 Vb0 La0 Lb0 M00 C0).
        destruct (restrict_ok _ _ _ _ _ _ _ _ HI HC C0 Va0 Vb0) as (HI1 & HC1 & E1 & _).
        destruct (restrict k1 s1 f1 g1) as [[s2 hi]|] eqn:C1; [|discriminate H]. rewrite Ek1 in C1.
        rewrite (IH k Hk' s1 f1 g1 a1 b1 (s2, hi) HI1 HC1 (V_ext _ _ _ _ E1 Va1) (V_ext _ _ _ _ E1 Vb1) La1 Lb1 M11 C1). exact H.
      + assert (Hlt : v < top s f) by lia.
        assert (Hab : above v tf).
        { destruct (tc_ok s f v tf HI Vf (or_intror Hvf) f0 f1 T1) as (z0 & z1 & _ & _ & Az0 & _ & _ & _ & _ & _ & Hleaf & _).
          destruct (Hleaf (or_intror Hlt)) as (_ & _ & E0 & _). subst z0. exact Az0. }
        assert (Hlf : v + 1 <= lev L tf) by (apply above_lev; [exact Hab|lia]).
        assert (Mi : (mu L b1 Leaf b0 <= n)%nat).
        { unfold mu. cbn [lev]. unfold mu2 in Hmu. rewrite <- Emin in Hmu. lia. }
        destruct (ite k1 s g1 one g0) as [[s1 gg]|] eqn:I1; [|discriminate H]. rewrite Ek1 in I1.
        rewrite (ite_down L n k ltac:(lia) s g1 one g0 b1 Leaf b0 (s1, gg) HI HC Vb1 (V_one s) Vb0 Lb1 I Lb0 Mi I1).
        destruct (ite_ok _ _ _ _ _ _ _ _ _ _ HI HC I1 Vb1 (V_one s) Vb0) as (HI1 & HC1 & E1 & tgg & Vgg & _ & Habove & Hvars).
        assert (Agg : above v tgg) by (apply Habove; cbn; auto).
        assert (Lgg : allle L tgg) by (apply tvars_to_allle; apply Hvars; [apply allle_to_tvars; exact Lb1|exact I|apply allle_to_tvars; exact Lb0]).
        assert (Mr : (mu2 L tf tgg <= n)%nat).
        { pose proof (above_lev L v tgg Agg ltac:(lia)). unfold mu2 in *. rewrite <- Emin in Hmu. lia. }
        destruct (restrict k1 s1 f gg) as [[s2 r2]|] eqn:C1; [|discriminate H]. rewrite Ek1 in C1.
        rewrite (IH k Hk' s1 f gg tf tgg (s2, r2) HI1 HC1 (V_ext _ _ _ _ E1 Vf) Vgg Lf Lgg Mr C1). exact H.
  Qed.

  (* ---------- substitute: fuel above the height of the diagram ---------- *)
  Context {MS : Memo ref ref}.
  Theorem subst_terminates v b : forall tf k s m f, (height tf + 1 <= k)%nat -> Inv s -> SMInv s v b m -> V s f tf ->
    subst k s m f v b = None -> Stops s.
  Proof.
    induction tf as [|vi ln tl IHl th IHh]; intros k s m f Hk HI HM Vf; (destruct k as [|k]; [lia|]); cbn [subst].
    - destruct (top_leaf _ _ HI Vf) as [_ Ei].
      assert (Ht : is_term f = true) by (unfold is_term; rewrite term_idx; now apply N.eqb_eq). rewrite Ht. disc.
    - destruct (is_term f); [disc|].
      destruct (lh_ok _ _ _ _ _ _ HI Vf) as (Vl & Vh & Al & Ah & Hv0 & Ht & Sf). rewrite Ht.
      destruct (v <? vi); [disc|]. destruct (v =? vi); [disc|]. destruct (mget m f); [disc|].
      cbn [height] in Hk.
      destruct (subst k s m (low_node s f) v b) as [[[s1 m1] l']|] eqn:H1;
        [|intros _; exact (IHl k s m (low_node s f) ltac:(lia) HI HM Vl H1)].
      destruct (subst_ok v b _ _ _ _ _ _ _ _ HI HM Vl H1) as (HI1 & E1 & _ & HM1 & _).
      assert (Eh : high_node s1 f = high_node s f).
      { unfold high_node. destruct Vf as (HR & _). apply Rep_nd_inv in HR. destruct HR as (_ & l & h & Hc & _).
        rewrite Hc, (E1 _ _ Hc). reflexivity. }
      rewrite Eh.
      destruct (subst k s1 m1 (high_node s f) v b) as [[[s2 m2] h']|] eqn:H2;
        [|intros _; apply (Stops_back s s1 E1); exact (IHh k s1 m1 (high_node s f) ltac:(lia) HI1 HM1 (V_ext _ _ _ _ E1 Vh) H2)].
      destruct (subst_ok v b _ _ _ _ _ _ _ _ HI1 HM1 (V_ext _ _ _ _ E1 Vh) H2) as (HI2 & E2 & _).
      destruct (mk_node s2 vi l' h') as [[s3 r3]|] eqn:Hmk; [disc|]. intros _.
      apply (Stops_back s s2 (sext_trans _ _ _ E1 E2)). eapply mk_node_total; eauto.
  Qed.
  Print Assumptions subst_terminates.

  Theorem subst_down v b : forall tf k s m f r, (height tf + 1 <= k)%nat -> Inv s -> SMInv s v b m -> V s f tf ->
    subst (S k) s m f v b = Some r -> subst k s m f v b = Some r.
  Proof.
    induction tf as [|vi ln tl IHl th IHh]; intros k s m f r Hk HI HM Vf H; (destruct k as [|k]; [lia|]).
    all: remember (S k) as k1 eqn:Ek1; cbn [subst] in H; rewrite Ek1; cbn [subst].
    - destruct (top_leaf _ _ HI Vf) as [_ Ei].
      assert (Ht : is_term f = true) by (unfold is_term; rewrite term_idx; now apply N.eqb_eq). rewrite Ht in *. exact H.
    - destruct (is_term f); [exact H|].
      destruct (lh_ok _ _ _ _ _ _ HI Vf) as (Vl & Vh & Al & Ah & Hv0 & Ht & Sf). rewrite Ht in *.
      destruct (v <? vi); [exact H|]. destruct (v =? vi); [exact H|]. destruct (mget m f); [exact H|].
      cbn [height] in Hk.
      destruct (subst k1 s m (low_node s f) v b) as [[[s1 m1] l']|] eqn:H1; [|discriminate H]. rewrite Ek1 in H1.
      rewrite (IHl k s m (low_node s f) _ ltac:(lia) HI HM Vl H1).
      destruct (subst_ok v b _ _ _ _ _ _ _ _ HI HM Vl H1) as (HI1 & E1 & _ & HM1 & _).
      assert (Eh : high_node s1 f = high_node s f).
      { unfold high_node. destruct Vf as (HR & _). apply Rep_nd_inv in HR. destruct HR as (_ & l & h & Hc & _).
        rewrite Hc, (E1 _ _ Hc). reflexivity. }
      rewrite Eh in *.
      destruct (subst k1 s1 m1 (high_node s f) v b) as [[[s2 m2] h']|] eqn:H2; [|discriminate H]. rewrite Ek1 in H2.
      rewrite (IHh k s1 m1 (high_node s f) _ ltac:(lia) HI1 HM1 (V_ext _ _ _ _ E1 Vh) H2). exact H.
  Qed.

  (* ---------- compose: three times the number of variable levels ---------- *)
  Context {MC : Memo (ref * ref) ref}.
  Theorem compose_terminates v L : forall n k, (3 * n + 4 <= k)%nat ->
    forall s m f g tf tg, Inv s -> CInv s -> KMInv s v m -> V s f tf -> V s g tg -> allle L tf -> allle L tg ->
    (mu2 L tf tg <= n)%nat -> compose k s m f v g = None -> Stops s.
  Proof.
    induction n as [|n IH]; intros k Hk s m f g tf tg HI HC HM Vf Vg Lf Lg Hmu; (destruct k as [|k]; [lia|]); cbn [compose].
    all: destruct (is_term f) eqn:F0; [disc|].
    all: assert (Hfn : idx f <> 1) by (unfold is_term in F0; rewrite term_idx in F0; now apply N.eqb_neq).
    all: destruct tf as [|vi ln tl th]; [destruct (top_leaf _ _ HI Vf); contradiction|].
    all: destruct (lh_ok _ _ _ _ _ _ HI Vf) as (Vl & Vh & Al & Ah & Hv0 & Ht & Sf); rewrite Ht.
    all: destruct (v <? vi); [disc|]; destruct (mget m (f, g)); [disc|].
    all: pose proof Lf as (HviL & Ltl & Lth).
    - exfalso. unfold mu2 in Hmu. cbn [lev] in Hmu. lia.
    - assert (Hlg : lev L tg <= L + 1) by (destruct tg; cbn in *; lia).
      destruct (v =? vi).
      + destruct (V_children _ _ _ _ _ _ Vf) as (l & h & Hc & -> & Hreg & Vrl & Vrh & _ & _ & _).
        rewrite Hc. cbn [hi lo].
        assert (Mi : (mu L tg th tl <= S n)%nat).
        { pose proof (above_lev L vi tl Al ltac:(lia)). pose proof (above_lev L vi th Ah ltac:(lia)).
          unfold mu. unfold mu2 in Hmu. cbn [lev] in Hmu. lia. }
        destruct (ite k s g h l) as [[s1 r1]|] eqn:Hi; [disc|]. intros _.
        exact (ite_terminates L (S n) k ltac:(lia) s g h l tg th tl HI HC Vg Vrh Vrl Lg Lth Ltl Mi Hi).
      + set (mm := if is_term g then vi else N.min vi (top s g)).
        assert (Hmm : mm = N.min vi (lev L tg) /\ mm <= L /\ mm <= vi /\ (tg = Leaf \/ mm <= top s g)).
        { unfold mm. destruct (is_term g) eqn:G0.
          - assert (Eg : idx g = 1) by (unfold is_term in G0; rewrite term_idx in G0; now apply N.eqb_eq).
            pose proof (V_term _ _ _ Eg Vg) as ->. cbn [lev]. splits; auto; lia.
          - assert (Hgn : idx g <> 1) by (unfold is_term in G0; rewrite term_idx in G0; now apply N.eqb_neq).
            destruct (top_cases _ _ _ HI Vg) as [(_ & _ & E)|(vj & ? & ? & ? & -> & Ej & Hvj & _)]; [contradiction|].
            destruct Lg as (Hgj & _). cbn [lev]. rewrite Ej. splits; lia. }
        destruct Hmm as (Emm & HmL & Hmvi & Hmg).
        destruct (top_cofactors s f mm) as [f0 f1] eqn:T1. destruct (top_cofactors s g mm) as [g0 g1] eqn:T2.
        assert (Hmf : Nd vi ln tl th = Leaf \/ mm <= top s f) by (right; rewrite Ht; exact Hmvi).
        destruct (tc_shape s f mm _ f0 f1 HI Vf Hmf T1) as (a0 & a1 & Va0 & Va1 & Aa0 & Aa1 & Sa).
        destruct (tc_shape s g mm tg g0 g1 HI Vg Hmg T2) as (b0 & b1 & Vb0 & Vb1 & Ab0 & Ab1 & Sb).
        destruct (lev_child L mm _ a0 a1 Lf HmL Aa0 Aa1 Sa) as (La0 & La1 & Ea0 & Ea1).
        destruct (lev_child L mm tg b0 b1 Lg HmL Ab0 Ab1 Sb) as (Lb0 & Lb1 & Eb0 & Eb1).
        assert (M00 : (mu2 L a0 b0 <= n)%nat) by (unfold mu2 in *; cbn [lev] in Hmu; lia).
        assert (M11 : (mu2 L a1 b1 <= n)%nat) by (unfold mu2 in *; cbn [lev] in Hmu; lia).
        assert (Hk' : (3 * n + 4 <= k)%nat) by lia.
        destruct (compose k s m f0 v g0) as [[[s1 m1] h0]|] eqn:C0; [|intros _; exact (IH k Hk' s m f0 g0 a0 b0 HI HC HM Va0 Vb0 La0 Lb0 M00 C0)].
        destruct (compose_ok v _ _ _ _ _ _ _ _ _ _ HI HC HM Va0 Vb0 C0) as (HI1 & HC1 & E1 & HM1 & _).
        destruct (compose k s1 m1 f1 v g1) as [[[s2 m2] h1]|] eqn:C1;
          [|intros _; apply (Stops_back s s1 E1); exact (IH k Hk' s1 m1 f1 g1 a1 b1 HI1 HC1 HM1 (V_ext _ _ _ _ E1 Va1) (V_ext _ _ _ _ E1 Vb1) La1 Lb1 M11 C1)].
        destruct (compose_ok v _ _ _ _ _ _ _ _ _ _ HI1 HC1 HM1 (V_ext _ _ _ _ E1 Va1) (V_ext _ _ _ _ E1 Vb1) C1) as (HI2 & _ & E2 & _).
        destruct (mk_node s2 mm h0 h1) as [[s3 r]|] eqn:Mk; [disc|]. intros _.
        apply (Stops_back s s2 (sext_trans _ _ _ E1 E2)). eapply mk_node_total; eauto.
  Qed.
  Print Assumptions compose_terminates.

  Theorem compose_down v L : forall n k, (3 * n + 4 <= k)%nat ->
    forall s m f g tf tg r, Inv s -> CInv s -> KMInv s v m -> V s f tf -> V s g tg -> allle L tf -> allle L tg ->
    (mu2 L tf tg <= n)%nat -> compose (S k) s m f v g = Some r -> compose k s m f v g = Some r.
  Proof.
    induction n as [|n IH]; intros k Hk s m f g tf tg r HI HC HM Vf Vg Lf Lg Hmu H; (destruct k as [|k]; [lia|]).
    all: remember (S k) as k1 eqn:Ek1; cbn [compose] in H; rewrite Ek1; cbn [compose].
    all: destruct (is_term f) eqn:F0; [exact H|].
    all: assert (Hfn : idx f <> 1) by (unfold is_term in F0; rewrite term_idx in F0; now apply N.eqb_neq).
    all: destruct tf as [|vi ln tl th]; [destruct (top_leaf _ _ HI Vf); contradiction|].
    all: destruct (lh_ok _ _ _ _ _ _ HI Vf) as (Vl & Vh & Al & Ah & Hv0 & Ht & Sf); rewrite Ht in *.
    all: destruct (v <? vi); [exact H|]; destruct (mget m (f, g)); [exact H|].
    all: pose proof Lf as (HviL & Ltl & Lth).
    - exfalso. unfold mu2 in Hmu. cbn [lev] in Hmu. lia.
    - assert (Hlg : lev L tg <= L + 1) by (destruct tg; cbn in *; lia).
      destruct (v =? vi).
      + destruct (V_children _ _ _ _ _ _ Vf) as (l & h & Hc & -> & Hreg & Vrl & Vrh & _ & _ & _).
        rewrite Hc in *. cbn [hi lo] in *.
        assert (Mi : (mu L tg th tl <= S n)%nat).
        { pose proof (above_lev L vi tl Al ltac:(lia)). pose proof (above_lev L vi th Ah ltac:(lia)).
          unfold mu. unfold mu2 in Hmu. cbn [lev] in Hmu. lia. }
        destruct (ite k1 s g h l) as [[s1 r1]|] eqn:Hi; [|discriminate H]. rewrite Ek1 in Hi.
        rewrite (ite_down L (S n) k ltac:(lia) s g h l tg th tl (s1, r1) HI HC Vg Vrh Vrl Lg Lth Ltl Mi Hi). exact H.
      + set (mm := if is_term g then vi else N.min vi (top s g)) in *.
        assert (Hmm : mm = N.min vi (lev L tg) /\ mm <= L /\ mm <= vi /\ (tg = Leaf \/ mm <= top s g)).
        { unfold mm. destruct (is_term g) eqn:G0.
          - assert (Eg : idx g = 1) by (unfold is_term in G0; rewrite term_idx in G0; now apply N.eqb_eq).
            pose proof (V_term _ _ _ Eg Vg) as ->. cbn [lev]. splits; auto; try lia.
          - assert (Hgn : idx g <> 1) by (unfold is_term in G0; rewrite term_idx in G0; now apply N.eqb_neq).
            destruct (top_cases _ _ _ HI Vg) as [(_ & _ & E)|(vj & ? & ? & ? & -> & Ej & Hvj & _)]; [contradiction|].
            destruct Lg as (Hgj & _). cbn [lev]. rewrite Ej. splits; lia. }
        destruct Hmm as (Emm & HmL & Hmvi & Hmg).
        destruct (top_cofactors s f mm) as [f0 f1] eqn:T1. destruct (top_cofactors s g mm) as [g0 g1] eqn:T2.
        assert (Hmf : Nd vi ln tl th = Leaf \/ mm <= top s f) by (right; rewrite Ht; exact Hmvi).
        destruct (tc_shape s f mm _ f0 f1 HI Vf Hmf T1) as (a0 & a1 & Va0 & Va1 & Aa0 & Aa1 & Sa).
        destruct (tc_shape s g mm tg g0 g1 HI Vg Hmg T2) as (b0 & b1 & Vb0 & Vb1 & Ab0 & Ab1 & Sb).
        destruct (lev_child L mm _ a0 a1 Lf HmL Aa0 Aa1 Sa) as (La0 & La1 & Ea0 & Ea1).
        destruct (lev_child L mm tg b0 b1 Lg HmL Ab0 Ab1 Sb) as (Lb0 & Lb1 & Eb0 & Eb1).
        assert (M00 : (mu2 L a0 b0 <= n)%nat) by (unfold mu2 in *; cbn [lev] in Hmu; lia).
        assert (M11 : (mu2 L a1 b1 <= n)%nat) by (unfold mu2 in *; cbn [lev] in Hmu; lia).
        assert (Hk' : (3 * n + 4 <= k)%nat) by lia.
        destruct (compose k1 s m f0 v g0) as [[[s1 m1] h0]|] eqn:C0; [|discriminate H]. rewrite Ek1 in C0.
        rewrite (IH k Hk' s m f0 g0 a0 b0 _ HI HC HM Va0 Vb0 La0 Lb0 M00 C0).
        destruct (compose_ok v _ _ _ _ _ _ _ _ _ _ HI HC HM Va0 Vb0 C0) as (HI1 & HC1 & E1 & HM1 & _).
        destruct (compose k1 s1 m1 f1 v g1) as [[[s2 m2] h1]|] eqn:C1; [|discriminate H]. rewrite Ek1 in C1.
        rewrite (IH k Hk' s1 m1 f1 g1 a1 b1 _ HI1 HC1 HM1 (V_ext _ _ _ _ E1 Va1) (V_ext _ _ _ _ E1 Vb1) La1 Lb1 M11 C1). exact H.
  Qed.

  (* ---------- queries that walk one diagram: they allocate nothing, so with fuel above its height they always return ---------- *)
  Lemma leaf_terminal s r : Inv s -> V s r Leaf -> is_one r || is_zero r = true.
  Proof. intros HI HV. destruct (top_leaf _ _ HI HV) as [_ Ei]. rewrite term_idx. now apply N.eqb_eq. Qed.

  Context {MN : Memo ref N}.
  Theorem satc_returns max : forall t k s m r, (height t + 1 <= k)%nat -> Inv s -> V s r t -> satc k s m r max <> None.
  Proof.
    induction t as [|v ln tl IHl th IHh]; intros k s m r Hk HI HV; (destruct k as [|k]; [lia|]); cbn [satc].
    - pose proof (leaf_terminal s r HI HV) as Ht. destruct (is_zero r); [discriminate|]. destruct (is_one r); [discriminate|discriminate Ht].
    - destruct (is_zero r); [discriminate|]. destruct (is_one r); [discriminate|]. destruct (mget m r); [discriminate|].
      destruct (V_children _ _ _ _ _ _ HV) as (l & h & Hc & _ & _ & Vl & Vh & _). rewrite Hc. cbn [lo hi].
      cbn [height] in Hk.
      pose proof (IHl k s m l ltac:(lia) HI Vl) as H1. destruct (satc k s m l max) as [[m1 cl]|]; [|contradiction].
      pose proof (IHh k s m1 h ltac:(lia) HI Vh) as H2. destruct (satc k s m1 h max) as [[m2 ch]|]; [|contradiction]. discriminate.
  Qed.

  Theorem one_sat_returns : forall t k s r p, (height t + 1 <= k)%nat -> Inv s -> V s r t -> one_sat k s r p <> None.
  Proof.
    induction t as [|v ln tl IHl th IHh]; intros k s r p Hk HI HV; (destruct k as [|k]; [lia|]); cbn [one_sat].
    - pose proof (leaf_terminal s r HI HV) as Ht. destruct (is_zero r); [discriminate|]. destruct (is_one r); [discriminate|discriminate Ht].
    - destruct (is_zero r); [discriminate|]. destruct (is_one r); [discriminate|].
      destruct (lh_ok _ _ _ _ _ _ HI HV) as (Vl & Vh & _). cbn [height] in Hk.
      pose proof (IHh k s (high_node s r) (p ++ [(top s r, true)]) ltac:(lia) HI Vh) as H1.
      destruct (one_sat k s (high_node s r) (p ++ [(top s r, true)])) as [[res|]|]; [discriminate| |contradiction].
      exact (IHl k s (low_node s r) (p ++ [(top s r, false)]) ltac:(lia) HI Vl).
  Qed.

  Theorem to_bracket_returns : forall t k s r vis, (height t + 1 <= k)%nat -> Inv s -> V s r t -> to_bracket k s r vis <> None.
  Proof.
    induction t as [|v ln tl IHl th IHh]; intros k s r vis Hk HI HV; (destruct k as [|k]; [lia|]); cbn [to_bracket].
    - pose proof (leaf_terminal s r HI HV) as Ht. destruct (is_zero r); [discriminate|]. destruct (is_one r); [discriminate|discriminate Ht].
    - destruct (is_zero r); [discriminate|]. destruct (is_one r); [discriminate|]. destruct (memN (idx r) vis); [discriminate|].
      destruct (V_children _ _ _ _ _ _ HV) as (l & h & Hc & _ & _ & Vl & Vh & _). rewrite Hc. cbn [lo hi var].
      cbn [height] in Hk.
      pose proof (IHh k s h (idx r :: vis) ltac:(lia) HI Vh) as H1. destruct (to_bracket k s h (idx r :: vis)) as [[tk1 vis1]|]; [|contradiction].
      pose proof (IHl k s l vis1 ltac:(lia) HI Vl) as H2. destruct (to_bracket k s l vis1) as [[tk2 vis2]|]; [|contradiction]. discriminate.
  Qed.

  (* ---------- descendants (breadth-first search): fuel three times the number of stored cells plus the queue ---------- *)
  Definition unv (univ visited : list N) : nat := length (filter (fun j => negb (memN j visited)) univ).
  Lemma unv_shrink univ visited i : In i univ -> memN i visited = false -> (unv univ (i :: visited) < unv univ visited)%nat.
  Proof.
    unfold unv. induction univ as [|a u IH]; intros Hin Hm; [destruct Hin|]. cbn [filter].
    assert (Hle : forall l, (length (filter (fun j => negb (memN j (i :: visited))) l) <= length (filter (fun j => negb (memN j visited)) l))%nat).
    { induction l as [|b l IHl]; cbn [filter]; [lia|]. unfold memN at 1. cbn [existsb]. fold (memN b visited).
      destruct (N.eqb b i); cbn [orb negb]; destruct (memN b visited); cbn [negb length]; lia. }
    destruct Hin as [->|Hin].
    - unfold memN at 1. cbn [existsb]. rewrite N.eqb_refl. cbn [orb negb]. rewrite Hm. cbn [negb length]. specialize (Hle u). lia.
    - specialize (IH Hin Hm). unfold memN at 1. cbn [existsb]. fold (memN a visited).
      destruct (N.eqb a i); cbn [orb negb]; destruct (memN a visited); cbn [negb length]; try lia. all: specialize (Hle u); lia.
  Qed.
  Lemma unv_le univ visited : (unv univ visited <= length univ)%nat.
  Proof. unfold unv. induction univ as [|a u IH]; cbn [filter length]; [lia|]. destruct (negb (memN a visited)); cbn [length]; lia. Qed.
  Theorem bfs_returns univ : forall fuel s visited queue, closed s -> In 1 visited ->
    (forall i n, cell s i = Some n -> In i univ) -> (forall i, In i queue -> okidx s i) ->
    (3 * unv univ visited + length queue + 1 <= fuel)%nat -> bfs fuel s visited queue <> None.
  Proof.
    induction fuel as [|fuel IH]; intros s visited queue Hcl H1 Hu Hq Hf; [lia|]. cbn [bfs].
    destruct queue as [|i q]; [discriminate|]. cbn [length] in Hf.
    destruct (memN i visited) eqn:Hm.
    - apply IH; auto; [intros j Hj; apply Hq; right; exact Hj|lia].
    - destruct (Hq i (or_introl eq_refl)) as [->|(n & Hc)].
      + apply memN_spec in H1. congruence.
      + rewrite Hc. pose proof (unv_shrink univ visited i (Hu _ _ Hc) Hm) as Hs.
        apply IH; auto.
        * right; exact H1.
        * intros j Hj. apply in_app_or in Hj. destruct Hj as [Hj|[<-|[<-|[]]]]; [apply Hq; right; exact Hj| |].
          -- apply (Hcl i). exists n. auto.
          -- apply (Hcl i). exists n. auto.
        * rewrite app_length. cbn [length]. lia.
  Qed.

  (* ---------- the paths iterator: fuel above the weight of the pending stack (tree size: the number of paths is its running time) ---------- *)
  Fixpoint wt (t : tree) : nat := match t with Leaf => 1 | Nd _ _ l h => S (wt l + wt h) end.
  Definition W (ts : list tree) : nat := fold_right (fun t a => (wt t + a)%nat) O ts.
  Definition SOK (s : st) (stack : list (ref * path)) (ts : list tree) : Prop := Forall2 (fun x t => V s (fst x) t) stack ts.
  Lemma pnext_progress : forall fuel s stack ts, Inv s -> SOK s stack ts -> (W ts + 1 <= fuel)%nat ->
    exists o stack' ts', pnext fuel s stack = Some (o, stack') /\ SOK s stack' ts' /\ (W ts' <= W ts)%nat /\ (o <> None -> (W ts' < W ts)%nat).
  Proof.
    induction fuel as [|fuel IH]; intros s stack ts HI HS Hf; [lia|]. cbn [pnext].
    destruct HS as [|[node p] t rest ts' Hx Hrest].
    - exists None, [], []. splits; auto; [constructor|congruence].
    - cbn [fst] in Hx. cbn [W fold_right] in Hf. fold (W ts') in Hf.
      assert (Hw : (1 <= wt t)%nat) by (destruct t; cbn; lia).
      destruct (is_zero node) eqn:Z.
      { destruct (IH s rest ts' HI Hrest ltac:(lia)) as (o & st' & ts2 & E & S2 & Wle & Wlt).
        exists o, st', ts2. splits; auto; cbn [W fold_right]; fold (W ts'); [lia|intro Ho; specialize (Wlt Ho); lia]. }
      destruct (is_one node) eqn:O1.
      { exists (Some p), rest, ts'. splits; auto; cbn [W fold_right]; fold (W ts'); lia. }
      destruct t as [|v ln tl th].
      { pose proof (leaf_terminal s node HI Hx) as Ht. rewrite O1, Z in Ht. discriminate Ht. }
      destruct (lh_ok _ _ _ _ _ _ HI Hx) as (Vl & Vh & _).
      destruct (IH s ((low_node s node, p ++ [(top s node, false)]) :: (high_node s node, p ++ [(top s node, true)]) :: rest) (tl :: th :: ts') HI) as (o & st' & ts2 & E & S2 & Wle & Wlt).
      { constructor; [exact Vl|]. constructor; [exact Vh|exact Hrest]. }
      { cbn [W fold_right wt] in *. fold (W ts') in *. lia. }
      exists o, st', ts2. splits; auto; cbn [W fold_right wt] in *; fold (W ts') in *; [lia|intro Ho; specialize (Wlt Ho); lia].
  Qed.
  Theorem pall_returns : forall n fuel s stack ts, Inv s -> SOK s stack ts -> (W ts + 1 <= n)%nat -> (W ts + 1 <= fuel)%nat ->
    pall n fuel s stack <> None.
  Proof.
    induction n as [|n IH]; intros fuel s stack ts HI HS Hn Hf; [lia|]. cbn [pall].
    destruct (pnext_progress fuel s stack ts HI HS Hf) as (o & st' & ts2 & E & S2 & Wle & Wlt). rewrite E.
    destruct o as [p|]; [|discriminate].
    specialize (Wlt ltac:(discriminate)).
    pose proof (IH fuel s st' ts2 HI S2 ltac:(lia) ltac:(lia)) as H. destruct (pall n fuel s st'); [discriminate|contradiction].
  Qed.

  (* ---------- substitute_multi and cofactor_cube ---------- *)
  Theorem smulti_terminates vl : forall tf k s m f, (height tf + 1 <= k)%nat -> Inv s -> MMInv s vl m -> V s f tf ->
    smulti k s m f vl = None -> Stops s.
  Proof.
    induction tf as [|vi ln tl IHl th IHh]; intros k s m f Hk HI HM Vf; (destruct k as [|k]; [lia|]); cbn [smulti].
    - destruct (top_leaf _ _ HI Vf) as [_ Ei].
      assert (Ht : is_term f = true) by (unfold is_term; rewrite term_idx; now apply N.eqb_eq). rewrite Ht. disc.
    - destruct (is_term f); [disc|]. destruct vl as [|x vl']; [disc|]. destruct (mget m f); [disc|].
      destruct (lh_ok _ _ _ _ _ _ HI Vf) as (Vl & Vh & Al & Ah & Hv0 & Ht & Sf). rewrite Ht. cbn [height] in Hk.
      destruct (vget (x :: vl') vi) as [b|].
      + destruct b.
        * destruct (smulti k s m (high_node s f) (x :: vl')) as [[[s1 m1] r]|] eqn:H1; [disc|]. intros _.
          exact (IHh k s m (high_node s f) ltac:(lia) HI HM Vh H1).
        * destruct (smulti k s m (low_node s f) (x :: vl')) as [[[s1 m1] r]|] eqn:H1; [disc|]. intros _.
          exact (IHl k s m (low_node s f) ltac:(lia) HI HM Vl H1).
      + destruct (smulti k s m (low_node s f) (x :: vl')) as [[[s1 m1] l']|] eqn:H1;
          [|intros _; exact (IHl k s m (low_node s f) ltac:(lia) HI HM Vl H1)].
        destruct (smulti_ok _ _ _ _ _ _ _ _ _ HI HM Vl H1) as (HI1 & E1 & _ & HM1 & _).
        assert (Eh : high_node s1 f = high_node s f).
        { unfold high_node. destruct Vf as (HR & _). apply Rep_nd_inv in HR. destruct HR as (_ & l & h & Hc & _).
          rewrite Hc, (E1 _ _ Hc). reflexivity. }
        rewrite Eh.
        destruct (smulti k s1 m1 (high_node s f) (x :: vl')) as [[[s2 m2] h']|] eqn:H2;
          [|intros _; apply (Stops_back s s1 E1); exact (IHh k s1 m1 (high_node s f) ltac:(lia) HI1 HM1 (V_ext _ _ _ _ E1 Vh) H2)].
        destruct (smulti_ok _ _ _ _ _ _ _ _ _ HI1 HM1 (V_ext _ _ _ _ E1 Vh) H2) as (HI2 & E2 & _).
        destruct (mk_node s2 vi l' h') as [[s3 r3]|] eqn:Hmk; [disc|]. intros _.
        apply (Stops_back s s2 (sext_trans _ _ _ E1 E2)). eapply mk_node_total; eauto.
  Qed.

  Theorem smulti_down vl : forall tf k s m f r, (height tf + 1 <= k)%nat -> Inv s -> MMInv s vl m -> V s f tf ->
    smulti (S k) s m f vl = Some r -> smulti k s m f vl = Some r.
  Proof.
    induction tf as [|vi ln tl IHl th IHh]; intros k s m f r Hk HI HM Vf H; (destruct k as [|k]; [lia|]).
    all: remember (S k) as k1 eqn:Ek1; cbn [smulti] in H; rewrite Ek1; cbn [smulti].
    - destruct (top_leaf _ _ HI Vf) as [_ Ei].
      assert (Ht : is_term f = true) by (unfold is_term; rewrite term_idx; now apply N.eqb_eq). rewrite Ht in *. exact H.
    - destruct (is_term f); [exact H|]. destruct vl as [|x vl']; [exact H|]. destruct (mget m f); [exact H|].
      destruct (lh_ok _ _ _ _ _ _ HI Vf) as (Vl & Vh & Al & Ah & Hv0 & Ht & Sf). rewrite Ht in *. cbn [height] in Hk.
      destruct (vget (x :: vl') vi) as [b|].
      + destruct b.
        * destruct (smulti k1 s m (high_node s f) (x :: vl')) as [[[s1 m1] r1]|] eqn:H1; [|discriminate H]. rewrite Ek1 in H1.
          rewrite (IHh k s m (high_node s f) _ ltac:(lia) HI HM Vh H1). exact H.
        * destruct (smulti k1 s m (low_node s f) (x :: vl')) as [[[s1 m1] r1]|] eqn:H1; [|discriminate H]. rewrite Ek1 in H1.
          rewrite (IHl k s m (low_node s f) _ ltac:(lia) HI HM Vl H1). exact H.
      + destruct (smulti k1 s m (low_node s f) (x :: vl')) as [[[s1 m1] l']|] eqn:H1; [|discriminate H]. rewrite Ek1 in H1.
        rewrite (IHl k s m (low_node s f) _ ltac:(lia) HI HM Vl H1).
        destruct (smulti_ok _ _ _ _ _ _ _ _ _ HI HM Vl H1) as (HI1 & E1 & _ & HM1 & _).
        assert (Eh : high_node s1 f = high_node s f).
        { unfold high_node. destruct Vf as (HR & _). apply Rep_nd_inv in HR. destruct HR as (_ & l & h & Hc & _).
          rewrite Hc, (E1 _ _ Hc). reflexivity. }
        rewrite Eh in *.
        destruct (smulti k1 s1 m1 (high_node s f) (x :: vl')) as [[[s2 m2] h']|] eqn:H2; [|discriminate H]. rewrite Ek1 in H2.
        rewrite (IHh k s1 m1 (high_node s f) _ ltac:(lia) HI1 HM1 (V_ext _ _ _ _ E1 Vh) H2). exact H.
  Qed.

  Context {MQ : Memo (nat * ref) ref}.
  Theorem ccube_terminates c0 : forall n k, (n + 1 <= k)%nat -> forall s m f cube tf lb,
    (height tf + length cube <= n)%nat -> Inv s -> QMInv s c0 m -> V s f tf -> (exists pre, c0 = pre ++ cube) -> asc_cube lb cube ->
    ccube k s m f cube = None -> Stops s.
  Proof.
    induction n as [|n IH]; intros k Hk s m f cube tf lb Hm HI HM Vf Hsuf Hasc; (destruct k as [|k]; [lia|]); cbn [ccube].
    all: destruct cube as [|[u b] rest]; [disc|].
    - cbn [length] in Hm. lia.
    - destruct (is_term f) eqn:F0; [disc|].
      assert (Hfn : idx f <> 1) by (unfold is_term in F0; rewrite term_idx in F0; now apply N.eqb_neq).
      destruct tf as [|vi ln tl th]; [destruct (top_leaf _ _ HI Vf); contradiction|].
      destruct (mget m (length ((u, b) :: rest), f)); [disc|].
      destruct (lh_ok _ _ _ _ _ _ HI Vf) as (Vl & Vh & Al & Ah & Hv0 & Ht & Sf). rewrite Ht.
      cbn [height length] in Hm. destruct Hasc as [Hlu Hasc'].
      assert (Hsuf' : exists pre, c0 = pre ++ rest).
      { destruct Hsuf as [pre ->]. exists (pre ++ [(u, b)]). rewrite <- app_assoc. reflexivity. }
      assert (Hk' : (n + 1 <= k)%nat) by lia.
      destruct (u <? vi).
      { destruct (ccube k s m f rest) as [[[s1 m1] r]|] eqn:H1; [disc|]. intros _.
        exact (IH k Hk' s m f rest (Nd vi ln tl th) u ltac:(cbn [height]; lia) HI HM Vf Hsuf' Hasc' H1). }
      destruct (vi =? u).
      { destruct b.
        - destruct (ccube k s m (high_node s f) rest) as [[[s1 m1] r]|] eqn:H1; [disc|]. intros _.
          exact (IH k Hk' s m (high_node s f) rest th u ltac:(lia) HI HM Vh Hsuf' Hasc' H1).
        - destruct (ccube k s m (low_node s f) rest) as [[[s1 m1] r]|] eqn:H1; [disc|]. intros _.
          exact (IH k Hk' s m (low_node s f) rest tl u ltac:(lia) HI HM Vl Hsuf' Hasc' H1). }
      assert (Hasc0 : asc_cube lb ((u, b) :: rest)) by (split; assumption).
      destruct (ccube k s m (low_node s f) ((u, b) :: rest)) as [[[s1 m1] l']|] eqn:H1;
        [|intros _; exact (IH k Hk' s m (low_node s f) ((u, b) :: rest) tl lb ltac:(cbn [length]; lia) HI HM Vl Hsuf Hasc0 H1)].
      destruct (ccube_ok c0 _ _ _ _ _ _ _ _ _ lb HI HM Vl Hsuf Hasc0 H1) as (HI1 & E1 & _ & HM1 & _).
      assert (Eh : high_node s1 f = high_node s f).
      { unfold high_node. destruct Vf as (HR & _). apply Rep_nd_inv in HR. destruct HR as (_ & l & h & Hc & _).
        rewrite Hc, (E1 _ _ Hc). reflexivity. }
      rewrite Eh.
      destruct (ccube k s1 m1 (high_node s f) ((u, b) :: rest)) as [[[s2 m2] h']|] eqn:H2;
        [|intros _; apply (Stops_back s s1 E1);
          exact (IH k Hk' s1 m1 (high_node s f) ((u, b) :: rest) th lb ltac:(cbn [length]; lia) HI1 HM1 (V_ext _ _ _ _ E1 Vh) Hsuf Hasc0 H2)].
      destruct (ccube_ok c0 _ _ _ _ _ _ _ _ _ lb HI1 HM1 (V_ext _ _ _ _ E1 Vh) Hsuf Hasc0 H2) as (HI2 & E2 & _).
      destruct (mk_node s2 vi l' h') as [[s3 r3]|] eqn:Hmk; [disc|]. intros _.
      apply (Stops_back s s2 (sext_trans _ _ _ E1 E2)). eapply mk_node_total; eauto.
  Qed.

  Theorem ccube_down c0 : forall n k, (n + 1 <= k)%nat -> forall s m f cube tf lb r,
    (height tf + length cube <= n)%nat -> Inv s -> QMInv s c0 m -> V s f tf -> (exists pre, c0 = pre ++ cube) -> asc_cube lb cube ->
    ccube (S k) s m f cube = Some r -> ccube k s m f cube = Some r.
  Proof.
    induction n as [|n IH]; intros k Hk s m f cube tf lb r Hm HI HM Vf Hsuf Hasc H; (destruct k as [|k]; [lia|]).
    all: remember (S k) as k1 eqn:Ek1; cbn [ccube] in H; rewrite Ek1; cbn [ccube].
    all: destruct cube as [|[u b] rest]; [exact H|].
    - cbn [length] in Hm. lia.
    - destruct (is_term f) eqn:F0; [exact H|].
      assert (Hfn : idx f <> 1) by (unfold is_term in F0; rewrite term_idx in F0; now apply N.eqb_neq).
      destruct tf as [|vi ln tl th]; [destruct (top_leaf _ _ HI Vf); contradiction|].
      destruct (mget m (length ((u, b) :: rest), f)); [exact H|].
      destruct (lh_ok _ _ _ _ _ _ HI Vf) as (Vl & Vh & Al & Ah & Hv0 & Ht & Sf). rewrite Ht in *.
      cbn [height length] in Hm. destruct Hasc as [Hlu Hasc'].
      assert (Hsuf' : exists pre, c0 = pre ++ rest).
      { destruct Hsuf as [pre ->]. exists (pre ++ [(u, b)]). rewrite <- app_assoc. reflexivity. }
      assert (Hk' : (n + 1 <= k)%nat) by lia.
      destruct (u <? vi).
      { destruct (ccube k1 s m f rest) as [[[s1 m1] r1]|] eqn:H1; [|discriminate H]. rewrite Ek1 in H1.
        rewrite (IH k Hk' s m f rest (Nd vi ln tl th) u _ ltac:(cbn [height]; lia) HI HM Vf Hsuf' Hasc' H1). exact H. }
      destruct (vi =? u).
      { destruct b.
        - destruct (ccube k1 s m (high_node s f) rest) as [[[s1 m1] r1]|] eqn:H1; [|discriminate H]. rewrite Ek1 in H1.
          rewrite (IH k Hk' s m (high_node s f) rest th u _ ltac:(lia) HI HM Vh Hsuf' Hasc' H1). exact H.
        - destruct (ccube k1 s m (low_node s f) rest) as [[[s1 m1] r1]|] eqn:H1; [|discriminate H]. rewrite Ek1 in H1.
          rewrite (IH k Hk' s m (low_node s f) rest tl u _ ltac:(lia) HI HM Vl Hsuf' Hasc' H1). exact H. }
      assert (Hasc0 : asc_cube lb ((u, b) :: rest)) by (split; assumption).
      destruct (ccube k1 s m (low_node s f) ((u, b) :: rest)) as [[[s1 m1] l']|] eqn:H1; [|discriminate H]. rewrite Ek1 in H1.
      rewrite (IH k Hk' s m (low_node s f) ((u, b) :: rest) tl lb _ ltac:(cbn [length]; lia) HI HM Vl Hsuf Hasc0 H1).
      destruct (ccube_ok c0 _ _ _ _ _ _ _ _ _ lb HI HM Vl Hsuf Hasc0 H1) as (HI1 & E1 & _ & HM1 & _).
      assert (Eh : high_node s1 f = high_node s f).
      { unfold high_node. destruct Vf as (HR & _). apply Rep_nd_inv in HR. destruct HR as (_ & l & h & Hc & _).
        rewrite Hc, (E1 _ _ Hc). reflexivity. }
      rewrite Eh in *.
      destruct (ccube k1 s1 m1 (high_node s f) ((u, b) :: rest)) as [[[s2 m2] h']|] eqn:H2; [|discriminate H]. rewrite Ek1 in H2.
      rewrite (IH k Hk' s1 m1 (high_node s f) ((u, b) :: rest) th lb _ ltac:(cbn [length]; lia) HI1 HM1 (V_ext _ _ _ _ E1 Vh) Hsuf Hasc0 H2). exact H.
  Qed.

  (* ---------- n-ary folds and expression trees: sequences of ITE calls whose results stay within the same variable levels ---------- *)
  Lemma ite_level L k s f g h tf tg th s' r : Inv s -> CInv s -> V s f tf -> V s g tg -> V s h th ->
    allle L tf -> allle L tg -> allle L th -> ite k s f g h = Some (s', r) ->
    Inv s' /\ CInv s' /\ sext s s' /\ exists tr, V s' r tr /\ allle L tr.
  Proof.
    intros HI HC Vf Vg Vh Lf Lg Lh E.
    destruct (ite_ok _ _ _ _ _ _ _ _ _ _ HI HC E Vf Vg Vh) as (HI1 & HC1 & E1 & tr & Vr & _ & _ & Hvars).
    splits; auto. exists tr. split; [exact Vr|]. apply tvars_to_allle. apply Hvars; apply allle_to_tvars; assumption.
  Qed.
  Theorem many_terminates (disj : bool) L k : (3 * N.to_nat (L + 1) + 3 <= k)%nat ->
    forall l tts s acc tacc, Inv s -> CInv s -> V s acc tacc -> allle L tacc ->
    Forall2 (fun x t => V s x t) l tts -> Forall (allle L) tts ->
    (if disj then or_many k s acc l else and_many k s acc l) = None -> Stops s.
  Proof.
    intro Hk. induction l as [|x l IH]; intros tts s acc tacc HI HC Va La Hf Hl.
    - destruct disj; cbn; disc.
    - inversion Hf as [|? tx ? tts' Vx Hf']; subst. inversion Hl as [|? ? Lx Hl']; subst.
      assert (Hstep : forall g h tg th, V s g tg -> V s h th -> allle L tg -> allle L th ->
                (forall s1 a1, ite k s acc g h = Some (s1, a1) ->
                   (if disj then or_many k s1 a1 l else and_many k s1 a1 l) = None -> Stops s) /\
                (ite k s acc g h = None -> Stops s)).
      { intros g h tg th Vg Vh Lg Lh. split.
        - intros s1 a1 E H1. destruct (ite_level L k s acc g h tacc tg th s1 a1 HI HC Va Vg Vh La Lg Lh E) as (HI1 & HC1 & E1 & tr & Vr & Lr).
          apply (Stops_back s s1 E1). apply (IH tts' s1 a1 tr HI1 HC1 Vr Lr); auto.
          clear -Hf' E1. induction Hf' as [|a b la lb Hab _ IHf]; constructor; [eapply V_ext; eauto|exact IHf].
        - exact (ite_terminates L (N.to_nat (L + 1)) k Hk s acc g h tacc tg th HI HC Va Vg Vh La Lg Lh (mu_le L tacc tg th)). }
      destruct disj; cbn [or_many and_many]; unfold apply_or, apply_and.
      + destruct (Hstep one x Leaf tx (V_one s) Vx I Lx) as [HS HN].
        destruct (ite k s acc one x) as [[s1 a1]|] eqn:E; [exact (HS s1 a1 eq_refl)|intros _; exact (HN eq_refl)].
      + destruct (Hstep x zero tx Leaf Vx (V_zero s) Lx I) as [HS HN].
        destruct (ite k s acc x zero) as [[s1 a1]|] eqn:E; [exact (HS s1 a1 eq_refl)|intros _; exact (HN eq_refl)].
  Qed.

  Fixpoint terms_lev (s : st) (L : N) (x : expr) : Prop :=
    match x with
    | ETerm r => exists t, V s r t /\ allle L t
    | ENot a => terms_lev s L a
    | EAnd a b | EOr a b | EXor a b => terms_lev s L a /\ terms_lev s L b
    end.
  Lemma terms_lev_ext s s' L x : sext s s' -> terms_lev s L x -> terms_lev s' L x.
  Proof. intro E. induction x; cbn; [intros (t & Vt & Lt); exists t; split; eauto using V_ext| |intuition|intuition|intuition]. assumption. Qed.
  Theorem eval_terminates L k : (3 * N.to_nat (L + 1) + 3 <= k)%nat ->
    forall x s, Inv s -> CInv s -> terms_lev s L x ->
    match eval k s x with
    | Some (s', r) => Inv s' /\ CInv s' /\ sext s s' /\ exists tr, V s' r tr /\ allle L tr
    | None => Stops s
    end.
  Proof.
    intro Hk.
    assert (Bin : forall a b (op : nat -> st -> ref -> ref -> option (st * ref)),
      (forall s u v tu tv, Inv s -> CInv s -> V s u tu -> V s v tv -> allle L tu -> allle L tv ->
         match op k s u v with Some (s', r) => Inv s' /\ CInv s' /\ sext s s' /\ exists tr, V s' r tr /\ allle L tr | None => Stops s end) ->
      (forall s, Inv s -> CInv s -> terms_lev s L a -> match eval k s a with Some (s', r) => Inv s' /\ CInv s' /\ sext s s' /\ exists tr, V s' r tr /\ allle L tr | None => Stops s end) ->
      (forall s, Inv s -> CInv s -> terms_lev s L b -> match eval k s b with Some (s', r) => Inv s' /\ CInv s' /\ sext s s' /\ exists tr, V s' r tr /\ allle L tr | None => Stops s end) ->
      forall s, Inv s -> CInv s -> terms_lev s L a -> terms_lev s L b ->
      match (match eval k s a with None => None | Some (s1, ra) => match eval k s1 b with None => None | Some (s2, rb) => op k s2 ra rb end end) with
      | Some (s', r) => Inv s' /\ CInv s' /\ sext s s' /\ exists tr, V s' r tr /\ allle L tr | None => Stops s end).
    { intros a b op Hop IHa IHb s HI HC Ta Tb.
      specialize (IHa s HI HC Ta). destruct (eval k s a) as [[s1 ra]|]; [|exact IHa].
      destruct IHa as (HI1 & HC1 & E1 & ta & Va & La).
      specialize (IHb s1 HI1 HC1 (terms_lev_ext _ _ _ _ E1 Tb)). destruct (eval k s1 b) as [[s2 rb]|]; [|exact (Stops_back s s1 E1 IHb)].
      destruct IHb as (HI2 & HC2 & E2 & tb & Vb & Lb).
      specialize (Hop s2 ra rb ta tb HI2 HC2 (V_ext _ _ _ _ E2 Va) Vb La Lb).
      destruct (op k s2 ra rb) as [[s3 r]|].
      - destruct Hop as (HI3 & HC3 & E3 & tr & Vr & Lr). splits; auto; [eauto using sext_trans|]. exists tr. auto.
      - exact (Stops_back s s2 (sext_trans _ _ _ E1 E2) Hop). }
    induction x as [t|a IHa|a IHa b IHb|a IHa b IHb|a IHa b IHb]; intros s HI HC HT; cbn [eval].
    - destruct HT as (tr & Vt & Lt). splits; auto using sext_refl. exists tr. auto.
    - specialize (IHa s HI HC HT). destruct (eval k s a) as [[s1 r]|]; [|exact IHa].
      destruct IHa as (HI1 & HC1 & E1 & tr & Vr & Lr). splits; auto. exists tr. split; [apply V_neg; exact Vr|exact Lr].
    - destruct HT as [Ta Tb]. apply (Bin a b apply_and); auto.
      intros s0 u v tu tv HI0 HC0 Vu Vv Lu Lv. unfold apply_and.
      destruct (ite k s0 u v zero) as [[s' r]|] eqn:E.
      + exact (ite_level L k s0 u v zero tu tv Leaf s' r HI0 HC0 Vu Vv (V_zero _) Lu Lv I E).
      + exact (ite_terminates L (N.to_nat (L + 1)) k Hk s0 u v zero tu tv Leaf HI0 HC0 Vu Vv (V_zero _) Lu Lv I (mu_le L tu tv Leaf) E).
    - destruct HT as [Ta Tb]. apply (Bin a b apply_or); auto.
      intros s0 u v tu tv HI0 HC0 Vu Vv Lu Lv. unfold apply_or.
      destruct (ite k s0 u one v) as [[s' r]|] eqn:E.
      + exact (ite_level L k s0 u one v tu Leaf tv s' r HI0 HC0 Vu (V_one _) Vv Lu I Lv E).
      + exact (ite_terminates L (N.to_nat (L + 1)) k Hk s0 u one v tu Leaf tv HI0 HC0 Vu (V_one _) Vv Lu I Lv (mu_le L tu Leaf tv) E).
    - destruct HT as [Ta Tb]. apply (Bin a b apply_xor); auto.
      intros s0 u v tu tv HI0 HC0 Vu Vv Lu Lv. unfold apply_xor.
      destruct (ite k s0 u (rneg v) v) as [[s' r]|] eqn:E.
      + exact (ite_level L k s0 u (rneg v) v tu tv tv s' r HI0 HC0 Vu (V_neg _ _ _ Vv) Vv Lu Lv Lv E).
      + exact (ite_terminates L (N.to_nat (L + 1)) k Hk s0 u (rneg v) v tu tv tv HI0 HC0 Vu (V_neg _ _ _ Vv) Vv Lu Lv Lv (mu_le L tu tv tv) E).
  Qed.

  Theorem many_down (disj : bool) L k : (3 * N.to_nat (L + 1) + 3 <= k)%nat ->
    forall l tts s acc tacc r, Inv s -> CInv s -> V s acc tacc -> allle L tacc ->
    Forall2 (fun x t => V s x t) l tts -> Forall (allle L) tts ->
    (if disj then or_many (S k) s acc l else and_many (S k) s acc l) = Some r ->
    (if disj then or_many k s acc l else and_many k s acc l) = Some r.
  Proof.
    intro Hk. induction l as [|x l IH]; intros tts s acc tacc r HI HC Va La Hf Hl H.
    - destruct disj; exact H.
    - inversion Hf as [|? tx ? tts' Vx Hf']; subst. inversion Hl as [|? ? Lx Hl']; subst.
      assert (Hstep : forall g h tg th s1 a1, V s g tg -> V s h th -> allle L tg -> allle L th ->
                ite (S k) s acc g h = Some (s1, a1) ->
                ite k s acc g h = Some (s1, a1) /\
                ((if disj then or_many (S k) s1 a1 l else and_many (S k) s1 a1 l) = Some r ->
                 (if disj then or_many k s1 a1 l else and_many k s1 a1 l) = Some r)).
      { intros g h tg th s1 a1 Vg Vh Lg Lh E. split.
        - exact (ite_down L (N.to_nat (L + 1)) k Hk s acc g h tacc tg th (s1, a1) HI HC Va Vg Vh La Lg Lh (mu_le L tacc tg th) E).
        - destruct (ite_level L (S k) s acc g h tacc tg th s1 a1 HI HC Va Vg Vh La Lg Lh E) as (HI1 & HC1 & E1 & tr & Vr & Lr).
          apply (IH tts' s1 a1 tr r HI1 HC1 Vr Lr); auto.
          clear -Hf' E1. induction Hf' as [|a b la lb Hab _ IHf]; constructor; [eapply V_ext; eauto|exact IHf]. }
      destruct disj; cbn [or_many and_many] in H |- *; unfold apply_or, apply_and in *.
      + destruct (ite (S k) s acc one x) as [[s1 a1]|] eqn:E; [|discriminate H].
        destruct (Hstep one x Leaf tx s1 a1 (V_one s) Vx I Lx E) as [E' Hrec]. rewrite E'. exact (Hrec H).
      + destruct (ite (S k) s acc x zero) as [[s1 a1]|] eqn:E; [|discriminate H].
        destruct (Hstep x zero tx Leaf s1 a1 Vx (V_zero s) Lx I E) as [E' Hrec]. rewrite E'. exact (Hrec H).
  Qed.
  Theorem eval_down L k : (3 * N.to_nat (L + 1) + 3 <= k)%nat ->
    forall x s r, Inv s -> CInv s -> terms_lev s L x -> eval (S k) s x = Some r -> eval k s x = Some r.
  Proof.
    intro Hk.
    assert (Hk1 : (3 * N.to_nat (L + 1) + 3 <= S k)%nat) by lia.
    induction x as [t|a IHa|a IHa b IHb|a IHa b IHb|a IHa b IHb]; intros s r HI HC HT H; cbn [eval] in H |- *.
    - exact H.
    - destruct (eval (S k) s a) as [[s1 r1]|] eqn:E; [|discriminate H]. rewrite (IHa s _ HI HC HT E). exact H.
    - destruct HT as [Ta Tb].
      destruct (eval (S k) s a) as [[s1 ra]|] eqn:Ea; [|discriminate H]. rewrite (IHa s _ HI HC Ta Ea).
      pose proof (eval_terminates L (S k) Hk1 a s HI HC Ta) as Pa. rewrite Ea in Pa. destruct Pa as (HI1 & HC1 & E1 & ta & Va & La).
      destruct (eval (S k) s1 b) as [[s2 rb]|] eqn:Eb; [|discriminate H]. rewrite (IHb s1 _ HI1 HC1 (terms_lev_ext _ _ _ _ E1 Tb) Eb).
      pose proof (eval_terminates L (S k) Hk1 b s1 HI1 HC1 (terms_lev_ext _ _ _ _ E1 Tb)) as Pb. rewrite Eb in Pb. destruct Pb as (HI2 & HC2 & E2 & tb & Vb & Lb).
      unfold apply_and in *. destruct r as [s3 r3].
      exact (ite_down L (N.to_nat (L + 1)) k Hk s2 ra rb zero ta tb Leaf (s3, r3) HI2 HC2 (V_ext _ _ _ _ E2 Va) Vb (V_zero _) La Lb I (mu_le L ta tb Leaf) H).
    - destruct HT as [Ta Tb].
      destruct (eval (S k) s a) as [[s1 ra]|] eqn:Ea; [|discriminate H]. rewrite (IHa s _ HI HC Ta Ea).
      pose proof (eval_terminates L (S k) Hk1 a s HI HC Ta) as Pa. rewrite Ea in Pa. destruct Pa as (HI1 & HC1 & E1 & ta & Va & La).
      destruct (eval (S k) s1 b) as [[s2 rb]|] eqn:Eb; [|discriminate H]. rewrite (IHb s1 _ HI1 HC1 (terms_lev_ext _ _ _ _ E1 Tb) Eb).
      pose proof (eval_terminates L (S k) Hk1 b s1 HI1 HC1 (terms_lev_ext _ _ _ _ E1 Tb)) as Pb. rewrite Eb in Pb. destruct Pb as (HI2 & HC2 & E2 & tb & Vb & Lb).
      unfold apply_or in *. destruct r as [s3 r3].
      exact (ite_down L (N.to_nat (L + 1)) k Hk s2 ra one rb ta Leaf tb (s3, r3) HI2 HC2 (V_ext _ _ _ _ E2 Va) (V_one _) Vb La I Lb (mu_le L ta Leaf tb) H).
    - destruct HT as [Ta Tb].
      destruct (eval (S k) s a) as [[s1 ra]|] eqn:Ea; [|discriminate H]. rewrite (IHa s _ HI HC Ta Ea).
      pose proof (eval_terminates L (S k) Hk1 a s HI HC Ta) as Pa. rewrite Ea in Pa. destruct Pa as (HI1 & HC1 & E1 & ta & Va & La).
      destruct (eval (S k) s1 b) as [[s2 rb]|] eqn:Eb; [|discriminate H]. rewrite (IHb s1 _ HI1 HC1 (terms_lev_ext _ _ _ _ E1 Tb) Eb).
      pose proof (eval_terminates L (S k) Hk1 b s1 HI1 HC1 (terms_lev_ext _ _ _ _ E1 Tb)) as Pb. rewrite Eb in Pb. destruct Pb as (HI2 & HC2 & E2 & tb & Vb & Lb).
      unfold apply_xor in *. destruct r as [s3 r3].
      exact (ite_down L (N.to_nat (L + 1)) k Hk s2 ra (rneg rb) rb ta tb tb (s3, r3) HI2 HC2 (V_ext _ _ _ _ E2 Va) (V_neg _ _ _ Vb) Vb La Lb Lb (mu_le L ta tb tb) H).
  Qed.

  (* ---------- constructors: cube / clause stop only when a put fails ---------- *)
  Lemma build_stops cl : forall l lb s, Inv s -> CInv s -> asc_lits lb l -> build cl s l = None -> Stops s.
  Proof.
    induction l as [|[v b] rest IH]; intros lb s HI HC Hasc; cbn [build]; [disc|].
    destruct Hasc as [Hv Hasc'].
    destruct (build cl s rest) as [[s1 cur]|] eqn:B; [|intros _; exact (IH v s HI HC Hasc' B)].
    destruct (build_ok cl rest v s s1 cur HI HC Hasc' B) as (HI1 & _ & E1 & _).
    intro Mk. apply (Stops_back s s1 E1).
    destruct cl, b; eapply mk_node_total; eauto.
  Qed.
End Term2.
