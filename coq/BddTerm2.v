(* Termination of constrain and restrict: with fuel above three times the number of variable levels they yield no result
   only if the node table filled up on the way. *)
From Coq Require Import NArith Bool Lia List.
Require Import Canon SemTk BddBase BddIte BddCR BddSat BddCof BddTerm.
Import ListNotations.
Local Open Scope N_scope.

Section Term2.
  Context {SO : StoreOps} {OK : StoreOK}.

  Definition mu2 (L : N) (a b : tree) : nat := N.to_nat (L + 1 - N.min (lev L a) (lev L b)).
  Lemma mu2_le L a b : (mu2 L a b <= N.to_nat (L + 1))%nat.
  Proof. unfold mu2. lia. Qed.
  Lemma mu2_mu L a b : allle L a -> allle L b -> mu L a b Leaf = mu2 L a b.
  Proof.
    intros A B. unfold mu, mu2. cbn [lev].
    assert (lev L b <= L + 1) by (destruct b; cbn in *; lia). f_equal. lia.
  Qed.
  Ltac disc := let X := fresh "X" in intro X; discriminate X.

  (* the splitting variable of constrain / restrict is the smaller of the two levels *)
  Lemma min_top_is_minlev L s f g tf tg : Inv s -> V s f tf -> V s g tg -> idx f <> 1 -> idx g <> 1 ->
    allle L tf -> allle L tg ->
    let v := N.min (top s f) (top s g) in
    v = N.min (lev L tf) (lev L tg) /\ v <= L /\ 0 < v /\ v <= top s f /\ v <= top s g.
  Proof.
    intros HI Vf Vg Hf Hg Lf Lg v.
    destruct (top_cases _ _ _ HI Vf) as [(_ & _ & E)|(vi & ? & ? & ? & -> & Ei & Hvi & _)]; [contradiction|].
    destruct (top_cases _ _ _ HI Vg) as [(_ & _ & E)|(vj & ? & ? & ? & -> & Ej & Hvj & _)]; [contradiction|].
    destruct Lf as (Hfi & _). destruct Lg as (Hgj & _). cbn [lev]. unfold v. rewrite Ei, Ej. lia.
  Qed.

  Theorem constrain_terminates L : forall n k, (n + 1 <= k)%nat ->
    forall s f g tf tg, Inv s -> CInv s -> V s f tf -> V s g tg -> allle L tf -> allle L tg ->
    (mu2 L tf tg <= n)%nat -> constrain k s f g = None -> Stops s.
  Proof.
    induction n as [|n IH]; intros k Hk s f g tf tg HI HC Vf Vg Lf Lg Hmu; (destruct k as [|k]; [lia|]); cbn [constrain].
    all: destruct (is_zero g) eqn:G0; [disc|]; destruct (is_one g) eqn:G1; [disc|].
    all: destruct (is_term f) eqn:F0; [disc|].
    all: destruct (ref_eqb f g); [disc|]; destruct (ref_eqb f (rneg g)); [disc|].
    all: destruct (cget s (KConstrain f g)); [disc|].
    all: assert (Hfn : idx f <> 1) by (unfold is_term in F0; rewrite term_idx in F0; now apply N.eqb_neq).
    all: assert (Hgn : idx g <> 1) by (apply nonterm_of; assumption).
    all: destruct (min_top_is_minlev L s f g tf tg HI Vf Vg Hfn Hgn Lf Lg) as (Emin & HvL & Hv0 & Hvf & Hvg).
    - exfalso. unfold mu2 in Hmu. rewrite <- Emin in Hmu. lia.
    - set (v := N.min (top s f) (top s g)) in *.
      destruct (top_cofactors s f v) as [f0 f1] eqn:T1. destruct (top_cofactors s g v) as [g0 g1] eqn:T2.
      destruct (tc_shape s f v tf f0 f1 HI Vf (or_intror Hvf) T1) as (a0 & a1 & Va0 & Va1 & Aa0 & Aa1 & Sa).
      destruct (tc_shape s g v tg g0 g1 HI Vg (or_intror Hvg) T2) as (b0 & b1 & Vb0 & Vb1 & Ab0 & Ab1 & Sb).
      destruct (lev_child L v tf a0 a1 Lf HvL Aa0 Aa1 Sa) as (La0 & La1 & Ea0 & Ea1).
      destruct (lev_child L v tg b0 b1 Lg HvL Ab0 Ab1 Sb) as (Lb0 & Lb1 & Eb0 & Eb1).
      assert (M00 : (mu2 L a0 b0 <= n)%nat) by (unfold mu2 in *; rewrite <- Emin in Hmu; lia).
      assert (M11 : (mu2 L a1 b1 <= n)%nat) by (unfold mu2 in *; rewrite <- Emin in Hmu; lia).
      assert (Hk' : (n + 1 <= k)%nat) by lia.
      destruct (is_zero g1); [exact (IH k Hk' s f0 g0 a0 b0 HI HC Va0 Vb0 La0 Lb0 M00)|].
      destruct (is_zero g0); [exact (IH k Hk' s f1 g1 a1 b1 HI HC Va1 Vb1 La1 Lb1 M11)|].
      destruct (ref_eqb_spec f0 f1) as [Eq|Ne].
      + (* f does not depend on v *)
        destruct (tc_ok s f v tf HI Vf (or_intror Hvf) f0 f1 T1) as (x0 & x1 & _ & _ & _ & _ & _ & _ & _ & Hsame & _ & _).
        destruct (Hsame Eq) as (_ & _ & _ & Hab).
        assert (Hlf : v + 1 <= lev L tf) by (destruct tf; cbn in *; [lia|destruct Hab; lia]).
        assert (M0 : (mu2 L tf b0 <= n)%nat) by (unfold mu2 in *; rewrite <- Emin in Hmu; lia).
        assert (M1 : (mu2 L tf b1 <= n)%nat) by (unfold mu2 in *; rewrite <- Emin in Hmu; lia).
        destruct (constrain k s f g0) as [[s1 lo]|] eqn:C0; [|intros _; exact (IH k Hk' s f g0 tf b0 HI HC Vf Vb0 Lf Lb0 M0 C0)].
        destruct (constrain_ok _ _ _ _ _ _ _ _ HI HC C0 Vf Vb0) as (HI1 & HC1 & E1 & _).
        destruct (constrain k s1 f g1) as [[s2 hi]|] eqn:C1; [|intros _; apply (Stops_back s s1 E1); exact (IH k Hk' s1 f g1 tf b1 HI1 HC1 (V_ext _ _ _ _ E1 Vf) (V_ext _ _ _ _ E1 Vb1) Lf Lb1 M1 C1)].
        destruct (constrain_ok _ _ _ _ _ _ _ _ HI1 HC1 C1 (V_ext _ _ _ _ E1 Vf) (V_ext _ _ _ _ E1 Vb1)) as (HI2 & _ & E2 & _).
        intro Mk. apply (Stops_back s s2 (sext_trans _ _ _ E1 E2)). eapply mk_node_total; eauto.
      + destruct (constrain k s f0 g0) as [[s1 lo]|] eqn:C0; [|intros _; exact (IH k Hk' s f0 g0 a0 b0 HI HC Va0 Vb0 La0 Lb0 M00 C0)].
        destruct (constrain_ok _ _ _ _ _ _ _ _ HI HC C0 Va0 Vb0) as (HI1 & HC1 & E1 & _).
        destruct (constrain k s1 f1 g1) as [[s2 hi]|] eqn:C1; [|intros _; apply (Stops_back s s1 E1); exact (IH k Hk' s1 f1 g1 a1 b1 HI1 HC1 (V_ext _ _ _ _ E1 Va1) (V_ext _ _ _ _ E1 Vb1) La1 Lb1 M11 C1)].
        destruct (constrain_ok _ _ _ _ _ _ _ _ HI1 HC1 C1 (V_ext _ _ _ _ E1 Va1) (V_ext _ _ _ _ E1 Vb1)) as (HI2 & _ & E2 & _).
        destruct (mk_node s2 v lo hi) as [[s3 r]|] eqn:Mk; [disc|]. intros _.
        apply (Stops_back s s2 (sext_trans _ _ _ E1 E2)). eapply mk_node_total; eauto.
  Qed.
  Print Assumptions constrain_terminates.

  (* level bounds through the variable-set interface of the ITE postcondition *)
  Definition upto (L : N) : list N := map N.of_nat (List.seq 0%nat (S (N.to_nat L))).
  Lemma in_upto L w : In w (upto L) <-> w <= L.
  Proof.
    unfold upto. rewrite in_map_iff. split.
    - intros (x & <- & Hx). apply in_seq in Hx. lia.
    - intro H. exists (N.to_nat w). split; [lia|]. apply in_seq. lia.
  Qed.
  Lemma allle_to_tvars L t : allle L t -> tvars_in (upto L) t.
  Proof. induction t as [|v ln l IHl h IHh]; cbn; [auto|]. intros (A & B & C). splits; auto. now apply in_upto. Qed.
  Lemma tvars_to_allle L t : tvars_in (upto L) t -> allle L t.
  Proof. induction t as [|v ln l IHl h IHh]; cbn; [auto|]. intros (A & B & C). splits; auto. now apply in_upto. Qed.
  Lemma above_lev L v t : above v t -> v + 1 <= L + 1 -> v + 1 <= lev L t.
  Proof. destruct t; cbn; [auto|]. intros (A & _) _. lia. Qed.

  Theorem restrict_terminates L : forall n k, (3 * n + 4 <= k)%nat ->
    forall s f g tf tg, Inv s -> CInv s -> V s f tf -> V s g tg -> allle L tf -> allle L tg ->
    (mu2 L tf tg <= n)%nat -> restrict k s f g = None -> Stops s.
  Proof.
    induction n as [|n IH]; intros k Hk s f g tf tg HI HC Vf Vg Lf Lg Hmu; (destruct k as [|k]; [lia|]); cbn [restrict].
    all: destruct (is_zero g) eqn:G0; [disc|]; destruct (is_one g) eqn:G1; [disc|]; cbn [orb].
    all: destruct (is_term f) eqn:F0; [disc|].
    all: destruct (ref_eqb f g); [disc|]; destruct (ref_eqb f (rneg g)); [disc|].
    all: destruct (cget s (KRestrict f g)); [disc|].
    all: assert (Hfn : idx f <> 1) by (unfold is_term in F0; rewrite term_idx in F0; now apply N.eqb_neq).
    all: assert (Hgn : idx g <> 1) by (apply nonterm_of; assumption).
    all: destruct (min_top_is_minlev L s f g tf tg HI Vf Vg Hfn Hgn Lf Lg) as (Emin & HvL & Hv0 & Hvf & Hvg).
    - exfalso. unfold mu2 in Hmu. rewrite <- Emin in Hmu. lia.
    - set (v := N.min (top s f) (top s g)) in *.
      destruct (top_cofactors s f v) as [f0 f1] eqn:T1. destruct (top_cofactors s g v) as [g0 g1] eqn:T2.
      destruct (tc_shape s f v tf f0 f1 HI Vf (or_intror Hvf) T1) as (a0 & a1 & Va0 & Va1 & Aa0 & Aa1 & Sa).
      destruct (tc_shape s g v tg g0 g1 HI Vg (or_intror Hvg) T2) as (b0 & b1 & Vb0 & Vb1 & Ab0 & Ab1 & Sb).
      destruct (lev_child L v tf a0 a1 Lf HvL Aa0 Aa1 Sa) as (La0 & La1 & Ea0 & Ea1).
      destruct (lev_child L v tg b0 b1 Lg HvL Ab0 Ab1 Sb) as (Lb0 & Lb1 & Eb0 & Eb1).
      assert (M00 : (mu2 L a0 b0 <= n)%nat) by (unfold mu2 in *; rewrite <- Emin in Hmu; lia).
      assert (M11 : (mu2 L a1 b1 <= n)%nat) by (unfold mu2 in *; rewrite <- Emin in Hmu; lia).
      assert (Hk' : (3 * n + 4 <= k)%nat) by lia.
      destruct (is_zero g1); [exact (IH k Hk' s f0 g0 a0 b0 HI HC Va0 Vb0 La0 Lb0 M00)|].
      destruct (is_zero g0); [exact (IH k Hk' s f1 g1 a1 b1 HI HC Va1 Vb1 La1 Lb1 M11)|].
      destruct (N.eqb_spec v (top s f)) as [Ev|Nv].
      + destruct (restrict k s f0 g0) as [[s1 lo]|] eqn:C0; [|intros _; exact (IH k Hk' s f0 g0 a0 b0 HI HC Va0 Vb0 La0 Lb0 M00 C0)].
        destruct (restrict_ok _ _ _ _ _ _ _ _ HI HC C0 Va0 Vb0) as (HI1 & HC1 & E1 & _).
        destruct (restrict k s1 f1 g1) as [[s2 hi]|] eqn:C1; [|intros _; apply (Stops_back s s1 E1); exact (IH k Hk' s1 f1 g1 a1 b1 HI1 HC1 (V_ext _ _ _ _ E1 Va1) (V_ext _ _ _ _ E1 Vb1) La1 Lb1 M11 C1)].
        destruct (restrict_ok _ _ _ _ _ _ _ _ HI1 HC1 C1 (V_ext _ _ _ _ E1 Va1) (V_ext _ _ _ _ E1 Vb1)) as (HI2 & _ & E2 & _).
        destruct (mk_node s2 v lo hi) as [[s3 r]|] eqn:Mk; [disc|]. intros _.
        apply (Stops_back s s2 (sext_trans _ _ _ E1 E2)). eapply mk_node_total; eauto.
      + (* g's top variable is above f's: quantify it away with one disjunction *)
        assert (Hlt : v < top s f) by lia.
        assert (Hab : above v tf).
        { destruct (tc_ok s f v tf HI Vf (or_intror Hvf) f0 f1 T1) as (z0 & z1 & _ & _ & Az0 & _ & _ & _ & _ & _ & Hleaf & _).
          destruct (Hleaf (or_intror Hlt)) as (_ & _ & E0 & _). subst z0. exact Az0. }
        assert (Hlf : v + 1 <= lev L tf) by (apply above_lev; [exact Hab|lia]).
        assert (Mi : (mu L b1 Leaf b0 <= n)%nat).
        { unfold mu. cbn [lev]. unfold mu2 in Hmu. rewrite <- Emin in Hmu. lia. }
        destruct (ite k s g1 one g0) as [[s1 gg]|] eqn:I1;
          [|intros _; exact (ite_terminates L n k ltac:(lia) s g1 one g0 b1 Leaf b0 HI HC Vb1 (V_one s) Vb0 Lb1 I Lb0 Mi I1)].
        destruct (ite_ok _ _ _ _ _ _ _ _ _ _ HI HC I1 Vb1 (V_one s) Vb0) as (HI1 & HC1 & E1 & tgg & Vgg & _ & Habove & Hvars).
        assert (Agg : above v tgg) by (apply Habove; cbn; auto).
        assert (Lgg : allle L tgg) by (apply tvars_to_allle; apply Hvars; [apply allle_to_tvars; exact Lb1|exact I|apply allle_to_tvars; exact Lb0]).
        assert (Mr : (mu2 L tf tgg <= n)%nat).
        { pose proof (above_lev L v tgg Agg ltac:(lia)). unfold mu2 in *. rewrite <- Emin in Hmu. lia. }
        destruct (restrict k s1 f gg) as [[s2 r]|] eqn:C1; [disc|]. intros _.
        apply (Stops_back s s1 E1). exact (IH k Hk' s1 f gg tf tgg HI1 HC1 (V_ext _ _ _ _ E1 Vf) Vgg Lf Lgg Mr C1).
  Qed.
  Print Assumptions restrict_terminates.

  (* ---------- substitute: fuel above the height of the diagram ---------- *)
  Context {MS : Memo ref ref}.
  Theorem subst_terminates v b : forall tf k s m f, (height tf + 1 <= k)%nat -> Inv s -> SMInv s v b m -> V s f tf ->
    subst k s m f v b = None -> Stops s.
  Proof.
    induction tf as [|vi ln tl IHl th IHh]; intros k s m f Hk HI HM Vf; (destruct k as [|k]; [lia|]); cbn [subst].
    - destruct (top_leaf _ _ HI Vf) as [_ Ei].
      assert (Ht : is_term f = true) by (unfold is_term; rewrite term_idx; now apply N.eqb_eq). rewrite Ht. disc.
    - destruct (is_term f); [disc|].
      destruct (lh_ok _ _ _ _ _ _ HI Vf) as (Vl & Vh & Al & Ah & Hv0 & Ht & Sf). rewrite Ht.
      destruct (v <? vi); [disc|]. destruct (v =? vi); [disc|]. destruct (mget m f); [disc|].
      cbn [height] in Hk.
      destruct (subst k s m (low_node s f) v b) as [[[s1 m1] l']|] eqn:H1;
        [|intros _; exact (IHl k s m (low_node s f) ltac:(lia) HI HM Vl H1)].
      destruct (subst_ok v b _ _ _ _ _ _ _ _ HI HM Vl H1) as (HI1 & E1 & _ & HM1 & _).
      assert (Eh : high_node s1 f = high_node s f).
      { unfold high_node. destruct Vf as (HR & _). apply Rep_nd_inv in HR. destruct HR as (_ & l & h & Hc & _).
        rewrite Hc, (E1 _ _ Hc). reflexivity. }
      rewrite Eh.
      destruct (subst k s1 m1 (high_node s f) v b) as [[[s2 m2] h']|] eqn:H2;
        [|intros _; apply (Stops_back s s1 E1); exact (IHh k s1 m1 (high_node s f) ltac:(lia) HI1 HM1 (V_ext _ _ _ _ E1 Vh) H2)].
      destruct (subst_ok v b _ _ _ _ _ _ _ _ HI1 HM1 (V_ext _ _ _ _ E1 Vh) H2) as (HI2 & E2 & _).
      destruct (mk_node s2 vi l' h') as [[s3 r3]|] eqn:Hmk; [disc|]. intros _.
      apply (Stops_back s s2 (sext_trans _ _ _ E1 E2)). eapply mk_node_total; eauto.
  Qed.
  Print Assumptions subst_terminates.

  (* ---------- compose: three times the number of variable levels ---------- *)
  Context {MC : Memo (ref * ref) ref}.
  Theorem compose_terminates v L : forall n k, (3 * n + 4 <= k)%nat ->
    forall s m f g tf tg, Inv s -> CInv s -> KMInv s v m -> V s f tf -> V s g tg -> allle L tf -> allle L tg ->
    (mu2 L tf tg <= n)%nat -> compose k s m f v g = None -> Stops s.
  Proof.
    induction n as [|n IH]; intros k Hk s m f g tf tg HI HC HM Vf Vg Lf Lg Hmu; (destruct k as [|k]; [lia|]); cbn [compose].
    all: destruct (is_term f) eqn:F0; [disc|].
    all: assert (Hfn : idx f <> 1) by (unfold is_term in F0; rewrite term_idx in F0; now apply N.eqb_neq).
    all: destruct tf as [|vi ln tl th]; [destruct (top_leaf _ _ HI Vf); contradiction|].
    all: destruct (lh_ok _ _ _ _ _ _ HI Vf) as (Vl & Vh & Al & Ah & Hv0 & Ht & Sf); rewrite Ht.
    all: destruct (v <? vi); [disc|]; destruct (mget m (f, g)); [disc|].
    all: pose proof Lf as (HviL & Ltl & Lth).
    - exfalso. unfold mu2 in Hmu. cbn [lev] in Hmu. lia.
    - assert (Hlg : lev L tg <= L + 1) by (destruct tg; cbn in *; lia).
      destruct (v =? vi).
      + destruct (V_children _ _ _ _ _ _ Vf) as (l & h & Hc & -> & Hreg & Vrl & Vrh & _ & _ & _).
        rewrite Hc. cbn [hi lo].
        assert (Mi : (mu L tg th tl <= S n)%nat).
        { pose proof (above_lev L vi tl Al ltac:(lia)). pose proof (above_lev L vi th Ah ltac:(lia)).
          unfold mu. unfold mu2 in Hmu. cbn [lev] in Hmu. lia. }
        destruct (ite k s g h l) as [[s1 r1]|] eqn:Hi; [disc|]. intros _.
        exact (ite_terminates L (S n) k ltac:(lia) s g h l tg th tl HI HC Vg Vrh Vrl Lg Lth Ltl Mi Hi).
      + set (mm := if is_term g then vi else N.min vi (top s g)).
        assert (Hmm : mm = N.min vi (lev L tg) /\ mm <= L /\ mm <= vi /\ (tg = Leaf \/ mm <= top s g)).
        { unfold mm. destruct (is_term g) eqn:G0.
          - assert (Eg : idx g = 1) by (unfold is_term in G0; rewrite term_idx in G0; now apply N.eqb_eq).
            pose proof (V_term _ _ _ Eg Vg) as ->. cbn [lev]. splits; auto; lia.
          - assert (Hgn : idx g <> 1) by (unfold is_term in G0; rewrite term_idx in G0; now apply N.eqb_neq).
            destruct (top_cases _ _ _ HI Vg) as [(_ & _ & E)|(vj & ? & ? & ? & -> & Ej & Hvj & _)]; [contradiction|].
            destruct Lg as (Hgj & _). cbn [lev]. rewrite Ej. splits; lia. }
        destruct Hmm as (Emm & HmL & Hmvi & Hmg).
        destruct (top_cofactors s f mm) as [f0 f1] eqn:T1. destruct (top_cofactors s g mm) as [g0 g1] eqn:T2.
        assert (Hmf : Nd vi ln tl th = Leaf \/ mm <= top s f) by (right; rewrite Ht; exact Hmvi).
        destruct (tc_shape s f mm _ f0 f1 HI Vf Hmf T1) as (a0 & a1 & Va0 & Va1 & Aa0 & Aa1 & Sa).
        destruct (tc_shape s g mm tg g0 g1 HI Vg Hmg T2) as (b0 & b1 & Vb0 & Vb1 & Ab0 & Ab1 & Sb).
        destruct (lev_child L mm _ a0 a1 Lf HmL Aa0 Aa1 Sa) as (La0 & La1 & Ea0 & Ea1).
        destruct (lev_child L mm tg b0 b1 Lg HmL Ab0 Ab1 Sb) as (Lb0 & Lb1 & Eb0 & Eb1).
        assert (M00 : (mu2 L a0 b0 <= n)%nat) by (unfold mu2 in *; cbn [lev] in Hmu; lia).
        assert (M11 : (mu2 L a1 b1 <= n)%nat) by (unfold mu2 in *; cbn [lev] in Hmu; lia).
        assert (Hk' : (3 * n + 4 <= k)%nat) by lia.
        destruct (compose k s m f0 v g0) as [[[s1 m1] h0]|] eqn:C0; [|intros _; exact (IH k Hk' s m f0 g0 a0 b0 HI HC HM Va0 Vb0 La0 Lb0 M00 C0)].
        destruct (compose_ok v _ _ _ _ _ _ _ _ _ _ HI HC HM Va0 Vb0 C0) as (HI1 & HC1 & E1 & HM1 & _).
        destruct (compose k s1 m1 f1 v g1) as [[[s2 m2] h1]|] eqn:C1;
          [|intros _; apply (Stops_back s s1 E1); exact (IH k Hk' s1 m1 f1 g1 a1 b1 HI1 HC1 HM1 (V_ext _ _ _ _ E1 Va1) (V_ext _ _ _ _ E1 Vb1) La1 Lb1 M11 C1)].
        destruct (compose_ok v _ _ _ _ _ _ _ _ _ _ HI1 HC1 HM1 (V_ext _ _ _ _ E1 Va1) (V_ext _ _ _ _ E1 Vb1) C1) as (HI2 & _ & E2 & _).
        destruct (mk_node s2 mm h0 h1) as [[s3 r]|] eqn:Mk; [disc|]. intros _.
        apply (Stops_back s s2 (sext_trans _ _ _ E1 E2)). eapply mk_node_total; eauto.
  Qed.
  Print Assumptions compose_terminates.
End Term2.
