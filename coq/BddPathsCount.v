From Coq Require Import Arith NArith Bool Lia List.
Require Import Canon SemTk CountTk BddBase BddIte BddSat BddCof BddCtor BddPaths.
Import ListNotations.

(* double counting: sum over assignments of (#paths satisfied) = sum over paths of (#assignments satisfying it) *)
Fixpoint sumn (l : list nat) : nat := match l with [] => 0 | x :: r => x + sumn r end.

Lemma swap_count {A B : Type} (R : A -> B -> bool) (la : list A) (lb : list B) :
  sumn (map (fun a => length (filter (R a) lb)) la) = sumn (map (fun b => length (filter (fun a => R a b) la)) lb).
Proof.
  induction la as [|a la IH]; cbn.
  - induction lb; cbn; auto.
  - rewrite IH. clear IH. induction lb as [|b lb IHb]; cbn; [reflexivity|].
    destruct (R a b); cbn; lia.
Qed.

Lemma sumn_ext {A : Type} (f g : A -> nat) (l : list A) : (forall x, In x l -> f x = g x) -> sumn (map f l) = sumn (map g l).
Proof. induction l as [|x r IH]; cbn; intro H; [reflexivity|]. rewrite H by (left; reflexivity). rewrite IH; [reflexivity|]. intros; apply H; right; assumption. Qed.
Lemma sumn_filter {A : Type} (F : A -> bool) (l : list A) : length (filter F l) = sumn (map (fun a => if F a then 1 else 0) l).
Proof. induction l as [|a l IH]; cbn; [reflexivity|]. destruct (F a); cbn; lia. Qed.

Local Open Scope N_scope.
(* the number of assignments (over vs) extending a consistent partial assignment p is 2^(|vs| - |p|) *)
Definition drop_var (v : N) (p : list (N * bool)) := filter (fun x => negb (N.eqb (fst x) v)) p.
Lemma drop_var_notin v p : ~ In v (map fst p) -> drop_var v p = p.
Proof.
  induction p as [|[w b] r IH]; cbn; intro H; [reflexivity|]. destruct (N.eqb_spec w v) as [->|]; [exfalso; apply H; left; reflexivity|].
  cbn. f_equal. apply IH. intro; apply H; right; assumption.
Qed.
Lemma sat_split a v b p : NoDup (map fst p) -> In (v, b) p -> sat a p = holds a (v, b) && sat a (drop_var v p).
Proof.
  induction p as [|[w c] r IH]; intros Hnd Hin; [destruct Hin|]. cbn [map fst] in Hnd. inversion Hnd as [|? ? Hni Hnd']; subst.
  unfold drop_var. cbn [filter fst]. fold (drop_var v r). unfold sat at 1. cbn [forallb]. fold (sat a r).
  destruct Hin as [E|Hin].
  - injection E as -> ->. rewrite N.eqb_refl. cbn [negb]. rewrite drop_var_notin by assumption. reflexivity.
  - destruct (N.eqb_spec w v) as [->|Hne]; [exfalso; apply Hni; apply in_map_iff; exists (v, b); auto|].
    cbn [negb]. unfold sat at 2. cbn [forallb]. fold (sat a (drop_var v r)). rewrite IH by assumption.
    now destruct (holds a (w, c)), (holds a (v, b)).
Qed.
Lemma drop_var_len v b p : NoDup (map fst p) -> In (v, b) p -> S (length (drop_var v p)) = length p.
Proof.
  induction p as [|[w c] r IH]; intros Hnd Hin; [destruct Hin|]. cbn [map fst] in Hnd. inversion Hnd as [|? ? Hni Hnd']; subst.
  unfold drop_var. cbn [filter fst]. fold (drop_var v r).
  destruct (N.eqb_spec w v) as [->|Hne]; cbn [negb length].
  - rewrite drop_var_notin by assumption. reflexivity.
  - destruct Hin as [E|Hin]; [congruence|]. rewrite IH by assumption. reflexivity.
Qed.
Lemma drop_var_props v p vs : NoDup (map fst p) -> (forall x, In x p -> In (fst x) (v :: vs)) ->
  NoDup (map fst (drop_var v p)) /\ (forall x, In x (drop_var v p) -> In (fst x) vs).
Proof.
  intros Hnd Hsub. split.
  - induction p as [|[w c] r IH]; [constructor|]. cbn [map fst] in Hnd. inversion Hnd as [|? ? Hni Hnd']; subst.
    unfold drop_var. cbn [filter fst]. fold (drop_var v r).
    destruct (N.eqb_spec w v); cbn [negb map fst]; [apply IH; auto; intros; apply Hsub; right; assumption|].
    constructor; [|apply IH; auto; intros; apply Hsub; right; assumption].
    intro Hin. apply Hni. apply in_map_iff in Hin. destruct Hin as (x & Ex & Hx). apply filter_In in Hx. apply in_map_iff. exists x. tauto.
  - intros x Hx. apply filter_In in Hx. destruct Hx as [Hx Hv]. destruct (Hsub x Hx) as [E|?]; [|assumption].
    rewrite E, N.eqb_refl in Hv. discriminate.
Qed.

Lemma cube_cnt : forall vs p e, NoDup vs -> NoDup (map fst p) -> (forall x, In x p -> In (fst x) vs) ->
  cnt vs (fun a => sat a p) e = Nat.pow 2 (length vs - length p).
Proof.
  induction vs as [|v vs IH]; intros p e Hvs Hnd Hsub.
  - destruct p as [|x r]; [reflexivity|destruct (Hsub x (or_introl eq_refl))].
  - inversion Hvs as [|? ? Hv Hvs']; subst. rewrite cnt_cons.
    destruct (in_dec N.eq_dec v (map fst p)) as [Hin|Hnin].
    + apply in_map_iff in Hin. destruct Hin as ([w b] & Ew & Hin). cbn in Ew. subst w.
      destruct (drop_var_props v p vs Hnd Hsub) as [Hnd' Hsub'].
      assert (Hhalf : forall c, cnt vs (fun a => sat a p) (upd e v c) =
                        if Bool.eqb c b then cnt vs (fun a => sat a (drop_var v p)) (upd e v c) else 0%nat).
      { intro c. destruct (Bool.eqb c b) eqn:Ec.
        - apply cnt_ext_on. intros a Ha. rewrite (sat_split a v b p Hnd Hin). unfold holds; cbn [fst snd].
          rewrite (assigns_out vs _ a Ha v Hv), upd_eq, Ec. reflexivity.
        - unfold cnt. rewrite (filter_len_ext _ _ (fun _ => false)).
          + induction (assigns vs (upd e v c)); cbn; auto.
          + intros a Ha. rewrite (sat_split a v b p Hnd Hin). unfold holds; cbn [fst snd].
            rewrite (assigns_out vs _ a Ha v Hv), upd_eq, Ec. reflexivity. }
      rewrite !Hhalf. pose proof (drop_var_len v b p Hnd Hin) as Hl.
      assert (E : (length (v :: vs) - length p = length vs - length (drop_var v p))%nat) by (cbn [length]; lia).
      rewrite E. destruct b; cbn [Bool.eqb]; rewrite IH by assumption; lia.
    + assert (Hsub' : forall x, In x p -> In (fst x) vs).
      { intros x Hx. destruct (Hsub x Hx) as [E|?]; [|assumption]. exfalso. apply Hnin. apply in_map_iff. exists x. auto. }
      rewrite !IH by assumption.
      assert (Hle : (length p <= length vs)%nat).
      { rewrite <- (map_length fst p). apply NoDup_incl_length; [exact Hnd|]. intros w Hw. apply in_map_iff in Hw. destruct Hw as (x & <- & Hx). auto. }
      cbn [length]. replace (S (length vs) - length p)%nat with (S (length vs - length p)) by lia. cbn [Nat.pow]. lia.
Qed.

Section PC.
  Context {SO : StoreOps} {OK : StoreOK}.

  (* C14: the assignments satisfying f are partitioned by the enumerated paths *)
  Theorem paths_partition_count s f t vs e0 : V s f t ->
    cnt vs (rsem f t) e0 = sumn (map (fun p => cnt vs (fun e => sat e p) e0) (tpaths (neg f) t [])).
  Proof.
    intro HV. unfold cnt.
    transitivity (sumn (map (fun a => length (filter (sat a) (tpaths (neg f) t []))) (assigns vs e0))).
    - rewrite sumn_filter. apply sumn_ext. intros a _. now rewrite (paths_exactly_once s f t a HV).
    - exact (swap_count (fun a p => sat a p) (assigns vs e0) (tpaths (neg f) t [])).
  Qed.

  (* C14: sum over the enumerated paths of 2^(n - |path|) is the number of satisfying assignments *)
  Theorem paths_sum s f t vs e0 : V s f t -> NoDup vs ->
    (forall p, In p (tpaths (neg f) t []) -> NoDup (map fst p) /\ forall x, In x p -> In (fst x) vs) ->
    cnt vs (rsem f t) e0 = sumn (map (fun p => Nat.pow 2 (length vs - length p)) (tpaths (neg f) t [])).
  Proof.
    intros HV Hvs Hp. rewrite (paths_partition_count s f t vs e0 HV). apply sumn_ext.
    intros p Hin. destruct (Hp p Hin) as [Hnd Hsub]. apply cube_cnt; auto.
  Qed.
  Print Assumptions paths_sum.
End PC.
