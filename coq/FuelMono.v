(* Fuel monotonicity: a result obtained with some fuel is obtained with any larger fuel -- the fuel of the model is not an
   observable.  One lemma per fuelled function, all by the same walk through the body. *)
From Coq Require Import Arith NArith Bool Lia List.
Require Import Canon SemTk TableProto BddBase BddIte BddSat BddCof BddCof2 BddCtor BddPaths BddReach BddExport BddDot BddEval BddTerm.
Import ListNotations.
Local Open Scope N_scope.

(* case-split every scrutinee of the hypothesis H (the goal has the same shape one fuel unit higher); an equation about a
   recursive call is lifted with one of the lemmas tried by `lift` and rewritten in the goal *)
Ltac walk lift H :=
  repeat match type of H with
  | Some _ = Some _ => fail 1
  | None = Some _ => discriminate H
  | context[match (if ?c then _ else _) with _ => _ end] => let E := fresh "C" in destruct c eqn:E
  | context[match (match ?Y with _ => _ end) with _ => _ end] => let E := fresh "M" in destruct Y eqn:E; try (lift E; rewrite E)
  | context[if ?c then _ else _] => let E := fresh "C" in destruct c eqn:E
  | context[match ?X with _ => _ end] => let E := fresh "M" in destruct X eqn:E; try (lift E; rewrite E)
  | _ => lift H; exact H
  end; try exact H; try discriminate H.

Section Mono.
  Context {SO : StoreOps}.

  Lemma ite_S : forall k s f g h r, ite k s f g h = Some r -> ite (S k) s f g h = Some r.
  Proof.
    induction k as [|k IH]; intros s f g h r H; [discriminate|].
    remember (S k) as k' eqn:Ek. rewrite Ek in H. cbn [ite] in H |- *. subst k'.
    walk ltac:(fun E => apply IH in E) H.
  Qed.
  Lemma constrain_S : forall k s f g r, constrain k s f g = Some r -> constrain (S k) s f g = Some r.
  Proof.
    induction k as [|k IH]; intros s f g r H; [discriminate|].
    remember (S k) as k' eqn:Ek. rewrite Ek in H. cbn [constrain] in H |- *. subst k'.
    walk ltac:(fun E => apply IH in E) H.
  Qed.
  Lemma itec_S : forall k s f g h r, itec k s f g h = Some r -> itec (S k) s f g h = Some r.
  Proof.
    induction k as [|k IH]; intros s f g h r H; [discriminate|].
    remember (S k) as k' eqn:Ek. rewrite Ek in H. cbn [itec] in H |- *. subst k'.
    walk ltac:(fun E => apply IH in E) H.
  Qed.
  Lemma restrict_S : forall k s f g r, restrict k s f g = Some r -> restrict (S k) s f g = Some r.
  Proof.
    induction k as [|k IH]; intros s f g r H; [discriminate|].
    remember (S k) as k' eqn:Ek. rewrite Ek in H. cbn [restrict] in H |- *. subst k'.
    walk ltac:(fun E => first [apply IH in E | apply ite_S in E]) H.
  Qed.

  Lemma ite_mono k k' s f g h r : (k <= k')%nat -> ite k s f g h = Some r -> ite k' s f g h = Some r.
  Proof. intros Hle H. induction Hle as [|k' _ IH]; [exact H|apply ite_S; exact IH]. Qed.

  (* C02: above the bound 3n+3 the fuel is immaterial -- the result (a handle, or no result at all) is the same for every
     amount of fuel, so a missing result is never an out-of-fuel artefact of the model *)
  Theorem ite_fuel_irrelevant {OK : StoreOK} L n k k' s a b c ta tb tc : (3 * n + 3 <= k)%nat -> (3 * n + 3 <= k')%nat ->
    Inv s -> CInv s -> V s a ta -> V s b tb -> V s c tc -> allle L ta -> allle L tb -> allle L tc -> (mu L ta tb tc <= n)%nat ->
    ite k s a b c = ite k' s a b c.
  Proof.
    intros Hk Hk' HI HC Va Vb Vc La Lb Lc Hmu.
    assert (Step : forall j, (3 * n + 3 <= j)%nat -> ite (S j) s a b c = ite j s a b c).
    { intros j Hj. destruct (ite j s a b c) as [r|] eqn:E; [exact (ite_S _ _ _ _ _ _ E)|].
      destruct (ite (S j) s a b c) as [r|] eqn:E'; [|reflexivity].
      rewrite (ite_down L n j Hj s a b c ta tb tc r HI HC Va Vb Vc La Lb Lc Hmu E') in E. discriminate. }
    assert (Up : forall j d, (3 * n + 3 <= j)%nat -> ite (d + j) s a b c = ite j s a b c).
    { intros j d Hj. induction d as [|d IHd]; [reflexivity|]. cbn [Nat.add]. rewrite Step by lia. exact IHd. }
    destruct (Nat.le_ge_cases k k') as [Hle|Hle].
    - replace k' with ((k' - k) + k)%nat by lia. symmetry. apply Up. exact Hk.
    - replace k with ((k - k') + k')%nat by lia. apply Up. exact Hk'.
  Qed.

  Context {MS : Memo ref ref} {MC : Memo (ref * ref) ref} {MQ : Memo (nat * ref) ref} {MN : Memo ref N}.
  Lemma subst_S v b : forall k s m f r, subst k s m f v b = Some r -> subst (S k) s m f v b = Some r.
  Proof.
    induction k as [|k IH]; intros s m f r H; [discriminate|].
    remember (S k) as k' eqn:Ek. rewrite Ek in H. cbn [subst] in H |- *. subst k'.
    walk ltac:(fun E => apply IH in E) H.
  Qed.
  Lemma compose_S v : forall k s m f g r, compose k s m f v g = Some r -> compose (S k) s m f v g = Some r.
  Proof.
    induction k as [|k IH]; intros s m f g r H; [discriminate|].
    remember (S k) as k' eqn:Ek. rewrite Ek in H. cbn [compose] in H |- *. subst k'.
    walk ltac:(fun E => first [apply IH in E | apply ite_S in E]) H.
  Qed.
  Lemma smulti_S vl : forall k s m f r, smulti k s m f vl = Some r -> smulti (S k) s m f vl = Some r.
  Proof.
    induction k as [|k IH]; intros s m f r H; [discriminate|].
    remember (S k) as k' eqn:Ek. rewrite Ek in H. cbn [smulti] in H |- *. subst k'.
    walk ltac:(fun E => apply IH in E) H.
  Qed.
  Lemma ccube_S : forall k s m f cube r, ccube k s m f cube = Some r -> ccube (S k) s m f cube = Some r.
  Proof.
    induction k as [|k IH]; intros s m f cube r H; [discriminate|].
    remember (S k) as k' eqn:Ek. rewrite Ek in H. cbn [ccube] in H |- *. subst k'.
    walk ltac:(fun E => apply IH in E) H.
  Qed.
  Lemma satc_S max : forall k s m r x, satc k s m r max = Some x -> satc (S k) s m r max = Some x.
  Proof.
    induction k as [|k IH]; intros s m r x H; [discriminate|].
    remember (S k) as k' eqn:Ek. rewrite Ek in H. cbn [satc] in H |- *. subst k'.
    walk ltac:(fun E => apply IH in E) H.
  Qed.
  Lemma sat_count_S k s r n x : sat_count k s r n = Some x -> sat_count (S k) s r n = Some x.
  Proof. unfold sat_count. intro H. destruct (satc k s mempty r (2 ^ n)) as [[m c]|] eqn:E; [|discriminate]. now rewrite (satc_S _ _ _ _ _ _ E). Qed.
  Lemma one_sat_S : forall k s r p x, one_sat k s r p = Some x -> one_sat (S k) s r p = Some x.
  Proof.
    induction k as [|k IH]; intros s r p x H; [discriminate|].
    remember (S k) as k' eqn:Ek. rewrite Ek in H. cbn [one_sat] in H |- *. subst k'.
    walk ltac:(fun E => apply IH in E) H.
  Qed.
  Lemma pnext_S : forall k s st x, pnext k s st = Some x -> pnext (S k) s st = Some x.
  Proof.
    induction k as [|k IH]; intros s st x H; [discriminate|].
    remember (S k) as k' eqn:Ek. rewrite Ek in H. cbn [pnext] in H |- *. subst k'.
    walk ltac:(fun E => apply IH in E) H.
  Qed.
  Lemma pall_fuel_S : forall n k s st x, pall n k s st = Some x -> pall n (S k) s st = Some x.
  Proof.
    induction n as [|n IH]; intros k s st x H; [discriminate|]. cbn [pall] in H |- *.
    destruct (pnext k s st) as [[[p|] st']|] eqn:E; try discriminate.
    - rewrite (pnext_S _ _ _ _ E). destruct (pall n k s st') as [ps|] eqn:E2; [|discriminate]. now rewrite (IH _ _ _ _ E2).
    - now rewrite (pnext_S _ _ _ _ E).
  Qed.
  Lemma pall_n_S : forall n k s st x, pall n k s st = Some x -> pall (S n) k s st = Some x.
  Proof.
    induction n as [|n IH]; intros k s st x H; [discriminate|].
    remember (S n) as n' eqn:En. rewrite En in H. cbn [pall] in H |- *. subst n'.
    destruct (pnext k s st) as [[[p|] st']|] eqn:E; try discriminate; [|exact H].
    destruct (pall n k s st') as [ps|] eqn:E2; [|discriminate]. now rewrite (IH _ _ _ _ E2).
  Qed.
  Lemma pall_S k s st x : pall k k s st = Some x -> pall (S k) (S k) s st = Some x.
  Proof. intro H. apply pall_n_S. apply pall_fuel_S. exact H. Qed.
  Lemma bfs_S : forall k s vis q x, bfs k s vis q = Some x -> bfs (S k) s vis q = Some x.
  Proof.
    induction k as [|k IH]; intros s vis q x H; [discriminate|].
    remember (S k) as k' eqn:Ek. rewrite Ek in H. cbn [bfs] in H |- *. subst k'.
    walk ltac:(fun E => apply IH in E) H.
  Qed.
  Lemma descendants_S k s roots x : descendants k s roots = Some x -> descendants (S k) s roots = Some x.
  Proof. unfold descendants. apply bfs_S. Qed.
  Lemma to_bracket_S : forall k s r vis x, to_bracket k s r vis = Some x -> to_bracket (S k) s r vis = Some x.
  Proof.
    induction k as [|k IH]; intros s r vis x H; [discriminate|].
    remember (S k) as k' eqn:Ek. rewrite Ek in H. cbn [to_bracket] in H |- *. subst k'.
    walk ltac:(fun E => apply IH in E) H.
  Qed.
  Lemma to_dot_S k s roots x : to_dot k s roots = Some x -> to_dot (S k) s roots = Some x.
  Proof. unfold to_dot. intro H. destruct (descendants k s roots) as [ids|] eqn:E; [|discriminate]. now rewrite (descendants_S _ _ _ _ E). Qed.
  Lemma eval_S : forall x k s r, eval k s x = Some r -> eval (S k) s x = Some r.
  Proof.
    induction x as [t|a IHa|a IHa b IHb|a IHa b IHb|a IHa b IHb]; intros k s r H; cbn [eval] in H |- *.
    - exact H.
    - destruct (eval k s a) as [[s1 r1]|] eqn:E; [|discriminate]. now rewrite (IHa _ _ _ E).
    - destruct (eval k s a) as [[s1 ra]|] eqn:E; [|discriminate]. rewrite (IHa _ _ _ E).
      destruct (eval k s1 b) as [[s2 rb]|] eqn:E2; [|discriminate]. rewrite (IHb _ _ _ E2). apply ite_S. exact H.
    - destruct (eval k s a) as [[s1 ra]|] eqn:E; [|discriminate]. rewrite (IHa _ _ _ E).
      destruct (eval k s1 b) as [[s2 rb]|] eqn:E2; [|discriminate]. rewrite (IHb _ _ _ E2). apply ite_S. exact H.
    - destruct (eval k s a) as [[s1 ra]|] eqn:E; [|discriminate]. rewrite (IHa _ _ _ E).
      destruct (eval k s1 b) as [[s2 rb]|] eqn:E2; [|discriminate]. rewrite (IHb _ _ _ E2). apply ite_S. exact H.
  Qed.
  Lemma and_many_S k : forall l s acc r, and_many k s acc l = Some r -> and_many (S k) s acc l = Some r.
  Proof.
    induction l as [|x l IH]; intros s acc r H; cbn [and_many] in H |- *; [exact H|]. unfold apply_and in *.
    destruct (ite k s acc x zero) as [[s1 a1]|] eqn:E; [|discriminate]. rewrite (ite_S _ _ _ _ _ _ E). apply IH. exact H.
  Qed.
  Lemma or_many_S k : forall l s acc r, or_many k s acc l = Some r -> or_many (S k) s acc l = Some r.
  Proof.
    induction l as [|x l IH]; intros s acc r H; cbn [or_many] in H |- *; [exact H|]. unfold apply_or in *.
    destruct (ite k s acc one x) as [[s1 a1]|] eqn:E; [|discriminate]. rewrite (ite_S _ _ _ _ _ _ E). apply IH. exact H.
  Qed.
  Lemma is_implies_S k s f g x : is_implies k s f g = Some x -> is_implies (S k) s f g = Some x.
  Proof. unfold is_implies. intro H. destruct (itec k s f g one) as [o|] eqn:E; [|discriminate]. now rewrite (itec_S _ _ _ _ _ _ E). Qed.
End Mono.
