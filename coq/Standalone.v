From Coq Require Import Arith NArith ZArith Bool List.
Require Import Canon SemTk TableProto CacheProto RawProto EdaProto SignalProto BddBase BddIte BddReach Glue Hashes.
Import ListNotations.
Local Open Scope N_scope.

(* Executable instances of the generic models of src/table.rs, src/cache.rs, src/raw.rs and examples/eda for the
   correspondence harness: values and keys are numbers, the hash function is chosen by number among adversarial ones
   (the theorems hold for EVERY hash function; the harness runs the crate with the same ones). *)

(* hash functions the harness uses on both sides *)
Definition hkind (k v : N) : N :=
  match k with
  | 0 => v                                   (* identity *)
  | 1 => 0                                   (* everything collides *)
  | 2 => v mod 2
  | 3 => (v * v mod two64 + 7) mod two64
  | 4 => (v + 9223372036854775808) mod two64 (* top bit set *)
  | 5 => (two64 - 1 - v mod two64)           (* wrap-around probes: near u64::MAX *)
  | _ => szudzik v (v / 3)
  end.

(* ---- Table<Item> ---- *)
Definition tbl_new (bits bucket_bits : N) : table N :=
  {| data := tset (tconst {| value := 0; next := 0; occ := false |}) 0 {| value := 0; next := 0; occ := true |};
     buckets := tconst 0; nb := 2 ^ bucket_bits; cap := 2 ^ bits; min_free := 1; last_index := 0; real_size := 0 |}.
Definition tbl_put (hk : N) (fuel : nat) (t : table N) (v : N) : res (table N * N) := TableProto.put N N.eqb (hkind hk) fuel t v.
Definition tbl_sweep (fuel : nat) (t : table N) (alive : list N) : res (table N) :=
  sweep_all N (fun i => existsb (N.eqb i) alive) fuel t (nrange (N.to_nat (nb t)) 0).

(* ---- Table<Node> driven directly with arbitrary node values and the crate's own node hash (crafted 64-bit hash collisions) ---- *)
Definition ntbl_new (bits bucket_bits : N) : table node :=
  {| data := tset (tconst {| value := Node 0 (R 0 false) (R 0 false); next := 0; occ := false |}) 0
                  {| value := Node 0 (R 0 false) (R 0 false); next := 0; occ := true |};
     buckets := tconst 0; nb := 2 ^ bucket_bits; cap := 2 ^ bits; min_free := 1; last_index := 0; real_size := 0 |}.
Definition ntbl_put (fuel : nat) (t : table node) (n : node) : res (table node * N) := TableProto.put node node_eqb nhash fuel t n.

(* ---- Cache<K, V> with number keys, and with the manager's own OpKey / Ref instance ---- *)
Definition ncache := CacheProto.lcache N N.
Definition ncache_new (mask : N) : ncache := CacheProto.cnew N N mask.
Definition ncache_get (hk : N) (c : ncache) (k : N) := CacheProto.cget N N N.eqb (hkind hk) c k.
Definition ncache_insert (hk : N) (c : ncache) (k v : N) := CacheProto.cinsert N N (hkind hk) c k v.
Definition ncache_clear (c : ncache) := CacheProto.cclear N N c.
Definition key_eqb (a b : key) : bool :=
  match a, b with
  | KIte f g h, KIte f' g' h' => ref_eqb f f' && ref_eqb g g' && ref_eqb h h'
  | KConstrain f g, KConstrain f' g' => ref_eqb f f' && ref_eqb g g'
  | KRestrict f g, KRestrict f' g' => ref_eqb f f' && ref_eqb g g'
  | _, _ => false
  end.
Definition kcache := CacheProto.lcache key ref.
Definition kcache_new (mask : N) : kcache := CacheProto.cnew key ref mask.
Definition kcache_get (c : kcache) (k : key) := CacheProto.cget key ref key_eqb khash c k.
Definition kcache_insert (c : kcache) (k : key) (v : ref) := CacheProto.cinsert key ref khash c k v.
Definition kcache_clear (c : kcache) := CacheProto.cclear key ref c.

(* ---- RawTable<(u64, u64)> ---- *)
Definition rawt := RawProto.raw N N.
Definition raw_new : rawt := new_raw N N.
Definition raw_step (hk : N) (t : rawt) (o : rop N N) := rstep N N N.eqb (hkind hk) t o.
Definition raw_reserve (t : rawt) (add : N) := RawProto.reserve N N t add.
Definition raw_iter (t : rawt) : list (N * N) := RawProto.iter N N t.

(* ---- eda: arena conversion over integer terms ---- *)
Definition ebx := EdaProto.bx Z.
Definition eda_arena (e : ebx) : list (EdaProto.kind Z * list nat) := from_boxed Z e.
Definition alg_boxed (k : EdaProto.kind Z) (args : list ebx) : ebx :=
  match k, args with
  | EdaProto.NTerm _ t, _ => BxTerm Z t
  | EdaProto.NNot _, [a] => bnot Z a
  | EdaProto.NAnd _, [a; b] => BxAnd Z a b
  | EdaProto.NOr _, [a; b] => BxOr Z a b
  | EdaProto.NXor _, [a; b] => BxXor Z a b
  | EdaProto.NIte _, [a; b; c] => BxIte Z a b c
  | _, _ => BxTerm Z 0%Z
  end.
Definition eda_to_boxed (e : ebx) : option ebx := collapse Z ebx alg_boxed (eda_arena e).
(* Arena::eval: defined over Term / Not / And / Or only (the code has todo!() for the rest) *)
Definition alg_eval (k : EdaProto.kind Z) (args : list (option Z)) : option Z :=
  match k, args with
  | EdaProto.NTerm _ t, _ => Some t
  | EdaProto.NNot _, [Some a] => Some (- a)%Z
  | EdaProto.NAnd _, [Some a; Some b] => Some (a * b)%Z
  | EdaProto.NOr _, [Some a; Some b] => Some (a + b)%Z
  | _, _ => None
  end.
Definition eda_eval (e : ebx) : option Z :=
  match collapse Z (option Z) alg_eval (eda_arena e) with Some (Some z) => Some z | _ => None end.
