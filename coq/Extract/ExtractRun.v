From Coq Require Import Arith NArith Bool List.
Require Import Canon SemTk TableProto BddBase BddIte BddCR BddSat BddCof BddCtor BddReach Glue History RunProto.
From Coq Require Extraction ExtrOcamlBasic.
Definition run_cfg (bm cm cap : N) (fuel : nat) (h : list hop) := run nhash khash fuel (init bm cm cap, nil) h.
Definition step_cfg (fuel : nat) (sr : state * regs) (o : hop) := step nhash khash fuel sr o.
Definition init_cfg (bm cm cap : N) : state * regs := (init bm cm cap, nil).
Extraction "model.ml" run_cfg step_cfg init_cfg show.
