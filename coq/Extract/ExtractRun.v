From Coq Require Import Arith NArith Bool List.
Require Import Canon SemTk TableProto CacheProto RawProto EdaProto SignalProto Standalone BddBase BddIte BddCR BddSat BddCof BddCof2 BddCtor BddEval BddPaths BddReach BddExport BddDot BddBracketText Glue Hashes Machine.
From Coq Require Extraction ExtrOcamlBasic.
(* The executable model handed to the correspondence harness: the register machine of Machine.v instantiated with the
   crate's hash functions (Hashes.v) and memo tables.  No Extract Constant / Extract Inductive beyond ExtrOcamlBasic. *)
Definition step_cfg (fuel : nat) (mr : mstate * regs) (o : hop) :=
  @step nhash khash memo_ref memo_dm memo_nref memo_refN fuel mr o.
Definition init_cfg (bm cm sm cap : N) : mstate * regs := (init bm cm sm cap, nil).
Extraction "model.ml" step_cfg init_cfg
  tbl_new tbl_put tbl_sweep ntbl_new ntbl_put
  ncache_new ncache_get ncache_insert ncache_clear kcache_new kcache_get kcache_insert kcache_clear
  raw_new raw_step raw_reserve raw_iter
  eda_arena eda_to_boxed eda_eval
  SignalProto.from_var SignalProto.from_input SignalProto.sig_index SignalProto.is_const SignalProto.is_input
  SignalProto.is_var SignalProto.is_negated SignalProto.sig_var SignalProto.sig_input SignalProto.snot
  BddBracketText.flatten.
