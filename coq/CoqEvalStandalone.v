From Coq Require Import Arith NArith ZArith Bool List.
Require Import Canon SemTk TableProto CacheProto RawProto EdaProto SignalProto BddBase Hashes Standalone.
Import ListNotations.
Local Open Scope N_scope.

(* In-kernel evaluation (vm_compute) of histories of the stand-alone structures, for the extraction cross-check:
   lib/coqeval.py computes the same digests from the text trace of the extracted OCaml model. *)

(* ---- Table<Item>: put v / sweep with survivors named by value ---- *)
Inductive tbop := TbPut (v : N) | TbSweepV (vals : list N).
Definition alive_by_value (t : table N) (vals : list N) : list N :=
  filter (fun i => let e := tget (data t) i in occ e && existsb (N.eqb (value e)) vals) (nrange (N.to_nat (last_index t)) 1).
Fixpoint eval_tbl (hk : N) (fuel : nat) (t : table N) (ops : list tbop) : list N :=
  match ops with
  | [] => [0]
  | TbPut v :: r =>
    match tbl_put hk fuel t v with
    | Ok (t', i) => [1; i; real_size t'; last_index t'; min_free t'] ++ eval_tbl hk fuel t' r
    | Full => [98]
    | Fuel => [99]
    end
  | TbSweepV vals :: r =>
    match tbl_sweep fuel t (alive_by_value t vals) with
    | Ok t' => [2; real_size t'; last_index t'; min_free t'] ++ eval_tbl hk fuel t' r
    | _ => [99]
    end
  end.
Definition eval_table (bits bb hk : N) (ops : list tbop) : list N :=
  eval_tbl hk (N.to_nat (2 ^ bits + 2)) (tbl_new bits bb) ops.

(* ---- Cache<NKey, i64> (values shifted to be non-negative by the harness) ---- *)
Inductive cop := CIns (k v : N) | CGet (k : N) | CClear.
Fixpoint eval_ncache (hk : N) (c : ncache) (ops : list cop) : list N :=
  match ops with
  | [] => [0]
  | CIns k v :: r => 1 :: eval_ncache hk (ncache_insert hk c k v) r
  | CGet k :: r =>
    let '(c', o) := ncache_get hk c k in
    [2; match o with Some v => v + 1 | None => 0 end; hits N N c'; faults N N c'; misses N N c'] ++ eval_ncache hk c' r
  | CClear :: r => 3 :: eval_ncache hk (ncache_clear c) r
  end.
Definition eval_cache (bits hk : N) (ops : list cop) : list N := eval_ncache hk (ncache_new (2 ^ bits - 1)) ops.

(* ---- RawTable ---- *)
Definition robs_digest (o : robs N) : list N :=
  match o with
  | OIns _ b => [1; if b then 1 else 0]
  | ORem _ None => [2; 0] | ORem _ (Some p) => [2; p + 1]
  | OGet _ None => [3; 0] | OGet _ (Some p) => [3; p + 1]
  | OClear _ => [4]
  end.
Fixpoint eval_rawt (hk : N) (t : rawt) (ops : list (rop N N)) : list N :=
  match ops with
  | [] => [0]
  | o :: r =>
    match raw_step hk t o with
    | ROk _ (t', obs) => robs_digest obs ++ [rlen N N t'; rfree N N t'; rcap N N t'] ++ eval_rawt hk t' r
    | _ => [99]
    end
  end.
Definition eval_raw (hk : N) (ops : list (rop N N)) : list N := eval_rawt hk raw_new ops.
