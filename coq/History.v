From Coq Require Import Arith NArith Bool Lia List FinFun.
Require Import Canon SemTk TableProto BddBase BddIte BddCR BddSat BddCof BddCtor BddReach Glue.
Import ListNotations.
Local Open Scope N_scope.

Section Hist.
  Variable nhash : node -> N.
  Variable khash : key -> N.
  Variable bmask cmask0 capacity : N.          (* configuration: bucket mask + 1 = nb, cache mask, capacity *)
  Hypothesis cap_ok : 2 <= capacity.
  Context {MS : Memo ref ref} {MC : Memo (ref * ref) ref}.

  Local Instance ops : StoreOps := concrete_ops nhash khash.
  Local Instance ok : StoreOK := concrete_ok nhash khash.

  Definition dflt_node : node := Node 0 (R 0 false) (R 0 false).
  Definition init_table : table node :=
    {| data := tset (tset (tconst {| value := dflt_node; next := 0; occ := false |}) 0 {| value := dflt_node; next := 0; occ := true |})
                    1 {| value := dflt_node; next := 0; occ := true |};
       buckets := tconst 0; nb := bmask + 1; cap := capacity; min_free := 2; last_index := 1; real_size := 1 |}.
  Definition init : state := {| tbl := init_table; opc := {| cdata := tconst None; Glue.cmask := cmask0 |}; sfuel := N.to_nat capacity |}.

  (* handles are registers: index into the list of results so far, with an optional complement *)
  Definition rarg := (nat * bool)%type.
  Inductive hop :=
  | HVar (v : N) | HNode (v : N) (lo hi : rarg) | HIte (f g h : rarg)
  | HConstrain (f g : rarg) | HRestrict (f g : rarg) | HCompose (f : rarg) (v : N) (g : rarg)
  | HSubst (f : rarg) (v : N) (b : bool) | HCube (cl : bool) (l : list lit) | HGc (roots : list rarg).

  Definition regs := list (option ref).       (* None = dead after a collection *)
  Definition fetch (rs : regs) (a : rarg) : option ref :=
    match nth_error rs (fst a) with Some (Some r) => Some (if snd a then rneg r else r) | _ => None end.
  Fixpoint fetch_all (rs : regs) (l : list rarg) : option (list ref) :=
    match l with [] => Some [] | a :: l' =>
      match fetch rs a, fetch_all rs l' with Some r, Some rl => Some (r :: rl) | _, _ => None end end.

  Definition below (s : state) (v : N) (r : ref) : bool := (idx r =? 1) || (v <? top s r).
  Fixpoint nodupb (l : list N) : bool := match l with [] => true | x :: r => negb (memN x r) && nodupb r end.
  Definition distinct_pos (l : list lit) : bool := forallb (fun x => 0 <? fst x) l && nodupb (map fst l).

  (* one step; outer None = panic (storage full) or out of fuel; an op whose arguments are dead or whose
     documented precondition fails is skipped (state unchanged, no new register) *)
  Definition step (fuel : nat) (sr : state * regs) (o : hop) : option (state * regs) :=
    let '(s, rs) := sr in
    let push (x : option (state * ref)) := match x with Some (s', r) => Some (s', rs ++ [Some r]) | None => None end in
    let skip := Some (s, rs) in
    match o with
    | HVar v => if 0 <? v then push (mk_var s v) else skip
    | HNode v lo hi =>
      match fetch rs lo, fetch rs hi with
      | Some l, Some h => if (0 <? v) && below s v l && below s v h then push (mk_node s v l h) else skip
      | _, _ => skip
      end
    | HIte f g h =>
      match fetch rs f, fetch rs g, fetch rs h with
      | Some a, Some b, Some c => push (ite fuel s a b c)
      | _, _, _ => skip
      end
    | HConstrain f g => match fetch rs f, fetch rs g with Some a, Some b => push (constrain fuel s a b) | _, _ => skip end
    | HRestrict f g => match fetch rs f, fetch rs g with Some a, Some b => push (restrict fuel s a b) | _, _ => skip end
    | HCompose f v g =>
      match fetch rs f, fetch rs g with
      | Some a, Some b => push (match compose fuel s mempty a v b with Some (s', _, r) => Some (s', r) | None => None end)
      | _, _ => skip
      end
    | HSubst f v b =>
      match fetch rs f with
      | Some a => push (match subst fuel s mempty a v b with Some (s', _, r) => Some (s', r) | None => None end)
      | None => skip
      end
    | HCube cl l => if distinct_pos l then push (build cl s (sort_lits l)) else skip
    | HGc roots =>
      match fetch_all rs roots with
      | Some rl =>
        match @descendants ops fuel s rl, gc nhash khash fuel s rl with
        | Some vis, Some s' => Some (s', map (fun o => match o with Some r => if memN (idx r) vis then Some r else None | None => None end) rs)
        | _, _ => None
        end
      | None => skip
      end
    end.
  Fixpoint run (fuel : nat) (sr : state * regs) (h : list hop) : option (state * regs) :=
    match h with [] => Some sr | o :: h' => match step fuel sr o with Some sr' => run fuel sr' h' | None => None end end.

  (* what every reachable state satisfies *)
  Definition Good (sr : state * regs) : Prop :=
    Inv (fst sr) /\ CInv (fst sr) /\ forall k r, nth_error (snd sr) k = Some (Some r) -> exists t, V (fst sr) r t.

  Lemma nodupb_ok l : nodupb l = true -> NoDup l.
  Proof.
    induction l as [|x r IH]; cbn; intro H; constructor; apply andb_prop in H as [H1 H2]; auto.
    intro Hin. apply memN_spec in Hin. rewrite Hin in H1. discriminate.
  Qed.

  Lemma init_good : Good (init, []).
  Proof.
    assert (Hd : forall i, tget (data init_table) i =
        if i =? 1 then {| value := dflt_node; next := 0; occ := true |}
        else if i =? 0 then {| value := dflt_node; next := 0; occ := true |}
        else {| value := dflt_node; next := 0; occ := false |}).
    { intro i. unfold init_table; cbn [data]. destruct (N.eqb_spec i 1) as [->|H1]; [now rewrite tget_set_same|].
      rewrite tget_set_other by assumption. destruct (N.eqb_spec i 0) as [->|H0]; [now rewrite tget_set_same|].
      rewrite tget_set_other by assumption. apply tget_const. }
    assert (Hocc : forall i, occupied init_table i <-> i = 0 \/ i = 1).
    { intro i. unfold occupied. rewrite Hd. destruct (N.eqb_spec i 1), (N.eqb_spec i 0); cbn; intuition congruence. }
    assert (HT : cTInv nhash init).
    { unfold cTInv; cbn [tbl init]. splits.
      - constructor; cbn [init_table nb cap min_free last_index real_size]; try lia.
        + intros i Hi. apply Hocc. lia.
        + intros i Hi Ho. apply Hocc in Ho. lia.
        + apply Hocc. auto.
        + change (N.to_nat 1) with 1%nat. cbn [cnt]. change (N.of_nat 1) with 1. fold init_table. rewrite Hd. reflexivity.
      - constructor.
        + intros b Hb. exists []. cbn [init_table buckets]. rewrite tget_const. splits; [constructor|constructor|intros i []].
        + intros i (Ho & H0 & Hp). apply Hocc in Ho. unfold pin in Hp. apply N.eqb_neq in Hp. lia.
        + intros i j (Ho & H0 & Hp) _ _. apply Hocc in Ho. unfold pin in Hp. apply N.eqb_neq in Hp. lia.
        + intros i Hp. unfold pin in Hp. apply N.eqb_eq in Hp. apply Hocc. auto.
      - apply Hocc. auto.
      - cbn [init sfuel tbl init_table cap]. lia. }
    assert (Hnocell : forall i n, ccell init i = Some n -> False).
    { intros i n Hc. apply ccell_some in Hc. destruct Hc as (Ho & Hi & _). apply Hocc in Ho. lia. }
    unfold Good; cbn [fst snd]. splits.
    - split; [exact HT|]. intros i n Hc. exfalso. eapply Hnocell; eauto.
    - intros k r Hk. exfalso. cbn in Hk. unfold cache_get in Hk; cbn in Hk. rewrite tget_const in Hk. discriminate.
    - intros k r Hk. destruct k; discriminate.
  Qed.

  Lemma fetch_good s rs a r : (forall k r, nth_error rs k = Some (Some r) -> exists t, V s r t) ->
    fetch rs a = Some r -> exists t, V s r t.
  Proof.
    intros Hg H. unfold fetch in H. destruct (nth_error rs (fst a)) as [[r0|]|] eqn:E; try discriminate. injection H as <-.
    destruct (Hg _ _ E) as (t & Ht). exists t. destruct (snd a); auto using V_neg.
  Qed.
  Lemma push_good s s' rs r t : Inv s' -> CInv s' -> sext s s' -> V s' r t ->
    (forall k r, nth_error rs k = Some (Some r) -> exists t, V s r t) -> Good (s', rs ++ [Some r]).
  Proof.
    intros HI HC E Vr Hg. unfold Good; cbn [fst snd]. splits; auto. intros k r0 Hk.
    destruct (Nat.lt_ge_cases k (length rs)).
    - rewrite nth_error_app1 in Hk by assumption. destruct (Hg _ _ Hk) as (t0 & Ht0). exists t0. eapply V_ext; eauto.
    - rewrite nth_error_app2 in Hk by assumption. destruct (Nat.sub k (length rs)) as [|d]; cbn in Hk; [injection Hk as <-; eauto|destruct d; discriminate].
  Qed.
  Lemma below_above s v r t : Inv s -> V s r t -> below s v r = true -> above v t.
  Proof.
    intros HI HV Hb. unfold below in Hb. apply orb_prop in Hb. destruct Hb as [Hb|Hb].
    - apply N.eqb_eq in Hb. rewrite (V_term _ _ _ Hb HV). exact I.
    - apply N.ltb_lt in Hb. destruct (top_cases _ _ _ HI HV) as [(-> & _)|(v0 & ln & tl & th & -> & Ht & _)]; [exact I|].
      apply ordered_root_above; [apply HV|]. rewrite <- Ht. exact Hb.
  Qed.

  Theorem step_good fuel sr o sr' : Good sr -> step fuel sr o = Some sr' -> Good sr'.
  Proof.
    destruct sr as [s rs]. intros (HI & HC & Hg) H. cbn [fst snd] in *. unfold step in H.
    destruct o as [v|v lo hi|f g h|f g|f g|f v g|f v b|cl l|roots].
    - (* var *) destruct (N.ltb_spec 0 v) as [Hv|]; [|injection H as <-; unfold Good; auto].
      destruct (@mk_var ops s v) as [[s1 r]|] eqn:E; [|discriminate]. injection H as <-. unfold mk_var in E.
      destruct (mk_node_ok _ _ _ _ _ _ _ _ HI E Hv (@V_zero ops s) (@V_one ops s) I I) as (HI1 & E1 & K1 & tr & Vr & _).
      eapply push_good; eauto. eapply CInv_ext; eauto.
    - (* node *)
      destruct (fetch rs lo) as [l|] eqn:Fl; [|injection H as <-; unfold Good; auto].
      destruct (fetch rs hi) as [h|] eqn:Fh; [|injection H as <-; unfold Good; auto].
      destruct ((0 <? v) && below s v l && below s v h) eqn:C; [|injection H as <-; unfold Good; auto].
      apply andb_prop in C as [C C3]. apply andb_prop in C as [C1 C2]. apply N.ltb_lt in C1.
      destruct (fetch_good _ _ _ _ Hg Fl) as (tl & Vl). destruct (fetch_good _ _ _ _ Hg Fh) as (th & Vh).
      destruct (@mk_node ops s v l h) as [[s1 r]|] eqn:E; [|discriminate]. injection H as <-.
      destruct (mk_node_ok _ _ _ _ _ _ _ _ HI E C1 Vl Vh (below_above _ _ _ _ HI Vl C2) (below_above _ _ _ _ HI Vh C3)) as (HI1 & E1 & K1 & tr & Vr & _).
      eapply push_good; eauto. eapply CInv_ext; eauto.
    - (* ite *)
      destruct (fetch rs f) as [a|] eqn:Fa; [|injection H as <-; unfold Good; auto].
      destruct (fetch rs g) as [b|] eqn:Fb; [|injection H as <-; unfold Good; auto].
      destruct (fetch rs h) as [c|] eqn:Fc; [|injection H as <-; unfold Good; auto].
      destruct (fetch_good _ _ _ _ Hg Fa) as (ta & Va). destruct (fetch_good _ _ _ _ Hg Fb) as (tb & Vb). destruct (fetch_good _ _ _ _ Hg Fc) as (tc & Vc).
      destruct (@ite ops fuel s a b c) as [[s1 r]|] eqn:E; [|discriminate]. injection H as <-.
      destruct (ite_ok _ _ _ _ _ _ _ _ _ _ HI HC E Va Vb Vc) as (HI1 & HC1 & E1 & tr & Vr & _). eapply push_good; eauto.
    - (* constrain *)
      destruct (fetch rs f) as [a|] eqn:Fa; [|injection H as <-; unfold Good; auto].
      destruct (fetch rs g) as [b|] eqn:Fb; [|injection H as <-; unfold Good; auto].
      destruct (fetch_good _ _ _ _ Hg Fa) as (ta & Va). destruct (fetch_good _ _ _ _ Hg Fb) as (tb & Vb).
      destruct (@constrain ops fuel s a b) as [[s1 r]|] eqn:E; [|discriminate]. injection H as <-.
      destruct (constrain_ok _ _ _ _ _ _ _ _ HI HC E Va Vb) as (HI1 & HC1 & E1 & tr & Vr & _). eapply push_good; eauto.
    - (* restrict *)
      destruct (fetch rs f) as [a|] eqn:Fa; [|injection H as <-; unfold Good; auto].
      destruct (fetch rs g) as [b|] eqn:Fb; [|injection H as <-; unfold Good; auto].
      destruct (fetch_good _ _ _ _ Hg Fa) as (ta & Va). destruct (fetch_good _ _ _ _ Hg Fb) as (tb & Vb).
      destruct (@restrict ops fuel s a b) as [[s1 r]|] eqn:E; [|discriminate]. injection H as <-.
      destruct (restrict_ok _ _ _ _ _ _ _ _ HI HC E Va Vb) as (HI1 & HC1 & E1 & tr & Vr & _). eapply push_good; eauto.
    - (* compose *)
      destruct (fetch rs f) as [a|] eqn:Fa; [|injection H as <-; unfold Good; auto].
      destruct (fetch rs g) as [b|] eqn:Fb; [|injection H as <-; unfold Good; auto].
      destruct (fetch_good _ _ _ _ Hg Fa) as (ta & Va). destruct (fetch_good _ _ _ _ Hg Fb) as (tb & Vb).
      destruct (@compose ops MC fuel s mempty a v b) as [[[s1 m1] r]|] eqn:E; [|discriminate]. injection H as <-.
      destruct (compose_ok v _ _ _ _ _ _ _ _ _ _ HI HC (fun k r Hk => ltac:(rewrite mget_empty in Hk; discriminate)) Va Vb E)
        as (HI1 & HC1 & E1 & _ & tr & Vr & _). eapply push_good; eauto.
    - (* substitute *)
      destruct (fetch rs f) as [a|] eqn:Fa; [|injection H as <-; unfold Good; auto].
      destruct (fetch_good _ _ _ _ Hg Fa) as (ta & Va).
      destruct (@subst ops MS fuel s mempty a v b) as [[[s1 m1] r]|] eqn:E; [|discriminate]. injection H as <-.
      destruct (subst_ok v b _ _ _ _ _ _ _ _ HI (fun k r Hk => ltac:(rewrite mget_empty in Hk; discriminate)) Va E)
        as (HI1 & E1 & K1 & _ & tr & Vr & _). eapply push_good; eauto. eapply CInv_ext; eauto.
    - (* cube / clause *)
      destruct (distinct_pos l) eqn:D; [|injection H as <-; unfold Good; auto].
      apply andb_prop in D as [D1 D2].
      destruct (@build ops cl s (sort_lits l)) as [[s1 r]|] eqn:E; [|discriminate]. injection H as <-.
      destruct (@cube_clause_ok ops ok cl s l s1 r HI HC (nodupb_ok _ D2)) as (HI1 & HC1 & E1 & tr & Vr & _); auto.
      + intros x Hx. rewrite forallb_forall in D1. apply N.ltb_lt. apply D1. exact Hx.
      + eapply push_good; eauto.
    - (* collect_garbage *)
      destruct (fetch_all rs roots) as [rl|] eqn:Fr; [|injection H as <-; unfold Good; auto].
      destruct (@descendants ops fuel s rl) as [vis|] eqn:Hd; [|discriminate].
      destruct (gc nhash khash fuel s rl) as [s1|] eqn:Hgc; [|discriminate]. injection H as <-.
      assert (Hroots : forall r, In r rl -> exists t, V s r t).
      { clear -Fr Hg. revert rl Fr. induction roots as [|a l IH]; intros rl Fr; cbn in Fr; [injection Fr as <-; intros r []|].
        destruct (fetch rs a) as [r0|] eqn:Fa; [|discriminate]. destruct (fetch_all rs l) as [rl0|]; [|discriminate]. injection Fr as <-.
        intros r [<-|Hin]; [eapply fetch_good; eauto|eapply IH; eauto]. }
      destruct (gc_ok nhash khash fuel s rl s1 HI Hroots Hgc) as (HI1 & HC1 & _ & _ & _ & Hsurv & _).
      unfold Good; cbn [fst snd]. splits; auto. intros k r Hk. rewrite nth_error_map in Hk.
      destruct (nth_error rs k) as [[r0|]|] eqn:Ek; cbn in Hk; try discriminate.
      destruct (memN (idx r0) vis) eqn:Hm; [|discriminate]. injection Hk as <-.
      destruct (Hg _ _ Ek) as (t & Ht). exists t. eapply (Hsurv vis Hd); eauto.
  Qed.

  (* every state reached by any history satisfies the manager invariant; every live register is a valid handle *)
  Theorem run_good fuel : forall h sr sr', Good sr -> run fuel sr h = Some sr' -> Good sr'.
  Proof.
    induction h as [|o h IH]; intros sr sr' HG H; cbn [run] in H; [injection H as <-; exact HG|].
    destruct (step fuel sr o) as [sr1|] eqn:E; [|discriminate]. apply (IH sr1 sr'); [eapply step_good; eauto|exact H].
  Qed.
  Corollary reachable_good fuel h sr : run fuel (init, []) h = Some sr -> Good sr.
  Proof. apply run_good. apply init_good. Qed.
  Print Assumptions reachable_good.
End Hist.
