#!/bin/bash
# regenerate _CoqProject and the Makefile from the files present
cd "$(dirname "$0")"
(echo "-R . BddV"; echo "-arg -w -arg -deprecated-instance-without-locality,-deprecated-hint-without-locality,-notation-overridden"; ls *.v Pinned/*.v Extract/*.v Properties/*.v 2>/dev/null) > _CoqProject
coq_makefile -f _CoqProject -o Makefile >/dev/null
