From Coq Require Import NArith Bool Lia List.
Require Import Canon SemTk.
Import ListNotations.
Local Open Scope N_scope.

Record ref := R { idx : N; neg : bool }.
Definition rneg (r : ref) := R (idx r) (negb (neg r)).
Definition one := R 1 false.
Definition zero := R 1 true.
Definition ref_eqb (a b : ref) := N.eqb (idx a) (idx b) && Bool.eqb (neg a) (neg b).
Lemma ref_eqb_spec a b : reflect (a = b) (ref_eqb a b).
Proof.
  unfold ref_eqb. destruct a as [i n], b as [j m]; cbn.
  destruct (N.eqb_spec i j), (Bool.eqb_spec n m); cbn; constructor; congruence.
Qed.
Record node := Node { var : N; lo : ref; hi : ref }.

Inductive key := KIte (f g h : ref) | KConstrain (f g : ref) | KRestrict (f g : ref).

Ltac splits := repeat match goal with |- _ /\ _ => split end.

(* abstract store + cache, characterised by specifications (instantiated by the concrete table later) *)
Class StoreOps := {
  st : Type;
  cell : st -> N -> option node;             (* Some for occupied non-terminal cells *)
  put : st -> node -> option (st * N);
  cget : st -> key -> option ref;
  cput : st -> key -> ref -> st;
  TInv : st -> Prop }.                       (* table + cache-structure invariant *)
Definition sext {SO : StoreOps} (s s' : st) := forall i n, cell s i = Some n -> cell s' i = Some n.
Class StoreOK {SO : StoreOps} := {
  cell1 : forall s, TInv s -> cell s 1 = None /\ cell s 0 = None;
  put_spec : forall s n s' i, TInv s -> put s n = Some (s', i) ->
     TInv s' /\ sext s s' /\ cell s' i = Some n /\ i <> 1 /\ (forall k, cget s' k = cget s k) /\
     (forall j, j <> i -> cell s' j = cell s j);
  uniq : forall s i j n, TInv s -> cell s i = Some n -> cell s j = Some n -> i = j;
  cput_spec : forall s k r, TInv s -> TInv (cput s k r) /\ (forall i, cell (cput s k r) i = cell s i)
     /\ (forall k' r', cget (cput s k r) k' = Some r' -> cget s k' = Some r' \/ (k' = k /\ r' = r)) }.

Section S.
  Context {SO : StoreOps} {OK : StoreOK}.

  Inductive Rep (s : st) : N -> tree -> Prop :=
  | RepLeaf : Rep s 1 Leaf
  | RepNd i v l h tl th : i <> 1 -> cell s i = Some (Node v l h) -> neg h = false ->
      Rep s (idx l) tl -> Rep s (idx h) th -> Rep s i (Nd v (neg l) tl th).

  Definition rsem (r : ref) (t : tree) (e : env) := xorb (neg r) (tsem t e).
  (* r denotes F in s, with an ordered tree all of whose variables are > lb *)
  Definition top (s : st) (r : ref) : N := (* code's variable(): 0 for terminal *)
    match cell s (idx r) with Some n => var n | None => 0 end.

  Definition is_one r := ref_eqb r one.
  Definition is_zero r := ref_eqb r zero.

  Definition mk_node (s : st) (v : N) (l h : ref) : option (st * ref) :=
    let '(l', h', n) := if neg h then (rneg l, rneg h, true) else (l, h, false) in
    if ref_eqb l' h' then Some (s, if n then rneg l' else l')
    else match put s (Node v l' h') with
         | Some (s', i) => Some (s', R i n)
         | None => None
         end.

  Definition top_cofactors (s : st) (r : ref) (v : N) : ref * ref :=
    if is_one r || is_zero r then (r, r) else
    match cell s (idx r) with
    | Some n => if v <? var n then (r, r) else
                if neg r then (rneg (lo n), rneg (hi n)) else (lo n, hi n)
    | None => (r, r)
    end.

  Fixpoint ite (fuel : nat) (s : st) (f g h : ref) : option (st * ref) :=
    match fuel with O => None | S fuel =>
    if is_one f then Some (s, g) else
    if is_zero f then Some (s, h) else
    if ref_eqb g h then Some (s, g) else
    if is_one g && is_zero h then Some (s, f) else
    if is_zero g && is_one h then Some (s, rneg f) else
    if is_one g && ref_eqb h (rneg f) then Some (s, one) else
    if ref_eqb g f && is_one h then Some (s, one) else
    if ref_eqb g (rneg f) && is_zero h then Some (s, zero) else
    if is_zero g && ref_eqb h f then Some (s, zero) else
    if ref_eqb g f then ite fuel s f one h else
    if ref_eqb h f then ite fuel s f g zero else
    if ref_eqb g (rneg f) then ite fuel s f zero h else
    if ref_eqb h (rneg f) then ite fuel s f g one else
    let i := top s f in let j := top s g in let k := top s h in
    if is_one g && (k <? i) then ite fuel s h one f else
    if is_zero h && (j <? i) then ite fuel s g f zero else
    if is_one h && (j <? i) then ite fuel s (rneg g) (rneg f) one else
    if is_zero g && (k <? i) then ite fuel s (rneg h) zero (rneg f) else
    if ref_eqb g (rneg h) && (j <? i) then ite fuel s g f (rneg f) else
    let '(f1, g1, h1) := if neg f then (rneg f, h, g) else (f, g, h) in
    let '(g2, h2, n) := if neg g1 then (rneg g1, rneg h1, true) else (g1, h1, false) in
    match cget s (KIte f1 g2 h2) with
    | Some r => Some (s, if n then rneg r else r)
    | None =>
      let m := i in let m := if j =? 0 then m else N.min m j in let m := if k =? 0 then m else N.min m k in
      let '(f0, f1') := top_cofactors s f1 m in
      let '(g0, g1') := top_cofactors s g2 m in
      let '(h0, h1') := top_cofactors s h2 m in
      match ite fuel s f0 g0 h0 with None => None | Some (s1, e) =>
      match ite fuel s1 f1' g1' h1' with None => None | Some (s2, t) =>
      match mk_node s2 m e t with None => None | Some (s3, r) =>
        Some (cput s3 (KIte f1 g2 h2) r, if n then rneg r else r)
      end end end
    end
    end.

  Definition is_term r := is_one r || is_zero r.
  Fixpoint constrain (fuel : nat) (s : st) (f g : ref) : option (st * ref) :=
    match fuel with O => None | S fuel =>
    if is_zero g then Some (s, zero) else
    if is_one g then Some (s, f) else
    if is_term f then Some (s, f) else
    if ref_eqb f g then Some (s, one) else
    if ref_eqb f (rneg g) then Some (s, zero) else
    match cget s (KConstrain f g) with
    | Some r => Some (s, r)
    | None =>
      let v := N.min (top s f) (top s g) in
      let '(f0, f1) := top_cofactors s f v in
      let '(g0, g1) := top_cofactors s g v in
      if is_zero g1 then constrain fuel s f0 g0 else
      if is_zero g0 then constrain fuel s f1 g1 else
      if ref_eqb f0 f1 then
        match constrain fuel s f g0 with None => None | Some (s1, lo) =>
        match constrain fuel s1 f g1 with None => None | Some (s2, hi) =>
          mk_node s2 v lo hi end end
      else
        match constrain fuel s f0 g0 with None => None | Some (s1, lo) =>
        match constrain fuel s1 f1 g1 with None => None | Some (s2, hi) =>
        match mk_node s2 v lo hi with None => None | Some (s3, r) =>
          Some (cput s3 (KConstrain f g) r, r) end end end
    end
    end.

  Definition maybe_constant (r : ref) : option bool :=
    if is_zero r then Some false else if is_one r then Some true else None.
  Definition obool_eqb (a b : option bool) : bool :=
    match a, b with Some x, Some y => Bool.eqb x y | None, None => true | _, _ => false end.
  (* ite_constant after the three repairs; outer None = out of fuel *)
  Fixpoint itec (fuel : nat) (s : st) (f g h : ref) : option (option bool) :=
    match fuel with O => None | S fuel =>
    if is_one f then Some (maybe_constant g) else
    if is_zero f then Some (maybe_constant h) else
    if ref_eqb g h then Some (maybe_constant g) else
    if is_one g && is_zero h then Some None else
    if is_zero g && is_one h then Some None else
    if is_one g && ref_eqb h (rneg f) then Some (Some true) else
    if ref_eqb g f && is_one h then Some (Some true) else
    if ref_eqb g (rneg f) && is_zero h then Some (Some false) else
    if is_zero g && ref_eqb h f then Some (Some false) else
    match cget s (KIte f g h) with
    | Some res => Some (maybe_constant res)
    | None =>
      let i := top s f in let j := top s g in let k := top s h in
      let m := i in let m := if j =? 0 then m else N.min m j in let m := if k =? 0 then m else N.min m k in
      let '(f0, f1) := top_cofactors s f m in
      let '(g0, g1) := top_cofactors s g m in
      let '(h0, h1) := top_cofactors s h m in
      match itec fuel s f1 g1 h1 with
      | None => None
      | Some None => Some None
      | Some (Some t) =>
        match itec fuel s f0 g0 h0 with
        | None => None
        | Some e => if obool_eqb e (Some t) then Some (Some t) else Some None
        end
      end
    end
    end.

  Fixpoint restrict (fuel : nat) (s : st) (f g : ref) : option (st * ref) :=
    match fuel with O => None | S fuel =>
    if is_zero g then Some (s, zero) else
    if is_one g || is_term f then Some (s, f) else
    if ref_eqb f g then Some (s, one) else
    if ref_eqb f (rneg g) then Some (s, zero) else
    match cget s (KRestrict f g) with
    | Some r => Some (s, r)
    | None =>
      let i := top s f in
      let v := N.min i (top s g) in
      let '(f0, f1) := top_cofactors s f v in
      let '(g0, g1) := top_cofactors s g v in
      if is_zero g1 then restrict fuel s f0 g0 else
      if is_zero g0 then restrict fuel s f1 g1 else
      if v =? i then
        match restrict fuel s f0 g0 with None => None | Some (s1, lo) =>
        match restrict fuel s1 f1 g1 with None => None | Some (s2, hi) =>
        match mk_node s2 v lo hi with None => None | Some (s3, r) =>
          Some (cput s3 (KRestrict f g) r, r) end end end
      else
        match ite fuel s g1 one g0 with None => None | Some (s1, gg) =>
        match restrict fuel s1 f gg with None => None | Some (s2, r) =>
          Some (cput s2 (KRestrict f g) r, r) end end
    end
    end.

  (* ---------- proofs ---------- *)
  Definition V (s : st) (r : ref) (t : tree) := Rep s (idx r) t /\ ordered t /\ above 0 t /\ reduced t.
  Ltac vsplits := unfold V; splits.
  (* every stored node unfolds to a well-formed tree: with TInv this is the manager invariant *)
  Definition NInv (s : st) := forall i n, cell s i = Some n -> exists t, V s (R i false) t.
  Definition Inv (s : st) := TInv s /\ NInv s.
  Definition ite_sem (f g h : bool) := if f then g else h.

  Definition EntryOK (s : st) (k : key) (r : ref) : Prop :=
    match k with
    | KIte f g h => exists tf tg th tr, V s f tf /\ V s g tg /\ V s h th /\ V s r tr /\
        (forall e, rsem r tr e = if rsem f tf e then rsem g tg e else rsem h th e) /\
        (forall lb, above lb tf -> above lb tg -> above lb th -> above lb tr) /\
        (forall vs, tvars_in vs tf -> tvars_in vs tg -> tvars_in vs th -> tvars_in vs tr)
    | KConstrain f g => exists tf tg tr, V s f tf /\ V s g tg /\ V s r tr /\
        (forall lb, above lb tf -> above lb tg -> above lb tr) /\
        (forall vs x, asc 0 vs -> tvars_in vs tf -> tvars_in vs tg ->
            rsem r tr x = constrain_spec vs (rsem f tf) (rsem g tg) x)
    | KRestrict f g => exists tf tg tr, V s f tf /\ V s g tg /\ V s r tr /\
        (forall lb, above lb tf -> above lb tr) /\ (forall vs, tvars_in vs tf -> tvars_in vs tr) /\
        (forall vs x, asc 0 vs -> tvars_in vs tf -> tvars_in vs tg ->
            rsem r tr x = restrict_spec vs (rsem f tf) (rsem g tg) x)
    end.
  Definition CInv (s : st) := forall k r, cget s k = Some r -> EntryOK s k r.

  Lemma Rep_ext s s' i t : sext s s' -> Rep s i t -> Rep s' i t.
  Proof. intros E; induction 1; econstructor; eauto. Qed.
  Lemma Rep_fun s i t1 : Rep s i t1 -> forall t2, Rep s i t2 -> t1 = t2.
  Proof.
    induction 1 as [|i v l h tl th Hi Hc Hn Hl IHl Hh IHh]; intros t2 H2; inversion H2; subst; try congruence.
    match goal with H : cell s i = Some _ |- _ => rewrite Hc in H; inversion H; subst end.
    f_equal; auto.
  Qed.
  Lemma V_ext s s' r t : sext s s' -> V s r t -> V s' r t.
  Proof. intros E (? & ? & ? & ?); vsplits; eauto using Rep_ext. Qed.
  Lemma V_fun s r t1 t2 : V s r t1 -> V s r t2 -> t1 = t2.
  Proof. intros (? & _) (? & _); eauto using Rep_fun. Qed.
  Lemma V_neg s r t : V s r t -> V s (rneg r) t.
  Proof. auto. Qed.
  Lemma V_neg' s r t : V s (rneg r) t -> V s r t.
  Proof. auto. Qed.
  Lemma V_one s : V s one Leaf. Proof. vsplits; cbn; auto; constructor. Qed.
  Lemma V_zero s : V s zero Leaf. Proof. vsplits; cbn; auto; constructor. Qed.
  Lemma rsem_neg r t e : rsem (rneg r) t e = negb (rsem r t e).
  Proof. unfold rsem; cbn. now destruct (neg r), (tsem t e). Qed.
  Lemma rneg_invol r : rneg (rneg r) = r.
  Proof. destruct r; unfold rneg; cbn. now rewrite negb_involutive. Qed.
  Lemma V_term s r t : idx r = 1 -> V s r t -> t = Leaf.
  Proof. intros E (H & _). rewrite E in H. inversion H; congruence. Qed.
  Lemma sext_refl s : sext s s. Proof. firstorder. Qed.
  Lemma sext_trans a b c : sext a b -> sext b c -> sext a c. Proof. firstorder. Qed.

  Lemma Rep_nd_inv s i v ln tl th : Rep s i (Nd v ln tl th) ->
    i <> 1 /\ exists l h, cell s i = Some (Node v l h) /\ neg h = false /\ ln = neg l /\ Rep s (idx l) tl /\ Rep s (idx h) th.
  Proof. intro H; inversion H; subst. split; [assumption|]. eauto 10. Qed.
  Lemma Rep_leaf_inv s i : Rep s i Leaf -> i = 1.
  Proof. intro H; inversion H; reflexivity. Qed.
  Lemma ref_ext (a b : ref) : idx a = idx b -> neg a = neg b -> a = b.
  Proof. destruct a, b; cbn; congruence. Qed.
  Lemma Rep_inj_T s t : TInv s -> forall i j, Rep s i t -> Rep s j t -> i = j.
  Proof.
    intro HT. induction t as [|v ln tl IHl th IHh]; intros i j Hi Hj.
    - apply Rep_leaf_inv in Hi, Hj. congruence.
    - apply Rep_nd_inv in Hi, Hj.
      destruct Hi as (_ & l1 & h1 & C1 & R1 & N1 & L1 & H1), Hj as (_ & l2 & h2 & C2 & R2 & N2 & L2 & H2).
      assert (l1 = l2) by (apply ref_ext; [eapply IHl; eauto|congruence]).
      assert (h1 = h2) by (apply ref_ext; [eapply IHh; eauto|congruence]).
      subst. eapply uniq; eauto.
  Qed.
  Lemma Rep_inj s t : Inv s -> forall i j, Rep s i t -> Rep s j t -> i = j.
  Proof. intros [HT _]. now apply Rep_inj_T. Qed.

  Lemma mk_node_ok s v l h s' r tl th :
    Inv s -> mk_node s v l h = Some (s', r) -> 0 < v ->
    V s l tl -> V s h th -> above v tl -> above v th ->
    Inv s' /\ sext s s' /\ (forall k, cget s' k = cget s k) /\
    exists tr, V s' r tr /\ (forall e, rsem r tr e = if e v then rsem h th e else rsem l tl e)
       /\ (forall lb, lb < v -> above lb tr)
       /\ (forall vs, In v vs -> tvars_in vs tl -> tvars_in vs th -> tvars_in vs tr).
  Proof.
    intros HT Hmk Hv Hl Hh Al Ah. unfold mk_node in Hmk.
    assert (Hnorm : exists l' h' n, (if neg h then (rneg l, rneg h, true) else (l, h, false)) = (l', h', n)
              /\ neg h' = false /\ V s l' tl /\ V s h' th
              /\ forall e : env, (if e v then rsem h th e else rsem l tl e) = xorb n (if e v then rsem h' th e else rsem l' tl e)).
    { destruct (neg h) eqn:Hn.
      - exists (rneg l), (rneg h), true. repeat split; try apply Hl; try apply Hh.
        + cbn. now rewrite Hn.
        + intro e. rewrite !rsem_neg. now destruct (e v), (rsem h th e), (rsem l tl e).
      - exists l, h, false. repeat split; try apply Hl; try apply Hh; auto.
        intro e. now destruct (e v), (rsem h th e), (rsem l tl e). }
    destruct Hnorm as (l' & h' & n & Heq & Hreg & Hl' & Hh' & Hsem). rewrite Heq in Hmk. clear Heq.
    destruct (ref_eqb_spec l' h') as [->|Hne].
    - inversion Hmk; subst; clear Hmk. split; [exact HT|]. split; [apply sext_refl|]. split; [auto|].
      pose proof (V_fun _ _ _ _ Hl' Hh'); subst tl.
      exists th. split; [destruct n; auto|]. split; [|split].
      + intro e. rewrite Hsem. destruct n; rewrite ?rsem_neg; now destruct (e v), (rsem h' th e).
      + intros lb Hlb. apply (above_weaken lb v); [lia|exact Ah].
      + auto.
    - destruct (put s (Node v l' h')) as [[s1 i]|] eqn:Hput; [|discriminate].
      inversion Hmk; subst; clear Hmk.
      destruct (put_spec _ _ _ _ (proj1 HT) Hput) as (HT' & Hext & Hcell & Hi1 & Hc & Hframe).
      destruct (V_ext _ _ _ _ Hext Hl') as (Rl & Ol & Zl & Dl).
      destruct (V_ext _ _ _ _ Hext Hh') as (Rh & Oh & Zh & Dh).
      assert (Vnew : forall b, V s' (R i b) (Nd v (neg l') tl th)).
      { intro b. split; [|split; [|split]].
        - cbn. econstructor; eauto.
        - cbn; auto.
        - cbn; auto.
        - cbn. splits; auto. intros [Hn Et]. subst tl. apply Hne. apply ref_ext; [eapply Rep_inj_T; eauto|congruence]. }
      assert (HI : Inv s').
      { split; [exact HT'|]. intros j n' Hj. destruct (N.eq_dec j i) as [->|Hji].
        - eexists. apply (Vnew false).
        - rewrite Hframe in Hj by assumption. destruct (proj2 HT j n' Hj) as (t & Ht). exists t. eapply V_ext; eauto. }
      split; [exact HI|]. split; [exact Hext|]. split; [exact Hc|].
      exists (Nd v (neg l') tl th). split; [apply Vnew|split; [|split]].
      + intro e. rewrite Hsem. unfold rsem; cbn. rewrite Hreg.
        now destruct n, (e v), (tsem th e), (neg l'), (tsem tl e).
      + intros lb Hlb. cbn. split; [exact Hlb|]. split; [apply (above_weaken lb v); [lia|exact Al]|apply (above_weaken lb v); [lia|exact Ah]].
      + intros vs Hvin T1 T2. cbn. auto.
  Qed.

  (* root variable as the code sees it *)
  Lemma top_nd s r v ln tl th : V s r (Nd v ln tl th) -> top s r = v /\ idx r <> 1.
  Proof. intros (H & _). apply Rep_nd_inv in H. destruct H as (Hi & l & h & Hc & _). unfold top. rewrite Hc. cbn. auto. Qed.
  Lemma top_leaf s r : Inv s -> V s r Leaf -> top s r = 0 /\ idx r = 1.
  Proof. intros HT (H & _). apply Rep_leaf_inv in H. unfold top. rewrite H. destruct (cell1 _ (proj1 HT)) as [-> _]. auto. Qed.
  Lemma term_idx r : is_one r || is_zero r = N.eqb (idx r) 1.
  Proof. unfold is_one, is_zero, ref_eqb; destruct r as [i []]; cbn; destruct (N.eqb i 1); reflexivity. Qed.

  Lemma tc_ok s r m t : Inv s -> V s r t -> (t = Leaf \/ m <= top s r) ->
    forall r0 r1, top_cofactors s r m = (r0, r1) ->
    exists t0 t1, V s r0 t0 /\ V s r1 t1 /\ above m t0 /\ above m t1 /\
      (forall e, rsem r t e = if e m then rsem r1 t1 e else rsem r0 t0 e) /\
      (forall lb, above lb t -> above lb t0 /\ above lb t1) /\
      (forall vs, tvars_in vs t -> tvars_in vs t0 /\ tvars_in vs t1) /\
      (r0 = r1 -> r0 = r /\ t0 = t /\ t1 = t /\ above m t) /\
      (t = Leaf \/ m < top s r -> r0 = r /\ r1 = r /\ t0 = t /\ t1 = t) /\
      (forall v ln tl th, t = Nd v ln tl th -> m = v -> t0 = tl /\ t1 = th).
  Proof.
    intros HT HV Hm r0 r1 Htc. unfold top_cofactors in Htc. rewrite term_idx in Htc.
    destruct t as [|v ln tl th].
    - destruct (top_leaf _ _ HT HV) as [_ Hi]. rewrite Hi in Htc. cbn in Htc. inversion Htc; subst.
      exists Leaf, Leaf. splits; cbn; auto; try discriminate. intro e. now destruct (e m).
    - destruct (top_nd _ _ _ _ _ _ HV) as [_ Hi]. destruct Hm as [Hm|Hm]; [discriminate|].
      destruct (N.eqb_spec (idx r) 1); [contradiction|].
      destruct HV as (HR & HO & HZ & HD). apply Rep_nd_inv in HR. destruct HR as (_ & l & h & Hc & Hreg & -> & Rl & Rh).
      unfold top in Hm. rewrite Hc in Htc, Hm. cbn in Htc, Hm.
      destruct HO as (Al & Ah & Ol & Oh).
      destruct (N.ltb_spec m v) as [Hlt|Hge].
      + injection Htc as <- <-. exists (Nd v (neg l) tl th), (Nd v (neg l) tl th).
        assert (above m (Nd v (neg l) tl th)).
        { cbn. split; [assumption|]. split; [apply (above_weaken m v); [lia|exact Al]|apply (above_weaken m v); [lia|exact Ah]]. }
        assert (V s r (Nd v (neg l) tl th)) by (vsplits; [econstructor; eauto|cbn; auto|exact HZ|exact HD]).
        splits; cbn; auto; try (intros v0 ? ? ? E0 Em; injection E0 as <- _ _ _; lia). intro e; now destruct (e m).
      + assert (m = v) by lia. subst m.
        assert (Hsem : forall e, rsem r (Nd v (neg l) tl th) e =
                  if e v then rsem (if neg r then rneg h else h) th e else rsem (if neg r then rneg l else l) tl e).
        { intro e. unfold rsem; cbn. destruct (neg r); cbn; rewrite Hreg; now destruct (e v), (neg l), (tsem tl e), (tsem th e). }
        assert (Hneq : forall a b : ref, (if neg r then rneg a else a) = (if neg r then rneg b else b) -> a = b).
        { intros a b E. destruct (neg r); [|exact E]. rewrite <- (rneg_invol a), <- (rneg_invol b). now rewrite E. }
        assert (Hlh : l <> h).
        { intros ->. destruct HD as (Hn & _). apply Hn. split; [exact Hreg|]. exact (Rep_fun _ _ _ Rl _ Rh). }
        destruct HZ as (_ & Zl & Zh). destruct HD as (_ & Dl & Dh).
        assert (Htc' : (if neg r then rneg l else l, if neg r then rneg h else h) = (r0, r1)) by (destruct (neg r); exact Htc).
        injection Htc' as <- <-. exists tl, th. splits; auto.
        -- destruct (neg r); vsplits; assumption.
        -- destruct (neg r); vsplits; assumption.
        -- intros lb (Hlb & A1 & A2); split; assumption.
        -- intros vs (Hv & T1 & T2); split; assumption.
        -- intro E. apply Hneq in E. contradiction.
        -- intros [E|E]; [discriminate|]. unfold top in E. rewrite Hc in E. cbn in E. lia.
        -- intros v0 ? ? ? E0 _. injection E0 as _ _ <- <-. auto.
  Qed.

  Lemma ref_eqb_true a b : ref_eqb a b = true -> a = b.
  Proof. destruct (ref_eqb_spec a b); congruence. Qed.
  Lemma is_one_true r : is_one r = true -> r = one. Proof. apply ref_eqb_true. Qed.
  Lemma is_zero_true r : is_zero r = true -> r = zero. Proof. apply ref_eqb_true. Qed.

  Definition Post (s s' : st) (r f g h : ref) (tf tg th : tree) :=
    Inv s' /\ CInv s' /\ sext s s' /\
    exists tr, V s' r tr /\ (forall e, rsem r tr e = if rsem f tf e then rsem g tg e else rsem h th e)
       /\ (forall lb, above lb tf -> above lb tg -> above lb th -> above lb tr)
       /\ (forall vs, tvars_in vs tf -> tvars_in vs tg -> tvars_in vs th -> tvars_in vs tr).

  Lemma Post_conv s s' r f g h tf tg th f' g' h' tf' tg' th' :
    Post s s' r f' g' h' tf' tg' th' ->
    (forall e, (if rsem f' tf' e then rsem g' tg' e else rsem h' th' e) = (if rsem f tf e then rsem g tg e else rsem h th e)) ->
    (forall lb, above lb tf -> above lb tg -> above lb th -> above lb tf' /\ above lb tg' /\ above lb th') ->
    (forall vs, tvars_in vs tf -> tvars_in vs tg -> tvars_in vs th -> tvars_in vs tf' /\ tvars_in vs tg' /\ tvars_in vs th') ->
    Post s s' r f g h tf tg th.
  Proof.
    intros (HT & HC & HE & tr & HV & Hs & Hb & Hw) Hsem Hab Hvs. unfold Post. splits; auto. exists tr. splits; auto.
    - intro e. now rewrite Hs, Hsem.
    - intros lb A1 A2 A3. destruct (Hab lb A1 A2 A3) as (? & ? & ?). auto.
    - intros vs A1 A2 A3. destruct (Hvs vs A1 A2 A3) as (? & ? & ?). auto.
  Qed.

  Lemma Post_ret s f g h tf tg th r tr :
    Inv s -> CInv s -> V s r tr ->
    (forall e, rsem r tr e = if rsem f tf e then rsem g tg e else rsem h th e) ->
    (forall lb, above lb tf -> above lb tg -> above lb th -> above lb tr) ->
    (forall vs, tvars_in vs tf -> tvars_in vs tg -> tvars_in vs th -> tvars_in vs tr) ->
    Post s s r f g h tf tg th.
  Proof. intros. unfold Post. splits; auto using sext_refl. exists tr; splits; auto. Qed.

  Ltac bool_sem :=
    let e := fresh "e" in
    intro e; rewrite ?rsem_neg; unfold rsem; cbn;
    repeat match goal with |- context[tsem ?t e] => destruct (tsem t e) end;
    repeat match goal with |- context[neg ?r] => destruct (neg r) end; reflexivity.

  (* unify trees of syntactically related refs *)
  Ltac unify_trees :=
    repeat match goal with
    | H : V _ one ?t |- _ => assert (t = Leaf) by (eapply (V_term _ one); [reflexivity|exact H]); subst t; clear H
    | H : V _ zero ?t |- _ => assert (t = Leaf) by (eapply (V_term _ zero); [reflexivity|exact H]); subst t; clear H
    | H : V ?s (rneg ?r) ?t |- _ => apply V_neg' in H
    | H1 : V ?s ?r ?t1, H2 : V ?s ?r ?t2 |- _ => assert (t1 = t2) by (exact (V_fun _ _ _ _ H1 H2)); subst t2; clear H2
    end.

  Lemma top_cases s r t : Inv s -> V s r t ->
    (t = Leaf /\ top s r = 0 /\ idx r = 1) \/ (exists v ln tl th, t = Nd v ln tl th /\ top s r = v /\ 0 < v /\ idx r <> 1).
  Proof.
    intros HT HV. destruct t as [|v ln tl th].
    - left. destruct (top_leaf _ _ HT HV). auto.
    - right. destruct (top_nd _ _ _ _ _ _ HV) as [Ht Hi]. exists v, ln, tl, th. splits; auto.
      destruct HV as (_ & _ & (Hz & _) & _). exact Hz.
  Qed.
  Lemma EntryOK_ext s s' k r : sext s s' -> EntryOK s k r -> EntryOK s' k r.
  Proof.
    intros HE. destruct k as [f g h|f g|f g]; cbn; auto.
    - intros (tf & tg & th & tr & ? & ? & ? & ? & ? & ? & ?). exists tf, tg, th, tr. splits; eauto using V_ext.
    - intros (tf & tg & tr & ? & ? & ? & ? & ?). exists tf, tg, tr. splits; eauto using V_ext.
    - intros (tf & tg & tr & ? & ? & ? & ? & ? & ?). exists tf, tg, tr. splits; eauto using V_ext.
  Qed.
  Lemma CInv_ext s s' : CInv s -> sext s s' -> (forall k, cget s' k = cget s k) -> CInv s'.
  Proof. intros HC HE Hk k r Hg. rewrite Hk in Hg. eapply EntryOK_ext; eauto. Qed.
  (* inserting a correct entry keeps the cache invariant *)
  Lemma CInv_cput s k r : Inv s -> CInv s -> EntryOK s k r -> CInv (cput s k r) /\ sext s (cput s k r) /\ Inv (cput s k r).
  Proof.
    intros HT HC HE. destruct (cput_spec s k r (proj1 HT)) as (HT' & Hcell & Hget).
    assert (E : sext s (cput s k r)) by (intros x nx Hx; now rewrite Hcell).
    assert (HI : Inv (cput s k r)).
    { split; [exact HT'|]. intros j n' Hj. rewrite Hcell in Hj. destruct (proj2 HT j n' Hj) as (t & Ht). exists t. eapply V_ext; eauto. }
    splits; auto. intros k' r' Hg. destruct (Hget k' r' Hg) as [Hold|[-> ->]].
    - eapply EntryOK_ext; eauto.
    - eapply EntryOK_ext; eauto.
  Qed.

End S.

(* tactics re-exported for the files that build on this one *)
Ltac vsplits := unfold V; splits.
Ltac bool_sem :=
  let e := fresh "e" in
  intro e; rewrite ?rsem_neg; unfold rsem; cbn;
  repeat match goal with |- context[tsem ?t e] => destruct (tsem t e) end;
  repeat match goal with |- context[neg ?r] => destruct (neg r) end; reflexivity.
Ltac unify_trees :=
  repeat match goal with
  | H : V _ one ?t |- _ => assert (t = Leaf) by (eapply (V_term _ one); [reflexivity|exact H]); subst t; clear H
  | H : V _ zero ?t |- _ => assert (t = Leaf) by (eapply (V_term _ zero); [reflexivity|exact H]); subst t; clear H
  | H : V ?s (rneg ?r) ?t |- _ => apply V_neg' in H
  | H1 : V ?s ?r ?t1, H2 : V ?s ?r ?t2 |- _ => assert (t1 = t2) by (exact (V_fun _ _ _ _ H1 H2)); subst t2; clear H2
  end.
