From Coq Require Import NArith Bool Lia List.
Require Import Canon BddBase.
Local Open Scope N_scope.

(* Renaming of node indices: what the L2 layer of the correspondence check establishes between two stores. *)
Section Iso.
  Context {SO : StoreOps}.
  Variable b : N -> N.
  Definition bref (r : ref) := R (b (idx r)) (neg r).
  Definition bnode (n : node) := Node (var n) (bref (lo n)) (bref (hi n)).
  (* s' contains the image of every cell of s *)
  Definition sim (s s' : st) := b 1 = 1 /\ (forall i, i <> 1 -> b i <> 1) /\
    forall i n, cell s i = Some n -> cell s' (b i) = Some (bnode n).

  Lemma Rep_iso s s' : sim s s' -> forall i t, Rep s i t -> Rep s' (b i) t.
  Proof.
    intros (H1 & Hn1 & Hc) i t HR. induction HR as [|i v l h tl th Hi Hcell Hneg _ IHl _ IHh].
    - rewrite H1. constructor.
    - pose proof (Hc _ _ Hcell) as Hc'. cbn in Hc'.
      change (neg l) with (neg (bref l)).
      eapply RepNd; [apply Hn1; exact Hi | exact Hc' | exact Hneg | exact IHl | exact IHh].
  Qed.

  Theorem V_iso s s' : sim s s' -> forall r t, V s r t -> V s' (bref r) t.
  Proof. intros Hs r t (HR & Ho & Ha & Hred). unfold V. repeat split; auto. cbn. eapply Rep_iso; eauto. Qed.
End Iso.
Print Assumptions V_iso.
