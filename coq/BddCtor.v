From Coq Require Import NArith Bool Lia List Permutation Sorted.
Require Import Canon SemTk BddBase BddIte.
Import ListNotations.
Local Open Scope N_scope.

Section Ctor.
  Context {SO : StoreOps} {OK : StoreOK}.

  Definition lit := (N * bool)%type.                       (* variable, polarity *)
  Definition holds (e : env) (l : lit) : bool := Bool.eqb (e (fst l)) (snd l).

  (* stable insertion sort by variable: same result as Rust's stable sort_by_key for every input *)
  Fixpoint insert_lit (x : lit) (l : list lit) : list lit :=
    match l with [] => [x] | y :: r => if fst x <=? fst y then x :: l else y :: insert_lit x r end.
  Definition sort_lits (l : list lit) : list lit := fold_right insert_lit [] l.

  Fixpoint asc_lits (lb : N) (l : list lit) : Prop :=
    match l with [] => True | x :: r => lb < fst x /\ asc_lits (fst x) r end.

  (* cube / clause: bottom-up over the ascending list (the loop runs over the reversed sorted vector) *)
  Fixpoint build (clause : bool) (s : st) (l : list lit) : option (st * ref) :=
    match l with
    | [] => Some (s, if clause then zero else one)
    | (v, b) :: rest =>
      match build clause s rest with
      | None => None
      | Some (s1, cur) =>
        if clause then (if b then mk_node s1 v cur one else mk_node s1 v one cur)
        else (if b then mk_node s1 v zero cur else mk_node s1 v cur zero)
      end
    end.
  Definition cube (s : st) (l : list lit) := build false s (sort_lits l).
  Definition clause (s : st) (l : list lit) := build true s (sort_lits l).
  Definition mk_var (s : st) (v : N) := mk_node s v zero one.

  Definition lits_sem (clause : bool) (l : list lit) (e : env) : bool :=
    if clause then existsb (holds e) l else forallb (holds e) l.

  Lemma build_ok cl : forall l lb s s' r, Inv s -> CInv s -> asc_lits lb l -> build cl s l = Some (s', r) ->
    Inv s' /\ CInv s' /\ sext s s' /\ exists tr, V s' r tr /\ above lb tr /\
      (forall vs, (forall x, In x l -> In (fst x) vs) -> tvars_in vs tr) /\
      forall e, rsem r tr e = lits_sem cl l e.
  Proof.
    induction l as [|[v b] rest IH]; intros lb s s' r HT HC Hasc H; cbn [build] in H.
    - injection H as <- <-. splits; auto using sext_refl. exists Leaf.
      destruct cl; splits; cbn; auto using V_zero, V_one.
    - destruct Hasc as [Hlb Hrest]. cbn [fst] in *.
      destruct (build cl s rest) as [[s1 cur]|] eqn:Hb; [|discriminate].
      destruct (IH v s s1 cur HT HC Hrest Hb) as (HT1 & HC1 & E1 & tc & Vc & Ac & Wc & Sc).
      assert (Hv0 : 0 < v) by lia.
      assert (Hmk : forall lo hi tlo thi, mk_node s1 v lo hi = Some (s', r) -> V s1 lo tlo -> V s1 hi thi -> above v tlo -> above v thi ->
                (forall vs, (forall x, In x ((v, b) :: rest) -> In (fst x) vs) -> tvars_in vs tlo /\ tvars_in vs thi) ->
                Inv s' /\ CInv s' /\ sext s s' /\ exists tr, V s' r tr /\ above lb tr /\
                  (forall vs, (forall x, In x ((v, b) :: rest) -> In (fst x) vs) -> tvars_in vs tr) /\
                  forall e, rsem r tr e = if e v then rsem hi thi e else rsem lo tlo e).
      { intros lo hi tlo thi Hm Vlo Vhi Alo Ahi Wlh.
        destruct (mk_node_ok _ _ _ _ _ _ _ _ HT1 Hm Hv0 Vlo Vhi Alo Ahi) as (HT2 & E2 & K2 & tr & Vr & Sr & Br & Wr).
        assert (HC2 : CInv s') by (eapply CInv_ext; eauto).
        assert (E02 : sext s s') by eauto using sext_trans.
        split; [exact HT2|]. split; [exact HC2|]. split; [exact E02|].
        exists tr. splits; auto. intros vs Hvs. destruct (Wlh vs Hvs). apply Wr; auto. apply (Hvs (v, b)). left; reflexivity. }
      assert (Wc' : forall vs, (forall x, In x ((v, b) :: rest) -> In (fst x) vs) -> tvars_in vs tc)
        by (intros vs Hvs; apply Wc; intros x Hx; apply Hvs; right; exact Hx).
      destruct cl, b.
      + destruct (Hmk cur one tc Leaf H Vc (V_one s1) Ac I) as (? & ? & ? & tr & ? & ? & ? & Sr); [intros; split; cbn; auto|].
        splits; auto. exists tr. splits; auto. intro e. rewrite Sr, Sc. cbn [lits_sem existsb]. unfold holds; cbn [fst snd]. rewrite ?rsem_one, ?rsem_zero. now destruct (e v).
      + destruct (Hmk one cur Leaf tc H (V_one s1) Vc I Ac) as (? & ? & ? & tr & ? & ? & ? & Sr); [intros; split; cbn; auto|].
        splits; auto. exists tr. splits; auto. intro e. rewrite Sr, Sc. cbn [lits_sem existsb]. unfold holds; cbn [fst snd]. rewrite ?rsem_one, ?rsem_zero. now destruct (e v).
      + destruct (Hmk zero cur Leaf tc H (V_zero s1) Vc I Ac) as (? & ? & ? & tr & ? & ? & ? & Sr); [intros; split; cbn; auto|].
        splits; auto. exists tr. splits; auto. intro e. rewrite Sr, Sc. cbn [lits_sem forallb]. unfold holds; cbn [fst snd]. rewrite ?rsem_one, ?rsem_zero. now destruct (e v).
      + destruct (Hmk cur zero tc Leaf H Vc (V_zero s1) Ac I) as (? & ? & ? & tr & ? & ? & ? & Sr); [intros; split; cbn; auto|].
        splits; auto. exists tr. splits; auto. intro e. rewrite Sr, Sc. cbn [lits_sem forallb]. unfold holds; cbn [fst snd]. rewrite ?rsem_one, ?rsem_zero. now destruct (e v).
  Qed.

  (* sorting: permutation, and strictly ascending when the variables are distinct *)
  Lemma insert_perm x l : Permutation (x :: l) (insert_lit x l).
  Proof.
    induction l as [|y r IH]; cbn; [auto|]. destruct (fst x <=? fst y); [auto|].
    eapply perm_trans; [apply perm_swap|]. now apply perm_skip.
  Qed.
  Lemma sort_perm l : Permutation l (sort_lits l).
  Proof. induction l as [|x r IH]; cbn; [auto|]. eapply perm_trans; [apply perm_skip; exact IH|apply insert_perm]. Qed.
  Lemma insert_asc x : forall l lb, asc_lits lb l -> lb < fst x -> ~ In (fst x) (map fst l) -> asc_lits lb (insert_lit x l).
  Proof.
    induction l as [|y r IH]; intros lb Hl Hx Hnin; cbn; [auto|].
    destruct Hl as [Hy Hr]. destruct (N.leb_spec (fst x) (fst y)).
    - cbn. splits; auto. assert (fst x <> fst y) by (intro E; apply Hnin; left; auto). lia.
    - cbn. split; [assumption|]. apply IH; auto. intro; apply Hnin; right; assumption.
  Qed.
  Lemma sort_asc l : NoDup (map fst l) -> (forall x, In x l -> 0 < fst x) -> asc_lits 0 (sort_lits l).
  Proof.
    induction l as [|x r IH]; intros Hnd Hpos; cbn; [auto|]. inversion Hnd as [|? ? Hnin Hnd']; subst.
    apply insert_asc; auto.
    - apply IH; auto. intros; apply Hpos; right; assumption.
    - apply Hpos; left; reflexivity.
    - intro Hin. apply Hnin. apply in_map_iff in Hin. destruct Hin as (y & Ey & Hy).
      apply in_map_iff. exists y. split; [assumption|]. eapply Permutation_in; [symmetry; apply sort_perm|exact Hy].
  Qed.
  Lemma lits_sem_perm cl l l' e : Permutation l l' -> lits_sem cl l e = lits_sem cl l' e.
  Proof.
    intro P. destruct cl; cbn.
    - induction P; cbn; auto; [now rewrite IHP|now destruct (holds e x), (holds e y)|congruence].
    - induction P; cbn; auto; [now rewrite IHP|now destruct (holds e x), (holds e y)|congruence].
  Qed.

  (* C15: cube and clause denote the conjunction / disjunction of the literals in ANY listing order *)
  Theorem cube_clause_ok cl s l s' r : Inv s -> CInv s -> NoDup (map fst l) -> (forall x, In x l -> 0 < fst x) ->
    build cl s (sort_lits l) = Some (s', r) ->
    Inv s' /\ CInv s' /\ sext s s' /\ exists tr, V s' r tr /\ forall e, rsem r tr e = lits_sem cl l e.
  Proof.
    intros HT HC Hnd Hpos H.
    destruct (build_ok cl (sort_lits l) 0 s s' r HT HC (sort_asc l Hnd Hpos) H) as (? & ? & ? & tr & ? & _ & _ & Sr).
    splits; auto. exists tr. split; auto. intro e. rewrite Sr. symmetry. apply lits_sem_perm. apply sort_perm.
  Qed.
  Print Assumptions cube_clause_ok.
End Ctor.
