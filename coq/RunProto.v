From Coq Require Import Arith NArith Bool Lia List.
Require Import Canon SemTk TableProto BddBase BddIte BddCR BddSat BddCof BddCtor BddReach Glue History.
Import ListNotations.
Local Open Scope N_scope.

(* concrete hashes (src/utils.rs): Szudzik pairing with u64 wrap-around *)
Definition two64 := 18446744073709551616.
Definition szudzik (a b : N) : N :=
  if a <? b then (b * b mod two64 + a) mod two64 else ((a * a mod two64 + a) mod two64 + b) mod two64.
Definition pairing3 (a b c : N) := szudzik (szudzik a b) c.
Definition raw (r : ref) : N := 2 * idx r + (if neg r then 1 else 0).
Definition nhash (n : node) : N := pairing3 (raw (lo n)) (raw (hi n)) (var n).
Definition khash (k : key) : N :=
  match k with
  | KIte f g h => pairing3 (raw f) (raw g) (raw h)
  | KConstrain f g | KRestrict f g => szudzik (raw f) (raw g)
  end.

(* simplest memo instances: association lists *)
Fixpoint alist_get {K V} (eqb : K -> K -> bool) (m : list (K * V)) (k : K) : option V :=
  match m with [] => None | (k', v) :: r => if eqb k' k then Some v else alist_get eqb r k end.
#[refine] Instance memo_ref : Memo ref ref := {| memo := list (ref * ref); mempty := []; mget := alist_get ref_eqb; mput := fun m k v => (k, v) :: m |}.
Proof.
  - reflexivity.
  - intros m k v k' v' H. cbn in H. destruct (ref_eqb_spec k k') as [->|]; [injection H as ->; auto|auto].
Defined.
Definition pair_eqb (a b : ref * ref) := ref_eqb (fst a) (fst b) && ref_eqb (snd a) (snd b).
#[refine] Instance memo_pair : Memo (ref * ref) ref := {| memo := list ((ref * ref) * ref); mempty := []; mget := alist_get pair_eqb; mput := fun m k v => (k, v) :: m |}.
Proof.
  - reflexivity.
  - intros m k v k' v' H. cbn in H. unfold pair_eqb in H. destruct k as [a b], k' as [a' b']. cbn in H.
    destruct (ref_eqb_spec a a') as [->|]; cbn in H; [destruct (ref_eqb_spec b b') as [->|]; cbn in H|]; [injection H as ->; auto|auto|auto].
Defined.

(* Bdd::default(): 2^20 cells, 2^16 buckets, 2^16 cache slots *)
Definition run0 (h : list hop) := run nhash khash 1000 (init 65535 65535 1048576, []) h.
Definition show (x : option (state * regs)) : list (option (N * bool)) :=
  match x with Some (_, rs) => map (fun o => match o with Some r => Some (idx r, neg r) | None => None end) rs | None => [] end.

(* repo test test_to_bracket_string_1: x1 = @2, x2 = @3, x1 & x2 = @4 *)
Eval vm_compute in show (run0 [HVar 1; HVar 2; HIte (0%nat, false) (1%nat, false) (0%nat, true)]).
(* and(x1,x2) via ite(x1, x2, zero): zero is "-x1 & x1"?  use constants through a cube: cube [] = one *)
Eval vm_compute in show (run0 [HVar 1; HVar 2; HCube false []; HIte (0%nat, false) (1%nat, false) (2%nat, true)]).
(* repo test test_to_bracket_string_2: ~x1 | (~x2 & x3) = ~@6:(x1, @5:(x2, T, ~@4:(x3,T,F)), F) *)
Eval vm_compute in show (run0 [HVar 1; HVar 2; HVar 3; HCube false [];
   HIte (1%nat, true) (2%nat, false) (3%nat, true);        (* ~x2 & x3 = ite(~x2, x3, 0) *)
   HIte (0%nat, true) (3%nat, false) (4%nat, false)]).     (* ~x1 | that = ite(~x1, 1, that) *)
(* gc keeps exactly the roots' nodes; the dead register is marked *)
Eval vm_compute in show (run0 [HVar 1; HVar 2; HVar 3; HGc [(0%nat, false); (2%nat, true)]; HVar 2]).
