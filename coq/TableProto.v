From Coq Require Import NArith Bool Lia List FinFun FMapPositive.
Import ListNotations.
Local Open Scope N_scope.
Ltac splits := repeat match goal with |- _ /\ _ => split end.

(* total maps N -> A with a default: only three laws are ever used *)
Section TM.
  Variable A : Type.
  (* default value + binary trie keyed by N.succ_pos: logarithmic access, extracts to plain OCaml *)
  Definition tmap := (A * PositiveMap.t A)%type.
  Definition tget (m : tmap) (i : N) : A :=
    match PositiveMap.find (N.succ_pos i) (snd m) with Some x => x | None => fst m end.
  Definition tset (m : tmap) (i : N) (x : A) : tmap := (fst m, PositiveMap.add (N.succ_pos i) x (snd m)).
  Lemma tget_set_same m i x : tget (tset m i x) i = x.
  Proof. unfold tget, tset; cbn. now rewrite PositiveMap.gss. Qed.
  Lemma tget_set_other m i j x : j <> i -> tget (tset m i x) j = tget m j.
  Proof.
    intro H. unfold tget, tset; cbn. rewrite PositiveMap.gso; [reflexivity|].
    intro E. apply H. apply (f_equal Pos.pred_N) in E. now rewrite !N.pos_pred_succ in E.
  Qed.
  Definition tconst (x : A) : tmap := (x, PositiveMap.empty A).
  Lemma tget_const x i : tget (tconst x) i = x.
  Proof. unfold tget, tconst; cbn. now rewrite PositiveMap.gempty. Qed.
End TM.
Arguments tget {A}. Arguments tset {A}. Arguments tconst {A}.
Global Opaque tget tset tconst.

(* [start, start + n) as a list of N, built with an N counter (mapping N.of_nat over seq is quadratic) *)
Fixpoint nrange (n : nat) (start : N) : list N := match n with O => [] | S m => start :: nrange m (N.succ start) end.
Lemma nrange_in n : forall s b, In b (nrange n s) <-> s <= b < s + N.of_nat n.
Proof.
  induction n as [|n IH]; intros s b; cbn [nrange In]; [lia|]. rewrite IH. lia.
Qed.
Lemma nrange_nodup n : forall s, NoDup (nrange n s).
Proof.
  induction n as [|n IH]; intro s; cbn [nrange]; constructor; [|apply IH]. rewrite nrange_in. lia.
Qed.

Section T.
  Variable V : Type.                      (* stored value *)
  Variable veqb : V -> V -> bool.
  Hypothesis veqb_spec : forall a b, reflect (a = b) (veqb a b).
  Variable hash : V -> N.                 (* arbitrary hash *)

  Record entry := { value : V; next : N; occ : bool }.
  Record table := {
    data : tmap entry; buckets : tmap N;
    nb : N;            (* number of buckets, >= 1 *)
    cap : N;           (* capacity *)
    min_free : N; last_index : N; real_size : N }.

  Definition bidx (t : table) (v : V) : N := hash v mod nb t.

  Inductive res (A : Type) := Ok (a : A) | Full | Fuel.
  Arguments Ok {A}. Arguments Full {A}. Arguments Fuel {A}.

  (* alloc: first unoccupied cell in [min_free, last_index], else last_index+1 *)
  Fixpoint scan (t : table) (n : nat) (i : N) : option N :=
    match n with O => None | S n =>
      if last_index t <? i then None
      else if occ (tget (data t) i) then scan t n (i + 1) else Some i
    end.
  Definition upd_entry (t : table) (i : N) (e : entry) : table :=
    {| data := tset (data t) i e; buckets := buckets t; nb := nb t; cap := cap t;
       min_free := min_free t; last_index := last_index t; real_size := real_size t |}.
  Definition alloc (t : table) : res (table * N) :=
    let found := scan t (N.to_nat (last_index t + 1 - min_free t)) (min_free t) in
    let '(idx, li) := match found with Some i => (i, last_index t) | None => (last_index t + 1, last_index t + 1) end in
    if cap t <=? idx then Full else
    let e := tget (data t) idx in
    Ok ({| data := tset (data t) idx {| value := value e; next := next e; occ := true |};
           buckets := buckets t; nb := nb t; cap := cap t;
           min_free := idx + 1; last_index := li; real_size := real_size t + 1 |}, idx).
  Definition add (t : table) (v : V) : res (table * N) :=
    match alloc t with
    | Ok (t1, i) => Ok (upd_entry t1 i {| value := v; next := 0; occ := occ (tget (data t1) i) |}, i)
    | Full => Full | Fuel => Fuel
    end.
  Definition set_next (t : table) (i n : N) : table :=
    let e := tget (data t) i in upd_entry t i {| value := value e; next := n; occ := occ e |}.
  Definition set_bucket (t : table) (b i : N) : table :=
    {| data := data t; buckets := tset (buckets t) b i; nb := nb t; cap := cap t;
       min_free := min_free t; last_index := last_index t; real_size := real_size t |}.

  Fixpoint walk (fuel : nat) (t : table) (v : V) (index : N) : res (table * N) :=
    match fuel with O => Fuel | S fuel =>
      let e := tget (data t) index in
      if veqb v (value e) then Ok (t, index)
      else if next e =? 0 then
        match add t v with Ok (t1, i) => Ok (set_next t1 index i, i) | Full => Full | Fuel => Fuel end
      else walk fuel t v (next e)
    end.
  Definition put (fuel : nat) (t : table) (v : V) : res (table * N) :=
    let b := bidx t v in
    let index := tget (buckets t) b in
    if index =? 0 then
      match add t v with Ok (t1, i) => Ok (set_bucket t1 b i, i) | Full => Full | Fuel => Fuel end
    else walk fuel t v index.

  (* ---- invariant ---- *)
  Inductive Chain (t : table) : N -> list N -> Prop :=
  | ChNil : Chain t 0 []
  | ChCons i l : i <> 0 -> Chain t (next (tget (data t) i)) l -> Chain t i (i :: l).

  Definition occupied (t : table) (i : N) := occ (tget (data t) i) = true.
  Definition val (t : table) (i : N) := value (tget (data t) i).
  Definition nxt (t : table) (i : N) := next (tget (data t) i).

  Fixpoint cnt (d : tmap entry) (n : nat) : N :=
    match n with O => 0 | S k => cnt d k + (if occ (tget d (N.of_nat (S k))) then 1 else 0) end.

  (* allocation bookkeeping *)
  Record AInv (t : table) : Prop := {
    a_nb : 0 < nb t;
    a_cap : last_index t < cap t;
    a_minfree : 1 <= min_free t <= last_index t + 1;
    a_below : forall i, 1 <= i < min_free t -> occupied t i;
    a_above : forall i, last_index t < i -> ~ occupied t i;
    a_zero : occupied t 0;
    a_count : real_size t = cnt (data t) (N.to_nat (last_index t)) }.

  (* hash chains; [pin] = cells allocated directly (the BDD terminal), never chained *)
  Variable pin : N -> bool.
  Definition chained (t : table) (i : N) := occupied t i /\ i <> 0 /\ pin i = false.
  Record CInv (t : table) : Prop := {
    c_chain : forall b, b < nb t -> exists l, Chain t (tget (buckets t) b) l /\ NoDup l /\
                forall i, In i l -> chained t i /\ bidx t (val t i) = b;
    c_in : forall i, chained t i -> exists l, Chain t (tget (buckets t) (bidx t (val t i))) l /\ In i l;
    c_uniq : forall i j, chained t i -> chained t j -> val t i = val t j -> i = j;
    c_pin : forall i, pin i = true -> occupied t i }.

  (* ---------- alloc ---------- *)
  Lemma scan_some t n i j : scan t n i = Some j ->
    i <= j <= last_index t /\ ~ occupied t j /\ forall k, i <= k < j -> occupied t k.
  Proof.
    revert i. induction n as [|n IH]; intros i H; cbn in H; [discriminate|].
    destruct (N.ltb_spec (last_index t) i); [discriminate|].
    destruct (occ (tget (data t) i)) eqn:Ho.
    - apply IH in H. destruct H as (? & ? & Hk). split; [lia|]. split; [assumption|].
      intros k Hk'. destruct (N.eq_dec k i) as [->|]; [exact Ho|]. apply Hk. lia.
    - injection H as <-. split; [lia|]. split; [unfold occupied; congruence|]. intros; lia.
  Qed.
  Lemma scan_none t n i : scan t n i = None -> (N.to_nat (last_index t + 1 - i) <= n)%nat ->
    forall k, i <= k <= last_index t -> occupied t k.
  Proof.
    revert i. induction n as [|n IH]; intros i H Hn k Hk; cbn in H.
    - lia.
    - destruct (N.ltb_spec (last_index t) i); [lia|].
      destruct (occ (tget (data t) i)) eqn:Ho; [|discriminate].
      destruct (N.eq_dec k i) as [->|]; [exact Ho|]. apply (IH (i + 1)); auto; lia.
  Qed.

  Lemma cnt_ext d d' n : (forall i, 1 <= i <= N.of_nat n -> occ (tget d' i) = occ (tget d i)) -> cnt d' n = cnt d n.
  Proof.
    induction n as [|n IH]; intro H; cbn [cnt]; [reflexivity|].
    rewrite IH, H by (intros; try apply H; lia). reflexivity.
  Qed.
  Lemma cnt_set d n i e : 1 <= i <= N.of_nat n -> occ (tget d i) = false -> occ e = true ->
    cnt (tset d i e) n = cnt d n + 1.
  Proof.
    induction n as [|n IH]; intros Hi Ho He; [lia|]. cbn [cnt].
    destruct (N.eq_dec i (N.of_nat (S n))) as [->|Hne].
    - rewrite tget_set_same, He, Ho. rewrite (cnt_ext d); [lia|].
      intros j Hj. rewrite tget_set_other by lia. reflexivity.
    - rewrite tget_set_other by congruence. rewrite IH by (auto; lia). lia.
  Qed.
  Lemma cnt_le d n : cnt d n <= N.of_nat n.
  Proof. induction n as [|n IH]; cbn [cnt]; [lia|]. destruct (occ _); lia. Qed.
  Lemma cnt_full d n : (forall i, 1 <= i <= N.of_nat n -> occ (tget d i) = true) -> cnt d n = N.of_nat n.
  Proof. induction n as [|n IH]; intro H; cbn [cnt]; [reflexivity|]. rewrite IH, H by (intros; try apply H; lia). lia. Qed.

  Definition frame (t t' : table) (i : N) := forall j, j <> i -> tget (data t') j = tget (data t) j.

  Lemma alloc_ok t t' i : AInv t -> alloc t = Ok (t', i) ->
    AInv t' /\ ~ occupied t i /\ 1 <= i < cap t /\ occupied t' i /\ frame t t' i /\
    val t' i = val t i /\ nxt t' i = nxt t i /\
    buckets t' = buckets t /\ nb t' = nb t /\ cap t' = cap t /\
    real_size t' = real_size t + 1 /\ last_index t' = N.max (last_index t) i /\
    (forall j, 1 <= j < i -> occupied t j) /\
    (last_index t < i -> real_size t = last_index t).
  Proof.
    intros HA H. unfold alloc in H. destruct HA.
    set (found := scan t (N.to_nat (last_index t + 1 - min_free t)) (min_free t)) in *.
    assert (Hidx : exists idx li, (match found with Some i0 => (i0, last_index t) | None => (last_index t + 1, last_index t + 1) end) = (idx, li)
       /\ ~ occupied t idx /\ min_free t <= idx /\ li = N.max (last_index t) idx /\ idx <= last_index t + 1 /\
       (forall j, 1 <= j < idx -> occupied t j)).
    { destruct found as [j|] eqn:Hs.
      - apply scan_some in Hs. destruct Hs as (? & ? & Hk). exists j, (last_index t). repeat split; auto; try lia.
        intros k Hk'. destruct (N.lt_ge_cases k (min_free t)); [apply a_below0; lia|apply Hk; lia].
      - exists (last_index t + 1), (last_index t + 1). repeat split; auto; try lia.
        + apply a_above0. lia.
        + intros k Hk'. destruct (N.lt_ge_cases k (min_free t)); [apply a_below0; lia|].
          eapply scan_none; eauto; lia. }
    destruct Hidx as (idx & li & Heq & Hfree & Hmf & Hli & Hle & Hlow). rewrite Heq in H. clear Heq.
    destruct (N.leb_spec (cap t) idx); [discriminate|]. injection H as <- <-.
    assert (Ho : occ (tget (data t) idx) = false) by (unfold occupied in Hfree; now destruct (occ _)).
    repeat match goal with |- _ /\ _ => split end; cbn; auto; try lia.
    - constructor; cbn; auto; try lia.
      + intros j Hj. unfold occupied; cbn. destruct (N.eq_dec j idx) as [->|].
        * now rewrite tget_set_same.
        * rewrite tget_set_other by assumption. apply Hlow. lia.
      + intros j Hj. unfold occupied; cbn. rewrite tget_set_other by lia. apply a_above0. lia.
      + unfold occupied; cbn. rewrite tget_set_other; [exact a_zero0|lia].
      + subst li. destruct (N.max_spec (last_index t) idx) as [[Hlt ->]|[Hge ->]].
        * (* grew: idx = last_index + 1 *)
          assert (idx = last_index t + 1) by lia. subst idx.
          replace (N.to_nat (last_index t + 1)) with (S (N.to_nat (last_index t))) by lia.
          cbn [cnt]. replace (N.of_nat (S (N.to_nat (last_index t)))) with (last_index t + 1) by lia.
          rewrite tget_set_same; cbn.
          rewrite (cnt_ext (data t)); [lia|]. intros j Hj. rewrite tget_set_other by lia. reflexivity.
        * rewrite cnt_set; auto; try lia.
    - unfold occupied; cbn. now rewrite tget_set_same.
    - intros j Hj. cbn. now rewrite tget_set_other.
    - unfold val; cbn. now rewrite tget_set_same.
    - unfold nxt; cbn. now rewrite tget_set_same.
    - intro Hgt. rewrite a_count0. rewrite cnt_full; [lia|]. intros j Hj. apply Hlow. lia.
  Qed.

  (* ---------- chains ---------- *)
  Lemma Chain_frame t t' h l : Chain t h l -> (forall i, In i l -> nxt t' i = nxt t i) -> Chain t' h l.
  Proof.
    induction 1 as [|i l Hi Hc IH]; intro H; constructor; auto.
    unfold nxt in H. rewrite H by (left; reflexivity). apply IH. intros; apply H; right; assumption.
  Qed.
  Lemma Chain_fun t h l1 : Chain t h l1 -> forall l2, Chain t h l2 -> l1 = l2.
  Proof.
    induction 1 as [|i l Hi Hc IH]; intros l2 H2; inversion H2; subst; try congruence.
    f_equal; auto.
  Qed.
  Lemma Chain_nz t h l : Chain t h l -> ~ In 0 l.
  Proof. induction 1; cbn; intuition. Qed.
  Lemma Chain_app t h l1 x : Chain t h (l1 ++ [x]) -> nxt t x = 0.
  Proof.
    revert h. induction l1 as [|a l1 IH]; intros h H; inversion H; subst.
    - match goal with H : Chain _ _ [] |- _ => inversion H end. unfold nxt. congruence.
    - eapply IH; eauto.
  Qed.
  Lemma Chain_snoc t t' h l1 x i : Chain t h (l1 ++ [x]) -> ~ In i (l1 ++ [x]) -> i <> 0 ->
    (forall j, In j l1 -> nxt t' j = nxt t j) -> nxt t' x = i -> nxt t' i = 0 ->
    Chain t' h (l1 ++ [x; i]).
  Proof.
    revert h. induction l1 as [|a l1 IH]; intros h H Hni Hi0 Hfr; inversion H; subst; intros Hx Hi; cbn.
    - constructor; auto. fold (nxt t' x). rewrite Hx. constructor; auto. fold (nxt t' i). rewrite Hi. constructor.
    - constructor; auto. fold (nxt t' a). rewrite Hfr by (left; reflexivity).
      apply IH; auto.
      + intro Hin. apply Hni. right. exact Hin.
      + intros; apply Hfr; right; assumption.
  Qed.

  (* ---------- add ---------- *)
  Lemma add_ok t v t' i : AInv t -> add t v = Ok (t', i) ->
    AInv t' /\ ~ occupied t i /\ 1 <= i < cap t /\ occupied t' i /\ frame t t' i /\
    val t' i = v /\ nxt t' i = 0 /\ buckets t' = buckets t /\ nb t' = nb t /\ cap t' = cap t /\
    real_size t' = real_size t + 1 /\ last_index t' = N.max (last_index t) i /\
    (forall j, 1 <= j < i -> occupied t j).
  Proof.
    intros HA H. unfold add in H. destruct (alloc t) as [[t1 i1]| |] eqn:Hal; try discriminate.
    injection H as <- <-.
    destruct (alloc_ok _ _ _ HA Hal) as (HA1 & Hfree & Hi & Hocc & Hfr & Hv & Hn & Hb & Hnb & Hcap & Hrs & Hli & Hlow & _).
    assert (Ho : occ (tget (data t1) i1) = true) by exact Hocc.
    repeat match goal with |- _ /\ _ => split end; auto; try lia.
    - destruct HA1. constructor; cbn [upd_entry data buckets nb cap min_free last_index real_size]; auto.
      + intros j Hj. unfold occupied; cbn [upd_entry data]. destruct (N.eq_dec j i1) as [->|].
        * rewrite tget_set_same. exact Ho.
        * rewrite tget_set_other by assumption. apply a_below0; assumption.
      + intros j Hj. unfold occupied; cbn [upd_entry data]. destruct (N.eq_dec j i1) as [->|].
        * rewrite tget_set_same. cbn. intro. apply (a_above0 i1 Hj). exact Ho.
        * rewrite tget_set_other by assumption. apply a_above0; assumption.
      + unfold occupied; cbn [upd_entry data]. destruct (N.eq_dec 0 i1) as [<-|].
        * rewrite tget_set_same. exact Ho.
        * rewrite tget_set_other by assumption. exact a_zero0.
      + rewrite a_count0. apply eq_sym, cnt_ext. intros j Hj. destruct (N.eq_dec j i1) as [->|].
        * rewrite tget_set_same. reflexivity.
        * rewrite tget_set_other by assumption. reflexivity.
    - unfold occupied; cbn [upd_entry data]. rewrite tget_set_same. exact Ho.
    - intros j Hj. cbn [upd_entry data]. rewrite tget_set_other by assumption. apply Hfr; assumption.
    - unfold val; cbn [upd_entry data]. now rewrite tget_set_same.
    - unfold nxt; cbn [upd_entry data]. now rewrite tget_set_same.
  Qed.

  Lemma NoDup_snoc (l : list N) i : NoDup l -> ~ In i l -> NoDup (l ++ [i]).
  Proof.
    induction 1 as [|a l Ha Hnd IH]; cbn; intro Hi.
    - constructor; [intros []|constructor].
    - constructor.
      + intro Hin. apply in_app_or in Hin. destruct Hin as [|[<-|[]]]; [contradiction|]. apply Hi; left; reflexivity.
      + apply IH. intro; apply Hi; right; assumption.
  Qed.

  (* ---------- put ---------- *)
  Definition PutPost (t : table) (v : V) (t' : table) (i : N) : Prop :=
    AInv t' /\ CInv t' /\ val t' i = v /\ chained t' i /\ nb t' = nb t /\ cap t' = cap t /\
    ((t' = t /\ chained t i) \/
     (~ occupied t i /\ (forall j, chained t j -> val t j <> v) /\
      (forall j, j <> i -> (occupied t' j <-> occupied t j) /\ val t' j = val t j) /\
      real_size t' = real_size t + 1 /\ last_index t' = N.max (last_index t) i /\
      (forall j, 1 <= j < i -> occupied t j))).

  Lemma AInv_set_next t x n : AInv t -> AInv (set_next t x n).
  Proof.
    intros []. assert (Ho : forall j, occ (tget (data (set_next t x n)) j) = occ (tget (data t) j)).
    { intro j. unfold set_next; cbn [upd_entry data]. destruct (N.eq_dec j x) as [->|].
      - now rewrite tget_set_same. - now rewrite tget_set_other. }
    constructor; cbn [set_next upd_entry nb cap min_free last_index real_size]; auto; unfold occupied in *; intros; rewrite ?Ho; auto.
    rewrite a_count0. apply eq_sym, cnt_ext. intros; apply Ho.
  Qed.
  Lemma AInv_set_bucket t b i : AInv t -> AInv (set_bucket t b i).
  Proof. intros []. constructor; auto. Qed.

  Lemma set_next_val t x n j : val (set_next t x n) j = val t j.
  Proof. unfold val, set_next; cbn [upd_entry data]. destruct (N.eq_dec j x) as [->|]; [now rewrite tget_set_same|now rewrite tget_set_other]. Qed.
  Lemma set_next_occ t x n j : occupied (set_next t x n) j <-> occupied t j.
  Proof. unfold occupied, set_next; cbn [upd_entry data]. destruct (N.eq_dec j x) as [->|]; [now rewrite tget_set_same|now rewrite tget_set_other]. Qed.
  Lemma set_next_nxt_same t x n : nxt (set_next t x n) x = n.
  Proof. unfold nxt, set_next; cbn [upd_entry data]. now rewrite tget_set_same. Qed.
  Lemma set_next_nxt_other t x n j : j <> x -> nxt (set_next t x n) j = nxt t j.
  Proof. intro. unfold nxt, set_next; cbn [upd_entry data]. now rewrite tget_set_other. Qed.

  (* state after linking a freshly added cell i (from [add]) behind tail x, or as bucket head *)
  Lemma link_ok t v t1 i (t' : table) (l : list N) :
    AInv t -> CInv t -> add t v = Ok (t1, i) ->
    let b := bidx t v in b < nb t ->
    Chain t (tget (buckets t) b) l -> (forall j, In j l -> val t j <> v) ->
    ( (l = [] /\ t' = set_bucket t1 b i) \/ (exists l1 x, l = l1 ++ [x] /\ t' = set_next t1 x i) ) ->
    PutPost t v t' i.
  Proof.
    intros HA HC Hadd b Hb Hch Hne Hshape.
    destruct (add_ok _ _ _ _ HA Hadd) as (HA1 & Hfree & Hi & Hocc1 & Hfr & Hv1 & Hn1 & Hbk & Hnb & Hcap & Hrs & Hli & Hlow).
    assert (Hi0 : i <> 0) by lia.
    assert (Hpin : pin i = false).
    { destruct (pin i) eqn:P; [|reflexivity]. exfalso. apply Hfree. apply (c_pin _ HC). exact P. }
    assert (Hnoval : forall j, chained t j -> val t j <> v).
    { intros j Hj E. destruct (c_in _ HC j Hj) as (l' & Hl' & Hin). rewrite E in Hl'. fold b in Hl'.
      rewrite (Chain_fun _ _ _ Hl' _ Hch) in Hin. apply (Hne j Hin E). }
    assert (Hval1 : forall j, j <> i -> val t1 j = val t j) by (intros j Hj; unfold val; now rewrite Hfr).
    assert (Hocc1' : forall j, j <> i -> (occupied t1 j <-> occupied t j)) by (intros j Hj; unfold occupied; now rewrite Hfr).
    assert (Hnxt1 : forall j, j <> i -> nxt t1 j = nxt t j) by (intros j Hj; unfold nxt; now rewrite Hfr).
    assert (Hnil : forall j, In j l -> j <> i).
    { intros j Hin ->. destruct (c_chain _ HC b Hb) as (l0 & Hl0 & _ & Hm). rewrite (Chain_fun _ _ _ Hl0 _ Hch) in Hm.
      destruct (Hm i Hin) as [[Ho _] _]. contradiction. }
    (* facts common to both shapes *)
    assert (Hcommon : AInv t' /\ (forall j, val t' j = val t1 j) /\ (forall j, occupied t' j <-> occupied t1 j)
              /\ nb t' = nb t1 /\ cap t' = cap t1 /\ real_size t' = real_size t1 /\ last_index t' = last_index t1).
    { destruct Hshape as [[_ ->]|(l1 & x & _ & ->)].
      - splits; auto using AInv_set_bucket; reflexivity.
      - splits; auto using AInv_set_next, set_next_val; intros; apply set_next_occ. }
    destruct Hcommon as (HA' & Hval' & Hocc' & Hnb' & Hcap' & Hrs' & Hli').
    assert (Hch' : forall j, chained t' j <-> chained t j \/ j = i).
    { intro j. unfold chained. rewrite Hocc'. destruct (N.eq_dec j i) as [->|Hji].
      - split; [auto|]. intros _. auto.
      - rewrite Hocc1' by assumption. intuition. }
    assert (Hbidx : forall j, j <> i -> bidx t' (val t' j) = bidx t (val t j)).
    { intros j Hj. unfold bidx. now rewrite Hnb', Hnb, Hval', Hval1. }
    assert (Hbi : bidx t' (val t' i) = b).
    { unfold bidx, b. now rewrite Hnb', Hnb, Hval', Hv1. }
    (* the new chain of bucket b, and frame for the others *)
    assert (Hnewchain : Chain t' (tget (buckets t') b) (l ++ [i]) /\
              forall b' l', b' <> b -> b' < nb t -> Chain t (tget (buckets t) b') l' ->
                 (forall j, In j l' -> chained t j /\ bidx t (val t j) = b') -> Chain t' (tget (buckets t') b') l').
    { destruct Hshape as [[-> ->]|(l1 & x & -> & ->)].
      - inversion Hch as [Hz|]. split.
        + cbn [set_bucket buckets app]. rewrite tget_set_same. constructor; auto.
          fold (nxt (set_bucket t1 b i) i). change (nxt (set_bucket t1 b i) i) with (nxt t1 i). rewrite Hn1. constructor.
        + intros b' l' Hb' _ Hl' Hm. cbn [set_bucket buckets]. rewrite tget_set_other by assumption. rewrite Hbk.
          eapply Chain_frame; [exact Hl'|]. intros j Hin. change (nxt (set_bucket t1 b i) j) with (nxt t1 j).
          apply Hnxt1. intros ->. destruct (Hm i Hin) as [[Ho _] _]. contradiction.
      - assert (Hxi : x <> i) by (apply Hnil; apply in_or_app; right; left; reflexivity).
        split.
        + cbn [set_next upd_entry buckets]. rewrite Hbk. rewrite <- app_assoc. cbn [app].
          eapply Chain_snoc; [exact Hch| | | | |]; auto.
          * intro Hin. apply (Hnil i Hin). reflexivity.
          * intros j Hin. destruct (c_chain _ HC b Hb) as (l0 & Hl0 & Hnd & _).
            rewrite (Chain_fun _ _ _ Hl0 _ Hch) in Hnd.
            assert (j <> x). { intros ->. apply NoDup_remove_2 in Hnd. rewrite app_nil_r in Hnd. contradiction. }
            rewrite set_next_nxt_other by assumption. apply Hnxt1. apply Hnil. apply in_or_app; left; assumption.
          * apply set_next_nxt_same.
          * rewrite set_next_nxt_other by congruence. exact Hn1.
        + intros b' l' Hb' _ Hl' Hm. cbn [set_next upd_entry buckets]. rewrite Hbk.
          eapply Chain_frame; [exact Hl'|]. intros j Hin.
          assert (j <> x).
          { intros ->. destruct (Hm x Hin) as [_ Hbx].
            destruct (c_chain _ HC b Hb) as (l0 & Hl0 & _ & Hm0). rewrite (Chain_fun _ _ _ Hl0 _ Hch) in Hm0.
            destruct (Hm0 x) as [_ Hbx']; [apply in_or_app; right; left; reflexivity|]. congruence. }
          rewrite set_next_nxt_other by assumption. apply Hnxt1.
          intros ->. destruct (Hm i Hin) as [[Ho _] _]. contradiction. }
    destruct Hnewchain as (Hnew & Hothers).
    unfold PutPost. repeat match goal with |- _ /\ _ => split end; try congruence.
    - (* CInv t' *)
      constructor.
      + intros b' Hb'. rewrite Hnb', Hnb in Hb'. destruct (N.eq_dec b' b) as [->|Hbb].
        * exists (l ++ [i]). split; [exact Hnew|]. destruct (c_chain _ HC b Hb) as (l0 & Hl0 & Hnd & Hm).
          rewrite (Chain_fun _ _ _ Hl0 _ Hch) in Hnd, Hm. split.
          -- apply NoDup_snoc; auto. intro Hin. apply (Hnil i Hin). reflexivity.
          -- intros j Hin. apply in_app_or in Hin. destruct Hin as [Hin|[<-|[]]].
             ++ destruct (Hm j Hin) as [Hc Hbj]. split; [apply Hch'; auto|]. rewrite Hbidx; auto.
             ++ split; [apply Hch'; auto|exact Hbi].
        * destruct (c_chain _ HC b' Hb') as (l' & Hl' & Hnd & Hm). exists l'. split; [eauto|]. split; [assumption|].
          intros j Hin. destruct (Hm j Hin) as [Hc Hbj]. split; [apply Hch'; auto|].
          rewrite Hbidx; auto. intros ->. destruct Hc as [Ho _]. contradiction.
      + intros j Hj. apply Hch' in Hj. destruct Hj as [Hj| ->].
        * assert (Hji : j <> i) by (intros ->; destruct Hj; contradiction).
          rewrite Hbidx by assumption. destruct (c_in _ HC j Hj) as (l' & Hl' & Hin).
          destruct (N.eq_dec (bidx t (val t j)) b) as [E|E].
          -- rewrite E in *. rewrite (Chain_fun _ _ _ Hl' _ Hch) in Hin. exists (l ++ [i]). split; [exact Hnew|apply in_or_app; auto].
          -- assert (Hbj : bidx t (val t j) < nb t) by (unfold bidx; apply N.mod_lt; destruct HA; lia).
             destruct (c_chain _ HC _ Hbj) as (l0 & Hl0 & _ & Hm0). rewrite (Chain_fun _ _ _ Hl' _ Hl0) in Hin.
             exists l0. split; [eapply Hothers; eauto|assumption].
        * rewrite Hbi. exists (l ++ [i]). split; [exact Hnew|apply in_or_app; right; left; reflexivity].
      + intros j k Hj Hk E. apply Hch' in Hj. apply Hch' in Hk. rewrite !Hval' in E.
        destruct Hj as [Hj| ->], Hk as [Hk| ->]; auto.
        * assert (j <> i) by (intros ->; destruct Hj; contradiction). assert (k <> i) by (intros ->; destruct Hk; contradiction).
          rewrite !Hval1 in E by assumption. eapply c_uniq; eauto.
        * assert (j <> i) by (intros ->; destruct Hj; contradiction). rewrite (Hval1 j), Hv1 in E by assumption. exfalso. eapply Hnoval; eauto.
        * assert (k <> i) by (intros ->; destruct Hk; contradiction). rewrite (Hval1 k), Hv1 in E by assumption. exfalso. eapply Hnoval; eauto.
      + intros j P. apply Hocc'. destruct (N.eq_dec j i) as [->|]; [exact Hocc1|]. apply Hocc1'; auto. apply (c_pin _ HC); assumption.
    - apply Hch'. auto.
    - right. repeat match goal with |- _ /\ _ => split end; auto; try congruence.
      intros j Hj. split; [rewrite Hocc'; auto|rewrite Hval'; auto].
  Qed.

  Lemma Chain_zero t l : Chain t 0 l -> l = [].
  Proof. inversion 1; congruence. Qed.

  Lemma walk_ok t v : AInv t -> CInv t -> bidx t v < nb t ->
    forall fuel l pre index suf t' i, Chain t (tget (buckets t) (bidx t v)) l -> l = pre ++ suf -> Chain t index suf -> index <> 0 ->
    (forall j, In j pre -> val t j <> v) -> walk fuel t v index = Ok (t', i) -> PutPost t v t' i.
  Proof.
    intros HA HC Hb. induction fuel as [|fuel IH]; intros l pre index suf t' i Hl El Hs Hi Hpre Hw; [discriminate|].
    cbn [walk] in Hw. inversion Hs as [|? suf' _ Hs' E1]; [congruence|]. subst suf.
    destruct (veqb_spec v (value (tget (data t) index))) as [Ev|Nv].
    - injection Hw as <- <-.
      destruct (c_chain _ HC _ Hb) as (l0 & Hl0 & _ & Hm). rewrite (Chain_fun _ _ _ Hl0 _ Hl) in Hm.
      destruct (Hm index) as [Hc _]; [subst l; apply in_or_app; right; left; reflexivity|].
      unfold PutPost. splits; auto.
    - destruct (N.eqb_spec (next (tget (data t) index)) 0) as [Ez|Enz].
      + rewrite Ez in Hs'. apply Chain_zero in Hs'. subst suf'.
        destruct (add t v) as [[t1 i1]| |] eqn:Hadd; try discriminate. injection Hw as <- <-.
        eapply (link_ok t v t1 i1 _ l); eauto; try (right; exists pre, index; now auto).
        intros j Hin. subst l. apply in_app_or in Hin. destruct Hin as [Hin|[<-|[]]]; [auto|]. unfold val. congruence.
      + eapply (IH l (pre ++ [index]) _ suf'); eauto; try (subst l; now rewrite <- app_assoc).
        intros j Hin. apply in_app_or in Hin. destruct Hin as [Hin|[<-|[]]]; [auto|]. unfold val. congruence.
  Qed.

  Theorem put_ok fuel t v t' i : AInv t -> CInv t -> put fuel t v = Ok (t', i) -> PutPost t v t' i.
  Proof.
    intros HA HC H. unfold put in H.
    assert (Hb : bidx t v < nb t) by (unfold bidx; apply N.mod_lt; destruct HA; lia).
    destruct (c_chain _ HC _ Hb) as (l & Hl & _ & _).
    destruct (N.eqb_spec (tget (buckets t) (bidx t v)) 0) as [Ez|Enz].
    - destruct (add t v) as [[t1 i1]| |] eqn:Hadd; try discriminate. injection H as <- <-.
      rewrite Ez in Hl. pose proof (Chain_zero _ _ Hl). subst l. rewrite <- Ez in Hl.
      eapply (link_ok t v t1 i1 _ []); eauto; try (intros j []).
    - eapply (walk_ok t v HA HC Hb fuel l [] _ l); eauto; try (intros j []).
  Qed.

  (* enough fuel: the walk never runs out when fuel exceeds the chain length *)
  Lemma walk_fuel t v : forall fuel index suf, Chain t index suf -> index <> 0 -> (length suf <= fuel)%nat ->
    walk fuel t v index <> Fuel.
  Proof.
    induction fuel as [|fuel IH]; intros index suf Hs Hi Hlen.
    - inversion Hs; subst; [congruence|cbn in Hlen; lia].
    - cbn [walk]. inversion Hs as [|? suf' _ Hs' E1]; [congruence|]. subst suf.
      destruct (veqb v _); [discriminate|].
      destruct (N.eqb_spec (next (tget (data t) index)) 0).
      + unfold add. destruct (alloc t) as [[? ?]| |] eqn:Ha; try discriminate.
        unfold alloc in Ha. destruct (match scan _ _ _ with Some _ => _ | None => _ end). destruct (_ <=? _); discriminate.
      + eapply IH; eauto. cbn in Hlen. lia.
  Qed.

  (* ================= sweep (the table part of collect_garbage) ================= *)
  Definition drop (t : table) (i : N) : table :=
    let e := tget (data t) i in
    {| data := tset (data t) i {| value := value e; next := next e; occ := false |};
       buckets := buckets t; nb := nb t; cap := cap t;
       min_free := N.min (min_free t) i; last_index := last_index t; real_size := real_size t - 1 |}.

  Variable alive : N -> bool.

  (* while index != 0 && !alive(index) { next = next(index); drop(index); index = next }  (used twice in the code) *)
  Fixpoint skip_dead (fuel : nat) (t : table) (index : N) : res (table * N) :=
    match fuel with O => Fuel | S fuel =>
      if index =? 0 then Ok (t, 0)
      else if alive index then Ok (t, index)
      else skip_dead fuel (drop t index) (nxt t index)
    end.
  (* let mut prev = index; while prev != 0 { cur = skip_dead(next(prev)); if next(prev) != cur { set_next(prev,cur) }; prev = cur } *)
  Fixpoint relink (fuel : nat) (t : table) (prev : N) : res table :=
    match fuel with O => Fuel | S fuel =>
      if prev =? 0 then Ok t else
      match skip_dead fuel t (nxt t prev) with
      | Ok (t1, cur) =>
          let t2 := if nxt t1 prev =? cur then t1 else set_next t1 prev cur in
          relink fuel t2 cur
      | Full => Full | Fuel => Fuel
      end
    end.
  Definition sweep_bucket (fuel : nat) (t : table) (b : N) : res table :=
    let index := tget (buckets t) b in
    if index =? 0 then Ok t else
    match skip_dead fuel t index with
    | Ok (t1, head) => relink fuel (set_bucket t1 b head) head
    | Full => Full | Fuel => Fuel
    end.

  (* t' is t with exactly the cells in D dropped; links and values untouched *)
  Definition dropped (t t' : table) (D : list N) :=
    (forall j, occupied t' j <-> occupied t j /\ ~ In j D) /\
    (forall j, val t' j = val t j) /\ (forall j, nxt t' j = nxt t j) /\
    buckets t' = buckets t /\ nb t' = nb t /\ cap t' = cap t /\ last_index t' = last_index t.

  Lemma drop_spec t i : dropped t (drop t i) [i].
  Proof.
    unfold dropped, occupied, val, nxt, drop; cbn [data buckets nb cap last_index]. splits; auto.
    - intro j. destruct (N.eq_dec j i) as [->|Hne].
      + rewrite tget_set_same. cbn. split; [discriminate|]. intros [_ H]. exfalso; apply H; left; reflexivity.
      + rewrite tget_set_other by assumption. split; [intro H; split; [exact H|]|tauto]. intros [E|[]]. congruence.
    - intro j. destruct (N.eq_dec j i) as [->|Hne]; [now rewrite tget_set_same|now rewrite tget_set_other].
    - intro j. destruct (N.eq_dec j i) as [->|Hne]; [now rewrite tget_set_same|now rewrite tget_set_other].
  Qed.
  Lemma dropped_refl t : dropped t t [].
  Proof. unfold dropped; splits; auto. intro j; cbn; tauto. Qed.
  Lemma dropped_trans t1 t2 t3 D1 D2 : dropped t1 t2 D1 -> dropped t2 t3 D2 -> dropped t1 t3 (D1 ++ D2).
  Proof.
    intros (O1 & V1 & N1 & B1 & NB1 & C1 & L1) (O2 & V2 & N2 & B2 & NB2 & C2 & L2). unfold dropped; splits; try congruence.
    intro j. rewrite O2, O1, in_app_iff. tauto.
  Qed.
  Lemma Chain_dropped t t' D h l : dropped t t' D -> Chain t h l -> Chain t' h l.
  Proof. intros (_ & _ & Hn & _) Hc. eapply Chain_frame; eauto. Qed.

  Lemma skip_dead_ok : forall fuel t index l t' cur, Chain t index l -> skip_dead fuel t index = Ok (t', cur) ->
    exists D rest, l = D ++ rest /\ (forall j, In j D -> alive j = false) /\ dropped t t' D /\ Chain t' cur rest /\
      (rest = [] \/ exists rest', rest = cur :: rest' /\ alive cur = true).
  Proof.
    induction fuel as [|fuel IH]; intros t index l t' cur Hc H; [discriminate|]. cbn [skip_dead] in H.
    destruct (N.eqb_spec index 0) as [->|Hnz].
    - injection H as <- <-. apply Chain_zero in Hc as ->. exists [], []. splits; auto using dropped_refl; [intros j []|constructor].
    - inversion Hc as [|? l' _ Hc' E1]; [congruence|]. subst l.
      destruct (alive index) eqn:Ha.
      + injection H as <- <-. exists [], (index :: l'). splits; auto using dropped_refl; [intros j []|]. right. eauto.
      + eapply IH in H; [|eapply Chain_dropped; [apply drop_spec|exact Hc']].
        destruct H as (D & rest & -> & HD & Hdr & Hch & Hrest).
        exists (index :: D), rest. splits; auto.
        * intros j [<-|Hin]; auto.
        * change (index :: D) with ([index] ++ D). eapply dropped_trans; [apply drop_spec|exact Hdr].
  Qed.
  Lemma skip_dead_fuel : forall fuel t index l, Chain t index l -> (length l < fuel)%nat -> skip_dead fuel t index <> Fuel.
  Proof.
    induction fuel as [|fuel IH]; intros t index l Hc Hl; [lia|]. cbn [skip_dead].
    destruct (N.eqb_spec index 0); [discriminate|]. destruct (alive index); [discriminate|].
    inversion Hc as [|? l' _ Hc' E1]; [congruence|]. subst l.
    eapply IH; [eapply Chain_dropped; [apply drop_spec|exact Hc']|cbn in Hl; lia].
  Qed.

  Lemma NoDup_app_r (A B : list N) : NoDup (A ++ B) -> NoDup B.
  Proof. induction A as [|a A IH]; cbn; intro H; [exact H|]. apply IH. now inversion H. Qed.

  Lemma NoDup_app_remove_disjoint (A B : list N) x : NoDup (A ++ B) -> In x A -> In x B -> False.
  Proof.
    induction A as [|a A IH]; cbn; intros H HA HB; [destruct HA|]. inversion H as [|? ? Hn Hnd]; subst.
    destruct HA as [->|HA]; [apply Hn; apply in_or_app; right; exact HB|eauto].
  Qed.

  Lemma NoDup_snoc_mid (r B : list N) b : NoDup (b :: r ++ B) -> NoDup (r ++ b :: B).
  Proof. intro H. apply NoDup_cons_iff in H as [Hn Hd]. apply NoDup_Add with (a := b) (l := r ++ B); [apply Add_app|]. auto. Qed.

  Definition swept (t t' : table) (L : list N) :=
    (forall j, occupied t' j <-> occupied t j /\ ~ (In j L /\ alive j = false)) /\
    (forall j, val t' j = val t j) /\ (forall j, ~ In j L -> nxt t' j = nxt t j) /\
    buckets t' = buckets t /\ nb t' = nb t /\ cap t' = cap t /\ last_index t' = last_index t.

  Lemma filter_dead (D : list N) : (forall j, In j D -> alive j = false) -> filter alive D = [].
  Proof. induction D as [|a D IH]; cbn; intro H; [reflexivity|]. rewrite (H a) by (left; reflexivity). apply IH. intros; apply H; right; assumption. Qed.

  Lemma relink_ok : forall fuel t prev lp t', Chain t prev lp -> NoDup lp ->
    (lp = [] \/ exists l, lp = prev :: l /\ alive prev = true) ->
    relink fuel t prev = Ok t' ->
    swept t t' lp /\ Chain t' prev (filter alive lp).
  Proof.
    induction fuel as [|fuel IH]; intros t prev lp t' Hc Hnd Hshape H; [discriminate|]. cbn [relink] in H.
    destruct (N.eqb_spec prev 0) as [->|Hnz].
    - injection H as <-. apply Chain_zero in Hc as ->. split; [|constructor].
      unfold swept; splits; auto. intro j; cbn; tauto.
    - destruct Hshape as [->|(l & -> & Hal)]; [inversion Hc; congruence|].
      inversion Hc as [|? ? _ Hc' E1]; subst. fold (nxt t prev) in Hc'.
      destruct (skip_dead fuel t (nxt t prev)) as [[t1 cur]| |] eqn:Hs; try discriminate.
      destruct (skip_dead_ok _ _ _ _ _ _ Hc' Hs) as (D & rest & -> & HD & Hdr & Hch1 & Hrest).
      set (t2 := if nxt t1 prev =? cur then t1 else set_next t1 prev cur) in *.
      apply NoDup_cons_iff in Hnd as [Hpn Hnd].
      assert (Hn2 : nxt t2 prev = cur /\ (forall j, j <> prev -> nxt t2 j = nxt t1 j) /\
                    (forall j, occupied t2 j <-> occupied t1 j) /\ (forall j, val t2 j = val t1 j) /\
                    buckets t2 = buckets t1 /\ nb t2 = nb t1 /\ cap t2 = cap t1 /\ last_index t2 = last_index t1).
      { subst t2. destruct (N.eqb_spec (nxt t1 prev) cur) as [E|E].
        - splits; auto; tauto.
        - splits; auto using set_next_nxt_same, set_next_nxt_other, set_next_val, set_next_occ. }
      destruct Hn2 as (Np & No & Oc2 & Va2 & B2 & NB2 & C2 & L2).
      assert (Hpr : ~ In prev rest) by (intro; apply Hpn; apply in_or_app; right; assumption).
      assert (Hch2 : Chain t2 cur rest).
      { eapply Chain_frame; [exact Hch1|]. intros j Hin. apply No. intros ->. contradiction. }
      assert (Hnd2 : NoDup rest) by (apply NoDup_app_r in Hnd; exact Hnd).
      assert (Hshape2 : rest = [] \/ exists l, rest = cur :: l /\ alive cur = true).
      { destruct Hrest as [->|(r' & -> & Ha)]; [left; reflexivity|right; eauto]. }
      destruct (IH _ _ _ _ Hch2 Hnd2 Hshape2 H) as ((O3 & V3 & N3 & B3 & NB3 & C3 & L3) & Hch3).
      destruct Hdr as (O1 & V1 & N1 & B1 & NB1 & C1 & L1).
      split.
      + unfold swept; splits; try congruence.
        * intro j. rewrite O3, Oc2, O1. cbn [In]. rewrite in_app_iff.
          assert (In j D -> alive j = false) by apply HD.
          assert (j = prev -> alive j = true) by (intros ->; exact Hal).
          assert (prev = j -> alive j = true) by (intros <-; exact Hal).
          destruct (alive j); intuition (try congruence); auto.
        * intros j Hj. cbn [In] in Hj. rewrite in_app_iff in Hj.
          rewrite N3 by tauto. rewrite No by (intros ->; tauto). apply N1.
      + cbn [filter]. rewrite Hal. rewrite filter_app, (filter_dead D HD). cbn [app].
        constructor; [assumption|]. fold (nxt t' prev). rewrite N3 by assumption. rewrite Np. exact Hch3.
  Qed.

  (* ---------- allocation bookkeeping through the sweep ---------- *)
  Lemma cnt_unset d n i e : 1 <= i <= N.of_nat n -> occ (tget d i) = true -> occ e = false ->
    cnt (tset d i e) n + 1 = cnt d n.
  Proof.
    induction n as [|n IH]; intros Hi Ho He; [lia|]. cbn [cnt].
    destruct (N.eq_dec i (N.of_nat (S n))) as [->|Hne].
    - rewrite tget_set_same, He, Ho. rewrite (cnt_ext d); [lia|].
      intros j Hj. rewrite tget_set_other by lia. reflexivity.
    - rewrite tget_set_other by congruence. rewrite <- IH by (auto; lia). lia.
  Qed.
  Lemma cnt_pos d n i : 1 <= i <= N.of_nat n -> occ (tget d i) = true -> 1 <= cnt d n.
  Proof.
    induction n as [|n IH]; intros Hi Ho; [lia|]. cbn [cnt].
    destruct (N.eq_dec i (N.of_nat (S n))) as [->|Hne]; [rewrite Ho; lia|].
    assert (1 <= cnt d n) by (apply IH; auto; lia). lia.
  Qed.
  Lemma drop_AInv t i : AInv t -> occupied t i -> 1 <= i -> AInv (drop t i) /\ real_size (drop t i) + 1 = real_size t.
  Proof.
    intros [] Ho Hi.
    assert (Hil : i <= last_index t).
    { destruct (N.le_gt_cases i (last_index t)); [assumption|]. exfalso. eapply a_above0; eauto. }
    assert (Hin : 1 <= i <= N.of_nat (N.to_nat (last_index t))) by lia.
    pose proof (cnt_pos (data t) _ i Hin Ho) as Hpos.
    assert (Hocc : forall j, j <> i -> occ (tget (data (drop t i)) j) = occ (tget (data t) j)).
    { intros j Hj. unfold drop; cbn [data]. now rewrite tget_set_other. }
    split.
    - constructor; cbn [drop nb cap min_free last_index real_size]; auto; try lia.
      + intros j Hj. unfold occupied. rewrite Hocc by lia. apply a_below0. lia.
      + intros j Hj. unfold occupied. destruct (N.eq_dec j i) as [->|Hne]; [lia|]. rewrite Hocc by assumption. apply a_above0. exact Hj.
      + unfold occupied. rewrite Hocc by lia. exact a_zero0.
      + unfold drop; cbn [data]. pose proof (cnt_unset (data t) (N.to_nat (last_index t)) i
            {| value := value (tget (data t) i); next := next (tget (data t) i); occ := false |} Hin Ho eq_refl). lia.
    - unfold drop; cbn [real_size]. lia.
  Qed.

  Lemma drop_occ t i j : occupied (drop t i) j <-> occupied t j /\ j <> i.
  Proof.
    unfold occupied, drop; cbn [data]. destruct (N.eq_dec j i) as [->|Hne].
    - rewrite tget_set_same. cbn. split; [discriminate|tauto].
    - rewrite tget_set_other by assumption. tauto.
  Qed.

  Lemma skip_dead_AInv : forall fuel t index l t' cur, AInv t -> Chain t index l -> NoDup l ->
    (forall j, In j l -> occupied t j /\ 1 <= j) -> skip_dead fuel t index = Ok (t', cur) -> AInv t'.
  Proof.
    induction fuel as [|fuel IH]; intros t index l t' cur HA Hc Hnd Hocc H; [discriminate|]. cbn [skip_dead] in H.
    destruct (N.eqb_spec index 0); [injection H as <- <-; exact HA|].
    destruct (alive index); [injection H as <- <-; exact HA|].
    inversion Hc as [|? l' _ Hc' E1]; [congruence|]. subst l. inversion Hnd as [|? ? Hni Hnd']; subst.
    destruct (Hocc index (or_introl eq_refl)) as [Ho Hi].
    eapply (IH (drop t index) (nxt t index) l'); eauto.
    - apply drop_AInv; assumption.
    - eapply Chain_dropped; [apply drop_spec|exact Hc'].
    - intros j Hj. destruct (Hocc j (or_intror Hj)) as [Hoj Hij]. split; [|exact Hij].
      apply drop_occ. split; [exact Hoj|]. intros ->. contradiction.
  Qed.
  Lemma relink_AInv : forall fuel t prev lp t', AInv t -> Chain t prev lp -> NoDup lp ->
    (forall j, In j lp -> occupied t j /\ 1 <= j) -> relink fuel t prev = Ok t' -> AInv t'.
  Proof.
    induction fuel as [|fuel IH]; intros t prev lp t' HA Hc Hnd Hocc H; [discriminate|]. cbn [relink] in H.
    destruct (N.eqb_spec prev 0); [injection H as <-; exact HA|].
    inversion Hc as [|? l _ Hc' E1]; [congruence|]. subst lp. fold (nxt t prev) in Hc'.
    inversion Hnd as [|? ? Hni Hnd']; subst.
    destruct (skip_dead fuel t (nxt t prev)) as [[t1 cur]| |] eqn:Hs; try discriminate.
    assert (Hocc' : forall j, In j l -> occupied t j /\ 1 <= j) by (intros j Hj; apply Hocc; right; exact Hj).
    pose proof (skip_dead_AInv _ _ _ _ _ _ HA Hc' Hnd' Hocc' Hs) as HA1.
    destruct (skip_dead_ok _ _ _ _ _ _ Hc' Hs) as (D & rest & -> & HD & Hdr & Hch1 & Hrest).
    set (t2 := if nxt t1 prev =? cur then t1 else set_next t1 prev cur) in *.
    assert (HA2 : AInv t2) by (subst t2; destruct (_ =? _); auto using AInv_set_next).
    assert (Hpr : ~ In prev rest) by (intro; apply Hni; apply in_or_app; right; assumption).
    assert (Hch2 : Chain t2 cur rest).
    { subst t2. destruct (_ =? _); [exact Hch1|]. eapply Chain_frame; [exact Hch1|]. intros j Hin. apply set_next_nxt_other. intros ->. contradiction. }
    eapply (IH t2 cur rest); eauto.
    - eapply NoDup_app_r; eauto.
    - intros j Hj. destruct (Hocc' j) as [Hoj Hij]; [apply in_or_app; right; exact Hj|]. split; [|exact Hij].
      destruct Hdr as (O1 & _). assert (occupied t1 j).
      { apply O1. split; [exact Hoj|]. intro HjD. apply NoDup_app_remove_disjoint with (x := j) in Hnd'; auto. }
      subst t2. destruct (_ =? _); [assumption|]. now apply set_next_occ.
  Qed.

  (* ---------- one bucket ---------- *)
  Lemma filter_nil_head (l : list N) x r : filter alive l = x :: r -> alive x = true.
  Proof.
    induction l as [|a l IH]; cbn; [discriminate|]. destruct (alive a) eqn:A; [intro H; injection H as <- _; exact A|exact IH].
  Qed.

  Lemma sweep_bucket_ok fuel t b l t' : AInv t -> Chain t (tget (buckets t) b) l -> NoDup l ->
    (forall j, In j l -> occupied t j /\ 1 <= j) ->
    sweep_bucket fuel t b = Ok t' ->
    AInv t' /\ Chain t' (tget (buckets t') b) (filter alive l) /\
    (forall j, occupied t' j <-> occupied t j /\ ~ (In j l /\ alive j = false)) /\
    (forall j, val t' j = val t j) /\ (forall j, ~ In j l -> nxt t' j = nxt t j) /\
    (forall b', b' <> b -> tget (buckets t') b' = tget (buckets t) b') /\ nb t' = nb t /\ cap t' = cap t /\
    last_index t' = last_index t.
  Proof.
    intros HA Hc Hnd Hocc H. unfold sweep_bucket in H.
    destruct (N.eqb_spec (tget (buckets t) b) 0) as [Ez|Enz].
    - injection H as <-. rewrite Ez in Hc. apply Chain_zero in Hc. subst l. cbn [filter]. splits; auto.
      + rewrite Ez. constructor.
      + intro j; cbn; tauto.
    - destruct (skip_dead fuel t (tget (buckets t) b)) as [[t1 head]| |] eqn:Hs; try discriminate.
      pose proof (skip_dead_AInv _ _ _ _ _ _ HA Hc Hnd Hocc Hs) as HA1.
      destruct (skip_dead_ok _ _ _ _ _ _ Hc Hs) as (D & rest & -> & HD & Hdr & Hch1 & Hrest).
      destruct Hdr as (O1 & V1 & N1 & B1 & NB1 & C1 & L1).
      set (t2 := set_bucket t1 b head) in *.
      assert (HA2 : AInv t2) by (apply AInv_set_bucket; exact HA1).
      assert (Hch2 : Chain t2 head rest) by (eapply Chain_frame; [exact Hch1|reflexivity]).
      assert (Hnd2 : NoDup rest) by (eapply NoDup_app_r; eauto).
      assert (Hocc2 : forall j, In j rest -> occupied t2 j /\ 1 <= j).
      { intros j Hj. destruct (Hocc j) as [Ho Hi]; [apply in_or_app; right; exact Hj|]. split; [|exact Hi].
        change (occupied t1 j). apply O1. split; [exact Ho|]. intro HjD. eapply NoDup_app_remove_disjoint; eauto. }
      assert (Hshape : rest = [] \/ exists l0, rest = head :: l0 /\ alive head = true).
      { destruct Hrest as [->|(r' & -> & Ha)]; [left; reflexivity|right; eauto]. }
      pose proof (relink_AInv _ _ _ _ _ HA2 Hch2 Hnd2 Hocc2 H) as HA3.
      destruct (relink_ok _ _ _ _ _ Hch2 Hnd2 Hshape H) as ((O3 & V3 & N3 & B3 & NB3 & C3 & L3) & Hch3).
      splits; auto.
      + rewrite B3. unfold t2; cbn [set_bucket buckets]. rewrite tget_set_same.
        rewrite filter_app, (filter_dead D HD). exact Hch3.
      + intro j. rewrite O3. change (occupied t2 j) with (occupied t1 j). rewrite O1. rewrite in_app_iff.
        assert (In j D -> alive j = false) by apply HD. destruct (alive j); intuition congruence.
      + intro j. rewrite V3. change (val t2 j) with (val t1 j). apply V1.
      + intros j Hj. rewrite in_app_iff in Hj. rewrite N3 by tauto. change (nxt t2 j) with (nxt t1 j). apply N1.
      + intros b' Hb'. rewrite B3. unfold t2; cbn [set_bucket buckets]. rewrite tget_set_other by assumption. now rewrite B1.
      + rewrite NB3. unfold t2; cbn. exact NB1.
      + rewrite C3. unfold t2; cbn. exact C1.
      + rewrite L3. unfold t2; cbn. exact L1.
  Qed.

  (* ---------- all buckets: the table part of collect_garbage ---------- *)
  Fixpoint sweep_all (fuel : nat) (t : table) (bs : list N) : res table :=
    match bs with
    | [] => Ok t
    | b :: r => match sweep_bucket fuel t b with Ok t1 => sweep_all fuel t1 r | Full => Full | Fuel => Fuel end
    end.

  (* state after the buckets in B have been swept, relative to the original table t0 *)
  Definition G (t0 t : table) (B : list N) : Prop :=
    AInv t /\ nb t = nb t0 /\ cap t = cap t0 /\ (forall j, val t j = val t0 j) /\
    (forall j, occupied t j <-> occupied t0 j /\ ~ (chained t0 j /\ In (bidx t0 (val t0 j)) B /\ alive j = false)) /\
    (forall b l0, b < nb t0 -> Chain t0 (tget (buckets t0) b) l0 ->
        Chain t (tget (buckets t) b) (if in_dec N.eq_dec b B then filter alive l0 else l0)) /\
    last_index t = last_index t0.

  Lemma G_init t0 : AInv t0 -> G t0 t0 [].
  Proof. intro HA. unfold G. splits; auto. intro j. cbn. tauto. Qed.

  Lemma G_step t0 t B b fuel t' : CInv t0 -> G t0 t B -> b < nb t0 -> ~ In b B ->
    sweep_bucket fuel t b = Ok t' -> G t0 t' (b :: B).
  Proof.
    intros HC (HA & Hnb & Hcap & Hval & Hocc & Hch & Hli) Hb HnB H.
    destruct (c_chain _ HC b Hb) as (l0 & Hl0 & Hnd0 & Hm0).
    pose proof (Hch b l0 Hb Hl0) as Hcb. destruct (in_dec N.eq_dec b B) as [?|_]; [contradiction|].
    assert (Hoccl : forall j, In j l0 -> occupied t j /\ 1 <= j).
    { intros j Hj. destruct (Hm0 j Hj) as [(Ho & H0 & Hp) Hbj]. split; [|lia].
      apply Hocc. split; [exact Ho|]. intros (_ & HinB & _). rewrite Hbj in HinB. contradiction. }
    destruct (sweep_bucket_ok _ _ _ _ _ HA Hcb Hnd0 Hoccl H) as (HA' & Hcb' & Ho' & Hv' & Hn' & Hb' & Hnb' & Hcap' & Hli').
    unfold G. splits; auto; try congruence.
    - intro j. rewrite Ho', Hocc. cbn [In].
      split.
      + intros ((Ho & Hn1) & Hn2). split; [exact Ho|]. intros (Hc & [Eb|HinB] & Ha); [|apply Hn1; auto].
        apply Hn2. split; [|exact Ha]. destruct (c_in _ HC j Hc) as (l1 & Hl1 & Hin1). rewrite <- Eb in Hl1.
        now rewrite (Chain_fun _ _ _ Hl0 _ Hl1).
      + intros (Ho & Hn). split; [split; [exact Ho|]|].
        * intros (Hc & HinB & Ha). apply Hn. auto.
        * intros (Hin & Ha). apply Hn. destruct (Hm0 j Hin) as [Hc Hbj]. splits; auto.
    - intros b2 l2 Hb2 Hl2. destruct (N.eq_dec b2 b) as [->|Hne].
      + rewrite (Chain_fun _ _ _ Hl2 _ Hl0). destruct (in_dec N.eq_dec b (b :: B)) as [_|Hn]; [exact Hcb'|exfalso; apply Hn; left; reflexivity].
      + rewrite Hb' by assumption. pose proof (Hch b2 l2 Hb2 Hl2) as Hc2.
        assert (Hdisj : forall j, In j l2 -> ~ In j l0).
        { intros j Hj2 Hj0. destruct (c_chain _ HC b2 Hb2) as (l2' & Hl2' & _ & Hm2). rewrite (Chain_fun _ _ _ Hl2' _ Hl2) in Hm2.
          destruct (Hm2 j Hj2) as [_ E2]. destruct (Hm0 j Hj0) as [_ E0]. congruence. }
        destruct (in_dec N.eq_dec b2 (b :: B)) as [Hi|Hi], (in_dec N.eq_dec b2 B) as [Hi'|Hi']; cbn [In] in Hi;
          try (exfalso; intuition congruence).
        * eapply Chain_frame; [exact Hc2|]. intros j Hj. apply Hn'. apply Hdisj. apply filter_In in Hj. tauto.
        * eapply Chain_frame; [exact Hc2|]. intros j Hj. apply Hn'. apply Hdisj. exact Hj.
  Qed.

  Lemma sweep_all_G : forall bs fuel t0 t B t', CInv t0 -> G t0 t B -> NoDup (bs ++ B) -> (forall b, In b bs -> b < nb t0) ->
    sweep_all fuel t bs = Ok t' -> G t0 t' (rev bs ++ B).
  Proof.
    induction bs as [|b r IH]; intros fuel t0 t B t' HC HG Hnd Hlt H; cbn [sweep_all] in H.
    - injection H as <-. exact HG.
    - destruct (sweep_bucket fuel t b) as [t1| |] eqn:Hs; try discriminate.
      cbn [app] in Hnd. inversion Hnd as [|? ? Hni Hnd']; subst.
      assert (HG1 : G t0 t1 (b :: B)).
      { eapply G_step; eauto; [apply Hlt; left; reflexivity|]. intro; apply Hni; apply in_or_app; right; assumption. }
      cbn [rev]. rewrite <- app_assoc. cbn [app]. eapply IH; eauto.
      + apply NoDup_snoc_mid. exact Hnd.
      + intros; apply Hlt; right; assumption.
  Qed.

  Lemma G_final t0 t' B : AInv t0 -> CInv t0 -> G t0 t' B -> (forall b, b < nb t0 -> In b B) ->
    AInv t' /\ CInv t' /\ (forall j, val t' j = val t0 j) /\
    (forall j, occupied t' j <-> occupied t0 j /\ (chained t0 j -> alive j = true)) /\
    nb t' = nb t0 /\ cap t' = cap t0.
  Proof.
    intros HA0 HC (HA & Hnb & Hcap & Hval & Hocc & Hch & Hli) Hall.
    assert (Hbl : forall j, bidx t0 (val t0 j) < nb t0) by (intro j; unfold bidx; apply N.mod_lt; destruct HA0; lia).
    assert (Hocc' : forall j, occupied t' j <-> occupied t0 j /\ (chained t0 j -> alive j = true)).
    { intro j. rewrite Hocc. split; intros (Ho & Hn); (split; [exact Ho|]).
      - intro Hc. destruct (alive j) eqn:A; [reflexivity|]. exfalso. apply Hn. splits; auto.
      - intros (Hc & _ & Ha). rewrite (Hn Hc) in Ha. discriminate. }
    assert (Hchd : forall j, chained t' j <-> chained t0 j /\ alive j = true).
    { intro j. unfold chained at 1. rewrite Hocc'. unfold chained. split.
      - intros ((Ho & Hi) & H0 & Hp). assert (Hc : occupied t0 j /\ j <> 0 /\ pin j = false) by auto. split; [exact Hc|]. apply Hi. exact Hc.
      - intros ((Ho & H0 & Hp) & Ha). splits; auto. }
    assert (Hbi : forall j, bidx t' (val t' j) = bidx t0 (val t0 j)) by (intro j; unfold bidx; now rewrite Hnb, Hval).
    splits; auto. constructor.
    - intros b Hb. rewrite Hnb in Hb. destruct (c_chain _ HC b Hb) as (l0 & Hl0 & Hnd0 & Hm0).
      pose proof (Hch b l0 Hb Hl0) as Hc. destruct (in_dec N.eq_dec b B) as [_|Hn]; [|exfalso; apply Hn; auto].
      exists (filter alive l0). splits; auto using NoDup_filter.
      intros j Hj. apply filter_In in Hj. destruct Hj as [Hj Ha]. destruct (Hm0 j Hj) as [Hcj Hbj].
      split; [apply Hchd; auto|]. now rewrite Hbi.
    - intros j Hj. apply Hchd in Hj. destruct Hj as [Hc Ha]. destruct (c_in _ HC j Hc) as (l1 & Hl1 & Hin).
      pose proof (Hch _ l1 (Hbl j) Hl1) as Hc1. destruct (in_dec N.eq_dec _ B) as [_|Hn]; [|exfalso; apply Hn; auto].
      rewrite Hbi. exists (filter alive l1). split; [exact Hc1|]. apply filter_In. auto.
    - intros i j Hi Hj E. apply Hchd in Hi, Hj. rewrite !Hval in E. eapply c_uniq; eauto; tauto.
    - intros i Hp. apply Hocc'. split; [apply (c_pin _ HC); exact Hp|]. intros (_ & _ & Hp'). congruence.
  Qed.

  (* "Storage is full" arises only when every cell 1 .. cap-1 is occupied; no cell is written (no table is returned) *)
  Lemma alloc_full t : AInv t -> alloc t = Full ->
    last_index t + 1 = cap t /\ real_size t = last_index t /\ forall k, 1 <= k < cap t -> occupied t k.
  Proof.
    intros HA H. unfold alloc in H. destruct HA.
    destruct (scan t (N.to_nat (last_index t + 1 - min_free t)) (min_free t)) as [j|] eqn:Hs.
    - apply scan_some in Hs. destruct Hs as (Hj & _). destruct (N.leb_spec (cap t) j); [lia|discriminate].
    - pose proof (scan_none _ _ _ Hs (le_n _)) as Hocc.
      destruct (N.leb_spec (cap t) (last_index t + 1)) as [Hc|]; [|discriminate].
      assert (Hall : forall k, 1 <= k <= last_index t -> occupied t k).
      { intros k Hk. destruct (N.lt_ge_cases k (min_free t)); [apply a_below0; lia|apply Hocc; lia]. }
      split; [lia|]. split.
      + rewrite a_count0. rewrite cnt_full; [lia|]. intros i Hi. apply Hall. lia.
      + intros k Hk. apply Hall. lia.
  Qed.

  (* put reports Full only when the allocation itself does *)
  Lemma add_full t v : add t v = Full -> alloc t = Full.
  Proof. unfold add. destruct (alloc t) as [[t1 i]| |]; [discriminate|reflexivity|discriminate]. Qed.
  Lemma walk_full fuel t v i : walk fuel t v i = Full -> alloc t = Full.
  Proof.
    revert i. induction fuel as [|fuel IH]; intros i H; cbn [walk] in H; [discriminate|].
    destruct (veqb v (value (tget (data t) i))); [discriminate|].
    destruct (next (tget (data t) i) =? 0); [|eauto].
    destruct (add t v) as [[t1 j]| |] eqn:E; [discriminate|exact (add_full _ _ E)|discriminate].
  Qed.
  Lemma put_full fuel t v : put fuel t v = Full -> alloc t = Full.
  Proof.
    unfold put. destruct (tget (buckets t) (bidx t v) =? 0); [|apply walk_full].
    destruct (add t v) as [[t1 j]| |] eqn:E; [discriminate|intros _; exact (add_full _ _ E)|discriminate].
  Qed.
  (* the table is full: the high-water mark is at the last cell and every cell 1 .. cap-1 is occupied *)
  Definition storage_full (t : table) : Prop :=
    last_index t + 1 = cap t /\ real_size t = last_index t /\ forall k, 1 <= k < cap t -> occupied t k.
  Lemma put_full_storage fuel t v : AInv t -> put fuel t v = Full -> storage_full t.
  Proof. intros HA H. exact (alloc_full t HA (put_full _ _ _ H)). Qed.

  (* ---------- C06: the high-water mark is the peak number of simultaneously stored cells ---------- *)
  Definition Peak (t : table) (p : N) : Prop := last_index t = p /\ real_size t <= p.
  Lemma cnt_lt d n i : 1 <= i <= N.of_nat n -> occ (tget d i) = false -> cnt d n < N.of_nat n.
  Proof.
    induction n as [|n IH]; intros Hi Ho; [lia|]. cbn [cnt].
    destruct (N.eq_dec i (N.of_nat (S n))) as [->|Hne].
    - rewrite Ho. pose proof (cnt_le d n). rewrite Nat2N.inj_succ. lia.
    - assert (Hi' : 1 <= i <= N.of_nat n) by (rewrite Nat2N.inj_succ in Hi, Hne; lia).
      pose proof (IH Hi' Ho) as Hlt. rewrite Nat2N.inj_succ. destruct (occ (tget d (N.succ (N.of_nat n)))); lia.
  Qed.
  Lemma alloc_peak t t' i p : AInv t -> Peak t p -> alloc t = Ok (t', i) -> Peak t' (N.max p (real_size t')).
  Proof.
    intros HA [Hl Hr] H.
    destruct (alloc_ok _ _ _ HA H) as (HA' & Hfree & Hi & _ & _ & _ & _ & _ & _ & _ & Hrs & Hli & _ & Hgrow).
    unfold Peak. rewrite Hli, Hrs. destruct (N.le_gt_cases i (last_index t)) as [Hle|Hgt].
    - (* reuse of a freed cell: the count stays below the mark *)
      assert (Hlt : real_size t < last_index t).
      { destruct HA. rewrite a_count0. pose proof (cnt_lt (data t) (N.to_nat (last_index t)) i) as Hc.
        rewrite N2Nat.id in Hc. apply Hc; [lia|]. unfold occupied in Hfree. now destruct (occ (tget (data t) i)). }
      lia.
    - specialize (Hgrow Hgt). pose proof (a_minfree _ HA').
      assert (i = last_index t + 1).
      { unfold alloc in H. destruct (scan _ _ _) as [j|] eqn:Es.
        - apply scan_some in Es. destruct (cap t <=? j); [discriminate|]. injection H as _ <-. lia.
        - destruct (cap t <=? last_index t + 1); [discriminate|]. now injection H as _ <-. }
      lia.
  Qed.
  Lemma drop_peak t i p : AInv t -> occupied t i -> 1 <= i -> Peak t p -> Peak (drop t i) p.
  Proof.
    intros HA Ho Hi [Hl Hr]. destruct (drop_AInv t i HA Ho Hi) as [_ Hrs]. unfold Peak. split; [exact Hl|lia].
  Qed.

  Lemma cnt_mono (d d' : tmap entry) n : (forall j, occ (tget d' j) = true -> occ (tget d j) = true) -> cnt d' n <= cnt d n.
  Proof.
    intro H. induction n as [|n IH]; cbn [cnt]; [lia|].
    pose proof (H (N.of_nat (S n))) as Hj. destruct (occ (tget d' (N.of_nat (S n)))); [rewrite Hj by reflexivity|destruct (occ (tget d (N.of_nat (S n))))]; lia.
  Qed.
  (* a (partial or complete) sweep never moves the high-water mark and never increases the live count *)
  Lemma G_peak t0 t B p : G t0 t B -> AInv t0 -> Peak t0 p -> Peak t p /\ real_size t <= real_size t0.
  Proof.
    intros (HA' & _ & _ & _ & Hocc & _ & Hli) HA [Hl Hr].
    assert (Hle : real_size t <= real_size t0).
    { rewrite (a_count t HA'), (a_count t0 HA), Hli. apply cnt_mono. intros j Hj. apply (Hocc j). exact Hj. }
    split; [|exact Hle]. unfold Peak. split; [congruence|lia].
  Qed.

  (* ---------- the chain walk never runs out of fuel when fuel >= capacity ---------- *)
  Lemma nodup_bound (l : list N) n : NoDup l -> (forall x, In x l -> x < n) -> (length l <= N.to_nat n)%nat.
  Proof.
    intros Hnd Hb. assert (H : (length l <= length (nrange (N.to_nat n) 0))%nat).
    { apply NoDup_incl_length; [exact Hnd|]. intros x Hx. apply nrange_in. specialize (Hb x Hx). lia. }
    assert (Hl : forall m s0, length (nrange m s0) = m) by (induction m as [|m IH]; intro s0; cbn [nrange length]; [reflexivity|now rewrite IH]).
    now rewrite Hl in H.
  Qed.
  Theorem put_no_fuel fuel t v : AInv t -> CInv t -> (N.to_nat (cap t) <= fuel)%nat -> put fuel t v <> Fuel.
  Proof.
    intros HA HC Hf. unfold put. destruct (N.eqb_spec (tget (buckets t) (bidx t v)) 0) as [E|Hnz].
    - unfold add. destruct (alloc t) as [[? ?]| |] eqn:Ha; try discriminate.
      unfold alloc in Ha. destruct (match scan _ _ _ with Some _ => _ | None => _ end). destruct (_ <=? _); discriminate.
    - assert (Hb : bidx t v < nb t) by (unfold bidx; apply N.mod_lt; pose proof (a_nb _ HA); lia).
      destruct (c_chain _ HC _ Hb) as (l & Hch & Hnd & Hin).
      apply (walk_fuel t v fuel _ l Hch Hnz).
      assert (length l <= N.to_nat (cap t))%nat; [|lia].
      apply nodup_bound; [exact Hnd|]. intros x Hx. destruct (Hin x Hx) as [(Ho & _) _].
      destruct (N.lt_ge_cases x (cap t)) as [|Hge]; [assumption|]. exfalso.
      apply (a_above _ HA x); [pose proof (a_cap _ HA); lia|exact Ho].
  Qed.


  (* ---------- a collection never runs out of fuel (fuel >= capacity) and never reports Full ---------- *)
  Lemma skip_dead_total : forall fuel t index l, Chain t index l -> (length l < fuel)%nat -> exists t' cur, skip_dead fuel t index = Ok (t', cur).
  Proof.
    induction fuel as [|fuel IH]; intros t index l Hc Hl; [lia|]. cbn [skip_dead].
    destruct (N.eqb_spec index 0); [eauto|]. destruct (alive index); [eauto|].
    inversion Hc as [|? l' _ Hc' E1]; [congruence|]. subst l.
    eapply IH; [eapply Chain_dropped; [apply drop_spec|exact Hc']|cbn in Hl; lia].
  Qed.
  Lemma relink_total : forall fuel t prev lp, Chain t prev lp -> NoDup lp ->
    (lp = [] \/ exists l, lp = prev :: l /\ alive prev = true) -> (length lp < fuel)%nat -> exists t', relink fuel t prev = Ok t'.
  Proof.
    induction fuel as [|fuel IH]; intros t prev lp Hc Hnd Hshape Hl; [lia|]. cbn [relink].
    destruct (N.eqb_spec prev 0) as [->|Hnz]; [eauto|].
    destruct Hshape as [->|(l & -> & Hal)]; [inversion Hc; congruence|].
    inversion Hc as [|? ? _ Hc' E1]; subst. fold (nxt t prev) in Hc'. cbn [length] in Hl.
    destruct (skip_dead_total fuel t (nxt t prev) l Hc' ltac:(lia)) as (t1 & cur & Hs). rewrite Hs.
    destruct (skip_dead_ok _ _ _ _ _ _ Hc' Hs) as (D & rest & -> & HD & Hdr & Hch1 & Hrest).
    set (t2 := if nxt t1 prev =? cur then t1 else set_next t1 prev cur) in *.
    apply NoDup_cons_iff in Hnd as [Hpn Hnd].
    assert (No : forall j, j <> prev -> nxt t2 j = nxt t1 j).
    { subst t2. destruct (N.eqb_spec (nxt t1 prev) cur) as [E|E]; [auto|]. intros j Hj. apply set_next_nxt_other. exact Hj. }
    assert (Hpr : ~ In prev rest) by (intro; apply Hpn; apply in_or_app; right; assumption).
    assert (Hch2 : Chain t2 cur rest).
    { eapply Chain_frame; [exact Hch1|]. intros j Hin. apply No. intros ->. contradiction. }
    apply (IH t2 cur rest Hch2).
    - apply NoDup_app_r in Hnd; exact Hnd.
    - destruct Hrest as [->|(r' & -> & Ha)]; [left; reflexivity|right; eauto].
    - rewrite app_length in Hl. lia.
  Qed.
  Lemma sweep_bucket_total fuel t b l : Chain t (tget (buckets t) b) l -> NoDup l -> (length l < fuel)%nat ->
    exists t', sweep_bucket fuel t b = Ok t'.
  Proof.
    intros Hc Hnd Hl. unfold sweep_bucket. destruct (N.eqb_spec (tget (buckets t) b) 0); [eauto|].
    destruct (skip_dead_total fuel t _ l Hc Hl) as (t1 & head & Hs). rewrite Hs.
    destruct (skip_dead_ok _ _ _ _ _ _ Hc Hs) as (D & rest & -> & HD & Hdr & Hch1 & Hrest).
    apply (relink_total fuel (set_bucket t1 b head) head rest).
    - eapply Chain_frame; [exact Hch1|reflexivity].
    - eapply NoDup_app_r; eauto.
    - destruct Hrest as [->|(r' & -> & Ha)]; [left; reflexivity|right; eauto].
    - rewrite app_length in Hl. lia.
  Qed.
  Lemma chain_short t b l : AInv t -> CInv t -> b < nb t -> Chain t (tget (buckets t) b) l -> NoDup l ->
    (forall i, In i l -> chained t i) -> (length l < N.to_nat (cap t))%nat.
  Proof.
    intros HA HC Hb Hch Hnd Hin.
    assert (H0 : ~ In 0 l) by (intro H; destruct (Hin 0 H) as (_ & H0 & _); congruence).
    assert (Hb' : (length (0%N :: l) <= N.to_nat (cap t))%nat).
    { apply nodup_bound; [constructor; assumption|]. intros x [<-|Hx]; [pose proof (a_cap _ HA); lia|].
      destruct (Hin x Hx) as (Ho & _). destruct (N.lt_ge_cases x (cap t)) as [|Hge]; [assumption|]. exfalso.
      apply (a_above _ HA x); [pose proof (a_cap _ HA); lia|exact Ho]. }
    cbn [length] in Hb'. lia.
  Qed.
  Lemma sweep_all_total : forall bs fuel t0 t B, AInv t0 -> CInv t0 -> G t0 t B -> NoDup (bs ++ B) -> (forall b, In b bs -> b < nb t0) ->
    (N.to_nat (cap t0) <= fuel)%nat -> exists t', sweep_all fuel t bs = Ok t'.
  Proof.
    induction bs as [|b r IH]; intros fuel t0 t B HA0 HC HG Hnd Hlt Hf; cbn [sweep_all]; [eauto|].
    assert (Hb : b < nb t0) by (apply Hlt; left; reflexivity).
    cbn [app] in Hnd. inversion Hnd as [|? ? Hni Hnd']; subst.
    assert (HnB : ~ In b B) by (intro; apply Hni; apply in_or_app; right; assumption).
    destruct (c_chain _ HC b Hb) as (l0 & Hl0 & Hnd0 & Hm0).
    pose proof HG as (_ & _ & _ & _ & _ & Hch & _).
    pose proof (Hch b l0 Hb Hl0) as Hcb. destruct (in_dec N.eq_dec b B) as [?|_]; [contradiction|].
    pose proof (chain_short t0 b l0 HA0 HC Hb Hl0 Hnd0 (fun i Hi => proj1 (Hm0 i Hi))) as Hshort.
    destruct (sweep_bucket_total fuel t b l0 Hcb Hnd0 ltac:(lia)) as (t1 & Hs). rewrite Hs.
    assert (HG1 : G t0 t1 (b :: B)) by (eapply G_step; eauto).
    apply (IH fuel t0 t1 (b :: B)); auto.
    - apply NoDup_snoc_mid. exact Hnd.
    - intros; apply Hlt; right; assumption.
  Qed.

End T.

Arguments data {V}. Arguments buckets {V}. Arguments nb {V}. Arguments cap {V}.
Arguments min_free {V}. Arguments last_index {V}. Arguments real_size {V}.
Arguments value {V}. Arguments next {V}. Arguments occ {V}.
Arguments occupied {V}. Arguments val {V}. Arguments nxt {V}. Arguments AInv {V}.
Arguments Ok {A}. Arguments Full {A}. Arguments Fuel {A}.

(* counting occupied cells against a duplicate-free list of exactly those cells *)
Lemma cnt_eq_length (V : Type) (d : tmap (entry V)) : forall n (l : list N), NoDup l ->
  (forall j, In j l <-> 1 <= j <= N.of_nat n /\ occ (tget d j) = true) -> cnt V d n = N.of_nat (length l).
Proof.
  induction n as [|n IH]; intros l Hnd Hl.
  - destruct l as [|x r]; [reflexivity|]. destruct (proj1 (Hl x) (or_introl eq_refl)) as [Hx _]. lia.
  - cbn [cnt]. destruct (occ (tget d (N.of_nat (S n)))) eqn:Ho.
    + assert (Hin : In (N.of_nat (S n)) l) by (apply Hl; split; [lia|exact Ho]).
      apply in_split in Hin. destruct Hin as (l1 & l2 & ->).
      rewrite (IH (l1 ++ l2)).
      * rewrite !app_length. cbn [length]. lia.
      * eapply NoDup_remove_1; eauto.
      * intro j. split.
        -- intro Hj. assert (Hj' : In j (l1 ++ N.of_nat (S n) :: l2)) by (apply in_app_or in Hj; apply in_or_app; destruct Hj; [left|right; right]; assumption).
           destruct (proj1 (Hl j) Hj') as [Hr Hoj]. split; [|exact Hoj].
           assert (j <> N.of_nat (S n)) by (intros ->; eapply NoDup_remove_2; eauto). lia.
        -- intros [Hr Hoj]. assert (Hj' : In j (l1 ++ N.of_nat (S n) :: l2)) by (apply Hl; split; [lia|exact Hoj]).
           apply in_app_or in Hj'. apply in_or_app. destruct Hj' as [?|[E|?]]; auto. lia.
    + rewrite (IH l Hnd); [lia|]. intro j. rewrite Hl. split; intros [Hr Hoj]; split; auto; try lia.
      destruct (N.eq_dec j (N.of_nat (S n))) as [->|]; [congruence|lia].
Qed.

(* ================= C17: every put / sweep history ================= *)
Section THist.
  Variable V : Type.
  Variable veqb : V -> V -> bool.
  Hypothesis veqb_spec : forall a b, reflect (a = b) (veqb a b).
  Variable hash : V -> N.
  Variable pin : N -> bool.

  Inductive top_ := TPut (v : V) | TSweep (alive : N -> bool).
  Definition bucket_range (t : table V) : list N := nrange (N.to_nat (nb t)) 0.
  Definition tstep (fuel : nat) (t : table V) (o : top_) : res (table V) :=
    match o with
    | TPut v => match put V veqb hash fuel t v with Ok (t', _) => Ok t' | Full => Full | Fuel => Fuel end
    | TSweep alive => sweep_all V alive fuel t (bucket_range t)
    end.
  Fixpoint trun (fuel : nat) (t : table V) (h : list top_) : res (table V) :=
    match h with [] => Ok t | o :: h' => match tstep fuel t o with Ok t' => trun fuel t' h' | Full => Full | Fuel => Fuel end end.

  Lemma bucket_range_ok t : NoDup (bucket_range t) /\ (forall b, In b (bucket_range t) <-> b < nb t).
  Proof. unfold bucket_range. split; [apply nrange_nodup|]. intro b. rewrite nrange_in. lia. Qed.

  (* whatever is inserted, looked up or collected, with whatever survivor sets, for any hash, bucket count and capacity:
     the allocation and chain invariants hold in every reachable table *)
  Theorem table_history fuel : forall h t t', AInv t -> CInv V hash pin t -> trun fuel t h = Ok t' -> AInv t' /\ CInv V hash pin t'.
  Proof.
    induction h as [|o h IH]; intros t t' HA HC H; cbn [trun] in H; [injection H as <-; auto|].
    destruct (tstep fuel t o) as [t1| |] eqn:E; try discriminate. apply (IH t1 t'); auto; clear IH H.
    - destruct o as [v|alive]; cbn [tstep] in E.
      + destruct (put V veqb hash fuel t v) as [[t2 i]| |] eqn:Ep; try discriminate. injection E as <-.
        apply (put_ok V veqb veqb_spec hash pin _ _ _ _ _ HA HC Ep).
      + destruct (bucket_range_ok t) as [Hnd Hbl].
        assert (HG : G V hash pin alive t t1 (rev (bucket_range t) ++ [])).
        { eapply sweep_all_G; eauto using G_init. - now rewrite app_nil_r. - intros b Hb; now apply Hbl. }
        apply (G_final V hash pin alive t t1 _ HA HC HG). intros b Hb. rewrite app_nil_r, <- in_rev. now apply Hbl.
    - destruct o as [v|alive]; cbn [tstep] in E.
      + destruct (put V veqb hash fuel t v) as [[t2 i]| |] eqn:Ep; try discriminate. injection E as <-.
        apply (put_ok V veqb veqb_spec hash pin _ _ _ _ _ HA HC Ep).
      + destruct (bucket_range_ok t) as [Hnd Hbl].
        assert (HG : G V hash pin alive t t1 (rev (bucket_range t) ++ [])).
        { eapply sweep_all_G; eauto using G_init. - now rewrite app_nil_r. - intros b Hb; now apply Hbl. }
        apply (G_final V hash pin alive t t1 _ HA HC HG). intros b Hb. rewrite app_nil_r, <- in_rev. now apply Hbl.
  Qed.
  Print Assumptions table_history.

  (* one collection with an arbitrary survivor predicate: values never move; exactly the chained cells whose index the
     predicate rejects are freed; the invariants are re-established *)
  Theorem sweep_ok fuel t alive t' : AInv t -> CInv V hash pin t -> sweep_all V alive fuel t (bucket_range t) = Ok t' ->
    AInv t' /\ CInv V hash pin t' /\ (forall j, val t' j = val t j) /\
    (forall j, occupied t' j <-> occupied t j /\ (chained V pin t j -> alive j = true)) /\ nb t' = nb t /\ cap t' = cap t.
  Proof.
    intros HA HC E. destruct (bucket_range_ok t) as [Hnd Hbl].
    assert (HG : G V hash pin alive t t' (rev (bucket_range t) ++ [])).
    { eapply sweep_all_G; eauto using G_init. - now rewrite app_nil_r. - intros b Hb; now apply Hbl. }
    apply (G_final V hash pin alive t t' _ HA HC HG). intros b Hb. rewrite app_nil_r, <- in_rev. now apply Hbl.
  Qed.

  (* a collection always completes once fuel >= capacity: never out of fuel, never "Full" *)
  Theorem sweep_total fuel t alive : AInv t -> CInv V hash pin t -> (N.to_nat (cap t) <= fuel)%nat ->
    exists t', sweep_all V alive fuel t (bucket_range t) = Ok t'.
  Proof.
    intros HA HC Hf. destruct (bucket_range_ok t) as [Hnd Hbl].
    apply (sweep_all_total V hash pin alive (bucket_range t) fuel t t [] HA HC (G_init V hash pin alive t HA)); auto.
    - now rewrite app_nil_r.
    - intros b Hb; now apply Hbl.
  Qed.

  (* ---------- C06 over whole histories: the high-water mark is the peak live count ---------- *)
  (* a collection never moves the high-water mark and never increases the live count *)
  Lemma sweep_peak fuel t alive t' p : AInv t -> CInv V hash pin t -> sweep_all V alive fuel t (bucket_range t) = Ok t' ->
    Peak V t p -> Peak V t' p /\ real_size t' <= real_size t.
  Proof.
    intros HA HC E [Hl Hr]. destruct (bucket_range_ok t) as [Hnd Hbl].
    assert (HG : G V hash pin alive t t' (rev (bucket_range t) ++ [])).
    { eapply sweep_all_G; eauto using G_init. - now rewrite app_nil_r. - intros b Hb; now apply Hbl. }
    exact (G_peak V hash pin alive t t' _ p HG HA (conj Hl Hr)).
  Qed.
  (* an insertion raises the mark only to a new peak of the live count *)
  Lemma put_peak fuel t v t' i p : AInv t -> CInv V hash pin t -> put V veqb hash fuel t v = Ok (t', i) ->
    Peak V t p -> Peak V t' (N.max p (real_size t')).
  Proof.
    intros HA HC E [Hl Hr].
    destruct (put_ok V veqb veqb_spec hash pin _ _ _ _ _ HA HC E) as (HA' & _ & _ & _ & _ & _ & [[-> _]|(Hfree & _ & _ & Hrs & Hli & Hlow)]).
    - unfold Peak. split; lia.
    - unfold Peak. rewrite Hli, Hrs. destruct (N.le_gt_cases i (last_index t)) as [Hle|Hgt].
      + (* a freed cell is reused: the count stays below the mark *)
        assert (Hi1 : 1 <= i).
        { destruct (N.eq_dec i 0) as [->|]; [|lia]. exfalso. apply Hfree. apply (a_zero V t HA). }
        assert (Hlt : real_size t < last_index t).
        { rewrite (a_count V t HA). pose proof (cnt_lt V (data t) (N.to_nat (last_index t)) i) as Hc.
          rewrite N2Nat.id in Hc. apply Hc; [lia|]. unfold occupied in Hfree. now destruct (occ (tget (data t) i)). }
        lia.
      + (* the table grows: every cell up to the mark was occupied, so the count reaches a new peak *)
        assert (Hi : i = last_index t + 1).
        { destruct (N.le_gt_cases i (last_index t + 1)) as [|Hbig]; [lia|]. exfalso.
          apply (a_above V t HA (last_index t + 1)); [lia|]. apply Hlow. pose proof (a_minfree V t HA). lia. }
        assert (Hfull : real_size t = last_index t).
        { rewrite (a_count V t HA). rewrite cnt_full; [lia|]. intros j Hj. apply Hlow. lia. }
        lia.
  Qed.

  (* the run with a ghost register holding the largest live count seen so far *)
  Fixpoint trun_peak (fuel : nat) (t : table V) (p : N) (h : list top_) : res (table V * N) :=
    match h with
    | [] => Ok (t, p)
    | o :: h' => match tstep fuel t o with Ok t' => trun_peak fuel t' (N.max p (real_size t')) h' | Full => Full | Fuel => Fuel end
    end.
  (* for every put / collect history: the high-water mark of used cells equals the peak number of simultaneously
     stored values (p' is the maximum of the live count over all prefixes of the history and the starting mark) *)
  Theorem table_history_peak fuel : forall h t p t' p', AInv t -> CInv V hash pin t -> Peak V t p ->
    trun_peak fuel t p h = Ok (t', p') -> last_index t' = p' /\ real_size t' <= p' /\ AInv t' /\ CInv V hash pin t'.
  Proof.
    induction h as [|o h IH]; intros t p t' p' HA HC HP H; cbn [trun_peak] in H.
    - injection H as <- <-. destruct HP. auto.
    - destruct (tstep fuel t o) as [t1| |] eqn:E; try discriminate.
      assert (HI1 : AInv t1 /\ CInv V hash pin t1).
      { apply (table_history fuel [o] t t1 HA HC). cbn [trun]. now rewrite E. }
      destruct HI1 as [HA1 HC1]. apply (IH t1 (N.max p (real_size t1)) t' p' HA1 HC1); [|exact H].
      destruct o as [v|alive]; cbn [tstep] in E.
      + destruct (put V veqb hash fuel t v) as [[t2 i]| |] eqn:Ep; try discriminate. injection E as <-.
        exact (put_peak fuel t v t2 i p HA HC Ep HP).
      + destruct (sweep_peak fuel t alive t1 p HA HC E HP) as [[Hl Hr] Hle]. unfold Peak. split; lia.
  Qed.
End THist.

