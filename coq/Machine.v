From Coq Require Import Arith NArith Bool Lia List FinFun.
Require Import Canon SemTk TableProto BddBase BddIte BddCR BddSat BddCof BddCof2 BddCtor BddEval BddPaths BddReach BddExport BddDot Glue.
Import ListNotations.
Local Open Scope N_scope.

(* The register machine that both runners execute (harness/impl on the crate, harness/model on the extraction of this file).
   One `hop` per history line.  Handles are registers: the k-th handle-producing line owns register k whether or not it is
   skipped (a skipped line leaves a dead register).  A line that names a dead / out-of-range register or violates a documented
   precondition of the crate's API is skipped by both runners. *)

(* ---- the size cache of src/bdd.rs (Cache<Ref, u64>), kept beside the node store: no operation on the store touches it ---- *)
Record scache := { sdata : tmap (option (ref * N)); smask : N }.
Definition sraw (r : ref) : N := 2 * idx r + (if neg r then 1 else 0).     (* MyHash for Ref: the u32 word *)
Definition sc_slot (c : scache) (r : ref) := N.land (sraw r) (smask c).
Definition sc_get (c : scache) (r : ref) : option N :=
  match tget (sdata c) (sc_slot c r) with Some (r', n) => if ref_eqb r' r then Some n else None | None => None end.
Definition sc_put (c : scache) (r : ref) (n : N) : scache := {| sdata := tset (sdata c) (sc_slot c r) (Some (r, n)); smask := smask c |}.
Definition sc_clear (c : scache) : scache := {| sdata := tconst None; smask := smask c |}.

Lemma sc_get_put c r n r' n' : sc_get (sc_put c r n) r' = Some n' -> (r' = r /\ n' = n) \/ sc_get c r' = Some n'.
Proof.
  unfold sc_get, sc_put, sc_slot; cbn [sdata smask]. intro H.
  destruct (N.eq_dec (N.land (sraw r') (smask c)) (N.land (sraw r) (smask c))) as [E|E].
  - rewrite E, tget_set_same in H. destruct (ref_eqb_spec r r') as [->|]; [injection H as ->; auto|discriminate].
  - rewrite tget_set_other in H by exact E. auto.
Qed.
Lemma sc_get_clear c r : sc_get (sc_clear c) r = None.
Proof. unfold sc_get, sc_clear; cbn [sdata]. now rewrite tget_const. Qed.

Inductive binop := BAnd | BOr | BXor | BEq | BImply.
Definition rarg := (nat * bool)%type.         (* register number, complemented? *)
Inductive xexpr := XTerm (a : rarg) | XNot (x : xexpr) | XNeg (x : xexpr) | XAnd (a b : xexpr) | XOr (a b : xexpr) | XXor (a b : xexpr).
   (* XNot = the raw constructor Expr::Not(Box); XNeg = Expr::not / unary minus, which simplifies *)

Inductive hop :=
| HConst (b : bool) | HVar (v : N) | HNode (v : N) (lo hi : rarg)
| HIte (f g h : rarg) | HBin (o : binop) (f g : rarg) | HNot (f : rarg) | HMany (disj : bool) (l : list rarg)
| HCube (cl : bool) (l : list lit) | HExpr (x : xexpr)
| HSubst (f : rarg) (v : N) (b : bool) | HSubstM (f : rarg) (vals : list (N * bool)) | HCofCube (f : rarg) (cube : list (N * bool))
| HCompose (f : rarg) (v : N) (g : rarg) | HConstrain (f g : rarg) | HRestrict (f g : rarg)
| HLow (f : rarg) | HHigh (f : rarg) | HTopCof (hi : bool) (f : rarg) (v : N)
| HItec (f g h : rarg) | HImplies (f g : rarg) | HSize (f : rarg) | HDesc (l : list rarg)
| HSatCount (f : rarg) (n : N) | HOneSat (f : rarg) | HPaths (f : rarg) | HBracket (f : rarg) | HDot (l : list rarg)
| HGc (roots : list rarg).

Inductive out :=
| OReg (r : ref) | OSkip | OOptBool (o : option bool) | OBool (b : bool) | ONum (n : N) | OList (l : list N)
| OPath (p : option path) | OPaths (l : list path) | OBracket (t : btok) | ODot (l : list drec) | OGc.

Section Mach.
  Variable nhash : node -> N.
  Variable khash : key -> N.
  Variable bmask cmask0 smask0 capacity : N.   (* configuration: bucket mask (+1 = bucket count), op-cache mask, size-cache mask, cells *)
  Hypothesis cap_ok : 2 <= capacity.
  Context {MS : Memo ref ref} {MC : Memo (ref * ref) ref} {MQ : Memo (nat * ref) ref} {MN : Memo ref N}.

  Local Instance ops : StoreOps := concrete_ops nhash khash.
  Local Instance ok : StoreOK := concrete_ok nhash khash.

  Record mstate := { core : state; szc : scache }.

  Definition dflt_node : node := Node 0 (R 0 false) (R 0 false).
  Definition init_table : table node :=
    {| data := tset (tset (tconst {| value := dflt_node; next := 0; occ := false |}) 0 {| value := dflt_node; next := 0; occ := true |})
                    1 {| value := dflt_node; next := 0; occ := true |};
       buckets := tconst 0; nb := bmask + 1; cap := capacity; min_free := 2; last_index := 1; real_size := 1 |}.
  Definition init_core : state := {| tbl := init_table; opc := {| cdata := tconst None; Glue.cmask := cmask0 |}; sfuel := N.to_nat capacity; peak := 1 |}.
  Definition init : mstate := {| core := init_core; szc := {| sdata := tconst None; smask := smask0 |} |}.

  Definition regs := list (option ref).       (* None = dead (skipped line, or not marked by a collection) *)
  Definition fetch (rs : regs) (a : rarg) : option ref :=
    match nth_error rs (fst a) with Some (Some r) => Some (if snd a then rneg r else r) | _ => None end.
  Fixpoint fetch_all (rs : regs) (l : list rarg) : option (list ref) :=
    match l with [] => Some [] | a :: l' =>
      match fetch rs a, fetch_all rs l' with Some r, Some rl => Some (r :: rl) | _, _ => None end end.

  Definition below (s : state) (v : N) (r : ref) : bool := (idx r =? 1) || (v <? top s r).
  Fixpoint nodupb (l : list N) : bool := match l with [] => true | x :: r => negb (memN x r) && nodupb r end.
  Definition distinct_pos (l : list lit) : bool := forallb (fun x => 0 <? fst x) l && nodupb (map fst l).
  Fixpoint asc_cubeb (lb : N) (c : list (N * bool)) : bool :=
    match c with [] => true | (u, _) :: r => (lb <? u) && asc_cubeb u r end.

  Fixpoint xlate (rs : regs) (x : xexpr) : option expr :=
    match x with
    | XTerm a => match fetch rs a with Some r => Some (ETerm r) | None => None end
    | XNot a => match xlate rs a with Some e => Some (ENot e) | None => None end
    | XNeg a => match xlate rs a with Some e => Some (enot e) | None => None end
    | XAnd a b => match xlate rs a, xlate rs b with Some x, Some y => Some (EAnd x y) | _, _ => None end
    | XOr a b => match xlate rs a, xlate rs b with Some x, Some y => Some (EOr x y) | _, _ => None end
    | XXor a b => match xlate rs a, xlate rs b with Some x, Some y => Some (EXor x y) | _, _ => None end
    end.

  Definition apply_bin (o : binop) (fuel : nat) (s : state) (u v : ref) : option (state * ref) :=
    match o with
    | BAnd => apply_and fuel s u v | BOr => apply_or fuel s u v | BXor => apply_xor fuel s u v
    | BEq => apply_eq fuel s u v | BImply => apply_imply fuel s u v
    end.

  (* src/bdd.rs size(): the size cache is consulted first *)
  Definition size_op (fuel : nat) (m : mstate) (f : ref) : option (mstate * N) :=
    match sc_get (szc m) f with
    | Some n => Some (m, n)
    | None =>
      match @descendants ops fuel (core m) [f] with
      | Some l => let n := N.of_nat (length l) in Some ({| core := core m; szc := sc_put (szc m) f n |}, n)
      | None => None
      end
    end.

  Definition drop2 {A B C} (x : option (A * B * C)) : option (A * C) :=
    match x with Some (a, _, c) => Some (a, c) | None => None end.

  (* one step.  None = the crate panics ("Storage is full") or the model ran out of fuel *)
  Definition step (fuel : nat) (mr : mstate * regs) (o : hop) : option (mstate * regs * out) :=
    let '(m, rs) := mr in
    let s := core m in
    let push (x : option (state * ref)) :=
      match x with Some (s', r) => Some ({| core := s'; szc := szc m |}, rs ++ [Some r], OReg r) | None => None end in
    let skipr := Some (m, rs ++ [None], OSkip) in
    let skipq := Some (m, rs, OSkip) in
    let query (x : option out) := match x with Some o => Some (m, rs, o) | None => None end in
    match o with
    | HConst b => push (Some (s, if b then one else zero))
    | HVar v => if 0 <? v then push (mk_var s v) else skipr
    | HNode v lo hi =>
      match fetch rs lo, fetch rs hi with
      | Some l, Some h => if (0 <? v) && below s v l && below s v h then push (mk_node s v l h) else skipr
      | _, _ => skipr
      end
    | HIte f g h =>
      match fetch rs f, fetch rs g, fetch rs h with
      | Some a, Some b, Some c => push (ite fuel s a b c)
      | _, _, _ => skipr
      end
    | HBin o f g => match fetch rs f, fetch rs g with Some a, Some b => push (apply_bin o fuel s a b) | _, _ => skipr end
    | HNot f => match fetch rs f with Some a => push (Some (s, rneg a)) | None => skipr end
    | HMany disj l =>
      match fetch_all rs l with
      | Some rl => push (if disj then or_many fuel s zero rl else and_many fuel s one rl)
      | None => skipr
      end
    | HCube cl l => if distinct_pos l then push (build cl s (sort_lits l)) else skipr
    | HExpr x => match xlate rs x with Some e => push (eval fuel s e) | None => skipr end
    | HSubst f v b =>
      match fetch rs f with
      | Some a => if 0 <? v then push (drop2 (subst fuel s mempty a v b)) else skipr
      | None => skipr
      end
    | HSubstM f vals =>
      match fetch rs f with
      | Some a => if nodupb (map fst vals) then push (drop2 (smulti fuel s mempty a vals)) else skipr
      | None => skipr
      end
    | HCofCube f cube =>
      match fetch rs f with
      | Some a => if asc_cubeb 0 cube then push (drop2 (ccube fuel s mempty a cube)) else skipr
      | None => skipr
      end
    | HCompose f v g =>
      match fetch rs f, fetch rs g with
      | Some a, Some b => push (drop2 (compose fuel s mempty a v b))
      | _, _ => skipr
      end
    | HConstrain f g => match fetch rs f, fetch rs g with Some a, Some b => push (constrain fuel s a b) | _, _ => skipr end
    | HRestrict f g => match fetch rs f, fetch rs g with Some a, Some b => push (restrict fuel s a b) | _, _ => skipr end
    | HLow f => match fetch rs f with Some a => if idx a =? 1 then skipr else push (Some (s, low_node s a)) | None => skipr end
    | HHigh f => match fetch rs f with Some a => if idx a =? 1 then skipr else push (Some (s, high_node s a)) | None => skipr end
    | HTopCof hi f v =>
      match fetch rs f with
      | Some a => if (0 <? v) && ((idx a =? 1) || (v <=? top s a))
                  then push (Some (s, if hi then snd (top_cofactors s a v) else fst (top_cofactors s a v))) else skipr
      | None => skipr
      end
    | HItec f g h =>
      match fetch rs f, fetch rs g, fetch rs h with
      | Some a, Some b, Some c => query (match itec fuel s a b c with Some o => Some (OOptBool o) | None => None end)
      | _, _, _ => skipq
      end
    | HImplies f g =>
      match fetch rs f, fetch rs g with
      | Some a, Some b => query (match is_implies fuel s a b with Some o => Some (OBool o) | None => None end)
      | _, _ => skipq
      end
    | HSize f =>
      match fetch rs f with
      | Some a => match size_op fuel m a with Some (m', n) => Some (m', rs, ONum n) | None => None end
      | None => skipq
      end
    | HDesc l =>
      match fetch_all rs l with
      | Some rl => query (match @descendants ops fuel s rl with Some vis => Some (OList vis) | None => None end)
      | None => skipq
      end
    | HSatCount f n =>
      match fetch rs f with
      | Some a => query (match sat_count fuel s a n with Some c => Some (ONum c) | None => None end)
      | None => skipq
      end
    | HOneSat f =>
      match fetch rs f with
      | Some a => query (match one_sat fuel s a [] with Some p => Some (OPath p) | None => None end)
      | None => skipq
      end
    | HPaths f =>
      match fetch rs f with
      | Some a => query (match pall fuel fuel s [(a, [])] with Some ps => Some (OPaths ps) | None => None end)
      | None => skipq
      end
    | HBracket f =>
      match fetch rs f with
      | Some a => query (match to_bracket fuel s a [] with Some (t, _) => Some (OBracket t) | None => None end)
      | None => skipq
      end
    | HDot l =>
      match fetch_all rs l with
      | Some rl => query (match to_dot fuel s rl with Some recs => Some (ODot recs) | None => None end)
      | None => skipq
      end
    | HGc roots =>
      match fetch_all rs roots with
      | Some rl =>
        match @descendants ops fuel s rl, gc nhash khash fuel s rl with
        | Some vis, Some s' =>
          Some ({| core := s'; szc := sc_clear (szc m) |},
                map (fun o => match o with Some r => if memN (idx r) vis then Some r else None | None => None end) rs, OGc)
        | _, _ => None
        end
      | None => skipq
      end
    end.

  Fixpoint run (fuel : nat) (mr : mstate * regs) (h : list hop) : option (mstate * regs * list out) :=
    match h with
    | [] => Some (mr, [])
    | o :: h' =>
      match step fuel mr o with
      | Some (mr', x) => match run fuel mr' h' with Some (mr'', xs) => Some (mr'', x :: xs) | None => None end
      | None => None
      end
    end.

  (* ---------------- what every reachable state satisfies ---------------- *)
  (* a size-cache entry holds the number of nodes reachable from its key (the terminal included) *)
  Definition SzInv (s : state) (c : scache) : Prop :=
    forall r n, sc_get c r = Some n ->
      (exists t, V s r t) /\ exists l, NoDup l /\ (forall j, In j l <-> j = 1 \/ Reach s (idx r) j) /\ n = N.of_nat (length l).

  Definition Good (mr : mstate * regs) : Prop :=
    Inv (core (fst mr)) /\ CInv (core (fst mr)) /\ SzInv (core (fst mr)) (szc (fst mr)) /\
    forall k r, nth_error (snd mr) k = Some (Some r) -> exists t, V (core (fst mr)) r t.

  Lemma nodupb_ok l : nodupb l = true -> NoDup l.
  Proof.
    induction l as [|x r IH]; cbn; intro H; constructor; apply andb_prop in H as [H1 H2]; auto.
    intro Hin. apply memN_spec in Hin. rewrite Hin in H1. discriminate.
  Qed.
  Lemma asc_cubeb_ok c : forall lb, asc_cubeb lb c = true -> asc_cube lb c.
  Proof.
    induction c as [|[u b] r IH]; intros lb H; cbn in *; [exact I|]. apply andb_prop in H as [H1 H2].
    split; [now apply N.ltb_lt|auto].
  Qed.

  Lemma init_good : Good (init, []).
  Proof.
    assert (Hd : forall i, tget (data init_table) i =
        if i =? 1 then {| value := dflt_node; next := 0; occ := true |}
        else if i =? 0 then {| value := dflt_node; next := 0; occ := true |}
        else {| value := dflt_node; next := 0; occ := false |}).
    { intro i. unfold init_table; cbn [data]. destruct (N.eqb_spec i 1) as [->|H1]; [now rewrite tget_set_same|].
      rewrite tget_set_other by assumption. destruct (N.eqb_spec i 0) as [->|H0]; [now rewrite tget_set_same|].
      rewrite tget_set_other by assumption. apply tget_const. }
    assert (Hocc : forall i, occupied init_table i <-> i = 0 \/ i = 1).
    { intro i. unfold occupied. rewrite Hd. destruct (N.eqb_spec i 1), (N.eqb_spec i 0); cbn; intuition congruence. }
    assert (HT : cTInv nhash init_core).
    { unfold cTInv; cbn [tbl init_core]. splits.
      - constructor; cbn [init_table nb cap min_free last_index real_size]; try lia.
        + intros i Hi. apply Hocc. lia.
        + intros i Hi Ho. apply Hocc in Ho. lia.
        + apply Hocc. auto.
        + change (N.to_nat 1) with 1%nat. cbn [cnt]. change (N.of_nat 1) with 1. fold init_table. rewrite Hd. reflexivity.
      - constructor.
        + intros b Hb. exists []. cbn [init_table buckets]. rewrite tget_const. splits; [constructor|constructor|intros i []].
        + intros i (Ho & H0 & Hp). apply Hocc in Ho. unfold pin in Hp. apply N.eqb_neq in Hp. lia.
        + intros i j (Ho & H0 & Hp) _ _. apply Hocc in Ho. unfold pin in Hp. apply N.eqb_neq in Hp. lia.
        + intros i Hp. unfold pin in Hp. apply N.eqb_eq in Hp. apply Hocc. auto.
      - apply Hocc. auto.
      - cbn [init_core sfuel tbl init_table cap]. lia.
      - unfold Peak; cbn [init_core init_table peak last_index real_size]. lia. }
    assert (Hnocell : forall i n, ccell init_core i = Some n -> False).
    { intros i n Hc. apply ccell_some in Hc. destruct Hc as (Ho & Hi & _). apply Hocc in Ho. lia. }
    unfold Good; cbn [fst snd init core szc]. splits.
    - split; [exact HT|]. intros i n Hc. exfalso. eapply Hnocell; eauto.
    - intros k r Hk. exfalso. cbn in Hk. unfold cache_get in Hk; cbn in Hk. rewrite tget_const in Hk. discriminate.
    - intros r n Hk. exfalso. unfold sc_get in Hk; cbn in Hk. rewrite tget_const in Hk. discriminate.
    - intros k r Hk. destruct k; discriminate.
  Qed.

  Definition regs_ok (s : state) (rs : regs) : Prop := forall k r, nth_error rs k = Some (Some r) -> exists t, V s r t.

  Lemma fetch_good s rs a r : regs_ok s rs -> fetch rs a = Some r -> exists t, V s r t.
  Proof.
    intros Hg H. unfold fetch in H. destruct (nth_error rs (fst a)) as [[r0|]|] eqn:E; try discriminate. injection H as <-.
    destruct (Hg _ _ E) as (t & Ht). exists t. destruct (snd a); auto using V_neg.
  Qed.
  Lemma fetch_all_good s rs : regs_ok s rs -> forall l rl, fetch_all rs l = Some rl -> forall r, In r rl -> exists t, V s r t.
  Proof.
    intros Hg. induction l as [|a l IH]; intros rl Fr; cbn in Fr; [injection Fr as <-; intros r []|].
    destruct (fetch rs a) as [r0|] eqn:Fa; [|discriminate]. destruct (fetch_all rs l) as [rl0|]; [|discriminate]. injection Fr as <-.
    intros r [<-|Hin]; [eapply fetch_good; eauto|eapply IH; eauto].
  Qed.
  Lemma fetch_all_F2 s rs : regs_ok s rs -> forall l rl, fetch_all rs l = Some rl -> exists tts, Forall2 (fun x t => V s x t) rl tts.
  Proof.
    intros Hg. induction l as [|a l IH]; intros rl Fr; cbn in Fr; [injection Fr as <-; exists []; constructor|].
    destruct (fetch rs a) as [r0|] eqn:Fa; [|discriminate]. destruct (fetch_all rs l) as [rl0|] eqn:Fl; [|discriminate]. injection Fr as <-.
    destruct (fetch_good _ _ _ _ Hg Fa) as (t & Ht). destruct (IH _ eq_refl) as (tts & Htts). exists (t :: tts). constructor; auto.
  Qed.

  Lemma regs_ok_app s rs o : regs_ok s rs -> (forall r, o = Some r -> exists t, V s r t) -> regs_ok s (rs ++ [o]).
  Proof.
    intros Hg Ho k r0 Hk. destruct (Nat.lt_ge_cases k (length rs)).
    - rewrite nth_error_app1 in Hk by assumption. eauto.
    - rewrite nth_error_app2 in Hk by assumption. destruct (Nat.sub k (length rs)) as [|d]; cbn in Hk; [injection Hk as ->; eauto|destruct d; discriminate].
  Qed.
  Lemma regs_ok_ext s s' rs : sext s s' -> regs_ok s rs -> regs_ok s' rs.
  Proof. intros E Hg k r Hk. destruct (Hg _ _ Hk) as (t & Ht). exists t. eapply V_ext; eauto. Qed.

  Lemma okidx_of_V s r t : Inv s -> V s r t -> okidx s (idx r).
  Proof.
    intros HI HV. destruct (top_cases _ _ _ HI HV) as [(-> & _ & Hi)|(v0 & ln & tl & th & -> & _)].
    - left. exact Hi.
    - destruct HV as (HR & _). inversion HR as [|? ? ? ? ? ? Hc]; subst. right. eauto.
  Qed.

  Lemma SzInv_ext s s' c : Inv s -> Inv s' -> sext s s' -> SzInv s c -> SzInv s' c.
  Proof.
    intros HI HI' E H r n Hk. destruct (H _ _ Hk) as ((t & Vt) & l & Hnd & Hl & Hn). split; [exists t; eapply V_ext; eauto|].
    exists l. splits; auto. intro j. rewrite Hl.
    assert (Hcl : closed s) by (apply closed_of_inv; exact HI).
    pose proof (reach_ext s s' (idx r) j HI' E Hcl (okidx_of_V _ _ _ HI Vt)) as Hre. tauto.
  Qed.

  Lemma push_good m s' rs r t : Inv (core m) -> Inv s' -> CInv s' -> sext (core m) s' -> V s' r t -> SzInv (core m) (szc m) ->
    regs_ok (core m) rs -> Good ({| core := s'; szc := szc m |}, rs ++ [Some r]).
  Proof.
    intros HI0 HI HC E Vr HS Hg. unfold Good; cbn [fst snd core szc]. splits; auto.
    - exact (SzInv_ext _ _ _ HI0 HI E HS).
    - apply regs_ok_app; [eapply regs_ok_ext; eauto|]. intros r0 [= <-]. eauto.
  Qed.
  Lemma skip_good m rs : Good (m, rs) -> Good (m, rs ++ [None]).
  Proof.
    intros (HI & HC & HS & Hg). unfold Good; cbn [fst snd] in *. splits; auto. apply regs_ok_app; auto. intros r [=].
  Qed.

  Lemma below_above s v r t : Inv s -> V s r t -> below s v r = true -> above v t.
  Proof.
    intros HI HV Hb. unfold below in Hb. apply orb_prop in Hb. destruct Hb as [Hb|Hb].
    - apply N.eqb_eq in Hb. rewrite (V_term _ _ _ Hb HV). exact I.
    - apply N.ltb_lt in Hb. destruct (top_cases _ _ _ HI HV) as [(-> & _)|(v0 & ln & tl & th & -> & Ht & _)]; [exact I|].
      apply ordered_root_above; [apply HV|]. rewrite <- Ht. exact Hb.
  Qed.

  (* expression evaluation keeps the invariant (the semantic statement is BddEval.eval_ok) *)
  Fixpoint eterms_ok (s : state) (x : expr) : Prop :=
    match x with
    | ETerm r => exists t, V s r t
    | ENot a => eterms_ok s a
    | EAnd a b | EOr a b | EXor a b => eterms_ok s a /\ eterms_ok s b
    end.
  Lemma eterms_ext s s' x : sext s s' -> eterms_ok s x -> eterms_ok s' x.
  Proof. intro E. induction x; cbn; [intros (t & Ht); exists t; eapply V_ext; eauto|auto|intuition|intuition|intuition]. Qed.
  Lemma enot_eterms s x : eterms_ok s x -> eterms_ok s (enot x).
  Proof. destruct x; cbn; auto; try (intros (t & Ht); exists t; now apply V_neg). Qed.
  Lemma xlate_terms s rs : regs_ok s rs -> forall x e, xlate rs x = Some e -> eterms_ok s e.
  Proof.
    intros Hg. induction x as [a|a IH|a IH|a IHa b IHb|a IHa b IHb|a IHa b IHb]; intros e H; cbn in H.
    - destruct (fetch rs a) as [r|] eqn:F; [|discriminate]. injection H as <-. cbn. eapply fetch_good; eauto.
    - destruct (xlate rs a) as [ea|]; [|discriminate]. injection H as <-. cbn. auto.
    - destruct (xlate rs a) as [ea|]; [|discriminate]. injection H as <-. apply enot_eterms. auto.
    - destruct (xlate rs a) as [ea|]; [|discriminate]. destruct (xlate rs b) as [eb|]; [|discriminate]. injection H as <-. cbn. auto.
    - destruct (xlate rs a) as [ea|]; [|discriminate]. destruct (xlate rs b) as [eb|]; [|discriminate]. injection H as <-. cbn. auto.
    - destruct (xlate rs a) as [ea|]; [|discriminate]. destruct (xlate rs b) as [eb|]; [|discriminate]. injection H as <-. cbn. auto.
  Qed.
  Lemma eval_good fuel : forall x s s' r, Inv s -> CInv s -> eterms_ok s x -> eval fuel s x = Some (s', r) ->
    Inv s' /\ CInv s' /\ sext s s' /\ exists tr, V s' r tr.
  Proof.
    induction x as [t|a IHa|a IHa b IHb|a IHa b IHb|a IHa b IHb]; intros s s' r HT HC Hok H; cbn [eval] in H.
    - injection H as <- <-. splits; auto using sext_refl.
    - destruct (eval fuel s a) as [[s1 r1]|] eqn:Ha; [|discriminate]. injection H as <- <-.
      destruct (IHa _ _ _ HT HC Hok Ha) as (? & ? & ? & tr & Vr). splits; auto. exists tr. now apply V_neg.
    - destruct Hok as [Hoa Hob].
      destruct (eval fuel s a) as [[s1 ra]|] eqn:Ha; [|discriminate]. destruct (IHa _ _ _ HT HC Hoa Ha) as (HT1 & HC1 & E1 & ta & Va).
      destruct (eval fuel s1 b) as [[s2 rb]|] eqn:Hb; [|discriminate].
      destruct (IHb _ _ _ HT1 HC1 (eterms_ext _ _ _ E1 Hob) Hb) as (HT2 & HC2 & E2 & tb & Vb).
      destruct (and_ok _ _ _ _ _ _ _ _ HT2 HC2 (V_ext _ _ _ _ E2 Va) Vb H) as (HT3 & HC3 & E3 & tr & Vr & _).
      splits; eauto using sext_trans.
    - destruct Hok as [Hoa Hob].
      destruct (eval fuel s a) as [[s1 ra]|] eqn:Ha; [|discriminate]. destruct (IHa _ _ _ HT HC Hoa Ha) as (HT1 & HC1 & E1 & ta & Va).
      destruct (eval fuel s1 b) as [[s2 rb]|] eqn:Hb; [|discriminate].
      destruct (IHb _ _ _ HT1 HC1 (eterms_ext _ _ _ E1 Hob) Hb) as (HT2 & HC2 & E2 & tb & Vb).
      destruct (or_ok _ _ _ _ _ _ _ _ HT2 HC2 (V_ext _ _ _ _ E2 Va) Vb H) as (HT3 & HC3 & E3 & tr & Vr & _).
      splits; eauto using sext_trans.
    - destruct Hok as [Hoa Hob].
      destruct (eval fuel s a) as [[s1 ra]|] eqn:Ha; [|discriminate]. destruct (IHa _ _ _ HT HC Hoa Ha) as (HT1 & HC1 & E1 & ta & Va).
      destruct (eval fuel s1 b) as [[s2 rb]|] eqn:Hb; [|discriminate].
      destruct (IHb _ _ _ HT1 HC1 (eterms_ext _ _ _ E1 Hob) Hb) as (HT2 & HC2 & E2 & tb & Vb).
      destruct (xor_ok _ _ _ _ _ _ _ _ HT2 HC2 (V_ext _ _ _ _ E2 Va) Vb H) as (HT3 & HC3 & E3 & tr & Vr & _).
      splits; eauto using sext_trans.
  Qed.

  Lemma apply_bin_good o fuel s u v s' r tu tv : Inv s -> CInv s -> V s u tu -> V s v tv -> apply_bin o fuel s u v = Some (s', r) ->
    Inv s' /\ CInv s' /\ sext s s' /\ exists tr, V s' r tr.
  Proof.
    intros HI HC Vu Vv H. destruct o; cbn in H.
    - destruct (and_ok _ _ _ _ _ _ _ _ HI HC Vu Vv H) as (? & ? & ? & tr & ? & _); eauto 6.
    - destruct (or_ok _ _ _ _ _ _ _ _ HI HC Vu Vv H) as (? & ? & ? & tr & ? & _); eauto 6.
    - destruct (xor_ok _ _ _ _ _ _ _ _ HI HC Vu Vv H) as (? & ? & ? & tr & ? & _); eauto 6.
    - destruct (eq_ok _ _ _ _ _ _ _ _ HI HC Vu Vv H) as (? & ? & ? & tr & ? & _); eauto 6.
    - destruct (imply_ok _ _ _ _ _ _ _ _ HI HC Vu Vv H) as (? & ? & ? & tr & ? & _); eauto 6.
  Qed.

  Lemma size_op_good fuel m f m' n t : Inv (core m) -> SzInv (core m) (szc m) -> V (core m) f t -> size_op fuel m f = Some (m', n) ->
    core m' = core m /\ SzInv (core m') (szc m') /\
    exists l, NoDup l /\ (forall j, In j l <-> j = 1 \/ Reach (core m) (idx f) j) /\ n = N.of_nat (length l).
  Proof.
    intros HI HS Vf H. unfold size_op in H. destruct (sc_get (szc m) f) as [n0|] eqn:G.
    - injection H as <- <-. splits; auto. destruct (HS _ _ G) as (_ & l & ? & ? & ?). eauto.
    - destruct (@descendants ops fuel (core m) [f]) as [l|] eqn:D; [|discriminate]. injection H as <- <-. cbn [core szc].
      assert (Hcl : closed (core m)) by (apply closed_of_inv; exact HI).
      destruct (@descendants_ok ops ok fuel (core m) [f] l HI Hcl) as [Hnd Hl]; auto.
      { intros r [<-|[]]. eapply okidx_of_V; eauto. }
      assert (Hl' : forall j, In j l <-> j = 1 \/ Reach (core m) (idx f) j).
      { intro j. rewrite Hl. split; [intros [?|(r & [<-|[]] & ?)]; auto|intros [?|?]; [auto|right; exists f; cbn; auto]]. }
      splits; eauto. intros r n Hk. apply sc_get_put in Hk. destruct Hk as [[-> ->]|Hk]; [|apply HS; exact Hk].
      split; eauto.
  Qed.

  Theorem step_good fuel mr o mr' x : Good mr -> step fuel mr o = Some (mr', x) -> Good mr'.
  Proof.
    destruct mr as [m rs]. intros HG H. pose proof HG as (HI & HC & HS & Hg). cbn [fst snd] in *. unfold step in H.
    set (s := core m) in *.
    assert (Hpush : forall (x0 : option (state * ref)),
       (forall s' r, x0 = Some (s', r) -> Inv s' /\ CInv s' /\ sext s s' /\ exists tr, V s' r tr) ->
       match x0 with Some (s', r) => Some ({| core := s'; szc := szc m |}, rs ++ [Some r], OReg r) | None => None end = Some (mr', x) ->
       Good mr').
    { intros x0 Hx0 Hm. destruct x0 as [[s' r]|]; [|discriminate]. injection Hm as <- <-.
      destruct (Hx0 _ _ eq_refl) as (HI' & HC' & E & tr & Vr). eapply push_good; eauto. }
    assert (Hpush2 : forall s' r, (Inv s' /\ CInv s' /\ sext s s' /\ exists tr, V s' r tr) ->
       Some ({| core := s'; szc := szc m |}, rs ++ [Some r], OReg r) = Some (mr', x) -> Good mr').
    { intros s' r Hx0 Hm. apply (Hpush (Some (s', r))); [|exact Hm]. intros s'' r' [= <- <-]. exact Hx0. }
    assert (Hskipr : Some (m, rs ++ [None], OSkip) = Some (mr', x) -> Good mr').
    { intro Hm. injection Hm as <- <-. apply skip_good. exact HG. }
    assert (Hskipq : Some (m, rs, OSkip) = Some (mr', x) -> Good mr').
    { intro Hm. injection Hm as <- <-. exact HG. }
    assert (Hquery : forall (q : option out), match q with Some o => Some (m, rs, o) | None => None end = Some (mr', x) -> Good mr').
    { intros [q|] Hm; [|discriminate]. injection Hm as <- <-. exact HG. }
    destruct o as [b|v|v lo hi|f g h|bo f g|f|disj l|cl l|xe|f v b|f vals|f cube|f v g|f g|f g|f|f|hi f v|f g h|f g|f|l|f n|f|f|f|l|roots].
    - (* const *) apply Hpush2 in H; auto. splits; auto using sext_refl.
      destruct b; [exists Leaf; apply V_one|exists Leaf; apply V_zero].
    - (* var *) destruct (N.ltb_spec 0 v) as [Hv|]; [|auto]. apply Hpush in H; auto. intros s' r E. unfold mk_var in E.
      destruct (mk_node_ok _ _ _ _ _ _ _ _ HI E Hv (@V_zero ops s) (@V_one ops s) I I) as (HI1 & E1 & K1 & tr & Vr & _).
      splits; eauto. eapply CInv_ext; eauto.
    - (* node *)
      destruct (fetch rs lo) as [l|] eqn:Fl; [|auto]. destruct (fetch rs hi) as [h|] eqn:Fh; [|auto].
      destruct ((0 <? v) && below s v l && below s v h) eqn:C; [|auto].
      apply andb_prop in C as [C C3]. apply andb_prop in C as [C1 C2]. apply N.ltb_lt in C1.
      destruct (fetch_good _ _ _ _ Hg Fl) as (tl & Vl). destruct (fetch_good _ _ _ _ Hg Fh) as (th & Vh).
      apply Hpush in H; auto. intros s' r E.
      destruct (mk_node_ok _ _ _ _ _ _ _ _ HI E C1 Vl Vh (below_above _ _ _ _ HI Vl C2) (below_above _ _ _ _ HI Vh C3)) as (HI1 & E1 & K1 & tr & Vr & _).
      splits; eauto. eapply CInv_ext; eauto.
    - (* ite *)
      destruct (fetch rs f) as [a|] eqn:Fa; [|auto]. destruct (fetch rs g) as [b|] eqn:Fb; [|auto]. destruct (fetch rs h) as [c|] eqn:Fc; [|auto].
      destruct (fetch_good _ _ _ _ Hg Fa) as (ta & Va). destruct (fetch_good _ _ _ _ Hg Fb) as (tb & Vb). destruct (fetch_good _ _ _ _ Hg Fc) as (tc & Vc).
      apply Hpush in H; auto. intros s' r E.
      destruct (ite_ok _ _ _ _ _ _ _ _ _ _ HI HC E Va Vb Vc) as (HI1 & HC1 & E1 & tr & Vr & _). eauto 6.
    - (* binary connective *)
      destruct (fetch rs f) as [a|] eqn:Fa; [|auto]. destruct (fetch rs g) as [b|] eqn:Fb; [|auto].
      destruct (fetch_good _ _ _ _ Hg Fa) as (ta & Va). destruct (fetch_good _ _ _ _ Hg Fb) as (tb & Vb).
      apply Hpush in H; auto. intros s' r E. exact (apply_bin_good _ _ _ _ _ _ _ _ _ HI HC Va Vb E).
    - (* not *)
      destruct (fetch rs f) as [a|] eqn:Fa; [|auto]. destruct (fetch_good _ _ _ _ Hg Fa) as (ta & Va).
      apply Hpush2 in H; auto. splits; auto using sext_refl. exists ta. now apply V_neg.
    - (* n-ary folds *)
      destruct (fetch_all rs l) as [rl|] eqn:Fr; [|auto]. destruct (fetch_all_F2 _ _ Hg _ _ Fr) as (tts & Htts).
      apply Hpush in H; auto. intros s' r E. destruct disj.
      + destruct (@or_many_ok ops ok fuel rl tts s zero Leaf s' r HI HC (@V_zero ops s) Htts E) as (? & ? & ? & tr & ? & _). eauto 6.
      + destruct (@and_many_ok ops ok fuel rl tts s one Leaf s' r HI HC (@V_one ops s) Htts E) as (? & ? & ? & tr & ? & _). eauto 6.
    - (* cube / clause *)
      destruct (distinct_pos l) eqn:D; [|auto]. apply andb_prop in D as [D1 D2].
      apply Hpush in H; auto. intros s' r E.
      destruct (@cube_clause_ok ops ok cl s l s' r HI HC (nodupb_ok _ D2)) as (HI1 & HC1 & E1 & tr & Vr & _); eauto 6.
      intros y Hy. rewrite forallb_forall in D1. apply N.ltb_lt. apply D1. exact Hy.
    - (* expr *)
      destruct (xlate rs xe) as [e|] eqn:X; [|auto]. apply Hpush in H; auto. intros s' r E.
      eapply eval_good; eauto. eapply xlate_terms; eauto.
    - (* substitute *)
      destruct (fetch rs f) as [a|] eqn:Fa; [|auto]. destruct (N.ltb_spec 0 v) as [Hv|]; [|auto].
      destruct (fetch_good _ _ _ _ Hg Fa) as (ta & Va).
      apply Hpush in H; auto. intros s' r E. unfold drop2 in E.
      destruct (@subst ops MS fuel s mempty a v b) as [[[s1 m1] r1]|] eqn:E1; [|discriminate]. injection E as <- <-.
      destruct (subst_ok v b _ _ _ _ _ _ _ _ HI (fun k r Hk => ltac:(rewrite mget_empty in Hk; discriminate)) Va E1)
        as (HI1 & Ex & K1 & _ & tr & Vr & _). splits; eauto. eapply CInv_ext; eauto.
    - (* substitute_multi *)
      destruct (fetch rs f) as [a|] eqn:Fa; [|auto]. destruct (nodupb (map fst vals)) eqn:D; [|auto].
      destruct (fetch_good _ _ _ _ Hg Fa) as (ta & Va).
      apply Hpush in H; auto. intros s' r E. unfold drop2 in E.
      destruct (@smulti ops MS fuel s mempty a vals) as [[[s1 m1] r1]|] eqn:E1; [|discriminate]. injection E as <- <-.
      destruct (smulti_ok vals _ _ _ _ _ _ _ _ HI (fun k r Hk => ltac:(rewrite mget_empty in Hk; discriminate)) Va E1)
        as (HI1 & Ex & K1 & _ & tr & Vr & _). splits; eauto. eapply CInv_ext; eauto.
    - (* cofactor_cube *)
      destruct (fetch rs f) as [a|] eqn:Fa; [|auto]. destruct (asc_cubeb 0 cube) eqn:D; [|auto].
      destruct (fetch_good _ _ _ _ Hg Fa) as (ta & Va).
      apply Hpush in H; auto. intros s' r E. unfold drop2 in E.
      destruct (@ccube ops MQ fuel s mempty a cube) as [[[s1 m1] r1]|] eqn:E1; [|discriminate]. injection E as <- <-.
      destruct (ccube_ok cube _ _ _ _ _ _ _ _ _ 0 HI (fun k r Hk => ltac:(rewrite mget_empty in Hk; discriminate)) Va
                  (ex_intro _ [] eq_refl) (asc_cubeb_ok _ _ D) E1)
        as (HI1 & Ex & K1 & _ & tr & Vr & _). splits; eauto. eapply CInv_ext; eauto.
    - (* compose *)
      destruct (fetch rs f) as [a|] eqn:Fa; [|auto]. destruct (fetch rs g) as [b|] eqn:Fb; [|auto].
      destruct (fetch_good _ _ _ _ Hg Fa) as (ta & Va). destruct (fetch_good _ _ _ _ Hg Fb) as (tb & Vb).
      apply Hpush in H; auto. intros s' r E. unfold drop2 in E.
      destruct (@compose ops MC fuel s mempty a v b) as [[[s1 m1] r1]|] eqn:E1; [|discriminate]. injection E as <- <-.
      destruct (compose_ok v _ _ _ _ _ _ _ _ _ _ HI HC (fun k r Hk => ltac:(rewrite mget_empty in Hk; discriminate)) Va Vb E1)
        as (HI1 & HC1 & Ex & _ & tr & Vr & _). eauto 6.
    - (* constrain *)
      destruct (fetch rs f) as [a|] eqn:Fa; [|auto]. destruct (fetch rs g) as [b|] eqn:Fb; [|auto].
      destruct (fetch_good _ _ _ _ Hg Fa) as (ta & Va). destruct (fetch_good _ _ _ _ Hg Fb) as (tb & Vb).
      apply Hpush in H; auto. intros s' r E.
      destruct (constrain_ok _ _ _ _ _ _ _ _ HI HC E Va Vb) as (HI1 & HC1 & E1 & tr & Vr & _). eauto 6.
    - (* restrict *)
      destruct (fetch rs f) as [a|] eqn:Fa; [|auto]. destruct (fetch rs g) as [b|] eqn:Fb; [|auto].
      destruct (fetch_good _ _ _ _ Hg Fa) as (ta & Va). destruct (fetch_good _ _ _ _ Hg Fb) as (tb & Vb).
      apply Hpush in H; auto. intros s' r E.
      destruct (restrict_ok _ _ _ _ _ _ _ _ HI HC E Va Vb) as (HI1 & HC1 & E1 & tr & Vr & _). eauto 6.
    - (* low_node *)
      destruct (fetch rs f) as [a|] eqn:Fa; [|auto]. destruct (N.eqb_spec (idx a) 1) as [|Hn]; [auto|].
      destruct (fetch_good _ _ _ _ Hg Fa) as (ta & Va).
      apply Hpush2 in H; auto. splits; auto using sext_refl.
      destruct (top_cases _ _ _ HI Va) as [(-> & _ & Hi)|(v0 & ln & tl & th & -> & _)]; [contradiction|].
      destruct (lh_ok _ _ _ _ _ _ HI Va) as (Vl & _). eauto.
    - (* high_node *)
      destruct (fetch rs f) as [a|] eqn:Fa; [|auto]. destruct (N.eqb_spec (idx a) 1) as [|Hn]; [auto|].
      destruct (fetch_good _ _ _ _ Hg Fa) as (ta & Va).
      apply Hpush2 in H; auto. splits; auto using sext_refl.
      destruct (top_cases _ _ _ HI Va) as [(-> & _ & Hi)|(v0 & ln & tl & th & -> & _)]; [contradiction|].
      destruct (lh_ok _ _ _ _ _ _ HI Va) as (_ & Vh & _). eauto.
    - (* top_cofactors *)
      destruct (fetch rs f) as [a|] eqn:Fa; [|auto].
      destruct ((0 <? v) && ((idx a =? 1) || (v <=? @top ops s a))) eqn:C; [|auto].
      apply andb_prop in C as [C1 C2]. destruct (fetch_good _ _ _ _ Hg Fa) as (ta & Va).
      apply Hpush2 in H; auto. splits; auto using sext_refl.
      destruct (@top_cofactors ops s a v) as [r0 r1] eqn:Tc.
      assert (Hm : ta = Leaf \/ v <= @top ops s a).
      { apply orb_prop in C2 as [C2|C2]; [left; apply N.eqb_eq in C2; eapply V_term; eauto|right; now apply N.leb_le]. }
      destruct (tc_ok _ _ _ _ HI Va Hm _ _ Tc) as (t0 & t1 & V0 & V1 & _). destruct hi; cbn [fst snd]; eauto.
    - (* ite_constant *)
      destruct (fetch rs f) as [a|]; [|auto]. destruct (fetch rs g) as [b|]; [|auto]. destruct (fetch rs h) as [c|]; [|auto].
      apply Hquery in H. exact H.
    - (* is_implies *) destruct (fetch rs f) as [a|]; [|auto]. destruct (fetch rs g) as [b|]; [|auto]. apply Hquery in H. exact H.
    - (* size *)
      destruct (fetch rs f) as [a|] eqn:Fa; [|auto]. destruct (fetch_good _ _ _ _ Hg Fa) as (ta & Va).
      destruct (size_op fuel m a) as [[m' n]|] eqn:Sz; [|discriminate]. injection H as <- <-.
      destruct (size_op_good _ _ _ _ _ _ HI HS Va Sz) as (Ec & HS' & _).
      unfold Good; cbn [fst snd]. rewrite Ec in *. splits; auto.
    - (* descendants *) destruct (fetch_all rs l) as [rl|]; [|auto]. apply Hquery in H. exact H.
    - (* sat_count *) destruct (fetch rs f) as [a|]; [|auto]. apply Hquery in H. exact H.
    - (* one_sat *) destruct (fetch rs f) as [a|]; [|auto]. apply Hquery in H. exact H.
    - (* paths *) destruct (fetch rs f) as [a|]; [|auto]. apply Hquery in H. exact H.
    - (* bracket *) destruct (fetch rs f) as [a|]; [|auto]. apply Hquery in H. exact H.
    - (* dot *) destruct (fetch_all rs l) as [rl|]; [|auto]. apply Hquery in H. exact H.
    - (* collect_garbage *)
      destruct (fetch_all rs roots) as [rl|] eqn:Fr; [|auto].
      destruct (@descendants ops fuel s rl) as [vis|] eqn:Hd; [|discriminate].
      destruct (gc nhash khash fuel s rl) as [s1|] eqn:Hgc; [|discriminate]. injection H as <- <-.
      pose proof (fetch_all_good _ _ Hg _ _ Fr) as Hroots.
      destruct (gc_ok nhash khash fuel s rl s1 HI Hroots Hgc) as (HI1 & HC1 & _ & _ & _ & Hsurv & _).
      unfold Good; cbn [fst snd core szc]. splits; auto.
      + intros r n Hk. rewrite sc_get_clear in Hk. discriminate.
      + intros k r Hk. rewrite nth_error_map in Hk.
        destruct (nth_error rs k) as [[r0|]|] eqn:Ek; cbn in Hk; try discriminate.
        destruct (memN (idx r0) vis) eqn:Hm; [|discriminate]. injection Hk as <-.
        destruct (Hg _ _ Ek) as (t & Ht). exists t. eapply (Hsurv vis Hd); eauto.
  Qed.

  (* every state reached by any history satisfies the manager invariant; every live register is a valid handle *)
  Theorem run_good fuel : forall h mr mr' xs, Good mr -> run fuel mr h = Some (mr', xs) -> Good mr'.
  Proof.
    induction h as [|o h IH]; intros mr mr' xs HG H; cbn [run] in H; [injection H as <- <-; exact HG|].
    destruct (step fuel mr o) as [[mr1 x]|] eqn:E; [|discriminate].
    destruct (run fuel mr1 h) as [[mr2 xs2]|] eqn:E2; [|discriminate]. injection H as <- <-.
    apply (IH mr1 mr2 xs2); [eapply step_good; eauto|exact E2].
  Qed.
  Corollary reachable_good fuel h mr xs : run fuel (init, []) h = Some (mr, xs) -> Good mr.
  Proof. apply run_good. apply init_good. Qed.
End Mach.
