From Coq Require Import NArith Bool Lia List.
Require Import TableProto.
Import ListNotations.
Local Open Scope N_scope.

(* Model of src/raw.rs (after the planned repair).  K = key carried by stored values; the caller's
   closure `eq` is "the stored value's key equals k"; hash is an arbitrary function of the key. *)
Section R.
  Variable K P : Type.                       (* key, payload *)
  Variable keqb : K -> K -> bool.
  Hypothesis keqb_spec : forall a b, reflect (a = b) (keqb a b).
  Variable hash : K -> N.                    (* any u64-valued hash: all-equal, top bit set, ... *)

  Definition FREE := 18446744073709551615.
  Definition DEAD := 18446744073709551614.
  Definition M63 := 9223372036854775807.
  Record slot := { status : N; sval : option (K * P) }.      (* None = uninitialised memory *)
  Record raw := { slots : tmap slot; rcap : N; rlen : N; rfree : N }.
  Definition is_occ (s : slot) := status s <=? M63.

  Inductive out (A : Type) := ROk (a : A) | Uninit | Hang | AssertFailed.
  Arguments ROk {A}. Arguments Uninit {A}. Arguments Hang {A}. Arguments AssertFailed {A}.

  Definition nexti (t : raw) (i : N) := N.land (i + 1) (rcap t - 1).

  Fixpoint probe (fuel : nat) (t : raw) (k : K) (st : N) (index : N) : out (option N) :=
    match fuel with O => Hang | S fuel =>
      let s := tget (slots t) index in
      if status s =? FREE then ROk None
      else if status s =? st then
        match sval s with
        | None => Uninit
        | Some (k', _) => if keqb k' k then ROk (Some index) else probe fuel t k st (nexti t index)
        end
      else probe fuel t k st (nexti t index)
    end.
  Definition find (t : raw) (k : K) : out (option N) :=
    if rlen t =? 0 then ROk None
    else if rfree t =? 0 then AssertFailed          (* debug_assert_ne!(free, 0); release would Hang *)
    else probe (N.to_nat (rcap t)) t k (N.land (hash k) M63) (N.land (hash k) (rcap t - 1)).

  (* ---------------- invariant ---------------- *)
  Definition home (t : raw) (st : N) := st mod rcap t.
  Definition at_ (t : raw) (h d : N) := (h + d) mod rcap t.          (* d-th probe position from h *)
  Record RInv (t : raw) : Prop := {
    r_pow : exists n, rcap t = 2 ^ n;
    r_small : rcap t <= M63;
    r_init : forall i, i < rcap t -> is_occ (tget (slots t) i) = true ->
               exists k p, sval (tget (slots t) i) = Some (k, p) /\ status (tget (slots t) i) = N.land (hash k) M63;
    r_free1 : rlen t <> 0 -> exists i, i < rcap t /\ status (tget (slots t) i) = FREE;
    r_probe : forall i, i < rcap t -> is_occ (tget (slots t) i) = true ->
               exists d, d < rcap t /\ at_ t (home t (status (tget (slots t) i))) d = i /\
                 forall d', d' < d -> status (tget (slots t) (at_ t (home t (status (tget (slots t) i))) d')) <> FREE;
    r_uniq : forall i j k p q, i < rcap t -> j < rcap t -> is_occ (tget (slots t) i) = true -> is_occ (tget (slots t) j) = true ->
               sval (tget (slots t) i) = Some (k, p) -> sval (tget (slots t) j) = Some (k, q) -> i = j
  }.

  Lemma land_mask t x : (exists n, rcap t = 2 ^ n) -> N.land x (rcap t - 1) = x mod rcap t.
  Proof. intros [n E]. rewrite E. rewrite <- N.pred_sub, <- N.ones_equiv. apply N.land_ones. Qed.

  Lemma nexti_at t h d : RInv t -> nexti t (at_ t h d) = at_ t h (d + 1).
  Proof.
    intro I. unfold nexti, at_. rewrite land_mask by apply I.
    destruct (r_pow _ I) as [n E]. assert (rcap t <> 0) by (rewrite E; apply N.pow_nonzero; lia).
    rewrite N.add_mod_idemp_l by assumption. f_equal. lia.
  Qed.

  Lemma cap_nz t : RInv t -> rcap t <> 0.
  Proof. intro I. destruct (r_pow _ I) as [n E]. rewrite E. apply N.pow_nonzero. lia. Qed.
  Lemma at_lt t h d : RInv t -> at_ t h d < rcap t.
  Proof. intro I. unfold at_. apply N.mod_lt. apply cap_nz; exact I. Qed.
  Lemma at_cover t h i : RInv t -> i < rcap t -> exists d, d < rcap t /\ at_ t h d = i.
  Proof.
    intros I Hi. pose proof (cap_nz _ I) as Hc.
    exists ((i + rcap t - h mod rcap t) mod rcap t). split; [apply N.mod_lt; exact Hc|].
    unfold at_. rewrite N.add_mod_idemp_r by exact Hc.
    pose proof (N.mod_lt h _ Hc) as Hh. pose proof (N.div_mod h _ Hc) as Hdm.
    replace (h + (i + rcap t - h mod rcap t)) with (i + (h / rcap t + 1) * rcap t) by nia.
    rewrite N.mod_add by exact Hc. apply N.mod_small; exact Hi.
  Qed.
  Lemma land_le x m : N.land x m <= m.
  Proof.
    destruct (N.le_gt_cases (N.land x m) m) as [H|H]; [exact H|exfalso].
    (* land x m has only bits of m *)
    assert (E : N.ldiff (N.land x m) m = 0).
    { apply N.bits_inj_0. intro n. rewrite N.ldiff_spec, N.land_spec. now destruct (N.testbit x n), (N.testbit m n). }
    apply N.ldiff_le in E. lia.
  Qed.

  (* the probe loop, started at distance d from the home of k, with no match and no FREE before d *)
  Lemma probe_sound t k : RInv t ->
    forall fuel d, (N.to_nat (rcap t) <= fuel + N.to_nat d)%nat -> d <= rcap t ->
    let st := N.land (hash k) M63 in let h := home t st in
    (forall d', d' < d -> let s := tget (slots t) (at_ t h d') in
        status s <> FREE /\ ~ (status s = st /\ exists p, sval s = Some (k, p))) ->
    (exists i, i < rcap t /\ status (tget (slots t) i) = FREE) ->
    match probe fuel t k st (at_ t h d) with
    | ROk (Some i) => i < rcap t /\ is_occ (tget (slots t) i) = true /\ exists p, sval (tget (slots t) i) = Some (k, p)
    | ROk None => forall i p, i < rcap t -> is_occ (tget (slots t) i) = true -> sval (tget (slots t) i) <> Some (k, p)
    | _ => False
    end.
  Proof.
    intros I fuel. induction fuel as [|fuel IH]; intros d Hfuel Hd st h Hprev Hfree.
    - (* all positions examined, none FREE: contradicts the FREE slot *)
      exfalso. assert (d = rcap t) by lia. subst d.
      destruct Hfree as (i & Hi & Hfi).
      destruct (at_cover t h i I Hi) as (d' & Hd' & Hat).
      destruct (Hprev d' Hd') as [Hnf _]. rewrite Hat in Hnf. contradiction.
    - destruct (N.eq_dec d (rcap t)) as [->|Hne].
      { exfalso. destruct Hfree as (i & Hi & Hfi).
        destruct (at_cover t h i I Hi) as (d' & Hd' & Hat).
        destruct (Hprev d' Hd') as [Hnf _]. rewrite Hat in Hnf. contradiction. }
      assert (Hdlt : d < rcap t) by lia.
      assert (Hx : at_ t h d < rcap t) by (apply at_lt; exact I).
      assert (Hst : st <= M63) by (apply land_le).
      cbn [probe]. set (x := at_ t h d) in *. set (s := tget (slots t) x) in *.
      destruct (N.eqb_spec (status s) FREE) as [Ef|Enf].
      + (* FREE: key absent *)
        intros i p Hi Hocc Hsv.
        destruct (r_init _ I i Hi Hocc) as (k0 & p0 & Hsv0 & Hst0). rewrite Hsv in Hsv0. injection Hsv0 as <- <-.
        destruct (r_probe _ I i Hi Hocc) as (di & Hdi & Hati & Hbefore).
        rewrite Hst0 in Hati, Hbefore. fold st in Hati, Hbefore. fold h in Hati, Hbefore.
        destruct (N.lt_trichotomy di d) as [Hlt|[Heq|Hgt]].
        * destruct (Hprev di Hlt) as [_ Hno]. apply Hno. rewrite Hati. split; [exact Hst0|eauto].
        * subst di. fold x in Hati. subst i. fold s in Hocc. unfold is_occ in Hocc. apply N.leb_le in Hocc.
          rewrite Ef in Hocc. unfold FREE, M63 in Hocc. lia.
        * apply (Hbefore d Hgt). exact Ef.
      + destruct (N.eqb_spec (status s) st) as [Es|Ens].
        * assert (Hocc : is_occ s = true) by (unfold is_occ; apply N.leb_le; rewrite Es; exact Hst).
          destruct (r_init _ I x Hx Hocc) as (k0 & p0 & Hsv0 & Hst0). fold s in Hsv0. rewrite Hsv0.
          destruct (keqb_spec k0 k) as [->|Hk].
          -- splits; eauto.
          -- unfold x. rewrite nexti_at by exact I. apply IH; auto; try lia.
             intros d' Hd'. destruct (N.eq_dec d' d) as [->|].
             ++ fold x. fold s. split; [exact Enf|]. intros [_ [p Hp]]. change (sval s = Some (k, p)) in Hp. rewrite Hsv0 in Hp. congruence.
             ++ apply Hprev. lia.
        * unfold x. rewrite nexti_at by exact I. apply IH; auto; try lia.
          intros d' Hd'. destruct (N.eq_dec d' d) as [->|].
          -- fold x. fold s. split; [exact Enf|]. intros [E _]. change (status s = st) in E. contradiction.
          -- apply Hprev. lia.
  Qed.

  (* ================= the remaining operations ================= *)
  Definition set_slot (t : raw) (i : N) (sl : slot) (len free : N) : raw :=
    {| slots := tset (slots t) i sl; rcap := rcap t; rlen := len; rfree := free |}.
  Definition st_of (k : K) := N.land (hash k) M63.

  (* find_or_free's loop (after reserve): remembers the last DEAD slot seen *)
  Fixpoint probe_free (fuel : nat) (t : raw) (k : K) (index : N) (dead : option N) : out (N + N) :=
    match fuel with O => Hang | S fuel =>
      let s := tget (slots t) index in
      if status s =? FREE then ROk (inr (match dead with Some d => d | None => index end))
      else
        let dead' := if status s =? DEAD then Some index else dead in
        if status s =? st_of k then
          match sval s with
          | None => Uninit
          | Some (k', _) => if keqb k' k then ROk (inl index) else probe_free fuel t k (nexti t index) dead'
          end
        else probe_free fuel t k (nexti t index) dead'
    end.
  (* insert_in_slot: the slot must not be occupied (debug_assert) *)
  Definition insert_in_slot (t : raw) (k : K) (p : P) (i : N) : out raw :=
    let s := tget (slots t) i in
    if is_occ s then AssertFailed
    else ROk (set_slot t i {| status := st_of k; sval := Some (k, p) |} (rlen t + 1)
                      (if status s =? DEAD then rfree t else rfree t - 1)).
  Definition remove_at_slot (t : raw) (i : N) : out (raw * (K * P)) :=
    let s := tget (slots t) i in
    if rlen t =? 0 then AssertFailed else
    if negb (is_occ s) then AssertFailed else
    match sval s with
    | None => Uninit
    | Some kv =>
      let nf := status (tget (slots t) (nexti t i)) =? FREE in
      ROk (set_slot t i {| status := if nf then FREE else DEAD; sval := None |} (rlen t - 1)
                   (if nf then rfree t + 1 else rfree t), kv)
    end.

  (* counting slots by a predicate on the status word *)
  Fixpoint cntS (P' : N -> bool) (t : raw) (n : nat) : N :=
    match n with O => 0 | S m => cntS P' t m + (if P' (status (tget (slots t) (N.of_nat m))) then 1 else 0) end.
  Definition isfree (st : N) := st =? FREE.
  Definition isocc (st : N) := st <=? M63.
  Record RCnt (t : raw) : Prop := {
    rc_len : rlen t = cntS isocc t (N.to_nat (rcap t));
    rc_free : rfree t <= cntS isfree t (N.to_nat (rcap t)) }.

  Lemma cntS_set P' t i sl len free n : (N.of_nat n <= rcap t) -> i < N.of_nat n ->
    cntS P' (set_slot t i sl len free) n + (if P' (status (tget (slots t) i)) then 1 else 0)
    = cntS P' t n + (if P' (status sl) then 1 else 0).
  Proof.
    induction n as [|n IH]; intros Hn Hi; [lia|]. cbn [cntS].
    destruct (N.eq_dec i (N.of_nat n)) as [->|Hne].
    - cbn [set_slot slots]. rewrite tget_set_same.
      assert (E : cntS P' (set_slot t (N.of_nat n) sl len free) n = cntS P' t n).
      { clear IH Hi. assert (Hk : forall m, (m <= n)%nat -> cntS P' (set_slot t (N.of_nat n) sl len free) m = cntS P' t m).
        { induction m as [|m IHm]; intro Hm; [reflexivity|]. cbn [cntS set_slot slots]. rewrite tget_set_other by lia. rewrite <- IHm by lia. reflexivity. }
        apply Hk. lia. }
      rewrite E. lia.
    - cbn [set_slot slots]. rewrite tget_set_other by congruence.
      assert (IH' := IH ltac:(lia) ltac:(lia)). cbn [set_slot slots] in IH'. lia.
  Qed.
  Lemma cntS_pos P' t n i : i < N.of_nat n -> P' (status (tget (slots t) i)) = true -> 1 <= cntS P' t n.
  Proof.
    induction n as [|n IH]; intros Hi Hp; [lia|]. cbn [cntS].
    destruct (N.eq_dec i (N.of_nat n)) as [->|Hne]; [rewrite Hp; lia|]. assert (1 <= cntS P' t n) by (apply IH; auto; lia). lia.
  Qed.
  Lemma cntS_exists P' t n : 1 <= cntS P' t n -> exists i, i < N.of_nat n /\ P' (status (tget (slots t) i)) = true.
  Proof.
    induction n as [|n IH]; cbn [cntS]; intro H; [lia|].
    destruct (P' (status (tget (slots t) (N.of_nat n)))) eqn:E; [exists (N.of_nat n); split; [lia|exact E]|].
    destruct IH as (i & Hi & Hp); [lia|]. exists i. split; [lia|exact Hp].
  Qed.

  Lemma occ_not_free st : st <= M63 -> st <> FREE /\ st <> DEAD.
  Proof. unfold M63, FREE, DEAD. lia. Qed.
  Lemma is_occ_iff sl : is_occ sl = true <-> status sl <= M63.
  Proof. unfold is_occ. apply N.leb_le. Qed.

  (* removal: tombstone, or FREE when the next slot is FREE *)
  Lemma remove_ok t i : RInv t -> RCnt t -> i < rcap t -> is_occ (tget (slots t) i) = true ->
    exists t' kv, remove_at_slot t i = ROk (t', kv) /\ sval (tget (slots t) i) = Some kv /\ RInv t' /\ RCnt t' /\
      rlen t' + 1 = rlen t /\
      (forall j, j <> i -> tget (slots t') j = tget (slots t) j) /\ is_occ (tget (slots t') i) = false.
  Proof.
    intros I C Hi Ho. pose proof (proj1 (is_occ_iff _) Ho) as Hst. destruct (occ_not_free _ Hst) as [Hnf Hnd].
    destruct (r_init _ I i Hi Ho) as (k & p & Hsv & Hstk).
    assert (Hlen : rlen t <> 0).
    { rewrite (rc_len _ C). assert (1 <= cntS isocc t (N.to_nat (rcap t))); [|lia].
      apply (cntS_pos isocc t _ i); [lia|]. unfold isocc. now apply N.leb_le. }
    unfold remove_at_slot. destruct (N.eqb_spec (rlen t) 0); [contradiction|]. rewrite Ho. cbn [negb]. rewrite Hsv.
    set (nf := status (tget (slots t) (nexti t i)) =? FREE).
    set (ns := {| status := if nf then FREE else DEAD; sval := None |}).
    set (t' := set_slot t i ns (rlen t - 1) (if nf then rfree t + 1 else rfree t)).
    exists t', (k, p). split; [reflexivity|]. split; [reflexivity|].
    assert (Hoth : forall j, j <> i -> tget (slots t') j = tget (slots t) j) by (intros j Hj; unfold t'; cbn [set_slot slots]; now rewrite tget_set_other).
    assert (Hnew : tget (slots t') i = ns) by (unfold t'; cbn [set_slot slots]; now rewrite tget_set_same).
    assert (Hnocc : is_occ ns = false) by (unfold is_occ, ns; cbn; destruct nf; reflexivity).
    splits; auto; [| |unfold t'; cbn; lia|now rewrite Hnew].
    - (* RInv t' *)
      constructor; try exact (r_pow _ I); try exact (r_small _ I).
      + intros j Hj Hoj. destruct (N.eq_dec j i) as [->|Hne]; [rewrite Hnew in Hoj; congruence|].
        rewrite Hoth in * by assumption. apply (r_init _ I); assumption.
      + intros _. destruct (r_free1 _ I Hlen) as (f & Hf & Hfs).
        exists f. split; [exact Hf|]. rewrite Hoth; [exact Hfs|]. intros ->. congruence.
      + intros j Hj Hoj. destruct (N.eq_dec j i) as [->|Hne]; [rewrite Hnew in Hoj; congruence|].
        rewrite Hoth in Hoj by assumption. destruct (r_probe _ I j Hj Hoj) as (d & Hd & Hat & Hbefore).
        rewrite Hoth by assumption. exists d. splits; auto. intros d' Hd'.
        change (at_ t' ?h ?x) with (at_ t h x). change (home t' ?z) with (home t z).
        destruct (N.eq_dec (at_ t (home t (status (tget (slots t) j))) d') i) as [Ei|Nei].
        * rewrite Ei, Hnew. unfold ns; cbn [status].
          destruct nf eqn:Enf; [|unfold FREE, DEAD; lia]. exfalso.
          apply N.eqb_eq in Enf. rewrite <- Ei, nexti_at in Enf by exact I.
          destruct (N.eq_dec (d' + 1) d) as [Ed|Ned].
          -- rewrite Ed, Hat in Enf. apply is_occ_iff in Hoj. destruct (occ_not_free _ Hoj). contradiction.
          -- apply (Hbefore (d' + 1)); [lia|exact Enf].
        * rewrite Hoth by assumption. apply Hbefore. exact Hd'.
      + intros a b k0 p0 q0 Ha Hb Hoa Hob Hsa Hsb.
        destruct (N.eq_dec a i) as [->|Nai]; [rewrite Hnew in Hoa; congruence|].
        destruct (N.eq_dec b i) as [->|Nbi]; [rewrite Hnew in Hob; congruence|].
        rewrite Hoth in * by assumption. eapply (r_uniq _ I); eauto.
    - (* RCnt t' *)
      assert (Hc : N.of_nat (N.to_nat (rcap t)) <= rcap t) by lia. assert (Hi' : i < N.of_nat (N.to_nat (rcap t))) by lia.
      pose proof (cntS_set isocc t i ns (rlen t - 1) (if nf then rfree t + 1 else rfree t) _ Hc Hi') as E1.
      pose proof (cntS_set isfree t i ns (rlen t - 1) (if nf then rfree t + 1 else rfree t) _ Hc Hi') as E2.
      fold t' in E1, E2.
      assert (A1 : isocc (status (tget (slots t) i)) = true) by (unfold isocc; now apply N.leb_le).
      assert (A2 : isfree (status (tget (slots t) i)) = false) by (unfold isfree; now apply N.eqb_neq).
      rewrite A1 in E1. rewrite A2 in E2. destruct C as [C1 C2].
      assert (B1 : isocc (status ns) = false) by (unfold isocc, ns; cbn; destruct nf; reflexivity).
      assert (B2 : isfree (status ns) = nf) by (unfold isfree, ns; cbn; destruct nf; reflexivity).
      rewrite B1 in E1. rewrite B2 in E2.
      constructor; change (rcap t') with (rcap t); unfold t' at 1; cbn [set_slot rlen rfree]; destruct nf; lia.
  Qed.

  Lemma at_inj t h d1 d2 : RInv t -> d1 < rcap t -> d2 < rcap t -> at_ t h d1 = at_ t h d2 -> d1 = d2.
  Proof.
    intros I H1 H2 E. unfold at_ in E. pose proof (cap_nz _ I) as Hc.
    pose proof (N.div_mod (h + d1) _ Hc) as E1. pose proof (N.div_mod (h + d2) _ Hc) as E2.
    pose proof (N.mod_lt (h + d1) _ Hc). rewrite E in E1.
    set (q1 := (h + d1) / rcap t) in *. set (q2 := (h + d2) / rcap t) in *. set (r := (h + d2) mod rcap t) in *.
    assert (q1 = q2) by nia. nia.
  Qed.

  (* the free-slot search: the key's slot, or an insertion point on the key's probe path *)
  Lemma probe_free_ok t k : RInv t -> (exists i, i < rcap t /\ status (tget (slots t) i) = FREE) ->
    forall fuel d dead, (N.to_nat (rcap t) <= fuel + N.to_nat d)%nat -> d <= rcap t ->
    let h := home t (st_of k) in
    (forall d', d' < d -> let s := tget (slots t) (at_ t h d') in
        status s <> FREE /\ ~ (status s = st_of k /\ exists p, sval s = Some (k, p))) ->
    (forall x, dead = Some x -> exists dx, dx < d /\ at_ t h dx = x /\ status (tget (slots t) x) = DEAD) ->
    match probe_free fuel t k (at_ t h d) dead with
    | ROk (inl i) => i < rcap t /\ is_occ (tget (slots t) i) = true /\ exists p, sval (tget (slots t) i) = Some (k, p)
    | ROk (inr e) => (forall i p, i < rcap t -> is_occ (tget (slots t) i) = true -> sval (tget (slots t) i) <> Some (k, p)) /\
                    e < rcap t /\ is_occ (tget (slots t) e) = false /\
                    exists de, de < rcap t /\ at_ t h de = e /\ forall d', d' < de -> status (tget (slots t) (at_ t h d')) <> FREE
    | _ => False
    end.
  Proof.
    intros I Hfree. induction fuel as [|fuel IH]; intros d dead Hfuel Hd h Hprev Hdead.
    - exfalso. assert (d = rcap t) by lia. subst d. destruct Hfree as (i & Hi & Hfi).
      destruct (at_cover t h i I Hi) as (d' & Hd' & Hat). destruct (Hprev d' Hd') as [Hnf _]. rewrite Hat in Hnf. contradiction.
    - destruct (N.eq_dec d (rcap t)) as [->|Hne].
      { exfalso. destruct Hfree as (i & Hi & Hfi). destruct (at_cover t h i I Hi) as (d' & Hd' & Hat).
        destruct (Hprev d' Hd') as [Hnf _]. rewrite Hat in Hnf. contradiction. }
      assert (Hdlt : d < rcap t) by lia. assert (Hx : at_ t h d < rcap t) by (apply at_lt; exact I).
      assert (Hst : st_of k <= M63) by apply land_le.
      cbn [probe_free]. set (x := at_ t h d) in *. set (s := tget (slots t) x) in *.
      destruct (N.eqb_spec (status s) FREE) as [Ef|Enf].
      + (* end of the probe path: key absent; insertion point *)
        assert (Habs : forall i p, i < rcap t -> is_occ (tget (slots t) i) = true -> sval (tget (slots t) i) <> Some (k, p)).
        { intros i p Hi Hocc Hsv. destruct (r_init _ I i Hi Hocc) as (k0 & p0 & Hsv0 & Hst0). rewrite Hsv in Hsv0. injection Hsv0 as <- <-.
          destruct (r_probe _ I i Hi Hocc) as (di & Hdi & Hati & Hbefore). rewrite Hst0 in Hati, Hbefore.
          change (N.land (hash k) M63) with (st_of k) in *. fold h in Hati, Hbefore.
          destruct (N.lt_trichotomy di d) as [Hlt|[Heq|Hgt]].
          - destruct (Hprev di Hlt) as [_ Hno]. apply Hno. rewrite Hati. split; [exact Hst0|eauto].
          - subst di. fold x in Hati. subst i. fold s in Hocc. apply is_occ_iff in Hocc. rewrite Ef in Hocc. unfold FREE, M63 in Hocc. lia.
          - apply (Hbefore d Hgt). exact Ef. }
        destruct dead as [e|].
        * destruct (Hdead e eq_refl) as (dx & Hdx & Hatx & Hsx). splits; auto.
          -- rewrite <- Hatx. apply at_lt; exact I.
          -- unfold is_occ. rewrite Hsx. reflexivity.
          -- exists dx. splits; auto; [lia|]. intros d' Hd'. apply Hprev. lia.
        * splits; auto.
          -- unfold is_occ. fold s. rewrite Ef. reflexivity.
          -- exists d. splits; auto. intros d' Hd'. apply Hprev. exact Hd'.
      + set (dead' := if status s =? DEAD then Some x else dead).
        assert (Hdead' : forall y, dead' = Some y -> exists dy, dy < d + 1 /\ at_ t h dy = y /\ status (tget (slots t) y) = DEAD).
        { intros y Hy. unfold dead' in Hy. destruct (N.eqb_spec (status s) DEAD) as [Ed|].
          - injection Hy as <-. exists d. splits; auto; lia.
          - destruct (Hdead y Hy) as (dy & ? & ? & ?). exists dy. splits; auto; lia. }
        destruct (N.eqb_spec (status s) (st_of k)) as [Es|Ens].
        * assert (Hocc : is_occ s = true) by (apply is_occ_iff; rewrite Es; exact Hst).
          destruct (r_init _ I x Hx Hocc) as (k0 & p0 & Hsv0 & Hst0). fold s in Hsv0. rewrite Hsv0.
          destruct (keqb_spec k0 k) as [->|Hk]; [splits; eauto|].
          unfold x. rewrite nexti_at by exact I. apply IH; auto; try lia.
          intros d' Hd'. destruct (N.eq_dec d' d) as [->|]; [|apply Hprev; lia].
          fold x. fold s. split; [exact Enf|]. intros [_ [p Hp]]. change (sval s = Some (k, p)) in Hp. rewrite Hsv0 in Hp. congruence.
        * unfold x. rewrite nexti_at by exact I. apply IH; auto; try lia.
          intros d' Hd'. destruct (N.eq_dec d' d) as [->|]; [|apply Hprev; lia].
          fold x. fold s. split; [exact Enf|]. intros [E _]. change (status s = st_of k) in E. contradiction.
  Qed.

  (* insertion at the point returned by the free-slot search, with at least two FREE slots available *)
  Lemma insert_ok t k p e : RInv t -> RCnt t -> 2 <= rfree t ->
    (forall i q, i < rcap t -> is_occ (tget (slots t) i) = true -> sval (tget (slots t) i) <> Some (k, q)) ->
    e < rcap t -> is_occ (tget (slots t) e) = false ->
    (exists de, de < rcap t /\ at_ t (home t (st_of k)) de = e /\
        forall d', d' < de -> status (tget (slots t) (at_ t (home t (st_of k)) d')) <> FREE) ->
    exists t', insert_in_slot t k p e = ROk t' /\ RInv t' /\ RCnt t' /\ 1 <= rfree t' /\ rlen t' = rlen t + 1 /\
      tget (slots t') e = {| status := st_of k; sval := Some (k, p) |} /\
      (forall j, j <> e -> tget (slots t') j = tget (slots t) j).
  Proof.
    intros I C Hfree Habs He Hno (de & Hde & Hate & Hbefore).
    unfold insert_in_slot. rewrite Hno.
    set (ns := {| status := st_of k; sval := Some (k, p) |}).
    set (nfree := if status (tget (slots t) e) =? DEAD then rfree t else rfree t - 1).
    set (t' := set_slot t e ns (rlen t + 1) nfree).
    exists t'. split; [reflexivity|].
    assert (Hoth : forall j, j <> e -> tget (slots t') j = tget (slots t) j) by (intros j Hj; unfold t'; cbn [set_slot slots]; now rewrite tget_set_other).
    assert (Hnew : tget (slots t') e = ns) by (unfold t'; cbn [set_slot slots]; now rewrite tget_set_same).
    assert (Hst : st_of k <= M63) by apply land_le.
    assert (Hnsocc : is_occ ns = true) by (apply is_occ_iff; exact Hst).
    assert (Hc : N.of_nat (N.to_nat (rcap t)) <= rcap t) by lia. assert (He' : e < N.of_nat (N.to_nat (rcap t))) by lia.
    pose proof (cntS_set isocc t e ns (rlen t + 1) nfree _ Hc He') as E1.
    pose proof (cntS_set isfree t e ns (rlen t + 1) nfree _ Hc He') as E2. fold t' in E1, E2.
    assert (A1 : isocc (status (tget (slots t) e)) = false) by exact Hno.
    assert (B1 : isocc (status ns) = true) by (unfold isocc; now apply N.leb_le).
    assert (B2 : isfree (status ns) = false) by (unfold isfree; apply N.eqb_neq; destruct (occ_not_free _ Hst); assumption).
    rewrite A1, B1 in E1. rewrite B2 in E2. destruct C as [C1 C2].
    assert (Hfreecnt : 1 <= cntS isfree t' (N.to_nat (rcap t)) /\ nfree <= cntS isfree t' (N.to_nat (rcap t)) /\ 1 <= nfree).
    { unfold nfree. destruct (N.eqb_spec (status (tget (slots t) e)) DEAD) as [Ed|End].
      - assert (isfree (status (tget (slots t) e)) = false) by (unfold isfree; rewrite Ed; reflexivity). rewrite H in E2. lia.
      - destruct (isfree (status (tget (slots t) e))); lia. }
    destruct Hfreecnt as (Hf1 & Hf2 & Hf3).
    split; [|split; [|split; [exact Hf3|split; [reflexivity|split; [exact Hnew|exact Hoth]]]]].
    - constructor; try exact (r_pow _ I); try exact (r_small _ I).
      + intros j Hj Hoj. destruct (N.eq_dec j e) as [->|Hne].
        * rewrite Hnew. exists k, p. split; reflexivity.
        * rewrite Hoth in * by assumption. apply (r_init _ I); assumption.
      + intros _. destruct (cntS_exists isfree t' _ Hf1) as (f & Hf & Hfs). exists f. split; [change (rcap t') with (rcap t); lia|].
        unfold isfree in Hfs. now apply N.eqb_eq.
      + intros j Hj Hoj. change (at_ t' ?h ?x) with (at_ t h x). change (home t' ?z) with (home t z).
        destruct (N.eq_dec j e) as [->|Hne].
        * rewrite Hnew. cbn [status ns]. exists de. splits; auto. intros d' Hd'.
          assert (at_ t (home t (st_of k)) d' <> e).
          { intro E. rewrite <- Hate in E. apply at_inj in E; auto; lia. }
          rewrite Hoth by assumption. apply Hbefore. exact Hd'.
        * rewrite Hoth in Hoj by assumption. destruct (r_probe _ I j Hj Hoj) as (d & Hd & Hat & Hbf).
          rewrite Hoth by assumption. exists d. splits; auto. intros d' Hd'.
          destruct (N.eq_dec (at_ t (home t (status (tget (slots t) j))) d') e) as [Ee|Nee].
          -- rewrite Ee, Hnew. cbn [status ns]. destruct (occ_not_free _ Hst). assumption.
          -- rewrite Hoth by assumption. apply Hbf. exact Hd'.
      + intros a b k0 p0 q0 Ha Hb Hoa Hob Hsa Hsb.
        destruct (N.eq_dec a e) as [->|Nae], (N.eq_dec b e) as [->|Nbe]; auto.
        * rewrite Hnew in Hsa. injection Hsa as <- <-. rewrite Hoth in Hob, Hsb by assumption. exfalso. exact (Habs b q0 Hb Hob Hsb).
        * rewrite Hnew in Hsb. injection Hsb as <- <-. rewrite Hoth in Hoa, Hsa by assumption. exfalso. exact (Habs a p0 Ha Hoa Hsa).
        * rewrite Hoth in * by assumption. eapply (r_uniq _ I); eauto.
    - constructor; change (rcap t') with (rcap t); unfold t' at 1; cbn [set_slot rlen rfree]; lia.
  Qed.

  (* iteration: the occupied slots in index order; exactly len of them, so the bounded iterator never runs off the end *)
  Fixpoint occ_vals (t : raw) (n : nat) : list (K * P) :=
    match n with O => [] | S m =>
      occ_vals t m ++ (if isocc (status (tget (slots t) (N.of_nat m))) then
                         match sval (tget (slots t) (N.of_nat m)) with Some kv => [kv] | None => [] end else [])
    end.
  Lemma iter_len t : RInv t -> RCnt t -> N.of_nat (length (occ_vals t (N.to_nat (rcap t)))) = rlen t.
  Proof.
    intros I C. rewrite (rc_len _ C).
    assert (H : forall n, N.of_nat n <= rcap t -> N.of_nat (length (occ_vals t n)) = cntS isocc t n).
    { induction n as [|n IH]; intro Hn; [reflexivity|]. cbn [occ_vals cntS]. rewrite app_length, Nat2N.inj_add, IH by lia.
      destruct (isocc (status (tget (slots t) (N.of_nat n)))) eqn:E; [|reflexivity].
      destruct (r_init _ I (N.of_nat n)) as (k & p & -> & _); [lia|exact E|]. reflexivity. }
    apply H. lia.
  Qed.

  (* iteration yields exactly the stored entries, each key once (C19: "each stored value exactly once and nothing else") *)
  Lemma occ_vals_in t : RInv t -> forall n, N.of_nat n <= rcap t ->
    forall k p, In (k, p) (occ_vals t n) <-> exists i, i < N.of_nat n /\ is_occ (tget (slots t) i) = true /\ sval (tget (slots t) i) = Some (k, p).
  Proof.
    intros I. induction n as [|n IH]; intros Hn k p; cbn [occ_vals].
    - split; [intros []|intros (i & Hi & _); lia].
    - rewrite in_app_iff, IH by lia. split.
      + intros [(i & Hi & Ho & Hs)|Hin]; [exists i; split; [lia|auto]|].
        unfold isocc in Hin. destruct (status (tget (slots t) (N.of_nat n)) <=? M63) eqn:E; [|destruct Hin].
        destruct (sval (tget (slots t) (N.of_nat n))) as [kv|] eqn:Es; [|destruct Hin]. destruct Hin as [->|[]].
        exists (N.of_nat n). split; [lia|]. split; [exact E|exact Es].
      + intros (i & Hi & Ho & Hs). destruct (N.eq_dec i (N.of_nat n)) as [->|Hne]; [|left; exists i; split; [lia|auto]].
        right. unfold isocc. unfold is_occ in Ho. rewrite Ho, Hs. left. reflexivity.
  Qed.
  Lemma nodup_snoc {A} (l : list A) x : NoDup l -> ~ In x l -> NoDup (l ++ [x]).
  Proof.
    induction l as [|a l IH]; intros Hn Hx; cbn; [constructor; [intros []|constructor]|].
    inversion Hn as [|? ? Ha Hl]; subst. constructor.
    - rewrite in_app_iff. intros [H|[H|[]]]; [contradiction|subst; apply Hx; left; reflexivity].
    - apply IH; [exact Hl|]. intro H. apply Hx. right. exact H.
  Qed.
  Lemma occ_vals_nodup t : RInv t -> forall n, N.of_nat n <= rcap t -> NoDup (map fst (occ_vals t n)).
  Proof.
    intros I. induction n as [|n IH]; intro Hn; cbn [occ_vals]; [constructor|].
    rewrite map_app. unfold isocc. destruct (status (tget (slots t) (N.of_nat n)) <=? M63) eqn:E; [|cbn; rewrite app_nil_r; apply IH; lia].
    destruct (sval (tget (slots t) (N.of_nat n))) as [[k p]|] eqn:Es; [|cbn; rewrite app_nil_r; apply IH; lia].
    cbn [map fst]. apply nodup_snoc; [apply IH; lia|].
    intro Hin. apply in_map_iff in Hin. destruct Hin as ([k' q] & Ek & Hin). cbn in Ek. subst k'.
    apply (occ_vals_in t I n) in Hin; [|lia]. destruct Hin as (i & Hi & Ho & Hs).
    assert (i = N.of_nat n); [|lia].
    apply (r_uniq _ I i (N.of_nat n) k q p); auto; lia.
  Qed.
  Theorem iter_exactly_once t : RInv t ->
    (forall k p, In (k, p) (occ_vals t (N.to_nat (rcap t))) <-> exists i, i < rcap t /\ is_occ (tget (slots t) i) = true /\ sval (tget (slots t) i) = Some (k, p)) /\
    NoDup (map fst (occ_vals t (N.to_nat (rcap t)))).
  Proof.
    intro I. split; [|apply occ_vals_nodup; [exact I|lia]]. intros k p. rewrite (occ_vals_in t I) by lia. now rewrite N2Nat.id.
  Qed.

  (* ================= reserve_rehash ================= *)
  Definition npot (x : N) : N := 2 ^ N.log2_up x.            (* usize::next_power_of_two *)
  Definition empty_slot : slot := {| status := FREE; sval := None |}.
  Fixpoint first_free (fuel : nat) (t : raw) (index : N) : out N :=
    match fuel with O => Hang | S fuel =>
      if status (tget (slots t) index) =? FREE then ROk index else first_free fuel t (nexti t index) end.
  Definition rehash_one (nw : raw) (sl : slot) : out raw :=
    if is_occ sl then
      match first_free (N.to_nat (rcap nw)) nw (N.land (status sl) (rcap nw - 1)) with
      | ROk e => ROk (set_slot nw e {| status := status sl; sval := sval sl |} (rlen nw + 1) (rfree nw - 1))
      | Uninit => Uninit | Hang => Hang | AssertFailed => AssertFailed
      end
    else ROk nw.
  Fixpoint rehash_loop (n : nat) (old nw : raw) : out raw :=
    match n with O => ROk nw | S m =>
      match rehash_loop m old nw with
      | ROk nw1 => rehash_one nw1 (tget (slots old) (N.of_nat m))
      | Uninit => Uninit | Hang => Hang | AssertFailed => AssertFailed
      end
    end.
  Definition fresh (c : N) : raw := {| slots := tconst empty_slot; rcap := c; rlen := 0; rfree := c |}.
  Definition reserve_rehash (t : raw) (add : N) : out raw := rehash_loop (N.to_nat (rcap t)) t (fresh (npot (rlen t + add))).

  Lemma first_free_ok t h : RInv t -> (exists i, i < rcap t /\ status (tget (slots t) i) = FREE) ->
    forall fuel d, (N.to_nat (rcap t) <= fuel + N.to_nat d)%nat -> d <= rcap t ->
    (forall d', d' < d -> status (tget (slots t) (at_ t h d')) <> FREE) ->
    exists e, first_free fuel t (at_ t h d) = ROk e /\ e < rcap t /\ status (tget (slots t) e) = FREE /\
      exists de, de < rcap t /\ at_ t h de = e /\ forall d', d' < de -> status (tget (slots t) (at_ t h d')) <> FREE.
  Proof.
    intros I Hfree. induction fuel as [|fuel IH]; intros d Hfuel Hd Hprev.
    - exfalso. assert (d = rcap t) by lia. subst d. destruct Hfree as (i & Hi & Hfi).
      destruct (at_cover t h i I Hi) as (d' & Hd' & Hat). apply (Hprev d' Hd'). now rewrite Hat.
    - destruct (N.eq_dec d (rcap t)) as [->|Hne].
      { exfalso. destruct Hfree as (i & Hi & Hfi). destruct (at_cover t h i I Hi) as (d' & Hd' & Hat). apply (Hprev d' Hd'). now rewrite Hat. }
      cbn [first_free]. destruct (N.eqb_spec (status (tget (slots t) (at_ t h d))) FREE) as [Ef|Enf].
      + exists (at_ t h d). splits; auto; [apply at_lt; exact I|]. exists d. splits; auto; lia.
      + rewrite nexti_at by exact I. apply IH; try lia. intros d' Hd'. destruct (N.eq_dec d' d) as [->|]; [exact Enf|apply Hprev; lia].
  Qed.

  (* the keys stored in the occupied slots with index below n *)
  Definition holds_kv (t : raw) (k : K) (p : P) : Prop :=
    exists i, i < rcap t /\ is_occ (tget (slots t) i) = true /\ sval (tget (slots t) i) = Some (k, p).
  Definition holds_below (t : raw) (n : N) (k : K) (p : P) : Prop :=
    exists i, i < n /\ i < rcap t /\ is_occ (tget (slots t) i) = true /\ sval (tget (slots t) i) = Some (k, p).

  Lemma rehash_loop_ok old c : RInv old -> RCnt old -> (exists m, c = 2 ^ m) -> c <= M63 -> rlen old + 2 <= c ->
    forall n, N.of_nat n <= rcap old ->
    exists nw, rehash_loop n old (fresh c) = ROk nw /\ RInv nw /\ RCnt nw /\ rcap nw = c /\
      rlen nw = cntS isocc old n /\ rfree nw + rlen nw = c /\
      (forall k p, holds_kv nw k p <-> holds_below old (N.of_nat n) k p).
  Proof.
    intros I C Hpow Hsm Hroom. induction n as [|n IH]; intro Hn.
    - exists (fresh c). cbn [rehash_loop cntS]. splits; auto; try (cbn; lia).
      + constructor; cbn [fresh rcap rlen slots]; auto; try (intros; rewrite tget_const in *; cbn in *; discriminate).
        * intro H; contradiction.
      + constructor; cbn [fresh rcap rlen rfree].
        * assert (H : forall m, cntS isocc (fresh c) m = 0) by (induction m as [|m IHm]; cbn [cntS]; [reflexivity|]; rewrite IHm; cbn [fresh slots]; rewrite tget_const; reflexivity).
          now rewrite H.
        * assert (H : forall m, cntS isfree (fresh c) m = N.of_nat m).
          { induction m as [|m IHm]; cbn [cntS]; [reflexivity|]. rewrite IHm. cbn [fresh slots]. rewrite tget_const. cbn [status empty_slot]. unfold isfree. rewrite N.eqb_refl. lia. }
          rewrite H. lia.
      + intros k p. split; [intros (i & Hi & Ho & _); cbn [fresh slots] in Ho; rewrite tget_const in Ho; discriminate|intros (i & Hi & _); lia].
    - destruct IH as (nw & Hl & In & Cn & Hc & Hlen & Hfr & Hcont); [lia|].
      cbn [rehash_loop]. rewrite Hl. set (j := N.of_nat n). set (sl := tget (slots old) j).
      assert (Hj : j < rcap old) by (unfold j; lia).
      unfold rehash_one. destruct (is_occ sl) eqn:Hocc.
      + destruct (r_init _ I j Hj Hocc) as (k & p & Hsv & Hst). fold sl in Hsv, Hst.
        (* room: at least two FREE slots remain *)
        assert (Hlenle : cntS isocc old (S n) <= rlen old).
        { rewrite (rc_len _ C). clear -Hn. assert (H : forall a b, (a <= b)%nat -> cntS isocc old a <= cntS isocc old b).
          { intros a b Hab. induction Hab; [lia|]. cbn [cntS]. destruct (isocc _); lia. } apply H. lia. }
        assert (Hocc1 : cntS isocc old (S n) = cntS isocc old n + 1).
        { cbn [cntS]. fold j. fold sl. change (isocc (status sl)) with (is_occ sl). now rewrite Hocc. }
        assert (Hfree2 : 2 <= rfree nw) by lia.
        assert (Hex : exists i, i < rcap nw /\ status (tget (slots nw) i) = FREE).
        { destruct (cntS_exists isfree nw (N.to_nat (rcap nw))) as (i & Hi & Hf); [pose proof (rc_free _ Cn); lia|].
          exists i. split; [lia|]. unfold isfree in Hf. now apply N.eqb_eq. }
        assert (Hland : N.land (status sl) (rcap nw - 1) = at_ nw (home nw (st_of k)) 0).
        { unfold at_, home. rewrite N.add_0_r. rewrite land_mask by (rewrite Hc; exact Hpow). rewrite Hst.
          rewrite N.mod_mod by (apply cap_nz; exact In). reflexivity. }
        rewrite Hland.
        destruct (first_free_ok nw (home nw (st_of k)) In Hex (N.to_nat (rcap nw)) 0) as (e & Hff & He & Hfe & Hpath); try lia.
        rewrite Hff.
        (* key k is not yet in the new table *)
        assert (Habs : forall i q, i < rcap nw -> is_occ (tget (slots nw) i) = true -> sval (tget (slots nw) i) <> Some (k, q)).
        { intros i q Hi Ho Hs. assert (Hh : holds_kv nw k q) by (exists i; auto). apply Hcont in Hh.
          destruct Hh as (i0 & Hi0 & Hi0c & Ho0 & Hs0). assert (i0 = j) by (eapply (r_uniq _ I); eauto). unfold j in *. lia. }
        assert (Hnocc : is_occ (tget (slots nw) e) = false) by (unfold is_occ; rewrite Hfe; reflexivity).
        destruct (insert_ok nw k p e In Cn Hfree2 Habs He Hnocc Hpath) as (nw' & Hins & In' & Cn' & Hf1 & Hlen' & Hnew & Hoth).
        assert (Enw : set_slot nw e {| status := status sl; sval := sval sl |} (rlen nw + 1) (rfree nw - 1) = nw').
        { unfold insert_in_slot in Hins. rewrite Hnocc in Hins. rewrite Hfe in Hins. cbn in Hins. injection Hins as <-. now rewrite Hsv, Hst. }
        rewrite Enw. exists nw'. splits; auto.
        * rewrite <- Enw. exact Hc.
        * rewrite Hlen', Hlen, Hocc1. reflexivity.
        * rewrite <- Enw. cbn [set_slot rfree rlen]. lia.
        * intros k0 p0. split.
          -- intros (i & Hi & Ho & Hs). destruct (N.eq_dec i e) as [->|Hne].
             ++ rewrite Hnew in Hs. injection Hs as <- <-. exists j. splits; auto. unfold j. lia.
             ++ rewrite Hoth in Ho, Hs by assumption. assert (Hh : holds_kv nw k0 p0) by (exists i; splits; auto; rewrite <- Enw in Hi; exact Hi).
                apply Hcont in Hh. destruct Hh as (i0 & ? & ? & ? & ?). exists i0. splits; auto. lia.
          -- intros (i0 & Hi0 & Hi0c & Ho0 & Hs0). destruct (N.eq_dec i0 j) as [->|Hne].
             ++ fold sl in Hs0. rewrite Hsv in Hs0. injection Hs0 as <- <-. exists e. rewrite Hnew. splits; auto.
                ** rewrite <- Enw. exact He.
                ** apply is_occ_iff. apply land_le.
             ++ assert (Hh : holds_below old (N.of_nat n) k0 p0) by (exists i0; splits; auto; fold j; lia).
                apply Hcont in Hh. destruct Hh as (i & Hi & Ho & Hs). exists i.
                assert (i <> e) by (intros ->; congruence). rewrite Hoth by assumption. splits; auto. rewrite <- Enw. exact Hi.
      + exists nw. splits; auto.
        * cbn [cntS]. fold j. fold sl. change (isocc (status sl)) with (is_occ sl). rewrite Hocc. lia.
        * intros k0 p0. rewrite Hcont. split; intros (i & Hi & Hic & Ho & Hs); exists i; splits; auto; try lia.
          destruct (N.eq_dec i j) as [->|]; [fold sl in Ho; congruence|lia].
  Qed.

  (* ================= clear ================= *)
  Fixpoint clear_from (fuel : nat) (t : raw) (i : N) : out raw :=
    match fuel with O => AssertFailed (* unreachable!() *) | S fuel =>
      let sl := tget (slots t) i in
      let t1 := set_slot t i empty_slot (if is_occ sl then rlen t - 1 else rlen t) (rfree t) in
      if is_occ sl && (rlen t1 =? 0) then ROk t1 else clear_from fuel t1 (i + 1)
    end.
  Definition clear (t : raw) : out raw := if rlen t =? 0 then ROk t else clear_from (N.to_nat (rcap t)) t 0.

  (* number of occupied slots in [i, i + n) *)
  Fixpoint cnt_from (t : raw) (i : N) (n : nat) : N :=
    match n with O => 0 | S m => (if is_occ (tget (slots t) i) then 1 else 0) + cnt_from t (i + 1) m end.
  Lemma cnt_from_set t i j sl len free n : j < i -> cnt_from (set_slot t j sl len free) i n = cnt_from t i n.
  Proof.
    revert i. induction n as [|n IH]; intros i Hj; cbn [cnt_from]; [reflexivity|].
    cbn [set_slot slots]. rewrite tget_set_other by lia. rewrite <- (IH (i + 1)) by lia. reflexivity.
  Qed.
  Lemma cntS_cnt_from t n : cntS isocc t n = cnt_from t 0 n.
  Proof.
    assert (H : forall m i, cnt_from t i (S m) = cnt_from t i m + (if is_occ (tget (slots t) (i + N.of_nat m)) then 1 else 0)).
    { induction m as [|m IHm]; intro i.
      - cbn [cnt_from]. change (N.of_nat 0) with 0. rewrite !N.add_0_r, N.add_0_l. reflexivity.
      - change (cnt_from t i (S (S m))) with ((if is_occ (tget (slots t) i) then 1 else 0) + cnt_from t (i + 1) (S m)).
        rewrite IHm. cbn [cnt_from]. replace (i + 1 + N.of_nat m) with (i + N.of_nat (S m)) by lia.
        destruct (is_occ (tget (slots t) i)), (is_occ (tget (slots t) (i + N.of_nat (S m)))); lia. }
    induction n as [|n IH]; [reflexivity|]. cbn [cntS]. rewrite IH, H. rewrite N.add_0_l. reflexivity.
  Qed.

  Lemma clear_from_ok : forall fuel t i, N.of_nat fuel + i = rcap t -> rlen t = cnt_from t i fuel -> rlen t <> 0 ->
    (forall j, j < i -> is_occ (tget (slots t) j) = false) ->
    exists t', clear_from fuel t i = ROk t' /\ rlen t' = 0 /\ rcap t' = rcap t /\ rfree t' = rfree t /\
      (forall j, j < rcap t -> is_occ (tget (slots t') j) = false) /\
      (forall j, status (tget (slots t) j) = FREE -> status (tget (slots t') j) = FREE).
  Proof.
    induction fuel as [|fuel IH]; intros t i Hcap Hlen Hnz Hbefore.
    - cbn in Hlen. contradiction.
    - cbn [clear_from]. set (sl := tget (slots t) i).
      set (t1 := set_slot t i empty_slot (if is_occ sl then rlen t - 1 else rlen t) (rfree t)).
      assert (Hsame : forall j, j <> i -> tget (slots t1) j = tget (slots t) j) by (intros j Hj; unfold t1; cbn [set_slot slots]; now rewrite tget_set_other).
      assert (Hi : tget (slots t1) i = empty_slot) by (unfold t1; cbn [set_slot slots]; now rewrite tget_set_same).
      assert (Hrest : cnt_from t1 (i + 1) fuel = cnt_from t (i + 1) fuel) by (unfold t1; apply cnt_from_set; lia).
      cbn [cnt_from] in Hlen. fold sl in Hlen.
      assert (Hlen1 : rlen t1 = cnt_from t1 (i + 1) fuel).
      { rewrite Hrest. unfold t1; cbn [set_slot rlen]. destruct (is_occ sl); lia. }
      assert (Hbefore1 : forall j, j < i + 1 -> is_occ (tget (slots t1) j) = false).
      { intros j Hj. destruct (N.eq_dec j i) as [->|Hne]; [rewrite Hi; reflexivity|]. rewrite Hsame by assumption. apply Hbefore. lia. }
      destruct (is_occ sl && (rlen t1 =? 0)) eqn:Hstop.
      + apply andb_prop in Hstop as [Ho Hz]. apply N.eqb_eq in Hz.
        exists t1. splits; auto.
        * (* nothing occupied remains: the count of the rest is 0 *)
          intros j Hj. destruct (N.lt_ge_cases j (i + 1)) as [Hlt|Hge]; [apply Hbefore1; exact Hlt|].
          rewrite Hz in Hlen1. clear -Hlen1 Hge Hj Hcap.
          assert (Hgen : forall m a, cnt_from t1 a m = 0 -> forall x, a <= x -> x < a + N.of_nat m -> is_occ (tget (slots t1) x) = false).
          { induction m as [|m IHm]; intros a H0 x Hx1 Hx2; [lia|]. cbn [cnt_from] in H0.
            destruct (N.eq_dec x a) as [->|Hne]; [destruct (is_occ (tget (slots t1) a)); [lia|reflexivity]|].
            apply (IHm (a + 1)); [destruct (is_occ (tget (slots t1) a)); lia|lia|lia]. }
          apply (Hgen fuel (i + 1)); auto. change (rcap t1) with (rcap t) in *. lia.
        * intros j Hf. destruct (N.eq_dec j i) as [->|Hne]; [rewrite Hi; reflexivity|]. now rewrite Hsame.
      + assert (Hnz1 : rlen t1 <> 0).
        { apply andb_false_iff in Hstop. destruct Hstop as [Ho|Hz]; [|now apply N.eqb_neq in Hz].
          unfold t1; cbn [set_slot rlen]. rewrite Ho. exact Hnz. }
        destruct (IH t1 (i + 1)) as (t' & Hc & Hl & Hcp & Hfr & Hnone & Hfree); auto.
        * change (rcap t1) with (rcap t). lia.
        * exists t'. splits; auto. intros j Hf. apply Hfree. destruct (N.eq_dec j i) as [->|Hne]; [rewrite Hi; reflexivity|]. now rewrite Hsame.
  Qed.

  (* ================= the public operations as a map ================= *)
  Definition obind {A B} (x : out A) (f : A -> out B) : out B :=
    match x with ROk a => f a | Uninit => Uninit | Hang => Hang | AssertFailed => AssertFailed end.
  Definition reserve (t : raw) (add : N) : out raw := if rfree t <? add then reserve_rehash t add else ROk t.
  Definition find_or_free (t : raw) (k : K) : out (raw * (N + N)) :=
    obind (reserve t 2) (fun t1 =>
    obind (probe_free (N.to_nat (rcap t1)) t1 k (N.land (hash k) (rcap t1 - 1)) None) (fun r => ROk (t1, r))).
  Definition insert (t : raw) (k : K) (p : P) : out (raw * (N + N)) :=
    obind (find_or_free t k) (fun x =>
      match x with
      | (t1, inl i) =>     (* overwrite in place through get_at_slot_mut (debug-asserts occupied) *)
        let s := tget (slots t1) i in
        if is_occ s then ROk (set_slot t1 i {| status := status s; sval := Some (k, p) |} (rlen t1) (rfree t1), inl i)
        else AssertFailed
      | (t1, inr e) => obind (insert_in_slot t1 k p e) (fun t2 => ROk (t2, inr e))
      end).
  Definition remove (t : raw) (k : K) : out (raw * option (K * P)) :=
    obind (find t k) (fun o =>
      match o with
      | Some i => obind (remove_at_slot t i) (fun x => ROk (fst x, Some (snd x)))
      | None => ROk (t, None)
      end).
  Definition get (t : raw) (k : K) : out (option (K * P)) :=
    obind (find t k) (fun o =>
      match o with
      | Some i => if is_occ (tget (slots t) i) then match sval (tget (slots t) i) with Some kv => ROk (Some kv) | None => Uninit end
                  else AssertFailed
      | None => ROk None
      end).
  Definition new_raw : raw := {| slots := tconst empty_slot; rcap := 0; rlen := 0; rfree := 0 |}.

  (* well-formed tables: the empty boxed slice of RawTable::new(), or a table satisfying the invariants *)
  Definition WF (t : raw) : Prop :=
    (rcap t = 0 /\ rlen t = 0 /\ rfree t = 0) \/ (RInv t /\ RCnt t /\ (rlen t <> 0 -> 1 <= rfree t)).
  Definition small (t : raw) := rlen t + 2 <= 2 ^ 62.      (* usize arithmetic of next_power_of_two does not overflow *)

  Lemma WF_new : WF new_raw.
  Proof. left. cbn. auto. Qed.

  Lemma holds_kv_fun t : RInv t -> forall k p q, holds_kv t k p -> holds_kv t k q -> p = q.
  Proof.
    intros I k p q (i & Hi & Ho & Hs) (j & Hj & Hoj & Hsj).
    assert (i = j) by (eapply (r_uniq _ I); eauto). subst j. congruence.
  Qed.

  Lemma no_occ_of_len0 t : RCnt t -> rlen t = 0 -> forall i, i < rcap t -> is_occ (tget (slots t) i) = false.
  Proof.
    intros C H0 i Hi. destruct (is_occ (tget (slots t) i)) eqn:Ho; [|reflexivity]. exfalso.
    pose proof (cntS_pos isocc t (N.to_nat (rcap t)) i) as Hp. rewrite <- (rc_len _ C) in Hp.
    assert (1 <= rlen t); [|lia]. apply Hp; [lia|exact Ho].
  Qed.

  Lemma land_home t k : RInv t -> N.land (hash k) (rcap t - 1) = at_ t (home t (st_of k)) 0.
  Proof.
    intro I. unfold at_, home, st_of. rewrite N.add_0_r. rewrite land_mask by (apply (r_pow _ I)).
    rewrite N.mod_mod by (apply cap_nz; exact I).
    (* (hash land M63) mod 2^n = hash mod 2^n for n <= 63 *)
    destruct (r_pow _ I) as (n & Hn). pose proof (r_small _ I) as Hs. rewrite Hn in *.
    assert (Hn63 : n <= 63).
    { destruct (N.le_gt_cases n 63) as [|Hgt]; [assumption|]. exfalso.
      assert (2 ^ 64 <= 2 ^ n) by (apply N.pow_le_mono_r; lia). unfold M63 in Hs. change (2 ^ 64) with 18446744073709551616 in *. lia. }
    change M63 with (N.ones 63). rewrite N.land_ones. rewrite <- !N.land_ones.
    apply N.bits_inj. intro b. rewrite !N.land_spec.
    destruct (N.lt_ge_cases b n) as [Hb|Hb].
    - rewrite N.ones_spec_low by exact Hb. rewrite N.ones_spec_low by lia. now rewrite !andb_true_r.
    - rewrite N.ones_spec_high by exact Hb. now rewrite !andb_false_r.
  Qed.

  Theorem find_ok t k : WF t ->
    match find t k with
    | ROk (Some i) => i < rcap t /\ is_occ (tget (slots t) i) = true /\ exists p, sval (tget (slots t) i) = Some (k, p)
    | ROk None => forall p, ~ holds_kv t k p
    | _ => False
    end.
  Proof.
    intros [(Hc & Hl & Hf)|(I & C & Hfr)]; unfold find.
    - rewrite Hl. cbn. intros p (i & Hi & _). lia.
    - destruct (N.eqb_spec (rlen t) 0) as [H0|Hn0].
      + intros p (i & Hi & Ho & _). rewrite (no_occ_of_len0 t C H0 i Hi) in Ho. discriminate.
      + specialize (Hfr Hn0). destruct (N.eqb_spec (rfree t) 0) as [|_]; [lia|].
        rewrite (land_home t k I).
        pose proof (probe_sound t k I (N.to_nat (rcap t)) 0) as Hp. cbv zeta in Hp.
        change (N.land (hash k) M63) with (st_of k) in *.
        assert (Hx : match probe (N.to_nat (rcap t)) t k (st_of k) (at_ t (home t (st_of k)) 0) with
                     | ROk (Some i) => i < rcap t /\ is_occ (tget (slots t) i) = true /\ exists p, sval (tget (slots t) i) = Some (k, p)
                     | ROk None => forall i p, i < rcap t -> is_occ (tget (slots t) i) = true -> sval (tget (slots t) i) <> Some (k, p)
                     | _ => False end).
        { apply Hp; [lia|lia|intros d' Hd'; lia|apply (r_free1 _ I Hn0)]. }
        destruct (probe _ _ _ _ _) as [[i|]| | |]; auto.
        intros p (i & Hi & Ho & Hs). exact (Hx i p Hi Ho Hs).
  Qed.

  Lemma fresh_ok c : (exists m, c = 2 ^ m) -> c <= M63 -> RInv (fresh c) /\ RCnt (fresh c).
  Proof.
    intros Hpow Hsm. split.
    - constructor; cbn [fresh rcap rlen slots]; auto; try (intros; rewrite tget_const in *; cbn in *; discriminate).
      intro H; contradiction.
    - constructor; cbn [fresh rcap rlen rfree].
      + assert (H : forall m, cntS isocc (fresh c) m = 0) by (induction m as [|m IHm]; cbn [cntS]; [reflexivity|]; rewrite IHm; cbn [fresh slots]; rewrite tget_const; reflexivity).
        now rewrite H.
      + assert (H : forall m, cntS isfree (fresh c) m = N.of_nat m).
        { induction m as [|m IHm]; cbn [cntS]; [reflexivity|]. rewrite IHm. cbn [fresh slots]. rewrite tget_const. cbn [status empty_slot]. unfold isfree. rewrite N.eqb_refl. lia. }
        rewrite H. lia.
  Qed.

  Lemma npot_spec x : 2 <= x -> x <= 2 ^ 62 -> (exists m, npot x = 2 ^ m) /\ npot x <= M63 /\ x <= npot x.
  Proof.
    intros H2 H62. unfold npot. splits.
    - eexists; reflexivity.
    - assert (N.log2_up x <= 62) by (apply N.log2_up_le_pow2; lia).
      assert (2 ^ N.log2_up x <= 2 ^ 62) by (apply N.pow_le_mono_r; lia).
      unfold M63. change (2 ^ 62) with 4611686018427387904 in *. lia.
    - apply N.log2_up_spec. lia.
  Qed.

  Lemma reserve_ok t : WF t -> small t ->
    exists t1, reserve t 2 = ROk t1 /\ RInv t1 /\ RCnt t1 /\ 2 <= rfree t1 /\ rlen t1 = rlen t /\
      (forall k p, holds_kv t1 k p <-> holds_kv t k p).
  Proof.
    intros W Hs. unfold reserve. destruct (N.ltb_spec (rfree t) 2) as [Hlt|Hge].
    - unfold reserve_rehash. set (c := npot (rlen t + 2)).
      destruct (npot_spec (rlen t + 2)) as (Hpow & Hsm & Hroom); [lia|exact Hs|]. fold c in Hpow, Hsm, Hroom.
      destruct W as [(Hc & Hl & Hf)|(I & C & Hfr)].
      + rewrite Hc. cbn [N.to_nat rehash_loop]. destruct (fresh_ok c Hpow Hsm) as [If Cf].
        exists (fresh c). splits; auto.
        * cbn [fresh rfree]. lia.
        * intros k p. split; intros (i & Hi & Ho & _); [cbn [fresh slots] in Ho; rewrite tget_const in Ho; discriminate|lia].
      + destruct (rehash_loop_ok t c I C Hpow Hsm Hroom (N.to_nat (rcap t))) as (nw & Hl & In & Cn & Hc & Hlen & Hfree & Hcont); [lia|].
        exists nw. rewrite <- (rc_len _ C) in Hlen. splits; auto; try lia.
        intros k p. rewrite Hcont. rewrite N2Nat.id. split; [intros (i & _ & H); exists i; exact H|intros (i & Hi & Ho & Hsv); exists i; splits; auto].
    - destruct W as [(Hc & Hl & Hf)|(I & C & Hfr)]; [lia|]. exists t. splits; auto. reflexivity.
  Qed.

  (* overwriting the payload of an occupied slot keeps every status word, hence every invariant *)
  Lemma cntS_ext P' t t' : (forall j, status (tget (slots t') j) = status (tget (slots t) j)) -> forall n, cntS P' t' n = cntS P' t n.
  Proof. intros H n. induction n as [|n IH]; cbn [cntS]; [reflexivity|]. now rewrite IH, H. Qed.

  Lemma overwrite_ok t i k p0 p : RInv t -> RCnt t -> i < rcap t -> is_occ (tget (slots t) i) = true ->
    sval (tget (slots t) i) = Some (k, p0) ->
    let t' := set_slot t i {| status := status (tget (slots t) i); sval := Some (k, p) |} (rlen t) (rfree t) in
    RInv t' /\ RCnt t' /\ holds_kv t' k p /\ (forall k' q, k' <> k -> (holds_kv t' k' q <-> holds_kv t k' q)).
  Proof.
    intros I C Hi Ho Hs t'.
    assert (Hst : forall j, status (tget (slots t') j) = status (tget (slots t) j)).
    { intro j. unfold t'; cbn [set_slot slots]. destruct (N.eq_dec j i) as [->|Hne]; [rewrite tget_set_same; reflexivity|rewrite tget_set_other by auto; reflexivity]. }
    assert (Hocc : forall j, is_occ (tget (slots t') j) = is_occ (tget (slots t) j)) by (intro j; unfold is_occ; now rewrite Hst).
    assert (Hother : forall j, j <> i -> tget (slots t') j = tget (slots t) j) by (intros j Hne; unfold t'; cbn [set_slot slots]; now rewrite tget_set_other by auto).
    assert (Hat : sval (tget (slots t') i) = Some (k, p)) by (unfold t'; cbn [set_slot slots]; now rewrite tget_set_same).
    assert (Hkey : forall j k' q, sval (tget (slots t') j) = Some (k', q) -> exists q', sval (tget (slots t) j) = Some (k', q')).
    { intros j k' q H. destruct (N.eq_dec j i) as [->|Hne]; [rewrite Hat in H; injection H as <- <-; eauto|rewrite Hother in H by auto; eauto]. }
    destruct (r_init _ I i Hi Ho) as (k0 & p00 & Hs0 & Hst0). rewrite Hs in Hs0. injection Hs0 as <- <-.
    splits.
    - constructor; change (rcap t') with (rcap t); change (rlen t') with (rlen t).
      + apply (r_pow _ I).
      + apply (r_small _ I).
      + intros j Hj Hoj. rewrite Hocc in Hoj. destruct (N.eq_dec j i) as [->|Hne].
        * exists k, p. split; [exact Hat|]. rewrite Hst. exact Hst0.
        * rewrite Hother by auto. apply (r_init _ I); auto.
      + intro Hn. destruct (r_free1 _ I Hn) as (j & Hj & Hf). exists j. split; [exact Hj|]. now rewrite Hst.
      + intros j Hj Hoj. rewrite Hocc in Hoj. destruct (r_probe _ I j Hj Hoj) as (d & Hd & Hatd & Hbefore).
        rewrite Hst. exists d. splits; auto. intros d' Hd'. unfold at_, home in *. change (rcap t') with (rcap t). rewrite Hst. apply Hbefore. exact Hd'.
      + intros a b k' q q' Ha Hb Hoa Hob Hsa Hsb. rewrite Hocc in Hoa, Hob.
        destruct (Hkey _ _ _ Hsa) as (qa & Hqa). destruct (Hkey _ _ _ Hsb) as (qb & Hqb).
        eapply (r_uniq _ I); eauto.
    - constructor; change (rcap t') with (rcap t); change (rlen t') with (rlen t); change (rfree t') with (rfree t).
      + rewrite (cntS_ext isocc t t' Hst). apply (rc_len _ C).
      + rewrite (cntS_ext isfree t t' Hst). apply (rc_free _ C).
    - exists i. splits; auto. now rewrite Hocc.
    - intros k' q Hne. split; intros (j & Hj & Hoj & Hsj); exists j; (destruct (N.eq_dec j i) as [->|Hnj]).
      + rewrite Hat in Hsj. congruence.
      + rewrite Hocc in Hoj. rewrite Hother in Hsj by auto. splits; auto.
      + rewrite Hs in Hsj. congruence.
      + rewrite Hocc, Hother by auto. splits; auto.
  Qed.

  Theorem insert_top_ok t k p : WF t -> small t ->
    exists t' r, insert t k p = ROk (t', r) /\ WF t' /\ RInv t' /\ holds_kv t' k p /\
      (forall k' q, k' <> k -> (holds_kv t' k' q <-> holds_kv t k' q)) /\
      match r with
      | inl _ => (exists q, holds_kv t k q) /\ rlen t' = rlen t
      | inr _ => (forall q, ~ holds_kv t k q) /\ rlen t' = rlen t + 1
      end.
  Proof.
    intros W Hs. destruct (reserve_ok t W Hs) as (t1 & Hr & I1 & C1 & Hf2 & Hlen1 & Hsame).
    unfold insert, find_or_free. rewrite Hr. cbn [obind].
    assert (Hex : exists i, i < rcap t1 /\ status (tget (slots t1) i) = FREE).
    { destruct (cntS_exists isfree t1 (N.to_nat (rcap t1))) as (i & Hi & Hf); [pose proof (rc_free _ C1); lia|].
      exists i. split; [lia|]. unfold isfree in Hf. now apply N.eqb_eq. }
    rewrite (land_home t1 k I1).
    pose proof (probe_free_ok t1 k I1 Hex (N.to_nat (rcap t1)) 0 None) as Hp. cbv zeta in Hp.
    assert (Hp' := Hp ltac:(lia) ltac:(lia) (fun d' (H : d' < 0) => ltac:(lia)) (fun x (H : None = Some x) => ltac:(discriminate))).
    clear Hp. destruct (probe_free _ _ _ _ _) as [[i|e]| | |]; try contradiction; cbn [obind].
    - destruct Hp' as (Hi & Ho & p0 & Hsv). rewrite Ho.
      destruct (overwrite_ok t1 i k p0 p I1 C1 Hi Ho Hsv) as (I' & C' & Hh & Hoth).
      eexists; eexists; split; [reflexivity|]. splits; auto.
      + right. splits; auto. intros _. cbn [set_slot rfree]. lia.
      + intros k' q Hne. rewrite (Hoth k' q Hne). apply Hsame.
      + exists p0. apply Hsame. exists i. splits; auto.
    - destruct Hp' as (Habs & He & Hno & Hpath).
      destruct (insert_ok t1 k p e I1 C1 Hf2 Habs He Hno Hpath) as (t2 & Hins & I2 & C2 & Hf1 & Hlen2 & Hnew & Hother).
      assert (Hcap : rcap t2 = rcap t1) by (unfold insert_in_slot in Hins; rewrite Hno in Hins; injection Hins as <-; reflexivity).
      rewrite Hins. cbn [obind]. exists t2, (inr e). split; [reflexivity|].
      assert (Hoe : is_occ (tget (slots t2) e) = true) by (rewrite Hnew; apply is_occ_iff; apply land_le).
      splits; auto.
      + right. splits; auto.
      + exists e. rewrite Hcap. splits; auto. now rewrite Hnew.
      + intros k' q Hne. rewrite <- (Hsame k' q). split; intros (j & Hj & Hoj & Hsj); exists j; (destruct (N.eq_dec j e) as [->|Hnj]).
        * rewrite Hnew in Hsj. cbn in Hsj. congruence.
        * rewrite Hother in Hoj, Hsj by auto. rewrite Hcap in Hj. splits; auto.
        * congruence.
        * rewrite Hother by auto. rewrite Hcap. splits; auto.
      + intros q Hq. apply Hsame in Hq. destruct Hq as (j & Hj & Hoj & Hsj). exact (Habs j q Hj Hoj Hsj).
      + lia.
  Qed.

  Theorem remove_top_ok t k : WF t ->
    exists t' o, remove t k = ROk (t', o) /\ WF t' /\
      (forall q, ~ holds_kv t' k q) /\ (forall k' q, k' <> k -> (holds_kv t' k' q <-> holds_kv t k' q)) /\
      match o with
      | Some (k0, p) => k0 = k /\ holds_kv t k p /\ rlen t' + 1 = rlen t
      | None => (forall q, ~ holds_kv t k q) /\ t' = t
      end.
  Proof.
    intro W. pose proof (find_ok t k W) as Hf. unfold remove.
    destruct (find t k) as [[i|]| | |]; try contradiction; cbn [obind].
    - destruct Hf as (Hi & Ho & p & Hsv).
      destruct W as [(Hc & _)|(I & C & Hfr)]; [lia|].
      destruct (remove_ok t i I C Hi Ho) as (t' & kv & Hrem & Hsv' & I' & C' & Hlen & Hother & Hnocc).
      assert (Hfree : rfree t <= rfree t' /\ rcap t' = rcap t).
      { clear -Hrem Ho Hsv. unfold remove_at_slot in Hrem. destruct (rlen t =? 0); [discriminate|]. rewrite Ho in Hrem. cbn [negb] in Hrem.
        rewrite Hsv in Hrem. injection Hrem as <- _. cbn [set_slot rfree rcap]. destruct (_ =? FREE); split; auto; lia. }
      destruct Hfree as [Hfree Hcap].
      rewrite Hrem. cbn [obind fst snd]. rewrite Hsv in Hsv'. injection Hsv' as <-.
      exists t', (Some (k, p)). split; [reflexivity|]. splits; auto.
      + right. splits; auto. intros Hn. assert (rlen t <> 0) by lia. specialize (Hfr H). lia.
      + intros q (j & Hj & Hoj & Hsj). destruct (N.eq_dec j i) as [->|Hnj]; [congruence|].
        rewrite Hother in Hoj, Hsj by auto. rewrite Hcap in Hj. apply Hnj. eapply (r_uniq _ I); eauto.
      + intros k' q Hne. split; intros (j & Hj & Hoj & Hsj); exists j; (destruct (N.eq_dec j i) as [->|Hnj]).
        * congruence.
        * rewrite Hother in Hoj, Hsj by auto. rewrite Hcap in Hj. splits; auto.
        * congruence.
        * rewrite Hother by auto. rewrite Hcap. splits; auto.
      + exists i. splits; auto.
    - exists t, None. splits; auto.
      intros k' q _. reflexivity.
  Qed.

  Theorem get_ok t k : WF t ->
    match get t k with
    | ROk (Some (k0, p)) => k0 = k /\ holds_kv t k p
    | ROk None => forall p, ~ holds_kv t k p
    | _ => False
    end.
  Proof.
    intro W. pose proof (find_ok t k W) as Hf. unfold get.
    destruct (find t k) as [[i|]| | |]; try contradiction; cbn [obind]; [|exact Hf].
    destruct Hf as (Hi & Ho & p & Hsv). rewrite Ho, Hsv. split; [reflexivity|]. exists i. splits; auto.
  Qed.

  Lemma cntS_zero P' t n : (forall j, j < N.of_nat n -> P' (status (tget (slots t) j)) = false) -> cntS P' t n = 0.
  Proof. induction n as [|n IH]; intro H; cbn [cntS]; [reflexivity|]. rewrite IH by (intros j Hj; apply H; lia). rewrite H by lia. reflexivity. Qed.
  Lemma cntS_mono P' t t' n : (forall j, P' (status (tget (slots t) j)) = true -> P' (status (tget (slots t') j)) = true) -> cntS P' t n <= cntS P' t' n.
  Proof.
    intro H. induction n as [|n IH]; cbn [cntS]; [lia|].
    destruct (P' (status (tget (slots t) (N.of_nat n)))) eqn:E; [rewrite (H _ E); lia|destruct (P' _); lia].
  Qed.

  Theorem clear_top_ok t : WF t -> exists t', clear t = ROk t' /\ WF t' /\ forall k p, ~ holds_kv t' k p.
  Proof.
    intros W. unfold clear. destruct (N.eqb_spec (rlen t) 0) as [H0|Hn0].
    - exists t. splits; auto. intros k p (i & Hi & Ho & _).
      destruct W as [(Hc & _)|(I & C & _)]; [lia|]. rewrite (no_occ_of_len0 t C H0 i Hi) in Ho. discriminate.
    - destruct W as [(_ & Hl & _)|(I & C & Hfr)]; [contradiction|].
      destruct (clear_from_ok (N.to_nat (rcap t)) t 0) as (t' & Hcl & Hlen & Hcap & Hfree & Hnone & Hkeep); auto; try lia.
      + rewrite <- cntS_cnt_from. apply (rc_len _ C).
      + exists t'. splits; auto.
        * right. splits.
          -- constructor; rewrite ?Hcap.
             ++ apply (r_pow _ I).
             ++ apply (r_small _ I).
             ++ intros j Hj Ho. rewrite Hnone in Ho by exact Hj. discriminate.
             ++ intro H; contradiction.
             ++ intros j Hj Ho. rewrite Hnone in Ho by exact Hj. discriminate.
             ++ intros a b k p q Ha Hb Ho. rewrite Hnone in Ho by exact Ha. discriminate.
          -- constructor; rewrite Hcap.
             ++ rewrite Hlen. symmetry. apply cntS_zero. intros j Hj. apply Hnone. lia.
             ++ rewrite Hfree. pose proof (rc_free _ C). pose proof (cntS_mono isfree t t' (N.to_nat (rcap t))) as Hm.
                assert (cntS isfree t (N.to_nat (rcap t)) <= cntS isfree t' (N.to_nat (rcap t))); [|lia].
                apply Hm. intros j Hj. unfold isfree in *. apply N.eqb_eq in Hj. apply N.eqb_eq. apply Hkeep. exact Hj.
          -- intro H; contradiction.
        * intros k p (i & Hi & Ho & _). rewrite Hcap in Hi. rewrite Hnone in Ho by exact Hi. discriminate.
  Qed.

  (* ================= every history refines a functional map ================= *)
  Definition Refines (t : raw) (m : K -> option P) := forall k p, holds_kv t k p <-> m k = Some p.
  Inductive rop := RIns (k : K) (p : P) | RRem (k : K) | RGet (k : K) | RClear.
  Inductive robs := OIns (existed : bool) | ORem (o : option P) | OGet (o : option P) | OClear.
  Definition isSome {A} (o : option A) := match o with Some _ => true | None => false end.
  Definition mstep (m : K -> option P) (o : rop) : (K -> option P) * robs :=
    match o with
    | RIns k p => (fun k' => if keqb k k' then Some p else m k', OIns (isSome (m k)))
    | RRem k => (fun k' => if keqb k k' then None else m k', ORem (m k))
    | RGet k => (m, OGet (m k))
    | RClear => (fun _ => None, OClear)
    end.
  Definition rstep (t : raw) (o : rop) : out (raw * robs) :=
    match o with
    | RIns k p => obind (insert t k p) (fun x => ROk (fst x, OIns (match snd x with inl _ => true | inr _ => false end)))
    | RRem k => obind (remove t k) (fun x => ROk (fst x, ORem (match snd x with Some kv => Some (snd kv) | None => None end)))
    | RGet k => obind (get t k) (fun x => ROk (t, OGet (match x with Some kv => Some (snd kv) | None => None end)))
    | RClear => obind (clear t) (fun t' => ROk (t', OClear))
    end.
  Fixpoint rrun (t : raw) (l : list rop) : out (raw * list robs) :=
    match l with
    | [] => ROk (t, [])
    | o :: l' => obind (rstep t o) (fun x => obind (rrun (fst x) l') (fun y => ROk (fst y, snd x :: snd y)))
    end.
  Fixpoint mrun (m : K -> option P) (l : list rop) : (K -> option P) * list robs :=
    match l with
    | [] => (m, [])
    | o :: l' => let (m1, ob) := mstep m o in let (m2, obs) := mrun m1 l' in (m2, ob :: obs)
    end.

  Lemma rstep_ok t m o : WF t -> small t -> Refines t m ->
    exists t', rstep t o = ROk (t', snd (mstep m o)) /\ WF t' /\ Refines t' (fst (mstep m o)) /\ rlen t' <= rlen t + 1.
  Proof.
    intros W Hs R. destruct o as [k p|k|k|]; cbn [rstep mstep fst snd].
    - destruct (insert_top_ok t k p W Hs) as (t' & r & Hins & W' & I' & Hh & Hoth & Hr).
      rewrite Hins. cbn [obind fst snd]. exists t'. splits; auto.
      + f_equal. f_equal. f_equal. destruct r as [i|e].
        * destruct Hr as [(q & Hq) _]. apply R in Hq. now rewrite Hq.
        * destruct Hr as [Hno _]. destruct (m k) as [q|] eqn:Hm; [|reflexivity]. exfalso. apply (Hno q). now apply R.
      + intros k' q. destruct (keqb_spec k k') as [<-|Hne].
        * split; [intro Hq; f_equal; eapply holds_kv_fun; eauto|intro Hq; injection Hq as <-; exact Hh].
        * rewrite (Hoth k' q) by congruence. apply R.
      + destruct r; destruct Hr as [_ Hl]; lia.
    - destruct (remove_top_ok t k W) as (t' & o & Hrem & W' & Hgone & Hoth & Ho).
      rewrite Hrem. cbn [obind fst snd]. exists t'. splits; auto.
      + f_equal. f_equal. f_equal. destruct o as [[k0 p]|].
        * destruct Ho as (_ & Hq & _). apply R in Hq. now rewrite Hq.
        * destruct Ho as [Hno _]. destruct (m k) as [q|] eqn:Hm; [|reflexivity]. exfalso. apply (Hno q). now apply R.
      + intros k' q. destruct (keqb_spec k k') as [<-|Hne].
        * split; [intro Hq; exfalso; exact (Hgone q Hq)|discriminate].
        * rewrite (Hoth k' q) by congruence. apply R.
      + destruct o as [[k0 p]|]; [destruct Ho as (_ & _ & Hl); lia|destruct Ho as [_ ->]; lia].
    - pose proof (get_ok t k W) as Hg. destruct (get t k) as [[[k0 p]|]| | |]; try contradiction; cbn [obind fst snd].
      + destruct Hg as [-> Hq]. apply R in Hq. exists t. rewrite Hq. splits; auto. lia.
      + exists t. splits; auto; [|lia]. f_equal. f_equal. f_equal. destruct (m k) as [q|] eqn:Hm; [|reflexivity]. exfalso. apply (Hg q). now apply R.
    - destruct (clear_top_ok t W) as (t' & Hcl & W' & Hnone). rewrite Hcl. cbn [obind]. exists t'. splits; auto.
      + intros k p. split; [intro H; exfalso; exact (Hnone k p H)|discriminate].
      + destruct W' as [(_ & -> & _)|(_ & C' & _)]; [lia|].
        unfold clear in Hcl. destruct (N.eqb_spec (rlen t) 0) as [E|E]; [injection Hcl as <-; lia|].
        destruct W as [(_ & Hl & _)|(I & C & _)]; [contradiction|].
        destruct (clear_from_ok (N.to_nat (rcap t)) t 0) as (t'' & Hcl' & Hlen & _); auto; try lia.
        * rewrite <- cntS_cnt_from. apply (rc_len _ C).
        * rewrite Hcl in Hcl'. injection Hcl' as <-. lia.
  Qed.

  Theorem raw_history l : forall t m, WF t -> Refines t m -> rlen t + N.of_nat (length l) + 2 <= 2 ^ 62 ->
    exists t', rrun t l = ROk (t', snd (mrun m l)) /\ WF t' /\ Refines t' (fst (mrun m l)).
  Proof.
    induction l as [|o l IH]; intros t m W R Hb.
    - exists t. cbn. auto.
    - cbn [rrun mrun]. destruct (rstep_ok t m o W) as (t1 & Hst & W1 & R1 & Hl1); [unfold small; cbn [length] in Hb; lia|exact R|].
      rewrite Hst. cbn [obind fst snd]. destruct (mstep m o) as [m1 ob] eqn:Hm. cbn [fst snd] in *.
      destruct (IH t1 m1 W1 R1) as (t' & Hrun & W' & R'); [cbn [length] in Hb; lia|].
      rewrite Hrun. cbn [obind fst snd]. destruct (mrun m1 l) as [m2 obs]. cbn [fst snd] in *. exists t'. auto.
  Qed.

  Corollary raw_history_new l : N.of_nat (length l) + 2 <= 2 ^ 62 ->
    exists t', rrun new_raw l = ROk (t', snd (mrun (fun _ => None) l)) /\ WF t' /\ Refines t' (fst (mrun (fun _ => None) l)).
  Proof.
    intro Hb. apply raw_history; [apply WF_new| |cbn [new_raw rlen]; lia].
    intros k p. split; [intros (i & Hi & _); cbn in Hi; lia|discriminate].
  Qed.

  (* ================= histories that also call reserve(n) and iterate ================= *)
  Lemma rehash_loop_none old nw : forall n, cntS isocc old n = 0 -> rehash_loop n old nw = ROk nw.
  Proof.
    induction n as [|n IH]; intro H0; [reflexivity|]. cbn [cntS] in H0. cbn [rehash_loop].
    destruct (isocc (status (tget (slots old) (N.of_nat n)))) eqn:E; [lia|]. rewrite IH by lia.
    unfold rehash_one. change (is_occ (tget (slots old) (N.of_nat n))) with (isocc (status (tget (slots old) (N.of_nat n)))). now rewrite E.
  Qed.
  Lemma no_occ_no_kv t : RInv t -> RCnt t -> rlen t = 0 -> forall k p, ~ holds_kv t k p.
  Proof.
    intros I C H0 k p (i & Hi & Ho & _). rewrite (rc_len _ C) in H0.
    assert (H : forall n, cntS isocc t n = 0 -> forall j, j < N.of_nat n -> isocc (status (tget (slots t) j)) = false).
    { induction n as [|n IH]; intros Hc j Hj; [lia|]. cbn [cntS] in Hc.
      destruct (isocc (status (tget (slots t) (N.of_nat n)))) eqn:E; [lia|].
      destruct (N.eq_dec j (N.of_nat n)) as [->|Hne]; [exact E|apply IH; lia]. }
    specialize (H _ H0 i). rewrite N2Nat.id in H. specialize (H Hi). unfold is_occ in Ho. unfold isocc in H. congruence.
  Qed.
  (* reserve(add) for ANY add: succeeds, keeps the contents and the length, leaves at least `add` free slots *)
  Lemma reserve_any_ok t add : WF t -> rlen t + add <= 2 ^ 62 ->
    exists t1, reserve t add = ROk t1 /\ WF t1 /\ rlen t1 = rlen t /\ add <= rfree t1 /\
      (forall k p, holds_kv t1 k p <-> holds_kv t k p).
  Proof.
    intros W Hs. unfold reserve. destruct (N.ltb_spec (rfree t) add) as [Hlt|Hge].
    2:{ exists t. splits; auto. reflexivity. }
    unfold reserve_rehash. set (c := npot (rlen t + add)).
    destruct (N.le_gt_cases 2 add) as [H2|H1].
    - destruct (npot_spec (rlen t + add)) as (Hpow & Hsm & Hroom); [lia|exact Hs|]. fold c in Hpow, Hsm, Hroom.
      destruct W as [(Hc & Hl & Hf)|(I & C & Hfr)].
      + rewrite Hc. cbn [N.to_nat rehash_loop]. destruct (fresh_ok c Hpow Hsm) as [If Cf].
        exists (fresh c). splits; auto.
        * right. splits; auto. cbn [fresh rlen]. intro; contradiction.
        * cbn [fresh rfree]. lia.
        * intros k p. split; intros (i & Hi & Ho & _); [cbn [fresh slots] in Ho; rewrite tget_const in Ho; discriminate|lia].
      + assert (Hroom2 : rlen t + 2 <= c) by lia.
        destruct (rehash_loop_ok t c I C Hpow Hsm Hroom2 (N.to_nat (rcap t))) as (nw & Hl & In & Cn & Hc & Hlen & Hfree & Hcont); [lia|].
        rewrite <- (rc_len _ C) in Hlen. exists nw. splits; auto; try lia.
        * right. splits; auto. intros _. lia.
        * intros k p. rewrite Hcont. rewrite N2Nat.id. split; [intros (i & _ & H); exists i; exact H|intros (i & Hi & Ho & Hsv); exists i; splits; auto].
    - (* add = 1 with no free slot: only possible for an empty table; the new table has one slot *)
      assert (add = 1) by lia. subst add. assert (Hf0 : rfree t = 0) by lia.
      assert (Hl0 : rlen t = 0).
      { destruct W as [(_ & Hl & _)|(_ & _ & Hfr)]; [exact Hl|]. destruct (N.eq_dec (rlen t) 0); [assumption|]. specialize (Hfr n). lia. }
      assert (Hc1 : c = 1) by (unfold c, npot; rewrite Hl0; reflexivity).
      assert (Hpow : exists m, c = 2 ^ m) by (exists 0; rewrite Hc1; reflexivity).
      assert (Hsm : c <= M63) by (rewrite Hc1; unfold M63; lia).
      destruct (fresh_ok c Hpow Hsm) as [If Cf].
      assert (Hrun : rehash_loop (N.to_nat (rcap t)) t (fresh c) = ROk (fresh c)).
      { apply rehash_loop_none. destruct W as [(Hc & _ & _)|(_ & C & _)]; [rewrite Hc; reflexivity|]. rewrite <- (rc_len _ C). exact Hl0. }
      exists (fresh c). splits; auto.
      + right. splits; auto. cbn [fresh rlen]. intro; contradiction.
      + cbn [fresh rfree]. lia.
      + intros k p. split; [intros (i & Hi & Ho & _); cbn [fresh slots] in Ho; rewrite tget_const in Ho; discriminate|].
        intro Hk. exfalso. destruct W as [(Hc & _ & _)|(I & C & _)]; [destruct Hk as (i & Hi & _); lia|]. exact (no_occ_no_kv t I C Hl0 k p Hk).
  Qed.

  Inductive xop := XOp (o : rop) | XReserve (add : N) | XIter.
  Inductive xobs := XO (o : robs) | XRes | XIt (l : list (K * P)).
  Definition iter (t : raw) : list (K * P) := occ_vals t (N.to_nat (rcap t)).
  Definition xstep (t : raw) (o : xop) : out (raw * xobs) :=
    match o with
    | XOp o => obind (rstep t o) (fun x => ROk (fst x, XO (snd x)))
    | XReserve add => obind (reserve t add) (fun t' => ROk (t', XRes))
    | XIter => ROk (t, XIt (iter t))
    end.
  Fixpoint xrun (t : raw) (l : list xop) : out (raw * list xobs) :=
    match l with
    | [] => ROk (t, [])
    | o :: l' => obind (xstep t o) (fun x => obind (xrun (fst x) l') (fun y => ROk (fst y, snd x :: snd y)))
    end.
  (* the specification: a map from keys to values; iteration may list the pairs in any order *)
  Definition xnext (m : K -> option P) (o : xop) : K -> option P := match o with XOp o => fst (mstep m o) | _ => m end.
  Definition xobs_ok (m : K -> option P) (o : xop) (ob : xobs) : Prop :=
    match o, ob with
    | XOp o, XO ob => ob = snd (mstep m o)
    | XReserve _, XRes => True
    | XIter, XIt l => NoDup (map fst l) /\ (forall k p, In (k, p) l <-> m k = Some p)
    | _, _ => False
    end.
  Fixpoint xspec (m : K -> option P) (l : list xop) (obs : list xobs) : Prop :=
    match l, obs with
    | [], [] => True
    | o :: l', ob :: obs' => xobs_ok m o ob /\ xspec (xnext m o) l' obs'
    | _, _ => False
    end.
  Definition xfinal (m : K -> option P) (l : list xop) : K -> option P := fold_left xnext l m.
  Definition res_small (o : xop) : Prop := match o with XReserve a => a <= 2 ^ 61 | _ => True end.

  Lemma iter_spec t m : WF t -> Refines t m ->
    NoDup (map fst (iter t)) /\ (forall k p, In (k, p) (iter t) <-> m k = Some p) /\ N.of_nat (length (iter t)) = rlen t.
  Proof.
    intros W R. unfold iter. destruct W as [(Hc & Hl & _)|(I & C & _)].
    - rewrite Hc. cbn [N.to_nat occ_vals map length]. splits; [constructor| |lia].
      intros k p. split; [intros []|]. intro Hm. apply R in Hm. destruct Hm as (i & Hi & _). lia.
    - destruct (iter_exactly_once t I) as [Hin Hnd]. splits; [exact Hnd| |exact (iter_len t I C)].
      intros k p. rewrite Hin. apply R.
  Qed.

  Lemma xstep_ok t m o : WF t -> rlen t + 2 <= 2 ^ 61 -> res_small o -> Refines t m ->
    exists t' ob, xstep t o = ROk (t', ob) /\ xobs_ok m o ob /\ WF t' /\ Refines t' (xnext m o) /\ rlen t' <= rlen t + 1.
  Proof.
    intros W Hs Hr R. destruct o as [o|add|]; cbn [xstep xobs_ok xnext].
    - destruct (rstep_ok t m o W) as (t' & Hst & W' & R' & Hl); [unfold small; lia|exact R|].
      rewrite Hst. cbn [obind fst snd]. exists t', (XO (snd (mstep m o))). splits; auto.
    - cbn [res_small] in Hr. destruct (reserve_any_ok t add W) as (t1 & Hrs & W1 & Hl1 & _ & Hkv); [lia|].
      rewrite Hrs. cbn [obind]. exists t1, XRes. splits; auto; [|lia].
      intros k p. rewrite Hkv. apply R.
    - exists t, (XIt (iter t)). destruct (iter_spec t m W R) as (A & B & _). splits; auto. lia.
  Qed.

  (* C19 over insert / remove / get / clear / reserve(n) / iterate histories *)
  Theorem raw_history_x l : forall t m, WF t -> Refines t m -> rlen t + N.of_nat (length l) + 2 <= 2 ^ 61 -> Forall res_small l ->
    exists t' obs, xrun t l = ROk (t', obs) /\ xspec m l obs /\ WF t' /\ Refines t' (xfinal m l).
  Proof.
    induction l as [|o l IH]; intros t m W R Hb Hf.
    - exists t, []. cbn. auto.
    - cbn [xrun xspec xfinal fold_left]. inversion Hf as [|? ? Ho Hf']; subst.
      destruct (xstep_ok t m o W) as (t1 & ob & Hst & Hob & W1 & R1 & Hl1); [cbn [length] in Hb; lia|exact Ho|exact R|].
      rewrite Hst. cbn [obind fst snd].
      destruct (IH t1 (xnext m o) W1 R1) as (t' & obs & Hrun & Hsp & W' & R'); [cbn [length] in Hb; lia|exact Hf'|].
      rewrite Hrun. cbn [obind fst snd]. exists t', (ob :: obs). splits; auto.
  Qed.
  Corollary raw_history_x_new l : N.of_nat (length l) + 2 <= 2 ^ 61 -> Forall res_small l ->
    exists t' obs, xrun new_raw l = ROk (t', obs) /\ xspec (fun _ => None) l obs /\ WF t' /\ Refines t' (xfinal (fun _ => None) l).
  Proof.
    intros Hb Hf. apply raw_history_x; [apply WF_new| |cbn [new_raw rlen]; lia|exact Hf].
    intros k p. split; [intros (i & Hi & _); cbn in Hi; lia|discriminate].
  Qed.
End R.
Print Assumptions raw_history_new.
Print Assumptions raw_history_x_new.
