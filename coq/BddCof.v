From Coq Require Import NArith Bool Lia List.
Require Import Canon SemTk BddBase BddIte BddSat.
Import ListNotations.
Local Open Scope N_scope.

Section Cof.
  Context {SO : StoreOps} {OK : StoreOK}.

  Definition low_node (s : st) (r : ref) : ref :=
    match cell s (idx r) with Some n => if neg r then rneg (lo n) else lo n | None => r end.
  Definition high_node (s : st) (r : ref) : ref :=
    match cell s (idx r) with Some n => if neg r then rneg (hi n) else hi n | None => r end.

  Lemma lh_ok s r v ln tl th : Inv s -> V s r (Nd v ln tl th) ->
    V s (low_node s r) tl /\ V s (high_node s r) th /\ above v tl /\ above v th /\ 0 < v /\ top s r = v /\
    (forall e, rsem r (Nd v ln tl th) e = if e v then rsem (high_node s r) th e else rsem (low_node s r) tl e).
  Proof.
    intros HT HV. destruct (top_nd _ _ _ _ _ _ HV) as [Ht Hi].
    destruct (top_cofactors s r v) as [r0 r1] eqn:Tc.
    assert (Hle : v <= top s r) by (rewrite Ht; lia).
    destruct (tc_ok s r v _ HT HV (or_intror Hle) _ _ Tc) as (t0 & t1 & V0 & V1 & A0 & A1 & Sr & _).
    assert (E : (r0, r1) = (low_node s r, high_node s r)).
    { rewrite <- Tc. unfold top_cofactors, low_node, high_node. rewrite term_idx.
      destruct (N.eqb_spec (idx r) 1); [contradiction|].
      unfold top in Ht. destruct (cell s (idx r)) as [nd|] eqn:Hc; [|destruct HV as (HR & _); apply Rep_nd_inv in HR; destruct HR as (_ & ? & ? & Hc' & _); congruence].
      cbn in Ht. subst v. rewrite N.ltb_irrefl. now destruct (neg r). }
    injection E as -> ->.
    (* identify the trees *)
    destruct HV as (HR & HO & (Hv0 & Zl & Zh) & HD). pose proof HR as HR'. apply Rep_nd_inv in HR'.
    destruct HR' as (_ & l & h & Hc & Hreg & -> & Rl & Rh).
    assert (t0 = tl /\ t1 = th) as [-> ->].
    { destruct V0 as (R0 & _), V1 as (R1 & _). unfold low_node, high_node in R0, R1. rewrite Hc in R0, R1.
      split; [eapply Rep_fun; [exact R0|]|eapply Rep_fun; [exact R1|]]; destruct (neg r); assumption. }
    splits; auto.
  Qed.

  (* ================= substitute (f with v := b) ================= *)
  Context {MS : Memo ref ref}.
  Fixpoint subst (fuel : nat) (s : st) (m : memo) (f : ref) (v : N) (b : bool) : option (st * memo * ref) :=
    match fuel with O => None | S fuel =>
    if is_term f then Some (s, m, f) else
    let i := top s f in
    if v <? i then Some (s, m, f) else
    if v =? i then Some (s, m, if b then high_node s f else low_node s f) else
    match mget m f with
    | Some r => Some (s, m, r)
    | None =>
      match subst fuel s m (low_node s f) v b with None => None | Some (s1, m1, l') =>
      match subst fuel s1 m1 (high_node s1 f) v b with None => None | Some (s2, m2, h') =>
      match mk_node s2 i l' h' with None => None | Some (s3, r) => Some (s3, mput m2 f r, r) end end end
    end
    end.

  Definition SEntry (s : st) (v : N) (b : bool) (k r : ref) : Prop :=
    exists tk tr, V s k tk /\ V s r tr /\ (forall e, rsem r tr e = rsem k tk (upd e v b)) /\
      (forall lb, above lb tk -> above lb tr) /\ (forall vs, tvars_in vs tk -> tvars_in vs tr).
  Definition SMInv (s : st) (v : N) (b : bool) (m : memo) : Prop := forall k r, mget m k = Some r -> SEntry s v b k r.
  Lemma SEntry_ext s s' v b k r : sext s s' -> SEntry s v b k r -> SEntry s' v b k r.
  Proof. intros E (tk & tr & ? & ? & ? & ? & ?). exists tk, tr. splits; eauto using V_ext. Qed.
  Lemma SMInv_ext s s' v b m : sext s s' -> SMInv s v b m -> SMInv s' v b m.
  Proof. intros E H k r Hk. eapply SEntry_ext; eauto. Qed.

  Definition SPost (s s' : st) (v : N) (b : bool) (m' : memo) (f r : ref) (tf : tree) : Prop :=
    Inv s' /\ sext s s' /\ (forall k, cget s' k = cget s k) /\ SMInv s' v b m' /\
    exists tr, V s' r tr /\ (forall e, rsem r tr e = rsem f tf (upd e v b)) /\
      (forall lb, above lb tf -> above lb tr) /\ (forall vs, tvars_in vs tf -> tvars_in vs tr).

  Lemma subst_ok v b : forall fuel s m f s' m' r tf,
    Inv s -> SMInv s v b m -> V s f tf -> subst fuel s m f v b = Some (s', m', r) -> SPost s s' v b m' f r tf.
  Proof.
    induction fuel as [|fuel IH]; intros s m f s' m' r tf HT HM Vf H; [discriminate|]. cbn [subst] in H.
    destruct (is_term f) eqn:C1.
    { injection H as <- <- <-. assert (Ef : idx f = 1) by (unfold is_term in C1; rewrite term_idx in C1; now apply N.eqb_eq).
      pose proof (V_term _ _ _ Ef Vf) as ->. unfold SPost. splits; auto using sext_refl. exists Leaf. splits; auto. }
    assert (Hfnt : idx f <> 1) by (rewrite <- N.eqb_neq, <- term_idx; exact C1).
    destruct tf as [|vi ln tl th]; [destruct (top_leaf _ _ HT Vf); contradiction|].
    destruct (lh_ok _ _ _ _ _ _ HT Vf) as (Vl & Vh & Al & Ah & Hv0 & Ht & Sf). rewrite Ht in H.
    destruct (N.ltb_spec v vi) as [Hlt|Hge].
    { injection H as <- <- <-. unfold SPost. splits; auto using sext_refl. exists (Nd vi ln tl th). splits; auto.
      intro e. unfold rsem. f_equal. symmetry. apply tsem_indep. apply ordered_root_above; [apply Vf|exact Hlt]. }
    destruct (N.eqb_spec v vi) as [->|Hne].
    { injection H as <- <- <-. unfold SPost. splits; auto using sext_refl.
      destruct b.
      - exists th. splits; auto.
        + intro e. rewrite Sf, upd_eq. symmetry. eapply rsem_indep; eauto; lia.
        + intros lb (? & ? & ?); assumption.
        + intros vs (? & ? & ?); assumption.
      - exists tl. splits; auto.
        + intro e. rewrite Sf, upd_eq. symmetry. eapply rsem_indep; eauto; lia.
        + intros lb (? & ? & ?); assumption.
        + intros vs (? & ? & ?); assumption. }
    destruct (mget m f) as [rc|] eqn:Hm.
    { injection H as <- <- <-. destruct (HM _ _ Hm) as (tk & tr & Vk & Vr & Sr & Br & Wr).
      pose proof (V_fun _ _ _ _ Vk Vf) as ->. unfold SPost. splits; auto using sext_refl. exists tr. splits; auto. }
    destruct (subst fuel s m (low_node s f) v b) as [[[s1 m1] l']|] eqn:H1; [|discriminate].
    destruct (subst fuel s1 m1 (high_node s1 f) v b) as [[[s2 m2] h']|] eqn:H2; [|discriminate].
    destruct (mk_node s2 vi l' h') as [[s3 r3]|] eqn:Hmk; [|discriminate]. injection H as <- <- <-.
    destruct (IH _ _ _ _ _ _ _ HT HM Vl H1) as (HT1 & E1 & K1 & HM1 & t_lo & V_lo & S_lo & B_lo & W_lo).
    assert (Eh : high_node s1 f = high_node s f).
    { unfold high_node. destruct Vf as (HR & _). apply Rep_nd_inv in HR. destruct HR as (_ & l & h & Hc & _).
      rewrite Hc, (E1 _ _ Hc). reflexivity. }
    rewrite Eh in H2.
    destruct (IH _ _ _ _ _ _ _ HT1 HM1 (V_ext _ _ _ _ E1 Vh) H2) as (HT2 & E2 & K2 & HM2 & t_hi & V_hi & S_hi & B_hi & W_hi).
    destruct (mk_node_ok _ _ _ _ _ _ _ _ HT2 Hmk Hv0 (V_ext _ _ _ _ E2 V_lo) V_hi (B_lo _ Al) (B_hi _ Ah))
      as (HT3 & E3 & K3 & tr & Vr & Sr & Br & Wr).
    assert (E03 : sext s s3) by eauto using sext_trans.
    assert (Hsem : forall e, rsem r3 tr e = rsem f (Nd vi ln tl th) (upd e v b)).
    { intro e. rewrite Sr, S_hi, S_lo, Sf. rewrite (upd_neq e v b vi) by congruence. reflexivity. }
    assert (Hbd : forall lb, above lb (Nd vi ln tl th) -> above lb tr) by (intros lb (? & ? & ?); apply Br; assumption).
    assert (Hwd : forall vs, tvars_in vs (Nd vi ln tl th) -> tvars_in vs tr) by (intros vs (? & ? & ?); apply Wr; auto).
    unfold SPost. splits; auto.
    - intro k. now rewrite K3, K2, K1.
    - intros k r Hk. apply mget_put in Hk. destruct Hk as [[-> ->]|Hk].
      + exists (Nd vi ln tl th), tr. splits; eauto using V_ext.
      + eapply SEntry_ext; [|apply HM2; exact Hk]. exact E3.
    - exists tr. splits; auto.
  Qed.

  Theorem substitute_ok fuel s f v b s' m' r tf : Inv s -> V s f tf ->
    subst fuel s mempty f v b = Some (s', m', r) ->
    Inv s' /\ sext s s' /\ exists tr, V s' r tr /\ (forall e, rsem r tr e = rsem f tf (upd e v b)) /\
      (forall vs, tvars_in vs tf -> tvars_in vs tr).
  Proof.
    intros HT Vf H. destruct (subst_ok v b fuel s mempty f s' m' r tf HT) as (HT' & E & _ & _ & tr & Vr & Sr & _ & Wr); auto.
    - intros k r0 Hk. rewrite mget_empty in Hk. discriminate.
    - splits; auto. exists tr. splits; auto.
  Qed.

  (* ================= compose (f with variable v replaced by g), C09 ================= *)
  Context {MC : Memo (ref * ref) ref}.
  Fixpoint compose (fuel : nat) (s : st) (m : @memo _ _ MC) (f : ref) (v : N) (g : ref) : option (st * @memo _ _ MC * ref) :=
    match fuel with O => None | S fuel =>
    if is_term f then Some (s, m, f) else
    let i := top s f in
    if v <? i then Some (s, m, f) else
    match mget m (f, g) with
    | Some r => Some (s, m, r)
    | None =>
      if v =? i then
        match cell s (idx f) with
        | None => None
        | Some n =>
          match ite fuel s g (hi n) (lo n) with
          | None => None
          | Some (s1, r) => let r' := if neg f then rneg r else r in Some (s1, mput m (f, g) r', r')
          end
        end
      else
        let mm := if is_term g then i else N.min i (top s g) in
        let '(f0, f1) := top_cofactors s f mm in
        let '(g0, g1) := top_cofactors s g mm in
        match compose fuel s m f0 v g0 with None => None | Some (s1, m1, h0) =>
        match compose fuel s1 m1 f1 v g1 with None => None | Some (s2, m2, h1) =>
        match mk_node s2 mm h0 h1 with None => None | Some (s3, r) => Some (s3, mput m2 (f, g) r, r) end end end
    end
    end.

  Definition KEntry (s : st) (v : N) (k : ref * ref) (r : ref) : Prop :=
    exists tf tg tr, V s (fst k) tf /\ V s (snd k) tg /\ V s r tr /\
      (forall e, rsem r tr e = rsem (fst k) tf (upd e v (rsem (snd k) tg e))) /\
      (forall lb, above lb tf -> above lb tg -> above lb tr) /\
      (forall vs, tvars_in vs tf -> tvars_in vs tg -> tvars_in vs tr).
  Definition KMInv (s : st) (v : N) (m : @memo _ _ MC) : Prop := forall k r, mget m k = Some r -> KEntry s v k r.
  Lemma KEntry_ext s s' v k r : sext s s' -> KEntry s v k r -> KEntry s' v k r.
  Proof. intros E (tf & tg & tr & ? & ? & ? & ? & ? & ?). exists tf, tg, tr. splits; eauto using V_ext. Qed.

  Definition KPost (s s' : st) (v : N) (m' : @memo _ _ MC) (f g r : ref) (tf tg : tree) : Prop :=
    Inv s' /\ CInv s' /\ sext s s' /\ KMInv s' v m' /\
    exists tr, V s' r tr /\ (forall e, rsem r tr e = rsem f tf (upd e v (rsem g tg e))) /\
      (forall lb, above lb tf -> above lb tg -> above lb tr) /\
      (forall vs, tvars_in vs tf -> tvars_in vs tg -> tvars_in vs tr).

  Lemma compose_ok v : forall fuel s m f g s' m' r tf tg,
    Inv s -> CInv s -> KMInv s v m -> V s f tf -> V s g tg ->
    compose fuel s m f v g = Some (s', m', r) -> KPost s s' v m' f g r tf tg.
  Proof.
    induction fuel as [|fuel IH]; intros s m f g s' m' r tf tg HT HC HM Vf Vg H; [discriminate|]. cbn [compose] in H.
    destruct (is_term f) eqn:C1.
    { injection H as <- <- <-. assert (Ef : idx f = 1) by (unfold is_term in C1; rewrite term_idx in C1; now apply N.eqb_eq).
      pose proof (V_term _ _ _ Ef Vf) as ->. unfold KPost. splits; auto using sext_refl. exists Leaf. splits; auto. }
    assert (Hfnt : idx f <> 1) by (rewrite <- N.eqb_neq, <- term_idx; exact C1).
    destruct tf as [|vi ln tl th]; [destruct (top_leaf _ _ HT Vf); contradiction|].
    destruct (lh_ok _ _ _ _ _ _ HT Vf) as (Vl & Vh & Al & Ah & Hv0 & Ht & Sf). rewrite Ht in H.
    destruct (N.ltb_spec v vi) as [Hlt|Hge].
    { injection H as <- <- <-. unfold KPost. splits; auto using sext_refl. exists (Nd vi ln tl th). splits; auto.
      intro e. unfold rsem at 1 2. f_equal. symmetry. apply tsem_indep. apply ordered_root_above; [apply Vf|exact Hlt]. }
    destruct (mget m (f, g)) as [rc|] eqn:Hm.
    { injection H as <- <- <-. destruct (HM _ _ Hm) as (tf' & tg' & tr & Vf' & Vg' & Vr & Sr & Br & Wr). cbn [fst snd] in *.
      pose proof (V_fun _ _ _ _ Vf' Vf) as ->. pose proof (V_fun _ _ _ _ Vg' Vg) as ->.
      unfold KPost. splits; auto using sext_refl. exists tr. splits; auto. }
    destruct (N.eqb_spec v vi) as [->|Hne].
    - (* substitute at f's top variable: ITE(g, high, low) on the raw children, then f's sign *)
      destruct (V_children _ _ _ _ _ _ Vf) as (l & h & Hc & -> & Hreg & Vrl & Vrh & _ & _ & _).
      rewrite Hc in H. cbn [hi lo] in H.
      destruct (ite fuel s g h l) as [[s1 r1]|] eqn:Hi; [|discriminate]. injection H as <- <- <-.
      destruct (ite_ok _ _ _ _ _ _ _ _ _ _ HT HC Hi Vg Vrh Vrl) as (HT1 & HC1 & E1 & tr & Vr & Sr & Br & Wr).
      assert (Hsem : forall e, rsem (if neg f then rneg r1 else r1) tr e = rsem f (Nd vi (neg l) tl th) (upd e vi (rsem g tg e))).
      { intro e. unfold rsem at 2. cbn [tsem]. rewrite upd_eq. rewrite !tsem_indep by assumption.
        destruct (neg f) eqn:Nf; rewrite ?rsem_neg, Sr; unfold rsem; rewrite Hreg; cbn;
          now destruct (xorb (neg g) (tsem tg e)), (neg l), (tsem tl e), (tsem th e). }
      assert (Hbd : forall lb, above lb (Nd vi (neg l) tl th) -> above lb tg -> above lb tr).
      { intros lb (Hlb & A1 & A2) A3. apply Br; auto; eapply above_weaken; try eassumption; lia. }
      assert (Hwd : forall vs, tvars_in vs (Nd vi (neg l) tl th) -> tvars_in vs tg -> tvars_in vs tr).
      { intros vs (_ & T1 & T2) T3. apply Wr; auto. }
      assert (Vres : V s1 (if neg f then rneg r1 else r1) tr) by (destruct (neg f); auto using V_neg).
      unfold KPost. splits; auto.
      + intros k r Hk. apply mget_put in Hk. destruct Hk as [[-> ->]|Hk].
        * exists (Nd vi (neg l) tl th), tg, tr. cbn [fst snd]. splits; eauto using V_ext.
        * eapply KEntry_ext; [exact E1|apply HM; exact Hk].
      + exists tr. splits; auto.
    - (* above v: simultaneous Shannon expansion of f and g *)
      set (mm := if is_term g then vi else N.min vi (top s g)) in *.
      assert (Hmm : 0 < mm /\ mm <= vi /\ (tg = Leaf \/ mm <= top s g) /\
                    (mm = vi \/ exists vj lnj tlj thj, tg = Nd vj lnj tlj thj /\ mm = vj)).
      { subst mm. destruct (is_term g) eqn:Tg.
        - assert (Eg : idx g = 1) by (unfold is_term in Tg; rewrite term_idx in Tg; now apply N.eqb_eq).
          pose proof (V_term _ _ _ Eg Vg) as Etg. splits; try lia; auto.
        - assert (Hgnt : idx g <> 1) by (rewrite <- N.eqb_neq, <- term_idx; exact Tg).
          destruct (top_cases _ _ _ HT Vg) as [(_ & _ & E)|(vj & lnj & tlj & thj & -> & -> & Hvj & _)]; [contradiction|].
          splits; try lia.
          destruct (N.min_spec vi vj) as [[_ ->]|[_ ->]]; [left; reflexivity|right; eauto 6]. }
      destruct Hmm as (Hm0 & Hmi & Hmg & Hmroot).
      destruct (top_cofactors s f mm) as [f0 f1] eqn:Tf.
      destruct (top_cofactors s g mm) as [g0 g1] eqn:Tg.
      assert (Hmf : mm <= top s f) by (rewrite Ht; exact Hmi).
      destruct (tc_ok s f mm _ HT Vf (or_intror Hmf) _ _ Tf) as (tf0 & tf1 & Vf0 & Vf1 & Af0 & Af1 & Sf' & Bf & Wf & _).
      destruct (tc_ok s g mm _ HT Vg Hmg _ _ Tg) as (tg0 & tg1 & Vg0 & Vg1 & Ag0 & Ag1 & Sg & Bg & Wg & _).
      destruct (compose fuel s m f0 v g0) as [[[s1 m1] h0]|] eqn:H1; [|discriminate].
      destruct (compose fuel s1 m1 f1 v g1) as [[[s2 m2] h1]|] eqn:H2; [|discriminate].
      destruct (mk_node s2 mm h0 h1) as [[s3 r3]|] eqn:Hmk; [|discriminate]. injection H as <- <- <-.
      destruct (IH _ _ _ _ _ _ _ _ _ HT HC HM Vf0 Vg0 H1) as (HT1 & HC1 & E1 & HM1 & t0 & V0 & S0 & B0 & W0).
      destruct (IH _ _ _ _ _ _ _ _ _ HT1 HC1 HM1 (V_ext _ _ _ _ E1 Vf1) (V_ext _ _ _ _ E1 Vg1) H2) as (HT2 & HC2 & E2 & HM2 & t1 & V1 & S1 & B1 & W1).
      destruct (mk_node_ok _ _ _ _ _ _ _ _ HT2 Hmk Hm0 (V_ext _ _ _ _ E2 V0) V1 (B0 _ Af0 Ag0) (B1 _ Af1 Ag1))
        as (HT3 & E3 & K3 & tr & Vr & Sr & Br & Wr).
      assert (Hmv : mm <> v) by lia.
      assert (Hsem : forall e, rsem r3 tr e = rsem f (Nd vi ln tl th) (upd e v (rsem g tg e))).
      { intro e. rewrite Sr, S1, S0, Sf'. rewrite (upd_neq e v _ mm Hmv). rewrite Sg. now destruct (e mm). }
      assert (Hbd : forall lb, above lb (Nd vi ln tl th) -> above lb tg -> above lb tr).
      { intros lb A1 A2. apply Br. destruct Hmroot as [->|(vj & ? & ? & ? & -> & ->)]; [now destruct A1|now destruct A2]. }
      assert (Hwd : forall vs, tvars_in vs (Nd vi ln tl th) -> tvars_in vs tg -> tvars_in vs tr).
      { intros vs A1 A2. destruct (Wf vs A1), (Wg vs A2). apply Wr; auto.
        destruct Hmroot as [->|(vj & ? & ? & ? & -> & ->)]; [now destruct A1|now destruct A2]. }
      assert (HC3 : CInv s3) by (eapply CInv_ext; eauto).
      unfold KPost. splits; eauto using sext_trans.
      + intros k r Hk. apply mget_put in Hk. destruct Hk as [[-> ->]|Hk].
        * exists (Nd vi ln tl th), tg, tr. cbn [fst snd]. splits; eauto using V_ext, sext_trans.
        * eapply KEntry_ext; [exact E3|apply HM2; exact Hk].
  Qed.
  Print Assumptions compose_ok.
End Cof.
