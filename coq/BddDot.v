From Coq Require Import Arith NArith Bool Lia List.
Require Import Canon SemTk BddBase BddIte BddReach.
Import ListNotations.
Local Open Scope N_scope.

(* src/dot.rs: the DOT text as a list of records (one per written line that carries information).
   The crate iterates a HashSet, so the order of records is unspecified: every statement below is about
   membership, never about position. *)
Lemma find_app_some {A} p (a b : list A) : find p a <> None -> find p (a ++ b) = find p a.
Proof. induction a as [|d a IH]; cbn [app find]; [congruence|]. destruct (p d); [reflexivity|exact IH]. Qed.

Section Dot.
  Context {SO : StoreOps} {OK : StoreOK}.

  Inductive lowstyle := LDashedZero | LDotted | LDashed.
  Inductive drec :=
  | DNode (id v : N)                       (* "{id} [label=<x<SUB>{v}</SUB>>];" *)
  | DHigh (id tgt : N)                     (* "{id} -- {tgt};" *)
  | DLow (id tgt : N) (st : lowstyle)      (* dashed to 0 / dotted with odot / dashed *)
  | DRoot (k : nat) (r : ref)              (* "r{k} [shape=rect ...]" and its edge *).

  Definition node_recs (s : st) (id : N) : option (list drec) :=
    if id =? 1 then Some [] else
    match cell s id with
    | None => None                                         (* index out of the table: panics *)
    | Some n =>
      if neg (hi n) then None                              (* assert!(!high.is_negated()) *)
      else Some [DNode id (var n); DHigh id (idx (hi n));
                 if neg (lo n) then (if idx (lo n) =? 1 then DLow id 0 LDashedZero else DLow id (idx (lo n)) LDotted)
                 else DLow id (idx (lo n)) LDashed]
    end.
  Fixpoint all_recs (s : st) (ids : list N) : option (list drec) :=
    match ids with
    | [] => Some []
    | id :: r => match node_recs s id, all_recs s r with Some a, Some b => Some (a ++ b) | _, _ => None end
    end.
  Fixpoint root_recs (k : nat) (roots : list ref) : list drec :=
    match roots with [] => [] | r :: rs => DRoot k r :: root_recs (S k) rs end.
  Definition to_dot (fuel : nat) (s : st) (roots : list ref) : option (list drec) :=
    match descendants fuel s roots with
    | None => None
    | Some ids => match all_recs s ids with Some l => Some (l ++ root_recs 0 roots) | None => None end
    end.

  (* reading the records back: the cell a reader reconstructs for index id *)
  Definition find_var (l : list drec) (id : N) : option N :=
    match find (fun d => match d with DNode i _ => i =? id | _ => false end) l with Some (DNode _ v) => Some v | _ => None end.
  Definition find_high (l : list drec) (id : N) : option ref :=
    match find (fun d => match d with DHigh i _ => i =? id | _ => false end) l with Some (DHigh _ t) => Some (R t false) | _ => None end.
  Definition find_low (l : list drec) (id : N) : option ref :=
    match find (fun d => match d with DLow i _ _ => i =? id | _ => false end) l with
    | Some (DLow _ t LDashedZero) => Some zero
    | Some (DLow _ t LDotted) => Some (R t true)
    | Some (DLow _ t LDashed) => Some (R t false)
    | _ => None end.
  Definition read_cell (l : list drec) (id : N) : option node :=
    match find_var l id, find_low l id, find_high l id with
    | Some v, Some lo, Some hi => Some (Node v lo hi)
    | _, _, _ => None
    end.

  Lemma node_recs_read s id recs n : node_recs s id = Some recs -> id <> 1 -> cell s id = Some n ->
    read_cell recs id = Some n /\ forall d, In d recs -> match d with DNode i _ | DHigh i _ | DLow i _ _ => i = id | DRoot _ _ => False end.
  Proof.
    intros H Hid Hc. unfold node_recs in H. destruct (N.eqb_spec id 1) as [|_]; [contradiction|]. rewrite Hc in H.
    destruct n as [v [li ln] [hi_ hn]]. cbn [hi lo var neg idx] in H. destruct hn; [discriminate|]. injection H as <-.
    split.
    - unfold read_cell, find_var, find_low, find_high. cbn [find]. rewrite N.eqb_refl.
      destruct ln; [destruct (N.eqb_spec li 1) as [->|]|]; cbn [find]; rewrite ?N.eqb_refl; reflexivity.
    - intros d [<-|[<-|[<-|[]]]]; auto. destruct ln; [destruct (li =? 1)|]; reflexivity.
  Qed.

  Definition rec_id (d : drec) : option N := match d with DNode i _ | DHigh i _ | DLow i _ _ => Some i | DRoot _ _ => None end.
  Lemma read_cell_app_other a b id : (forall d, In d a -> rec_id d <> Some id) -> read_cell (a ++ b) id = read_cell b id.
  Proof.
    intro H. unfold read_cell, find_var, find_low, find_high.
    assert (Hf : forall p, (forall d, p d = true -> rec_id d = Some id) -> find p (a ++ b) = find p b).
    { intros p Hp. induction a as [|d a IH]; [reflexivity|]. cbn [app find].
      destruct (p d) eqn:E; [exfalso; apply (H d); [left; reflexivity|apply Hp; exact E]|]. apply IH. intros d' Hd'. apply H. right; exact Hd'. }
    assert (Hside : forall p, (forall d, p d = true -> match d with DRoot _ _ => False | _ => True end /\ rec_id d = Some id) -> find p (a ++ b) = find p b).
    { intros p Hp. apply Hf. intros d Hd. apply Hp. exact Hd. }
    rewrite (Hside (fun d => match d with DNode i _ => i =? id | _ => false end)) by (intros [i v|i t|i t st0|k r] E; try discriminate; apply N.eqb_eq in E; subst; split; auto; reflexivity).
    rewrite (Hside (fun d => match d with DLow i _ _ => i =? id | _ => false end)) by (intros [i v|i t|i t st0|k r] E; try discriminate; apply N.eqb_eq in E; subst; split; auto; reflexivity).
    rewrite (Hside (fun d => match d with DHigh i _ => i =? id | _ => false end)) by (intros [i v|i t|i t st0|k r] E; try discriminate; apply N.eqb_eq in E; subst; split; auto; reflexivity).
    reflexivity.
  Qed.
  Lemma read_cell_app_here a b id n : read_cell a id = Some n -> (forall d, In d a -> rec_id d = Some id) -> read_cell (a ++ b) id = Some n.
  Proof.
    intros H Hall. unfold read_cell, find_var, find_low, find_high in *.
    pose proof (fun p => @find_app_some drec p a b) as Hf.
    destruct (find (fun d => match d with DNode i _ => i =? id | _ => false end) a) as [d1|] eqn:E1; [|discriminate].
    destruct (find (fun d => match d with DLow i _ _ => i =? id | _ => false end) a) as [d2|] eqn:E2; [|destruct d1; discriminate].
    destruct (find (fun d => match d with DHigh i _ => i =? id | _ => false end) a) as [d3|] eqn:E3; [|destruct d1; try discriminate; destruct d2 as [| | ? ? []|]; discriminate].
    rewrite !Hf by congruence. rewrite E1, E2, E3. exact H.
  Qed.

  Lemma all_recs_read s : forall ids recs, all_recs s ids = Some recs -> NoDup ids ->
    forall id n, In id ids -> id <> 1 -> cell s id = Some n -> read_cell recs id = Some n.
  Proof.
    induction ids as [|a ids IH]; intros recs H Hnd id n Hin Hid Hc; [destruct Hin|].
    cbn [all_recs] in H. destruct (node_recs s a) as [ra|] eqn:Ea; [|discriminate]. destruct (all_recs s ids) as [rb|] eqn:Eb; [|discriminate].
    injection H as <-. inversion Hnd as [|? ? Hnotin Hnd']; subst. destruct Hin as [->|Hin].
    - destruct (node_recs_read s id ra n Ea Hid Hc) as [Hr Hall]. apply read_cell_app_here; [exact Hr|].
      intros d Hd. specialize (Hall d Hd). destruct d; cbn; try congruence; contradiction.
    - rewrite read_cell_app_other; [eapply IH; eauto|].
      intros d Hd Hrid. assert (a = id); [|subst; contradiction].
      unfold node_recs in Ea. destruct (a =? 1); [injection Ea as <-; destruct Hd|].
      destruct (cell s a) as [na|]; [|discriminate]. destruct (neg (hi na)); [discriminate|]. injection Ea as <-.
      destruct Hd as [<-|[<-|[<-|[]]]]; cbn in Hrid; try congruence.
      destruct (neg (lo na)); [destruct (idx (lo na) =? 1)|]; cbn in Hrid; congruence.
  Qed.

  (* Rep over an arbitrary cell function, so that the reader's reconstruction can be stated *)
  Inductive RepF (c : N -> option node) : N -> tree -> Prop :=
  | RepFLeaf : RepF c 1 Leaf
  | RepFNd i v l h tl th : i <> 1 -> c i = Some (Node v l h) -> neg h = false ->
      RepF c (idx l) tl -> RepF c (idx h) th -> RepF c i (Nd v (neg l) tl th).

  Theorem dot_faithful fuel s roots recs : Inv s -> (forall r, In r roots -> okidx s (idx r)) ->
    to_dot fuel s roots = Some recs ->
    (forall k r, nth_error roots k = Some r -> In (DRoot k r) recs) /\
    forall r t, In r roots -> Rep s (idx r) t -> RepF (read_cell recs) (idx r) t.
  Proof.
    intros HI Hroots H. unfold to_dot in H.
    destruct (descendants fuel s roots) as [ids|] eqn:Ed; [|discriminate].
    destruct (all_recs s ids) as [l|] eqn:El; [|discriminate]. injection H as <-.
    pose proof (closed_of_inv s HI) as Hcl.
    destruct (descendants_ok fuel s roots ids HI Hcl Hroots Ed) as [Hnd Hids].
    split.
    - intros k r Hk. apply in_or_app. right.
      assert (Hg : forall rs b j, nth_error rs j = Some r -> In (DRoot (b + j) r) (root_recs b rs)).
      { induction rs as [|x rs IH]; intros b j Hj; [destruct j; discriminate|]. destruct j as [|j]; cbn in Hj.
        - injection Hj as ->. rewrite Nat.add_0_r. left; reflexivity.
        - right. replace (b + S j)%nat with (S b + j)%nat by lia. apply IH. exact Hj. }
      apply (Hg roots 0%nat k Hk).
    - intros r t Hr HR.
      assert (Hgen : forall i t, Rep s i t -> In i ids -> RepF (read_cell (l ++ root_recs 0 roots)) i t).
      { intros i t0 HR0. induction HR0 as [|i v lo0 hi0 tl th Hi Hc Hn _ IHl _ IHh]; intro Hin; [constructor|].
        assert (Hch : forall j, child s i j -> In j ids).
        { intros j Hj. apply Hids. apply Hids in Hin. eapply reach_closed; eauto. }
        econstructor; eauto.
        - assert (Hrd : read_cell l i = Some (Node v lo0 hi0)) by (eapply all_recs_read; eauto).
          unfold read_cell, find_var, find_low, find_high in *.
          pose proof (fun p => @find_app_some drec p l (root_recs 0 roots)) as Hf.
          destruct (find (fun d => match d with DNode i0 _ => i0 =? i | _ => false end) l) as [d1|] eqn:E1; [|discriminate].
          destruct (find (fun d => match d with DLow i0 _ _ => i0 =? i | _ => false end) l) as [d2|] eqn:E2; [|destruct d1; discriminate].
          destruct (find (fun d => match d with DHigh i0 _ => i0 =? i | _ => false end) l) as [d3|] eqn:E3; [|destruct d1; try discriminate; destruct d2 as [| | ? ? []|]; discriminate].
          rewrite !Hf by congruence. rewrite E1, E2, E3. exact Hrd.
        - apply IHl. apply Hch. exists (Node v lo0 hi0). auto.
        - apply IHh. apply Hch. exists (Node v lo0 hi0). auto. }
      apply Hgen; [exact HR|]. apply Hids. right. exists r. split; [exact Hr|constructor].
  Qed.

  (* the export never hits its assertion on a manager satisfying the invariant *)
  Theorem dot_total fuel s roots ids : Inv s -> (forall r, In r roots -> okidx s (idx r)) ->
    descendants fuel s roots = Some ids -> exists recs, to_dot fuel s roots = Some recs.
  Proof.
    intros HI Hroots Ed. unfold to_dot. rewrite Ed.
    pose proof (closed_of_inv s HI) as Hcl.
    destruct (descendants_ok fuel s roots ids HI Hcl Hroots Ed) as [_ Hids].
    assert (Hok : forall i, In i ids -> okidx s i).
    { intros i Hi. apply Hids in Hi. destruct Hi as [->|(r & Hr & Hre)]; [left; reflexivity|]. eapply reach_okidx; eauto. }
    assert (Hall : exists l, all_recs s ids = Some l).
    { clear Hids Ed. induction ids as [|a ids IH]; [eexists; reflexivity|]. cbn [all_recs].
      destruct IH as (lb & ->); [intros i Hi; apply Hok; right; exact Hi|].
      assert (Ha : exists la, node_recs s a = Some la); [|destruct Ha as (la & ->); eexists; reflexivity].
      unfold node_recs. destruct (N.eqb_spec a 1) as [|Hne]; [eexists; reflexivity|].
      destruct (Hok a (or_introl eq_refl)) as [->|(n & Hn)]; [contradiction|].
      rewrite Hn. destruct (proj2 HI a n Hn) as (t & HR & _). cbn [idx] in HR.
      inversion HR as [E1|i v l h tl th Hi Hc Hneg Hl Hh]; subst.
      + destruct (cell1 _ (proj1 HI)) as [E _]. congruence.
      + rewrite Hn in Hc. injection Hc as ->. cbn [hi]. rewrite Hneg. eexists; reflexivity. }
    destruct Hall as (l & ->). eexists; reflexivity.
  Qed.
End Dot.
Print Assumptions dot_faithful.
