From Coq Require Import Arith Bool Lia List.
Import ListNotations.
Ltac splits_ := repeat match goal with |- _ /\ _ => split end.

(* examples/eda/src/ast.rs *)
Section E.
  Variable T : Type.
  Inductive bx := BxTerm (t : T) | BxNot (a : bx) | BxAnd (a b : bx) | BxOr (a b : bx) | BxXor (a b : bx) | BxIte (a b c : bx).
  Inductive kind := NTerm (t : T) | NNot | NAnd | NOr | NXor | NIte.
  Definition bkind (e : bx) : kind :=
    match e with BxTerm t => NTerm t | BxNot _ => NNot | BxAnd _ _ => NAnd | BxOr _ _ => NOr | BxXor _ _ => NXor | BxIte _ _ _ => NIte end.
  Definition bkids (e : bx) : list bx :=
    match e with BxTerm _ => [] | BxNot a => [a] | BxAnd a b | BxOr a b | BxXor a b => [a; b] | BxIte a b c => [a; b; c] end.
  (* ExprBoxed::not after the repair: only double negation is simplified *)
  Definition bnot (v : bx) : bx := match v with BxNot i => i | _ => BxNot v end.

  (* arena node: kind + child indices (Idx) *)
  Definition ax := (kind * list nat)%type.

  (* Arena::expand_exprs: FIFO frontier; the index of a child is exprs.len() + frontier.len() after pushing it *)
  Fixpoint expand (fuel : nat) (q : list bx) (n : nat) : list ax :=
    match fuel with O => [] | S fuel =>
      match q with
      | [] => []
      | e :: rest => (bkind e, seq (n + length rest + 1) (length (bkids e))) :: expand fuel (rest ++ bkids e) (S n)
      end
    end.
  Fixpoint bsize (e : bx) : nat :=
    match e with BxTerm _ => 1 | BxNot a => S (bsize a) | BxAnd a b | BxOr a b | BxXor a b => S (bsize a + bsize b)
               | BxIte a b c => S (bsize a + bsize b + bsize c) end.
  Definition from_boxed (e : bx) : list ax := expand (bsize e) [e] 0.

  (* a catamorphism over boxed trees, and the algebra the arena uses (same closure in the Rust code) *)
  Variable R : Type.
  Variable alg : kind -> list R -> R.
  Fixpoint foldB (e : bx) : R :=
    match e with
    | BxTerm t => alg (NTerm t) []
    | BxNot a => alg NNot [foldB a]
    | BxAnd a b => alg NAnd [foldB a; foldB b]
    | BxOr a b => alg NOr [foldB a; foldB b]
    | BxXor a b => alg NXor [foldB a; foldB b]
    | BxIte a b c => alg NIte [foldB a; foldB b; foldB c]
    end.
  Lemma foldB_kids e : foldB e = alg (bkind e) (map foldB (bkids e)).
  Proof. destruct e; reflexivity. Qed.

  (* Arena::collapse_exprs: reverse pass; results[idx].take().unwrap() for every child index *)
  Fixpoint set_nth (res : list (option R)) (i : nat) (x : option R) : list (option R) :=
    match res, i with
    | [], _ => []
    | _ :: r, O => x :: r
    | y :: r, S i' => y :: set_nth r i' x
    end.
  Definition take (res : list (option R)) (j : nat) : option (R * list (option R)) :=
    match nth_error res j with
    | Some (Some r) => Some (r, set_nth res j None)
    | _ => None
    end.
  Fixpoint take_all (res : list (option R)) (js : list nat) : option (list R * list (option R)) :=
    match js with
    | [] => Some ([], res)
    | j :: js' => match take res j with
                  | None => None
                  | Some (r, res1) => match take_all res1 js' with None => None | Some (rs, res2) => Some (r :: rs, res2) end
                  end
    end.
  (* process the nodes with indices < length l in reverse order *)
  Fixpoint collapse_rev (base : nat) (l : list ax) (res : list (option R)) : option (list (option R)) :=
    match l with
    | [] => Some res
    | a :: l' =>   (* l is a segment of the arena reversed: a has index base + length l' *)
      match take_all res (snd a) with
      | None => None
      | Some (rs, res1) => collapse_rev base l' (set_nth res1 (base + length l') (Some (alg (fst a) rs)))
      end
    end.
  Definition collapse (A : list ax) : option R :=
    match collapse_rev 0 (rev A) (repeat None (length A)) with
    | Some (Some r :: _) => Some r
    | _ => None
    end.

  (* ---------- the queue/deque duality (index-free core) ---------- *)
  (* what the reverse pass does to the window of pending results *)
  Definition dq_step (k : kind) (ar : nat) (avail : list R) : list R :=
    alg k (skipn (length avail - ar) avail) :: firstn (length avail - ar) avail.
  Fixpoint dq_run (l : list (kind * nat)) (avail : list R) : list R :=   (* l in processing (reverse arena) order *)
    match l with [] => avail | (k, ar) :: l' => dq_run l' (dq_step k ar avail) end.

  Fixpoint tsize (q : list bx) : nat := match q with [] => 0 | e :: r => bsize e + tsize r end.
  Lemma tsize_app a b : tsize (a ++ b) = tsize a + tsize b.
  Proof. induction a; cbn; lia. Qed.
  Lemma bsize_kids e : bsize e = S (tsize (bkids e)).
  Proof. destruct e; cbn; lia. Qed.

  Definition shape (a : ax) : kind * nat := (fst a, length (snd a)).

  Theorem deque_duality : forall fuel q n, tsize q <= fuel ->
    dq_run (rev (map shape (expand fuel q n))) [] = map foldB q.
  Proof.
    induction fuel as [|fuel IH]; intros q n Hf.
    - destruct q as [|e r]; [reflexivity|]. cbn in Hf. pose proof (bsize_kids e). lia.
    - destruct q as [|e rest]; [reflexivity|]. cbn [expand map rev].
      assert (Hrun : forall l1 l2 av, dq_run (l1 ++ l2) av = dq_run l2 (dq_run l1 av)).
      { induction l1 as [|[k a] l1 IH1]; intros; cbn; auto. }
      rewrite Hrun. rewrite IH by (cbn in Hf; rewrite tsize_app; pose proof (bsize_kids e); lia).
      cbn [dq_run shape fst snd]. rewrite seq_length. unfold dq_step.
      rewrite map_app, app_length, !map_length.
      replace (length rest + length (bkids e) - length (bkids e)) with (length rest) by lia.
      rewrite <- (map_length foldB rest) at 1 2.
      rewrite skipn_app, skipn_all, Nat.sub_diag, firstn_app, firstn_all, Nat.sub_diag. cbn [skipn firstn app].
      rewrite app_nil_r. cbn [map]. now rewrite foldB_kids.
  Qed.

  (* ---------- the index arithmetic implements the deque ---------- *)
  Lemma nth_set_same : forall (res : list (option R)) i x, i < length res -> nth_error (set_nth res i x) i = Some x.
  Proof. induction res as [|y r IH]; intros i x H; cbn in H; [lia|]. destruct i; cbn; [reflexivity|]. apply IH. lia. Qed.
  Lemma nth_set_other : forall (res : list (option R)) i j x, j <> i -> nth_error (set_nth res i x) j = nth_error res j.
  Proof.
    induction res as [|y r IH]; intros i j x Hj; [reflexivity|]. destruct i, j; cbn; try reflexivity; try lia. apply IH. lia.
  Qed.
  Lemma set_nth_length : forall (res : list (option R)) i x, length (set_nth res i x) = length res.
  Proof. induction res as [|y r IH]; intros i x; [reflexivity|]. destruct i; cbn; auto. Qed.
  Lemma take_spec res j r res1 : take res j = Some (r, res1) ->
    nth_error res j = Some (Some r) /\ res1 = set_nth res j None.
  Proof. unfold take. destruct (nth_error res j) as [[x|]|] eqn:E; try discriminate. intro H; injection H as <- <-. auto. Qed.

  (* taking a run of consecutive indices that all hold values *)
  Lemma take_all_seq : forall (vals : list R) res start,
    start + length vals <= length res ->
    (forall c, c < length vals -> nth_error res (start + c) = Some (nth_error vals c)) ->
    exists res1, take_all res (seq start (length vals)) = Some (vals, res1) /\ length res1 = length res /\
      (forall j, j < start \/ start + length vals <= j -> nth_error res1 j = nth_error res j) /\
      (forall c, c < length vals -> nth_error res1 (start + c) = Some None).
  Proof.
    induction vals as [|v vals IH]; intros res start Hlen Hv; cbn [length seq take_all].
    - exists res. splits_; auto; intros; lia.
    - assert (H0 : nth_error res start = Some (Some v)) by (rewrite <- (Nat.add_0_r start); apply (Hv 0); cbn; lia).
      unfold take. rewrite H0.
      destruct (IH (set_nth res start None) (S start)) as (res1 & Ht & Hl & Ho & Hn).
      + rewrite set_nth_length. cbn in Hlen; lia.
      + intros c Hc. rewrite nth_set_other by lia.
        replace (S start + c) with (start + S c) by lia. apply (Hv (S c)). cbn; lia.
      + rewrite Ht. exists res1. rewrite set_nth_length in Hl.
        splits_; auto.
        * intros j Hj. rewrite Ho by (cbn [length] in Hj; lia). apply nth_set_other; cbn [length] in Hj; lia.
        * intros c Hc. destruct c as [|c].
          -- rewrite Nat.add_0_r. rewrite Ho by lia. apply nth_set_same. cbn in Hlen; lia.
          -- replace (start + S c) with (S start + c) by lia. apply Hn. cbn in Hc; lia.
  Qed.

  Lemma collapse_rev_app : forall l1 l2 base res,
    collapse_rev base (l1 ++ l2) res =
    match collapse_rev (base + length l2) l1 res with None => None | Some r1 => collapse_rev base l2 r1 end.
  Proof.
    induction l1 as [|a l1 IH]; intros l2 base res; cbn [app collapse_rev]; [reflexivity|].
    destruct (take_all res (snd a)) as [[rs res1]|]; [|reflexivity].
    rewrite app_length. replace (base + (length l1 + length l2)) with (base + length l2 + length l1) by lia. apply IH.
  Qed.
  Lemma expand_length : forall fuel q n, tsize q <= fuel -> length (expand fuel q n) = tsize q.
  Proof.
    induction fuel as [|fuel IH]; intros q n Hf; destruct q as [|e rest]; cbn [expand length tsize]; try reflexivity.
    - cbn in Hf. pose proof (bsize_kids e). lia.
    - rewrite IH by (cbn in Hf; rewrite tsize_app; pose proof (bsize_kids e); lia). rewrite tsize_app. pose proof (bsize_kids e). lia.
  Qed.

  (* the reverse pass over the arena segment produced from queue q at base index n leaves exactly the values of q
     in the window starting at n, None after it, and does not touch anything before n; no take ever fails *)
  Lemma collapse_rev_ok : forall fuel q n res, tsize q <= fuel -> n + tsize q <= length res ->
    (forall j, n <= j -> j < length res -> nth_error res j = Some None) ->
    exists res', collapse_rev n (rev (expand fuel q n)) res = Some res' /\ length res' = length res /\
      (forall j, j < n -> nth_error res' j = nth_error res j) /\
      (forall j, n <= j -> j < length res -> nth_error res' j = Some (nth_error (map foldB q) (j - n))).
  Proof.
    induction fuel as [|fuel IH]; intros q n res Hf Hlen Hnone.
    - destruct q as [|e r]; [|cbn in Hf; pose proof (bsize_kids e); lia]. cbn. exists res. splits_; auto.
      intros j H1 H2. rewrite Hnone by assumption. now destruct (j - n).
    - destruct q as [|e rest].
      { cbn. exists res. splits_; auto. intros j H1 H2. rewrite Hnone by assumption. now destruct (j - n). }
      cbn [expand rev]. rewrite collapse_rev_app. cbn [length]. replace (n + 1) with (S n) by lia.
      pose proof (bsize_kids e) as Hbs. cbn [tsize] in Hf, Hlen.
      destruct (IH (rest ++ bkids e) (S n) res) as (res1 & Hc1 & Hl1 & Hb1 & Hw1).
      { rewrite tsize_app. lia. } { rewrite tsize_app. lia. } { intros j H1 H2. apply Hnone; lia. }
      rewrite Hc1. cbn [collapse_rev fst snd length]. rewrite Nat.add_0_r.
      set (m := length rest). set (vals := map foldB (bkids e)).
      assert (Hvl : length vals = length (bkids e)) by (unfold vals; apply map_length).
      assert (Hsz : forall l : list bx, tsize l >= length l) by (induction l as [|x r IHr]; cbn; [lia|]; destruct x; cbn; lia).
      pose proof (Hsz rest) as Hm. fold m in Hm. pose proof (Hsz (bkids e)) as Hk.
      destruct (take_all_seq vals res1 (n + m + 1)) as (res2 & Ht & Hl2 & Ho2 & Hn2).
      { rewrite Hl1, Hvl. lia. }
      { intros c Hc. rewrite Hw1 by lia.
        replace (n + m + 1 + c - S n) with (m + c) by lia. rewrite map_app, nth_error_app2 by (rewrite map_length; unfold m; lia).
        rewrite map_length. fold m. replace (m + c - m) with c by lia. reflexivity. }
      rewrite <- Hvl, Ht.
      exists (set_nth res2 n (Some (alg (bkind e) vals))). splits_.
      + reflexivity.
      + rewrite set_nth_length. lia.
      + intros j Hj. rewrite nth_set_other by lia. rewrite Ho2 by lia. apply Hb1. lia.
      + intros j H1 H2. destruct (Nat.eq_dec j n) as [->|Hne].
        * rewrite nth_set_same by lia. rewrite Nat.sub_diag. cbn [map nth_error]. now rewrite foldB_kids.
        * rewrite nth_set_other by lia.
          destruct (Nat.lt_ge_cases j (n + m + 1)) as [Hlt|Hge].
          -- rewrite Ho2 by lia. rewrite Hw1 by lia. destruct (j - n) as [|d] eqn:E; [lia|]. cbn [map nth_error].
             replace (j - S n) with d by lia. rewrite map_app, nth_error_app1 by (rewrite map_length; fold m; lia). reflexivity.
          -- destruct (Nat.lt_ge_cases j (n + m + 1 + length vals)) as [Hin|Hout].
             ++ replace j with (n + m + 1 + (j - (n + m + 1))) by lia. rewrite Hn2 by lia.
                replace (n + m + 1 + (j - (n + m + 1)) - n) with (S (m + (j - (n + m + 1)))) by lia. cbn [map nth_error].
                symmetry. f_equal. apply nth_error_None. rewrite map_length. fold m. lia.
             ++ rewrite Ho2 by lia. rewrite Hw1 by lia. destruct (j - n) as [|d] eqn:E; [lia|]. cbn [map nth_error].
                replace (j - S n) with d by lia. f_equal.
                transitivity (@None R); [|symmetry]; apply nth_error_None; rewrite ?map_length, ?app_length; fold m; rewrite ?Hvl in *; lia.
  Qed.

  (* C20: flattening a boxed tree and collapsing the arena with any algebra is the fold of the tree, and never panics *)
  Theorem collapse_from_boxed e : collapse (from_boxed e) = Some (foldB e).
  Proof.
    unfold collapse, from_boxed. set (A := expand (bsize e) [e] 0).
    assert (Hlen : length A = bsize e) by (unfold A; rewrite expand_length; cbn; lia).
    destruct (collapse_rev_ok (bsize e) [e] 0 (repeat None (length A))) as (res' & Hc & Hl & _ & Hw).
    - cbn; lia.
    - rewrite repeat_length, Hlen. cbn. lia.
    - intros j _ Hj. rewrite repeat_length in Hj. rewrite nth_error_repeat by assumption. reflexivity.
    - fold A in Hc. rewrite Hc. rewrite repeat_length in Hl, Hw.
      assert (H0 : nth_error res' 0 = Some (Some (foldB e))).
      { rewrite (Hw 0) by (try lia; rewrite Hlen; destruct e; cbn; lia). reflexivity. }
      destruct res' as [|[r|] rest]; cbn in H0; try discriminate. now injection H0 as ->.
  Qed.
End E.

