From Coq Require Import NArith Bool Lia List.
Require Import Canon SemTk BddBase BddIte BddSat BddCof BddReach.
Import ListNotations.
Local Open Scope N_scope.

Section Export.
  Context {SO : StoreOps} {OK : StoreOK}.

  (* src/bdd.rs to_bracket_string / node_to_str, as a token tree; rendering to text is "{r}:(x{v}, {high}, {low})" *)
  Inductive btok := BTop | BBot | BRef (r : ref) | BNode (r : ref) (v : N) (hi lo : btok).

  Fixpoint to_bracket (fuel : nat) (s : st) (node : ref) (visited : list N) : option (btok * list N) :=
    match fuel with O => None | S fuel =>
      if is_zero node then Some (BBot, visited)
      else if is_one node then Some (BTop, visited)
      else if memN (idx node) visited then Some (BRef node, visited)
      else match cell s (idx node) with
           | None => None
           | Some n =>
             match to_bracket fuel s (hi n) (idx node :: visited) with None => None | Some (th, vis1) =>
             match to_bracket fuel s (lo n) vis1 with None => None | Some (tl, vis2) =>
               Some (BNode node (var n) th tl, vis2) end end
           end
    end.

  (* reading the token tree back: an environment of already defined node indices *)
  Definition denv := list (N * bfun).
  Fixpoint dlookup (d : denv) (i : N) : option bfun :=
    match d with [] => None | (j, F) :: r => if N.eqb i j then Some F else dlookup r i end.
  Definition sgn (b : bool) (F : bfun) : bfun := fun e => xorb b (F e).
  Fixpoint interp (t : btok) (d : denv) : option (bfun * denv) :=
    match t with
    | BTop => Some (fun _ => true, d)
    | BBot => Some (fun _ => false, d)
    | BRef r => match dlookup d (idx r) with Some F => Some (sgn (neg r) F, d) | None => None end
    | BNode r v th tl =>
      match interp th d with None => None | Some (Fh, d1) =>
      match interp tl d1 with None => None | Some (Fl, d2) =>
        let F := fun e : env => if e v then Fh e else Fl e in
        Some (sgn (neg r) F, (idx r, F) :: d2) end end
    end.

  (* the environment defines exactly the visited indices, each with the function of its (regular) node;
     the entry made on entering a node is a placeholder for its own index: trees are acyclic, so it is never read *)
  Definition DOK (s : st) (visited : list N) (pending : list N) (d : denv) : Prop :=
    forall i, In i visited -> ~ In i pending -> exists t F, V s (R i false) t /\ dlookup d i = Some F /\ forall e, F e = tsem t e.

  (* ancestors on the current path: each has a smaller root variable than everything in the current subtree *)
  Definition PendOK (s : st) (pending : list N) (t : tree) : Prop :=
    forall p, In p pending -> exists vp ln tl th, V s (R p false) (Nd vp ln tl th) /\ above vp t.

  Lemma pend_not_self s pending node t : PendOK s pending t -> V s node t -> ~ In (idx node) pending.
  Proof.
    intros HP HV Hin. destruct (HP _ Hin) as (vp & ln & tl & th & Vp & Ab).
    assert (E : t = Nd vp ln tl th) by (eapply V_fun; [exact HV|exact Vp]). subst t. destruct Ab as [Ab _]. lia.
  Qed.

  Lemma to_bracket_ok : forall fuel s node t visited pending d tok vis',
    Inv s -> V s node t -> DOK s visited pending d -> PendOK s pending t ->
    to_bracket fuel s node visited = Some (tok, vis') ->
    exists F d', interp tok d = Some (F, d') /\ (forall e, F e = rsem node t e) /\ DOK s vis' pending d' /\
      (forall i, In i visited -> In i vis').
  Proof.
    induction fuel as [|fuel IH]; intros s node t visited pending d tok vis' HI HV HD HP H; [discriminate|].
    cbn [to_bracket] in H.
    destruct (is_zero node) eqn:Z.
    { apply is_zero_true in Z. subst node. injection H as <- <-. pose proof (V_term _ zero _ eq_refl HV) as ->.
      exists (fun _ => false), d. splits; auto. }
    destruct (is_one node) eqn:O.
    { apply is_one_true in O. subst node. injection H as <- <-. pose proof (V_term _ one _ eq_refl HV) as ->.
      exists (fun _ => true), d. splits; auto. }
    assert (Hnt : idx node <> 1) by (rewrite <- N.eqb_neq, <- term_idx, O, Z; reflexivity).
    destruct (memN (idx node) visited) eqn:M.
    { injection H as <- <-. apply memN_spec in M.
      destruct (HD _ M (pend_not_self _ _ _ _ HP HV)) as (t0 & F & V0 & Hl & HF).
      assert (t0 = t) by (eapply V_fun; [exact V0|exact HV]). subst t0.
      exists (sgn (neg node) F), d. cbn [interp]. rewrite Hl. splits; auto. intro e. unfold sgn, rsem. now rewrite HF. }
    destruct t as [|v ln tl th]; [destruct (top_leaf _ _ HI HV); contradiction|].
    destruct (V_children _ _ _ _ _ _ HV) as (l & h & Hc & -> & Hreg & Vl & Vh & Al & Ah & Hv0).
    rewrite Hc in H. cbn [hi lo var] in H.
    destruct (to_bracket fuel s h (idx node :: visited)) as [[tk_h vis1]|] eqn:H1; [|discriminate].
    destruct (to_bracket fuel s l vis1) as [[tk_l vis2]|] eqn:H2; [|discriminate]. injection H as <- <-.
    set (pending' := idx node :: pending).
    assert (Vself : V s (R (idx node) false) (Nd v (neg l) tl th)) by exact HV.
    assert (HP' : forall tc, above v tc -> (forall lb, above lb (Nd v (neg l) tl th) -> above lb tc) -> PendOK s pending' tc).
    { intros tc Atc Hw p [<-|Hp].
      - exists v, (neg l), tl, th. split; [exact Vself|exact Atc].
      - destruct (HP p Hp) as (vp & ln' & tl' & th' & Vp & Ab). exists vp, ln', tl', th'. split; [exact Vp|]. apply Hw. exact Ab. }
    assert (HD0 : DOK s (idx node :: visited) pending' d).
    { intros i Hi Hn. destruct Hi as [<-|Hi]; [exfalso; apply Hn; left; reflexivity|]. apply HD; auto. intro; apply Hn; right; assumption. }
    destruct (IH _ _ _ _ _ _ _ _ HI Vh HD0 (HP' th Ah (fun lb A => proj2 (proj2 A))) H1) as (Fh & d1 & Ih & Sh & HD1 & Hs1).
    destruct (IH _ _ _ _ _ _ _ _ HI Vl HD1 (HP' tl Al (fun lb A => proj1 (proj2 A))) H2) as (Fl & d2 & Il & Sl & HD2 & Hs2).
    set (F := fun e : env => if e v then Fh e else Fl e).
    exists (sgn (neg node) F), ((idx node, F) :: d2). cbn [interp]. rewrite Ih, Il. splits; auto.
    - intro e. unfold sgn, rsem, F. cbn [tsem]. rewrite Sh, Sl. unfold rsem. rewrite Hreg. now destruct (e v), (neg l), (tsem tl e), (tsem th e).
    - intros i Hi Hn. destruct (N.eq_dec i (idx node)) as [->|Hne].
      + exists (Nd v (neg l) tl th), F. splits; auto.
        * cbn [dlookup]. now rewrite N.eqb_refl.
        * intro e. unfold F. cbn [tsem]. rewrite Sh, Sl. unfold rsem. rewrite Hreg. now destruct (e v), (neg l), (tsem tl e), (tsem th e).
      + destruct (HD2 i Hi) as (t0 & F0 & V0 & Hl0 & HF0); [intros [E|Hp]; [congruence|contradiction]|].
        exists t0, F0. splits; auto. cbn [dlookup]. apply N.eqb_neq in Hne. now rewrite Hne.
    - intros i Hi. apply Hs2, Hs1. right; exact Hi.
  Qed.

  (* C16 (bracket string): reading the emitted structure back yields exactly the function of the handle *)
  Theorem bracket_faithful fuel s f t tok vis : Inv s -> V s f t -> to_bracket fuel s f [] = Some (tok, vis) ->
    exists F d, interp tok [] = Some (F, d) /\ forall e, F e = rsem f t e.
  Proof.
    intros HI HV H. destruct (to_bracket_ok fuel s f t [] [] [] tok vis HI HV) as (F & d & Hi & HF & _); auto.
    - intros i [].
    - intros p [].
    - eauto.
  Qed.
  Print Assumptions bracket_faithful.
End Export.
