From Coq Require Import Arith NArith Bool Lia List.
Require Import Canon SemTk TableProto BddBase BddIte BddSat.
Import ListNotations.
Local Open Scope N_scope.

(* src/utils.rs: Szudzik pairing with u64 wrap-around, and the MyHash instances built from it *)
Definition two64 := 18446744073709551616.
Definition szudzik (a b : N) : N :=
  if a <? b then (b * b mod two64 + a) mod two64 else ((a * a mod two64 + a) mod two64 + b) mod two64.
Definition pairing3 (a b c : N) := szudzik (szudzik a b) c.
(* src/reference.rs: Ref(u32) = (index << 1) | negated ; MyHash for Ref = that word *)
Definition raw (r : ref) : N := 2 * idx r + (if neg r then 1 else 0).
(* src/node.rs: hash(Node) = pairing3(hash low, hash high, variable) *)
Definition nhash (n : node) : N := pairing3 (raw (lo n)) (raw (hi n)) (var n).
(* src/utils.rs: hash(OpKey) *)
Definition khash (k : key) : N :=
  match k with
  | KIte f g h => pairing3 (raw f) (raw g) (raw h)
  | KConstrain f g | KRestrict f g => szudzik (raw f) (raw g)
  end.

(* per-call memo tables.  std HashMap = exact finite map: association lists *)
Fixpoint alist_get {K V} (eqb : K -> K -> bool) (m : list (K * V)) (k : K) : option V :=
  match m with [] => None | (k', v) :: r => if eqb k' k then Some v else alist_get eqb r k end.
#[refine] Instance memo_ref : Memo ref ref := {| memo := list (ref * ref); mempty := []; mget := alist_get ref_eqb; mput := fun m k v => (k, v) :: m |}.
Proof.
  - reflexivity.
  - intros m k v k' v' H. cbn in H. destruct (ref_eqb_spec k k') as [->|]; [injection H as ->; auto|auto].
Defined.
#[refine] Instance memo_refN : Memo ref N := {| memo := list (ref * N); mempty := []; mget := alist_get ref_eqb; mput := fun m k v => (k, v) :: m |}.
Proof.
  - reflexivity.
  - intros m k v k' v' H. cbn in H. destruct (ref_eqb_spec k k') as [->|]; [injection H as ->; auto|auto].
Defined.
Definition pair_eqb (a b : ref * ref) := ref_eqb (fst a) (fst b) && ref_eqb (snd a) (snd b).
Lemma pair_eqb_spec a b : reflect (a = b) (pair_eqb a b).
Proof.
  unfold pair_eqb. destruct a as [a1 a2], b as [b1 b2]; cbn.
  destruct (ref_eqb_spec a1 b1) as [->|]; cbn; [destruct (ref_eqb_spec a2 b2) as [->|]|]; constructor; congruence.
Qed.
Definition nref_eqb (a b : nat * ref) := Nat.eqb (fst a) (fst b) && ref_eqb (snd a) (snd b).
Lemma nref_eqb_spec a b : reflect (a = b) (nref_eqb a b).
Proof.
  unfold nref_eqb. destruct a as [a1 a2], b as [b1 b2]; cbn.
  destruct (Nat.eqb_spec a1 b1) as [->|]; cbn; [destruct (ref_eqb_spec a2 b2) as [->|]|]; constructor; congruence.
Qed.
#[refine] Instance memo_nref : Memo (nat * ref) ref := {| memo := list ((nat * ref) * ref); mempty := []; mget := alist_get nref_eqb; mput := fun m k v => (k, v) :: m |}.
Proof.
  - reflexivity.
  - intros m k v k' v' H. cbn in H. destruct (nref_eqb_spec k k') as [->|]; [injection H as ->; auto|auto].
Defined.

(* compose() uses a fresh direct-mapped `Cache<(Ref, Ref), Ref>` of 2^16 slots (src/bdd.rs: Cache::new(16)):
   slot = hash((f, g)) & 0xFFFF with hash = szudzik(raw f, raw g); a colliding insertion overwrites. *)
Definition dm_mask := 65535.
Definition dm_slot (k : ref * ref) : N := N.land (szudzik (raw (fst k)) (raw (snd k))) dm_mask.
Definition dm_get (m : tmap (option ((ref * ref) * ref))) (k : ref * ref) : option ref :=
  match tget m (dm_slot k) with Some (k', v) => if pair_eqb k' k then Some v else None | None => None end.
Definition dm_put (m : tmap (option ((ref * ref) * ref))) (k : ref * ref) (v : ref) := tset m (dm_slot k) (Some (k, v)).
#[refine] Instance memo_dm : Memo (ref * ref) ref :=
  {| memo := tmap (option ((ref * ref) * ref)); mempty := tconst None; mget := dm_get; mput := dm_put |}.
Proof.
  - intro k. unfold dm_get. now rewrite tget_const.
  - intros m k v k' v' H. unfold dm_get, dm_put in *.
    destruct (N.eq_dec (dm_slot k') (dm_slot k)) as [E|E].
    + rewrite E, tget_set_same in H. destruct (pair_eqb_spec k k') as [->|]; [injection H as ->; auto|discriminate].
    + rewrite tget_set_other in H by exact E. auto.
Defined.
