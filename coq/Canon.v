From Coq Require Import NArith Bool Lia List.
Import ListNotations.
Local Open Scope N_scope.

Definition env := N -> bool.
Definition upd (e : env) (v : N) (b : bool) : env := fun w => if N.eqb w v then b else e w.

Inductive tree := Leaf | Nd (v : N) (ln : bool) (l h : tree).

Fixpoint tsem (t : tree) (e : env) : bool :=
  match t with
  | Leaf => true
  | Nd v ln l h => if e v then tsem h e else xorb ln (tsem l e)
  end.

(* all variables of t are > v *)
Fixpoint above (v : N) (t : tree) : Prop :=
  match t with
  | Leaf => True
  | Nd w _ l h => v < w /\ above v l /\ above v h
  end.

Fixpoint ordered (t : tree) : Prop :=
  match t with
  | Leaf => True
  | Nd v _ l h => above v l /\ above v h /\ ordered l /\ ordered h
  end.

Fixpoint reduced (t : tree) : Prop :=
  match t with
  | Leaf => True
  | Nd v ln l h => ~ (ln = false /\ l = h) /\ reduced l /\ reduced h
  end.

Lemma upd_same e v b : upd e v b v = b.
Proof. unfold upd. now rewrite N.eqb_refl. Qed.

Lemma above_weaken v w t : v <= w -> above w t -> above v t.
Proof. induction t as [|x ln l IHl h IHh]; cbn; intros; [exact I|]. intuition lia. Qed.

Lemma tsem_indep t : forall v e b, above v t -> tsem t (upd e v b) = tsem t e.
Proof.
  induction t as [|w ln l IHl h IHh]; cbn; intros v e b H; [reflexivity|].
  destruct H as (Hvw & Hl & Hh). unfold upd at 1.
  destruct (N.eqb_spec w v); [lia|].
  rewrite IHl, IHh by assumption. reflexivity.
Qed.

Lemma tsem_true t : tsem t (fun _ => true) = true.
Proof. induction t; cbn; auto. Qed.

Fixpoint tsize (t : tree) : nat := match t with Leaf => 0 | Nd _ _ l h => S (tsize l + tsize h) end.


(* signed equality of semantics *)
Definition seq (na : bool) (a : tree) (nb : bool) (b : tree) :=
  forall e, xorb na (tsem a e) = xorb nb (tsem b e).

Lemma canon_aux : forall n na a nb b, (tsize a + tsize b <= n)%nat ->
  ordered a -> reduced a -> ordered b -> reduced b -> seq na a nb b -> na = nb /\ a = b.
Proof.
  induction n as [|n IH]; intros na a nb b Hn Oa Ra Ob Rb H.
  - destruct a, b; cbn in Hn; try lia. split; [|reflexivity].
    specialize (H (fun _ => true)). cbn in H. destruct na, nb; cbn in H; congruence.
  - assert (Hneg : na = nb).
    { specialize (H (fun _ => true)). rewrite !tsem_true in H. destruct na, nb; cbn in H; congruence. }
    subst nb. split; [reflexivity|].
    assert (H' : forall e, tsem a e = tsem b e).
    { intro e. specialize (H e). destruct na, (tsem a e), (tsem b e); cbn in H; congruence. }
    clear H.
    (* helper: a node cannot be semantically independent of its own variable *)
    assert (Hnode : forall v ln l h, (tsize (Nd v ln l h) <= S n)%nat -> ordered (Nd v ln l h) -> reduced (Nd v ln l h) ->
               (forall e b, tsem (Nd v ln l h) (upd e v b) = tsem (Nd v ln l h) e) -> False).
    { intros v ln l h Hs (Al & Ah & Ol & Oh) (Rn & Rl & Rh) Hind.
      apply Rn. destruct (IH ln l false h) as [E1 E2]; cbn in Hs; try lia; auto.
      intro e. rewrite xorb_false_l.
      pose proof (Hind e true) as H1. pose proof (Hind e false) as H0. cbn in H1, H0.
      rewrite upd_same in H1, H0.
      rewrite !tsem_indep in H1, H0 by assumption.
      destruct (e v); congruence. }
    destruct a as [|va lna la ha], b as [|vb lnb lb hb]; [reflexivity| | |].
    + exfalso. eapply (Hnode vb lnb lb hb); cbn in *; auto; try lia.
      intros e b. rewrite <- !H'. reflexivity.
    + exfalso. eapply (Hnode va lna la ha); cbn in *; auto; try lia.
      intros e b. rewrite !H'. reflexivity.
    + destruct (N.lt_trichotomy va vb) as [Hlt|[Heq|Hgt]].
      * exfalso. eapply (Hnode va lna la ha); auto; [cbn in *; lia|].
        intros e b. rewrite !H'. apply tsem_indep. cbn. destruct Ob as (A1 & A2 & _).
        split; [exact Hlt|]. split; eapply above_weaken; try eassumption; lia.
      * subst vb. destruct Oa as (Ala & Aha & Ola & Oha), Ob as (Alb & Ahb & Olb & Ohb).
        destruct Ra as (_ & Rla & Rha), Rb as (_ & Rlb & Rhb).
        assert (Hh : seq false ha false hb).
        { intro e. rewrite !xorb_false_l. specialize (H' (upd e va true)). cbn in H'.
          rewrite !upd_same in H'.
          rewrite !tsem_indep in H' by assumption. exact H'. }
        assert (Hl : seq lna la lnb lb).
        { intro e. specialize (H' (upd e va false)). cbn in H'.
          rewrite !upd_same in H'.
          rewrite !tsem_indep in H' by assumption. exact H'. }
        apply IH in Hh; auto; [|cbn in Hn; lia]. apply IH in Hl; auto; [|cbn in Hn; lia].
        destruct Hh as [_ ->], Hl as [-> ->]. reflexivity.
      * exfalso. eapply (Hnode vb lnb lb hb); auto; [cbn in *; lia|].
        intros e b. rewrite <- !H'. apply tsem_indep. cbn. destruct Oa as (A1 & A2 & _).
        split; [exact Hgt|]. split; eapply above_weaken; try eassumption; lia.
Qed.

Theorem canon na a nb b : ordered a -> reduced a -> ordered b -> reduced b -> seq na a nb b -> na = nb /\ a = b.
Proof. intros. eapply canon_aux; eauto. Qed.
Print Assumptions canon.
