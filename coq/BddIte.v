From Coq Require Import NArith Bool Lia List.
Require Import Canon SemTk BddBase.
Import ListNotations.
Local Open Scope N_scope.

Section S.
  Context {SO : StoreOps} {OK : StoreOK}.

  Lemma ite_ok : forall fuel s f g h s' r tf tg th,
    Inv s -> CInv s -> ite fuel s f g h = Some (s', r) ->
    V s f tf -> V s g tg -> V s h th -> Post s s' r f g h tf tg th.
  Proof.
    induction fuel as [|fuel IH]; intros s f g h s' r tf tg th HT HC Hite Vf Vg Vh; [discriminate|].
    cbn [ite] in Hite.
    (* ite(1,G,H) *)
    destruct (is_one f) eqn:C1.
    { apply is_one_true in C1; subst f. injection Hite as <- <-. unify_trees.
      eapply Post_ret; eauto; try bool_sem; cbn; auto. }
    destruct (is_zero f) eqn:C2.
    { apply is_zero_true in C2; subst f. injection Hite as <- <-. unify_trees.
      eapply Post_ret; eauto; try bool_sem; cbn; auto. }
    destruct (ref_eqb g h) eqn:C3.
    { apply ref_eqb_true in C3; subst h. injection Hite as <- <-. unify_trees.
      eapply Post_ret; eauto; try bool_sem; cbn; auto. }
    destruct (is_one g && is_zero h) eqn:C4.
    { apply andb_prop in C4 as [A B]. apply is_one_true in A. apply is_zero_true in B. subst g h.
      injection Hite as <- <-. unify_trees. eapply Post_ret; eauto; try bool_sem; cbn; auto. }
    destruct (is_zero g && is_one h) eqn:C5.
    { apply andb_prop in C5 as [A B]. apply is_zero_true in A. apply is_one_true in B. subst g h.
      injection Hite as <- <-. unify_trees. eapply Post_ret; eauto using V_neg; try bool_sem; cbn; auto. }
    destruct (is_one g && ref_eqb h (rneg f)) eqn:C6.
    { apply andb_prop in C6 as [A B]. apply is_one_true in A. apply ref_eqb_true in B. subst g h.
      injection Hite as <- <-. unify_trees. eapply Post_ret; eauto using V_one; try bool_sem; cbn; auto. }
    destruct (ref_eqb g f && is_one h) eqn:C7.
    { apply andb_prop in C7 as [A B]. apply ref_eqb_true in A. apply is_one_true in B. subst g h.
      injection Hite as <- <-. unify_trees. eapply Post_ret; eauto using V_one; try bool_sem; cbn; auto. }
    destruct (ref_eqb g (rneg f) && is_zero h) eqn:C8.
    { apply andb_prop in C8 as [A B]. apply ref_eqb_true in A. apply is_zero_true in B. subst g h.
      injection Hite as <- <-. unify_trees. eapply Post_ret; eauto using V_zero; try bool_sem; cbn; auto. }
    destruct (is_zero g && ref_eqb h f) eqn:C9.
    { apply andb_prop in C9 as [A B]. apply is_zero_true in A. apply ref_eqb_true in B. subst g h.
      injection Hite as <- <-. unify_trees. eapply Post_ret; eauto using V_zero; try bool_sem; cbn; auto. }
    (* standard triples *)
    destruct (ref_eqb g f) eqn:C10.
    { apply ref_eqb_true in C10; subst g. unify_trees.
      eapply Post_conv; [eapply (IH _ _ _ _ _ _ tf Leaf th); eauto using V_one| bool_sem | cbn; auto | cbn; auto]. }
    destruct (ref_eqb h f) eqn:C11.
    { apply ref_eqb_true in C11; subst h. unify_trees.
      eapply Post_conv; [eapply (IH _ _ _ _ _ _ tf tg Leaf); eauto using V_zero| bool_sem | cbn; auto | cbn; auto]. }
    destruct (ref_eqb g (rneg f)) eqn:C12.
    { apply ref_eqb_true in C12; subst g. unify_trees.
      eapply Post_conv; [eapply (IH _ _ _ _ _ _ tf Leaf th); eauto using V_zero| bool_sem | cbn; auto | cbn; auto]. }
    destruct (ref_eqb h (rneg f)) eqn:C13.
    { apply ref_eqb_true in C13; subst h. unify_trees.
      eapply Post_conv; [eapply (IH _ _ _ _ _ _ tf tg Leaf); eauto using V_one| bool_sem | cbn; auto | cbn; auto]. }
    (* equivalent pairs *)
    destruct (is_one g && (top s h <? top s f)) eqn:C14.
    { apply andb_prop in C14 as [A _]. apply is_one_true in A; subst g. unify_trees.
      eapply Post_conv; [eapply (IH _ _ _ _ _ _ th Leaf tf); eauto using V_one| bool_sem | cbn; auto | cbn; auto]. }
    destruct (is_zero h && (top s g <? top s f)) eqn:C15.
    { apply andb_prop in C15 as [A _]. apply is_zero_true in A; subst h. unify_trees.
      eapply Post_conv; [eapply (IH _ _ _ _ _ _ tg tf Leaf); eauto using V_zero| bool_sem | cbn; auto | cbn; auto]. }
    destruct (is_one h && (top s g <? top s f)) eqn:C16.
    { apply andb_prop in C16 as [A _]. apply is_one_true in A; subst h. unify_trees.
      eapply Post_conv; [eapply (IH _ _ _ _ _ _ tg tf Leaf); eauto using V_one, V_neg| bool_sem | cbn; auto | cbn; auto]. }
    destruct (is_zero g && (top s h <? top s f)) eqn:C17.
    { apply andb_prop in C17 as [A _]. apply is_zero_true in A; subst g. unify_trees.
      eapply Post_conv; [eapply (IH _ _ _ _ _ _ th Leaf tf); eauto using V_zero, V_neg| bool_sem | cbn; auto | cbn; auto]. }
    destruct (ref_eqb g (rneg h) && (top s g <? top s f)) eqn:C18.
    { apply andb_prop in C18 as [A _]. apply ref_eqb_true in A; subst g. unify_trees.
      eapply Post_conv; [eapply (IH _ _ _ _ _ _ tg tf tf); eauto using V_neg| bool_sem | cbn; auto | cbn; auto]. }
    (* none of f is terminal now; normalise signs *)
    remember (top s f) as i. remember (top s g) as j. remember (top s h) as k.
    (* describe the normalised triple *)
    assert (Hnorm : exists f1 g2 h2 n tf1 tg2 th2,
       (let '(f1, g1, h1) := if neg f then (rneg f, h, g) else (f, g, h) in
        let '(g2, h2, n) := if neg g1 then (rneg g1, rneg h1, true) else (g1, h1, false) in (f1, g2, h2, n)) = (f1, g2, h2, n)
       /\ V s f1 tf1 /\ V s g2 tg2 /\ V s h2 th2
       /\ (forall e, (if rsem f tf e then rsem g tg e else rsem h th e) = xorb n (if rsem f1 tf1 e then rsem g2 tg2 e else rsem h2 th2 e))
       /\ (forall lb, above lb tf -> above lb tg -> above lb th -> above lb tf1 /\ above lb tg2 /\ above lb th2)
       /\ (forall vs, tvars_in vs tf -> tvars_in vs tg -> tvars_in vs th -> tvars_in vs tf1 /\ tvars_in vs tg2 /\ tvars_in vs th2)
       /\ (top s f1 = i /\ ((top s g2 = j /\ top s h2 = k) \/ (top s g2 = k /\ top s h2 = j))) /\ tf1 = tf).
    { assert (Tn : forall x, top s (rneg x) = top s x) by reflexivity.
      destruct (neg f) eqn:Nf; [destruct (neg h) eqn:Nh|destruct (neg g) eqn:Ng];
      [ exists (rneg f), (rneg h), (rneg g), true, tf, th, tg
      | exists (rneg f), h, g, false, tf, th, tg
      | exists f, (rneg g), (rneg h), true, tf, tg, th
      | exists f, g, h, false, tf, tg, th ];
      (splits; auto using V_neg;
       first [ subst i j k; rewrite ?Tn; now auto
             | let e := fresh "e" in intro e; rewrite ?rsem_neg; now destruct (rsem f tf e), (rsem g tg e), (rsem h th e) ]). }
    destruct Hnorm as (f1 & g2 & h2 & n & tf1 & tg2 & th2 & Heq & Vf1 & Vg2 & Vh2 & Hsem & Hab & Hvs & Htops & Etf).
    destruct (if neg f then (rneg f, h, g) else (f, g, h)) as [[f1' g1'] h1'].
    destruct (if neg g1' then (rneg g1', rneg h1', true) else (g1', h1', false)) as [[g2' h2'] n'].
    injection Heq as -> -> -> ->.
    destruct (cget s (KIte f1 g2 h2)) as [rc|] eqn:Hc.
    { (* cache hit *)
      injection Hite as <- <-.
      destruct (HC _ _ Hc) as (tf' & tg' & th' & tr & Vf' & Vg' & Vh' & Vr & Hs & Hb & Hw).
      unify_trees.
      unfold Post; splits; auto using sext_refl. exists tr. splits.
      - destruct n; auto using V_neg.
      - intro e. rewrite Hsem. destruct n; rewrite ?rsem_neg, Hs; now destruct (rsem f1 tf1 e), (rsem g2 tg2 e), (rsem h2 th2 e).
      - intros lb A1 A2 A3. destruct (Hab lb A1 A2 A3) as (? & ? & ?). auto.
      - intros vs A1 A2 A3. destruct (Hvs vs A1 A2 A3) as (? & ? & ?). auto. }
    (* cache miss: Shannon expansion *)
    subst tf1.
    assert (Hfnt : idx f <> 1).
    { rewrite <- N.eqb_neq, <- term_idx. now rewrite C1, C2. }
    destruct (top_cases _ _ _ HT Vf) as [(-> & _ & Hf1)|(vi & lni & tli & thi & Etf & Hti & Hvi & _)]; [contradiction|].
    destruct Htops as (Hi1 & Hjk).
    set (m := if k =? 0 then (if j =? 0 then i else N.min i j) else N.min (if j =? 0 then i else N.min i j) k) in *.
    assert (Hm : 0 < m /\ m <= i /\ (j <> 0 -> m <= j) /\ (k <> 0 -> m <= k) /\ (m = i \/ (m = j /\ j <> 0) \/ (m = k /\ k <> 0))).
    { assert (0 < i) by (subst i; rewrite Hti; exact Hvi).
      subst m. destruct (N.eqb_spec k 0), (N.eqb_spec j 0); lia. }
    destruct Hm as (Hm0 & Hmi & Hmj & Hmk & Hmin).
    assert (Hmg : forall r t, V s r t -> (top s r = j \/ top s r = k) -> t = Leaf \/ m <= top s r).
    { intros r0 t0 HV0 Ht0. destruct (top_cases _ _ _ HT HV0) as [(-> & _)|(v0 & ? & ? & ? & -> & Hv0 & Hp & _)]; [now left|right].
      destruct Ht0 as [E|E]; rewrite E in *; [apply Hmj|apply Hmk]; lia. }
    destruct (top_cofactors s f1 m) as [fl fh] eqn:Tf.
    destruct (top_cofactors s g2 m) as [gl gh] eqn:Tg.
    destruct (top_cofactors s h2 m) as [hl hh] eqn:Th.
    destruct (tc_ok s f1 m tf HT Vf1 (or_intror (eq_ind_r (fun x => m <= x) Hmi Hi1)) _ _ Tf)
      as (tf0 & tf1 & Vf0 & Vfh & Af0 & Af1 & Sf & Bf & Wf & _).
    destruct (tc_ok s g2 m tg2 HT Vg2 (Hmg _ _ Vg2 ltac:(tauto)) _ _ Tg)
      as (tg0 & tg1 & Vg0 & Vgh & Ag0 & Ag1 & Sg & Bg & Wg & _).
    destruct (tc_ok s h2 m th2 HT Vh2 (Hmg _ _ Vh2 ltac:(tauto)) _ _ Th)
      as (th0 & th1 & Vh0 & Vhh & Ah0 & Ah1 & Sh & Bh & Wh & _).
    destruct (ite fuel s fl gl hl) as [[s1 e]|] eqn:I1; [|discriminate].
    destruct (ite fuel s1 fh gh hh) as [[s2 t]|] eqn:I2; [|discriminate].
    destruct (mk_node s2 m e t) as [[s3 r3]|] eqn:Mk; [|discriminate].
    injection Hite as <- <-.
    destruct (IH _ _ _ _ _ _ _ _ _ HT HC I1 Vf0 Vg0 Vh0) as (HT1 & HC1 & E1 & te & Ve & Se & Be & We).
    destruct (IH _ _ _ _ _ _ _ _ _ HT1 HC1 I2 (V_ext _ _ _ _ E1 Vfh) (V_ext _ _ _ _ E1 Vgh) (V_ext _ _ _ _ E1 Vhh))
      as (HT2 & HC2 & E2 & tt & Vt & St & Bt & Wt).
    destruct (mk_node_ok _ _ _ _ _ _ _ _ HT2 Mk Hm0 (V_ext _ _ _ _ E2 Ve) Vt (Be _ Af0 Ag0 Ah0) (Bt _ Af1 Ag1 Ah1))
      as (HT3 & E3 & Hk3 & tr & Vr & Sr & Br & Wr).
    set (key := KIte f1 g2 h2).
    assert (Hsh : forall e0, rsem r3 tr e0 = if rsem f1 tf e0 then rsem g2 tg2 e0 else rsem h2 th2 e0).
    { intro e0. rewrite Sr, St, Se, Sf, Sg, Sh. now destruct (e0 m). }
    assert (Hbd : forall lb, above lb tf -> above lb tg2 -> above lb th2 -> above lb tr).
    { intros lb A1 A2 A3. apply Br.
      destruct Hmin as [Em|[[Em Hn0]|[Em Hn0]]].
      - rewrite Em, <- Hi1. subst tf. destruct (top_nd _ _ _ _ _ _ Vf1) as [-> _]. now destruct A1.
      - assert (Hx : exists r0 t0, V s r0 t0 /\ top s r0 = j /\ above lb t0).
        { destruct Hjk as [[Ej _]|[_ Ej]]; eauto 6. }
        destruct Hx as (r0 & t0 & V0 & T0 & A0).
        destruct (top_cases _ _ _ HT V0) as [(_ & Z & _)|(v0 & ? & ? & ? & -> & Hv0 & _)]; [congruence|].
        rewrite Em, <- T0, Hv0. now destruct A0.
      - assert (Hx : exists r0 t0, V s r0 t0 /\ top s r0 = k /\ above lb t0).
        { destruct Hjk as [[_ Ek]|[Ek _]]; eauto 6. }
        destruct Hx as (r0 & t0 & V0 & T0 & A0).
        destruct (top_cases _ _ _ HT V0) as [(_ & Z & _)|(v0 & ? & ? & ? & -> & Hv0 & _)]; [congruence|].
        rewrite Em, <- T0, Hv0. now destruct A0. }
    assert (Hwd : forall vs, tvars_in vs tf -> tvars_in vs tg2 -> tvars_in vs th2 -> tvars_in vs tr).
    { intros vs A1 A2 A3.
      destruct (Wf vs A1) as [? ?]. destruct (Wg vs A2) as [? ?]. destruct (Wh vs A3) as [? ?].
      apply Wr; auto.
      destruct Hmin as [Em|[[Em Hn0]|[Em Hn0]]].
      - rewrite Em, <- Hi1. subst tf. destruct (top_nd _ _ _ _ _ _ Vf1) as [-> _]. now destruct A1.
      - assert (Hx : exists r0 t0, V s r0 t0 /\ top s r0 = j /\ tvars_in vs t0).
        { destruct Hjk as [[Ej _]|[_ Ej]]; eauto 6. }
        destruct Hx as (r0 & t0 & V0 & T0 & A0).
        destruct (top_cases _ _ _ HT V0) as [(_ & Z & _)|(v0 & ? & ? & ? & -> & Hv0 & _)]; [congruence|].
        rewrite Em, <- T0, Hv0. now destruct A0.
      - assert (Hx : exists r0 t0, V s r0 t0 /\ top s r0 = k /\ tvars_in vs t0).
        { destruct Hjk as [[_ Ek]|[Ek _]]; eauto 6. }
        destruct Hx as (r0 & t0 & V0 & T0 & A0).
        destruct (top_cases _ _ _ HT V0) as [(_ & Z & _)|(v0 & ? & ? & ? & -> & Hv0 & _)]; [congruence|].
        rewrite Em, <- T0, Hv0. now destruct A0. }
    assert (E03 : sext s s3) by eauto using sext_trans.
    assert (HC3 : CInv s3) by (eapply CInv_ext; eauto).
    assert (HE : EntryOK s3 key r3).
    { cbn. exists tf, tg2, th2, tr. splits; eauto using V_ext. }
    destruct (CInv_cput s3 key r3 HT3 HC3 HE) as (HC4 & E4 & HT4).
    unfold Post. splits; eauto using sext_trans.
    - exists tr. splits.
      + destruct n; [apply V_neg|]; (eapply V_ext; [exact E4|exact Vr]).
      + intro e0. rewrite Hsem. destruct n; rewrite ?rsem_neg, Hsh; now destruct (rsem f1 tf e0), (rsem g2 tg2 e0), (rsem h2 th2 e0).
      + intros lb A1 A2 A3. destruct (Hab lb A1 A2 A3) as (? & ? & ?). auto.
      + intros vs A1 A2 A3. destruct (Hvs vs A1 A2 A3) as (? & ? & ?). auto.
  Qed.

  Lemma rsem_ext r t : ext (rsem r t).
  Proof. intros a b E. unfold rsem. now rewrite (tsem_ext t a b E). Qed.
  Lemma rsem_indep r t v w : above v t -> w <= v -> indep (rsem r t) w.
  Proof. intros A Hw e b. unfold rsem. now rewrite (tsem_indep_le t v w e b A Hw). Qed.
  Lemma is_zero_iff r : is_zero r = true <-> r = zero.
  Proof. unfold is_zero. destruct (ref_eqb_spec r zero); split; congruence. Qed.
  Lemma unsat_zero s r t vs x : Inv s -> V s r t -> tvars_in vs t -> (unsat vs (rsem r t) x = true <-> r = zero).
  Proof.
    intros HT HV Hin. split.
    - intro U. destruct (ref_eqb_spec r zero) as [E|NE]; [exact E|exfalso].
      destruct HV as (HR & HO & _ & HD).
      destruct (tree_sat t HO HD (neg r)) as [e He].
      { intros [En Et]. subst t. apply Rep_leaf_inv in HR. apply NE. apply ref_ext; cbn; auto. }
      rewrite unsat_true in U by apply rsem_ext.
      set (a := fun w => if in_dec N.eq_dec w vs then e w else x w).
      assert (Ha : rsem r t a = false).
      { apply U. intros w Hw. unfold a. destruct (in_dec N.eq_dec w vs); [contradiction|reflexivity]. }
      unfold rsem in Ha. rewrite (tsem_agree vs t Hin a e) in Ha; [congruence|].
      intros w Hw. unfold a. destruct (in_dec N.eq_dec w vs); [reflexivity|contradiction].
    - intros ->. apply unsat_true; [apply rsem_ext|]. intros a _.
      pose proof (V_term _ zero _ eq_refl HV) as ->. reflexivity.
  Qed.
  Lemma ordered_root_above v ln l h w : ordered (Nd v ln l h) -> w < v -> above w (Nd v ln l h).
  Proof. intros (Al & Ah & _) Hw. cbn. splits; auto; eapply above_weaken; try eassumption; lia. Qed.

  (* a handle other than zero is satisfiable over any covering variable list *)
  Lemma sat_of_nonzero s r t vs x : Inv s -> V s r t -> tvars_in vs t -> r <> zero -> unsat vs (rsem r t) x = false.
  Proof.
    intros HT HV Hin NE. destruct (unsat vs (rsem r t) x) eqn:U; [|reflexivity].
    apply (unsat_zero s r t vs x HT HV Hin) in U. contradiction.
  Qed.


  (* ================= canonicity at the store level (C01) ================= *)
  Theorem canon_store s r1 r2 t1 t2 : Inv s -> V s r1 t1 -> V s r2 t2 ->
    (forall e, rsem r1 t1 e = rsem r2 t2 e) -> r1 = r2.
  Proof.
    intros HT (R1 & O1 & _ & D1) (R2 & O2 & _ & D2) H.
    destruct (canon (neg r1) t1 (neg r2) t2 O1 D1 O2 D2 H) as [En Et]. subst t2.
    apply ref_ext; [eapply Rep_inj; eauto|exact En].
  Qed.
  Corollary handle_eq_iff s r1 r2 t1 t2 : Inv s -> V s r1 t1 -> V s r2 t2 ->
    (r1 = r2 <-> forall e, rsem r1 t1 e = rsem r2 t2 e).
  Proof.
    intros HT V1 V2. split; [|eauto using canon_store].
    intros <- e. now rewrite (V_fun _ _ _ _ V1 V2).
  Qed.
  (* a non-terminal handle is never a constant function *)
  Lemma nonterm_nonconst s r t b : Inv s -> V s r t -> idx r <> 1 -> ~ (forall e, rsem r t e = b).
  Proof.
    intros HT HV Hi H. destruct b.
    - assert (r = one) by (eapply (canon_store s r one t Leaf); eauto using V_one). subst r. apply Hi. reflexivity.
    - assert (r = zero) by (eapply (canon_store s r zero t Leaf); eauto using V_zero). subst r. apply Hi. reflexivity.
  Qed.

  (* re-running any operation whose result already has a handle returns that handle, whatever the caches hold (C07) *)
  Corollary same_handle s1 s2 r1 r2 t1 t2 : Inv s2 -> sext s1 s2 -> V s1 r1 t1 -> V s2 r2 t2 ->
    (forall e, rsem r1 t1 e = rsem r2 t2 e) -> r2 = r1.
  Proof. intros HT E V1 V2 H. symmetry. eapply canon_store; eauto using V_ext. Qed.

  (* ================= ite_constant (C12, repaired code) ================= *)
  Definition is_const (F : bfun) (o : option bool) : Prop :=
    match o with Some b => forall e, F e = b | None => forall b, ~ (forall e, F e = b) end.

  Lemma rsem_one e : rsem one Leaf e = true. Proof. reflexivity. Qed.
  Lemma rsem_zero e : rsem zero Leaf e = false. Proof. reflexivity. Qed.
  Lemma maybe_constant_ok s r t : Inv s -> V s r t -> is_const (rsem r t) (maybe_constant r).
  Proof.
    intros HT HV. unfold maybe_constant.
    destruct (is_zero r) eqn:Z; [apply is_zero_true in Z; subst r; unify_trees; intro e; reflexivity|].
    destruct (is_one r) eqn:O; [apply is_one_true in O; subst r; unify_trees; intro e; reflexivity|].
    intro b. eapply nonterm_nonconst; eauto. rewrite <- N.eqb_neq, <- term_idx, O, Z. reflexivity.
  Qed.
  Lemma is_const_congr F G o : (forall e, F e = G e) -> is_const F o -> is_const G o.
  Proof. intros E. destruct o as [b|]; cbn; [intros H e; now rewrite <- E|intros H b Hb; apply (H b); intro e; now rewrite E]. Qed.

  Definition mtop (i j k : N) : N :=
    let m := i in let m := if j =? 0 then m else N.min m j in if k =? 0 then m else N.min m k.
  Lemma mtop_ok s f g h tf tg th : Inv s -> V s f tf -> V s g tg -> V s h th -> idx f <> 1 ->
    let m := mtop (top s f) (top s g) (top s h) in
    0 < m /\ (tf = Leaf \/ m <= top s f) /\ (tg = Leaf \/ m <= top s g) /\ (th = Leaf \/ m <= top s h).
  Proof.
    intros HT Vf Vg Vh Hf m.
    destruct (top_cases _ _ _ HT Vf) as [(_ & _ & E)|(vi & ? & ? & ? & _ & Hti & Hvi & _)]; [contradiction|].
    assert (Hg : tg = Leaf /\ top s g = 0 \/ 0 < top s g).
    { destruct (top_cases _ _ _ HT Vg) as [(-> & Z & _)|(v0 & ? & ? & ? & _ & -> & Hp & _)]; auto. }
    assert (Hh : th = Leaf /\ top s h = 0 \/ 0 < top s h).
    { destruct (top_cases _ _ _ HT Vh) as [(-> & Z & _)|(v0 & ? & ? & ? & _ & -> & Hp & _)]; auto. }
    subst m. unfold mtop. rewrite Hti in *.
    destruct (N.eqb_spec (top s h) 0), (N.eqb_spec (top s g) 0); splits; try (right; lia); try lia;
      try (destruct Hg as [[-> _]|?]; [now left|right; lia]); try (destruct Hh as [[-> _]|?]; [now left|right; lia]).
  Qed.

  Lemma itec_ok : forall fuel s f g h o tf tg th,
    Inv s -> CInv s -> itec fuel s f g h = Some o -> V s f tf -> V s g tg -> V s h th ->
    is_const (fun e => if rsem f tf e then rsem g tg e else rsem h th e) o.
  Proof.
    induction fuel as [|fuel IH]; intros s f g h o tf tg th HT HC Hi Vf Vg Vh; [discriminate|].
    cbn [itec] in Hi.
    destruct (is_one f) eqn:C1.
    { apply is_one_true in C1; subst f. injection Hi as <-. unify_trees.
      eapply is_const_congr; [|eapply maybe_constant_ok; eauto]. intro e; reflexivity. }
    destruct (is_zero f) eqn:C2.
    { apply is_zero_true in C2; subst f. injection Hi as <-. unify_trees.
      eapply is_const_congr; [|eapply maybe_constant_ok; eauto]. intro e; reflexivity. }
    assert (Hfnt : idx f <> 1) by (rewrite <- N.eqb_neq, <- term_idx, C1, C2; reflexivity).
    destruct (ref_eqb g h) eqn:C3.
    { apply ref_eqb_true in C3; subst h. injection Hi as <-. unify_trees.
      eapply is_const_congr; [|eapply maybe_constant_ok; eauto]. intro e; cbn. now destruct (rsem f tf e). }
    destruct (is_one g && is_zero h) eqn:C4.
    { apply andb_prop in C4 as [A B]. apply is_one_true in A. apply is_zero_true in B. subst g h.
      injection Hi as <-. unify_trees. intros b Hb. eapply (nonterm_nonconst s f tf b); eauto.
      intro e. rewrite <- (Hb e). rewrite ?rsem_one, ?rsem_zero. now destruct (rsem f tf e). }
    destruct (is_zero g && is_one h) eqn:C5.
    { apply andb_prop in C5 as [A B]. apply is_zero_true in A. apply is_one_true in B. subst g h.
      injection Hi as <-. unify_trees. intros b Hb. eapply (nonterm_nonconst s f tf (negb b)); eauto.
      intro e. rewrite <- (Hb e). rewrite ?rsem_one, ?rsem_zero. now destruct (rsem f tf e). }
    destruct (is_one g && ref_eqb h (rneg f)) eqn:C6.
    { apply andb_prop in C6 as [A B]. apply is_one_true in A. apply ref_eqb_true in B. subst g h.
      injection Hi as <-. unify_trees. intro e. rewrite rsem_neg. rewrite ?rsem_one, ?rsem_zero. now destruct (rsem f tf e). }
    destruct (ref_eqb g f && is_one h) eqn:C7.
    { apply andb_prop in C7 as [A B]. apply ref_eqb_true in A. apply is_one_true in B. subst g h.
      injection Hi as <-. unify_trees. intro e. rewrite ?rsem_one, ?rsem_zero. now destruct (rsem f tf e). }
    destruct (ref_eqb g (rneg f) && is_zero h) eqn:C8.
    { apply andb_prop in C8 as [A B]. apply ref_eqb_true in A. apply is_zero_true in B. subst g h.
      injection Hi as <-. unify_trees. intro e. rewrite rsem_neg. rewrite ?rsem_one, ?rsem_zero. now destruct (rsem f tf e). }
    destruct (is_zero g && ref_eqb h f) eqn:C9.
    { apply andb_prop in C9 as [A B]. apply is_zero_true in A. apply ref_eqb_true in B. subst g h.
      injection Hi as <-. unify_trees. intro e. rewrite ?rsem_one, ?rsem_zero. now destruct (rsem f tf e). }
    destruct (cget s (KIte f g h)) as [res|] eqn:Hc.
    { injection Hi as <-. destruct (HC _ _ Hc) as (tf' & tg' & th' & tr & Vf' & Vg' & Vh' & Vr & Hs & _).
      unify_trees. eapply is_const_congr; [|eapply maybe_constant_ok; eauto]. exact Hs. }
    change (if top s h =? 0 then if top s g =? 0 then top s f else N.min (top s f) (top s g)
            else N.min (if top s g =? 0 then top s f else N.min (top s f) (top s g)) (top s h))
      with (mtop (top s f) (top s g) (top s h)) in Hi.
    destruct (mtop_ok s f g h tf tg th HT Vf Vg Vh Hfnt) as (Hm0 & Hmf & Hmg & Hmh).
    set (m := mtop (top s f) (top s g) (top s h)) in *.
    destruct (top_cofactors s f m) as [f0 f1] eqn:Tf.
    destruct (top_cofactors s g m) as [g0 g1] eqn:Tg.
    destruct (top_cofactors s h m) as [h0 h1] eqn:Th.
    destruct (tc_ok s f m tf HT Vf Hmf _ _ Tf) as (tf0 & tf1 & Vf0 & Vf1 & Af0 & Af1 & Sf & _).
    destruct (tc_ok s g m tg HT Vg Hmg _ _ Tg) as (tg0 & tg1 & Vg0 & Vg1 & Ag0 & Ag1 & Sg & _).
    destruct (tc_ok s h m th HT Vh Hmh _ _ Th) as (th0 & th1 & Vh0 & Vh1 & Ah0 & Ah1 & Sh & _).
    set (I1 := fun e : env => if rsem f1 tf1 e then rsem g1 tg1 e else rsem h1 th1 e).
    set (I0 := fun e : env => if rsem f0 tf0 e then rsem g0 tg0 e else rsem h0 th0 e).
    assert (HS : forall e, (if rsem f tf e then rsem g tg e else rsem h th e) = if e m then I1 e else I0 e).
    { intro e. rewrite Sf, Sg, Sh. unfold I1, I0. now destruct (e m). }
    assert (Hind1 : forall e b, I1 (upd e m b) = I1 e).
    { intros e b. unfold I1. now rewrite !(rsem_indep _ _ m m) by (auto; lia). }
    assert (Hind0 : forall e b, I0 (upd e m b) = I0 e).
    { intros e b. unfold I0. now rewrite !(rsem_indep _ _ m m) by (auto; lia). }
    assert (Hc1 : forall b, (forall e, (if rsem f tf e then rsem g tg e else rsem h th e) = b) -> forall e, I1 e = b).
    { intros b Hb e. rewrite <- (Hind1 e true), <- (Hb (upd e m true)), HS, upd_eq. reflexivity. }
    assert (Hc0 : forall b, (forall e, (if rsem f tf e then rsem g tg e else rsem h th e) = b) -> forall e, I0 e = b).
    { intros b Hb e. rewrite <- (Hind0 e false), <- (Hb (upd e m false)), HS, upd_eq. reflexivity. }
    destruct (itec fuel s f1 g1 h1) as [[t|]|] eqn:R1; [| |discriminate].
    - destruct (itec fuel s f0 g0 h0) as [e0|] eqn:R0; [|discriminate].
      pose proof (IH _ _ _ _ _ _ _ _ HT HC R1 Vf1 Vg1 Vh1) as P1. pose proof (IH _ _ _ _ _ _ _ _ HT HC R0 Vf0 Vg0 Vh0) as P0.
      change (is_const I1 (Some t)) in P1. change (is_const I0 e0) in P0. cbn in P1.
      destruct (obool_eqb e0 (Some t)) eqn:Eq; injection Hi as <-.
      + destruct e0 as [b0|]; cbn in Eq; [|discriminate]. apply Bool.eqb_prop in Eq. subst b0. cbn in P0.
        intro e. rewrite HS. destruct (e m); [apply P1|apply P0].
      + intros b Hb. pose proof (Hc1 b Hb) as H1. pose proof (Hc0 b Hb) as H0.
        assert (t = b) by (rewrite <- (P1 (fun _ => true)); apply H1). subst t.
        destruct e0 as [b0|]; cbn in P0.
        * assert (b0 = b) by (rewrite <- (P0 (fun _ => true)); apply H0). subst b0. cbn in Eq. now rewrite Bool.eqb_reflx in Eq.
        * apply (P0 b). exact H0.
    - injection Hi as <-. pose proof (IH _ _ _ _ _ _ _ _ HT HC R1 Vf1 Vg1 Vh1) as P1. change (is_const I1 None) in P1. cbn in P1.
      intros b Hb. apply (P1 b). apply Hc1. exact Hb.
  Qed.

End S.
